(** Land phase of the Sacramento model (Kernels/Sacramento.v): store invariant and water budgets of the
    code as it is, under explicit guards that exclude the situations of the refutations in
    KernelProofs/Sacramento.v:
      - static guard  [lzfpm p <= lzfsm p]  (then fracp <= 1; dynamic form [inc_guard])
      - static guard  [10 <= lztwm p]       (then 2*pinc <= lztwm, the ADIMP ratio stays <= 1)
      - per-step guard [pre_guard p st pet] (the ADIMP ratio numerator is >= 0 after the free-to-tension
        transfer, and pet <= uztwm + lztwm); sufficient: uztwc + uzfwc <= adimc ([pre_guard_suff]).
    Main results: [sac_inc_inv] (one iteration), [sac_pass_inv], [sac_loop_inv], [sac_pre_inv],
    [sac_land_inv] (invariant + pervious and ADIMP water budgets of the land phase), [sac_step_inv],
    [sacramento_c10_guarded] (run level). *)
From Coq Require Import Reals Lra Lia List Bool ZArith Psatz.
From OW Require Import Base.Arith Base.RInst Base.Mealy Kernels.Sacramento KernelProofs.RRCommon KernelProofs.Sacramento.
Import ListNotations.
Local Open Scope R_scope.

(** * Decomposition of one loop iteration [sac_inc] into blocks *)
Definition sMs (p : sac_par (T:=R)) : R := lzfsm p * (1 + side p).
Definition sMp (p : sac_par (T:=R)) : R := lzfpm p * (1 + side p).

Definition blk_perc (p : sac_par (T:=R)) (dinc u t P1 S1 : R) : R * R :=
  let pbase := sMs p * lzsk p + sMp p * lzpk p in
  let lzair := lztwm p - t + sMs p - S1 + sMp p - P1 in
  if Rltb 0 lzair then
    let perc0 := (pbase * dinc * u) / uzfwm p in
    let perc1 := Rmin lzair (Rmin u (perc0 * (1 + (zperc p *
                   Rpow (1 - (P1 + S1 + t) / (sMp p + sMs p + lztwm p)) (rexp p))))) in
    (perc1, u - perc1)
  else (0, u).

Definition blk_split (p : sac_par (T:=R)) (t perc P1 S1 : R) : R * R :=
  let perctw0 := Rmin (perc * (1 - pfree p)) (lztwm p - t) in
  let percfw0 := perc - perctw0 in
  let lzair2 := sMs p - S1 + sMp p - P1 in
  if Rltb lzair2 percfw0 then (perctw0 + percfw0 - lzair2, lzair2) else (perctw0, percfw0).

Definition blk_fw (p : sac_par (T:=R)) (percfw P1 S1 : R) : R * R :=
  if Rltb 0 percfw then
    let hpl := sMp p / (sMp p + sMs p) in
    let ratlp := 1 - P1 / sMp p in
    let ratls := 1 - S1 / sMs p in
    let percs0 := Rmin (sMs p - S1) (percfw * (1 - hpl * (ratlp + ratlp) / (ratlp + ratls))) in
    let a := S1 + percs0 in
    let '(percs, b) := if Rltb (sMs p) a then (percs0 - a + sMs p, sMs p) else (percs0, a) in
    let pa := P1 + percfw - percs in
    if Rltb (sMp p) pa then (b + pa - sMp p, sMp p) else (b, pa)
  else (S1, P1).

Definition blk_upper (p : sac_par (T:=R)) (c : sac_pass_c (T:=R)) (v : sac_inner (T:=R)) (P1 S1 : R)
  : R * R * R * R * R :=
  if Rltb 0 (i_uzfwc v) then
    let '(perc, uzfwc1) := blk_perc p (c_dinc c) (i_uzfwc v) (i_lztwc v) P1 S1 in
    let del := c_duz c * uzfwc1 in
    let '(perctw, percfw) := blk_split p (i_lztwc v) perc P1 S1 in
    let '(alzfsc2, alzfpc2) := blk_fw p percfw P1 S1 in
    (uzfwc1 - del, i_floin v + del, i_lztwc v + perctw, alzfsc2, alzfpc2)
  else (i_uzfwc v, i_floin v, i_lztwc v, S1, P1).

Definition blk_fill (p : sac_par (T:=R)) (pinc addro flosf u3 : R) : R * R * R :=
  if Rltb 0 pinc then
    if Rleb (pinc - uzfwm p + u3) 0 then (u3 + pinc, flosf, addro)
    else (uzfwm p, flosf + (pinc - uzfwm p + u3), addro + (pinc - uzfwm p + u3) * (1 - addro / pinc))
  else (u3, flosf, addro).

Definition blk_drain (x k : R) : R * R := if Rltb 0 x then (x, x * k) else (0, 0).

Lemma sac_inc_blocks p uztwc_ c v :
  sac_inc p uztwc_ c v =
  let pinc := c_pinc c in
  let ratio := (i_adimc v - uztwc_) / lztwm p in
  let addro := pinc * ratio * ratio in
  let '(P0, bf1) := blk_drain (i_alzfpc v) (c_dlzp c) in
  let '(S0, bf2) := blk_drain (i_alzfsc v) (c_dlzs c) in
  let '(u3, floin3, t3, S3, P3) := blk_upper p c v (P0 - bf1) (S0 - bf2) in
  let '(u4, flosf4, addro4) := blk_fill p pinc addro (i_flosf v) u3 in
  {| i_adimc := i_adimc v + pinc - addro4;
     i_alzfpc := P3; i_alzfsc := S3; i_flobf := i_flobf v + bf1 + bf2; i_uzfwc := u4;
     i_floin := floin3; i_lztwc := t3; i_flosf := flosf4;
     i_roimp := i_roimp v + addro4 * adimp p |}.
Proof. reflexivity. Qed.

(** * Block specifications *)
Lemma Rpow_nonneg x y : 0 <= Rpow x y.
Proof.
  unfold Rpow. destruct (Req_EM_T y 0); [lra|]. destruct (Req_EM_T x 0); [lra|].
  unfold Rpower. left. apply exp_pos.
Qed.

Lemma div_unit n d : 0 <= n <= d -> 0 < d -> 0 <= n / d <= 1.
Proof.
  intros [H1 H2] Hd. split.
  - apply Rdiv_pos_pos; assumption.
  - apply Rmult_le_reg_r with d; [assumption|]. unfold Rdiv. rewrite Rmult_assoc, Rinv_l by lra. lra.
Qed.

(** facts about p that follow from [sac_ok] *)
Record par_facts (p : sac_par (T:=R)) : Prop := {
  pf_Ms : 1 <= sMs p; pf_Mp : 1 <= sMp p; pf_Tm : 1 <= lztwm p; pf_Um : 1 <= uzfwm p;
  pf_lzsk : 0 <= lzsk p <= 1; pf_lzpk : 0 <= lzpk p <= 1; pf_pfree : 0 <= pfree p <= 1;
  pf_zperc : 0 <= zperc p; pf_adimp : 0 <= adimp p; pf_side : 0 <= side p }.

Lemma sac_ok_facts p : sac_ok p = true -> par_facts p.
Proof.
  intros H. sac_ok_split H. unfold sMs, sMp.
  constructor; unfold sMs, sMp; repeat split; try lra; nra.
Qed.

Lemma blk_drain_spec x k : 0 <= x -> blk_drain x k = (x, x * k).
Proof.
  intros Hx. unfold blk_drain. rcase_bool (Rltb 0 x); [reflexivity|].
  assert (x = 0) by lra. subst. f_equal. ring.
Qed.

Lemma blk_perc_spec p dinc u t P1 S1 perc u1 : par_facts p -> 0 <= dinc -> 0 <= u ->
  0 <= lztwm p - t + sMs p - S1 + sMp p - P1 ->
  blk_perc p dinc u t P1 S1 = (perc, u1) ->
  0 <= perc <= u /\ perc <= lztwm p - t + sMs p - S1 + sMp p - P1 /\ u1 = u - perc.
Proof.
  intros F Hd Hu Ha. destruct F. unfold blk_perc.
  set (lzair := lztwm p - t + sMs p - S1 + sMp p - P1) in *.
  rcase_bool (Rltb 0 lzair); intros E; injection E as <- <-; [|lra].
  set (x := _ * (1 + _)).
  assert (Hx : 0 <= x).
  { unfold x. apply Rmult_le_pos.
    - apply Rdiv_pos_pos; [|lra]. apply Rmult_le_pos; [apply Rmult_le_pos|]; try lra.
      assert (0 <= sMs p * lzsk p) by (apply Rmult_le_pos; lra).
      assert (0 <= sMp p * lzpk p) by (apply Rmult_le_pos; lra). lra.
    - pose proof (Rpow_nonneg (1 - (P1 + S1 + t) / (sMp p + sMs p + lztwm p)) (rexp p)) as Hp.
      pose proof (Rmult_le_pos _ _ pf_zperc0 Hp). lra. }
  assert (0 <= Rmin u x) by (apply Rmin_glb; lra).
  assert (Rmin u x <= u) by apply Rmin_l.
  assert (0 <= Rmin lzair (Rmin u x)) by (apply Rmin_glb; lra).
  pose proof (Rmin_l lzair (Rmin u x)). pose proof (Rmin_r lzair (Rmin u x)).
  repeat split; lra.
Qed.

Lemma blk_split_spec p t perc P1 S1 perctw percfw : par_facts p ->
  0 <= t <= lztwm p -> 0 <= sMs p - S1 + sMp p - P1 ->
  0 <= perc <= lztwm p - t + sMs p - S1 + sMp p - P1 ->
  blk_split p t perc P1 S1 = (perctw, percfw) ->
  perctw + percfw = perc /\ 0 <= percfw <= sMs p - S1 + sMp p - P1 /\ 0 <= perctw <= lztwm p - t.
Proof.
  intros F Ht Ha Hp. destruct F. unfold blk_split.
  set (tw0 := Rmin (perc * (1 - pfree p)) (lztwm p - t)).
  assert (H0 : 0 <= tw0) by (apply Rmin_glb; [apply Rmult_le_pos; lra | lra]).
  assert (H1 : tw0 <= perc).
  { eapply Rle_trans; [apply Rmin_l|]. assert (perc * pfree p >= 0) by nra. lra. }
  assert (H2 : tw0 <= lztwm p - t) by apply Rmin_r.
  rcase_bool (Rltb (sMs p - S1 + sMp p - P1) (perc - tw0)); intros E; injection E as <- <-;
    repeat split; lra.
Qed.

Lemma blk_fw_spec p percfw P1 S1 S2 P2 : par_facts p ->
  0 <= P1 <= sMp p -> 0 <= S1 <= sMs p -> 0 <= percfw <= sMs p - S1 + sMp p - P1 ->
  (0 < percfw ->
   sMp p / (sMp p + sMs p) * ((1 - P1 / sMp p) + (1 - P1 / sMp p)) <= (1 - P1 / sMp p) + (1 - S1 / sMs p)) ->
  blk_fw p percfw P1 S1 = (S2, P2) ->
  S2 + P2 = S1 + P1 + percfw /\ 0 <= S2 <= sMs p /\ 0 <= P2 <= sMp p.
Proof.
  intros F HP HS Hf G. destruct F. unfold blk_fw.
  rcase_bool (Rltb 0 percfw); [|intros E; injection E as <- <-; repeat split; lra].
  specialize (G Hc).
  set (hpl := sMp p / (sMp p + sMs p)) in *.
  set (ratlp := 1 - P1 / sMp p) in *. set (ratls := 1 - S1 / sMs p) in *.
  assert (Hlp : 0 <= ratlp <= 1).
  { pose proof (div_unit P1 (sMp p) HP ltac:(lra)). unfold ratlp. lra. }
  assert (Hls : 0 <= ratls <= 1).
  { pose proof (div_unit S1 (sMs p) HS ltac:(lra)). unfold ratls. lra. }
  assert (Hhpl : 0 <= hpl) by (unfold hpl; apply Rdiv_pos_pos; lra).
  assert (Hsum : 0 < ratlp + ratls).
  { destruct (Rle_lt_dec (ratlp + ratls) 0) as [Hz|]; [|assumption]. exfalso.
    assert (ratlp = 0) by lra. assert (ratls = 0) by lra.
    assert (P1 = sMp p).
    { unfold ratlp in *. assert (E : P1 / sMp p = 1) by lra.
      apply (f_equal (fun z => z * sMp p)) in E. unfold Rdiv in E. rewrite Rmult_assoc, Rinv_l in E by lra. lra. }
    assert (S1 = sMs p).
    { unfold ratls in *. assert (E : S1 / sMs p = 1) by lra.
      apply (f_equal (fun z => z * sMs p)) in E. unfold Rdiv in E. rewrite Rmult_assoc, Rinv_l in E by lra. lra. }
    lra. }
  set (fr := hpl * (ratlp + ratlp) / (ratlp + ratls)).
  assert (Hfr : 0 <= fr <= 1).
  { apply div_unit; [|assumption]. split; [apply Rmult_le_pos; lra | exact G]. }
  set (s0 := Rmin (sMs p - S1) (percfw * (1 - fr))).
  assert (Hs0 : 0 <= s0) by (apply Rmin_glb; [lra | apply Rmult_le_pos; lra]).
  assert (Hs1 : s0 <= sMs p - S1) by apply Rmin_l.
  assert (Hs2 : s0 <= percfw).
  { eapply Rle_trans; [apply Rmin_r|]. assert (0 <= percfw * fr) by (apply Rmult_le_pos; lra). lra. }
  rcase_bool (Rltb (sMs p) (S1 + s0)); [lra|].
  rcase_bool (Rltb (sMp p) (P1 + percfw - s0)); intros E; injection E as <- <-; repeat split; lra.
Qed.

Lemma blk_fill_spec p pinc addro flosf u3 u4 flosf4 addro4 : par_facts p ->
  0 <= pinc -> 0 <= addro <= pinc -> 0 <= u3 <= uzfwm p ->
  blk_fill p pinc addro flosf u3 = (u4, flosf4, addro4) ->
  0 <= u4 <= uzfwm p /\ flosf <= flosf4 /\ u4 + flosf4 = u3 + flosf + pinc /\ addro <= addro4 <= pinc.
Proof.
  intros F Hp Ha Hu. destruct F. unfold blk_fill.
  rcase_bool (Rltb 0 pinc); [|intros E; injection E as <- <- <-; repeat split; lra].
  rcase_bool (Rleb (pinc - uzfwm p + u3) 0); intros E; injection E as <- <- <-; [repeat split; lra|].
  set (pav := pinc - uzfwm p + u3) in *.
  pose proof (div_unit addro pinc Ha Hc) as Hq. set (q := addro / pinc) in *.
  assert (Eq : addro = q * pinc) by (unfold q; field; lra).
  assert (0 <= pav * (1 - q)) by (apply Rmult_le_pos; lra).
  assert (pav * (1 - q) <= pinc * (1 - q)) by (apply Rmult_le_compat_r; unfold pav; lra).
  repeat split; try lra. unfold pav. lra.
Qed.

(** guard excluded by [sac_lzfsc_negative_refuted]: fracp = hpl*2*ratlp/(ratlp+ratls) <= 1, on the
    free-water contents [P1], [S1] after the baseflow drainage of the iteration *)
Definition fracp_guard (p : sac_par (T:=R)) (P1 S1 : R) : Prop :=
  sMp p / (sMp p + sMs p) * ((1 - P1 / sMp p) + (1 - P1 / sMp p)) <= (1 - P1 / sMp p) + (1 - S1 / sMs p).

Lemma fracp_guard_static p P1 S1 : par_facts p -> lzfpm p <= lzfsm p ->
  0 <= P1 <= sMp p -> 0 <= S1 <= sMs p -> fracp_guard p P1 S1.
Proof.
  intros F Hm HP HS. pose proof F as F'. destruct F'. unfold fracp_guard.
  assert (Hle : sMp p <= sMs p) by (unfold sMp, sMs; apply Rmult_le_compat_r; lra).
  pose proof (div_unit P1 (sMp p) HP ltac:(lra)). pose proof (div_unit S1 (sMs p) HS ltac:(lra)).
  assert (0 <= 1 - P1 / sMp p <= 1) by lra. assert (0 <= 1 - S1 / sMs p <= 1) by lra.
  set (ratlp := 1 - P1 / sMp p) in *. set (ratls := 1 - S1 / sMs p) in *.
  assert (Hh : 0 <= sMp p / (sMp p + sMs p) <= 1 / 2).
  { split; [apply Rdiv_pos_pos; lra|].
    apply Rmult_le_reg_r with (sMp p + sMs p); [lra|]. unfold Rdiv at 1.
    rewrite Rmult_assoc, Rinv_l by lra. lra. }
  set (h := sMp p / (sMp p + sMs p)) in *.
  assert (h * (ratlp + ratlp) <= 1 / 2 * (ratlp + ratlp)) by (apply Rmult_le_compat_r; lra).
  lra.
Qed.

Lemma blk_upper_spec p c v P1 S1 u3 fi3 t3 S3 P3 : par_facts p ->
  0 <= c_dinc c -> 0 <= c_duz c <= 1 ->
  0 <= i_uzfwc v <= uzfwm p -> 0 <= i_lztwc v <= lztwm p -> 0 <= P1 <= sMp p -> 0 <= S1 <= sMs p ->
  fracp_guard p P1 S1 ->
  blk_upper p c v P1 S1 = (u3, fi3, t3, S3, P3) ->
  0 <= u3 <= i_uzfwc v /\ i_floin v <= fi3 /\ 0 <= t3 <= lztwm p /\ 0 <= S3 <= sMs p /\ 0 <= P3 <= sMp p /\
  u3 + fi3 + t3 + S3 + P3 = i_uzfwc v + i_floin v + i_lztwc v + S1 + P1.
Proof.
  intros F Hd Hz Hu Ht HP HS G. unfold blk_upper.
  rcase_bool (Rltb 0 (i_uzfwc v)); [|intros E; injection E as <- <- <- <- <-; repeat split; lra].
  destruct (blk_perc p (c_dinc c) (i_uzfwc v) (i_lztwc v) P1 S1) as [perc u1] eqn:E1.
  apply blk_perc_spec in E1; [|assumption|assumption|lra|lra]. destruct E1 as (Hp1 & Hp2 & ->).
  destruct (blk_split p (i_lztwc v) perc P1 S1) as [perctw percfw] eqn:E2.
  apply blk_split_spec in E2; [|assumption|assumption|lra|lra]. destruct E2 as (Hs1 & Hs2 & Hs3).
  destruct (blk_fw p percfw P1 S1) as [S2 P2] eqn:E3.
  apply blk_fw_spec in E3; [|assumption|assumption|assumption|assumption|intros _; exact G].
  destruct E3 as (Hf1 & Hf2 & Hf3).
  intros E; injection E as <- <- <- <- <-.
  assert (0 <= c_duz c * (i_uzfwc v - perc)) by (apply Rmult_le_pos; lra).
  assert (c_duz c * (i_uzfwc v - perc) <= 1 * (i_uzfwc v - perc)) by (apply Rmult_le_compat_r; lra).
  repeat split; lra.
Qed.

(** * (A) one loop iteration: store invariant and water budgets *)
Record inc_inv (p : sac_par (T:=R)) (uztwc_ : R) (v : sac_inner (T:=R)) : Prop := {
  ii_uzfwc : 0 <= i_uzfwc v <= uzfwm p;
  ii_lztwc : 0 <= i_lztwc v <= lztwm p;
  ii_alzfpc : 0 <= i_alzfpc v <= lzfpm p * (1 + side p);
  ii_alzfsc : 0 <= i_alzfsc v <= lzfsm p * (1 + side p);
  ii_adimc : uztwc_ <= i_adimc v <= uztwc_ + lztwm p;
  ii_flobf : 0 <= i_flobf v; ii_floin : 0 <= i_floin v; ii_flosf : 0 <= i_flosf v;
  ii_roimp : 0 <= i_roimp v }.

Definition pass_c_ok (p : sac_par (T:=R)) (c : sac_pass_c (T:=R)) : Prop :=
  0 <= c_pinc c /\ 2 * c_pinc c <= lztwm p /\ 0 < c_dinc c <= 1 /\ 0 <= c_duz c <= 1 /\
  0 <= c_dlzp c <= 1 /\ 0 <= c_dlzs c <= 1.

(** the guard of the iteration, on the values the code uses *)
Definition inc_guard (p : sac_par (T:=R)) (c : sac_pass_c (T:=R)) (v : sac_inner (T:=R)) : Prop :=
  fracp_guard p (i_alzfpc v - i_alzfpc v * c_dlzp c) (i_alzfsc v - i_alzfsc v * c_dlzs c).

Definition inc_budgets (p : sac_par (T:=R)) (c : sac_pass_c (T:=R)) (v v' : sac_inner (T:=R)) : Prop :=
  (* pervious-area budget of the iteration *)
  i_uzfwc v' + i_lztwc v' + i_alzfpc v' + i_alzfsc v' + i_flobf v' + i_floin v' + i_flosf v'
    = i_uzfwc v + i_lztwc v + i_alzfpc v + i_alzfsc v + i_flobf v + i_floin v + i_flosf v + c_pinc c /\
  (* ADIMP-area budget *)
  adimp p * i_adimc v' + i_roimp v' = adimp p * i_adimc v + i_roimp v + adimp p * c_pinc c.

Theorem sac_inc_inv_guarded : forall p uztwc_ c v, sac_ok p = true -> inc_guard p c v ->
  pass_c_ok p c -> inc_inv p uztwc_ v ->
  inc_inv p uztwc_ (sac_inc p uztwc_ c v) /\ inc_budgets p c v (sac_inc p uztwc_ c v) /\
  (* flows only accumulate *)
  i_flobf v <= i_flobf (sac_inc p uztwc_ c v) /\ i_floin v <= i_floin (sac_inc p uztwc_ c v) /\
  i_flosf v <= i_flosf (sac_inc p uztwc_ c v) /\ i_roimp v <= i_roimp (sac_inc p uztwc_ c v) /\
  i_adimc v <= i_adimc (sac_inc p uztwc_ c v).
Proof.
  intros p uz c v Hok G (Hc1 & Hc2 & Hc3 & Hc4 & Hc5 & Hc6) I.
  pose proof (sac_ok_facts p Hok) as F. pose proof F as F'. destruct F'. destruct I.
  fold (sMp p) in *. fold (sMs p) in *. unfold inc_guard in G.
  rewrite sac_inc_blocks. cbv zeta.
  rewrite (blk_drain_spec (i_alzfpc v) (c_dlzp c)) by lra.
  rewrite (blk_drain_spec (i_alzfsc v) (c_dlzs c)) by lra.
  set (P1 := i_alzfpc v - i_alzfpc v * c_dlzp c) in *.
  set (S1 := i_alzfsc v - i_alzfsc v * c_dlzs c) in *.
  assert (HP1 : 0 <= P1 <= sMp p).
  { unfold P1. assert (0 <= i_alzfpc v * c_dlzp c) by (apply Rmult_le_pos; lra).
    assert (i_alzfpc v * c_dlzp c <= i_alzfpc v * 1) by (apply Rmult_le_compat_l; lra). lra. }
  assert (HS1 : 0 <= S1 <= sMs p).
  { unfold S1. assert (0 <= i_alzfsc v * c_dlzs c) by (apply Rmult_le_pos; lra).
    assert (i_alzfsc v * c_dlzs c <= i_alzfsc v * 1) by (apply Rmult_le_compat_l; lra). lra. }
  assert (Hb1 : 0 <= i_alzfpc v * c_dlzp c) by (apply Rmult_le_pos; lra).
  assert (Hb2 : 0 <= i_alzfsc v * c_dlzs c) by (apply Rmult_le_pos; lra).
  destruct (blk_upper p c v P1 S1) as [[[[u3 fi3] t3] S3] P3] eqn:E1.
  apply blk_upper_spec in E1; try assumption; try lra.
  destruct E1 as (Hu3 & Hfi & Ht3 & HS3 & HP3 & Hbud).
  (* the ADIMP ratio *)
  set (r := (i_adimc v - uz) / lztwm p).
  assert (Hr : 0 <= r <= 1) by (apply div_unit; lra).
  assert (Er : i_adimc v - uz = r * lztwm p) by (unfold r; field; lra).
  assert (Hrr : 0 <= r * r <= 1) by nra.
  set (addro := c_pinc c * r * r).
  assert (Hadd : 0 <= addro <= c_pinc c).
  { unfold addro. rewrite Rmult_assoc. split; [apply Rmult_le_pos; lra|].
    assert (c_pinc c * (r * r) <= c_pinc c * 1) by (apply Rmult_le_compat_l; lra). lra. }
  destruct (blk_fill p (c_pinc c) addro (i_flosf v) u3) as [[u4 fs4] ad4] eqn:E2.
  apply blk_fill_spec in E2; try assumption; try lra.
  destruct E2 as (Hu4 & Hfs & Hbud2 & Had4).
  assert (Hro : 0 <= ad4 * adimp p) by (apply Rmult_le_pos; lra).
  assert (Hup : i_adimc v + c_pinc c - addro <= uz + lztwm p).
  { unfold addro. assert (0 <= (1 - r) * (lztwm p - c_pinc c * (1 + r))).
    { apply Rmult_le_pos; [lra|]. assert (c_pinc c * (1 + r) <= c_pinc c * 2) by (apply Rmult_le_compat_l; lra). lra. }
    nra. }
  split; [|split].
  - constructor; cbn [i_adimc i_alzfpc i_alzfsc i_flobf i_uzfwc i_floin i_lztwc i_flosf i_roimp];
      fold (sMp p); fold (sMs p); lra.
  - unfold inc_budgets. cbn [i_adimc i_alzfpc i_alzfsc i_flobf i_uzfwc i_floin i_lztwc i_flosf i_roimp].
    split; [unfold P1, S1 in Hbud; lra | ring].
  - cbn [i_adimc i_alzfpc i_alzfsc i_flobf i_uzfwc i_floin i_lztwc i_flosf i_roimp].
    repeat split; lra.
Qed.

(** the form with the static guard lzfpm <= lzfsm (then hpl <= 1/2 and fracp <= 1 always) *)
Theorem sac_inc_inv : forall p uztwc_ c v, sac_ok p = true -> lzfpm p <= lzfsm p ->
  pass_c_ok p c -> inc_inv p uztwc_ v ->
  let v' := sac_inc p uztwc_ c v in
  inc_inv p uztwc_ v' /\
  i_uzfwc v' + i_lztwc v' + i_alzfpc v' + i_alzfsc v' + i_flobf v' + i_floin v' + i_flosf v'
    = i_uzfwc v + i_lztwc v + i_alzfpc v + i_alzfsc v + i_flobf v + i_floin v + i_flosf v + c_pinc c /\
  adimp p * i_adimc v' + i_roimp v' = adimp p * i_adimc v + i_roimp v + adimp p * c_pinc c.
Proof.
  intros p uz c v Hok Hm Hc I v'.
  assert (G : inc_guard p c v).
  { pose proof (sac_ok_facts p Hok) as F. destruct Hc as (_ & _ & _ & _ & Hc5 & Hc6). destruct I.
    unfold inc_guard. apply fracp_guard_static; try assumption; unfold sMp, sMs.
    - assert (0 <= i_alzfpc v * c_dlzp c) by (apply Rmult_le_pos; lra).
      assert (i_alzfpc v * c_dlzp c <= i_alzfpc v * 1) by (apply Rmult_le_compat_l; lra). lra.
    - assert (0 <= i_alzfsc v * c_dlzs c) by (apply Rmult_le_pos; lra).
      assert (i_alzfsc v * c_dlzs c <= i_alzfsc v * 1) by (apply Rmult_le_compat_l; lra). lra. }
  destruct (sac_inc_inv_guarded p uz c v Hok G Hc I) as (H1 & [H2 H3] & _).
  exact (conj H1 (conj H2 H3)).
Qed.

(** * (B) one pass of the loop: [sac_pass] *)
Lemma Rpow_unit b e : 0 < b <= 1 -> 0 <= e -> 0 <= Rpow b e <= 1.
Proof.
  intros Hb He. unfold Rpow. destruct (Req_EM_T e 0); [lra|]. destruct (Req_EM_T b 0); [lra|].
  unfold Rpower. split; [left; apply exp_pos|].
  assert (Hl : ln b <= 0).
  { destruct (Req_dec b 1) as [->|]; [rewrite ln_1; lra|]. rewrite <- ln_1. left. apply ln_increasing; lra. }
  assert (Hx : e * ln b <= 0) by nra.
  destruct Hx as [Hx|Hx]; [|rewrite Hx, exp_0; lra].
  left. rewrite <- exp_0. now apply exp_increasing.
Qed.

Lemma one_minus_pow_unit k d : 0 <= k <= 1 -> 0 <= d ->
  0 <= (if Rltb k 1 then 1 - Rpow (1 - k) d else 1) <= 1.
Proof.
  intros Hk Hd. rcase_bool (Rltb k 1); [|lra].
  pose proof (Rpow_unit (1 - k) d ltac:(lra) Hd). lra.
Qed.

(** [int(math.Floor(x))] for any x >= 0 *)
Lemma Rtrunc_Rfloor_nonneg x : 0 <= x ->
  exists k, (0 <= k)%Z /\ Rtrunc (Rfloor x) = k /\ IZR k <= x < IZR k + 1.
Proof.
  intros Hx. exists (Int_part x). destruct (base_Int_part x) as [H1 H2].
  assert (Hb : IZR (Int_part x) <= x < IZR (Int_part x) + 1) by lra.
  assert (Hk : (0 <= Int_part x)%Z).
  { destruct (Z_lt_le_dec (Int_part x) 0) as [Hn|]; [|assumption]. exfalso.
    assert (Int_part x + 1 <= 0)%Z by lia. apply IZR_le in H. rewrite plus_IZR in H. simpl in H. lra. }
  repeat split; try assumption; try lra. apply Rtrunc_Rfloor_between; assumption.
Qed.

Definition perv_sum (v : sac_inner (T:=R)) : R :=
  i_uzfwc v + i_lztwc v + i_alzfpc v + i_alzfsc v + i_flobf v + i_floin v + i_flosf v.

Lemma sac_iter_inv p uztwc_ c n v : sac_ok p = true -> lzfpm p <= lzfsm p ->
  pass_c_ok p c -> inc_inv p uztwc_ v ->
  inc_inv p uztwc_ (Nat.iter n (sac_inc p uztwc_ c) v) /\
  perv_sum (Nat.iter n (sac_inc p uztwc_ c) v) = perv_sum v + INR n * c_pinc c /\
  adimp p * i_adimc (Nat.iter n (sac_inc p uztwc_ c) v) + i_roimp (Nat.iter n (sac_inc p uztwc_ c) v)
    = adimp p * i_adimc v + i_roimp v + adimp p * (INR n * c_pinc c).
Proof.
  intros Hok Hm Hc I. induction n as [|n IH].
  - cbn [Nat.iter nat_rect]. simpl INR. split; [exact I | split; lra].
  - change (Nat.iter (S n) (sac_inc p uztwc_ c) v)
      with (sac_inc p uztwc_ c (Nat.iter n (sac_inc p uztwc_ c) v)).
    destruct IH as (I1 & B1 & B2).
    destruct (sac_inc_inv p uztwc_ c _ Hok Hm Hc I1) as (I2 & C1 & C2).
    rewrite S_INR. unfold perv_sum in *. split; [exact I2 | split; lra].
Qed.

Theorem sac_pass_inv : forall p uztwc_ adj pav v, sac_ok p = true -> lzfpm p <= lzfsm p ->
  10 <= lztwm p -> 0 < adj <= 1 -> 0 <= pav -> inc_inv p uztwc_ v ->
  let v' := sac_pass p uztwc_ adj pav v in
  inc_inv p uztwc_ v' /\ perv_sum v' = perv_sum v + pav /\
  adimp p * i_adimc v' + i_roimp v' = adimp p * i_adimc v + i_roimp v + adimp p * pav.
Proof.
  intros p uz adj pav v Hok Hm Ht Ha Hp I v'. subst v'.
  pose proof Hok as Hok'. sac_ok_split Hok'.
  unfold sac_pass. runfold. cbn [truncZ afloor RArith].
  set (x := (i_uzfwc v * adj + pav) * (1 / 5)).
  assert (Hx : 0 <= x).
  { unfold x. destruct I. assert (0 <= i_uzfwc v * adj) by (apply Rmult_le_pos; lra). lra. }
  assert (Hxp : pav <= 5 * x).
  { unfold x. destruct I. assert (0 <= i_uzfwc v * adj) by (apply Rmult_le_pos; lra). lra. }
  destruct (Rtrunc_Rfloor_nonneg x Hx) as (k & Hk & -> & Hk1 & Hk2).
  set (ninc := (k + 1)%Z).
  assert (Hn : IZR ninc = IZR k + 1) by (unfold ninc; rewrite plus_IZR; simpl; lra).
  assert (Hn1 : 1 <= IZR ninc) by (apply IZR_le in Hk; simpl in Hk; lra).
  set (d0 := 1 / IZR ninc).
  assert (Hd0 : 0 < d0 <= 1).
  { unfold d0. split; [apply Rdiv_lt_0_compat; lra|].
    apply Rmult_le_reg_r with (IZR ninc); [lra|]. unfold Rdiv. rewrite Rmult_assoc, Rinv_l by lra. lra. }
  assert (Ed0 : IZR ninc * d0 = 1) by (unfold d0; field; lra).
  assert (Hdinc : 0 < d0 * adj <= 1) by nra.
  assert (Hpinc : 0 <= pav * d0) by (apply Rmult_le_pos; lra).
  assert (Hpinc2 : pav * d0 < 5).
  { assert (pav * d0 < 5 * (IZR ninc * d0)); [|lra].
    rewrite <- Rmult_assoc. apply Rmult_lt_compat_r; lra. }
  match goal with |- context [if ?b then _ else _] => set (cond := b) end.
  match goal with |- context [if cond then ?a else ?b] =>
    assert (Htr : exists duz dlzp dlzs, (if cond then a else b) = (duz, dlzp, dlzs) /\
                   0 <= duz <= 1 /\ 0 <= dlzp <= 1 /\ 0 <= dlzs <= 1) end.
  { destruct cond.
    - do 3 eexists. split; [reflexivity|]. repeat split; lra.
    - do 3 eexists. split; [reflexivity|].
      pose proof (one_minus_pow_unit (uzk p) (d0 * adj) ltac:(lra) ltac:(lra)).
      pose proof (one_minus_pow_unit (lzpk p) (d0 * adj) ltac:(lra) ltac:(lra)).
      pose proof (one_minus_pow_unit (lzsk p) (d0 * adj) ltac:(lra) ltac:(lra)).
      repeat split; lra. }
  destruct Htr as (duz & dlzp & dlzs & -> & Hz1 & Hz2 & Hz3).
  set (c := {| c_pinc := pav * d0; c_dinc := d0 * adj; c_duz := duz; c_dlzp := dlzp; c_dlzs := dlzs |}).
  assert (Hc : pass_c_ok p c).
  { unfold pass_c_ok, c. cbn [c_pinc c_dinc c_duz c_dlzp c_dlzs]. repeat split; lra. }
  destruct (sac_iter_inv p uz c (Z.to_nat ninc) v Hok Hm Hc I) as (I1 & B1 & B2).
  assert (En : INR (Z.to_nat ninc) * c_pinc c = pav).
  { rewrite INR_IZR_INZ, Z2Nat.id by (unfold ninc; lia). unfold c; cbn [c_pinc].
    rewrite (Rmult_comm pav), <- Rmult_assoc, Ed0. ring. }
  rewrite En in B1, B2. exact (conj I1 (conj B1 B2)).
Qed.

(** * (C1) the loop [sac_loop]: one or two passes *)
Theorem sac_loop_inv : forall p uztwc_ pav v, sac_ok p = true -> lzfpm p <= lzfsm p ->
  10 <= lztwm p -> 0 <= pav -> inc_inv p uztwc_ v ->
  let v' := sac_loop p uztwc_ pav v in
  inc_inv p uztwc_ v' /\ perv_sum v' = perv_sum v + pav /\
  adimp p * i_adimc v' + i_roimp v' = adimp p * i_adimc v + i_roimp v + adimp p * pav.
Proof.
  intros p uz pav v Hok Hm Ht Hp I v'. subst v'.
  unfold sac_loop, pdn20, pdnor, half_pdnor. runfold.
  rcase_bool (Rleb pav (508 / 100)).
  - change (2 =? 1)%Z with false. cbv iota.
    apply (sac_pass_inv p uz 1 pav v Hok Hm Ht); [lra | assumption | assumption].
  - set (adj := if Rltb pav (254 / 10) then 1 / 2 * sqrt (pav / (254 / 10)) else 1 - 127 / 10 / pav).
    assert (Ha : 0 < adj < 1).
    { unfold adj. rcase_bool (Rltb pav (254 / 10)).
      - assert (H0 : 0 < pav / (254 / 10)) by (apply Rdiv_lt_0_compat; lra).
        assert (H1 : pav / (254 / 10) <= 1) by (apply Rmult_le_reg_r with (254 / 10); [lra|]; unfold Rdiv at 1; rewrite Rmult_assoc, Rinv_l by lra; lra).
        pose proof (sqrt_lt_R0 _ H0). pose proof (sqrt_le_1_alt _ _ H1) as H2. rewrite sqrt_1 in H2. lra.
      - assert (H0 : 0 < 127 / 10 / pav) by (apply Rdiv_lt_0_compat; lra).
        assert (H1 : 127 / 10 / pav <= 1 / 2).
        { apply Rmult_le_reg_r with pav; [lra|]. unfold Rdiv at 1. rewrite Rmult_assoc, Rinv_l by lra. lra. }
        lra. }
    change (1 =? 1)%Z with true. cbv iota.
    destruct (sac_pass_inv p uz adj pav v Hok Hm Ht ltac:(lra) Hp I) as (I1 & B1 & B2).
    destruct (sac_pass_inv p uz (1 - adj) 0 _ Hok Hm Ht ltac:(lra) ltac:(lra) I1) as (I2 & C1 & C2).
    split; [exact I2 | split; lra].
Qed.

(** * (C2) the land phase before the loop: [sac_pre] *)
Definition pre_evap (p : sac_par (T:=R)) (st : sac_st (T:=R)) (evapt : R) : R * R * R * R :=
  let e1a := if Rltb 0 (uztwm p) then evapt * uztwc st / uztwm p else 0 in
  if Rltb (uztwc st) e1a then
    (uztwc st, Rmin (evapt - uztwc st) (uzfwc st), 0, uzfwc st - Rmin (evapt - uztwc st) (uzfwc st))
  else (e1a, 0, uztwc st - e1a, uzfwc st).

Definition pre_transfer (p : sac_par (T:=R)) (uztwc1 uzfwc1 : R) : R * R :=
  let a1 := if Rltb 0 (uztwm p) then uztwc1 / uztwm p else 1 in
  let b1 := if Rltb 0 (uzfwm p) then uzfwc1 / uzfwm p else 1 in
  if Rltb a1 b1 then
    (uztwm p * ((uztwc1 + uzfwc1) / (uztwm p + uzfwm p)), uzfwm p * ((uztwc1 + uzfwc1) / (uztwm p + uzfwm p)))
  else (uztwc1, uzfwc1).

Definition pre_e35 (p : sac_par (T:=R)) (st : sac_st (T:=R)) (evapt e1 e2 uztwc2 : R) : R * R :=
  if Rltb 0 (uztwm p + lztwm p) then
    (Rmin ((evapt - e1 - e2) * lztwc st / (uztwm p + lztwm p)) (lztwc st),
     Rmin (e1 + (evapt - e1 - e2) * (adimc st - e1 - uztwc2) / (uztwm p + lztwm p)) (adimc st))
  else (0, 0).

Definition pre_resupply (p : sac_par (T:=R)) (st : sac_st (T:=R)) (lztwc1 : R) : R * R * R :=
  let saved := rserv p * (lzfpm p + lzfsm p) in
  let a2 := if Rltb 0 (lztwm p) then lztwc1 / lztwm p else 1 in
  let b2 := if Rltb 0 (sMp p + sMs p - saved + lztwm p)
            then (alzfpc st + alzfsc st - saved + lztwc1) / (sMp p + sMs p - saved + lztwm p)
            else 1 in
  if Rltb a2 b2 then
    if Rltb (alzfsc st - (b2 - a2) * lztwm p) 0
    then (lztwc1 + (b2 - a2) * lztwm p, 0, alzfpc st + (alzfsc st - (b2 - a2) * lztwm p))
    else (lztwc1 + (b2 - a2) * lztwm p, alzfsc st - (b2 - a2) * lztwm p, alzfpc st)
  else (lztwc1, alzfsc st, alzfpc st).

Definition pre_fill (p : sac_par (T:=R)) (pliq adimc1 uztwc2 : R) : R * R * R :=
  if Rltb (pliq + uztwc2 - uztwm p) 0 then (adimc1 + pliq, uztwc2 + pliq, 0)
  else (adimc1 + uztwm p - uztwc2, uztwm p, pliq + uztwc2 - uztwm p).

Lemma sac_pre_blocks p st pliq evapt :
  sac_pre p st (pliq, evapt) =
  let '(e1, e2, uztwc1, uzfwc1) := pre_evap p st evapt in
  let '(uztwc2, uzfwc2) := pre_transfer p uztwc1 uzfwc1 in
  let '(e3, e5) := pre_e35 p st evapt e1 e2 uztwc2 in
  let '(lztwc2, alzfsc2, alzfpc2) := pre_resupply p st (lztwc st - e3) in
  let '(adimc2, uztwc3, pav) := pre_fill p pliq (adimc st - e5) uztwc2 in
  {| pr_v0 := {| i_adimc := adimc2; i_alzfpc := alzfpc2; i_alzfsc := alzfsc2; i_flobf := 0;
                 i_uzfwc := uzfwc2; i_floin := 0; i_lztwc := lztwc2; i_flosf := 0;
                 i_roimp := pliq * pctim p |};
     pr_uztwc := uztwc3; pr_pav := pav; pr_e1 := e1; pr_e2 := e2; pr_e3 := e3; pr_e5 := e5 |}.
Proof. reflexivity. Qed.

(** the store invariant of the state between time steps (the fields read by the land phase) *)
Record st_inv (p : sac_par (T:=R)) (st : sac_st (T:=R)) : Prop := {
  si_uztwc : 0 <= uztwc st <= uztwm p;
  si_uzfwc : 0 <= uzfwc st <= uzfwm p;
  si_lztwc : 0 <= lztwc st <= lztwm p;
  si_alzfpc : 0 <= alzfpc st <= lzfpm p * (1 + side p);
  si_alzfsc : 0 <= alzfsc st <= lzfsm p * (1 + side p);
  si_adimc : uztwc st <= adimc st <= uztwc st + lztwm p }.

(** guard of the pre phase: the numerator [adimc - e1 - uztwc] of the ADIMP ratio used by the code is
    non-negative after the free-to-tension transfer (the missing guard of
    [sac_adimc_ratio_negative_refuted]), and the PET does not exceed the tension capacity *)
Definition pre_guard (p : sac_par (T:=R)) (st : sac_st (T:=R)) (evapt : R) : Prop :=
  (let '(e1, e2, uztwc1, uzfwc1) := pre_evap p st evapt in
   let '(uztwc2, uzfwc2) := pre_transfer p uztwc1 uzfwc1 in
   e1 + uztwc2 <= adimc st) /\ evapt <= uztwm p + lztwm p.

Lemma pre_evap_spec p st evapt e1 e2 u1 f1 : 1 <= uztwm p -> st_inv p st -> 0 <= evapt ->
  pre_evap p st evapt = (e1, e2, u1, f1) ->
  0 <= e1 /\ 0 <= e2 /\ e1 + e2 <= evapt /\ u1 = uztwc st - e1 /\ f1 = uzfwc st - e2 /\
  0 <= u1 <= uztwm p /\ 0 <= f1 <= uzfwm p.
Proof.
  intros Hm I He. destruct I. unfold pre_evap.
  replace (Rltb 0 (uztwm p)) with true by (symmetry; apply Rltb_true; lra).
  set (e1a := evapt * uztwc st / uztwm p).
  assert (Ha : 0 <= e1a <= evapt).
  { unfold e1a. pose proof (div_unit (uztwc st) (uztwm p) si_uztwc0 ltac:(lra)) as Hq.
    replace (evapt * uztwc st / uztwm p) with (evapt * (uztwc st / uztwm p)) by (field; lra).
    split; [apply Rmult_le_pos; lra|].
    assert (evapt * (uztwc st / uztwm p) <= evapt * 1) by (apply Rmult_le_compat_l; lra). lra. }
  rcase_bool (Rltb (uztwc st) e1a); intros E; injection E as <- <- <- <-.
  - pose proof (Rmin_l (evapt - uztwc st) (uzfwc st)). pose proof (Rmin_r (evapt - uztwc st) (uzfwc st)).
    assert (0 <= Rmin (evapt - uztwc st) (uzfwc st)) by (apply Rmin_glb; lra).
    repeat split; lra.
  - repeat split; lra.
Qed.

Lemma pre_transfer_spec p u1 f1 u2 f2 : 1 <= uztwm p -> 1 <= uzfwm p ->
  0 <= u1 <= uztwm p -> 0 <= f1 <= uzfwm p -> pre_transfer p u1 f1 = (u2, f2) ->
  u2 + f2 = u1 + f1 /\ 0 <= u2 <= uztwm p /\ 0 <= f2 <= uzfwm p /\ u1 <= u2.
Proof.
  intros Hm1 Hm2 Hu Hf. unfold pre_transfer.
  replace (Rltb 0 (uztwm p)) with true by (symmetry; apply Rltb_true; lra).
  replace (Rltb 0 (uzfwm p)) with true by (symmetry; apply Rltb_true; lra).
  rcase_bool (Rltb (u1 / uztwm p) (f1 / uzfwm p)); intros E; injection E as <- <-; [|repeat split; lra].
  assert (Hx : u1 * uzfwm p < f1 * uztwm p).
  { apply (Rmult_lt_compat_r (uztwm p * uzfwm p)) in Hc; [|nra].
    replace (u1 / uztwm p * (uztwm p * uzfwm p)) with (u1 * uzfwm p) in Hc by (field; lra).
    replace (f1 / uzfwm p * (uztwm p * uzfwm p)) with (f1 * uztwm p) in Hc by (field; lra). exact Hc. }
  pose proof (div_unit (u1 + f1) (uztwm p + uzfwm p) ltac:(lra) ltac:(lra)) as Ha.
  set (a := (u1 + f1) / (uztwm p + uzfwm p)) in *.
  assert (Ea : a * (uztwm p + uzfwm p) = u1 + f1) by (unfold a; field; lra).
  assert (0 <= uztwm p * a) by (apply Rmult_le_pos; lra).
  assert (0 <= uzfwm p * a) by (apply Rmult_le_pos; lra).
  assert (uztwm p * a <= uztwm p * 1) by (apply Rmult_le_compat_l; lra).
  assert (uzfwm p * a <= uzfwm p * 1) by (apply Rmult_le_compat_l; lra).
  assert (u1 <= uztwm p * a).
  { apply Rmult_le_reg_r with (uztwm p + uzfwm p); [lra|].
    replace (uztwm p * a * (uztwm p + uzfwm p)) with (uztwm p * (u1 + f1)) by (rewrite <- Ea; ring). nra. }
  repeat split; lra.
Qed.

Lemma pre_e35_spec p st evapt e1 e2 u2 e3 e5 : 1 <= uztwm p -> 1 <= lztwm p ->
  0 <= lztwc st <= lztwm p -> 0 <= u2 ->
  0 <= evapt - e1 - e2 <= uztwm p + lztwm p -> 0 <= e1 -> e1 + u2 <= adimc st ->
  pre_e35 p st evapt e1 e2 u2 = (e3, e5) ->
  0 <= e3 <= lztwc st /\ e3 <= evapt - e1 - e2 /\ 0 <= e5 /\
  0 <= adimc st - e5 - u2 <= adimc st - e1 - u2.
Proof.
  intros Hm1 Hm2 Hl Hu HR He1 Hd. unfold pre_e35.
  replace (Rltb 0 (uztwm p + lztwm p)) with true by (symmetry; apply Rltb_true; lra).
  intros E; injection E as <- <-.
  set (W := uztwm p + lztwm p) in *. set (Rr := evapt - e1 - e2) in *.
  pose proof (div_unit Rr W HR ltac:(unfold W; lra)) as Hq. set (q := Rr / W) in *.
  replace (Rr * lztwc st / W) with (q * lztwc st) by (unfold q; field; unfold W; lra).
  replace (Rr * (adimc st - e1 - u2) / W) with (q * (adimc st - e1 - u2)) by (unfold q; field; unfold W; lra).
  assert (H1 : 0 <= q * lztwc st) by (apply Rmult_le_pos; lra).
  assert (H2 : q * lztwc st <= 1 * lztwc st) by (apply Rmult_le_compat_r; lra).
  assert (H3 : 0 <= q * (adimc st - e1 - u2)) by (apply Rmult_le_pos; lra).
  assert (H4 : q * (adimc st - e1 - u2) <= 1 * (adimc st - e1 - u2)) by (apply Rmult_le_compat_r; lra).
  assert (H5 : q * lztwc st <= Rr).
  { assert (q * lztwc st <= q * W) by (apply Rmult_le_compat_l; unfold W; lra).
    assert (q * W = Rr) by (unfold q; field; unfold W; lra). lra. }
  rewrite (Rmin_left (q * lztwc st)) by lra.
  rewrite (Rmin_left (e1 + q * (adimc st - e1 - u2))) by lra.
  repeat split; lra.
Qed.

Lemma pre_resupply_spec p st l1 l2 S2 P2 : par_facts p -> 0 <= rserv p <= 1 -> 1 <= lzfpm p -> 1 <= lzfsm p ->
  st_inv p st -> 0 <= l1 <= lztwm p -> pre_resupply p st l1 = (l2, S2, P2) ->
  l2 + S2 + P2 = l1 + alzfsc st + alzfpc st /\ 0 <= l2 <= lztwm p /\
  0 <= S2 <= sMs p /\ 0 <= P2 <= sMp p.
Proof.
  intros F Hr Hp1 Hs1 I Hl. destruct F. destruct I. fold (sMp p) in *. fold (sMs p) in *.
  unfold pre_resupply. set (saved := rserv p * (lzfpm p + lzfsm p)).
  assert (Hsv : 0 <= saved <= sMp p + sMs p).
  { unfold saved. split; [apply Rmult_le_pos; lra|].
    assert (rserv p * (lzfpm p + lzfsm p) <= 1 * (lzfpm p + lzfsm p)) by (apply Rmult_le_compat_r; lra).
    unfold sMp, sMs. nra. }
  set (D := sMp p + sMs p - saved + lztwm p).
  assert (HD : lztwm p <= D) by (unfold D; lra).
  replace (Rltb 0 (lztwm p)) with true by (symmetry; apply Rltb_true; lra).
  replace (Rltb 0 D) with true by (symmetry; apply Rltb_true; lra).
  set (N := alzfpc st + alzfsc st - saved + l1).
  set (a2 := l1 / lztwm p). set (b2 := N / D).
  assert (Ea : a2 * lztwm p = l1) by (unfold a2; field; lra).
  assert (Eb : b2 * D = N) by (unfold b2; field; lra).
  assert (Ha : 0 <= a2) by (unfold a2; apply Rdiv_pos_pos; lra).
  rcase_bool (Rltb a2 b2); [|intros E; injection E as <- <- <-; repeat split; lra].
  assert (Hb1 : b2 <= 1).
  { apply Rmult_le_reg_r with D; [lra|]. rewrite Eb. unfold N, D. lra. }
  replace ((b2 - a2) * lztwm p) with (b2 * lztwm p - l1) by (rewrite <- Ea; ring).
  assert (H1 : 0 <= b2 * lztwm p) by (apply Rmult_le_pos; lra).
  assert (H2 : b2 * lztwm p <= 1 * lztwm p) by (apply Rmult_le_compat_r; lra).
  assert (H3 : l1 < b2 * lztwm p) by (rewrite <- Ea; apply Rmult_lt_compat_r; lra).
  assert (H4 : 0 <= b2 * (D - lztwm p)) by (apply Rmult_le_pos; lra).
  assert (H5 : alzfpc st + alzfsc st + l1 - b2 * lztwm p = b2 * (D - lztwm p) + saved).
  { replace (b2 * (D - lztwm p)) with (b2 * D - b2 * lztwm p) by ring. rewrite Eb. unfold N. ring. }
  rcase_bool (Rltb (alzfsc st - (b2 * lztwm p - l1)) 0); intros E; injection E as <- <- <-;
    repeat split; lra.
Qed.

Lemma pre_fill_spec p pliq a1 u2 a2 u3 pav : 0 <= pliq -> 0 <= u2 <= uztwm p ->
  pre_fill p pliq a1 u2 = (a2, u3, pav) ->
  0 <= pav /\ 0 <= u3 <= uztwm p /\ a2 - u3 = a1 - u2 /\ u3 + pav = u2 + pliq /\ a2 + pav = a1 + pliq.
Proof.
  intros Hp Hu. unfold pre_fill.
  rcase_bool (Rltb (pliq + u2 - uztwm p) 0); intros E; injection E as <- <- <-; repeat split; lra.
Qed.

Theorem sac_pre_inv : forall p st pliq evapt, sac_ok p = true -> st_inv p st ->
  0 <= pliq -> 0 <= evapt -> pre_guard p st evapt ->
  let pre := sac_pre p st (pliq, evapt) in
  inc_inv p (pr_uztwc pre) (pr_v0 pre) /\ 0 <= pr_pav pre /\ 0 <= pr_uztwc pre <= uztwm p /\
  0 <= pr_e1 pre /\ 0 <= pr_e2 pre /\ 0 <= pr_e3 pre /\ 0 <= pr_e5 pre /\
  pr_e1 pre + pr_e2 pre + pr_e3 pre <= evapt /\
  (* pervious-area budget *)
  pr_uztwc pre + perv_sum (pr_v0 pre) + pr_pav pre + pr_e1 pre + pr_e2 pre + pr_e3 pre
    = uztwc st + uzfwc st + lztwc st + alzfpc st + alzfsc st + pliq /\
  (* ADIMP-area budget *)
  i_adimc (pr_v0 pre) + pr_pav pre + pr_e5 pre = adimc st + pliq /\
  i_roimp (pr_v0 pre) = pliq * pctim p /\
  i_flobf (pr_v0 pre) = 0 /\ i_floin (pr_v0 pre) = 0 /\ i_flosf (pr_v0 pre) = 0.
Proof.
  intros p st pliq evapt Hok I Hp He [G1 G2] pre. subst pre.
  pose proof (sac_ok_facts p Hok) as F. pose proof Hok as Hok'. sac_ok_split Hok'.
  pose proof F as F'. destruct F'. pose proof I as I'. destruct I'.
  rewrite sac_pre_blocks.
  destruct (pre_evap p st evapt) as [[[e1 e2] u1] f1] eqn:E1.
  apply pre_evap_spec in E1; try assumption.
  destruct E1 as (A1 & A2 & A3 & -> & -> & A4 & A5).
  destruct (pre_transfer p (uztwc st - e1) (uzfwc st - e2)) as [u2 f2] eqn:E2.
  apply pre_transfer_spec in E2; try assumption.
  destruct E2 as (T1 & T2 & T3 & T4).
  destruct (pre_e35 p st evapt e1 e2 u2) as [e3 e5] eqn:E3.
  apply pre_e35_spec in E3; try assumption; try lra.
  destruct E3 as (V1 & V2 & V3 & V4).
  destruct (pre_resupply p st (lztwc st - e3)) as [[l2 S2] P2] eqn:E4.
  apply pre_resupply_spec in E4; try assumption; try lra.
  destruct E4 as (R1 & R2 & R3 & R4).
  destruct (pre_fill p pliq (adimc st - e5) u2) as [[a2 u3] pav] eqn:E5.
  apply pre_fill_spec in E5; try assumption.
  destruct E5 as (L1 & L2 & L3 & L4 & L5).
  cbn [pr_v0 pr_uztwc pr_pav pr_e1 pr_e2 pr_e3 pr_e5 i_adimc i_roimp i_flobf i_floin i_flosf].
  assert (0 <= pliq * pctim p) by (apply Rmult_le_pos; lra).
  split.
  { constructor; cbn [i_adimc i_alzfpc i_alzfsc i_flobf i_uzfwc i_floin i_lztwc i_flosf i_roimp];
      fold (sMp p); fold (sMs p); lra. }
  unfold perv_sum. cbn [i_adimc i_alzfpc i_alzfsc i_flobf i_uzfwc i_floin i_lztwc i_flosf i_roimp].
  repeat split; lra.
Qed.

(** * (C3) the whole land phase and the step: invariant, budgets, and the C10 statement under guards *)
Theorem sac_land_inv : forall p st io, sac_ok p = true -> lzfpm p <= lzfsm p -> 10 <= lztwm p ->
  st_inv p st -> 0 <= fst io -> 0 <= snd io -> pre_guard p st (snd io) ->
  let l := sac_land p st io in
  inc_inv p (l_uztwc l) (l_v l) /\ 0 <= l_uztwc l <= uztwm p /\
  0 <= l_e1 l /\ 0 <= l_e2 l /\ 0 <= l_e3 l /\ 0 <= l_e5 l /\ l_e1 l + l_e2 l + l_e3 l <= snd io /\
  (* pervious-area budget: stores after + flows + evaporation = stores before + rain *)
  l_uztwc l + perv_sum (l_v l) + l_e1 l + l_e2 l + l_e3 l
    = uztwc st + uzfwc st + lztwc st + alzfpc st + alzfsc st + fst io /\
  (* ADIMP-area budget *)
  adimp p * (i_adimc (l_v l) + l_e5 l) + i_roimp (l_v l)
    = adimp p * (adimc st + fst io) + fst io * pctim p.
Proof.
  intros p st [pliq evapt] Hok Hm Ht I Hp He G l. subst l. cbn [fst snd] in *.
  destruct (sac_pre_inv p st pliq evapt Hok I Hp He G)
    as (I0 & P0 & U0 & E1 & E2 & E3 & E5 & Es & B1 & B2 & B3 & _).
  unfold sac_land. cbn [l_v l_uztwc l_e1 l_e2 l_e3 l_e5].
  set (pre := sac_pre p st (pliq, evapt)) in *.
  destruct (sac_loop_inv p (pr_uztwc pre) (pr_pav pre) (pr_v0 pre) Hok Hm Ht P0 I0) as (I1 & C1 & C2).
  split; [exact I1|]. repeat split; try lra. nra.
Qed.

(** a static sufficient condition for the guard *)
Lemma pre_guard_suff p st evapt : sac_ok p = true -> st_inv p st ->
  0 <= evapt <= uztwm p + lztwm p -> uztwc st + uzfwc st <= adimc st -> pre_guard p st evapt.
Proof.
  intros Hok I He Ha. pose proof Hok as Hok'. sac_ok_split Hok'. split; [|lra].
  destruct (pre_evap p st evapt) as [[[e1 e2] u1] f1] eqn:E1.
  apply pre_evap_spec in E1; try assumption; try lra.
  destruct E1 as (A1 & A2 & A3 & -> & -> & A4 & A5).
  destruct (pre_transfer p (uztwc st - e1) (uzfwc st - e2)) as [u2 f2] eqn:E2.
  apply pre_transfer_spec in E2; try assumption.
  destruct E2 as (T1 & T2 & T3 & T4). lra.
Qed.

Lemma st_inv_init0 p : sac_ok p = true -> st_inv p (sac_init p 0 0 0 0 0 0).
Proof.
  intros Hok. sac_ok_split Hok. unfold sac_init. runfold.
  constructor; cbn [uztwc uzfwc lztwc adimc alzfsc alzfpc]; nra.
Qed.

(** the C10 output claims for one step *)
Definition sac_out_ok (o : sac_out (T:=R)) : Prop :=
  o_runoff o = o_surface o + o_baseflow o /\ 0 <= o_baseflow o <= o_runoff o /\ 0 <= o_surface o /\
  0 <= o_runoff o /\ 0 <= o_imperv o /\ 0 <= o_aet o.

Theorem sac_step_inv : forall p st io, sac_ok p = true -> lzfpm p <= lzfsm p -> 10 <= lztwm p ->
  st_inv p st -> qq_ok (qq st) -> 0 <= fst io -> 0 <= snd io -> pre_guard p st (snd io) ->
  st_inv p (fst (sac_step p st io)) /\ qq_ok (qq (fst (sac_step p st io))) /\
  sac_out_ok (snd (sac_step p st io)).
Proof.
  intros p st io Hok Hm Ht I Hq Hp He G.
  destruct (sac_land_inv p st io Hok Hm Ht I Hp He G) as (I1 & U1 & E1 & E2 & E3 & E5 & _).
  pose proof I1 as I1'. destruct I1'.
  pose proof (sacramento_c10_partial p st io Hok Hq Hp He) as C. cbv zeta in C.
  specialize (C ii_flosf0 ii_roimp0 ii_floin0 ii_flobf0 E1 E2 E3 E5).
  destruct C as (C1 & C2 & C3 & C4 & C5 & C6 & C7).
  split; [|split; [exact C7 | unfold sac_out_ok; tauto]].
  unfold sac_step. cbn [fst]. constructor; cbn [uztwc uzfwc lztwc adimc alzfsc alzfpc]; assumption.
Qed.

(** run level: the guard has to hold at every step of the run *)
Fixpoint sac_guarded (p : sac_par (T:=R)) (st : sac_st (T:=R)) (io : list (R * R)) : Prop :=
  match io with
  | [] => True
  | x :: r => pre_guard p st (snd x) /\ sac_guarded p (fst (sac_step p st x)) r
  end.

Theorem sacramento_c10_guarded : forall p io st, sac_ok p = true -> lzfpm p <= lzfsm p -> 10 <= lztwm p ->
  st_inv p st -> qq_ok (qq st) -> io_nonneg io -> sac_guarded p st io ->
  st_inv p (fst (sac_run p st io)) /\ qq_ok (qq (fst (sac_run p st io))) /\
  Forall sac_out_ok (snd (sac_run p st io)).
Proof.
  intros p io. induction io as [|x r IH]; intros st Hok Hm Ht I Hq Hio G.
  - cbn. auto.
  - inversion Hio as [|? ? [Hx1 Hx2] Hr]; subst. destruct G as [G1 G2].
    destruct (sac_step_inv p st x Hok Hm Ht I Hq Hx1 Hx2 G1) as (I1 & Q1 & O1).
    specialize (IH (fst (sac_step p st x)) Hok Hm Ht I1 Q1 Hr G2).
    unfold sac_run in *. cbn [run]. destruct (sac_step p st x) as [s1 o]. cbn [fst snd] in *.
    destruct (run (sac_step p) s1 r) as [s2 os]. cbn [fst snd] in *.
    destruct IH as (J1 & J2 & J3). split; [exact J1 | split; [exact J2 | constructor; assumption]].
Qed.

(** non-vacuity: the hypotheses of [sacramento_c10_guarded] are satisfiable (defaults with
    lzfpm = lzfsm = 25 and lztwm = 130, empty initial state, one day with 10 mm rain and 3 mm PET) *)
Example sac_guarded_satisfiable : exists p io, sac_ok p = true /\ lzfpm p <= lzfsm p /\ 10 <= lztwm p /\
  st_inv p (sac_init p 0 0 0 0 0 0) /\ qq_ok (qq (sac_init p 0 0 0 0 0 0)) /\ io_nonneg io /\ io <> [] /\
  sac_guarded p (sac_init p 0 0 0 0 0 0) io.
Proof.
  set (p := {| lzpk := 1/100; lzsk := 5/100; uzk := 3/10; uztwm := 50; uzfwm := 40; lztwm := 130;
               lzfsm := 25; lzfpm := 25; pfree := 6/100; rexp := 1; zperc := 40; side := 0; ssout := 0;
               pctim := 1/100; adimp := 0; sarva := 0; rserv := 3/10; uh1 := 8/10; uh2 := 1/10;
               uh3 := 5/100; uh4 := 3/100; uh5 := 2/100 |} : sac_par (T:=R)).
  assert (Hok : sac_ok p = true) by (unfold p; sac_ok_solve).
  exists p, [(10, 3)]. split; [exact Hok|].
  split; [unfold p; cbn [lzfpm lzfsm]; lra|]. split; [unfold p; cbn [lztwm]; lra|].
  split; [apply st_inv_init0; exact Hok|].
  split. { unfold sac_init, qq_ok. cbn [qq]. runfold. split; [reflexivity|]. repeat constructor; lra. }
  split; [repeat constructor; cbn; lra|]. split; [discriminate|].
  cbn [sac_guarded snd]. split; [|exact I].
  apply pre_guard_suff; [exact Hok | apply st_inv_init0; exact Hok | unfold p; cbn [uztwm lztwm]; lra |].
  unfold sac_init. cbn [uztwc uzfwc adimc]. runfold. lra.
Qed.
