(** Shared lemmas for the rainfall-runoff proofs (C10, C15): sums of real
    lists, and lifting of a per-step invariant + per-step water budget of a
    Mealy machine to whole runs and to every prefix of a run. *)
From Coq Require Import Reals Lra List Lia.
From OW Require Import Base.Arith Base.RInst Base.Mealy.
Import ListNotations.
Local Open Scope R_scope.

Fixpoint rr_sum (l : list R) : R :=
  match l with [] => 0 | x :: r => x + rr_sum r end.

Lemma rr_sum_app a b : rr_sum (a ++ b) = rr_sum a + rr_sum b.
Proof. induction a; cbn; lra. Qed.

Lemma rr_sum_nonneg l : Forall (fun x => 0 <= x) l -> 0 <= rr_sum l.
Proof. induction 1; cbn; lra. Qed.

Lemma rr_sum_repeat0 n : rr_sum (repeat 0 n) = 0.
Proof. induction n; cbn; lra. Qed.

Lemma rr_sum_map_scal {X} (f : X -> R) k l : rr_sum (map (fun x => k * f x) l) = k * rr_sum (map f l).
Proof. induction l; cbn; lra. Qed.

(** forcing series: every rainfall and PET value non-negative *)
Definition io_nonneg (io : list (R * R)) : Prop :=
  Forall (fun x => 0 <= fst x /\ 0 <= snd x) io.

Lemma io_nonneg_firstn io t : io_nonneg io -> io_nonneg (firstn t io).
Proof.
  unfold io_nonneg. revert t; induction io; intros [|t] H; cbn; auto.
  inversion H; subst. constructor; auto.
Qed.

Section Lift.
  Context {S I O : Type}.
  Variable step : S -> I -> S * O.
  Variable Inv : S -> Prop.
  Variable Q : I -> Prop.

  (** invariant + per-output property *)
  Lemma run_inv_forall (P : O -> Prop) :
    (forall s x, Inv s -> Q x -> Inv (fst (step s x)) /\ P (snd (step s x))) ->
    forall xs s, Inv s -> Forall Q xs ->
      Inv (fst (run step s xs)) /\ Forall P (snd (run step s xs)).
  Proof.
    intros Hs. induction xs as [|x r IH]; intros s Hi Hq; cbn; [auto|].
    inversion Hq; subst. destruct (Hs s x Hi H1) as [Hi1 Hp].
    destruct (step s x) as [s1 o]. cbn in *. specialize (IH s1 Hi1 H2).
    destruct (run step s1 r) as [s2 os]. cbn in *. destruct IH. split; auto.
  Qed.

  (** budget inequality: stock s' + out o <= stock s + inflow x at every step *)
  Lemma run_budget_le (stock : S -> R) (inflow : I -> R) (out : O -> R) :
    (forall s x, Inv s -> Q x -> Inv (fst (step s x))) ->
    (forall s x, Inv s -> Q x ->
       stock (fst (step s x)) + out (snd (step s x)) <= stock s + inflow x) ->
    forall xs s, Inv s -> Forall Q xs ->
      stock (fst (run step s xs)) + rr_sum (map out (snd (run step s xs)))
      <= stock s + rr_sum (map inflow xs).
  Proof.
    intros Hi Hb. induction xs as [|x r IH]; intros s Hs Hq; cbn; [lra|].
    inversion Hq; subst. pose proof (Hi s x Hs H1) as Hi1. pose proof (Hb s x Hs H1) as Hb1.
    destruct (step s x) as [s1 o]. cbn in *. specialize (IH s1 Hi1 H2).
    destruct (run step s1 r) as [s2 os]. cbn in *. lra.
  Qed.

  (** exact budget: stock s' + out o = stock s + inflow x at every step *)
  Lemma run_budget_eq (stock : S -> R) (inflow : I -> R) (out : O -> R) :
    (forall s x, Inv s -> Q x -> Inv (fst (step s x))) ->
    (forall s x, Inv s -> Q x ->
       stock (fst (step s x)) + out (snd (step s x)) = stock s + inflow x) ->
    forall xs s, Inv s -> Forall Q xs ->
      stock (fst (run step s xs)) + rr_sum (map out (snd (run step s xs)))
      = stock s + rr_sum (map inflow xs).
  Proof.
    intros Hi Hb. induction xs as [|x r IH]; intros s Hs Hq; cbn; [lra|].
    inversion Hq; subst. pose proof (Hi s x Hs H1) as Hi1. pose proof (Hb s x Hs H1) as Hb1.
    destruct (step s x) as [s1 o]. cbn in *. specialize (IH s1 Hi1 H2).
    destruct (run step s1 r) as [s2 os]. cbn in *. lra.
  Qed.

  (** the outputs of a run on a prefix are the prefix of the outputs *)
  Lemma run_firstn xs s t :
    snd (run step s (firstn t xs)) = firstn t (snd (run step s xs)).
  Proof.
    revert s t; induction xs as [|x r IH]; intros s [|t]; cbn; auto.
    destruct (step s x) as [s1 o]. specialize (IH s1 t).
    destruct (run step s1 (firstn t r)) as [sa oa]. destruct (run step s1 r) as [sb ob].
    cbn in *. now rewrite IH.
  Qed.

  Lemma Forall_firstn_Q xs t : Forall Q xs -> Forall Q (firstn t xs).
  Proof.
    revert t; induction xs; intros [|t] H; cbn; auto. inversion H; subst. constructor; auto.
  Qed.

  (** cumulative form, at EVERY prefix length t: if stocks are non-negative on
      the invariant, cumulative outflow never exceeds cumulative inflow plus the
      initial stock *)
  Lemma run_cumulative_le (stock : S -> R) (inflow : I -> R) (out : O -> R) :
    (forall s, Inv s -> 0 <= stock s) ->
    (forall s x, Inv s -> Q x -> Inv (fst (step s x))) ->
    (forall s x, Inv s -> Q x ->
       stock (fst (step s x)) + out (snd (step s x)) <= stock s + inflow x) ->
    forall xs s t, Inv s -> Forall Q xs ->
      rr_sum (firstn t (map out (snd (run step s xs))))
      <= rr_sum (firstn t (map inflow xs)) + stock s.
  Proof.
    intros Hpos Hi Hb xs s t Hs Hq.
    rewrite !firstn_map, <- run_firstn.
    pose proof (run_budget_le stock inflow out Hi Hb (firstn t xs) s Hs (Forall_firstn_Q xs t Hq)) as H.
    assert (Hinv : Inv (fst (run step s (firstn t xs)))).
    { clear H. generalize (firstn t xs) (Forall_firstn_Q xs t Hq). intros l; revert s Hs.
      induction l as [|x r IH]; intros s Hs Hl; cbn; auto.
      inversion Hl; subst. pose proof (Hi s x Hs H1) as Hi1. destruct (step s x) as [s1 o].
      cbn in *. specialize (IH s1 Hi1 H2). destruct (run step s1 r); cbn in *; auto. }
    pose proof (Hpos _ Hinv). lra.
  Qed.
End Lift.
