(** C06: real-number ([RArith]) corollaries of the generic hot-start theorems,
    where the generic statement carries a side condition that the real
    numbers (and the documented parameter ranges) discharge.

      storage_trap_all_kernel_split_R        x + 0 = x
      instream_fine_sediment_kernel_split_R  the channel store never becomes
          negative when the maximum channel storage is >= 0 (it is a product of
          non-negative parameters: proportion of bank height, bank height, link
          width and length, bulk density), so the "negative = fraction of the
          maximum" decoding never fires on a state the model itself returned.
      instream_dissolved_nutrient_decay_kernel_split_refuted_R
          the refutation of HotStartWitness.v (decay ON: the previous reach volume restarts from the
          call's own first volume) once more, in exact real arithmetic: 66.44 vs 79.4 kg/s. *)
From Coq Require Import List Arith Lia Bool ZArith Reals Lra.
From OW Require Import Base.Arith Base.RInst Base.Mealy KernelProofs.HotStart KernelProofs.HotStartConstituent.
From OW Require Import Kernels.C12Common Kernels.LumpedConstituent Kernels.InstreamFineSediment Kernels.TrapAll
  Kernels.InstreamDissolvedNutrient.
Import ListNotations.
Local Open Scope R_scope.

Theorem storage_trap_all_kernel_split_R (p s0 : list R) ins n :
  split_at (storage_trap_all_kernel (A := RArith) p) s0 ins n.
Proof.
  apply storage_trap_all_kernel_split_partial. intros x. cbn [add zero RArith]. ring.
Qed.

(* ---------------------------------------------------------------- InstreamFineSediment *)
Lemma inChannelStorage_keeps_store_nonneg outflow totalVolume mass c lw ls mn vs vr maxStorage :
  0 <= c -> 0 <= maxStorage ->
  0 <= c + inChannelStorage (A := RArith) outflow totalVolume mass c lw ls mn vs vr maxStorage.
Proof.
  intros Hc Hm. unfold inChannelStorage. cbv zeta. runfold.
  rcase_bool (Rleb totalVolume 0); [lra|].
  set (load := 1 * (mass * FS_KG_TO_TONNES)).
  set (dep := fine_STC (outflow * 1) ls lw mn vs). set (mob := fine_STC (outflow * 1) ls lw mn vr).
  rcase_bool (Rltb dep load).
  - apply Rmin_case; [|lra].
    assert (0 < (load - dep) * FS_TONNES_TO_KG).
    { apply Rmult_lt_0_compat; [lra|]. unfold FS_TONNES_TO_KG. runfold. lra. }
    lra.
  - rcase_bool (Rltb load mob); [|lra].
    pose proof (Rmin_r ((mob - load) * FS_TONNES_TO_KG) (1 * c)). lra.
Qed.

Lemma fine_step_store_nonneg (fp : fine_params (T := R)) s x :
  0 <= fine_maxStorage fp -> 0 <= fst s -> 0 <= fst (fst (fine_step fp s x)).
Proof.
  intros Hm Hc. destruct s as [c m]. unfold fine_step. cbv zeta.
  match goal with |- context [if ?b then _ else _] => idtac end.
  cbn [fst] in Hc.
  set (net := inChannelStorage _ _ _ c _ _ _ _ _ _).
  assert (Hn : 0 <= c + net) by (apply inChannelStorage_keeps_store_nonneg; assumption).
  destruct (gtb _ _); cbn [fst]; exact Hn.
Qed.

Lemma fine_run_store_nonneg (fp : fine_params (T := R)) xs : 0 <= fine_maxStorage fp ->
  forall s, 0 <= fst s -> 0 <= fst (fst (run (fine_step fp) s xs)).
Proof.
  intros Hm. induction xs as [|x r IH]; intros s Hs; [exact Hs|]. cbn [run].
  pose proof (fine_step_store_nonneg fp s x Hm Hs) as H1.
  destruct (fine_step fp s x) as [s1 o]. cbn [fst] in H1. specialize (IH s1 H1).
  destruct (run (fine_step fp) s1 r). exact IH.
Qed.

Lemma fine_init_store_nonneg (fp : fine_params (T := R)) c :
  0 <= fine_maxStorage fp -> 0 <= fine_init_store fp c.
Proof.
  intros Hm. unfold fine_init_store. runfold. rcase_bool (Rltb c 0); [|lra].
  apply Rmult_le_pos; [apply Rabs_pos|exact Hm].
Qed.

Theorem instream_fine_sediment_kernel_split_R (p : list R) fp :
  fine_params_of p = Some fp -> 0 <= fine_maxStorage fp ->
  split_spec (instream_fine_sediment_kernel (A := RArith) p).
Proof.
  intros Ep Hm.
  destruct (fp_bankFullFlow fp <=? FS_BANKFULL_EPS)%ar eqn:Eb.
  { exact (instream_fine_sediment_lowbank_split p fp Ep Eb). }
  intros s0 ins n. apply instream_fine_sediment_kernel_split_partial.
  intros o1 c1 m1 E. rewrite instream_fine_sediment_kernel_eq, Ep, Eb in E.
  unfold kernel_of_machine in E.
  destruct (fine_unpack fp s0) as [[[] st]|] eqn:Eu; [|discriminate].
  destruct (fine_zip (firsts n ins)) as [xs|]; [|discriminate].
  assert (H0 : 0 <= fst st).
  { unfold fine_unpack in Eu. destruct s0 as [|c [|m [|? ?]]]; try discriminate.
    injection Eu as <-. cbn [fst]. apply fine_init_store_nonneg, Hm. }
  pose proof (fine_run_store_nonneg fp xs Hm st H0) as Hn.
  destruct (run (fine_step fp) st xs) as [[c' m'] os]. cbn in E, Hn. injection E as _ <- _.
  apply Rltb_false. exact Hn.
Qed.

(* ---------------------------------------------------------------- InstreamDissolvedNutrientDecay, decay on *)
Definition dnP : dn_params (T := R) := mk_dn_params (0 / DN_SECONDS_PER_YEAR) 10 10 1000000 0 86400.

(** decayed load of a step with reach volume 4e6, outflow 10, upstream 1, stored mass 100, as a function of the previous volume *)
Lemma dn_step_decayed (prev d : R) :
  d = (4000000 + prev) / 2 / (1000000 * 10) -> 864 / 10000 < d <= 10 ->
  dn_decay_step dnP (100, prev) (mk_dn_in 1 0 4000000 10) =
  ((100, 4000000), {| dno_decayedLoad := 101 - 100 * (86400 / (1000000 * d)); dno_loadDownstream := 100 * (86400 / (1000000 * d));
                      dno_loadFromPointSource := 0 |}).
Proof.
  intros Hd [Hlo Hhi]. unfold dn_decay_step, dnP. cbv zeta.
  cbn [dn_durationInSeconds dn_pointSourcePerSecond dn_linkHeight dn_linkWidth dn_linkLength dn_uptakeVelocity
       dni_up dni_lat dni_reachVolume dni_outflow].
  unfold gtb, DN_SECONDS_PER_DAY, DN_SECONDS_PER_YEAR. runfold.
  replace ((4000000 + prev) / 2 / (1000000 * 10)) with d by (rewrite Hd; reflexivity).
  rewrite (Rmin_right 10 d) by lra.
  replace (Rltb 0 4000000) with true by (symmetry; apply Rltb_true; lra).
  replace (Rltb 0 (d * 10)) with true by (symmetry; apply Rltb_true; lra).
  replace (Rltb 0 10) with true by (symmetry; apply Rltb_true; lra).
  assert (Hv : 0 < 10 / (d * 10)) by (apply Rdiv_lt_0_compat; lra).
  replace (Rltb 0 (10 / (d * 10))) with true by (symmetry; apply Rltb_true; exact Hv).
  replace (Rltb 0 d) with true by (symmetry; apply Rltb_true; lra).
  replace (-1 * (0 / d) * (IZR 86400 / IZR (Z.pos 1) / 86400)) with 0 by (field; lra).
  rewrite exp_0.
  replace (Rleb 1 0) with false by (symmetry; apply Rleb_false; lra).
  assert (Ht : 1000000 / (10 / (d * 10)) = 1000000 * d) by (field; lra).
  rewrite Ht.
  replace (Rleb (1000000 * d) 86400) with false by (symmetry; apply Rleb_false; lra).
  f_equal. f_equal; field; lra.
Qed.

Lemma dn_step_state (p : dn_params (T := R)) s x : fst (dn_decay_step p s x) = (fst s, dni_reachVolume x).
Proof. destruct s. reflexivity. Qed.

Theorem instream_dissolved_nutrient_decay_kernel_split_refuted_R :
  exists p s0 ins n, ~ split_at (instream_dissolved_nutrient_decay_kernel (A := RArith) p) s0 ins n.
Proof.
  exists [1; 0; 10; 10; 1000000; 0; 86400], [100], [[1; 1]; [0; 0]; [1000000; 4000000]; [10; 10]; [0; 0]], 1%nat.
  unfold split_at, split_then, instream_dissolved_nutrient_decay_kernel.
  cbn [firsts lasts map firstn skipn].
  assert (Hd : (@ltb R RArith 1 (@of_q R RArith 1 2)) = false) by (cbn [ltb of_q RArith]; apply Rltb_false; lra).
  rewrite !Hd.
  change (mk_dn_params (div 0 DN_SECONDS_PER_YEAR) 10 10 1000000 0 86400) with dnP.
  unfold dn_rows, zip4, zip3. cbn [combine map run].
  destruct (dn_decay_step dnP (100, 1000000) (mk_dn_in 1 0 1000000 10)) as [s1 o1] eqn:E1.
  pose proof (dn_step_state dnP (100, 1000000) (mk_dn_in 1 0 1000000 10)) as S1. rewrite E1 in S1. cbn in S1. subst s1.
  rewrite (dn_step_decayed 1000000 (1 / 4)) by lra.
  rewrite (dn_step_decayed 4000000 (4 / 10)) by lra.
  cbn. intros H. injection H as H. lra.
Qed.
