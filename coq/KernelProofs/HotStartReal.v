(** C06: real-number ([RArith]) corollaries of the generic hot-start theorems,
    where the generic statement carries a side condition that the real
    numbers (and the documented parameter ranges) discharge.

      storage_trap_all_kernel_split_R        x + 0 = x
      instream_fine_sediment_kernel_split_R  the channel store never becomes
          negative when the maximum channel storage is >= 0 (it is a product of
          non-negative parameters: proportion of bank height, bank height, link
          width and length, bulk density), so the "negative = fraction of the
          maximum" decoding never fires on a state the model itself returned. *)
From Coq Require Import List Arith Lia Bool ZArith Reals Lra.
From OW Require Import Base.Arith Base.RInst Base.Mealy KernelProofs.HotStart KernelProofs.HotStartConstituent.
From OW Require Import Kernels.C12Common Kernels.LumpedConstituent Kernels.InstreamFineSediment Kernels.TrapAll.
Import ListNotations.
Local Open Scope R_scope.

Theorem storage_trap_all_kernel_split_R (p s0 : list R) ins n :
  (forall a r, ins = a :: r -> (0 < n < length a)%nat) ->
  split_at (storage_trap_all_kernel (A := RArith) p) s0 ins n.
Proof.
  apply storage_trap_all_kernel_split_partial. intros x. cbn [add zero RArith]. ring.
Qed.

(* ---------------------------------------------------------------- InstreamFineSediment *)
Lemma inChannelStorage_keeps_store_nonneg outflow totalVolume mass c lw ls mn vs vr maxStorage :
  0 <= c -> 0 <= maxStorage ->
  0 <= c + inChannelStorage (A := RArith) outflow totalVolume mass c lw ls mn vs vr maxStorage.
Proof.
  intros Hc Hm. unfold inChannelStorage. cbv zeta. runfold.
  rcase_bool (Rleb totalVolume 0); [lra|].
  set (load := 1 * (mass * FS_KG_TO_TONNES)).
  set (dep := fine_STC (outflow * 1) ls lw mn vs). set (mob := fine_STC (outflow * 1) ls lw mn vr).
  rcase_bool (Rltb dep load).
  - apply Rmin_case; [|lra].
    assert (0 < (load - dep) * FS_TONNES_TO_KG).
    { apply Rmult_lt_0_compat; [lra|]. unfold FS_TONNES_TO_KG. runfold. lra. }
    lra.
  - rcase_bool (Rltb load mob); [|lra].
    pose proof (Rmin_r ((mob - load) * FS_TONNES_TO_KG) (1 * c)). lra.
Qed.

Lemma fine_step_store_nonneg (fp : fine_params (T := R)) s x :
  0 <= fine_maxStorage fp -> 0 <= fst s -> 0 <= fst (fst (fine_step fp s x)).
Proof.
  intros Hm Hc. destruct s as [c m]. unfold fine_step. cbv zeta.
  match goal with |- context [if ?b then _ else _] => idtac end.
  cbn [fst] in Hc.
  set (net := inChannelStorage _ _ _ c _ _ _ _ _ _).
  assert (Hn : 0 <= c + net) by (apply inChannelStorage_keeps_store_nonneg; assumption).
  destruct (gtb _ _); cbn [fst]; exact Hn.
Qed.

Lemma fine_run_store_nonneg (fp : fine_params (T := R)) xs : 0 <= fine_maxStorage fp ->
  forall s, 0 <= fst s -> 0 <= fst (fst (run (fine_step fp) s xs)).
Proof.
  intros Hm. induction xs as [|x r IH]; intros s Hs; [exact Hs|]. cbn [run].
  pose proof (fine_step_store_nonneg fp s x Hm Hs) as H1.
  destruct (fine_step fp s x) as [s1 o]. cbn [fst] in H1. specialize (IH s1 H1).
  destruct (run (fine_step fp) s1 r). exact IH.
Qed.

Lemma fine_init_store_nonneg (fp : fine_params (T := R)) c :
  0 <= fine_maxStorage fp -> 0 <= fine_init_store fp c.
Proof.
  intros Hm. unfold fine_init_store. runfold. rcase_bool (Rltb c 0); [|lra].
  apply Rmult_le_pos; [apply Rabs_pos|exact Hm].
Qed.

Theorem instream_fine_sediment_kernel_split_R (p : list R) fp :
  fine_params_of p = Some fp -> 0 <= fine_maxStorage fp ->
  split_spec (instream_fine_sediment_kernel (A := RArith) p).
Proof.
  intros Ep Hm.
  destruct (fp_bankFullFlow fp <=? FS_BANKFULL_EPS)%ar eqn:Eb.
  { exact (instream_fine_sediment_lowbank_split p fp Ep Eb). }
  intros s0 ins n. apply instream_fine_sediment_kernel_split_partial.
  intros o1 c1 m1 E. rewrite instream_fine_sediment_kernel_eq, Ep, Eb in E.
  unfold kernel_of_machine in E.
  destruct (fine_unpack fp s0) as [[[] st]|] eqn:Eu; [|discriminate].
  destruct (fine_zip (firsts n ins)) as [xs|]; [|discriminate].
  assert (H0 : 0 <= fst st).
  { unfold fine_unpack in Eu. destruct s0 as [|c [|m [|? ?]]]; try discriminate.
    injection Eu as <-. cbn [fst]. apply fine_init_store_nonneg, Hm. }
  pose proof (fine_run_store_nonneg fp xs Hm st H0) as Hn.
  destruct (run (fine_step fp) st xs) as [[c' m'] os]. cbn in E, Hn. injection E as _ <- _.
  apply Rltb_false. exact Hn.
Qed.
