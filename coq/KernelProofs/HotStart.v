(** C06 / C14: generic library.  A catalogue kernel (after its parameters have
    been applied) is a function

      [list T (initial states) -> list (list T) (one series per input)
         -> option (list (list T) (one series per output) * list T (final states))]

    Hot-start continuity ([split_spec]) says that cutting every input series at
    index [n], running the first parts, and running the second parts from the
    RETURNED state vector gives the whole run: same outputs (series-wise
    concatenation) and same final states, and the same panics.  Causality
    ([causal_spec]) says that the first [t] outputs depend only on the first
    [t] inputs.

    Both are proved ONCE for the common kernel shape

      unpack states / zip the input series into per-step rows / [Mealy.run step] /
      project the per-step outputs into series / pack the final state

    ([kernel_of_machine]) from [run_app] / [run_causal] and the model's
    "unpack (pack m) is m, up to what step can observe" lemma.  The per-kernel
    files only show that each kernel is an instance. *)
From Coq Require Import List Arith Lia Bool.
From OW Require Import Base.Mealy.
Import ListNotations.

(* ------------------------------------------------------------------ list facts *)
Section ListFacts.
  Context {X Y : Type}.

  Lemma firstn_combine n : forall (a : list X) (b : list Y),
    firstn n (combine a b) = combine (firstn n a) (firstn n b).
  Proof.
    induction n as [|n IH]; intros a b; [reflexivity|].
    destruct a as [|x a], b as [|y b]; cbn; try reflexivity. now rewrite IH.
  Qed.

  Lemma skipn_combine n : forall (a : list X) (b : list Y),
    skipn n (combine a b) = combine (skipn n a) (skipn n b).
  Proof.
    induction n as [|n IH]; intros a b; [reflexivity|].
    destruct a as [|x a], b as [|y b]; cbn; try reflexivity.
    - destruct (skipn n a); reflexivity.
    - apply IH.
  Qed.

  Lemma firstn_map_comm (f : X -> Y) n l : firstn n (map f l) = map f (firstn n l).
  Proof. revert l; induction n as [|n IH]; intros [|x l]; cbn; try reflexivity. now rewrite IH. Qed.

  Lemma skipn_map_comm (f : X -> Y) n l : skipn n (map f l) = map f (skipn n l).
  Proof. revert l; induction n as [|n IH]; intros [|x l]; cbn; try reflexivity. apply IH. Qed.
End ListFacts.

Lemma firstn_firstn_min {X : Type} (i j : nat) (l : list X) : firstn i (firstn j l) = firstn (Nat.min i j) l.
Proof. apply firstn_firstn. Qed.

(** if two lists agree on their first [t] entries then either both are at least
    [t] long or they are equal *)
Lemma firstn_eq_length {X : Type} t (a b : list X) :
  firstn t a = firstn t b -> Nat.min t (length a) = Nat.min t (length b).
Proof. intros H. apply (f_equal (@length X)) in H. now rewrite !firstn_length in H. Qed.

(* ------------------------------------------------------------------ series *)
Section Series.
  Context {T : Type}.

  Definition firsts (n : nat) (ins : list (list T)) : list (list T) := map (firstn n) ins.
  Definition lasts  (n : nat) (ins : list (list T)) : list (list T) := map (skipn n) ins.
  (** cut every series at index [n] *)
  Definition split_inputs (n : nat) (ins : list (list T)) := (firsts n ins, lasts n ins).

  (** series-wise concatenation *)
  Fixpoint app_series (a b : list (list T)) : list (list T) :=
    match a, b with
    | x :: a', y :: b' => (x ++ y) :: app_series a' b'
    | _, _ => []
    end.

  Lemma app_series_split n ins : app_series (firsts n ins) (lasts n ins) = ins.
  Proof.
    unfold firsts, lasts. induction ins as [|x r IH]; cbn; [reflexivity|].
    rewrite firstn_skipn. f_equal. exact IH.
  Qed.

  (** the [xs ++ ys] reading: two blocks of series with the same number of
      series, every series of the first block [n] long *)
  Lemma firsts_app_series n : forall xs ys,
    length xs = length ys -> Forall (fun x => length x = n) xs ->
    firsts n (app_series xs ys) = xs /\ lasts n (app_series xs ys) = ys.
  Proof.
    induction xs as [|x xs IH]; intros [|y ys] Hl Hn; cbn in *; try discriminate; [split; reflexivity|].
    inversion Hn as [|? ? Hx Hr]; subst.
    destruct (IH ys) as [E1 E2]; [lia|assumption|].
    rewrite firstn_app, skipn_app, Nat.sub_diag, firstn_all, skipn_all. cbn.
    rewrite app_nil_r. unfold firsts, lasts in *. now rewrite E1, E2.
  Qed.

  Lemma firsts_firsts i j ins : firsts i (firsts j ins) = firsts (Nat.min i j) ins.
  Proof. unfold firsts. rewrite map_map. apply map_ext. intros; apply firstn_firstn. Qed.

  (** a catalogue kernel with its parameters applied *)
  Definition kern := list T -> list (list T) -> option (list (list T) * list T).

  (** run the first parts, then the second parts from the returned states *)
  Definition split_then (K : kern) (s0 : list T) (ins : list (list T)) (n : nat) :=
    match K s0 (firsts n ins) with
    | Some (o1, s1) =>
        match K s1 (lasts n ins) with
        | Some (o2, s2) => Some (app_series o1 o2, s2)
        | None => None
        end
    | None => None
    end.

  Definition split_at (K : kern) s0 ins n : Prop := K s0 ins = split_then K s0 ins n.

  (** hot-start continuity, every state vector, every input block, every cut *)
  Definition split_spec (K : kern) : Prop := forall s0 ins n, split_at K s0 ins n.

  (** ... under a side condition on (states, inputs, cut) *)
  Definition split_when (C : list T -> list (list T) -> nat -> Prop) (K : kern) : Prop :=
    forall s0 ins n, C s0 ins n -> split_at K s0 ins n.

  (** any number of consecutive segments: [lens] are the lengths of all
      segments but the last, which takes the remainder *)
  Fixpoint run_cuts (K : kern) (lens : list nat) (s0 : list T) (ins : list (list T)) :=
    match lens with
    | [] => K s0 ins
    | n :: r =>
        match K s0 (firsts n ins) with
        | Some (o1, s1) =>
            match run_cuts K r s1 (lasts n ins) with
            | Some (o2, s2) => Some (app_series o1 o2, s2)
            | None => None
            end
        | None => None
        end
    end.

  Theorem split_spec_cuts (K : kern) :
    split_spec K -> forall lens s0 ins, run_cuts K lens s0 ins = K s0 ins.
  Proof.
    intros H lens; induction lens as [|n r IH]; intros s0 ins; cbn; [reflexivity|].
    rewrite (H s0 ins n). unfold split_then.
    destruct (K s0 (firsts n ins)) as [[o1 s1]|]; [|reflexivity]. now rewrite IH.
  Qed.

  (** the side condition has to hold at every cut, on the states actually reached *)
  Fixpoint cuts_ok (C : list T -> list (list T) -> nat -> Prop) (K : kern)
      (lens : list nat) (s0 : list T) (ins : list (list T)) : Prop :=
    match lens with
    | [] => True
    | n :: r => C s0 ins n /\
                forall o1 s1, K s0 (firsts n ins) = Some (o1, s1) -> cuts_ok C K r s1 (lasts n ins)
    end.

  Theorem split_when_cuts C (K : kern) :
    split_when C K -> forall lens s0 ins, cuts_ok C K lens s0 ins -> run_cuts K lens s0 ins = K s0 ins.
  Proof.
    intros H lens; induction lens as [|n r IH]; intros s0 ins Hok; cbn; [reflexivity|].
    destruct Hok as [Hc Hr]. rewrite (H s0 ins n Hc). unfold split_then.
    destruct (K s0 (firsts n ins)) as [[o1 s1]|] eqn:E; [|reflexivity].
    now rewrite (IH s1 (lasts n ins) (Hr o1 s1 eq_refl)).
  Qed.

  (** the [xs ++ ys] form of the statement *)
  Theorem split_spec_app (K : kern) : split_spec K ->
    forall s0 xs ys n, length xs = length ys -> Forall (fun x => length x = n) xs ->
    K s0 (app_series xs ys) =
    match K s0 xs with
    | Some (o1, s1) => match K s1 ys with
                       | Some (o2, s2) => Some (app_series o1 o2, s2)
                       | None => None
                       end
    | None => None
    end.
  Proof.
    intros H s0 xs ys n Hl Hn. rewrite (H s0 (app_series xs ys) n). unfold split_then.
    destruct (firsts_app_series n xs ys Hl Hn) as [-> ->]. reflexivity.
  Qed.

  (** causality: whenever both runs return, inputs that agree on their first [t]
      steps give outputs that agree on their first [t] steps (truncating the
      series at [t] and replacing its tail are the two special cases) *)
  Definition causal_spec (K : kern) : Prop :=
    forall s0 ins ins' t o sT o' sT',
      firsts t ins = firsts t ins' ->
      K s0 ins = Some (o, sT) -> K s0 ins' = Some (o', sT') ->
      firsts t o = firsts t o'.

  Corollary causal_truncate (K : kern) : causal_spec K ->
    forall s0 ins t o sT o' sT',
      K s0 ins = Some (o, sT) -> K s0 (firsts t ins) = Some (o', sT') -> firsts t o = firsts t o'.
  Proof.
    intros H s0 ins t o sT o' sT' E1 E2. apply (H s0 ins (firsts t ins) t o sT o' sT'); try assumption.
    rewrite firsts_firsts, Nat.min_id. reflexivity.
  Qed.

  (** a kernel that never returns satisfies both specifications (malformed
      parameter vectors: the generated wrapper panics) *)
  Lemma split_spec_none : split_spec (fun _ _ => None).
  Proof. intros s0 ins n. reflexivity. Qed.
  Lemma causal_spec_none : causal_spec (fun _ _ => None).
  Proof. intros s0 ins ins' t o sT o' sT' _ E. discriminate. Qed.

  Lemma split_at_ext (K K' : kern) s0 ins n :
    (forall s i, K s i = K' s i) -> split_at K' s0 ins n -> split_at K s0 ins n.
  Proof.
    intros E H. unfold split_at, split_then in *. rewrite !E, H.
    destruct (K' s0 (firsts n ins)) as [[o1 s1]|]; [|reflexivity]. now rewrite E.
  Qed.
  Lemma split_spec_ext (K K' : kern) : (forall s i, K s i = K' s i) -> split_spec K' -> split_spec K.
  Proof.
    intros E H s0 ins n. unfold split_at, split_then. rewrite !E.
    destruct (K' s0 (firsts n ins)) as [[o1 s1]|] eqn:E1.
    - rewrite E. specialize (H s0 ins n). unfold split_at, split_then in H. now rewrite E1 in H.
    - specialize (H s0 ins n). unfold split_at, split_then in H. now rewrite E1 in H.
  Qed.
  Lemma causal_spec_ext (K K' : kern) : (forall s i, K s i = K' s i) -> causal_spec K' -> causal_spec K.
  Proof. intros E H s0 ins ins' t o sT o' sT' Hf E1 E2. rewrite E in E1, E2. eauto. Qed.
End Series.

Arguments kern T : clear implicits.
Infix "+++" := app_series (at level 60, right associativity).

(* ------------------------------------------------------------------ zipping the input series *)
(** what the split / causality proofs need from the function that turns the
    block of input series into per-time-step rows *)
Record zip_laws {T In : Type} (zip : list (list T) -> option (list In)) : Prop := {
  zl_firsts : forall ins n xs, zip ins = Some xs -> zip (firsts n ins) = Some (firstn n xs);
  zl_lasts  : forall ins n xs, zip ins = Some xs -> zip (lasts n ins) = Some (skipn n xs);
  zl_none   : forall ins n, zip ins = None -> zip (firsts n ins) = None \/ zip (lasts n ins) = None
}.

Section Zips.
  Context {T : Type}.

  Definition lz1 (ins : list (list T)) : option (list T) :=
    match ins with [a] => Some a | _ => None end.
  Definition lz2 (ins : list (list T)) : option (list (T * T)) :=
    match ins with [a; b] => Some (combine a b) | _ => None end.
  Definition lz3 (ins : list (list T)) : option (list (T * T * T)) :=
    match ins with [a; b; c] => Some (combine (combine a b) c) | _ => None end.
  Definition lz4 (ins : list (list T)) : option (list (T * T * T * T)) :=
    match ins with [a; b; c; d] => Some (combine (combine (combine a b) c) d) | _ => None end.
  Definition lz5 (ins : list (list T)) : option (list (T * T * T * T * T)) :=
    match ins with
    | [a; b; c; d; e] => Some (combine (combine (combine (combine a b) c) d) e)
    | _ => None end.
  Definition lz6 (ins : list (list T)) : option (list (T * T * T * T * T * T)) :=
    match ins with
    | [a; b; c; d; e; f] => Some (combine (combine (combine (combine (combine a b) c) d) e) f)
    | _ => None end.
  Definition lz7 (ins : list (list T)) : option (list (T * T * T * T * T * T * T)) :=
    match ins with
    | [a; b; c; d; e; f; g] =>
        Some (combine (combine (combine (combine (combine (combine a b) c) d) e) f) g)
    | _ => None end.
  Definition lz8 (ins : list (list T)) : option (list (T * T * T * T * T * T * T * T)) :=
    match ins with
    | [a; b; c; d; e; f; g; h] =>
        Some (combine (combine (combine (combine (combine (combine (combine a b) c) d) e) f) g) h)
    | _ => None end.

  Ltac zl_case i H :=
    repeat (destruct i as [|? i]; cbn in H |- *; try discriminate; try (left; reflexivity));
    try (injection H as <-; rewrite ?firstn_combine, ?skipn_combine; reflexivity).
  Ltac zl_tac :=
    constructor;
    [ let i := fresh "ins" in let H := fresh "H" in intros i n xs H; zl_case i H
    | let i := fresh "ins" in let H := fresh "H" in intros i n xs H; zl_case i H
    | let i := fresh "ins" in let H := fresh "H" in intros i n H; zl_case i H ].

  Lemma lz1_laws : zip_laws lz1. Proof. zl_tac. Qed.
  Lemma lz2_laws : zip_laws lz2. Proof. zl_tac. Qed.
  Lemma lz3_laws : zip_laws lz3. Proof. zl_tac. Qed.
  Lemma lz4_laws : zip_laws lz4. Proof. zl_tac. Qed.
  Lemma lz5_laws : zip_laws lz5. Proof. zl_tac. Qed.
  Lemma lz6_laws : zip_laws lz6. Proof. zl_tac. Qed.
  Lemma lz7_laws : zip_laws lz7. Proof. zl_tac. Qed.
  Lemma lz8_laws : zip_laws lz8. Proof. zl_tac. Qed.

  (** prefix versions: surplus input series are ignored *)
  Definition lzp1 (ins : list (list T)) : option (list T) :=
    match ins with a :: _ => Some a | _ => None end.
  Definition lzp2 (ins : list (list T)) : option (list (T * T)) :=
    match ins with a :: b :: _ => Some (combine a b) | _ => None end.
  Definition lzp4 (ins : list (list T)) : option (list (T * T * T * T)) :=
    match ins with a :: b :: c :: d :: _ => Some (combine (combine (combine a b) c) d) | _ => None end.

  Lemma lzp1_laws : zip_laws lzp1.
  Proof.
    constructor; intros ins n; [intros xs H|intros xs H|intros H];
      destruct ins as [|a r]; cbn in *; try discriminate; try (left; reflexivity);
      injection H as <-; reflexivity.
  Qed.
  Lemma lzp2_laws : zip_laws lzp2.
  Proof.
    constructor; intros ins n; [intros xs H|intros xs H|intros H];
      destruct ins as [|a [|b r]]; cbn in *; try discriminate; try (left; reflexivity);
      injection H as <-; rewrite ?firstn_combine, ?skipn_combine; reflexivity.
  Qed.
  Lemma lzp4_laws : zip_laws lzp4.
  Proof.
    constructor; intros ins n; [intros xs H|intros xs H|intros H];
      destruct ins as [|a [|b [|c [|d r]]]]; cbn in *; try discriminate; try (left; reflexivity);
      injection H as <-; rewrite ?firstn_combine, ?skipn_combine; reflexivity.
  Qed.

  (** rows mapped through a record constructor *)
  Lemma zip_map_laws {In In' : Type} (zip : list (list T) -> option (list In)) (g : In -> In') :
    zip_laws zip -> zip_laws (fun ins => option_map (map g) (zip ins)).
  Proof.
    intros [Hf Hl Hn]; constructor.
    - intros ins n xs H. destruct (zip ins) as [ys|] eqn:E; [|discriminate]. injection H as <-.
      rewrite (Hf ins n ys E). cbn. now rewrite firstn_map_comm.
    - intros ins n xs H. destruct (zip ins) as [ys|] eqn:E; [|discriminate]. injection H as <-.
      rewrite (Hl ins n ys E). cbn. now rewrite skipn_map_comm.
    - intros ins n H. destruct (zip ins) as [ys|] eqn:E; [discriminate|].
      destruct (Hn ins n E) as [-> | ->]; [left|right]; reflexivity.
  Qed.
End Zips.

(* ------------------------------------------------------------------ projecting step outputs into series *)
Record outs_laws {T Out : Type} (outs : list Out -> option (list (list T))) : Prop := {
  ol_app : forall a b, outs (a ++ b) =
             match outs a, outs b with Some x, Some y => Some (x +++ y) | _, _ => None end;
  ol_firstn : forall t os o, outs os = Some o -> outs (firstn t os) = Some (firsts t o)
}.

Section Outs.
  Context {T Out : Type}.
  (** one output series per projection *)
  Definition proj_series (fs : list (Out -> T)) (os : list Out) : list (list T) :=
    map (fun f => map f os) fs.
  Definition proj_outs (fs : list (Out -> T)) (os : list Out) : option (list (list T)) :=
    Some (proj_series fs os).

  Lemma proj_series_app fs a b : proj_series fs (a ++ b) = proj_series fs a +++ proj_series fs b.
  Proof.
    unfold proj_series. induction fs as [|f fs IH]; cbn; [reflexivity|]. rewrite map_app. f_equal. exact IH.
  Qed.
  Lemma proj_series_firstn fs t os : proj_series fs (firstn t os) = firsts t (proj_series fs os).
  Proof. unfold proj_series, firsts. rewrite map_map. apply map_ext. intros f. now rewrite firstn_map_comm. Qed.

  Lemma proj_outs_laws fs : outs_laws (proj_outs fs).
  Proof.
    constructor.
    - intros a b. unfold proj_outs. now rewrite proj_series_app.
    - intros t os o H. injection H as <-. unfold proj_outs. now rewrite proj_series_firstn.
  Qed.
End Outs.

(* ------------------------------------------------------------------ the common kernel shape *)
Section Machine.
  Context {T Aux St In Out : Type}.
  (** [Aux]: what is read from the state vector and handed back unchanged
      (pass-through entries, buffer lengths); [St]: the loop state *)
  Variable unpack : list T -> option (Aux * St).
  Variable zip : list (list T) -> option (list In).
  Variable step : Aux -> St -> In -> St * Out.
  (** [good st = false]: the loop has panicked (sticky) *)
  Variable good : St -> bool.
  Variable pack : Aux -> St -> list T.
  Variable outs : list Out -> option (list (list T)).

  Definition kernel_of_machine : kern T := fun states inputs =>
    match unpack states, zip inputs with
    | Some (aux, st), Some xs =>
        let (st', os) := run (step aux) st xs in
        if good st' then
          match outs os with
          | Some o => Some (o, pack aux st')
          | None => None
          end
        else None
    | _, _ => None
    end.

  Hypothesis Hzip : zip_laws zip.
  Hypothesis Houts : outs_laws outs.
  Hypothesis good_sticky : forall aux st x, good st = false -> good (fst (step aux st x)) = false.

  Lemma run_good_sticky aux xs : forall st, good st = false -> good (fst (run (step aux) st xs)) = false.
  Proof.
    induction xs as [|x r IH]; intros st H; cbn; [exact H|].
    pose proof (good_sticky aux st x H) as H1.
    destruct (step aux st x) as [s1 o]. cbn in H1. specialize (IH s1 H1).
    destruct (run (step aux) s1 r) as [s2 os]. exact IH.
  Qed.

  (** observational equivalence of loop states: what [step], [good] and
      [pack] can see.  ([eq] for almost every model.) *)
  Variable sim : Aux -> St -> St -> Prop.
  Hypothesis sim_step : forall aux a b x, sim aux a b ->
    sim aux (fst (step aux a x)) (fst (step aux b x)) /\ snd (step aux a x) = snd (step aux b x).
  Hypothesis sim_good : forall aux a b, sim aux a b -> good a = good b.
  Hypothesis sim_pack : forall aux a b, sim aux a b -> pack aux a = pack aux b.

  Lemma run_sim aux xs : forall a b, sim aux a b ->
    sim aux (fst (run (step aux) a xs)) (fst (run (step aux) b xs)) /\
    snd (run (step aux) a xs) = snd (run (step aux) b xs).
  Proof.
    induction xs as [|x r IH]; intros a b H; cbn; [split; [exact H|reflexivity]|].
    destruct (sim_step aux a b x H) as [H1 H2].
    destruct (step aux a x) as [a1 oa], (step aux b x) as [b1 ob]. cbn in H1, H2. subst ob.
    destruct (IH a1 b1 H1) as [H3 H4].
    destruct (run (step aux) a1 r) as [a2 osa], (run (step aux) b1 r) as [b2 osb]. cbn in *.
    split; [exact H3|now rewrite H4].
  Qed.

  (** the cut at [n] loses nothing if, from the state that unpack (pack s1)
      gives back, the REST of the run produces the same outputs and packs to
      the same final states as from the state s1 actually reached *)
  Theorem kernel_of_machine_split_at_run s0 ins n :
    (forall aux st xs, unpack s0 = Some (aux, st) -> zip ins = Some xs ->
       let s1 := fst (run (step aux) st (firstn n xs)) in
       good s1 = true ->
       exists s1', unpack (pack aux s1) = Some (aux, s1') /\
         let r := run (step aux) s1 (skipn n xs) in
         let r' := run (step aux) s1' (skipn n xs) in
         snd r = snd r' /\ good (fst r) = good (fst r') /\ pack aux (fst r) = pack aux (fst r')) ->
    split_at kernel_of_machine s0 ins n.
  Proof.
    intros Hcut. unfold split_at, split_then, kernel_of_machine.
    destruct (unpack s0) as [[aux st]|] eqn:Eu; [|reflexivity].
    destruct (zip ins) as [xs|] eqn:Ez.
    2:{ destruct (zl_none zip Hzip ins n Ez) as [-> | E2]; [reflexivity|].
        destruct (zip (firsts n ins)) as [xs1|]; [|reflexivity].
        destruct (run (step aux) st xs1) as [s1 o1]. destruct (good s1); [|reflexivity].
        destruct (outs o1); [|reflexivity]. rewrite E2.
        destruct (unpack (pack aux s1)) as [[? ?]|]; reflexivity. }
    rewrite (zl_firsts zip Hzip ins n xs Ez), (zl_lasts zip Hzip ins n xs Ez).
    specialize (Hcut aux st xs eq_refl eq_refl). cbn zeta in Hcut.
    rewrite <- (firstn_skipn n xs) at 1. rewrite run_app.
    destruct (run (step aux) st (firstn n xs)) as [s1 o1]. cbn [fst] in Hcut.
    destruct (good s1) eqn:G1.
    2:{ pose proof (run_good_sticky aux (skipn n xs) s1 G1) as G2.
        destruct (run (step aux) s1 (skipn n xs)) as [s2 o2]. cbn in G2. now rewrite G2. }
    destruct (Hcut eq_refl) as [s1' [Eu' (Ho2 & Hg & Hp)]].
    destruct (run (step aux) s1 (skipn n xs)) as [s2 o2].
    rewrite (ol_app outs Houts o1 o2).
    destruct (outs o1) as [x|].
    2:{ destruct (good s2); reflexivity. }
    rewrite Eu'. destruct (run (step aux) s1' (skipn n xs)) as [s2' o2']. cbn in Ho2, Hg, Hp. subst o2'.
    rewrite <- Hg, <- Hp.
    destruct (good s2); [|reflexivity]. destruct (outs o2); reflexivity.
  Qed.

  (** ... in particular if the two states are observationally equivalent *)
  Theorem kernel_of_machine_split_at s0 ins n :
    (forall aux st xs, unpack s0 = Some (aux, st) -> zip ins = Some xs ->
       let s1 := fst (run (step aux) st (firstn n xs)) in
       good s1 = true ->
       exists s1', unpack (pack aux s1) = Some (aux, s1') /\ sim aux s1 s1') ->
    split_at kernel_of_machine s0 ins n.
  Proof.
    intros Hcut. apply kernel_of_machine_split_at_run.
    intros aux st xs Eu Ez s1 G. destruct (Hcut aux st xs Eu Ez G) as [s1' [Eu' Hs]].
    exists s1'. split; [exact Eu'|]. cbv zeta.
    destruct (run_sim aux (skipn n xs) s1 s1' Hs) as [Hs2 Ho2].
    split; [exact Ho2|]. split; [apply (sim_good aux), Hs2|apply (sim_pack aux), Hs2].
  Qed.

  (** ... for every cut, from an invariant of the loop state *)
  Variable Inv : Aux -> St -> Prop.
  Hypothesis unpack_inv : forall s aux st, unpack s = Some (aux, st) -> Inv aux st.
  Hypothesis step_inv : forall aux st x, Inv aux st -> Inv aux (fst (step aux st x)).
  Hypothesis pack_unpack : forall aux st, Inv aux st -> good st = true ->
    exists st', unpack (pack aux st) = Some (aux, st') /\ sim aux st st'.

  Lemma run_inv aux xs : forall st, Inv aux st -> Inv aux (fst (run (step aux) st xs)).
  Proof.
    induction xs as [|x r IH]; intros st H; cbn; [exact H|].
    pose proof (step_inv aux st x H) as H1. destruct (step aux st x) as [s1 o]. cbn in H1.
    specialize (IH s1 H1). destruct (run (step aux) s1 r). exact IH.
  Qed.

  Theorem kernel_of_machine_split : split_spec kernel_of_machine.
  Proof.
    intros s0 ins n. apply kernel_of_machine_split_at.
    intros aux st xs Eu Ez s1 G. apply pack_unpack; [|exact G].
    apply run_inv. eapply unpack_inv; eassumption.
  Qed.
End Machine.

(** The same, for a machine whose [good] test is not sticky (it also covers a
    panic at pack time), under the extra assumption that the FIRST segment
    returns: then the whole run equals the split run. *)
Section MachineGoodCut.
  Context {T Aux St In Out : Type}.
  Variable unpack : list T -> option (Aux * St).
  Variable zip : list (list T) -> option (list In).
  Variable step : Aux -> St -> In -> St * Out.
  Variable good : St -> bool.
  Variable pack : Aux -> St -> list T.
  Variable outs : list Out -> option (list (list T)).
  Hypothesis Hzip : zip_laws zip.
  Hypothesis Houts : outs_laws outs.
  Hypothesis pack_unpack : forall aux st, good st = true -> unpack (pack aux st) = Some (aux, st).

  Theorem kernel_of_machine_split_at_good s0 ins n :
    kernel_of_machine unpack zip step good pack outs s0 (firsts n ins) <> None ->
    split_at (kernel_of_machine unpack zip step good pack outs) s0 ins n.
  Proof.
    intros Hne. unfold split_at, split_then. unfold kernel_of_machine in Hne |- *.
    destruct (unpack s0) as [[aux st]|] eqn:Eu; [|reflexivity].
    destruct (zip ins) as [xs|] eqn:Ez.
    2:{ destruct (zl_none zip Hzip ins n Ez) as [-> | E2]; [reflexivity|].
        destruct (zip (firsts n ins)) as [xs1|]; [|reflexivity].
        destruct (run (step aux) st xs1) as [s1 o1]. destruct (good s1) eqn:G; [|reflexivity].
        destruct (outs o1); [|reflexivity]. rewrite E2, (pack_unpack aux s1 G). reflexivity. }
    rewrite (zl_firsts zip Hzip ins n xs Ez) in Hne |- *. rewrite (zl_lasts zip Hzip ins n xs Ez).
    rewrite <- (firstn_skipn n xs) at 1. rewrite run_app.
    destruct (run (step aux) st (firstn n xs)) as [s1 o1].
    destruct (good s1) eqn:G1; [|contradiction].
    destruct (run (step aux) s1 (skipn n xs)) as [s2 o2] eqn:E2.
    rewrite (ol_app outs Houts o1 o2).
    destruct (outs o1) as [x|]; [|contradiction].
    rewrite (pack_unpack aux s1 G1), E2.
    destruct (good s2); [|reflexivity]. destruct (outs o2); reflexivity.
  Qed.
End MachineGoodCut.

Section MachineCausal.
  Context {T Aux St In Out : Type}.
  Variable unpack : list T -> option (Aux * St).
  Variable zip : list (list T) -> option (list In).
  Variable step : Aux -> St -> In -> St * Out.
  Variable good : St -> bool.
  Variable pack : Aux -> St -> list T.
  Variable outs : list Out -> option (list (list T)).
  Hypothesis Hzip : zip_laws zip.
  Hypothesis Houts : outs_laws outs.

  Theorem kernel_of_machine_causal : causal_spec (kernel_of_machine unpack zip step good pack outs).
  Proof.
    intros s0 ins ins' t o sT o' sT' Hf E1 E2. unfold kernel_of_machine in E1, E2.
    destruct (unpack s0) as [[aux st]|]; [|discriminate].
    destruct (zip ins) as [xs|] eqn:Ez; [|discriminate].
    destruct (zip ins') as [xs'|] eqn:Ez'; [|discriminate].
    assert (Hx : firstn t xs = firstn t xs').
    { pose proof (zl_firsts zip Hzip ins t xs Ez) as A. pose proof (zl_firsts zip Hzip ins' t xs' Ez') as B.
      rewrite Hf in A. rewrite A in B. now injection B. }
    pose proof (run_causal (step aux) st xs xs' t Hx) as Hc.
    destruct (run (step aux) st xs) as [s1 os], (run (step aux) st xs') as [s1' os']. cbn in Hc.
    destruct (good s1); [|discriminate]. destruct (good s1'); [|discriminate].
    destruct (outs os) as [x|] eqn:Eo; [|discriminate]. destruct (outs os') as [x'|] eqn:Eo'; [|discriminate].
    injection E1 as <- _. injection E2 as <- _.
    pose proof (ol_firstn outs Houts t os x Eo) as A. pose proof (ol_firstn outs Houts t os' x' Eo') as B.
    rewrite Hc in A. rewrite A in B. now injection B.
  Qed.
End MachineCausal.

(** the plain case: [unpack (pack aux st) = Some (aux, st)] under an invariant *)
Section MachineEq.
  Context {T Aux St In Out : Type}.
  Variable unpack : list T -> option (Aux * St).
  Variable zip : list (list T) -> option (list In).
  Variable step : Aux -> St -> In -> St * Out.
  Variable good : St -> bool.
  Variable pack : Aux -> St -> list T.
  Variable outs : list Out -> option (list (list T)).
  Hypothesis Hzip : zip_laws zip.
  Hypothesis Houts : outs_laws outs.
  Hypothesis good_sticky : forall aux st x, good st = false -> good (fst (step aux st x)) = false.
  Variable Inv : Aux -> St -> Prop.
  Hypothesis unpack_inv : forall s aux st, unpack s = Some (aux, st) -> Inv aux st.
  Hypothesis step_inv : forall aux st x, Inv aux st -> Inv aux (fst (step aux st x)).
  Hypothesis pack_unpack : forall aux st, Inv aux st -> good st = true -> unpack (pack aux st) = Some (aux, st).

  Theorem kernel_of_machine_split_eq : split_spec (kernel_of_machine unpack zip step good pack outs).
  Proof.
    apply (kernel_of_machine_split unpack zip step good pack outs Hzip Houts good_sticky
             (fun _ a b => a = b)) with (Inv := Inv); try assumption.
    - intros aux a b x ->. split; reflexivity.
    - intros aux a b ->. reflexivity.
    - intros aux a b ->. reflexivity.
    - intros aux st Hi Hg. exists st. split; [now apply pack_unpack|reflexivity].
  Qed.
End MachineEq.

(* ------------------------------------------------------------------ stateless kernels *)
(** [for i := range input { out[i] = f(in[i]) }] models: the output block is a
    row-wise function [F] of the zipped inputs; states are handed back as given *)
Record rows_laws {T In : Type} (F : list In -> list (list T)) : Prop := {
  rl_app : forall a b, F (a ++ b) = F a +++ F b;
  rl_firstn : forall t rows, F (firstn t rows) = firsts t (F rows)
}.

Section Rows.
  Context {T In : Type}.
  Variable zip : list (list T) -> option (list In).
  Variable F : list In -> list (list T).

  Definition kernel_of_rows : kern T := fun states inputs =>
    match zip inputs with
    | Some rows => Some (F rows, states)
    | None => None
    end.

  Hypothesis Hzip : zip_laws zip.
  Hypothesis HF : rows_laws F.

  Theorem kernel_of_rows_split : split_spec kernel_of_rows.
  Proof.
    intros s0 ins n. unfold split_at, split_then, kernel_of_rows.
    destruct (zip ins) as [xs|] eqn:Ez.
    - rewrite (zl_firsts zip Hzip ins n xs Ez), (zl_lasts zip Hzip ins n xs Ez).
      rewrite <- (rl_app F HF), firstn_skipn. reflexivity.
    - destruct (zl_none zip Hzip ins n Ez) as [-> | ->]; [reflexivity|].
      destruct (zip (firsts n ins)); reflexivity.
  Qed.

  Theorem kernel_of_rows_causal : causal_spec kernel_of_rows.
  Proof.
    intros s0 ins ins' t o sT o' sT' Hf E1 E2. unfold kernel_of_rows in E1, E2.
    destruct (zip ins) as [xs|] eqn:Ez; [|discriminate].
    destruct (zip ins') as [xs'|] eqn:Ez'; [|discriminate].
    injection E1 as <- _. injection E2 as <- _.
    pose proof (zl_firsts zip Hzip ins t xs Ez) as A. pose proof (zl_firsts zip Hzip ins' t xs' Ez') as B.
    rewrite Hf in A. rewrite A in B. injection B as B.
    rewrite <- !(rl_firstn F HF). now rewrite B.
  Qed.
End Rows.

Lemma proj_series_rows_laws {T In : Type} (fs : list (In -> T)) : rows_laws (proj_series fs).
Proof. constructor; intros; [apply proj_series_app|apply proj_series_firstn]. Qed.

(** [Mealy.run] of a loop with a trivial state is [map] *)
Lemma run_unit_state {I O : Type} (f : I -> O) (xs : list I) :
  run (fun (s : unit) x => (s, f x)) tt xs = (tt, map f xs).
Proof. induction xs as [|x r IH]; cbn; [reflexivity|]. now rewrite IH. Qed.

(* ------------------------------------------------------------------ both properties at once *)
Definition hc_spec {T} (K : kern T) : Prop := split_spec K /\ causal_spec K.

Lemma hc_none {T} : hc_spec (fun (_ : list T) (_ : list (list T)) => @None (list (list T) * list T)).
Proof. split; [apply split_spec_none|apply causal_spec_none]. Qed.
Lemma hc_ext {T} (K K' : kern T) : (forall s i, K s i = K' s i) -> hc_spec K' -> hc_spec K.
Proof. intros E [A B]; split; [eapply split_spec_ext|eapply causal_spec_ext]; eauto. Qed.
Lemma hc_rows {T In} (zip : list (list T) -> option (list In)) F :
  zip_laws zip -> rows_laws F -> hc_spec (kernel_of_rows zip F).
Proof. intros; split; [apply kernel_of_rows_split|apply kernel_of_rows_causal]; assumption. Qed.

(** output block given as a row-wise function of the per-step outputs *)
Lemma rows_outs_laws {T Out} (F : list Out -> list (list T)) :
  rows_laws F -> outs_laws (fun os => Some (F os)).
Proof.
  intros [Ha Hf]; constructor.
  - intros a b. now rewrite Ha.
  - intros t os o H. injection H as <-. now rewrite Hf.
Qed.

(** a loop that cannot panic and whose state survives pack / unpack literally *)
Lemma hc_machine_simple {T Aux St In Out} (unpack : list T -> option (Aux * St))
    (zip : list (list T) -> option (list In)) (step : Aux -> St -> In -> St * Out)
    (pack : Aux -> St -> list T) (F : list Out -> list (list T)) :
  zip_laws zip -> rows_laws F ->
  (forall aux st, unpack (pack aux st) = Some (aux, st)) ->
  hc_spec (kernel_of_machine unpack zip step (fun _ => true) pack (fun os => Some (F os))).
Proof.
  intros Hz HF Hpu. split.
  - apply (kernel_of_machine_split_eq unpack zip step _ pack _ Hz (rows_outs_laws F HF))
      with (Inv := fun _ _ => True); try (intros; exact I).
    + intros; discriminate.
    + intros aux st _ _. apply Hpu.
  - apply kernel_of_machine_causal; [exact Hz|apply rows_outs_laws; exact HF].
Qed.

(** kernels that refuse some input blocks before looking at anything else
    (e.g. an empty series when the Go code indexes element 0; no current kernel needs it since fix b73cc97) *)
Section Guard.
  Context {T : Type}.
  Variables (K KM : kern T) (g : list (list T) -> bool).
  Hypothesis HK : forall s i, K s i = if g i then KM s i else None.

  Lemma split_at_guard s0 ins n :
    g ins = true -> g (firsts n ins) = true -> g (lasts n ins) = true ->
    split_at KM s0 ins n -> split_at K s0 ins n.
  Proof.
    intros G G1 G2 H. unfold split_at, split_then in *. rewrite !HK, G, G1, H.
    destruct (KM s0 (firsts n ins)) as [[o1 s1]|]; [|reflexivity]. now rewrite HK, G2.
  Qed.

  Lemma causal_guard : causal_spec KM -> causal_spec K.
  Proof.
    intros H s0 ins ins' t o sT o' sT' Hf E1 E2. rewrite HK in E1, E2.
    destruct (g ins); [|discriminate]. destruct (g ins'); [|discriminate]. eauto.
  Qed.
End Guard.
