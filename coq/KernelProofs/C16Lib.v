(** Generic lemmas used by the C16 proofs: a stateless time loop is [map]; lifting
    of per-step facts to whole series. *)
From Coq Require Import List Reals Lra.
From OW Require Import Base.Arith Base.RInst Base.Mealy Kernels.C16Common Kernels.UnitConsts.
Import ListNotations.
Local Open Scope R_scope.

Lemma run_loop_step {I O : Type} (f : I -> O) (xs : list I) :
  run (loop_step f) tt xs = (tt, map f xs).
Proof.
  induction xs as [|x r IH]; [reflexivity|].
  change (run (loop_step f) tt (x :: r)) with
    (let (s2, os) := run (loop_step f) tt r in (s2, f x :: os)).
  rewrite IH. reflexivity.
Qed.

Lemma snd_run_loop_step {I O : Type} (f : I -> O) (xs : list I) :
  snd (run (loop_step f) tt xs) = map f xs.
Proof. rewrite run_loop_step. reflexivity. Qed.

Lemma time_loop_map {I O : Type} (f : I -> O) (xs : list I) : time_loop f xs = map f xs.
Proof. apply snd_run_loop_step. Qed.

(** pointwise combination of two series *)
Definition zipw {X Y Z : Type} (f : X -> Y -> Z) (l1 : list X) (l2 : list Y) : list Z :=
  map (fun p => f (fst p) (snd p)) (combine l1 l2).

Lemma combine_map_same {X Y Z : Type} (g : X -> Y) (h : X -> Z) (l : list X) :
  combine (map g l) (map h l) = map (fun x => (g x, h x)) l.
Proof. induction l as [|a l IH]; cbn; [reflexivity|]. now rewrite IH. Qed.

Lemma zipw_map_same {W X Y Z : Type} (f : X -> Y -> Z) (g : W -> X) (h : W -> Y) (l : list W) :
  zipw f (map g l) (map h l) = map (fun x => f (g x) (h x)) l.
Proof. unfold zipw. rewrite combine_map_same, map_map. reflexivity. Qed.

Lemma map_fst_combine {X Y : Type} (a : list X) (b : list Y) :
  length a = length b -> map fst (combine a b) = a.
Proof.
  revert b; induction a as [|x a IH]; intros [|y b] H; cbn in *; try discriminate; [reflexivity|].
  f_equal. apply IH. now injection H.
Qed.

Lemma map_snd_combine {X Y : Type} (a : list X) (b : list Y) :
  length a = length b -> map snd (combine a b) = b.
Proof.
  revert b; induction a as [|x a IH]; intros [|y b] H; cbn in *; try discriminate; [reflexivity|].
  f_equal. apply IH. now injection H.
Qed.

Lemma map_eq_id {X : Type} (f : X -> X) (l : list X) : (forall x, f x = x) -> map f l = l.
Proof. intros H. induction l as [|a l IH]; cbn; [reflexivity|]. now rewrite H, IH. Qed.

Lemma Forall_map_all {X Y : Type} (P : Y -> Prop) (f : X -> Y) (l : list X) :
  (forall x, P (f x)) -> Forall P (map f l).
Proof. intros H. induction l; cbn; constructor; auto. Qed.

Lemma Forall2_map_map {W X Y : Type} (R : X -> Y -> Prop) (g : W -> X) (h : W -> Y) (l : list W) :
  (forall x, R (g x) (h x)) -> Forall2 R (map g l) (map h l).
Proof. intros H. induction l; cbn; constructor; auto. Qed.

(** lifting a per-step relation between the step's inputs and outputs to a run *)
Lemma Forall2_map_r {X Y : Type} (R : X -> Y -> Prop) (f : X -> Y) (l : list X) :
  (forall x, R x (f x)) -> Forall2 R l (map f l).
Proof. intros H. induction l; cbn; constructor; auto. Qed.

Lemma Forall2_map_r_in {X Y : Type} (R : X -> Y -> Prop) (f : X -> Y) (l : list X) :
  (forall x, In x l -> R x (f x)) -> Forall2 R l (map f l).
Proof.
  intros H. induction l as [|a l IH]; cbn; constructor.
  - apply H. now left.
  - apply IH. intros x Hx. apply H. now right.
Qed.

Lemma untouched_all_zero {I : Type} (xs : list I) :
  Forall (fun o : R => o = 0) (untouched xs).
Proof. unfold untouched. apply Forall_map_all. reflexivity. Qed.

Lemma untouched_map {I : Type} (xs : list I) : untouched (T := R) xs = map (fun _ => 0) xs.
Proof. reflexivity. Qed.

(** the real value of a unit constant pair *)
Lemma of_q_R (p : BinNums.Z) (q : BinNums.positive) : of_q (Arith := RArith) p q = (IZR p / IZR (BinNums.Zpos q))%R.
Proof. reflexivity. Qed.

(** unfold the unit constants to their real values *)
Ltac units_unfold :=
  unfold u_MG_PER_LITRE_TO_KG_PER_M3, u_MILLIGRAM_TO_KG, u_KG_TO_MILLIGRAM, u_TONNES_TO_KG,
    u_MILLIMETRES_TO_METRES, u_METRES_TO_MILLIMETRES, u_PERCENT_TO_PROPORTION, u_SECONDS_PER_DAY,
    u_CUBIC_METRES_TO_LITRES, u_MEGA_LITRES_TO_LITRES, u_SQUARE_METRES_TO_HECTARES, u_CUMECS_TO_ML_PER_DAY,
    u_DAYS_PER_YEAR, u_EFFECTIVELY_ZERO, u_CUMECS_TO_LITRES_PER_DAY, of_qp in *;
  cbn [fst snd q_MG_PER_LITRE_TO_KG_PER_M3 q_MILLIGRAM_TO_KG q_KG_TO_MILLIGRAM q_TONNES_TO_KG
    q_MILLIMETRES_TO_METRES q_METRES_TO_MILLIMETRES q_PERCENT_TO_PROPORTION q_SECONDS_PER_DAY
    q_CUBIC_METRES_TO_LITRES q_MEGA_LITRES_TO_LITRES q_SQUARE_METRES_TO_HECTARES q_CUMECS_TO_ML_PER_DAY
    q_DAYS_PER_YEAR q_EFFECTIVELY_ZERO q_CUMECS_TO_LITRES_PER_DAY] in *;
  runfold.

Lemma Rpow_nonneg (x y : R) : 0 <= Rpow x y.
Proof.
  unfold Rpow. destruct (Req_EM_T y 0); [lra|]. destruct (Req_EM_T x 0); [lra|].
  left. unfold Rpower. apply exp_pos.
Qed.

Lemma Rdiv_nonneg (a b : R) : 0 <= a -> 0 < b -> 0 <= a / b.
Proof. intros. unfold Rdiv. apply Rmult_le_pos; [assumption|]. left. now apply Rinv_0_lt_compat. Qed.

Lemma Rdiv_pos (a b : R) : 0 < a -> 0 < b -> 0 < a / b.
Proof. intros. unfold Rdiv. apply Rmult_lt_0_compat; [assumption|]. now apply Rinv_0_lt_compat. Qed.
