(** C16 proofs for DynamicSednetGully (gullyLoadOrig) and DynamicSednetGullyAlt
    (gullyLoadDerm) through the shared loop of sednet_gully.go. *)
From Coq Require Import ZArith List Reals Lra Bool.
From OW Require Import Base.Arith Base.RInst Base.Mealy Kernels.C16Common Kernels.UnitConsts
  Kernels.SednetGully Kernels.SednetGullyAlt KernelProofs.C16Lib.
Import ListNotations.
Local Open Scope R_scope.

Definition gully_prop_fine (p : gully_params (T := R)) : R := g_percentFine p / 100.

Section Generic.
  Variable calc : gully_export_fn (T := R).
  Variable p : gully_params (T := R).

  (** delivered load = generated load x sediment delivery ratio (%), on every path *)
  Theorem gully_row_delivered (x : R * R * R * R) :
    let o := sednet_gully_row calc p x in
    g_fineLoad o = g_generatedFine o * (g_sdrFine p * (1 / 100))
    /\ g_coarseLoad o = g_generatedCoarse o * (g_sdrCoarse p * (1 / 100)).
  Proof.
    destruct x as [[[qf yr] ar] al]. unfold sednet_gully_row. runfold.
    destruct (Rltb yr _); [cbn; split; ring|].
    destruct (Reqb qf 0 || Reqb ar 0)%bool; [cbn; split; ring|].
    destruct (calc _ _ _ _ _ _ _ _ _ _) as [gf gc]. cbn. split; reflexivity.
  Qed.

  (** zero when the driver is zero (no quickflow, no annual runoff) or before the disturbance year *)
  Theorem gully_row_zero (qf yr ar al : R) :
    qf = 0 \/ ar = 0 \/ yr < g_yearDisturbance p ->
    sednet_gully_row calc p (qf, yr, ar, al) = gully_zero_out.
  Proof.
    intros H. unfold sednet_gully_row. runfold.
    destruct (Rltb yr _) eqn:E1; [reflexivity|]. apply Rltb_false in E1.
    destruct (Reqb qf 0) eqn:E2; [reflexivity|]. destruct (Reqb ar 0) eqn:E3; [reflexivity|].
    apply Reqb_false in E2, E3. destruct H as [H|[H|H]]; [contradiction|contradiction|lra].
  Qed.

  (** the generating path *)
  Lemma gully_row_generating (qf yr ar al : R) :
    qf <> 0 -> ar <> 0 -> g_yearDisturbance p <= yr ->
    sednet_gully_row calc p (qf, yr, ar, al) =
    let '(gf, gc) := calc qf ar (g_area p) (gully_prop_fine p) (gully_activity p yr) (g_managementPracticeFactor p)
                          al (g_annualAverageSedimentSupply p) (g_longtermRunoffFactor p) (g_dailyRunoffPowerFactor p) in
    {| g_fineLoad := gf / g_timestepInSeconds p * (g_sdrFine p * (1 / 100));
       g_coarseLoad := gc / g_timestepInSeconds p * (g_sdrCoarse p * (1 / 100));
       g_generatedFine := gf / g_timestepInSeconds p; g_generatedCoarse := gc / g_timestepInSeconds p |}.
  Proof.
    intros Hq Ha Hy. unfold sednet_gully_row, gully_prop_fine. runfold.
    destruct (Rltb yr _) eqn:E1; [apply Rltb_true in E1; lra|].
    destruct (Reqb qf 0) eqn:E2; [apply Reqb_true in E2; contradiction|].
    destruct (Reqb ar 0) eqn:E3; [apply Reqb_true in E3; contradiction|].
    cbn [orb]. destruct (calc _ _ _ _ _ _ _ _ _ _) as [gf gc]. reflexivity.
  Qed.
End Generic.

Lemma gully_activity_spec (p : gully_params (T := R)) (yr : R) :
  (yr <= g_gullyEndYear p -> gully_activity p yr = 1)
  /\ (g_gullyEndYear p < yr -> gully_activity p yr = g_averageGullyActivityFactor p).
Proof.
  unfold gully_activity, gtb. runfold. unfold Rltb. destruct (Rlt_dec _ _); split; intros; try reflexivity; lra.
Qed.

Lemma gully_daily_runoff_factor_nonneg (q ltrf pf : R) : 0 <= gully_daily_runoff_factor q ltrf pf.
Proof.
  unfold gully_daily_runoff_factor, gtb. runfold. unfold Rltb. destruct (Rlt_dec 0 ltrf); [|lra].
  apply Rdiv_nonneg; [apply Rpow_nonneg|assumption].
Qed.

(** in the branch that uses it, the power is a genuine real power of a positive base *)
Lemma gully_daily_runoff_factor_pos (q ltrf pf : R) :
  0 < q -> 0 < ltrf -> 0 < pf -> gully_daily_runoff_factor q ltrf pf = Rpower q pf / ltrf.
Proof.
  intros Hq Hl Hp. unfold gully_daily_runoff_factor, gtb. runfold. unfold Rltb, Rleb.
  destruct (Rlt_dec 0 ltrf); [|lra]. destruct (Rle_dec pf 0); [lra|].
  unfold Rpow. destruct (Req_EM_T pf 0); [lra|]. destruct (Req_EM_T q 0); [lra|]. reflexivity.
Qed.

(** ** what the two daily-load functions do: fine : coarse = propFine x activity : (1 - propFine) *)
Theorem gully_load_orig_split (q ar area pf act mpf al supply ltrf drpf : R) :
  let '(gf, gc) := gully_load_orig q ar area pf act mpf al supply ltrf drpf in
  gf * (1 - pf) = gc * (pf * act)
  /\ gf + gc = 100 / 36525 * gully_daily_runoff_factor q ltrf drpf * (pf * act + (1 - pf)) * mpf * supply * 1000.
Proof. unfold gully_load_orig. units_unfold. cbv beta iota zeta. split; [ring|field]. Qed.

Theorem gully_load_derm_split (q ar area pf act mpf al supply ltrf drpf : R) :
  let '(gf, gc) := gully_load_derm q ar area pf act mpf al supply ltrf drpf in
  gf * (1 - pf) = gc * (pf * act).
Proof. unfold gully_load_derm. units_unfold. cbv beta iota zeta. ring. Qed.

Lemma gully_load_orig_nonneg (q ar area pf act mpf al supply ltrf drpf : R) :
  0 <= pf <= 1 -> 0 <= act -> 0 <= mpf -> 0 <= supply ->
  let '(gf, gc) := gully_load_orig q ar area pf act mpf al supply ltrf drpf in 0 <= gf /\ 0 <= gc.
Proof.
  intros. pose proof (gully_daily_runoff_factor_nonneg q ltrf drpf) as Hd.
  unfold gully_load_orig. units_unfold. cbv beta iota zeta.
  split; repeat apply Rmult_le_pos; try assumption; lra.
Qed.

Lemma gully_load_derm_nonneg (q ar area pf act mpf al supply ltrf drpf : R) :
  0 <= q -> 0 < ar -> 0 < area -> 0 <= pf <= 1 -> 0 <= act -> 0 <= mpf -> 0 <= al ->
  let '(gf, gc) := gully_load_derm q ar area pf act mpf al supply ltrf drpf in 0 <= gf /\ 0 <= gc.
Proof.
  intros. unfold gully_load_derm. units_unfold. cbv beta iota zeta.
  assert (D : 0 <= q / area * (1000 / 1) * (86400 / 1) / ar).
  { assert (Q : 0 <= q / area) by (apply Rdiv_nonneg; assumption).
    apply Rdiv_nonneg; [|assumption]. apply Rmult_le_pos; [apply Rmult_le_pos; [exact Q|lra]|lra]. }
  assert (M : 0 <= mpf * al) by (apply Rmult_le_pos; assumption).
  split.
  - apply Rmult_le_pos; [apply Rmult_le_pos; [apply Rmult_le_pos; [exact D|lra]|assumption]|exact M].
  - apply Rmult_le_pos; [apply Rmult_le_pos; [exact D|lra]|exact M].
Qed.

Section Models.
  Variable p : gully_params (T := R).
  Let pf := gully_prop_fine p.

  Theorem gully_orig_row_split (qf yr ar al : R) :
    let o := sednet_gully_row gully_load_orig p (qf, yr, ar, al) in
    g_generatedFine o * (1 - pf) = g_generatedCoarse o * (pf * gully_activity p yr).
  Proof.
    cbv zeta. destruct (Req_EM_T qf 0) as [Hq|Hq]; [rewrite gully_row_zero by tauto; cbn; ring|].
    destruct (Req_EM_T ar 0) as [Ha|Ha]; [rewrite gully_row_zero by tauto; cbn; ring|].
    destruct (Rlt_dec yr (g_yearDisturbance p)) as [Hy|Hy]; [rewrite gully_row_zero by tauto; cbn; ring|].
    rewrite gully_row_generating by (try assumption; lra).
    pose proof (gully_load_orig_split qf ar (g_area p) pf (gully_activity p yr) (g_managementPracticeFactor p) al
                  (g_annualAverageSedimentSupply p) (g_longtermRunoffFactor p) (g_dailyRunoffPowerFactor p)) as H.
    fold pf. destruct (gully_load_orig _ _ _ _ _ _ _ _ _ _) as [gf gc]. cbn. destruct H as [H _].
    unfold Rdiv. transitivity (gf * (1 - pf) * / g_timestepInSeconds p); [ring|]. rewrite H. ring.
  Qed.

  Theorem gully_alt_row_split (qf yr ar al : R) :
    let o := sednet_gully_row gully_load_derm p (qf, yr, ar, al) in
    g_generatedFine o * (1 - pf) = g_generatedCoarse o * (pf * gully_activity p yr).
  Proof.
    cbv zeta. destruct (Req_EM_T qf 0) as [Hq|Hq]; [rewrite gully_row_zero by tauto; cbn; ring|].
    destruct (Req_EM_T ar 0) as [Ha|Ha]; [rewrite gully_row_zero by tauto; cbn; ring|].
    destruct (Rlt_dec yr (g_yearDisturbance p)) as [Hy|Hy]; [rewrite gully_row_zero by tauto; cbn; ring|].
    rewrite gully_row_generating by (try assumption; lra).
    pose proof (gully_load_derm_split qf ar (g_area p) pf (gully_activity p yr) (g_managementPracticeFactor p) al
                  (g_annualAverageSedimentSupply p) (g_longtermRunoffFactor p) (g_dailyRunoffPowerFactor p)) as H.
    fold pf. destruct (gully_load_derm _ _ _ _ _ _ _ _ _ _) as [gf gc]. cbn.
    unfold Rdiv. transitivity (gf * (1 - pf) * / g_timestepInSeconds p); [ring|]. rewrite H. ring.
  Qed.

  (** while the gully is active (year <= GullyEndYear) the split is by the fine fraction alone *)
  Corollary gully_orig_row_fine_fraction (qf yr ar al : R) :
    yr <= g_gullyEndYear p ->
    let o := sednet_gully_row gully_load_orig p (qf, yr, ar, al) in
    g_generatedFine o = pf * (g_generatedFine o + g_generatedCoarse o).
  Proof.
    intros Hy. pose proof (gully_orig_row_split qf yr ar al) as H. cbv zeta in *.
    rewrite (proj1 (gully_activity_spec p yr) Hy) in H. lra.
  Qed.

  Corollary gully_alt_row_fine_fraction (qf yr ar al : R) :
    yr <= g_gullyEndYear p ->
    let o := sednet_gully_row gully_load_derm p (qf, yr, ar, al) in
    g_generatedFine o = pf * (g_generatedFine o + g_generatedCoarse o).
  Proof.
    intros Hy. pose proof (gully_alt_row_split qf yr ar al) as H. cbv zeta in *.
    rewrite (proj1 (gully_activity_spec p yr) Hy) in H. lra.
  Qed.

  (** zero sediment supply: nothing is generated *)
  Theorem gully_orig_row_zero_supply (qf yr ar al : R) :
    g_annualAverageSedimentSupply p = 0 ->
    let o := sednet_gully_row gully_load_orig p (qf, yr, ar, al) in
    g_generatedFine o = 0 /\ g_generatedCoarse o = 0 /\ g_fineLoad o = 0 /\ g_coarseLoad o = 0.
  Proof.
    intros Hs. cbv zeta.
    destruct (Req_EM_T qf 0) as [Hq|Hq]; [rewrite gully_row_zero by tauto; cbn; tauto|].
    destruct (Req_EM_T ar 0) as [Ha|Ha]; [rewrite gully_row_zero by tauto; cbn; tauto|].
    destruct (Rlt_dec yr (g_yearDisturbance p)) as [Hy|Hy]; [rewrite gully_row_zero by tauto; cbn; tauto|].
    rewrite gully_row_generating by (try assumption; lra).
    unfold gully_load_orig. rewrite Hs. units_unfold. cbn. repeat split; unfold Rdiv; ring.
  Qed.

  Theorem gully_alt_row_zero_supply (qf yr ar : R) :
    let o := sednet_gully_row gully_load_derm p (qf, yr, ar, 0) in
    g_generatedFine o = 0 /\ g_generatedCoarse o = 0 /\ g_fineLoad o = 0 /\ g_coarseLoad o = 0.
  Proof.
    cbv zeta.
    destruct (Req_EM_T qf 0) as [Hq|Hq]; [rewrite gully_row_zero by tauto; cbn; tauto|].
    destruct (Req_EM_T ar 0) as [Ha|Ha]; [rewrite gully_row_zero by tauto; cbn; tauto|].
    destruct (Rlt_dec yr (g_yearDisturbance p)) as [Hy|Hy]; [rewrite gully_row_zero by tauto; cbn; tauto|].
    rewrite gully_row_generating by (try assumption; lra).
    unfold gully_load_derm. units_unfold. cbn. repeat split; unfold Rdiv; ring.
  Qed.

  (** non-negative loads when the drivers are *)
  Theorem gully_orig_row_nonneg (qf yr ar al : R) :
    0 <= qf -> 0 <= g_percentFine p <= 100 -> 0 <= g_averageGullyActivityFactor p ->
    0 <= g_managementPracticeFactor p -> 0 <= g_annualAverageSedimentSupply p ->
    0 < g_timestepInSeconds p -> 0 <= g_sdrFine p -> 0 <= g_sdrCoarse p ->
    let o := sednet_gully_row gully_load_orig p (qf, yr, ar, al) in
    0 <= g_generatedFine o /\ 0 <= g_generatedCoarse o /\ 0 <= g_fineLoad o /\ 0 <= g_coarseLoad o.
  Proof.
    intros Hqf Hpf Hact Hmpf Hsup Hts Hsf Hsc. cbv zeta.
    destruct (Req_EM_T qf 0) as [Hq|Hq]; [rewrite gully_row_zero by tauto; cbn; lra|].
    destruct (Req_EM_T ar 0) as [Ha|Ha]; [rewrite gully_row_zero by tauto; cbn; lra|].
    destruct (Rlt_dec yr (g_yearDisturbance p)) as [Hy|Hy]; [rewrite gully_row_zero by tauto; cbn; lra|].
    rewrite gully_row_generating by (try assumption; lra).
    assert (Hpf' : 0 <= gully_prop_fine p <= 1) by (unfold gully_prop_fine; lra).
    assert (Ha' : 0 <= gully_activity p yr).
    { destruct (Rle_dec yr (g_gullyEndYear p)) as [H|H].
      - rewrite (proj1 (gully_activity_spec p yr) H). lra.
      - rewrite (proj2 (gully_activity_spec p yr)) by lra. assumption. }
    pose proof (gully_load_orig_nonneg qf ar (g_area p) (gully_prop_fine p) (gully_activity p yr)
                  (g_managementPracticeFactor p) al (g_annualAverageSedimentSupply p) (g_longtermRunoffFactor p)
                  (g_dailyRunoffPowerFactor p) Hpf' Ha' Hmpf Hsup) as H.
    destruct (gully_load_orig _ _ _ _ _ _ _ _ _ _) as [gf gc]. destruct H as [Hf Hc]. cbn.
    split; [apply Rdiv_nonneg; assumption|]. split; [apply Rdiv_nonneg; assumption|].
    split; (apply Rmult_le_pos; [apply Rdiv_nonneg; assumption|lra]).
  Qed.

  Theorem gully_alt_row_nonneg (qf yr ar al : R) :
    0 <= qf -> 0 <= ar -> 0 <= al -> 0 < g_area p ->
    0 <= g_percentFine p <= 100 -> 0 <= g_averageGullyActivityFactor p ->
    0 <= g_managementPracticeFactor p ->
    0 < g_timestepInSeconds p -> 0 <= g_sdrFine p -> 0 <= g_sdrCoarse p ->
    let o := sednet_gully_row gully_load_derm p (qf, yr, ar, al) in
    0 <= g_generatedFine o /\ 0 <= g_generatedCoarse o /\ 0 <= g_fineLoad o /\ 0 <= g_coarseLoad o.
  Proof.
    intros Hqf Har Hal Harea Hpf Hact Hmpf Hts Hsf Hsc. cbv zeta.
    destruct (Req_EM_T qf 0) as [Hq|Hq]; [rewrite gully_row_zero by tauto; cbn; lra|].
    destruct (Req_EM_T ar 0) as [Ha|Ha]; [rewrite gully_row_zero by tauto; cbn; lra|].
    destruct (Rlt_dec yr (g_yearDisturbance p)) as [Hy|Hy]; [rewrite gully_row_zero by tauto; cbn; lra|].
    rewrite gully_row_generating by (try assumption; lra).
    assert (Hpf' : 0 <= gully_prop_fine p <= 1) by (unfold gully_prop_fine; lra).
    assert (Ha' : 0 <= gully_activity p yr).
    { destruct (Rle_dec yr (g_gullyEndYear p)) as [H|H].
      - rewrite (proj1 (gully_activity_spec p yr) H). lra.
      - rewrite (proj2 (gully_activity_spec p yr)) by lra. assumption. }
    pose proof (gully_load_derm_nonneg qf ar (g_area p) (gully_prop_fine p) (gully_activity p yr)
                  (g_managementPracticeFactor p) al (g_annualAverageSedimentSupply p) (g_longtermRunoffFactor p)
                  (g_dailyRunoffPowerFactor p)) as H.
    destruct (gully_load_derm _ _ _ _ _ _ _ _ _ _) as [gf gc]. destruct H as [Hf Hc]; try assumption; try lra. cbn.
    split; [apply Rdiv_nonneg; assumption|]. split; [apply Rdiv_nonneg; assumption|].
    split; (apply Rmult_le_pos; [apply Rdiv_nonneg; assumption|lra]).
  Qed.
End Models.

(** ** the literal reading "fine = fine fraction x (fine + coarse)" fails after GullyEndYear
    when the activity factor is not 1: witness for DynamicSednetGullyAlt *)
Definition gully_witness_params : gully_params (T := R) :=
  {| g_yearDisturbance := 1990; g_gullyEndYear := 2000; g_area := 1; g_averageGullyActivityFactor := 2;
     g_annualAverageSedimentSupply := 0; g_percentFine := 50; g_managementPracticeFactor := 1;
     g_longtermRunoffFactor := 0; g_dailyRunoffPowerFactor := 0; g_sdrFine := 100; g_sdrCoarse := 100;
     g_timestepInSeconds := 1 |}.

Theorem gully_split_by_fine_fraction_alone_refuted :
  exists (p : gully_params (T := R)) (x : R * R * R * R),
    let o := sednet_gully_row gully_load_derm p x in
    g_generatedFine o = 2 /\ g_generatedCoarse o = 1
    /\ g_generatedFine o <> gully_prop_fine p * (g_generatedFine o + g_generatedCoarse o).
Proof.
  exists gully_witness_params, (1, 2001, 86400000, 2). cbv zeta.
  rewrite gully_row_generating; [|lra|lra|cbn; lra].
  rewrite (proj2 (gully_activity_spec gully_witness_params 2001)) by (cbn; lra).
  unfold gully_load_derm, gully_prop_fine. units_unfold. cbn. repeat split; lra.
Qed.

(** the hypotheses of the two non-negativity theorems are satisfiable, on a generating step with
    positive loads *)
Definition gully_example_params : gully_params (T := R) :=
  {| g_yearDisturbance := 1990; g_gullyEndYear := 2000; g_area := 1; g_averageGullyActivityFactor := 2;
     g_annualAverageSedimentSupply := 36525; g_percentFine := 50; g_managementPracticeFactor := 1;
     g_longtermRunoffFactor := 0; g_dailyRunoffPowerFactor := 0; g_sdrFine := 100; g_sdrCoarse := 50;
     g_timestepInSeconds := 1000 |}.

Example gully_hyps_satisfiable :
  let p := gully_example_params in
  (0 <= g_percentFine p <= 100 /\ 0 <= g_averageGullyActivityFactor p /\ 0 <= g_managementPracticeFactor p
   /\ 0 <= g_annualAverageSedimentSupply p /\ 0 < g_timestepInSeconds p /\ 0 <= g_sdrFine p /\ 0 <= g_sdrCoarse p
   /\ 0 < g_area p)
  /\ (let o := sednet_gully_row gully_load_orig p (1, 1995, 500, 0) in
      g_generatedFine o = 50 /\ g_generatedCoarse o = 50 /\ g_fineLoad o = 50 /\ g_coarseLoad o = 25)
  /\ (let o := sednet_gully_row gully_load_derm p (1, 1995, 86400000, 4000) in
      g_generatedFine o = 2 /\ g_generatedCoarse o = 2 /\ g_fineLoad o = 2 /\ g_coarseLoad o = 1).
Proof.
  cbv zeta. split; [cbn; repeat split; lra|]. split.
  - rewrite gully_row_generating; [|lra|lra|cbn; lra].
    rewrite (proj1 (gully_activity_spec gully_example_params 1995)) by (cbn; lra).
    unfold gully_load_orig, gully_prop_fine, gully_daily_runoff_factor, gtb. units_unfold. cbn.
    unfold Rltb. destruct (Rlt_dec 0 0); [lra|]. repeat split; field.
  - rewrite gully_row_generating; [|lra|lra|cbn; lra].
    rewrite (proj1 (gully_activity_spec gully_example_params 1995)) by (cbn; lra).
    unfold gully_load_derm, gully_prop_fine. units_unfold. cbn. repeat split; field.
Qed.

(** ** whole runs *)
Lemma sednet_gully_generic_run (calc : gully_export_fn (T := R))
  (yd ey area act supply pcf mpf ltrf drpf sdrf sdrc ts : R) (quickflow year annualRunoff annualLoad st : list R) :
  let p := {| g_yearDisturbance := yd; g_gullyEndYear := ey; g_area := area;
              g_averageGullyActivityFactor := act; g_annualAverageSedimentSupply := supply;
              g_percentFine := pcf; g_managementPracticeFactor := mpf; g_longtermRunoffFactor := ltrf;
              g_dailyRunoffPowerFactor := drpf; g_sdrFine := sdrf; g_sdrCoarse := sdrc;
              g_timestepInSeconds := ts |} in
  let os := map (sednet_gully_row calc p) (combine4 quickflow year annualRunoff annualLoad) in
  sednet_gully_generic calc [yd; ey; area; act; supply; pcf; mpf; ltrf; drpf; sdrf; sdrc; ts] st
    [quickflow; year; annualRunoff; annualLoad]
  = Some ([map g_fineLoad os; map g_coarseLoad os; map g_generatedFine os; map g_generatedCoarse os], st).
Proof.
  cbv zeta. unfold sednet_gully_generic, sednet_gully_step. rewrite snd_run_loop_step. reflexivity.
Qed.
