(** Proofs about Kernels/InstreamParticulateNutrient.v over the reals (C12). *)
From Coq Require Import ZArith Reals Lra List.
From OW Require Import Base.Arith Base.RInst Base.Mealy KernelProofs.Budget
  Kernels.C12Common Kernels.LumpedConstituent KernelProofs.LumpedConstituent
  Kernels.InstreamParticulateNutrient.
Import ListNotations.
Local Open Scope R_scope.

Notation Rpn_step := (@pn_step R RArith).
Notation pn_inR := (@pn_in R).
Notation pn_outR := (@pn_out R).

Ltac rcases :=
  repeat match goal with
         | |- context [if ?b then _ else _] => rcase_bool b; cbn [fst snd]
         end.

(** stock: in-stream stored mass + bed (channel) store *)
Definition pn_stock (s : R * R) : R := fst s + snd s.
(** mass entering: upstream, lateral and the stream-bank particulate nutrient *)
Definition pn_inflow (pnc dt : R) (x : pn_inR) : R :=
  (pi_incomingMassUpstream x + pi_incomingMassLateral x + pi_streambankErosion x * pnc) * dt.
(** mass leaving: downstream, to the floodplain, flushed *)
Definition pn_outflow (dt : R) (x : pn_inR) (o : pn_outR) : R :=
  po_loadDownstream o * dt + po_floodplainDeposit o + po_flushed o.

(** per-step mass balance: every branch (lateral sediment or not, clamp at 0,
    deposition or resuspension, flushed or not), no hypotheses *)
Lemma pn_step_budget pnc spf dt s x :
  pn_stock s + pn_inflow pnc dt x =
  pn_stock (fst (Rpn_step pnc spf dt s x)) + pn_outflow dt x (snd (Rpn_step pnc spf dt s x)).
Proof.
  destruct s as [i c].
  unfold pn_step, pn_stock, pn_inflow, pn_outflow. runfold.
  rcase_bool (Rleb 0 (pi_channelDepositionFraction x));
  (rcase_bool (Rltb (pi_outflow x * dt + pi_reachVolume x) (@MINIMUM_VOLUME R RArith)); cbn;
   [ lra | rewrite MINIMUM_VOLUME_R in *; field; lra ]).
Qed.

(** the bed exchange is exactly the change of the channel store, and the stream
    bank load is reported as a rate *)
Lemma pn_step_bed pnc spf dt i c x :
  snd (fst (Rpn_step pnc spf dt (i, c) x)) = c + po_bedExchange (snd (Rpn_step pnc spf dt (i, c) x)) /\
  po_loadFromStreambank (snd (Rpn_step pnc spf dt (i, c) x)) = pi_streambankErosion x * pnc.
Proof.
  unfold pn_step. runfold.
  rcase_bool (Rleb 0 (pi_channelDepositionFraction x));
  (rcase_bool (Rltb (pi_outflow x * dt + pi_reachVolume x) (@MINIMUM_VOLUME R RArith)); cbn; split; lra).
Qed.

Lemma pn_step_floodplain_rate pnc spf dt s x : dt <> 0 ->
  po_loadToFloodplain (snd (Rpn_step pnc spf dt s x)) * dt = po_floodplainDeposit (snd (Rpn_step pnc spf dt s x)).
Proof.
  intros Hdt. destruct s as [i c]. unfold pn_step. runfold.
  rcase_bool (Rleb 0 (pi_channelDepositionFraction x));
  (rcase_bool (Rltb (pi_outflow x * dt + pi_reachVolume x) (@MINIMUM_VOLUME R RArith)); cbn; field; assumption).
Qed.

Lemma pn_step_flush pnc spf dt s x :
  po_flushed (snd (Rpn_step pnc spf dt s x)) <> 0 -> pn_working_vol dt x < 1 / 100.
Proof.
  destruct s as [i c]. unfold pn_step, pn_working_vol. runfold.
  rcase_bool (Rleb 0 (pi_channelDepositionFraction x));
  (rcase_bool (Rltb (pi_outflow x * dt + pi_reachVolume x) (@MINIMUM_VOLUME R RArith)); cbn; intros H;
   [ rewrite MINIMUM_VOLUME_R in *; assumption | contradiction H; reflexivity ]).
Qed.

(** non-negative inputs; the two deposition fractions are unconstrained (the
    floodplain fraction is clamped to [0,1] by the code, a negative channel
    fraction means resuspension) *)
Definition pn_in_nonneg (x : pn_inR) : Prop :=
  0 <= pi_incomingMassUpstream x /\ 0 <= pi_incomingMassLateral x /\ 0 <= pi_reachVolume x /\
  0 <= pi_outflow x /\ 0 <= pi_streambankErosion x.

Lemma clamp01 f : 0 <= Rmin (Rmax f 0) 1 <= 1.
Proof.
  unfold Rmin, Rmax. destruct (Rle_dec f 0); destruct (Rle_dec _ 1); lra.
Qed.

Lemma pn_tail_nonneg left q v dt :
  0 <= left -> 0 <= q -> 0 <= v -> 1 / 100 <= q * dt + v ->
  0 <= left / (q * dt + v) * v /\ 0 <= left / (q * dt + v) * q.
Proof.
  intros Hl Hq Hv Hw.
  assert (Hc : 0 <= left / (q * dt + v)) by (apply Rmult_le_pos; [assumption | left; apply Rinv_0_lt_compat; lra]).
  split; apply Rmult_le_pos; assumption.
Qed.

Lemma pn_step_nonneg pnc spf dt s x :
  0 <= pnc -> 0 <= spf <= 100 -> 0 <= dt -> 0 <= fst s -> pn_in_nonneg x ->
  0 <= fst (fst (Rpn_step pnc spf dt s x)) /\
  0 <= po_loadDownstream (snd (Rpn_step pnc spf dt s x)) /\
  0 <= po_floodplainDeposit (snd (Rpn_step pnc spf dt s x)) /\
  0 <= po_flushed (snd (Rpn_step pnc spf dt s x)) /\
  (0 <= pi_channelDepositionFraction x -> 0 <= po_bedExchange (snd (Rpn_step pnc spf dt s x))).
Proof.
  intros Hpnc [Hs0 Hs1] Hdt Hi (H1 & H2 & H3 & H4 & H5). destruct s as [i c]. cbn in Hi.
  unfold pn_step. runfold.
  set (up := pi_incomingMassUpstream x * dt). set (lat := pi_incomingMassLateral x * dt).
  set (sbp := pi_streambankErosion x * pnc * dt).
  assert (Hup : 0 <= up) by (apply Rmult_le_pos; assumption).
  assert (Hlat : 0 <= lat) by (apply Rmult_le_pos; assumption).
  assert (Hsbp : 0 <= sbp) by (apply Rmult_le_pos; [apply Rmult_le_pos|]; assumption).
  set (fd1 := if Rltb 0 (pi_lateralSediment x) then i + up + lat else i + up).
  set (fd2 := if Rltb fd1 0 then 0 else fd1).
  assert (Hfd2 : 0 <= fd2 <= i + up + lat).
  { unfold fd2, fd1. destruct (Rltb 0 (pi_lateralSediment x));
      match goal with |- context [Rltb ?a ?b] => rcase_bool (Rltb a b) end; lra. }
  set (k := spf / IZR 100).
  assert (Hk : 0 <= k <= 1) by (unfold k; lra).
  set (forDep := fd2 + sbp * k).
  assert (Hsk : 0 <= sbp * k <= sbp).
  { split; [apply Rmult_le_pos; lra|]. rewrite <- (Rmult_1_r sbp) at 2. apply Rmult_le_compat_l; lra. }
  assert (HforDep : 0 <= forDep <= i + up + lat + sbp) by (unfold forDep; lra).
  pose proof (clamp01 (pi_floodplainDepositionFraction x)) as HF.
  set (F := Rmin (Rmax (pi_floodplainDepositionFraction x) 0) 1) in *.
  assert (Hfp : 0 <= F * forDep <= forDep).
  { split; [apply Rmult_le_pos; lra|]. rewrite <- (Rmult_1_l forDep) at 2. apply Rmult_le_compat_r; lra. }
  set (fp := F * forDep) in *.
  rcase_bool (Rleb 0 (pi_channelDepositionFraction x)).
  - set (sig := pi_channelDepositionFraction x) in *.
    assert (Hbed : 0 <= Rmin (sig * forDep) (forDep - fp) <= forDep - fp).
    { assert (0 <= sig * forDep) by (apply Rmult_le_pos; lra).
      unfold Rmin. destruct (Rle_dec _ _); lra. }
    set (bed := Rmin (sig * forDep) (forDep - fp)) in *.
    assert (Hleft : 0 <= i + up + lat + sbp - (fp + bed)) by lra.
    rcase_bool (Rltb (pi_outflow x * dt + pi_reachVolume x) (@MINIMUM_VOLUME R RArith)); cbn.
    + repeat split; try lra.
    + rewrite MINIMUM_VOLUME_R in *.
      destruct (pn_tail_nonneg _ _ _ _ Hleft H4 H3 Hc0) as [A B]. repeat split; try lra; assumption.
  - set (sig := pi_channelDepositionFraction x) in *.
    assert (Hres : 0 <= - sig * forDep) by (apply Rmult_le_pos; lra).
    assert (Hleft : 0 <= i + up + lat + sbp - (fp + - (- sig * forDep))) by lra.
    rcase_bool (Rltb (pi_outflow x * dt + pi_reachVolume x) (@MINIMUM_VOLUME R RArith)); cbn.
    + repeat split; try lra.
    + rewrite MINIMUM_VOLUME_R in *.
      destruct (pn_tail_nonneg _ _ _ _ Hleft H4 H3 Hc0) as [A B]. repeat split; try lra; assumption.
Qed.

Theorem pn_run_budget pnc spf dt : forall xs s,
  pn_stock s + inflows (pn_inflow pnc dt) xs =
  pn_stock (fst (run (Rpn_step pnc spf dt) s xs)) +
  outflows (pn_outflow dt) xs (snd (run (Rpn_step pnc spf dt) s xs)).
Proof.
  apply (run_budget (Rpn_step pnc spf dt) pn_stock (pn_inflow pnc dt) (pn_outflow dt)).
  intros s x; apply pn_step_budget.
Qed.

Theorem pn_run_nonneg pnc spf dt : 0 <= pnc -> 0 <= spf <= 100 -> 0 <= dt -> forall xs s,
  0 <= fst s -> Forall pn_in_nonneg xs ->
  0 <= fst (fst (run (Rpn_step pnc spf dt) s xs)) /\
  Forall (fun xo => 0 <= po_loadDownstream (snd xo) /\ 0 <= po_floodplainDeposit (snd xo) /\ 0 <= po_flushed (snd xo))
         (combine xs (snd (run (Rpn_step pnc spf dt) s xs))).
Proof.
  intros Hp Hs Hdt.
  apply (run_invariant (Rpn_step pnc spf dt) (fun s => 0 <= fst s) pn_in_nonneg
           (fun _ o => 0 <= po_loadDownstream o /\ 0 <= po_floodplainDeposit o /\ 0 <= po_flushed o)).
  intros s x Hi Hx. destruct (pn_step_nonneg pnc spf dt s x Hp Hs Hdt Hi Hx) as (A & B & C & D & _). auto.
Qed.

Theorem pn_run_flush pnc spf dt : forall xs s,
  Forall (fun xo => po_flushed (snd xo) <> 0 -> pn_working_vol dt (fst xo) < 1 / 100)
         (combine xs (snd (run (Rpn_step pnc spf dt) s xs))).
Proof.
  intros xs s.
  apply (run_invariant (Rpn_step pnc spf dt) (fun _ => True) (fun _ => True)
           (fun x o => po_flushed o <> 0 -> pn_working_vol dt x < 1 / 100)); auto.
  - intros s0 x _ _. split; [exact I|]. apply pn_step_flush.
  - clear. induction xs; constructor; auto.
Qed.

Lemma pn_kernel_unfold (pnc spf dt i c : R) (a b c0 d e f g h : list R) :
  @instream_particulate_nutrient_kernel R RArith [pnc; spf; dt] [i; c] [a; b; c0; d; e; f; g; h] =
  let r := run (Rpn_step pnc spf dt) (i, c) (pn_rows a b c0 d e f g h) in
  Some ([map po_loadDeposited (snd r); map po_loadFromStreambank (snd r); map po_loadDownstream (snd r);
         map po_loadToFloodplain (snd r)], [fst (fst r); snd (fst r)]).
Proof.
  unfold instream_particulate_nutrient_kernel. destruct (run _ _ _) as [[i' c'] os]; reflexivity.
Qed.

(** Observation (not part of C12, whose remobilisation clause is about the fine
    sediment store): resuspension is [-signal * mass available for deposition],
    not limited by the nutrient bed store, which can therefore become negative. *)
Lemma pn_channel_store_can_go_negative :
  exists x : pn_inR, pn_in_nonneg x /\ snd (fst (Rpn_step 0 0 1 (100, 0) x)) < 0.
Proof.
  exists (mk_pn_in 0 0 1 0 0 0 0 (-1 / 2)). split.
  - unfold pn_in_nonneg; cbn; lra.
  - unfold pn_step. runfold. cbn.
    assert (E0 : Rltb 0 0 = false) by (apply Rltb_false; lra). rewrite E0.
    assert (E1 : Rltb (100 + 0 * 1) 0 = false) by (apply Rltb_false; lra). rewrite E1.
    assert (E2 : Rleb 0 (-1 / 2) = false) by (apply Rleb_false; lra). rewrite E2.
    assert (E3 : Rltb (0 * 1 + 1) (1 / 100) = false) by (apply Rltb_false; lra). rewrite E3.
    cbn. lra.
Qed.

(** Observation: on a flushed step the bed store has already been updated but the
    output loadDeposited is not written (stays 0); the budget theorems therefore take
    the deposit from the change of the bed store, not from that output. *)
Lemma pn_deposit_unreported_on_flushed_step :
  exists x : pn_inR, pn_in_nonneg x /\
    po_loadDeposited (snd (Rpn_step 0 0 1 (100, 0) x)) = 0 /\
    po_bedExchange (snd (Rpn_step 0 0 1 (100, 0) x)) = 50.
Proof.
  exists (mk_pn_in 0 0 0 0 0 0 0 (1 / 2)). split.
  - unfold pn_in_nonneg; cbn; lra.
  - unfold pn_step. runfold. cbn.
    assert (E0 : Rltb 0 0 = false) by (apply Rltb_false; lra). rewrite E0.
    assert (E1 : Rltb (100 + 0 * 1) 0 = false) by (apply Rltb_false; lra). rewrite E1.
    assert (E2 : Rleb 0 (1 / 2) = true) by (apply Rleb_true; lra). rewrite E2.
    assert (E3 : Rltb (0 * 1 + 0) (1 / 100) = true) by (apply Rltb_true; lra). rewrite E3.
    cbn. split; [reflexivity|].
    replace (Rmin (Rmax 0 0) 1) with 0 by (rewrite Rmax_left, Rmin_left; lra).
    rewrite Rmin_left; lra.
Qed.

(** non-vacuity: a deposition step (signal 1/2 of 100 kg, no floodplain) in 1 m3 + 1 m3 released *)
Example pn_deposition_example :
  let r := Rpn_step 0 0 1 (100, 0) (mk_pn_in 0 0 1 1 0 0 0 (1 / 2)) in
  fst r = (25, 50) /\ po_loadDownstream (snd r) = 25 /\ po_loadDeposited (snd r) = 50 /\ po_flushed (snd r) = 0.
Proof.
  cbn zeta. unfold pn_step. runfold. cbn.
  assert (E0 : Rltb 0 0 = false) by (apply Rltb_false; lra). rewrite E0.
  assert (E1 : Rltb (100 + 0 * 1) 0 = false) by (apply Rltb_false; lra). rewrite E1.
  assert (E2 : Rleb 0 (1 / 2) = true) by (apply Rleb_true; lra). rewrite E2.
  assert (E3 : Rltb (1 * 1 + 1) (1 / 100) = false) by (apply Rltb_false; lra). rewrite E3.
  cbn.
  replace (Rmin (Rmax 0 0) 1) with 0 by (rewrite Rmax_left, Rmin_left; lra).
  assert (E4 : Rmin (1 / 2 * (100 + 0 * 1 + 0 * 0 * 1 * (0 / 100)))
                 (100 + 0 * 1 + 0 * 0 * 1 * (0 / 100) - 0 * (100 + 0 * 1 + 0 * 0 * 1 * (0 / 100))) = 50).
  { rewrite Rmin_left; lra. }
  rewrite E4. repeat split; try lra; try field. f_equal; field.
Qed.
