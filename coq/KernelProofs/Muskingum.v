(** Proofs about Kernels/Muskingum.v (C11) over the real-number instance.
    Axioms: only those of Coq.Reals. *)
From Coq Require Import ZArith Reals Lra List Lia.
From OW Require Import Base.Arith Base.RInst Base.Mealy Kernels.Muskingum.
Import ListNotations.
Local Open Scope R_scope.

Fixpoint Rsum (l : list R) : R := match l with [] => 0 | x :: r => x + Rsum r end.

Lemma Rsum_app a b : Rsum (a ++ b) = Rsum a + Rsum b.
Proof. induction a as [|x r IH]; cbn; [lra|]. rewrite IH. lra. Qed.

(** total water entering the reach at each step: upstream + lateral *)
Definition totals (xs : list (R * R)) : list R := map (fun p => fst p + snd p) xs.

(** the weights at R *)
Lemma musk_setup_R k x dt :
  let d := 2 * k * (1 - x) + dt in
  musk_setup k x dt = mkW ((dt - 2 * k * x) / d) ((dt + 2 * k * x) / d) ((2 * k * (1 - x) - dt) / d).
Proof. reflexivity. Qed.

Lemma musk_denom_R k x dt : musk_denom k x dt = 2 * k * (1 - x) + dt.
Proof. reflexivity. Qed.

(** 1. The three weights sum to one (whenever the common denominator is not zero). *)
Theorem musk_weights_sum_one k x dt :
  musk_denom k x dt <> 0 ->
  let w := musk_setup k x dt in a1 w + a2 w + a3 w = 1.
Proof.
  rewrite musk_denom_R. intros Hd. cbn. field. exact Hd.
Qed.

Lemma musk_run_cons (w : musk_weights) pin pout i l xs :
  musk_run w (pin, pout) ((i, l) :: xs) =
  let o := a1 w * (i + l) + a2 w * pin + a3 w * pout in
  let '(s, os) := musk_run w (i + l, o) xs in (s, o :: os).
Proof. reflexivity. Qed.

(** 2. A steady total inflow (upstream + lateral = c at every step), entering a
    reach that is at the steady state (previous inflow = previous outflow = c),
    passes unchanged: every outflow is c and the state stays (c, c). *)
Theorem musk_steady_passes (w : musk_weights) c xs :
  a1 w + a2 w + a3 w = 1 ->
  Forall (fun p => fst p + snd p = c) xs ->
  musk_run w (c, c) xs = ((c, c), repeat c (length xs)).
Proof.
  intros Hw H. induction H as [|[i l] xs Hx _ IH]; [reflexivity|].
  rewrite musk_run_cons. cbn in Hx. cbn zeta.
  assert (E : a1 w * (i + l) + a2 w * c + a3 w * c = c).
  { rewrite Hx. replace (a1 w * c + a2 w * c + a3 w * c) with ((a1 w + a2 w + a3 w) * c) by ring.
    rewrite Hw. ring. }
  rewrite E, Hx, IH. reflexivity.
Qed.

(** 3. The exact telescoping identity, for ANY weights, ANY initial state and ANY series:
       sum out = a1 * U + a2 * (U + u0 - uT) + a3 * (sum out + o0 - oT)
    where U = sum (inflow + lateral), (u0, o0) the initial and (uT, oT) the final state. *)
Theorem musk_telescope (w : musk_weights) xs : forall u0 o0,
  let '((uT, oT), os) := musk_run w (u0, o0) xs in
  Rsum os = a1 w * Rsum (totals xs) + a2 w * (Rsum (totals xs) + u0 - uT)
            + a3 w * (Rsum os + o0 - oT).
Proof.
  induction xs as [|[i l] xs IH]; intros u0 o0.
  - cbn. ring.
  - rewrite musk_run_cons. cbn zeta.
    specialize (IH (i + l) (a1 w * (i + l) + a2 w * u0 + a3 w * o0)).
    destruct (musk_run w (i + l, a1 w * (i + l) + a2 w * u0 + a3 w * o0) xs) as [[uT oT] os].
    cbn [Rsum totals map fst snd]. fold (totals xs). lra.
Qed.

(** ... hence, when the weights sum to one, the budget
       (a1 + a2) * (sum out - sum (in+lat)) = a2 * (u0 - uT) + a3 * (o0 - oT):
    outflow volume differs from inflow volume only by the change of the
    reach storage  (a2 * u + a3 * o) / (a1 + a2). *)
Corollary musk_budget (w : musk_weights) xs u0 o0 :
  a1 w + a2 w + a3 w = 1 ->
  let '((uT, oT), os) := musk_run w (u0, o0) xs in
  (a1 w + a2 w) * (Rsum os - Rsum (totals xs)) = a2 w * (u0 - uT) + a3 w * (o0 - oT).
Proof.
  intros Hw. pose proof (musk_telescope w xs u0 o0) as H.
  destruct (musk_run w (u0, o0) xs) as [[uT oT] os].
  replace (a1 w) with (1 - a2 w - a3 w) by lra.
  replace (a1 w) with (1 - a2 w - a3 w) in H by lra. lra.
Qed.

(** The same budget in volume units for the weights the code computes:
      dt * sum out + V(uT, oT) = dt * sum (in + lat) + V(u0, o0),
      V(u, o) = ((dt + 2KX) u + (2K(1-X) - dt) o) / 2        (division free in K, X, dt). *)
Definition musk_volume (k x dt u o : R) : R := ((dt + 2 * k * x) * u + (2 * k * (1 - x) - dt) * o) / 2.

Theorem musk_volume_budget k x dt xs u0 o0 :
  musk_denom k x dt <> 0 ->
  let '((uT, oT), os) := musk_run (musk_setup k x dt) (u0, o0) xs in
  dt * Rsum os + musk_volume k x dt uT oT = dt * Rsum (totals xs) + musk_volume k x dt u0 o0.
Proof.
  intros Hd.
  pose proof (musk_budget (musk_setup k x dt) xs u0 o0 (musk_weights_sum_one k x dt Hd)) as H.
  destruct (musk_run (musk_setup k x dt) (u0, o0) xs) as [[uT oT] os].
  rewrite musk_denom_R in Hd. cbn [a1 a2 a3 musk_setup] in H. unfold musk_kx2, musk_denom in H. runfold.
  unfold musk_volume.
  set (d := 2 * k * (1 - x) + dt) in *.
  assert (E : (dt - 2 * k * x + (dt + 2 * k * x)) * (Rsum os - Rsum (totals xs))
              = (dt + 2 * k * x) * (u0 - uT) + (2 * k * (1 - x) - dt) * (o0 - oT)).
  { apply (Rmult_eq_reg_r (/ d)); [|apply Rinv_neq_0_compat; exact Hd].
    transitivity (((dt - 2 * k * x) / d + (dt + 2 * k * x) / d) * (Rsum os - Rsum (totals xs))).
    - unfold Rdiv. ring.
    - rewrite H. unfold Rdiv. ring. }
  lra.
Qed.

(** 4. Recession: once inflow and lateral have stopped, each further outflow is a3 times the previous one. *)
Lemma musk_zeros_run (w : musk_weights) n : forall u o,
  musk_run w (u, o) (repeat (0, 0) (S n)) =
  ((0, a3 w ^ n * (a2 w * u + a3 w * o)),
   map (fun j => a3 w ^ j * (a2 w * u + a3 w * o)) (seq 0 (S n))).
Proof.
  induction n as [|n IH]; intros u o.
  - cbn. replace (0 + 0) with 0 by ring.
    replace (a1 w * 0 + a2 w * u + a3 w * o) with (1 * (a2 w * u + a3 w * o)) by ring. reflexivity.
  - change (repeat (0, 0) (S (S n))) with ((0, 0) :: repeat (0, 0) (S n)).
    rewrite musk_run_cons. cbn zeta. rewrite IH.
    replace (0 + 0) with 0 by ring.
    set (c := a2 w * u + a3 w * o).
    replace (a1 w * 0 + a2 w * u + a3 w * o) with c by (unfold c; ring).
    f_equal.
    + f_equal. cbn [pow]. ring.
    + change (seq 0 (S (S n))) with (0%nat :: seq 1 (S n)).
      cbn [map]. f_equal; [cbn; ring|].
      rewrite <- seq_shift, map_map. apply map_ext. intros j. cbn [pow]. ring.
Qed.

(** Finite event, from rest: after the event [xs] followed by n+1 zero steps,
    the outflow volume equals the inflow+lateral volume minus what is still in
    the reach, and that remainder is a3^n times a constant of the event. *)
Theorem musk_event_volume (w : musk_weights) xs n :
  a1 w + a2 w + a3 w = 1 -> a1 w + a2 w <> 0 ->
  let '((u1, o1), _) := musk_run w (0, 0) xs in
  let '(_, os) := musk_run w (0, 0) (xs ++ repeat (0, 0) (S n)) in
  Rsum os = Rsum (totals xs) - a3 w / (a1 w + a2 w) * (a3 w ^ n * (a2 w * u1 + a3 w * o1)).
Proof.
  intros Hw Hne.
  pose proof (musk_budget w (xs ++ repeat (0, 0) (S n)) 0 0 Hw) as H.
  unfold musk_run in *. rewrite run_app in H. rewrite run_app.
  destruct (run (musk_step w) (0, 0) xs) as [[u1 o1] os1].
  pose proof (musk_zeros_run w n u1 o1) as Hz. unfold musk_run in Hz. rewrite Hz in *.
  assert (Et : Rsum (totals (xs ++ repeat (0, 0) (S n))) = Rsum (totals xs)).
  { unfold totals. rewrite map_app, Rsum_app.
    assert (Z : forall m, Rsum (map (fun p : R * R => fst p + snd p) (repeat (0, 0) m)) = 0)
      by (induction m as [|m IHm]; cbn in *; lra).
    rewrite Z. ring. }
  rewrite Et in H.
  set (O := Rsum (os1 ++ _)) in *. set (c := a3 w ^ n * _) in *.
  apply (Rmult_eq_reg_l (a1 w + a2 w)); [|exact Hne].
  replace ((a1 w + a2 w) * (Rsum (totals xs) - a3 w / (a1 w + a2 w) * c))
    with ((a1 w + a2 w) * Rsum (totals xs) - a3 w * c) by (field; exact Hne).
  lra.
Qed.

(** ... so, when |a3| < 1, the outflow volume of a finite event converges to
    the inflow plus lateral volume as the simulation continues. *)
Theorem musk_volume_conserved (w : musk_weights) xs :
  a1 w + a2 w + a3 w = 1 -> a1 w + a2 w <> 0 -> Rabs (a3 w) < 1 ->
  forall eps, 0 < eps -> exists N, forall n, (n >= N)%nat ->
    Rabs (Rsum (snd (musk_run w (0, 0) (xs ++ repeat (0, 0) (S n)))) - Rsum (totals xs)) < eps.
Proof.
  intros Hw Hne Ha eps Heps.
  destruct (musk_run w (0, 0) xs) as [[u1 o1] os1] eqn:E1.
  set (C := Rabs (a3 w / (a1 w + a2 w) * (a2 w * u1 + a3 w * o1))).
  destruct (pow_lt_1_zero (a3 w) Ha (eps / (C + 1))) as [N HN].
  { apply Rdiv_lt_0_compat; [exact Heps|]. unfold C. pose proof (Rabs_pos (a3 w / (a1 w + a2 w) * (a2 w * u1 + a3 w * o1))). lra. }
  exists N. intros n Hn.
  pose proof (musk_event_volume w xs n Hw Hne) as H. rewrite E1 in H.
  destruct (musk_run w (0, 0) (xs ++ repeat (0, 0) (S n))) as [sT os]. cbn [snd]. rewrite H.
  replace (Rsum (totals xs) - a3 w / (a1 w + a2 w) * (a3 w ^ n * (a2 w * u1 + a3 w * o1)) - Rsum (totals xs))
    with (- (a3 w ^ n * (a3 w / (a1 w + a2 w) * (a2 w * u1 + a3 w * o1)))) by ring.
  rewrite Rabs_Ropp, Rabs_mult. fold C.
  specialize (HN n Hn).
  assert (HC : 0 <= C) by apply Rabs_pos.
  apply Rle_lt_trans with (Rabs (a3 w ^ n) * (C + 1)).
  - apply Rmult_le_compat_l; [apply Rabs_pos|lra].
  - apply Rmult_lt_reg_r with (/ (C + 1)); [apply Rinv_0_lt_compat; lra|].
    rewrite Rmult_assoc, Rinv_r by lra. rewrite Rmult_1_r. exact HN.
Qed.

(** 5. In the stable region 2KX <= dt <= 2K(1-X) (K >= 0, X >= 0, dt > 0) the weights are
    non-negative, the denominator is positive, and |a3| < 1. *)
Lemma musk_stable_weights k x dt :
  0 <= k -> 0 <= x -> 0 < dt -> 2 * k * x <= dt -> dt <= 2 * k * (1 - x) ->
  let w := musk_setup k x dt in
  musk_denom k x dt <> 0 /\ 0 <= a1 w /\ 0 <= a2 w /\ 0 <= a3 w /\ a3 w < 1 /\ 0 < a1 w + a2 w.
Proof.
  intros Hk Hx Hdt H1 H2. rewrite musk_denom_R. cbn. unfold musk_kx2, musk_denom. runfold.
  set (d := 2 * k * (1 - x) + dt).
  assert (Hd : 0 < d) by (unfold d; lra).
  assert (Hi : 0 < / d) by (apply Rinv_0_lt_compat; exact Hd).
  unfold Rdiv. repeat split.
  - lra.
  - apply Rmult_le_pos; lra.
  - apply Rmult_le_pos; [|lra].
    assert (0 <= k * x) by (apply Rmult_le_pos; assumption). lra.
  - apply Rmult_le_pos; lra.
  - apply Rmult_lt_reg_r with d; [exact Hd|]. rewrite Rmult_assoc, Rinv_l by lra. unfold d. lra.
  - rewrite <- Rmult_plus_distr_r. apply Rmult_lt_0_compat; lra.
Qed.

(** Non-negative weights, non-negative inputs and state: every outflow is non-negative. *)
Theorem musk_nonneg_gen (w : musk_weights) xs :
  0 <= a1 w -> 0 <= a2 w -> 0 <= a3 w ->
  Forall (fun p => 0 <= fst p /\ 0 <= snd p) xs ->
  forall u o, 0 <= u -> 0 <= o ->
  Forall (fun q => 0 <= q) (snd (musk_run w (u, o) xs)).
Proof.
  intros H1 H2 H3 H. induction H as [|[i l] xs [Hi Hl] _ IH]; intros u o Hu Ho; [constructor|].
  rewrite musk_run_cons. cbn zeta. cbn [fst snd] in Hi, Hl.
  assert (Hq : 0 <= a1 w * (i + l) + a2 w * u + a3 w * o).
  { repeat apply Rplus_le_le_0_compat; apply Rmult_le_pos; lra. }
  specialize (IH (i + l) (a1 w * (i + l) + a2 w * u + a3 w * o) ltac:(lra) Hq).
  destruct (musk_run w (i + l, a1 w * (i + l) + a2 w * u + a3 w * o) xs) as [s os].
  cbn [snd] in *. constructor; assumption.
Qed.

Theorem musk_nonneg k x dt xs u o :
  0 <= k -> 0 <= x -> 0 < dt -> 2 * k * x <= dt -> dt <= 2 * k * (1 - x) ->
  Forall (fun p => 0 <= fst p /\ 0 <= snd p) xs -> 0 <= u -> 0 <= o ->
  Forall (fun q => 0 <= q) (snd (musk_run (musk_setup k x dt) (u, o) xs)).
Proof.
  intros Hk Hx0 Hdt H1 H2 Hx Hu Ho.
  destruct (musk_stable_weights k x dt Hk Hx0 Hdt H1 H2) as (_ & A1 & A2 & A3 & _).
  apply musk_nonneg_gen; assumption.
Qed.

(** The whole C11 Muskingum clause for the weights the code computes, in the stable region. *)
Theorem musk_stable_region_summary k x dt :
  0 <= k -> 0 <= x -> 0 < dt -> 2 * k * x <= dt -> dt <= 2 * k * (1 - x) ->
  let w := musk_setup k x dt in
  a1 w + a2 w + a3 w = 1 /\
  (forall c xs, Forall (fun p => fst p + snd p = c) xs ->
     musk_run w (c, c) xs = ((c, c), repeat c (length xs))) /\
  (forall xs eps, 0 < eps -> exists N, forall n, (n >= N)%nat ->
     Rabs (Rsum (snd (musk_run w (0, 0) (xs ++ repeat (0, 0) (S n)))) - Rsum (totals xs)) < eps) /\
  (forall xs u o, Forall (fun p => 0 <= fst p /\ 0 <= snd p) xs -> 0 <= u -> 0 <= o ->
     Forall (fun q => 0 <= q) (snd (musk_run w (u, o) xs))).
Proof.
  intros Hk Hx0 Hdt H1 H2 w.
  destruct (musk_stable_weights k x dt Hk Hx0 Hdt H1 H2) as (Hd & A1 & A2 & A3 & A3' & A12).
  pose proof (musk_weights_sum_one k x dt Hd) as Hw. fold w in Hw, A1, A2, A3, A3', A12.
  split; [exact Hw|]. split; [|split].
  - intros c xs H. apply musk_steady_passes; assumption.
  - intros xs eps Heps. apply musk_volume_conserved; try assumption; [lra|].
    rewrite Rabs_right; lra.
  - intros xs u o Hx Hu Ho. apply musk_nonneg_gen; assumption.
Qed.

(** The kernel entry point is [musk_run] on the zipped inputs. *)
Lemma muskingum_kernel_run k x dt s u0 o0 rest inflows laterals :
  muskingum_kernel [k; x; dt] (s :: u0 :: o0 :: rest) [inflows; laterals] =
  let '((uT, oT), os) := musk_run (musk_setup k x dt) (u0, o0) (combine inflows laterals) in
  Some ([os], s :: uT :: oT :: rest).
Proof.
  unfold muskingum_kernel.
  destruct (musk_run (musk_setup k x dt) (u0, o0) (combine inflows laterals)) as [[uT oT] os]. reflexivity.
Qed.

(** Non-vacuity: K = 1 day, X = 0.2, dt = 1 day is in the stable region; the
    weights are 3/13, 7/13, 3/13; steady 10 + 4 passes as 14. *)
Example musk_example :
  let w := musk_setup 86400 (1/5) 86400 in
  a1 w = 3/13 /\ a2 w = 7/13 /\ a3 w = 3/13 /\
  2 * 86400 * (1/5) <= 86400 <= 2 * 86400 * (1 - 1/5) /\
  musk_run w (14, 14) [(10, 4); (10, 4)] = ((14, 14), [14; 14]).
Proof.
  cbn zeta. repeat split.
  - cbn. unfold musk_kx2, musk_denom. runfold. field.
  - cbn. unfold musk_kx2, musk_denom. runfold. field.
  - cbn. unfold musk_kx2, musk_denom. runfold. field.
  - lra.
  - lra.
  - apply (musk_steady_passes _ 14 [(10, 4); (10, 4)]).
    + apply musk_weights_sum_one. rewrite musk_denom_R. lra.
    + repeat constructor; cbn; lra.
Qed.
