(** Generic budget lemma for Mealy machines (DESIGN 2.2(b)): a per-step identity

        stock s + inflow x = stock s' + outflow x o          (over R)

    lifts to whole runs, for every series length, by induction on the series:

        stock s0 + sum inflows = stock sT + sum outflows.

    Three forms: unconditional; under a state invariant and a predicate on the
    inputs (hypotheses such as "non-negative inputs", "working volume not
    zero"); and the companion lemma that lifts a per-step invariant / output
    property to whole runs.  Used by the conservation properties (C10-C13). *)
From Coq Require Import Reals Lra List.
From OW Require Import Base.Mealy.
Import ListNotations.
Local Open Scope R_scope.

Fixpoint Rsum (l : list R) : R :=
  match l with [] => 0 | x :: r => x + Rsum r end.

Lemma Rsum_app a b : Rsum (a ++ b) = Rsum a + Rsum b.
Proof. induction a as [|x a IH]; cbn; [lra | rewrite IH; lra]. Qed.

Lemma Rsum_nonneg l : Forall (fun x => 0 <= x) l -> 0 <= Rsum l.
Proof. induction 1; cbn; lra. Qed.

Lemma Rsum_map_ext {X : Type} (f g : X -> R) l :
  (forall x, In x l -> f x = g x) -> Rsum (map f l) = Rsum (map g l).
Proof.
  induction l as [|a l IH]; intros H; cbn; [reflexivity|].
  rewrite (H a (or_introl eq_refl)), IH; [reflexivity|]. intros x Hx; apply H; now right.
Qed.

Lemma Rsum_map_plus {X : Type} (f g : X -> R) l :
  Rsum (map (fun x => f x + g x) l) = Rsum (map f l) + Rsum (map g l).
Proof. induction l as [|a l IH]; cbn; [lra | rewrite IH; lra]. Qed.

Lemma Rsum_map_scal {X : Type} (f : X -> R) (k : R) l :
  Rsum (map (fun x => f x * k) l) = Rsum (map f l) * k.
Proof. induction l as [|a l IH]; cbn; [lra | rewrite IH; lra]. Qed.

Lemma Rsum_map_zero {X : Type} (l : list X) : Rsum (map (fun _ => 0) l) = 0.
Proof. induction l as [|a l IH]; cbn; [lra | rewrite IH; lra]. Qed.

Section Budget.
  Context {S I O : Type}.
  Variable step : S -> I -> S * O.
  Variable stock : S -> R.
  Variable inflow : I -> R.
  (** what leaves (downstream, sinks) in one step; may depend on the input of
      that step (e.g. a rate output multiplied by that step's duration) *)
  Variable outflow : I -> O -> R.

  (** total of [outflow] over a run: inputs and outputs paired step by step *)
  Definition outflows (xs : list I) (os : list O) : R :=
    Rsum (map (fun xo => outflow (fst xo) (snd xo)) (combine xs os)).
  Definition inflows (xs : list I) : R := Rsum (map inflow xs).

  (** The budget under a state invariant [Inv] and an input predicate [Q]. *)
  Theorem run_budget_inv (Inv : S -> Prop) (Q : I -> Prop) :
    (forall s x, Inv s -> Q x ->
       Inv (fst (step s x)) /\
       stock s + inflow x = stock (fst (step s x)) + outflow x (snd (step s x))) ->
    forall xs s, Inv s -> Forall Q xs ->
      Inv (fst (run step s xs)) /\
      stock s + inflows xs = stock (fst (run step s xs)) + outflows xs (snd (run step s xs)).
  Proof.
    intros Hstep xs; induction xs as [|x r IH]; intros s Hs HQ.
    - cbn. unfold inflows, outflows; cbn. split; [assumption | lra].
    - inversion HQ as [|? ? Hx Hr]; subst.
      destruct (Hstep s x Hs Hx) as [Hi He].
      cbn. destruct (step s x) as [s1 o] eqn:E. cbn in Hi, He.
      specialize (IH s1 Hi Hr). destruct (run step s1 r) as [s2 os] eqn:E2.
      cbn in IH |- *. destruct IH as [Hi2 He2]. split; [assumption|].
      unfold inflows, outflows in *. cbn. lra.
  Qed.

  (** Unconditional form. *)
  Theorem run_budget :
    (forall s x, stock s + inflow x = stock (fst (step s x)) + outflow x (snd (step s x))) ->
    forall xs s,
      stock s + inflows xs = stock (fst (run step s xs)) + outflows xs (snd (run step s xs)).
  Proof.
    intros Hstep xs s.
    apply (run_budget_inv (fun _ => True) (fun _ => True)); auto.
    clear. induction xs; constructor; auto.
  Qed.

  (** Any period: the budget over the steps [t1, t1+len) of a longer run is the
      budget of the run started from the state reached at t1 ([Mealy.run_app]
      splits the run there), so the two theorems above already cover every
      sub-period; this corollary states it for a split into two periods. *)
  Corollary run_budget_split :
    (forall s x, stock s + inflow x = stock (fst (step s x)) + outflow x (snd (step s x))) ->
    forall xs ys s,
      let s1 := fst (run step s xs) in
      stock s1 + inflows ys = stock (fst (run step s (xs ++ ys))) + outflows ys (snd (run step s1 ys)).
  Proof.
    intros Hstep xs ys s s1. rewrite run_app. subst s1.
    destruct (run step s xs) as [s1 o1]. cbn.
    pose proof (run_budget Hstep ys s1) as H.
    destruct (run step s1 ys) as [s2 o2]. cbn in *. exact H.
  Qed.

  (** Lifting an invariant and a per-step output property to whole runs. *)
  Theorem run_invariant (Inv : S -> Prop) (Q : I -> Prop) (P : I -> O -> Prop) :
    (forall s x, Inv s -> Q x -> Inv (fst (step s x)) /\ P x (snd (step s x))) ->
    forall xs s, Inv s -> Forall Q xs ->
      Inv (fst (run step s xs)) /\
      Forall (fun xo => P (fst xo) (snd xo)) (combine xs (snd (run step s xs))).
  Proof.
    intros Hstep xs; induction xs as [|x r IH]; intros s Hs HQ.
    - cbn. split; [assumption | constructor].
    - inversion HQ as [|? ? Hx Hr]; subst.
      destruct (Hstep s x Hs Hx) as [Hi Hp].
      cbn. destruct (step s x) as [s1 o] eqn:E. cbn in Hi, Hp.
      specialize (IH s1 Hi Hr). destruct (run step s1 r) as [s2 os] eqn:E2.
      cbn in IH |- *. destruct IH as [Hi2 Hp2]. split; [assumption|].
      constructor; assumption.
  Qed.

  (** Every intermediate state of a run satisfies the invariant. *)
  Theorem run_invariant_prefix (Inv : S -> Prop) (Q : I -> Prop) :
    (forall s x, Inv s -> Q x -> Inv (fst (step s x))) ->
    forall xs s t, Inv s -> Forall Q xs -> Inv (fst (run step s (firstn t xs))).
  Proof.
    intros Hstep xs s t Hs HQ.
    assert (HF : Forall Q (firstn t xs)).
    { rewrite <- (firstn_skipn t xs) in HQ. apply Forall_app in HQ. tauto. }
    destruct (run_invariant Inv Q (fun _ _ => True)
                (fun s x Hs Hx => conj (Hstep s x Hs Hx) Logic.I) (firstn t xs) s Hs HF) as [H _].
    exact H.
  Qed.
End Budget.
