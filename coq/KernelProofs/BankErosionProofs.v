(** C16 proofs for BankErosion (models/generation/bank_erosion.go). *)
From Coq Require Import ZArith List Reals Lra Bool.
From OW Require Import Base.Arith Base.RInst Base.Mealy Kernels.C16Common Kernels.UnitConsts
  Kernels.BankErosion KernelProofs.C16Lib.
Import ListNotations.
Local Open Scope R_scope.

Section BE.
  Variable p : be_params (T := R).
  Variable meanAnnual : R.

  (** fine + coarse = total ; fine = total x soilPercentFine% *)
  Theorem bank_erosion_row_split (x : R * R) :
    let total := bank_erosion_total p meanAnnual x in
    let '(fine, coarse) := bank_erosion_row p meanAnnual x in
    fine + coarse = total
    /\ fine = total * (be_soilPercentFine p * (1 / 100))
    /\ coarse = total * (1 - be_soilPercentFine p * (1 / 100)).
  Proof.
    unfold bank_erosion_row. units_unfold. cbv zeta. repeat split; ring.
  Qed.

  Lemma link_discharge_factor_zero (outflow totalVolume : R) :
    outflow <= 0 \/ totalVolume <= 0 \/ be_longTermAvDailyFlow p <= 0 ->
    link_discharge_factor p outflow totalVolume = 0.
  Proof.
    intros H. unfold link_discharge_factor. runfold.
    destruct (Rleb totalVolume 0) eqn:E1; [reflexivity|].
    destruct (Rleb outflow 0) eqn:E2; [reflexivity|].
    destruct (Rleb (be_longTermAvDailyFlow p) 0) eqn:E3; [reflexivity|].
    apply Rleb_false in E1, E2, E3. lra.
  Qed.

  Lemma link_discharge_factor_nonneg (outflow totalVolume : R) :
    0 <= link_discharge_factor p outflow totalVolume.
  Proof.
    unfold link_discharge_factor. runfold.
    destruct (Rleb totalVolume 0) eqn:E1; [cbn; lra|].
    destruct (Rleb outflow 0) eqn:E2; [cbn; lra|].
    destruct (Rleb (be_longTermAvDailyFlow p) 0) eqn:E3; [cbn; lra|].
    cbn [orb]. apply Rleb_false in E3. apply Rdiv_nonneg; [apply Rpow_nonneg|exact E3].
  Qed.

  (** in the generating branch the power is a genuine real power of a positive base *)
  Lemma link_discharge_factor_pos_branch (outflow totalVolume : R) :
    0 < outflow -> 0 < totalVolume -> 0 < be_longTermAvDailyFlow p -> 0 < be_durationInSeconds p ->
    be_dailyFlowPowerFactor p <> 0 ->
    link_discharge_factor p outflow totalVolume =
    Rpower (outflow * be_durationInSeconds p) (be_dailyFlowPowerFactor p) / be_longTermAvDailyFlow p.
  Proof.
    intros Ho Hv Hl Hd Hp. unfold link_discharge_factor. runfold.
    destruct (Rleb totalVolume 0) eqn:E1; [apply Rleb_true in E1; lra|].
    destruct (Rleb outflow 0) eqn:E2; [apply Rleb_true in E2; lra|].
    destruct (Rleb (be_longTermAvDailyFlow p) 0) eqn:E3; [apply Rleb_true in E3; lra|].
    cbn [orb]. unfold Rpow. destruct (Req_EM_T _ 0); [contradiction|].
    destruct (Req_EM_T (outflow * be_durationInSeconds p) 0) as [E|E]; [|reflexivity].
    assert (0 < outflow * be_durationInSeconds p) by (apply Rmult_lt_0_compat; assumption). lra.
  Qed.

  (** zero when the driver (flow / volume) is zero *)
  Theorem bank_erosion_row_zero (outflow totalVolume : R) :
    be_durationInSeconds p <> 0 ->
    outflow <= 0 \/ totalVolume <= 0 \/ be_longTermAvDailyFlow p <= 0 ->
    bank_erosion_row p meanAnnual (outflow, totalVolume) = (0, 0).
  Proof.
    intros Hd H. unfold bank_erosion_row, bank_erosion_total.
    rewrite (link_discharge_factor_zero _ _ H). units_unfold. f_equal; field; assumption.
  Qed.

  (** non-negative when the drivers are *)
  Theorem bank_erosion_row_nonneg (x : R * R) :
    0 <= meanAnnual -> 0 < be_durationInSeconds p -> 0 <= be_soilPercentFine p <= 100 ->
    let '(fine, coarse) := bank_erosion_row p meanAnnual x in 0 <= fine /\ 0 <= coarse.
  Proof.
    intros Hm Hd Hs. destruct x as [outflow totalVolume].
    assert (Ht : 0 <= bank_erosion_total p meanAnnual (outflow, totalVolume)).
    { unfold bank_erosion_total. pose proof (link_discharge_factor_nonneg outflow totalVolume) as Hl.
      units_unfold. apply Rdiv_nonneg; [|exact Hd]. apply Rmult_le_pos; [|lra].
      apply Rdiv_nonneg; [|lra]. now apply Rmult_le_pos. }
    unfold bank_erosion_row. units_unfold. split; apply Rmult_le_pos; try assumption; lra.
  Qed.
End BE.

(** the time-independent factor *)
Theorem mean_annual_bank_erosion_nonneg (p : be_params (T := R)) :
  Rmin (be_riparianVegPercent p) (be_maxRiparianVegEffectiveness p) <= 100 ->
  0 <= be_soilErodibility p -> 0 <= be_bankErosionCoeff p -> 0 <= be_linkSlope p -> 0 <= be_bankFullFlow p ->
  0 <= be_bankMgtFactor p -> 0 <= be_sedBulkDensity p -> 0 <= be_bankHeight p -> 0 <= be_linkLength p ->
  0 <= mean_annual_bank_erosion p.
Proof.
  intros Hmin; intros. unfold mean_annual_bank_erosion. runfold.
  assert (Hm : Rmin (be_riparianVegPercent p / 100) (be_maxRiparianVegEffectiveness p / 100) <= 1).
  { revert Hmin. unfold Rmin. destruct (Rle_dec (be_riparianVegPercent p) _), (Rle_dec (_ / 100) _); lra. }
  repeat apply Rmult_le_pos; lra.
Qed.

Lemma bank_erosion_run (rv mrv se coeff slope bff mgt dens height len power ltadf spf dur : R)
  (flow vol st : list R) :
  let p := {| be_riparianVegPercent := rv; be_maxRiparianVegEffectiveness := mrv; be_soilErodibility := se;
              be_bankErosionCoeff := coeff; be_linkSlope := slope; be_bankFullFlow := bff;
              be_bankMgtFactor := mgt; be_sedBulkDensity := dens; be_bankHeight := height;
              be_linkLength := len; be_dailyFlowPowerFactor := power; be_longTermAvDailyFlow := ltadf;
              be_soilPercentFine := spf; be_durationInSeconds := dur |} in
  let os := map (bank_erosion_row p (mean_annual_bank_erosion p)) (combine flow vol) in
  bank_erosion_kernel [rv; mrv; se; coeff; slope; bff; mgt; dens; height; len; power; ltadf; spf; dur] st [flow; vol]
  = Some ([map fst os; map snd os], st).
Proof.
  cbv zeta. unfold bank_erosion_kernel, bank_erosion_step. rewrite snd_run_loop_step. reflexivity.
Qed.

(** whole run: fine + coarse = total and the split by soilPercentFine at every step *)
Theorem bank_erosion_fine_coarse_split :
  forall (rv mrv se coeff slope bff mgt dens height len power ltadf spf dur : R) (flow vol st : list R),
  let p := {| be_riparianVegPercent := rv; be_maxRiparianVegEffectiveness := mrv; be_soilErodibility := se;
              be_bankErosionCoeff := coeff; be_linkSlope := slope; be_bankFullFlow := bff;
              be_bankMgtFactor := mgt; be_sedBulkDensity := dens; be_bankHeight := height;
              be_linkLength := len; be_dailyFlowPowerFactor := power; be_longTermAvDailyFlow := ltadf;
              be_soilPercentFine := spf; be_durationInSeconds := dur |} in
  exists fine coarse,
    bank_erosion_kernel [rv; mrv; se; coeff; slope; bff; mgt; dens; height; len; power; ltadf; spf; dur] st [flow; vol]
      = Some ([fine; coarse], st)
    /\ zipw Rplus fine coarse = map (bank_erosion_total p (mean_annual_bank_erosion p)) (combine flow vol)
    /\ fine = map (fun x => bank_erosion_total p (mean_annual_bank_erosion p) x * (spf * (1 / 100))) (combine flow vol).
Proof.
  intros. do 2 eexists. split; [apply bank_erosion_run|]. fold p. split.
  - rewrite zipw_map_same. rewrite map_map. apply map_ext. intros x.
    pose proof (bank_erosion_row_split p (mean_annual_bank_erosion p) x) as H.
    cbv zeta in H. destruct (bank_erosion_row p (mean_annual_bank_erosion p) x). cbn [fst snd]. tauto.
  - rewrite map_map. apply map_ext. intros x.
    pose proof (bank_erosion_row_split p (mean_annual_bank_erosion p) x) as H.
    cbv zeta in H. destruct (bank_erosion_row p (mean_annual_bank_erosion p) x). cbn [fst snd]. tauto.
Qed.

Example bank_erosion_hyps_satisfiable :
  let p := {| be_riparianVegPercent := 50; be_maxRiparianVegEffectiveness := 95; be_soilErodibility := 80;
              be_bankErosionCoeff := 1/100000; be_linkSlope := 1/100; be_bankFullFlow := 100;
              be_bankMgtFactor := 1; be_sedBulkDensity := 1500; be_bankHeight := 2;
              be_linkLength := 1000; be_dailyFlowPowerFactor := 1; be_longTermAvDailyFlow := 1000;
              be_soilPercentFine := 30; be_durationInSeconds := 86400 |} in
  0 < mean_annual_bank_erosion p /\ 0 <= be_soilPercentFine p <= 100 /\ 0 < be_durationInSeconds p.
Proof.
  cbv zeta. unfold mean_annual_bank_erosion. cbn [be_riparianVegPercent be_maxRiparianVegEffectiveness be_soilErodibility
    be_bankErosionCoeff be_linkSlope be_bankFullFlow be_bankMgtFactor be_sedBulkDensity be_bankHeight be_linkLength
    be_soilPercentFine be_durationInSeconds]. runfold.
  unfold Rmin. destruct (Rle_dec (50 / 100) (95 / 100)); lra.
Qed.
