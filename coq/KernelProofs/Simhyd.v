(** Proofs about the SIMHYD model (Kernels/Simhyd.v) at the real instance (C10):
    state invariant, non-negative outputs, per-step exact water budget with the
    (unreported) actual evapotranspiration made explicit, and the whole-run and
    every-prefix cumulative forms. *)
From Coq Require Import Reals Lra Lia List Bool ZArith.
From OW Require Import Base.Arith Base.RInst Base.Mealy Kernels.Simhyd KernelProofs.RRCommon.
Import ListNotations.
Local Open Scope R_scope.

Definition simhyd_ok (p : simhyd_par (T:=R)) : bool :=
  Rleb 0 (sh_baseflowCoefficient p) && Rleb (sh_baseflowCoefficient p) 1 &&
  Rleb 0 (sh_imperviousThreshold p) && Rleb 0 (sh_infiltrationCoefficient p) &&
  Rleb 0 (sh_interflowCoefficient p) && Rleb (sh_interflowCoefficient p) 1 &&
  Rleb 0 (sh_perviousFraction p) && Rleb (sh_perviousFraction p) 1 &&
  Rleb 0 (sh_risc p) &&
  Rleb 0 (sh_rechargeCoefficient p) && Rleb (sh_rechargeCoefficient p) 1 &&
  Rltb 0 (sh_smsc p).
(* infiltrationShape is unconstrained *)

Definition simhyd_inv (p : simhyd_par (T:=R)) (st : simhyd_st (T:=R)) : Prop :=
  0 <= sh_sms st <= sh_smsc p /\ 0 <= sh_gw st.

Definition simhyd_stock (p : simhyd_par (T:=R)) (st : simhyd_st (T:=R)) : R :=
  sh_perviousFraction p * (sh_sms st + sh_gw st).

Definition simhyd_out_ok (p : simhyd_par (T:=R)) (o : simhyd_out (T:=R)) : Prop :=
  0 <= sh_runoff o /\ 0 <= sh_quickflow o /\ 0 <= sh_baseflow o /\
  0 <= sh_store o <= sh_smsc p /\ sh_runoff o = sh_quickflow o + sh_baseflow o.

(** the parameter ranges as real inequalities *)
Lemma simhyd_ok_spec p : simhyd_ok p = true ->
  0 <= sh_baseflowCoefficient p <= 1 /\ 0 <= sh_imperviousThreshold p /\
  0 <= sh_infiltrationCoefficient p /\ 0 <= sh_interflowCoefficient p <= 1 /\
  0 <= sh_perviousFraction p <= 1 /\ 0 <= sh_risc p /\
  0 <= sh_rechargeCoefficient p <= 1 /\ 0 < sh_smsc p.
Proof.
  unfold simhyd_ok. intros H.
  repeat (apply andb_prop in H; let H2 := fresh "H" in destruct H as [H H2]).
  repeat match goal with
         | X : Rleb _ _ = true |- _ => apply Rleb_true in X
         | X : Rltb _ _ = true |- _ => apply Rltb_true in X
         end.
  repeat split; assumption.
Qed.

(** a fraction [c * f * x] of [x] with [0 <= c <= 1], [0 <= f <= 1], [0 <= x] *)
Lemma frac2_bounds c f x : 0 <= c <= 1 -> 0 <= f <= 1 -> 0 <= x -> 0 <= c * f * x <= x.
Proof.
  intros Hc Hf Hx.
  assert (0 <= c * f <= 1) by nra.
  nra.
Qed.

Lemma div_frac_bounds s c : 0 < c -> 0 <= s <= c -> 0 <= s / c <= 1.
Proof.
  intros Hc Hs. unfold Rdiv. pose proof (Rinv_0_lt_compat c Hc) as Hi.
  split.
  - apply Rmult_le_pos; lra.
  - replace 1 with (c * / c) by (field; lra). apply Rmult_le_compat_r; lra.
Qed.

(** Everything about one step at once: the next state satisfies the invariant,
    the outputs are well formed, and the exact budget holds with
    [et = (1-pf) * imperviousEt + pf * (interceptionEt + soilEt)] (the quantity
    the Go code has in a comment as totalEt). *)
Lemma simhyd_step_facts : forall p st io, simhyd_ok p = true -> simhyd_inv p st ->
  0 <= fst io -> 0 <= snd io ->
  simhyd_inv p (fst (simhyd_step p st io)) /\
  simhyd_out_ok p (snd (simhyd_step p st io)) /\
  sh_total (fst (simhyd_step p st io)) =
    (sh_sms (fst (simhyd_step p st io)) + sh_gw (fst (simhyd_step p st io))) * sh_perviousFraction p /\
  exists et, 0 <= et /\
    fst io + simhyd_stock p st =
    sh_runoff (snd (simhyd_step p st io)) + et + simhyd_stock p (fst (simhyd_step p st io)).
Proof.
  intros p st [rain pet] Hok [[Hs0 Hs1] Hg] Hr Hp. cbn [fst snd] in Hr, Hp.
  destruct (simhyd_ok_spec p Hok) as
    ([Hbc0 Hbc1] & Hit & Hic & [Hif0 Hif1] & [Hpf0 Hpf1] & Hrisc & [Hrc0 Hrc1] & Hsmsc).
  unfold simhyd_step, simhyd_inv, simhyd_out_ok, simhyd_stock, SOIL_ET_CONST, gtb.
  cbn [zero one add sub mul div neg ltb amin amax aexp of_Z RArith fst snd].
  set (smsc := sh_smsc p) in *. set (pf := sh_perviousFraction p) in *.
  set (impEt := Rmin (sh_imperviousThreshold p) rain).
  assert (HimpEt : 0 <= impEt <= rain).
  { unfold impEt. split; [apply Rmin_glb; lra | apply Rmin_r]. }
  set (intEt := Rmin rain (Rmin pet (sh_risc p))).
  assert (HintEt : 0 <= intEt <= rain /\ intEt <= pet).
  { unfold intEt. repeat split.
    - repeat apply Rmin_glb; lra.
    - apply Rmin_l.
    - eapply Rle_trans; [apply Rmin_r | apply Rmin_l]. }
  set (tf := rain - intEt).
  set (f := sh_sms st / smsc).
  assert (Hf : 0 <= f <= 1) by (apply div_frac_bounds; lra).
  set (cap := sh_infiltrationCoefficient p * exp (- sh_infiltrationShape p * f)).
  assert (Hcap : 0 <= cap).
  { unfold cap. apply Rmult_le_pos; [lra | left; apply exp_pos]. }
  set (inf := Rmin tf cap).
  assert (Hinf : 0 <= inf <= tf).
  { unfold inf. split; [apply Rmin_glb; unfold tf; lra | apply Rmin_l]. }
  set (ifl := sh_interflowCoefficient p * f * inf).
  assert (Hifl : 0 <= ifl <= inf) by (apply frac2_bounds; lra).
  set (iai := inf - ifl).
  set (rech := sh_rechargeCoefficient p * f * iai).
  assert (Hrech : 0 <= rech <= iai) by (apply frac2_bounds; unfold iai; lra).
  set (sms1 := sh_sms st + (iai - rech)).
  set (gw1 := sh_gw st + rech).
  (* the spill branch *)
  assert (Hbr : exists gw2 sms2 smf2,
             (if Rltb 1 (sms1 / smsc) then (gw1 + (sms1 - smsc), smsc, 1) else (gw1, sms1, sms1 / smsc))
             = (gw2, sms2, smf2) /\
             0 <= gw2 /\ 0 <= sms2 <= smsc /\ 0 <= smf2 /\ sms2 + gw2 = sms1 + gw1).
  { assert (Hsms1 : 0 <= sms1) by (unfold sms1, iai in *; lra).
    assert (Hdiv : sms1 = (sms1 / smsc) * smsc) by (field; lra).
    destruct (Rltb 1 (sms1 / smsc)) eqn:Hc.
    - apply Rltb_true in Hc.
      assert (smsc < sms1) by nra.
      do 3 eexists. split; [reflexivity|]. unfold gw1. repeat split; lra.
    - apply Rltb_false in Hc.
      assert (sms1 <= smsc) by nra.
      do 3 eexists. split; [reflexivity|]. unfold gw1. repeat split; try lra.
      apply Rmult_le_pos; [lra | left; apply Rinv_0_lt_compat; lra]. }
  destruct Hbr as (gw2 & sms2 & smf2 & -> & Hgw2 & [Hs20 Hs21] & Hsmf2 & Hsum).
  set (bf := sh_baseflowCoefficient p * gw2).
  assert (Hbf : 0 <= bf <= gw2) by (unfold bf; nra).
  set (soilEt := Rmin sms2 (Rmin (pet - intEt) (smf2 * 10))).
  assert (HsoilEt : 0 <= soilEt <= sms2).
  { unfold soilEt. split; [repeat apply Rmin_glb; nra | apply Rmin_l]. }
  cbn [fst snd sh_sms sh_gw sh_total sh_runoff sh_quickflow sh_baseflow sh_store].
  assert (Himp : 0 <= (1 - pf) * (rain - impEt)) by (apply Rmult_le_pos; lra).
  assert (Hev : 0 <= pf * (tf - inf + ifl)) by (apply Rmult_le_pos; lra).
  assert (Hbfp : 0 <= pf * bf) by (apply Rmult_le_pos; lra).
  split; [| split; [| split]].
  - lra.
  - repeat split; try lra.
  - reflexivity.
  - exists ((1 - pf) * impEt + pf * (intEt + soilEt)). split.
    + assert (0 <= (1 - pf) * impEt) by (apply Rmult_le_pos; lra).
      assert (0 <= pf * (intEt + soilEt)) by (apply Rmult_le_pos; lra).
      lra.
    + unfold sms1, gw1, iai, tf in *.
      replace (pf * (sms2 - soilEt + (gw2 - bf))) with (pf * ((sms2 + gw2) - soilEt - bf)) by ring.
      rewrite Hsum. ring.
Qed.

(** sh_total of the new state is (sms' + gw') * perviousFraction *)
Lemma simhyd_total_store : forall p st io,
  sh_total (fst (simhyd_step p st io)) =
  (sh_sms (fst (simhyd_step p st io)) + sh_gw (fst (simhyd_step p st io))) * sh_perviousFraction p.
Proof.
  intros p st [rain pet]. unfold simhyd_step, gtb.
  cbn [zero one add sub mul div neg ltb amin amax aexp of_Z RArith fst snd].
  destruct (Rltb _ _); reflexivity.
Qed.

(* per-step exact water budget with the (unreported) actual ET made explicit *)
Theorem simhyd_step_budget : forall p st io, simhyd_ok p = true -> simhyd_inv p st ->
  0 <= fst io -> 0 <= snd io ->
  exists et, 0 <= et /\
    fst io + simhyd_stock p st =
    sh_runoff (snd (simhyd_step p st io)) + et + simhyd_stock p (fst (simhyd_step p st io)).
Proof.
  intros p st io Hok Hinv Hr Hp.
  exact (proj2 (proj2 (proj2 (simhyd_step_facts p st io Hok Hinv Hr Hp)))).
Qed.

Lemma simhyd_step_inv : forall p st io, simhyd_ok p = true -> simhyd_inv p st ->
  0 <= fst io /\ 0 <= snd io -> simhyd_inv p (fst (simhyd_step p st io)).
Proof. intros p st io Hok Hinv [Hr Hp]. exact (proj1 (simhyd_step_facts p st io Hok Hinv Hr Hp)). Qed.

Lemma simhyd_step_le : forall p st io, simhyd_ok p = true -> simhyd_inv p st ->
  0 <= fst io /\ 0 <= snd io ->
  simhyd_stock p (fst (simhyd_step p st io)) + sh_runoff (snd (simhyd_step p st io))
  <= simhyd_stock p st + fst io.
Proof.
  intros p st io Hok Hinv [Hr Hp].
  destruct (simhyd_step_budget p st io Hok Hinv Hr Hp) as (et & Het & Heq). lra.
Qed.

Lemma simhyd_stock_nonneg : forall p st, simhyd_ok p = true -> simhyd_inv p st -> 0 <= simhyd_stock p st.
Proof.
  intros p st Hok [[Hs0 Hs1] Hg].
  destruct (simhyd_ok_spec p Hok) as (_ & _ & _ & _ & [Hpf0 _] & _).
  unfold simhyd_stock. apply Rmult_le_pos; lra.
Qed.

Theorem simhyd_c10 : forall p st io, simhyd_ok p = true -> simhyd_inv p st -> io_nonneg io ->
  simhyd_inv p (fst (simhyd_run p st io)) /\
  Forall (simhyd_out_ok p) (snd (simhyd_run p st io)) /\
  rr_sum (map sh_runoff (snd (simhyd_run p st io))) + simhyd_stock p (fst (simhyd_run p st io))
    <= rr_sum (map fst io) + simhyd_stock p st /\
  (forall t, rr_sum (firstn t (map sh_runoff (snd (simhyd_run p st io))))
             <= rr_sum (firstn t (map fst io)) + simhyd_stock p st).
Proof.
  intros p st io Hok Hinv Hio. unfold simhyd_run, io_nonneg in *.
  pose proof (run_inv_forall (simhyd_step p) (simhyd_inv p)
                (fun x : R * R => 0 <= fst x /\ 0 <= snd x) (simhyd_out_ok p)) as HA.
  destruct (HA (fun s x Hs Hx =>
                  conj (simhyd_step_inv p s x Hok Hs Hx)
                       (proj1 (proj2 (simhyd_step_facts p s x Hok Hs (proj1 Hx) (proj2 Hx)))))
               io st Hinv Hio) as [Hfin Hall].
  split; [exact Hfin|]. split; [exact Hall|]. split.
  - pose proof (run_budget_le (simhyd_step p) (simhyd_inv p)
                  (fun x : R * R => 0 <= fst x /\ 0 <= snd x)
                  (simhyd_stock p) fst sh_runoff
                  (fun s x Hs Hx => simhyd_step_inv p s x Hok Hs Hx)
                  (fun s x Hs Hx => simhyd_step_le p s x Hok Hs Hx)
                  io st Hinv Hio) as HB.
    lra.
  - intros t.
    exact (run_cumulative_le (simhyd_step p) (simhyd_inv p)
             (fun x : R * R => 0 <= fst x /\ 0 <= snd x)
             (simhyd_stock p) fst sh_runoff
             (fun s Hs => simhyd_stock_nonneg p s Hok Hs)
             (fun s x Hs Hx => simhyd_step_inv p s x Hok Hs Hx)
             (fun s x Hs Hx => simhyd_step_le p s x Hok Hs Hx)
             io st t Hinv Hio).
Qed.

Example simhyd_ok_satisfiable : exists p, simhyd_ok p = true.
Proof.
  exists {| sh_baseflowCoefficient := 1/2; sh_imperviousThreshold := 1;
            sh_infiltrationCoefficient := 200; sh_infiltrationShape := 3;
            sh_interflowCoefficient := 1/10; sh_perviousFraction := 9/10;
            sh_risc := 5; sh_rechargeCoefficient := 1/5; sh_smsc := 320 |}.
  unfold simhyd_ok. cbn [sh_baseflowCoefficient sh_imperviousThreshold sh_infiltrationCoefficient
    sh_interflowCoefficient sh_perviousFraction sh_risc sh_rechargeCoefficient sh_smsc].
  repeat (apply andb_true_intro; split);
    first [apply Rleb_true; lra | apply Rltb_true; lra].
Qed.
