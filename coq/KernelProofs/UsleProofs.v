(** C16 proofs for USLEFineSedimentGeneration (models/generation/uslefine.go). *)
From Coq Require Import ZArith List Reals Lra Bool.
From OW Require Import Base.Arith Base.RInst Base.Mealy Kernels.C16Common Kernels.UnitConsts
  Kernels.UsleFine KernelProofs.C16Lib KernelProofs.GenerationProofs.
Import ListNotations.
Local Open Scope R_scope.

Section U.
  Variable p : usle_params (T := R).

  Lemma usle_litres_pos (qf : R) : 0 < qf -> 0 < usle_litres_per_day qf.
  Proof. intros. unfold usle_litres_per_day. units_unfold. repeat apply Rmult_lt_0_compat; lra. Qed.

  (** the maximum-concentration cap scales the three rates by one common factor *)
  Lemma usle_capped_rates_spec (qf t f c : R) :
    exists adj, usle_capped_rates p qf t f c = (t * adj, f * adj, c * adj)
      /\ (0 < qf -> 0 <= us_maxConc p -> 0 <= usle_mass_kg p f -> 0 <= adj).
  Proof.
    unfold usle_capped_rates, gtb. runfold. unfold Rltb.
    destruct (Rlt_dec (us_maxConc p) _) as [Hc|Hc].
    - eexists. split; [reflexivity|]. intros Hq Hm Hf.
      pose proof (usle_litres_pos qf Hq) as Hl.
      assert (Hcur : 0 < usle_mass_kg p f).
      { destruct Hf as [Hf|Hf]; [exact Hf|]. exfalso. rewrite <- Hf in Hc.
        unfold u_KG_TO_MILLIGRAM, of_qp in Hc. cbn [fst snd q_KG_TO_MILLIGRAM] in Hc. runfold.
        unfold Rdiv in Hc. rewrite !Rmult_0_l in Hc. lra. }
      apply Rdiv_nonneg; [|exact Hcur]. unfold u_KG_TO_MILLIGRAM, of_qp. cbn [fst snd q_KG_TO_MILLIGRAM]. runfold.
      apply Rdiv_nonneg; [|lra]. apply Rmult_le_pos; lra.
    - exists 1. split; [|intros; lra]. rewrite !Rmult_1_r. reflexivity.
  Qed.

  Lemma usle_mass_kg_scale (r a : R) : usle_mass_kg p (r * a) = usle_mass_kg p r * a.
  Proof. unfold usle_mass_kg. runfold. ring. Qed.

  Lemma usle_mass_kg_nonneg (r : R) : 0 <= us_area p -> 0 <= r -> 0 <= usle_mass_kg p r.
  Proof. intros. unfold usle_mass_kg. units_unfold. repeat apply Rmult_le_pos; lra. Qed.

  (** one time step, all paths *)
  Lemma usle_row_cases (qf sf rain klsc klscF cov doy : R) :
    let o := usle_row p (qf, sf, rain, klsc, klscF, cov, doy) in
    let Rf := usle_R p rain doy in
    let ts := us_timeStepInSeconds p in
    us_slowLoadFine o = conc_load (us_dwc p) sf
    /\ us_slowLoadCoarse o = 0
    /\ us_totalFineLoad o = us_quickLoadFine o + us_slowLoadFine o
    /\ us_totalCoarseLoad o = us_quickLoadCoarse o + us_slowLoadCoarse o
    /\ ((0 < qf /\ 0 < Rf * klsc /\ exists adj,
           (0 <= us_maxConc p -> 0 <= usle_mass_kg p (Rf * klscF) -> 0 <= adj)
           /\ us_generatedLoadFine o = usle_mass_kg p (Rf * klscF) * adj / ts
           /\ us_generatedLoadCoarse o = usle_mass_kg p (Rf * klsc - Rf * klscF) * adj / ts
           /\ us_quickLoadFine o = usle_mass_kg p (Rf * klscF) * adj * (us_hsdrFine p * (1 / 100)) / ts
           /\ us_quickLoadCoarse o = usle_mass_kg p (Rf * klsc - Rf * klscF) * adj * (us_hsdrCoarse p * (1 / 100)) / ts)
        \/ ((qf <= 0 \/ Rf * klsc <= 0)
            /\ us_generatedLoadFine o = 0 /\ us_generatedLoadCoarse o = 0
            /\ us_quickLoadFine o = 0 /\ us_quickLoadCoarse o = 0)).
  Proof.
    cbv zeta. unfold usle_row. cbv beta iota zeta. unfold gtb. runfold. unfold Rltb.
    destruct (Rlt_dec 0 qf) as [Hq|Hq]; [destruct (Rlt_dec 0 (usle_R p rain doy * klsc)) as [Ht|Ht]|]; cbn [andb].
    - destruct (usle_capped_rates_spec qf (usle_R p rain doy * klsc) (usle_R p rain doy * klscF)
                  (usle_R p rain doy * klsc - usle_R p rain doy * klscF)) as (adj & E & Hadj).
      rewrite E. cbn [us_slowLoadFine us_slowLoadCoarse us_totalFineLoad us_totalCoarseLoad us_quickLoadFine
        us_quickLoadCoarse us_generatedLoadFine us_generatedLoadCoarse].
      split; [unfold conc_load; units_unfold; ring|]. split; [reflexivity|]. split; [reflexivity|]. split; [reflexivity|].
      left. split; [exact Hq|]. split; [exact Ht|]. exists adj. split; [auto|].
      rewrite !usle_mass_kg_scale. repeat split; reflexivity.
    - cbn [us_slowLoadFine us_slowLoadCoarse us_totalFineLoad us_totalCoarseLoad us_quickLoadFine
        us_quickLoadCoarse us_generatedLoadFine us_generatedLoadCoarse].
      split; [unfold conc_load; units_unfold; ring|]. split; [reflexivity|]. split; [reflexivity|]. split; [reflexivity|].
      right. split; [right; lra|]. unfold Rdiv. repeat split; ring.
    - cbn [us_slowLoadFine us_slowLoadCoarse us_totalFineLoad us_totalCoarseLoad us_quickLoadFine
        us_quickLoadCoarse us_generatedLoadFine us_generatedLoadCoarse].
      split; [unfold conc_load; units_unfold; ring|]. split; [reflexivity|]. split; [reflexivity|]. split; [reflexivity|].
      right. split; [left; lra|]. unfold Rdiv. repeat split; ring.
  Qed.

  (** the R factor is zero without erosive rainfall *)
  Lemma usle_R_no_erosive_rain (rain doy : R) : rain <= us_rainThreshold p -> usle_R p rain doy = 0.
  Proof.
    intros H. unfold usle_R, gtb. runfold. unfold Rltb. destruct (Rlt_dec _ _); [lra|reflexivity].
  Qed.

  (** totals equal the sum of their parts; slow load is the concentration load of the baseflow *)
  Theorem usle_row_totals (x : R * R * R * R * R * R * R) :
    let o := usle_row p x in
    us_totalFineLoad o = us_quickLoadFine o + us_slowLoadFine o
    /\ us_totalCoarseLoad o = us_quickLoadCoarse o + us_slowLoadCoarse o
    /\ us_slowLoadFine o = conc_load (us_dwc p) (snd (fst (fst (fst (fst (fst x)))))).
  Proof.
    destruct x as [[[[[[qf sf] rain] klsc] klscF] cov] doy].
    pose proof (usle_row_cases qf sf rain klsc klscF cov doy) as H. cbv zeta in *. cbn [fst snd]. tauto.
  Qed.

  (** delivered load = generated load x hillslope delivery ratio (%) *)
  Theorem usle_row_delivered (x : R * R * R * R * R * R * R) :
    us_timeStepInSeconds p <> 0 ->
    let o := usle_row p x in
    us_quickLoadFine o = us_generatedLoadFine o * (us_hsdrFine p * (1 / 100))
    /\ us_quickLoadCoarse o = us_generatedLoadCoarse o * (us_hsdrCoarse p * (1 / 100)).
  Proof.
    intros Hts. destruct x as [[[[[[qf sf] rain] klsc] klscF] cov] doy].
    pose proof (usle_row_cases qf sf rain klsc klscF cov doy) as H. cbv zeta in *.
    destruct H as (_ & _ & _ & _ & [(_ & _ & adj & _ & -> & -> & -> & ->)|(_ & -> & -> & -> & ->)]).
    - split; field; exact Hts.
    - split; ring.
  Qed.

  (** fine + coarse material split by the fine fraction KLSC_Fine : KLSC *)
  Theorem usle_row_fine_coarse_split (qf sf rain klsc klscF cov doy : R) :
    let o := usle_row p (qf, sf, rain, klsc, klscF, cov, doy) in
    us_generatedLoadFine o * klsc = (us_generatedLoadFine o + us_generatedLoadCoarse o) * klscF.
  Proof.
    pose proof (usle_row_cases qf sf rain klsc klscF cov doy) as H. cbv zeta in *.
    destruct H as (_ & _ & _ & _ & [(_ & _ & adj & _ & -> & -> & _)|(_ & -> & -> & _)]).
    - unfold usle_mass_kg. runfold. unfold Rdiv. ring.
    - ring.
  Qed.

  (** zero when a driver is zero: no quickflow, or no erosive rainfall *)
  Theorem usle_row_zero (qf sf rain klsc klscF cov doy : R) :
    qf <= 0 \/ rain <= us_rainThreshold p ->
    let o := usle_row p (qf, sf, rain, klsc, klscF, cov, doy) in
    us_quickLoadFine o = 0 /\ us_quickLoadCoarse o = 0
    /\ us_generatedLoadFine o = 0 /\ us_generatedLoadCoarse o = 0.
  Proof.
    intros Hd. pose proof (usle_row_cases qf sf rain klsc klscF cov doy) as H. cbv zeta in *.
    destruct H as (_ & _ & _ & _ & [(Hq & Ht & _)|(_ & -> & -> & -> & ->)]); [|tauto].
    exfalso. destruct Hd as [Hd|Hd]; [lra|]. rewrite (usle_R_no_erosive_rain rain doy Hd) in Ht. lra.
  Qed.

  Theorem usle_row_zero_slow (qf rain klsc klscF cov doy : R) :
    us_slowLoadFine (usle_row p (qf, 0, rain, klsc, klscF, cov, doy)) = 0.
  Proof.
    pose proof (usle_row_cases qf 0 rain klsc klscF cov doy) as H. cbv zeta in *.
    destruct H as (-> & _). unfold conc_load. ring.
  Qed.

  (** non-negative loads when the drivers are (needs KLSC_Fine <= KLSC) *)
  Theorem usle_row_nonneg (qf sf rain klsc klscF cov doy : R) :
    0 <= klsc -> 0 <= klscF <= klsc -> 0 <= us_area p -> 0 < us_timeStepInSeconds p ->
    0 <= us_maxConc p -> 0 <= us_hsdrFine p -> 0 <= us_hsdrCoarse p ->
    let o := usle_row p (qf, sf, rain, klsc, klscF, cov, doy) in
    0 <= us_quickLoadFine o /\ 0 <= us_quickLoadCoarse o
    /\ 0 <= us_generatedLoadFine o /\ 0 <= us_generatedLoadCoarse o
    /\ (0 <= sf -> 0 <= us_dwc p -> 0 <= us_slowLoadFine o /\ 0 <= us_totalFineLoad o).
  Proof.
    intros Hk Hkf Ha Hts Hm Hhf Hhc.
    pose proof (usle_row_cases qf sf rain klsc klscF cov doy) as H. cbv zeta in *.
    destruct H as (Hs & Hsc & Htf & Htc & Hcase).
    assert (Q : 0 <= us_quickLoadFine (usle_row p (qf, sf, rain, klsc, klscF, cov, doy))
              /\ 0 <= us_quickLoadCoarse (usle_row p (qf, sf, rain, klsc, klscF, cov, doy))
              /\ 0 <= us_generatedLoadFine (usle_row p (qf, sf, rain, klsc, klscF, cov, doy))
              /\ 0 <= us_generatedLoadCoarse (usle_row p (qf, sf, rain, klsc, klscF, cov, doy))).
    { destruct Hcase as [(Hq & Ht & adj & Hadj & -> & -> & -> & ->)|(_ & -> & -> & -> & ->)]; [|lra].
      set (Rf := usle_R p rain doy) in *.
      assert (HR : 0 < Rf) by nra.
      assert (Hf : 0 <= Rf * klscF) by (apply Rmult_le_pos; lra).
      assert (Hc : 0 <= Rf * klsc - Rf * klscF) by nra.
      pose proof (usle_mass_kg_nonneg _ Ha Hf) as Mf. pose proof (usle_mass_kg_nonneg _ Ha Hc) as Mc.
      specialize (Hadj Hm Mf).
      assert (A1 : 0 <= usle_mass_kg p (Rf * klscF) * adj) by (apply Rmult_le_pos; assumption).
      assert (A2 : 0 <= usle_mass_kg p (Rf * klsc - Rf * klscF) * adj) by (apply Rmult_le_pos; assumption).
      split; [apply Rdiv_nonneg; [apply Rmult_le_pos; [exact A1|lra]|exact Hts]|].
      split; [apply Rdiv_nonneg; [apply Rmult_le_pos; [exact A2|lra]|exact Hts]|].
      split; apply Rdiv_nonneg; assumption. }
    destruct Q as (Q1 & Q2 & Q3 & Q4). repeat split; try assumption.
    - rewrite Hs. apply conc_load_nonneg; assumption.
    - rewrite Htf, Hs. pose proof (conc_load_nonneg (us_dwc p) sf H H0). lra.
  Qed.
End U.

Lemma usle_run (s pp rt alpha beta eta a1 a2 a3 dwc avK avLS avFines area maxConc hf hc ts : R)
  (quickflow baseflow rainfall klsc klscFine cov doy st : list R) :
  let p := {| us_S := s; us_P := pp; us_rainThreshold := rt; us_alpha := alpha; us_beta := beta;
              us_eta := eta; us_a1 := a1; us_a2 := a2; us_a3 := a3; us_dwc := dwc; us_avK := avK;
              us_avLS := avLS; us_avFines := avFines; us_area := area; us_maxConc := maxConc;
              us_hsdrFine := hf; us_hsdrCoarse := hc; us_timeStepInSeconds := ts |} in
  let os := map (usle_row p) (combine7 quickflow baseflow rainfall klsc klscFine cov doy) in
  usle_fine_kernel [s; pp; rt; alpha; beta; eta; a1; a2; a3; dwc; avK; avLS; avFines; area; maxConc; hf; hc; ts] st
    [quickflow; baseflow; rainfall; klsc; klscFine; cov; doy]
  = Some ([map us_quickLoadFine os; map us_slowLoadFine os; map us_quickLoadCoarse os;
           map us_slowLoadCoarse os; map us_totalFineLoad os; map us_totalCoarseLoad os;
           map us_generatedLoadFine os; map us_generatedLoadCoarse os], st).
Proof.
  cbv zeta. unfold usle_fine_kernel, usle_step. rewrite snd_run_loop_step. reflexivity.
Qed.

(** the hypotheses of [usle_row_nonneg] are satisfiable and the generating path is reachable:
    with alpha = 1, eta = 0, beta = 0 the R factor is 1 on a rainy day *)
Example usle_generating_example :
  let p := {| us_S := 0; us_P := 0; us_rainThreshold := 5; us_alpha := 1; us_beta := 0;
              us_eta := 0; us_a1 := 0; us_a2 := 0; us_a3 := 0; us_dwc := 1; us_avK := 0;
              us_avLS := 0; us_avFines := 0; us_area := 10000; us_maxConc := 1000000000; us_hsdrFine := 10;
              us_hsdrCoarse := 5; us_timeStepInSeconds := 1000 |} in
  let o := usle_row p (1, 0, 10, 2, 1, 0, 1) in
  us_generatedLoadFine o = 1 /\ us_generatedLoadCoarse o = 1 /\ us_quickLoadFine o = 1 / 10.
Proof.
  cbv zeta. unfold usle_row. cbv beta iota zeta.
  assert (HR : forall q, usle_R (A := RArith) {| us_S := 0; us_P := 0; us_rainThreshold := 5; us_alpha := 1; us_beta := 0;
              us_eta := 0; us_a1 := 0; us_a2 := 0; us_a3 := 0; us_dwc := 1; us_avK := 0;
              us_avLS := 0; us_avFines := 0; us_area := 10000; us_maxConc := 1000000000; us_hsdrFine := 10;
              us_hsdrCoarse := 5; us_timeStepInSeconds := q |} 10 1 = 1).
  { intros q. unfold usle_R, gtb. cbn [us_rainThreshold us_alpha us_eta us_beta]. runfold. unfold Rltb, Rpow.
    destruct (Rlt_dec 5 10); [|lra]. destruct (Req_EM_T 0 0); [|lra]. ring. }
  rewrite HR. unfold gtb. runfold. unfold Rltb.
  destruct (Rlt_dec 0 1); [|lra]. destruct (Rlt_dec 0 (1 * 2)); [|lra]. cbn [andb].
  unfold usle_capped_rates, usle_mass_kg, usle_litres_per_day, gtb. cbn [us_area us_maxConc]. units_unfold. unfold Rltb.
  destruct (Rlt_dec 1000000000 _) as [H|H]; [exfalso; lra|].
  cbn [us_generatedLoadFine us_generatedLoadCoarse us_quickLoadFine us_hsdrFine us_timeStepInSeconds us_area].
  repeat split; field.
Qed.
