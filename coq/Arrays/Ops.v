(** Executable model of the n-d array operations of data/arrays_go.go (Go-backed)
    and data/cdata/arrays_c.go (C-backed), and of data/arrayops.go, over an explicit
    memory [heap = list (list V)] (buffer id -> contents).  Every definition follows
    the Go text; [None] = the Go code panics (or, for C memory, touches an address
    outside the caller's buffer). *)
From Coq Require Import ZArith List Bool.
From OW Require Import Arrays.IntOps Arrays.View.
Import ListNotations.
Local Open Scope Z_scope.

Section Ops.
  Context {V : Type}.
  Variable vlt : V -> V -> bool.          (* Go's < on the element type *)
  Variable vadd vmul : V -> V -> V.
  Variable vzero : V.                     (* zero value of make([]T, n) *)

  (** A Go slice value []T: buffer, offset of element 0, len, cap. *)
  Record gslice := mkG { gbuf : nat; gbase : Z; glen : Z; gcap : Z }.

  Inductive impl := GoImpl (g : gslice) | CImpl (buf : nat).
  Record arr := mkArr { cm : common; im : impl }.
  Definition heap := list (list V).

  Definition hread (h : heap) (b : nat) (a : Z) : option V :=
    match nth_error h b with Some l => znth l a | None => None end.
  Definition hwrite (h : heap) (b : nat) (a : Z) (v : V) : option heap :=
    match nth_error h b with
    | Some l => match zset l a v with Some l' => set_nth h b l' | None => None end
    | None => None
    end.

  (** s[i] on a Go slice: bounds-checked against len *)
  Definition gread (h : heap) (g : gslice) (i : Z) : option V :=
    if (0 <=? i) && (i <? glen g) then hread h (gbuf g) (gbase g + i) else None.
  Definition gwrite (h : heap) (g : gslice) (i : Z) (v : V) : option heap :=
    if (0 <=? i) && (i <? glen g) then hwrite h (gbuf g) (gbase g + i) v else None.
  (** s[lo:hi]: 0 <= lo <= hi <= cap *)
  Definition gsub (g : gslice) (lo hi : Z) : option gslice :=
    if (0 <=? lo) && (lo <=? hi) && (hi <=? gcap g)
    then Some (mkG (gbuf g) (gbase g + lo) (hi - lo) (gcap g - lo)) else None.

  Definition impl_read (h : heap) (m : impl) (i : Z) : option V :=
    match m with GoImpl g => gread h g i | CImpl b => hread h b i end.
  Definition impl_write (h : heap) (m : impl) (i : Z) (v : V) : option heap :=
    match m with GoImpl g => gwrite h g i v | CImpl b => hwrite h b i v end.

  Definition get (h : heap) (a : arr) (loc : list Z) : option V :=
    match index (cm a) loc with Some i => impl_read h (im a) i | None => None end.
  Definition set (h : heap) (a : arr) (loc : list Z) (v : V) : option heap :=
    match index (cm a) loc with Some i => impl_write h (im a) i v | None => None end.

  Definition slice (a : arr) (loc d : list Z) (st : option (list Z)) : option arr :=
    option_map (fun c => mkArr c (im a)) (slice_into (cm a) loc d st).

  Definition shape (a : arr) : list Z := dims (cm a).

  (** all values of a Go slice, read now *)
  Fixpoint gread_all (h : heap) (g : gslice) (i : Z) (n : nat) : option (list V) :=
    match n with
    | O => Some []
    | S k => match gread h g i with
             | Some v => option_map (cons v) (gread_all h g (i + 1) k)
             | None => None
             end
    end.
  Definition gvalues (h : heap) (g : gslice) : option (list V) :=
    gread_all h g 0 (Z.to_nat (glen g)).

  (** copy(dst, vals): min(len dst, len vals) elements, source values already read *)
  Fixpoint copy_to (h : heap) (g : gslice) (i : Z) (vals : list V) : option heap :=
    match vals with
    | [] => Some h
    | v :: r => if i <? glen g then
                  match gwrite h g i v with Some h' => copy_to h' g (i + 1) r | None => None end
                else Some h
    end.

  (** --- Unroll ------------------------------------------------------- *)
  Fixpoint gather (h : heap) (a : arr) (doff : list Z) (i : Z) (n : nat) : option (list V) :=
    match n with
    | O => Some []
    | S k => match idivmod i doff (shape a) with
             | Some loc => match get h a loc with
                           | Some v => option_map (cons v) (gather h a doff (i + 1) k)
                           | None => None
                           end
             | None => None
             end
    end.

  Definition unroll_gather (h : heap) (a : arr) : option (heap * gslice) :=
    let n := product (shape a) in
    if n <? 0 then None else            (* make([]T, negative) panics *)
    match offsets (shape a) with
    | Some doff =>
        match gather h a doff 0 (Z.to_nat n) with
        | Some vals => Some (h ++ [vals], mkG (length h) 0 n n)
        | None => None
        end
    | None => None
    end.

  Definition unroll (h : heap) (a : arr) : option (heap * gslice) :=
    match im a with
    | GoImpl g =>
        match contiguous (cm a) with
        | Some true =>
            match index (cm a) (decrement (shape a)) with
            | Some e => match gsub g (start (cm a)) (e + 1) with
                        | Some g' => Some (h, g')
                        | None => None
                        end
            | None => None
            end
        | Some false => unroll_gather h a
        | None => None
        end
    | CImpl _ => unroll_gather h a
    end.

  (** --- Apply -------------------------------------------------------- *)
  Fixpoint apply_loop (h : heap) (a : arr) (loc : list Z) (dim : Z) (st0 stp : Z) (i : Z) (vals : list V)
    : option heap :=
    match vals with
    | [] => Some h
    | v :: r => match zset loc dim (st0 + i * stp) with
                | Some loc' => match set h a loc' v with
                               | Some h' => apply_loop h' a loc dim st0 stp (i + 1) r
                               | None => None
                               end
                | None => None
                end
    end.

  Definition apply (h : heap) (a : arr) (loc : list Z) (dim stp : Z) (vals : list V) : option heap :=
    let n := ndims (cm a) in
    match zset (uniform n 1) dim (Z.of_nat (length vals)), zset (uniform n 1) dim stp with
    | Some sdim, Some sstep =>
        match im a with
        | GoImpl g =>
            match slice a loc sdim (Some sstep) with
            | Some sl =>
                match contiguous (cm sl) with
                | Some true =>
                    match gsub g (start (cm sl)) (start (cm sl) + Z.of_nat (length vals)) with
                    | Some sub => copy_to h sub 0 vals
                    | None => None
                    end
                | Some false =>
                    match znth loc dim with
                    | Some st0 => apply_loop h a loc dim st0 stp 0 vals
                    | None => None
                    end
                | None => None
                end
            | None => None
            end
        | CImpl _ =>
            match znth loc dim with
            | Some st0 => apply_loop h a loc dim st0 stp 0 vals
            | None => None
            end
        end
    | _, _ => None
    end.

  (** --- ApplySlice / CopyFrom --------------------------------------- *)
  Fixpoint idx_copy_loop (h : heap) (dst src : arr) (shp idx : list Z) (n : nat) : option heap :=
    match n with
    | O => Some h
    | S k => match get h src idx with
             | Some v => match set h dst idx v with
                         | Some h' => match increment idx shp with
                                      | Some idx' => idx_copy_loop h' dst src shp idx' k
                                      | None => None
                                      end
                         | None => None
                         end
             | None => None
             end
    end.

  Definition apply_slice (h : heap) (a : arr) (loc : list Z) (st : option (list Z)) (vals : arr)
    : option heap :=
    let shp := shape vals in
    match slice a loc shp st with
    | Some sl =>
        let slow :=
          let size := product shp in
          idx_copy_loop h sl vals shp (new_index (cm sl) 0) (Z.to_nat size) in
        match im a with
        | GoImpl _ =>
            match contiguous (cm sl) with
            | Some true =>
                match unroll h sl with
                | Some (h1, gd) =>
                    match unroll h1 vals with
                    | Some (h2, gs) =>
                        match gvalues h2 gs with
                        | Some svals => copy_to h2 gd 0 svals
                        | None => None
                        end
                    | None => None
                    end
                | None => None
                end
            | Some false => slow
            | None => None
            end
        | CImpl _ => slow
        end
    | None => None
    end.

  Definition copy_from (h : heap) (a other : arr) : option heap :=
    apply_slice h a (new_index (cm a) 0) None other.

  (** --- Reshape ----------------------------------------------------- *)
  Inductive rres := RErr | RArr (a : arr).

  Definition fresh_root (newShape : list Z) (m : impl) (st : Z) : option arr :=
    match root_common newShape with
    | Some c => Some (mkArr (mkCommon (odims c) (dims c) st (offset c) (step c) (offstep c)) m)
    | None => None
    end.

  Definition reshape_to_series (a : arr) (newShape : list Z) : option bool :=
    if Nat.eqb (length newShape) 1 then
      match maximum_int (shape a) with
      | Some mx => Some (mx =? 1)
      | None => None
      end
    else Some false.

  Definition series_special (a : arr) (newShape : list Z) : option arr :=
    match argmax (shape a) with
    | Some sd =>
        match znth (step (cm a)) sd, znth (offset (cm a)) sd with
        | Some stp, Some off =>
            Some (mkArr (mkCommon (odims (cm a)) newShape (start (cm a)) [off] [stp] [stp * off]) (im a))
        | _, _ => None
        end
    | None => None
    end.

  Definition reshape (h : heap) (a : arr) (newShape : list Z) : option (heap * rres) :=
    if negb (product newShape =? product (shape a)) then Some (h, RErr) else
    match im a with
    | GoImpl _ =>
        match reshape_to_series a newShape, contiguous (cm a) with
        | Some rts, Some b =>
            if b || negb rts then
              match unroll h a with
              | Some (h', g) => match fresh_root newShape (GoImpl g) 0 with
                                | Some r => Some (h', RArr r)
                                | None => None
                                end
              | None => None
              end
            else match series_special a newShape with
                 | Some r => Some (h, RArr r)
                 | None => None
                 end
        | _, _ => None
        end
    | CImpl _ =>
        match contiguous (cm a) with
        | Some false =>
            match unroll h a with
            | Some (h', g) => match fresh_root newShape (GoImpl g) 0 with
                              | Some r => Some (h', RArr r)
                              | None => None
                              end
            | None => None
            end
        | Some true =>
            match reshape_to_series a newShape with
            | Some _ => match fresh_root newShape (im a) (start (cm a)) with
                        | Some r => Some (h, RArr r)
                        | None => None
                        end
            | None => None
            end
        | None => None
        end
    end.

  Definition reshape_fast (h : heap) (a : arr) (newShape : list Z) : option (heap * rres) :=
    match contiguous (cm a) with
    | Some false => Some (h, RErr)
    | Some true => reshape h a newShape
    | None => None
    end.

  Definition must_reshape (h : heap) (a : arr) (newShape : list Z) : option (heap * arr) :=
    match reshape h a newShape with
    | Some (h', RArr r) => Some (h', r)
    | _ => None
    end.

  (** --- Get1 / Set1 / Apply1 / Get2 ... ----------------------------- *)
  Fixpoint first_wide (ds : list Z) (loc : Z) : list Z :=
    match ds with
    | [] => []
    | d :: r => if 1 <? d then loc :: map (fun _ => 0) r else 0 :: first_wide r loc
    end.
  Definition index1 (a : arr) (loc : Z) : list Z :=
    if Nat.eqb (ndims (cm a)) 1 then [loc] else first_wide (shape a) loc.
  Definition get1 h a loc := get h a (index1 a loc).
  Definition set1 h a loc v := set h a (index1 a loc) v.
  Fixpoint apply1 (h : heap) (a : arr) (loc stp : Z) (i : Z) (vals : list V) : option heap :=
    match vals with
    | [] => Some h
    | v :: r => match set1 h a (loc + i * stp) v with
                | Some h' => apply1 h' a loc stp (i + 1) r
                | None => None
                end
    end.

  (** --- Maximum / Minimum ------------------------------------------- *)
  Fixpoint extremum_loop (better : V -> V -> bool) (h : heap) (a : arr) (shp idx : list Z) (res : V) (n : nat)
    : option V :=
    match n with
    | O => Some res
    | S k => match get h a idx with
             | Some v => match increment idx shp with
                         | Some idx' => extremum_loop better h a shp idx' (if better v res then v else res) k
                         | None => None
                         end
             | None => None
             end
    end.
  Definition extremum (better : V -> V -> bool) (h : heap) (a : arr) : option V :=
    let idx := new_index (cm a) 0 in
    match get h a idx with
    | Some r0 => extremum_loop better h a (shape a) idx r0 (Z.to_nat (product (shape a)))
    | None => None
    end.
  Definition maximum h a := extremum (fun v res => vlt res v) h a.
  Definition minimum h a := extremum (fun v res => vlt v res) h a.

  (** --- arrayops.go: ApplyFunc1, Scale, AddTo ----------------------- *)
  (** [f d s] : new destination element from the current destination and source elements *)
  Fixpoint slices_loop (f : V -> V -> V) (h : heap) (gd gs : gslice) (i : Z) (n : nat) : option heap :=
    match n with
    | O => Some h
    | S k => match gread h gd i, gread h gs i with
             | Some d, Some s => match gwrite h gd i (f d s) with
                                 | Some h' => slices_loop f h' gd gs (i + 1) k
                                 | None => None
                                 end
             | _, _ => None
             end
    end.
  Fixpoint idx_loop2 (f : V -> V -> V) (h : heap) (dst src : arr) (shp idx : list Z) (n : nat) : option heap :=
    match n with
    | O => Some h
    | S k => match get h dst idx, get h src idx with
             | Some d, Some s => match set h dst idx (f d s) with
                                 | Some h' => match increment idx shp with
                                              | Some idx' => idx_loop2 f h' dst src shp idx' k
                                              | None => None
                                              end
                                 | None => None
                                 end
             | _, _ => None
             end
    end.
  Definition elementwise2 (f : V -> V -> V) (h : heap) (dst src : arr) : option heap :=
    match contiguous (cm dst), contiguous (cm src) with
    | Some true, Some true =>
        match unroll h dst with
        | Some (h1, gd) =>
            match unroll h1 src with
            | Some (h2, gs) =>
                match slices_loop f h2 gd gs 0 (Z.to_nat (glen gd)) with
                | Some h3 =>
                    (* dest.CopyFrom(ArrayFromSlice(destSlice, dest.Shape())) *)
                    match fresh_root (shape dst) (GoImpl gd) 0 with
                    | Some tmp => copy_from h3 dst tmp
                    | None => None
                    end
                | None => None
                end
            | None => None
            end
        | None => None
        end
    | Some _, Some _ =>
        idx_loop2 f h dst src (shape dst) (new_index (cm dst) 0) (Z.to_nat (product (shape dst)))
    | _, _ => None
    end.
  Definition apply_func1 (fn : V -> V) := elementwise2 (fun _ s => fn s).
  Definition scale (k : V) := elementwise2 (fun _ s => vmul s k).
  Definition add_to := elementwise2 (fun d s => vadd d s).

  (** --- constructors -------------------------------------------------- *)
  Definition new_go (h : heap) (ds : list Z) (vals : list V) : option (heap * arr) :=
    let n := Z.of_nat (length vals) in
    match root_common ds with
    | Some c => Some (h ++ [vals], mkArr c (GoImpl (mkG (length h) 0 n n)))
    | None => None
    end.
  Definition new_c (h : heap) (ds : list Z) (vals : list V) : option (heap * arr) :=
    match root_common ds with
    | Some c => Some (h ++ [vals], mkArr c (CImpl (length h)))
    | None => None
    end.

  (** row-major element list of a view, by Get (the observable used everywhere) *)
  Fixpoint gets (h : heap) (a : arr) (locs : list (list Z)) : option (list V) :=
    match locs with
    | [] => Some []
    | l :: r => match get h a l with
                | Some v => option_map (cons v) (gets h a r)
                | None => None
                end
    end.
  Definition elems (h : heap) (a : arr) : option (list V) := gets h a (enum (shape a)).
End Ops.

