(** C02: Reshape of a contiguous Go-backed view aliases the storage; Maximum / Minimum are
    the left fold over the elements in row-major order. *)
From Coq Require Import ZArith List Bool Lia.
From OW Require Import Arrays.IntOps Arrays.View Arrays.Ops Arrays.IndexProofs Arrays.AffineProofs
  Arrays.ContigProofs Arrays.HelperProofs Arrays.MemProofs Arrays.HistoryProofs Arrays.CopyProofs.
Import ListNotations.
Local Open Scope Z_scope.

Section B.
  Context {V : Type}.
  Notation heap := (@heap V).

  (** identity view over a root of shape [s] *)
  Definition idview (s : list Z) : aview := mkAview (map (fun _ => 0) s) (map (fun _ => 1) s) s.

  Lemma idview_in_box (s : list Z) : Forall (fun d => 0 < d) s -> in_box s (idview s).
  Proof. unfold in_box, idview; cbn. induction 1; cbn; constructor; auto; lia. Qed.

  Lemma uniform_ones (s : list Z) : uniform (length s) 1 = map (fun _ => 1) s.
  Proof. unfold uniform. induction s; cbn; congruence. Qed.

  Lemma vmul_ones_map (s : list Z) : forall o, length o = length s -> vmul (map (fun _ => 1) s) o = o.
  Proof.
    induction s as [|d s IH]; intros [|x o] H; cbn in *; try lia; [reflexivity|].
    unfold vmul in *. cbn [zipw]. rewrite IH by lia. f_equal. now destruct x.
  Qed.

  Lemma root_is_conc_idview s c : root_common s = Some c -> c = conc s (idview s).
  Proof.
    intros H. assert (N : s <> []) by (intro; subst; discriminate).
    rewrite root_common_spec in H by exact N. inversion H; subst. unfold conc, idview; cbn.
    rewrite ravel_zero, uniform_ones, vmul_ones_map by (rewrite offsets_from_length; reflexivity). reflexivity.
  Qed.

  Lemma root_idx_idview s i : length i = length s -> root_idx (idview s) i = i.
  Proof.
    unfold root_idx, idview; cbn. revert i; induction s as [|d s IH]; intros [|x i] H; cbn in *; try lia; [reflexivity|].
    unfold vadd, vmul in *. cbn [zipw]. rewrite IH by lia. f_equal. lia.
  Qed.

  Lemma unroll_alias_fields (h h' : heap) c g g' : contiguous c = Some true ->
    unroll h (mkArr c (GoImpl g)) = Some (h', g') ->
    gcap g' = gcap g - start c /\ 0 <= start c /\ start c + glen g' <= gcap g /\ gbase g' = gbase g + start c /\ gbuf g' = gbuf g.
  Proof.
    intros C U. unfold unroll in U. cbn [im cm] in U. rewrite C in U.
    destruct (index c _) as [e|]; [|discriminate]. unfold gsub in U.
    destruct ((0 <=? start c) && (start c <=? e + 1) && (e + 1 <=? gcap g)) eqn:G; [|discriminate].
    inversion U; subst. cbn. apply andb_true_iff in G as [G G3]. apply andb_true_iff in G as [G1 G2].
    apply Z.leb_le in G1, G2, G3. repeat split; lia.
  Qed.

  (** ** Reshape of a contiguous Go-backed view does not copy: the result is a well-formed array
      over the SAME buffer, and its element i is the view's element of the same row-major rank *)
  Theorem reshape_contiguous_aliases (h : heap) g c rd v s :
    wf_arr h (mkArr c (GoImpl g)) rd v -> steps_pos v -> contiguous c = Some true -> adims v <> [] ->
    Forall (fun d => 0 < d) s -> s <> [] -> product s = product (adims v) ->
    exists r g', reshape h (mkArr c (GoImpl g)) s = Some (h, RArr r) /\
      im r = GoImpl g' /\ gbuf g' = gbuf g /\ wf_arr h r s (idview s) /\
      forall i, valid_idx s i ->
        get h r i = get h (mkArr c (GoImpl g)) (unravel (adims v) (ravel s i)).
  Proof.
    intros W SP C Nd Ps Ns Eq. pose proof W as (E & B & S). cbn [cm im] in *.
    destruct (unroll_contiguous_alias h g c rd v W SP C) as (g' & U & Gb & Gs & Gl & Rd).
    destruct (unroll_alias_fields h h c g g' C U) as (Fc & F0 & Fl & _ & _).
    assert (Sh : shape (mkArr c (GoImpl g)) = adims v) by (unfold shape; cbn; rewrite E; reflexivity).
    assert (Rts : exists rts, reshape_to_series (mkArr c (GoImpl g)) s = Some rts).
    { unfold reshape_to_series. rewrite Sh. destruct (Nat.eqb (length s) 1); [|eauto].
      destruct (adims v) as [|d0 dr] eqn:Ed; [congruence|]. cbn. eauto. }
    destruct Rts as [rts Rts].
    destruct (root_common s) as [c0|] eqn:R0.
    2:{ exfalso. unfold root_common, offsets in R0. destruct s as [|s0 sr]; [congruence|]. cbv zeta in R0.
        rewrite multiply_vmul in R0 by (rewrite uniform_length, offsets_from_length; reflexivity). discriminate. }
    pose proof (root_is_conc_idview s c0 R0) as Ec. subst c0.
    unfold reshape. rewrite Sh. destruct (Z.eqb_spec (product s) (product (adims v))) as [_|N]; [|contradiction].
    cbn [negb im cm]. rewrite Rts, C. cbn [orb]. rewrite U. unfold fresh_root. rewrite R0.
    eexists; exists g'; split; [reflexivity|]. cbn [im cm]. split; [reflexivity|]. split; [exact Gb|]. split.
    - split; [cbn [cm]; unfold conc, idview; cbn; rewrite ravel_zero; reflexivity|].
      split; [apply idview_in_box; exact Ps|]. cbn [im storage_ok].
      destruct S as (l & El & Lg & Cg & B0 & B1). exists l. rewrite Gb. split; [exact El|]. rewrite Gl, Eq, Fc, Gs. repeat split; lia.
    - intros i Vi. unfold get at 1. cbn [cm im].
      destruct (conc_index s (idview s) i (idview_in_box s Ps) Vi) as [I _].
      rewrite root_idx_idview in I by (apply valid_idx_length; exact Vi).
      assert (Ii : index (mkCommon (odims (conc s (idview s))) (dims (conc s (idview s))) 0 (offset (conc s (idview s)))
                            (step (conc s (idview s))) (offstep (conc s (idview s)))) i = Some (ravel s i)).
      { unfold index in *. cbn [start offstep conc] in *. rewrite ravel_zero in I. exact I. }
      rewrite Ii. cbn [impl_read]. apply Rd. rewrite <- Eq. apply ravel_bounds. exact Vi.
  Qed.

  (** ** Maximum / Minimum: the loop is the left fold of "keep the better one" over the elements
      in row-major order (whatever the comparison does on incomparable values such as NaN) *)
  Fixpoint fold_elems (better : V -> V -> bool) (h : heap) (a : arr) (ds : list Z) (k : Z) (res : V) (n : nat) : option V :=
    match n with
    | O => Some res
    | S m => match get h a (unravel ds k) with
             | Some x => fold_elems better h a ds (k + 1) (if better x res then x else res) m
             | None => None
             end
    end.

  Lemma extremum_loop_fold better (h : heap) a ds : Forall (fun d => 0 < d) ds ->
    forall n k res, 0 <= k -> k + Z.of_nat n <= product ds ->
      extremum_loop better h a ds (unravel ds k) res n = fold_elems better h a ds k res n.
  Proof.
    intros P. induction n as [|n IH]; intros k res Hk Hn; [reflexivity|]. cbn [extremum_loop fold_elems].
    destruct (get h a (unravel ds k)) as [x|]; [|reflexivity].
    assert (Vk : valid_idx ds (unravel ds k)) by (apply unravel_valid; exact P).
    destruct (increment_succ ds _ Vk) as (i' & Ei & Vi' & Ri). rewrite Ei.
    destruct n as [|n']; [reflexivity|].
    assert (Ei' : i' = unravel ds (k + 1)).
    { rewrite ravel_unravel in Ri by (auto; lia). rewrite Z.mod_small in Ri by lia.
      rewrite <- Ri. symmetry. apply unravel_ravel0. exact Vi'. }
    subst i'. apply IH; lia.
  Qed.

  Theorem extremum_is_row_major_fold better (h : heap) a rd v :
    wf_arr h a rd v -> adims v <> [] ->
    exists x0, get h a (unravel (adims v) 0) = Some x0 /\
      extremum better h a = fold_elems better h a (adims v) 0 x0 (Z.to_nat (product (adims v))).
  Proof.
    intros W N. pose proof W as (E & B & S). pose proof (in_box_dims_pos _ _ B) as P.
    assert (Sh : shape a = adims v) by (unfold shape; rewrite E; reflexivity).
    destruct (get_set_total h a rd v (unravel (adims v) 0) W ltac:(apply unravel_valid; exact P)) as [[x0 Hx] _].
    exists x0. split; [exact Hx|]. unfold extremum. rewrite Sh, new_index_zeros, E. cbn [dims conc].
    rewrite <- unravel_zero by exact P. rewrite Hx. apply extremum_loop_fold; [exact P|lia|].
    pose proof (product_pos_all _ P). lia.
  Qed.
End B.
