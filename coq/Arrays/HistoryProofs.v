(** Invariants over ARBITRARY operation histories (C01/C03): no operation ever
    changes the size of an existing buffer or removes one, so the storage behind
    every array stays exactly as large as when the array was created — along any
    history, whatever its length and whatever the arguments. *)
From Coq Require Import ZArith List Bool Lia.
From OW Require Import Arrays.IntOps Arrays.View Arrays.Ops Arrays.IndexProofs Arrays.AffineProofs
  Arrays.ContigProofs Arrays.MemProofs Arrays.Exec.
Import ListNotations.
Local Open Scope Z_scope.

Section H.
  Context {V : Type}.
  Notation heap := (@heap V).

  (** heap extension: buffers are only appended, existing ones keep their length *)
  Definition hext (h h' : heap) : Prop :=
    (length h <= length h')%nat /\
    forall b l, nth_error h b = Some l -> exists l', nth_error h' b = Some l' /\ length l' = length l.

  Lemma hext_refl h : hext h h.
  Proof. split; [lia|]. intros b l E; exists l; auto. Qed.

  Lemma hext_trans h1 h2 h3 : hext h1 h2 -> hext h2 h3 -> hext h1 h3.
  Proof.
    intros [L1 A1] [L2 A2]. split; [lia|]. intros b l E.
    destruct (A1 b l E) as (l' & E' & Le). destruct (A2 b l' E') as (l'' & E'' & Le'). exists l''. split; [auto|lia].
  Qed.

  Lemma hext_hwrite (h : heap) b a x h' : hwrite h b a x = Some h' -> hext h h'.
  Proof.
    intros W. destruct (hwrite_lengths _ _ _ _ _ W) as [L A]. split; [lia|].
    intros b2 l E. specialize (A b2). rewrite E in A. cbn in A.
    destruct (nth_error h' b2) as [l'|]; [|discriminate]. cbn in A. inversion A. exists l'. split; auto.
  Qed.

  Lemma hext_app (h : heap) l : hext h (h ++ [l]).
  Proof.
    split; [rewrite app_length; lia|]. intros b l0 E. exists l0. split; [|reflexivity].
    rewrite nth_error_app1; [exact E|]. apply nth_error_Some. congruence.
  Qed.

  Lemma hext_gwrite (h : heap) g i x h' : gwrite h g i x = Some h' -> hext h h'.
  Proof. unfold gwrite. destruct (_ && _); [apply hext_hwrite|discriminate]. Qed.

  Lemma hext_impl_write (h : heap) m i x h' : impl_write h m i x = Some h' -> hext h h'.
  Proof. destruct m; cbn; [apply hext_gwrite|apply hext_hwrite]. Qed.

  Lemma hext_set (h : heap) a loc x h' : set h a loc x = Some h' -> hext h h'.
  Proof. unfold set. destruct (index _ _); [apply hext_impl_write|discriminate]. Qed.

  Lemma hext_copy_to g : forall vals (h : heap) i h', copy_to h g i vals = Some h' -> hext h h'.
  Proof.
    induction vals as [|x r IH]; intros h i h' H; cbn in H; [inversion H; apply hext_refl|].
    destruct (i <? glen g); [|inversion H; apply hext_refl].
    destruct (gwrite h g i x) as [h1|] eqn:W; [|discriminate].
    eapply hext_trans; [eapply hext_gwrite; eauto|eapply IH; eauto].
  Qed.

  Lemma hext_apply_loop a loc dim st0 stp : forall vals (h : heap) i h',
    apply_loop h a loc dim st0 stp i vals = Some h' -> hext h h'.
  Proof.
    induction vals as [|x r IH]; intros h i h' H; cbn in H; [inversion H; apply hext_refl|].
    destruct (zset loc dim (st0 + i * stp)); [|discriminate].
    destruct (set h a l x) as [h1|] eqn:W; [|discriminate].
    eapply hext_trans; [eapply hext_set; eauto|eapply IH; eauto].
  Qed.

  Lemma hext_unroll_gather (h : heap) a h' g : unroll_gather h a = Some (h', g) -> hext h h'.
  Proof.
    unfold unroll_gather. destruct (_ <? 0); [discriminate|]. destruct (offsets _); [|discriminate].
    destruct (gather _ _ _ _ _); [|discriminate]. intros H; inversion H; subst. apply hext_app.
  Qed.

  Lemma hext_unroll (h : heap) a h' g : unroll h a = Some (h', g) -> hext h h'.
  Proof.
    unfold unroll. destruct (im a).
    - destruct (contiguous (cm a)) as [[|]|]; try discriminate.
      + destruct (index _ _); [|discriminate]. destruct (gsub _ _ _); [|discriminate].
        intros H; inversion H; subst. apply hext_refl.
      + apply hext_unroll_gather.
    - apply hext_unroll_gather.
  Qed.

  Lemma hext_apply (h : heap) a loc dim stp vals h' : apply h a loc dim stp vals = Some h' -> hext h h'.
  Proof.
    unfold apply. destruct (zset _ dim _); [|discriminate]. destruct (zset _ dim stp); [|discriminate].
    destruct (im a).
    - destruct (slice _ _ _ _); [|discriminate]. destruct (contiguous _) as [[|]|]; try discriminate.
      + destruct (gsub _ _ _); [|discriminate]. apply hext_copy_to.
      + destruct (znth loc dim); [|discriminate]. apply hext_apply_loop.
    - destruct (znth loc dim); [|discriminate]. apply hext_apply_loop.
  Qed.

  Lemma hext_idx_copy_loop dst src shp : forall n (h : heap) idx h',
    idx_copy_loop h dst src shp idx n = Some h' -> hext h h'.
  Proof.
    induction n as [|n IH]; intros h idx h' H; cbn in H; [inversion H; apply hext_refl|].
    destruct (get h src idx); [|discriminate]. destruct (set h dst idx v) as [h1|] eqn:W; [|discriminate].
    destruct (increment idx shp); [|discriminate].
    eapply hext_trans; [eapply hext_set; eauto|eapply IH; eauto].
  Qed.

  Lemma hext_apply_slice (h : heap) a loc st vals h' : apply_slice h a loc st vals = Some h' -> hext h h'.
  Proof.
    unfold apply_slice. destruct (slice _ _ _ _) as [sl|]; [|discriminate].
    assert (S : forall h0 h1, idx_copy_loop h0 sl vals (shape vals) (new_index (cm sl) 0)
                  (Z.to_nat (product (shape vals))) = Some h1 -> hext h0 h1) by (intros; eapply hext_idx_copy_loop; eauto).
    destruct (im a).
    - destruct (contiguous _) as [[|]|]; try discriminate; [|apply S].
      destruct (unroll h sl) as [[h1 gd]|] eqn:U1; [|discriminate].
      destruct (unroll h1 vals) as [[h2 gs]|] eqn:U2; [|discriminate].
      destruct (gvalues h2 gs); [|discriminate]. intros C.
      eapply hext_trans; [eapply hext_unroll; eauto|]. eapply hext_trans; [eapply hext_unroll; eauto|].
      eapply hext_copy_to; eauto.
    - apply S.
  Qed.

  (** the storage behind an array survives every heap extension *)
  Lemma storage_ok_hext (h h' : heap) m rd : hext h h' -> storage_ok h m rd -> storage_ok h' m rd.
  Proof.
    intros [L A] S. destruct m as [g|b]; cbn in *.
    - destruct S as (l & E & R). destruct (A _ _ E) as (l' & E' & Le). exists l'. split; [exact E'|]. rewrite Le. exact R.
    - destruct S as (l & E & R). destruct (A _ _ E) as (l' & E' & Le). exists l'. split; [exact E'|]. rewrite Le. exact R.
  Qed.

  Corollary wf_arr_hext (h h' : heap) a rd v : hext h h' -> wf_arr h a rd v -> wf_arr h' a rd v.
  Proof. intros X (E & B & S). split; [exact E|]. split; [exact B|]. eapply storage_ok_hext; eauto. Qed.
End H.

(** ** every operation of the history interpreter extends the heap, hence so does every
    history: the storage of every array created at any point stays intact forever *)
Lemma hext_slices_loop f gd gs : forall n (h : @heap Z) i h', slices_loop f h gd gs i n = Some h' -> hext h h'.
Proof.
  induction n as [|n IH]; intros h i h' H; cbn in H; [inversion H; apply hext_refl|].
  destruct (gread h gd i); [|discriminate]. destruct (gread h gs i); [|discriminate].
  destruct (gwrite h gd i (f z z0)) as [h1|] eqn:W; [|discriminate].
  eapply hext_trans; [eapply hext_gwrite; eauto|eapply IH; eauto].
Qed.

Lemma hext_idx_loop2 f dst src shp : forall n (h : @heap Z) idx h', idx_loop2 f h dst src shp idx n = Some h' -> hext h h'.
Proof.
  induction n as [|n IH]; intros h idx h' H; cbn in H; [inversion H; apply hext_refl|].
  destruct (get h dst idx); [|discriminate]. destruct (get h src idx); [|discriminate].
  destruct (set h dst idx (f z z0)) as [h1|] eqn:W; [|discriminate]. destruct (increment idx shp); [|discriminate].
  eapply hext_trans; [eapply hext_set; eauto|eapply IH; eauto].
Qed.

Lemma hext_elementwise2 f (h : @heap Z) dst src h' : elementwise2 f h dst src = Some h' -> hext h h'.
Proof.
  unfold elementwise2. destruct (contiguous (cm dst)) as [[|]|]; try discriminate;
    destruct (contiguous (cm src)) as [[|]|]; try discriminate; try (apply hext_idx_loop2).
  destruct (unroll h dst) as [[h1 gd]|] eqn:U1; [|discriminate].
  destruct (unroll h1 src) as [[h2 gs]|] eqn:U2; [|discriminate].
  destruct (slices_loop f h2 gd gs 0 _) as [h3|] eqn:SL; [|discriminate].
  destruct (fresh_root _ _ _); [|discriminate]. intros C.
  eapply hext_trans; [eapply hext_unroll; eauto|]. eapply hext_trans; [eapply hext_unroll; eauto|].
  eapply hext_trans; [eapply hext_slices_loop; eauto|]. unfold copy_from in C. eapply hext_apply_slice; eauto.
Qed.

Lemma hext_reshape (h : @heap Z) a s h' r : reshape h a s = Some (h', r) -> hext h h'.
Proof.
  unfold reshape. destruct (negb _); [intros H; inversion H; apply hext_refl|].
  destruct (im a).
  - destruct (reshape_to_series a s); [|discriminate]. destruct (contiguous _); [|discriminate].
    destruct (b0 || negb b).
    + destruct (unroll h a) as [[h1 g1]|] eqn:U; [|discriminate]. destruct (fresh_root _ _ _); [|discriminate].
      intros H; inversion H; subst. eapply hext_unroll; eauto.
    + destruct (series_special a s); [|discriminate]. intros H; inversion H; apply hext_refl.
  - destruct (contiguous _) as [[|]|]; try discriminate.
    + destruct (reshape_to_series a s); [|discriminate]. destruct (fresh_root _ _ _); [|discriminate].
      intros H; inversion H; apply hext_refl.
    + destruct (unroll h a) as [[h1 g1]|] eqn:U; [|discriminate]. destruct (fresh_root _ _ _); [|discriminate].
      intros H; inversion H; subst. eapply hext_unroll; eauto.
Qed.

Lemma hext_apply1 a loc stp : forall vals (h : @heap Z) i h', apply1 h a loc stp i vals = Some h' -> hext h h'.
Proof.
  induction vals as [|x r IH]; intros h i h' H; cbn in H; [inversion H; apply hext_refl|].
  destruct (set1 h a (loc + i * stp) x) as [h1|] eqn:W; [|discriminate].
  eapply hext_trans; [eapply hext_set; unfold set1 in W; eauto|eapply IH; eauto].
Qed.

Theorem exec_extends_heap s o s' r : exec s o = Some (s', r) -> hext (sheap s) (sheap s').
Proof.
  unfold exec. destruct o; cbn zeta.
  - destruct (existsb _ _); [discriminate|]. destruct c_backed.
    + unfold new_c. destruct (root_common ds); [|discriminate]. intros H; inversion H; subst. cbn. apply hext_app.
    + unfold new_go. destruct (root_common ds); [|discriminate]. intros H; inversion H; subst. cbn. apply hext_app.
  - destruct (arr_at s id); [|discriminate]. destruct (slice _ _ _ _); [|discriminate].
    intros H; inversion H; subst. cbn. apply hext_refl.
  - destruct (arr_at s id); [|discriminate]. destruct (get _ _ _); cbn; [|discriminate]. intros H; inversion H; subst. apply hext_refl.
  - destruct (arr_at s id); [|discriminate]. destruct (set _ _ _ _) eqn:W; cbn; [|discriminate].
    intros H; inversion H; subst. cbn. eapply hext_set; eauto.
  - destruct (arr_at s id); [|discriminate]. destruct (apply _ _ _ _ _ _) eqn:W; cbn; [|discriminate].
    intros H; inversion H; subst. cbn. eapply hext_apply; eauto.
  - destruct (arr_at s id); [|discriminate]. destruct (arr_at s src); [|discriminate].
    destruct (apply_slice _ _ _ _ _) eqn:W; cbn; [|discriminate]. intros H; inversion H; subst. cbn. eapply hext_apply_slice; eauto.
  - destruct (arr_at s id); [|discriminate]. destruct (arr_at s src); [|discriminate].
    destruct (copy_from _ _ _) eqn:W; cbn; [|discriminate]. intros H; inversion H; subst. cbn. eapply hext_apply_slice; eauto.
  - destruct (arr_at s id); [|discriminate]. destruct (unroll _ _) as [[h1 g]|] eqn:U; [|discriminate].
    destruct (gvalues h1 g); cbn; [|discriminate]. intros H; inversion H; subst. cbn. eapply hext_unroll; eauto.
  - destruct (arr_at s id); [|discriminate]. destruct (unroll _ _) as [[h1 g]|] eqn:U; [|discriminate].
    destruct (gwrite h1 g k v) eqn:W; cbn; [|discriminate]. intros H; inversion H; subst. cbn.
    eapply hext_trans; [eapply hext_unroll; eauto|eapply hext_gwrite; eauto].
  - destruct (arr_at s id); [|discriminate]. destruct (reshape _ _ _) as [[h1 [|a']]|] eqn:R; cbn; try discriminate;
      intros H; inversion H; subst; cbn; eapply hext_reshape; eauto.
  - destruct (arr_at s id); [|discriminate]. unfold reshape_fast.
    destruct (contiguous _) as [[|]|]; cbn; try discriminate.
    + destruct (reshape _ _ _) as [[h1 [|a']]|] eqn:R; cbn; try discriminate;
        intros H; inversion H; subst; cbn; eapply hext_reshape; eauto.
    + intros H; inversion H; subst. cbn. apply hext_refl.
  - destruct (arr_at s id); [|discriminate]. unfold must_reshape.
    destruct (reshape _ _ _) as [[h1 [|a']]|] eqn:R; cbn; try discriminate.
    intros H; inversion H; subst; cbn. eapply hext_reshape; eauto.
  - destruct (arr_at s id); [|discriminate]. destruct (contiguous _); cbn; [|discriminate]. intros H; inversion H; apply hext_refl.
  - destruct (arr_at s id); [|discriminate]. destruct (maximum _ _ _); cbn; [|discriminate]. intros H; inversion H; apply hext_refl.
  - destruct (arr_at s id); [|discriminate]. destruct (minimum _ _ _); cbn; [|discriminate]. intros H; inversion H; apply hext_refl.
  - destruct (arr_at s id); [|discriminate]. destruct (get1 _ _ _); cbn; [|discriminate]. intros H; inversion H; apply hext_refl.
  - destruct (arr_at s id); [|discriminate]. destruct (set1 _ _ _ _) eqn:W; cbn; [|discriminate].
    intros H; inversion H; subst. cbn. unfold set1 in W. eapply hext_set; eauto.
  - destruct (arr_at s id); [|discriminate]. destruct (apply1 _ _ _ _ _ _) eqn:W; cbn; [|discriminate].
    intros H; inversion H; subst. cbn. eapply hext_apply1; eauto.
  - destruct (arr_at s id); [|discriminate]. destruct (get _ _ _); cbn; [|discriminate]. intros H; inversion H; subst. apply hext_refl.
  - destruct (arr_at s id); [|discriminate]. destruct (set _ _ _ _) eqn:W; cbn; [|discriminate].
    intros H; inversion H; subst. cbn. eapply hext_set; eauto.
  - destruct (arr_at s dst); [|discriminate]. destruct (arr_at s src); [|discriminate].
    destruct (scale _ _ _ _ _) eqn:W; cbn; [|discriminate]. intros H; inversion H; subst. cbn. eapply hext_elementwise2; eauto.
  - destruct (arr_at s dst); [|discriminate]. destruct (arr_at s src); [|discriminate].
    destruct (add_to _ _ _ _) eqn:W; cbn; [|discriminate]. intros H; inversion H; subst. cbn. eapply hext_elementwise2; eauto.
  - destruct (arr_at s dst); [|discriminate]. destruct (arr_at s src); [|discriminate].
    destruct (apply_func1 _ _ _ _) eqn:W; cbn; [|discriminate]. intros H; inversion H; subst. cbn. eapply hext_elementwise2; eauto.
  - destruct (arr_at s id); [|discriminate]. intros H; inversion H; apply hext_refl.
  - destruct (arr_at s id); [|discriminate]. destruct (znth _ _); cbn; [|discriminate]. intros H; inversion H; apply hext_refl.
Qed.

(** run a whole history on the state *)
Fixpoint exec_all (s : arr_state) (ops : list op) : option arr_state :=
  match ops with
  | [] => Some s
  | o :: r => match exec s o with Some (s', _) => exec_all s' r | None => None end
  end.

Theorem history_preserves_storage : forall ops s s' a rd v,
  exec_all s ops = Some s' -> wf_arr (sheap s) a rd v -> wf_arr (sheap s') a rd v.
Proof.
  induction ops as [|o r IH]; intros s s' a rd v H W; cbn in H; [inversion H; subst; exact W|].
  destruct (exec s o) as [[s1 res]|] eqn:E; [|discriminate].
  eapply IH; [exact H|]. eapply wf_arr_hext; [eapply exec_extends_heap; eauto|exact W].
Qed.

(** arrays are never dropped or altered: ids stay valid and denote the same view *)
Theorem history_keeps_arrays : forall ops s s' id a,
  exec_all s ops = Some s' -> arr_at s id = Some a -> arr_at s' id = Some a.
Proof.
  assert (Step : forall s o s' r id a, exec s o = Some (s', r) -> arr_at s id = Some a -> arr_at s' id = Some a).
  { intros s o s' r id a E A.
    assert (P : exists extra, sarrs s' = sarrs s ++ extra).
    { unfold exec, of_rres, add_arr, with_heap in E. destruct o; cbn zeta in E;
        repeat match type of E with
               | context [match ?x with _ => _ end] => destruct x eqn:?; try discriminate
               end; cbn in E;
        repeat match type of E with
               | context [option_map _ ?x] => destruct x eqn:?; cbn in E; try discriminate
               end;
        inversion E; subst; cbn; first [exists []; rewrite app_nil_r; reflexivity | eexists; reflexivity]. }
    destruct P as [extra P]. unfold arr_at, znth in *. destruct (zidx id); [|discriminate].
    rewrite P. rewrite nth_error_app1; [exact A|]. apply nth_error_Some. congruence. }
  induction ops as [|o r IH]; intros s s' id a H A; cbn in H; [inversion H; subst; exact A|].
  destruct (exec s o) as [[s1 res]|] eqn:E; [|discriminate]. eapply IH; eauto.
Qed.

Corollary access_after_any_history : forall ops s s' a rd v i,
  exec_all s ops = Some s' -> wf_arr (sheap s) a rd v -> valid_idx (adims v) i ->
  (exists x, get (sheap s') a i = Some x) /\ (forall x, exists h', set (sheap s') a i x = Some h').
Proof.
  intros ops s s' a rd v i H W Vi. eapply get_set_total; [|exact Vi]. eapply history_preserves_storage; eauto.
Qed.
