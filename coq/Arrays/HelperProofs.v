(** C02, last sentence: the integer index helpers agree with their arithmetic
    definitions. *)
From Coq Require Import ZArith List Bool Lia.
From OW Require Import Arrays.IntOps Arrays.View Arrays.IndexProofs.
Import ListNotations.
Local Open Scope Z_scope.

Lemma product_spec l : product l = fold_right Z.mul 1 l.
Proof. induction l as [|x l IH]; [reflexivity|]. rewrite product_cons, IH. reflexivity. Qed.

Lemma multiply_spec l r : length l = length r -> multiply l r = Some (vmul l r).
Proof. apply multiply_vmul. Qed.

Lemma offsets_spec ds i : ds <> [] -> length i = length ds ->
  exists off, offsets ds = Some off /\ dotz i off = ravel ds i.
Proof.
  intros N L. exists (offsets_from ds). split; [destruct ds; [congruence|reflexivity]|]. now apply dotz_offsets.
Qed.

(** IDivMod(k, Offsets(dims), dims) is the row-major multi-index of rank k *)
Lemma idivmod_unravel_gen ds : forall k, 0 <= k -> Forall (fun d => 0 < d) ds ->
  idivmod k (offsets_from ds) ds = Some (unravel ds k).
Proof.
  induction ds as [|d ds IH]; intros k Hk F; [reflexivity|].
  inversion F as [|? ? Hd F']; subst. cbn [offsets_from idivmod unravel].
  assert (P : 0 < product ds).
  { clear -F'. induction F'; [reflexivity|]. rewrite product_cons; nia. }
  destruct (Z.eqb_spec (product ds) 0); [lia|]. destruct (Z.eqb_spec d 0); [lia|]. cbn [orb].
  rewrite IH by assumption. cbn. f_equal. f_equal.
  rewrite Z.quot_div_nonneg by lia. apply Z.rem_mod_nonneg; [apply Z.div_pos; lia|lia].
Qed.

Theorem idivmod_unravel ds k : 0 <= k -> Forall (fun d => 0 < d) ds -> ds <> [] ->
  exists off, offsets ds = Some off /\ idivmod k off ds = Some (unravel ds k).
Proof.
  intros Hk F N. exists (offsets_from ds). split; [destruct ds; [congruence|reflexivity]|].
  now apply idivmod_unravel_gen.
Qed.

(** Increment is the successor in row-major order, wrapping at the end *)
Fixpoint lval (v w : list Z) : Z :=    (* little-endian mixed-radix value *)
  match v, w with x :: v', m :: w' => x + m * lval v' w' | _, _ => 0 end.

Lemma lval_bounds v w : Forall2 (fun x m => 0 <= x < m) v w -> 0 <= lval v w < fold_right Z.mul 1 w.
Proof. induction 1 as [|x m v w Hx F IH]; cbn; [lia|nia]. Qed.

Lemma increment_rev_spec v w :
  Forall2 (fun x m => 0 <= x < m) v w ->
  Forall2 (fun x m => 0 <= x < m) (increment_rev v w) w /\
  lval (increment_rev v w) w = (lval v w + 1) mod fold_right Z.mul 1 w.
Proof.
  induction 1 as [|x m v w Hx F [IHF IHV]].
  - cbn. split; [constructor|reflexivity].
  - cbn [increment_rev fold_right lval].
    pose proof (lval_bounds _ _ F) as VB.
    destruct (Z.leb_spec m (x + 1)) as [L|L].
    + assert (x = m - 1) by lia. subst x. split; [constructor; [lia|exact IHF]|].
      cbn [lval]. rewrite IHV.
      replace (m - 1 + m * lval v w + 1) with (m * (lval v w + 1)) by lia.
      rewrite Zmult_mod_distr_l. lia.
    + split; [constructor; [lia|exact F]|]. cbn [lval].
      rewrite Z.mod_small; [lia|]. nia.
Qed.

Lemma lval_snoc v w x m : length v = length w ->
  lval (v ++ [x]) (w ++ [m]) = lval v w + fold_right Z.mul 1 w * x.
Proof.
  revert w; induction v as [|y v IH]; intros [|k w] H; cbn [length] in H; try lia;
    cbn [lval app fold_right].
  - lia.
  - rewrite IH by lia. lia.
Qed.

Lemma fold_right_mul_snoc w m : fold_right Z.mul 1 (w ++ [m]) = fold_right Z.mul 1 w * m.
Proof. induction w as [|k w IH]; cbn [app fold_right]; [lia|]. rewrite IH. lia. Qed.

Lemma fold_right_rev_product ds : fold_right Z.mul 1 (rev ds) = product ds.
Proof.
  induction ds as [|d ds IH]; [reflexivity|]. cbn [rev]. rewrite fold_right_mul_snoc, IH, product_cons. lia.
Qed.

Lemma lval_rev_ravel ds i : valid_idx ds i -> lval (rev i) (rev ds) = ravel ds i.
Proof.
  induction 1 as [|d ds x i Hx V IH]; [reflexivity|]. cbn [rev ravel].
  rewrite lval_snoc by (rewrite !rev_length; apply valid_idx_length, V).
  rewrite IH, fold_right_rev_product. lia.
Qed.

Lemma Forall2_rev' {A B} (P : A -> B -> Prop) l1 l2 : Forall2 P l1 l2 -> Forall2 P (rev l1) (rev l2).
Proof.
  induction 1; cbn; [constructor|]. apply Forall2_app; [assumption|constructor; [assumption|constructor]].
Qed.

Lemma valid_idx_Forall2_rev ds i : valid_idx ds i <-> Forall2 (fun x m => 0 <= x < m) (rev i) (rev ds).
Proof.
  split.
  - induction 1; cbn; [constructor|]. apply Forall2_app; [assumption|constructor; [assumption|constructor]].
  - intros H. apply Forall2_rev' in H. rewrite !rev_involutive in H.
    revert ds H. induction i as [|x i IH]; intros ds H; inversion H; subst; constructor; auto.
Qed.

Theorem increment_succ ds i : valid_idx ds i ->
  exists i', increment i ds = Some i' /\ valid_idx ds i' /\
             ravel ds i' = (ravel ds i + 1) mod product ds.
Proof.
  intros V. unfold increment. rewrite (valid_idx_length _ _ V), Nat.eqb_refl.
  eexists; split; [reflexivity|].
  pose proof (proj1 (valid_idx_Forall2_rev _ _) V) as F.
  destruct (increment_rev_spec _ _ F) as [F' E].
  assert (V' : valid_idx ds (rev (increment_rev (rev i) (rev ds)))).
  { apply valid_idx_Forall2_rev. rewrite rev_involutive. exact F'. }
  split; [exact V'|].
  rewrite <- (lval_rev_ravel _ _ V'), rev_involutive, E, (lval_rev_ravel _ _ V), fold_right_rev_product.
  reflexivity.
Qed.

Lemma argmax_loop_spec l : forall i best res,
  0 <= res <= i ->
  let r := argmax_loop l i best res in
  (r = res /\ Forall (fun v => v <= best) l) \/
  (res < r /\ i < r <= i + Z.of_nat (length l) /\
   exists v, nth_error l (Z.to_nat (r - i - 1)) = Some v /\ best < v /\
     Forall (fun w => w <= v) l /\ Forall (fun w => w < v) (firstn (Z.to_nat (r - i - 1)) l)).
Proof.
  induction l as [|v l IH]; intros i best res H; cbn zeta; cbn [argmax_loop].
  - left; split; [reflexivity|constructor].
  - destruct (Z.ltb_spec best v) as [L|L].
    + specialize (IH (i + 1) v (i + 1) ltac:(lia)). cbn zeta in IH. right.
      destruct IH as [[E F]|(R1 & R2 & w & N & B & F1 & F2)].
      * rewrite E. split; [lia|]. split; [cbn [length]; lia|]. exists v.
        replace (i + 1 - i - 1) with 0 by lia. cbn [Z.to_nat nth_error firstn].
        split; [reflexivity|]. split; [exact L|]. split; [|constructor].
        constructor; [lia|exact F].
      * split; [lia|]. split; [cbn [length]; lia|]. exists w.
        replace (Z.to_nat (argmax_loop l (i + 1) v (i + 1) - i - 1))
          with (S (Z.to_nat (argmax_loop l (i + 1) v (i + 1) - (i + 1) - 1))) by lia.
        cbn [nth_error firstn]. split; [exact N|]. split; [lia|]. split.
        -- constructor; [lia|exact F1].
        -- constructor; [lia|exact F2].
    + specialize (IH (i + 1) best res ltac:(lia)). cbn zeta in IH.
      destruct IH as [[E F]|(R1 & R2 & w & N & B & F1 & F2)].
      * left. split; [exact E|constructor; [lia|exact F]].
      * right. split; [lia|]. split; [cbn [length]; lia|]. exists w.
        replace (Z.to_nat (argmax_loop l (i + 1) best res - i - 1))
          with (S (Z.to_nat (argmax_loop l (i + 1) best res - (i + 1) - 1))) by lia.
        cbn [nth_error firstn]. split; [exact N|]. split; [lia|]. split.
        -- constructor; [lia|exact F1].
        -- constructor; [lia|exact F2].
Qed.

(** Argmax returns the least index of a maximal element *)
Theorem argmax_spec l r : argmax l = Some r ->
  exists v, znth l r = Some v /\ Forall (fun w => w <= v) l /\
            Forall (fun w => w < v) (firstn (Z.to_nat r) l).
Proof.
  destruct l as [|x l]; [discriminate|]. cbn [argmax]. intros H; inversion H; subst; clear H.
  pose proof (argmax_loop_spec l 0 x 0 ltac:(lia)) as S. cbn zeta in S.
  destruct S as [[E F]|(R1 & R2 & w & N & B & F1 & F2)].
  - rewrite E. exists x. cbn [Z.to_nat firstn]. split; [reflexivity|]. split; [|constructor].
    constructor; [lia|exact F].
  - exists w. unfold znth, zidx. destruct (Z.ltb_spec (argmax_loop l 0 x 0) 0); [lia|].
    replace (Z.to_nat (argmax_loop l 0 x 0)) with (S (Z.to_nat (argmax_loop l 0 x 0 - 0 - 1))) by lia.
    cbn [nth_error firstn]. split; [exact N|]. split.
    + constructor; [lia|exact F1].
    + constructor; [lia|exact F2].
Qed.

Theorem maximum_int_spec l m : maximum_int l = Some m ->
  In m l /\ Forall (fun w => w <= m) l.
Proof.
  destruct l as [|x l]; [discriminate|]. cbn [maximum_int]. intros H; inversion H; subst; clear H.
  assert (G : forall l a, (fold_left Z.max l a = a \/ In (fold_left Z.max l a) l) /\ a <= fold_left Z.max l a
                          /\ Forall (fun w => w <= fold_left Z.max l a) l).
  { clear. induction l as [|y l IH]; intros a; cbn [fold_left].
    - repeat split; [left; reflexivity|lia|constructor].
    - destruct (IH (Z.max a y)) as (A & B & C). repeat split.
      + destruct A as [A|A]; [|right; right; exact A]. rewrite A.
        destruct (Z.max_spec a y) as [[_ ->]|[_ ->]]; [right; left; reflexivity|left; reflexivity].
      + lia.
      + constructor; [lia|exact C]. }
  destruct (G l x) as (A & B & C). split.
  - destruct A as [A|A]; [left; congruence|right; exact A].
  - constructor; [exact B|exact C].
Qed.
