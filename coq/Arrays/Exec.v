(** Operation histories over the array model, instantiated at V = Z for the
    correspondence run (the harness uses small integers, exact in all 8 Go
    element types). *)
From Coq Require Import ZArith List Bool.
From OW Require Import Arrays.IntOps Arrays.View Arrays.Ops.
Import ListNotations.
Local Open Scope Z_scope.

Definition zarr := arr.
Definition zheap := @heap Z.

Inductive op :=
| ONew (c_backed : bool) (ds : list Z)
| OSlice (id : Z) (loc d : list Z) (st : option (list Z))
| OGet (id : Z) (loc : list Z)
| OSet (id : Z) (loc : list Z) (v : Z)
| OApply (id : Z) (loc : list Z) (dim stp : Z) (vals : list Z)
| OApplySlice (id : Z) (loc : list Z) (st : option (list Z)) (src : Z)
| OCopyFrom (id src : Z)
| OUnroll (id : Z)
| OUnrollW (id k v : Z)
| OReshape (id : Z) (shp : list Z)
| OReshapeFast (id : Z) (shp : list Z)
| OMustReshape (id : Z) (shp : list Z)
| OContig (id : Z)
| OMax (id : Z) | OMin (id : Z)
| OGet1 (id l : Z) | OSet1 (id l v : Z) | OApply1 (id l stp : Z) (vals : list Z)
| OGetN (id : Z) (loc : list Z) | OSetN (id : Z) (loc : list Z) (v : Z)   (* Get2/Get3/Set2/Set3 *)
| OScale (dst src k : Z) | OAddTo (dst src : Z) | OApplyFunc (dst src : Z)
| OShape (id : Z) | OLen (id ax : Z).

Inductive oresult :=
| ROk | RVal (v : Z) | RVals (l : list Z) | RBool (b : bool) | RError | RNewArr (id : Z).

Record arr_state := mkState { sheap : zheap; sarrs : list zarr; sroots : list nat }.
Definition arr_init_state : arr_state := mkState [] [] [].

Definition arr_at (s : arr_state) (id : Z) : option zarr := znth (sarrs s) id.

Definition iota (n : Z) : list Z := map (fun k => Z.of_nat k + 1) (seq 0 (Z.to_nat n)).

Definition with_heap (s : arr_state) (h : zheap) : arr_state := mkState h (sarrs s) (sroots s).
Definition add_arr (s : arr_state) (h : zheap) (a : zarr) : arr_state * oresult :=
  (mkState h (sarrs s ++ [a]) (sroots s), RNewArr (Z.of_nat (length (sarrs s)))).

Definition the_fn (v : Z) : Z := v * 2 + 1.

Definition of_rres (s : arr_state) (r : option (zheap * rres)) : option (arr_state * oresult) :=
  match r with
  | Some (h, RArr a) => Some (add_arr s h a)
  | Some (h, RErr) => Some (with_heap s h, RError)
  | None => None
  end.

Definition exec (s : arr_state) (o : op) : option (arr_state * oresult) :=
  let h := sheap s in
  let okh (r : option zheap) := option_map (fun h' => (with_heap s h', ROk)) r in
  let val (r : option Z) := option_map (fun v => (s, RVal v)) r in
  match o with
  | ONew cb ds =>
      if existsb (fun d => d <? 0) ds then None else
      let vals := iota (product ds) in
      match (if cb then new_c h ds vals else new_go h ds vals) with
      | Some (h', a) => Some (mkState h' (sarrs s ++ [a]) (sroots s ++ [length h]),
                              RNewArr (Z.of_nat (length (sarrs s))))
      | None => None
      end
  | OSlice id loc d st =>
      match arr_at s id with
      | Some a => match slice a loc d st with Some a' => Some (add_arr s h a') | None => None end
      | None => None end
  | OGet id loc | OGetN id loc =>
      match arr_at s id with Some a => val (get h a loc) | None => None end
  | OSet id loc v | OSetN id loc v =>
      match arr_at s id with Some a => okh (set h a loc v) | None => None end
  | OApply id loc dim stp vals =>
      match arr_at s id with Some a => okh (apply h a loc dim stp vals) | None => None end
  | OApplySlice id loc st src =>
      match arr_at s id, arr_at s src with
      | Some a, Some b => okh (apply_slice h a loc st b) | _, _ => None end
  | OCopyFrom id src =>
      match arr_at s id, arr_at s src with
      | Some a, Some b => okh (copy_from h a b) | _, _ => None end
  | OUnroll id =>
      match arr_at s id with
      | Some a => match unroll h a with
                  | Some (h', g) => option_map (fun l => (with_heap s h', RVals l)) (gvalues h' g)
                  | None => None end
      | None => None end
  | OUnrollW id k v =>
      match arr_at s id with
      | Some a => match unroll h a with
                  | Some (h', g) => okh (gwrite h' g k v)
                  | None => None end
      | None => None end
  | OReshape id shp =>
      match arr_at s id with Some a => of_rres s (reshape h a shp) | None => None end
  | OReshapeFast id shp =>
      match arr_at s id with Some a => of_rres s (reshape_fast h a shp) | None => None end
  | OMustReshape id shp =>
      match arr_at s id with
      | Some a => match must_reshape h a shp with Some (h', r) => Some (add_arr s h' r) | None => None end
      | None => None end
  | OContig id =>
      match arr_at s id with
      | Some a => option_map (fun b => (s, RBool b)) (contiguous (cm a)) | None => None end
  | OMax id => match arr_at s id with Some a => val (maximum Z.ltb h a) | None => None end
  | OMin id => match arr_at s id with Some a => val (minimum Z.ltb h a) | None => None end
  | OGet1 id l => match arr_at s id with Some a => val (get1 h a l) | None => None end
  | OSet1 id l v => match arr_at s id with Some a => okh (set1 h a l v) | None => None end
  | OApply1 id l stp vals =>
      match arr_at s id with Some a => okh (apply1 h a l stp 0 vals) | None => None end
  | OScale d sr k =>
      match arr_at s d, arr_at s sr with
      | Some a, Some b => okh (scale Z.mul k h a b) | _, _ => None end
  | OAddTo d sr =>
      match arr_at s d, arr_at s sr with
      | Some a, Some b => okh (add_to Z.add h a b) | _, _ => None end
  | OApplyFunc d sr =>
      match arr_at s d, arr_at s sr with
      | Some a, Some b => okh (apply_func1 the_fn h a b) | _, _ => None end
  | OShape id => match arr_at s id with Some a => Some (s, RVals (shape a)) | None => None end
  | OLen id ax =>
      match arr_at s id with Some a => val (znth (shape a) ax) | None => None end
  end.

(** observables after each operation: result, root buffers, elements of every array *)
Record obs := mkObs { o_res : oresult; o_roots : list (list Z); o_arrs : list (option (list Z)) }.

Definition observe (s : arr_state) (r : oresult) : obs :=
  mkObs r (map (fun b => nth b (sheap s) []) (sroots s))
        (map (fun a => elems (sheap s) a) (sarrs s)).

(** run a history; stops at the first panic *)
Fixpoint arr_run_history (s : arr_state) (ops : list op) : list (option obs) :=
  match ops with
  | [] => []
  | o :: r => match exec s o with
              | Some (s', res) => Some (observe s' res) :: arr_run_history s' r
              | None => [None]
              end
  end.

(** integer helpers, for direct comparison *)
Inductive iop :=
| IOffsets (ds : list Z) | IIDivMod (n : Z) (den md : list Z) | IIncrement (v w : list Z)
| IProduct (l : list Z) | IMultiply (l r : list Z) | IArgmax (l : list Z) | IMaximum (l : list Z).
Definition exec_iop (o : iop) : option (list Z) :=
  match o with
  | IOffsets ds => offsets ds
  | IIDivMod n den md => idivmod n den md
  | IIncrement v w => increment v w
  | IProduct l => Some [product l]
  | IMultiply l r => multiply l r
  | IArgmax l => option_map (fun x => [x]) (argmax l)
  | IMaximum l => option_map (fun x => [x]) (maximum_int l)
  end.
