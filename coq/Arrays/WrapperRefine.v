(** The array model (A) of Arrays/{IntOps,View,Ops}.v REFINES the small view algebra (B) of
    Wrapper/Run.v.

    Wrapper/Run.v (model of the generated wrappers, properties C04/C05) takes as an INTERFACE
    ASSUMPTION that Slice / MustReshape-of-a-contiguous-view / Get1 / Set1 of the Go array
    library address exactly the flat offsets [voffsets] that its record [wview] denotes.  Here
    that assumption is a family of THEOREMS about the detailed model of the library:

      - [abs_view c]   : the abstraction common -> wview (Start, OffsetStep, Dims through Z.to_nat)
      - [wfa c]        : algebraic well-formedness (non-negative components, OffsetStep = Step*Offset);
                         enough for Index / Slice (also short [loc] / short [size]) / Get1 / Set1
      - [wfc c], [wfarr h a k rd v] : in-box views of a row-major region [k, k + product rd) of the
                         storage (roots, slices, slices of slices, reshaped roots of either back-end,
                         slices of those ...); needed for Contiguous and MustReshape
      - abs_index, abs_index_enum, abs_root, abs_slice_into/abs_slice/slice_wfarr, abs_contiguous,
        abs_reshape (both back-ends, read AND write law, persistent cell law), abs_index1/abs_get1,
      - the template's own views (state row, output row, two-level input row) and concrete examples.

    Where (A) and (B) differ (B is total, A panics) is recorded in the [*_differs] examples. *)
From Coq Require Import ZArith List Bool Lia Arith.
From OW Require Import Arrays.IntOps Arrays.View Arrays.Ops Arrays.IndexProofs Arrays.AffineProofs
  Arrays.ContigProofs Arrays.HelperProofs Arrays.MemProofs Arrays.CopyProofs Arrays.BulkProofs
  Arrays.WrapperViews Arrays.WrapperViewsC.
From OW Require Wrapper.Spec Wrapper.Run Wrapper.Views.
Import ListNotations.
Local Open Scope Z_scope.

Module B := OW.Wrapper.Run.

(* ------------------------------------------------------------------ *)
(** * 0. nat / Z bridge *)

Definition nn (l : list Z) : Prop := Forall (fun x => 0 <= x) l.

Lemma nn_cons x l : nn (x :: l) <-> 0 <= x /\ nn l.
Proof. unfold nn. split; [intros H; inversion H; auto|intros [H1 H2]; constructor; auto]. Qed.

Lemma map_to_of_nat (l : list nat) : map Z.to_nat (map Z.of_nat l) = l.
Proof. induction l as [|x l IH]; cbn [map]; [reflexivity|]. rewrite IH, Nat2Z.id. reflexivity. Qed.

Lemma map_of_to_nat (l : list Z) : nn l -> map Z.of_nat (map Z.to_nat l) = l.
Proof. induction 1 as [|x l Hx F IH]; cbn [map]; [reflexivity|]. rewrite IH, Z2Nat.id by exact Hx. reflexivity. Qed.

Lemma nn_of_nat (l : list nat) : nn (map Z.of_nat l).
Proof. induction l; cbn [map]; constructor; [lia|assumption]. Qed.

(** B's dot product (total, truncating) is A's [dotz] on non-negative vectors *)
Lemma dot_nat (i w : list Z) : nn i -> nn w ->
  Z.of_nat (B.dot (map Z.to_nat i) (map Z.to_nat w)) = dotz i w.
Proof.
  intros Hi; revert w. induction Hi as [|x i Hx Fi IH]; intros w Hw; [reflexivity|].
  destruct Hw as [|y w Hy Fw]; [reflexivity|]. cbn [map B.dot dotz].
  rewrite Nat2Z.inj_add, Nat2Z.inj_mul, !Z2Nat.id by assumption. rewrite (IH w Fw). reflexivity.
Qed.

Lemma dotz_nn (i w : list Z) : nn i -> nn w -> 0 <= dotz i w.
Proof.
  intros Hi; revert w. induction Hi as [|x i Hx Fi IH]; intros w Hw; [cbn; lia|].
  destruct Hw as [|y w Hy Fw]; [cbn; lia|]. cbn [dotz]. specialize (IH w Fw). nia.
Qed.

Lemma vmul_nn (a b : list Z) : nn a -> nn b -> nn (vmul a b).
Proof.
  intros Ha; revert b. induction Ha as [|x a Hx Fa IH]; intros b Hb; [constructor|].
  destruct Hb as [|y b Hy Fb]; [constructor|]. unfold vmul in *; cbn [zipw]. constructor; [nia|apply IH; exact Fb].
Qed.

Lemma vmul_nat (a b : list Z) : nn a -> nn b ->
  map Z.to_nat (vmul a b) = B.vmul (map Z.to_nat a) (map Z.to_nat b).
Proof.
  intros Ha; revert b. induction Ha as [|x a Hx Fa IH]; intros b Hb; [reflexivity|].
  destruct Hb as [|y b Hy Fb]; [reflexivity|]. unfold vmul in *; cbn [zipw map B.vmul].
  rewrite (IH b Fb), Z2Nat.inj_mul by assumption. reflexivity.
Qed.

Lemma product_nn ds : nn ds -> 0 <= product ds.
Proof. induction 1 as [|d ds Hd F IH]; [cbn; lia|]. rewrite product_cons. nia. Qed.

Lemma lprod_nat ds : nn ds -> Spec.lprod (map Z.to_nat ds) = Z.to_nat (product ds).
Proof.
  induction 1 as [|d ds Hd F IH]; [reflexivity|]. cbn [map Spec.lprod].
  rewrite product_cons, IH, Z2Nat.inj_mul by (auto using product_nn). reflexivity.
Qed.

Lemma offsets_from_nn ds : nn ds -> nn (offsets_from ds).
Proof. induction 1 as [|d ds Hd F IH]; cbn [offsets_from]; constructor; [apply product_nn; exact F|exact IH]. Qed.

Lemma strides_nat ds : nn ds -> B.strides (map Z.to_nat ds) = map Z.to_nat (offsets_from ds).
Proof.
  induction 1 as [|d ds Hd F IH]; [reflexivity|]. cbn [map B.strides offsets_from].
  rewrite IH, (lprod_nat ds F). reflexivity.
Qed.

Lemma flat_map_map {X Y Z0} (g : X -> Y) (f : Y -> list Z0) l : flat_map f (map g l) = flat_map (fun a => f (g a)) l.
Proof. induction l as [|a l IH]; cbn [map flat_map]; [reflexivity|]. rewrite IH. reflexivity. Qed.

(** A's row-major enumeration [enum] is B's [indices] (for ANY extents, negative ones are empty) *)
Lemma enum_indices ds : enum ds = map (map Z.of_nat) (B.indices (map Z.to_nat ds)).
Proof.
  induction ds as [|d ds IH]; [reflexivity|]. cbn [enum map B.indices].
  rewrite flat_map_map, Views.map_flat_map. apply Views.flat_map_ext_in. intros a _.
  rewrite IH, !map_map. reflexivity.
Qed.

Lemma valid_in_indices ds i : valid_idx ds i -> In (map Z.to_nat i) (B.indices (map Z.to_nat ds)).
Proof.
  induction 1 as [|d ds x i Hx V IH]; [left; reflexivity|]. cbn [map B.indices].
  apply in_flat_map. exists (Z.to_nat x). split; [apply in_seq; lia|]. apply in_map. exact IH.
Qed.

Lemma indices_valid ds : forall ix, In ix (B.indices (map Z.to_nat ds)) -> valid_idx ds (map Z.of_nat ix).
Proof.
  induction ds as [|d ds IH]; intros ix H; cbn [map B.indices] in H.
  - destruct H as [<-|[]]. constructor.
  - apply in_flat_map in H. destruct H as (a & Ha & H). apply in_map_iff in H. destruct H as (ix' & <- & H).
    apply in_seq in Ha. cbn [map]. constructor; [lia|]. apply IH. exact H.
Qed.

Lemma valid_idx_nn ds i : valid_idx ds i -> nn i.
Proof. induction 1 as [|d ds x i Hx V IH]; constructor; [lia|exact IH]. Qed.

Lemma dot_some_dotz l r k : dot l r = Some k -> k = dotz l r /\ (length l <= length r)%nat.
Proof.
  intros H. destruct (Nat.le_gt_cases (length l) (length r)) as [L|L].
  - rewrite (dot_dotz l r L) in H. inversion H. split; [reflexivity|exact L].
  - rewrite (dot_none l r L) in H. discriminate.
Qed.

Lemma vmul_firstn a s : vmul a (firstn (length a) s) = vmul a s.
Proof.
  revert s; induction a as [|x a IH]; intros [|y s]; cbn [length firstn]; try reflexivity.
  unfold vmul in *; cbn [zipw]. rewrite IH. reflexivity.
Qed.

(* ------------------------------------------------------------------ *)
(** * 1. The abstraction and the algebraic well-formedness *)

Definition abs_view (c : common) : B.wview :=
  B.Build_wview (Z.to_nat (start c)) (map Z.to_nat (offstep c)) (map Z.to_nat (dims c)).

(** everything the abstraction reads is non-negative, OffsetStep = Step * Offset with equal ranks
    (the invariant of SliceInto), and Dims is not longer than the rank *)
Definition wfa (c : common) : Prop :=
  0 <= start c /\ nn (step c) /\ nn (offset c) /\ wf_common c /\ (length (dims c) <= length (offset c))%nat.

Lemma wfa_offstep c : wfa c -> nn (offstep c) /\ length (offstep c) = length (offset c).
Proof.
  intros (S0 & Ns & No & (L & E) & Ld). rewrite E. split; [apply vmul_nn; assumption|rewrite vmul_length by exact L; exact L].
Qed.

(* ------------------------------------------------------------------ *)
(** * 2. Index *)

Theorem abs_index_gen c i : wfa c -> nn i -> (length i <= length (offstep c))%nat ->
  index c i = Some (Z.of_nat (B.wstart (abs_view c) + B.dot (map Z.to_nat i) (B.wstr (abs_view c)))).
Proof.
  intros W Ni Li. destruct (wfa_offstep c W) as [No _]. destruct W as (S0 & _).
  unfold index. rewrite (dot_dotz i (offstep c) Li). cbn [option_map abs_view B.wstart B.wstr]. f_equal.
  rewrite Nat2Z.inj_add, (dot_nat i (offstep c) Ni No), Z2Nat.id by exact S0. reflexivity.
Qed.

Theorem abs_index c i : wfa c -> valid_idx (dims c) i ->
  index c i = Some (Z.of_nat (B.wstart (abs_view c) + B.dot (map Z.to_nat i) (B.wstr (abs_view c)))).
Proof.
  intros W Vi. apply abs_index_gen; [exact W|exact (valid_idx_nn _ _ Vi)|].
  destruct (wfa_offstep c W) as [_ Lo]. destruct W as (_ & _ & _ & _ & Ld).
  rewrite (valid_idx_length _ _ Vi), Lo. exact Ld.
Qed.

(** all elements at once: A's addresses in row-major order ARE B's [voffsets] *)
Theorem abs_index_enum c : wfa c ->
  map (index c) (enum (dims c)) = map (fun o => Some (Z.of_nat o)) (B.voffsets (abs_view c)).
Proof.
  intros W. rewrite enum_indices. unfold B.voffsets. rewrite !map_map. cbn [abs_view B.wdims].
  apply map_ext_in. intros ix Hix.
  pose proof (Views.indices_length _ _ Hix) as Lix. rewrite map_length in Lix.
  destruct (wfa_offstep c W) as [_ Lo]. pose proof W as (_ & _ & _ & _ & Ld).
  rewrite (abs_index_gen c (map Z.of_nat ix) W (nn_of_nat ix)) by (rewrite map_length; lia).
  rewrite map_to_of_nat. reflexivity.
Qed.

(** the observable [elems] (row-major element list by Get) reads exactly the cells [voffsets] *)
Lemma gets_map {V} (h : @heap V) a locs :
  gets h a locs = B.sequence (map (get h a) locs).
Proof.
  induction locs as [|l r IH]; [reflexivity|]. cbn [gets map B.sequence].
  destruct (get h a l) as [x|]; [|reflexivity]. rewrite IH. destruct (B.sequence _); reflexivity.
Qed.

Theorem abs_elems {V} (h : @heap V) a : wfa (cm a) ->
  elems h a = B.sequence (map (fun o => impl_read h (im a) (Z.of_nat o)) (B.voffsets (abs_view (cm a)))).
Proof.
  intros W. unfold elems, shape. rewrite gets_map. f_equal.
  pose proof (abs_index_enum (cm a) W) as E.
  transitivity (map (fun oi : option Z => match oi with Some i => impl_read h (im a) i | None => None end)
                    (map (index (cm a)) (enum (dims (cm a))))).
  - rewrite map_map. reflexivity.
  - rewrite E, map_map. reflexivity.
Qed.

(** read / write law, relative to the array's storage, no bounds hypothesis needed *)
Theorem abs_get_set {V} (h : @heap V) a i : wfa (cm a) -> valid_idx (dims (cm a)) i ->
  let o := Z.of_nat (B.wstart (abs_view (cm a)) + B.dot (map Z.to_nat i) (B.wstr (abs_view (cm a)))) in
  get h a i = impl_read h (im a) o /\ forall x, set h a i x = impl_write h (im a) o x.
Proof. intros W Vi. cbv zeta. unfold get, set. rewrite (abs_index (cm a) i W Vi). split; reflexivity. Qed.

(* ------------------------------------------------------------------ *)
(** * 3. Roots *)

Theorem abs_root ds c : root_common ds = Some c -> nn ds ->
  abs_view c = B.whole (map Z.to_nat ds) /\ wfa c.
Proof.
  intros H N. assert (Ne : ds <> []) by (intro; subst; discriminate).
  rewrite (root_common_spec ds Ne) in H. inversion H; subst; clear H. split.
  - unfold abs_view, B.whole. cbn [start offstep dims]. rewrite (strides_nat ds N). reflexivity.
  - unfold wfa, wf_common. cbn [start step offset dims offstep].
    split; [lia|]. split; [unfold uniform; clear; induction (length ds); cbn; constructor; [lia|assumption]|].
    split; [apply offsets_from_nn; exact N|]. split.
    + split; [rewrite uniform_length, offsets_from_length; reflexivity|].
      symmetry. apply vmul_ones_l. apply offsets_from_length.
    + rewrite offsets_from_length. lia.
Qed.

Corollary abs_new_root {V} (h : @heap V) ds vals h' a :
  (new_go h ds vals = Some (h', a) \/ new_c h ds vals = Some (h', a)) -> nn ds ->
  abs_view (cm a) = B.whole (map Z.to_nat ds) /\ wfa (cm a).
Proof.
  intros [H|H] N; unfold new_go, new_c in H; destruct (root_common ds) as [c|] eqn:R; try discriminate;
    inversion H; subst; cbn [cm]; exact (abs_root ds c R N).
Qed.

(* ------------------------------------------------------------------ *)
(** * 4. Slice (algebraic level: any non-negative arguments that A accepts, including a
      [loc] and a [size] shorter than the rank, as the table-parameter slices of the template) *)

Theorem abs_slice_into c loc d st c' :
  wfa c -> slice_into c loc d st = Some c' ->
  nn loc -> (forall s, st = Some s -> nn s) -> (length d <= length (offset c))%nat ->
  abs_view c' = B.vslice (abs_view c) (map Z.to_nat loc) (map Z.to_nat d) (option_map (map Z.to_nat) st) /\
  wfa c' /\ offset c' = offset c /\ odims c' = odims c.
Proof.
  intros W H Nl Ns Ld. destruct (wfa_offstep c W) as [Nos Los].
  destruct W as (S0 & Nst & Nof & (L & E) & _).
  unfold slice_into in H. destruct (dot loc (offstep c)) as [k|] eqn:Dk; [|discriminate].
  destruct (dot_some_dotz _ _ _ Dk) as [-> Ll].
  pose proof (dot_nat loc (offstep c) Nl Nos) as Dn. pose proof (dotz_nn loc (offstep c) Nl Nos) as D0.
  assert (St : Z.to_nat (start c + dotz loc (offstep c)) =
               (Z.to_nat (start c) + B.dot (map Z.to_nat loc) (map Z.to_nat (offstep c)))%nat) by lia.
  destruct st as [s|].
  - specialize (Ns s eq_refl). destruct (multiply (step c) s) as [stp|] eqn:M1; [|discriminate].
    apply multiply_some in M1 as [L1 ->]. rewrite vmul_firstn in H.
    assert (Lv : length (vmul (step c) s) = length (step c)).
    { rewrite <- (vmul_firstn (step c) s). apply vmul_length. rewrite firstn_length. lia. }
    rewrite multiply_vmul in H by lia. inversion H; subst c'; clear H.
    unfold abs_view, B.vslice. cbn [start offstep dims offset odims step B.wstart B.wstr B.wdims option_map].
    split; [|split; [|split; reflexivity]].
    + rewrite St. f_equal. rewrite E, <- (vmul_nat (vmul (step c) (offset c)) s) by (auto using vmul_nn).
      f_equal. rewrite !vmul_assoc, (vmul_comm s (offset c)). reflexivity.
    + unfold wfa, wf_common. cbn [start step offset dims offstep].
      split; [lia|]. split; [apply vmul_nn; assumption|]. split; [exact Nof|]. split; [split; [lia|reflexivity]|exact Ld].
  - rewrite multiply_vmul in H by exact L. inversion H; subst c'; clear H.
    unfold abs_view, B.vslice. cbn [start offstep dims offset odims step B.wstart B.wstr B.wdims option_map].
    split; [|split; [|split; reflexivity]].
    + rewrite St, <- E. reflexivity.
    + unfold wfa, wf_common. cbn [start step offset dims offstep].
      split; [lia|]. split; [exact Nst|]. split; [exact Nof|]. split; [split; [exact L|reflexivity]|exact Ld].
Qed.

Theorem abs_slice a loc d st sl :
  wfa (cm a) -> slice a loc d st = Some sl ->
  nn loc -> (forall s, st = Some s -> nn s) -> (length d <= length (offset (cm a)))%nat ->
  im sl = im a /\
  abs_view (cm sl) = B.vslice (abs_view (cm a)) (map Z.to_nat loc) (map Z.to_nat d) (option_map (map Z.to_nat) st) /\
  wfa (cm sl).
Proof.
  intros W H Nl Ns Ld. unfold slice in H. destruct (slice_into (cm a) loc d st) as [c'|] eqn:S; [|discriminate].
  inversion H; subst sl; clear H. cbn [cm im].
  destruct (abs_slice_into _ _ _ _ _ W S Nl Ns Ld) as (A1 & A2 & _). auto.
Qed.

(** consequence: every element of the slice is read / written at B's flat offset of the PARENT's storage *)
Corollary abs_slice_get_set {V} (h : @heap V) a loc d st sl i :
  wfa (cm a) -> slice a loc d st = Some sl ->
  nn loc -> (forall s, st = Some s -> nn s) -> (length d <= length (offset (cm a)))%nat ->
  valid_idx d i ->
  let w := B.vslice (abs_view (cm a)) (map Z.to_nat loc) (map Z.to_nat d) (option_map (map Z.to_nat) st) in
  let o := Z.of_nat (B.wstart w + B.dot (map Z.to_nat i) (B.wstr w)) in
  get h sl i = impl_read h (im a) o /\ forall x, set h sl i x = impl_write h (im a) o x.
Proof.
  intros W H Nl Ns Ld Vi. cbv zeta.
  destruct (abs_slice a loc d st sl W H Nl Ns Ld) as (Im & Av & Wsl).
  assert (Ds : dims (cm sl) = d).
  { unfold slice, slice_into in H. destruct (dot loc (offstep (cm a))); [|discriminate].
    destruct (match st with Some s => multiply (step (cm a)) s | None => Some (step (cm a)) end); [|discriminate].
    destruct (multiply _ (offset (cm a))); [|discriminate]. inversion H; reflexivity. }
  rewrite <- Ds in Vi. destruct (abs_get_set h sl i Wsl Vi) as [G S]. rewrite Av, Im in G, S. split; assumption.
Qed.

(* ------------------------------------------------------------------ *)
(** * 4b. In-box views of a row-major region *)

(** the record [c] moved by [k] cells: what MustReshape of a C-backed view creates is
    [shift (start) (root)], and SliceInto commutes with it *)
Definition shift (k : Z) (c : common) : common :=
  mkCommon (odims c) (dims c) (k + start c) (offset c) (step c) (offstep c).

Lemma index_shift k c i : index (shift k c) i = option_map (Z.add k) (index c i).
Proof. unfold index, shift; cbn [start offstep]. destruct (dot i (offstep c)); cbn [option_map]; [f_equal; lia|reflexivity]. Qed.

Lemma contiguous_shift k c : contiguous (shift k c) = contiguous c.
Proof. reflexivity. Qed.

Lemma slice_into_shift k c loc d st : slice_into (shift k c) loc d st = option_map (shift k) (slice_into c loc d st).
Proof.
  unfold slice_into, shift; cbn [start offstep step offset odims].
  destruct (dot loc (offstep c)); [|reflexivity].
  destruct (match st with Some s => multiply (step c) s | None => Some (step c) end); [|reflexivity].
  destruct (multiply _ (offset c)); [|reflexivity]. cbn [option_map dims odims start offset step offstep]. do 2 f_equal. lia.
Qed.

Lemma off_root_shift s st : off_root s st = shift st (conc s (idview s)).
Proof.
  unfold off_root, shift, conc, idview; cbn [odims dims start offset step offstep adims abase astride].
  rewrite ravel_zero, uniform_ones, vmul_ones_map by (rewrite offsets_from_length; reflexivity).
  rewrite Z.add_0_r. reflexivity.
Qed.

(** an in-box view [v] of a row-major block of shape [rd] that starts [k] cells into the storage *)
Definition wfc (c : common) : Prop :=
  exists k rd v, 0 <= k /\ c = shift k (conc rd v) /\ in_box rd v /\ steps_pos v.

Lemma axes_ok_nn rd b s d : axes_ok rd b s d -> nn rd /\ nn b /\ nn s /\ nn d.
Proof.
  induction 1 as [|r rd b bs s ss d ds Hd Hb Hs Hr H (I1 & I2 & I3 & I4)]; [repeat split; constructor|].
  repeat split; constructor; auto; nia.
Qed.

Lemma ravel_nn ds i : nn ds -> nn i -> 0 <= ravel ds i.
Proof.
  intros Hd; revert i. induction Hd as [|d ds Hd F IH]; intros i Hi; [destruct i; cbn; lia|].
  destruct Hi as [|x i Hx Fi]; [cbn; lia|]. cbn [ravel]. specialize (IH i Fi). pose proof (product_nn ds F). nia.
Qed.

Lemma wfc_wfa c : wfc c -> wfa c.
Proof.
  intros (k & rd & v & K0 & -> & Bx & _). pose proof (in_box_rank _ _ Bx) as (Lb & Ls & Ld).
  destruct (axes_ok_nn _ _ _ _ Bx) as (Nr & Nb & Nst & Nd).
  unfold wfa, shift, conc. cbn [start step offset dims offstep odims].
  split; [pose proof (ravel_nn rd (abase v) Nr Nb); lia|]. split; [exact Nst|]. split; [apply offsets_from_nn; exact Nr|].
  split; [split; cbn [step offset offstep]; [rewrite offsets_from_length; exact Ls|reflexivity]|].
  rewrite offsets_from_length. lia.
Qed.

Section Arr.
  Context {V : Type}.
  Notation heap := (@heap V).

  (** storage: the region [k, k + n) lies inside the Go slice (len <= cap inside the buffer) resp.
      inside the C buffer *)
  Definition store_ok (h : heap) (m : impl) (k n : Z) : Prop :=
    match m with
    | GoImpl g => exists l, nth_error h (gbuf g) = Some l /\ 0 <= k /\ k + n <= glen g /\ glen g <= gcap g /\
                            0 <= gbase g /\ gbase g + gcap g <= Z.of_nat (length l)
    | CImpl b => exists l, nth_error h b = Some l /\ 0 <= k /\ k + n <= Z.of_nat (length l)
    end.

  Definition wfarr (h : heap) (a : arr) (k : Z) (rd : list Z) (v : aview) : Prop :=
    cm a = shift k (conc rd v) /\ in_box rd v /\ steps_pos v /\ store_ok h (im a) k (product rd).

  Lemma wfarr_wfc h a k rd v : wfarr h a k rd v -> wfc (cm a).
  Proof.
    intros (E & Bx & SP & S). exists k, rd, v. repeat split; auto. destruct (im a); destruct S as (l & _ & K0 & _); exact K0.
  Qed.

  Lemma wfarr_wfa h a k rd v : wfarr h a k rd v -> wfa (cm a).
  Proof. intros W. exact (wfc_wfa _ (wfarr_wfc _ _ _ _ _ W)). Qed.

  (** the earlier well-formedness notions are instances *)
  Lemma wf_arr_wfarr h a rd v : wf_arr h a rd v -> steps_pos v -> wfarr h a 0 rd v.
  Proof.
    intros (E & Bx & S) SP. split; [rewrite E; unfold shift; destruct (conc rd v); reflexivity|].
    split; [exact Bx|]. split; [exact SP|].
    destruct (axes_ok_nn _ _ _ _ Bx) as (Nr & _). pose proof (product_nn rd Nr) as P.
    destruct (im a) as [g|b]; cbn [storage_ok store_ok] in *.
    - destruct S as (l & El & Lg & Cg & B0 & B1). exists l. repeat split; auto; lia.
    - destruct S as (l & El & Ll). exists l. repeat split; auto; lia.
  Qed.

  Lemma idview_steps_pos s : steps_pos (idview s).
  Proof. unfold steps_pos, idview; cbn [astride adims]. induction s; cbn [map]; constructor; auto; lia. Qed.

  Lemma new_root_wfarr (h : heap) ds vals h' a :
    (new_go h ds vals = Some (h', a) \/ new_c h ds vals = Some (h', a)) ->
    Forall (fun d => 0 < d) ds -> Z.of_nat (length vals) = product ds ->
    wfarr h' a 0 ds (idview ds).
  Proof.
    intros H P L.
    assert (St : nth_error (h ++ [vals]) (length h) = Some vals).
    { rewrite nth_error_app2, Nat.sub_diag by lia. reflexivity. }
    destruct H as [H|H]; unfold new_go, new_c in H; destruct (root_common ds) as [c|] eqn:R; try discriminate;
      inversion H; subst; clear H; (split; [cbn [cm]; rewrite (root_is_off_root ds c R); apply off_root_shift|]);
      (split; [apply idview_in_box; exact P|]); (split; [apply idview_steps_pos|]); cbn [im store_ok gbuf glen gcap gbase];
      exists vals; repeat split; auto; lia.
  Qed.

  (** the step vector SliceInto uses for [step = nil] *)
  Lemma wfarr_step_or_ones_none h a k rd v : wfarr h a k rd v ->
    step_or_ones (cm a) None = uniform (length rd) 1.
  Proof.
    intros (E & Bx & _). pose proof (in_box_rank _ _ Bx) as (_ & Ls & _). rewrite E. cbn [step_or_ones shift step conc].
    rewrite Ls. reflexivity.
  Qed.

  (** ** Slice with in-bounds arguments keeps the view in the box (step None or Some) *)
  Theorem slice_wfarr h a k rd v loc d st :
    wfarr h a k rd v ->
    slice_args_ok (adims v) loc d (step_or_ones (cm a) st) ->
    Forall2 (fun sk dk => 1 < dk -> 1 <= sk) (step_or_ones (cm a) st) d ->
    exists sl, slice a loc d st = Some sl /\ im sl = im a /\
      wfarr h sl k rd (aslice v loc d (step_or_ones (cm a) st)).
  Proof.
    intros (E & Bx & SP & S) A F. pose proof (in_box_rank _ _ Bx) as R. pose proof R as (Lb & Ls & Ld).
    destruct (slice_args_ok_lengths _ _ _ _ A) as (Ll & Ldd & Lst). rewrite Ld in Ll, Ldd, Lst.
    assert (SO : step_or_ones (cm a) st = step_or_ones (conc rd v) st) by (rewrite E; reflexivity).
    rewrite SO in *.
    unfold slice. rewrite E, slice_into_shift.
    rewrite (slice_into_refines rd v loc d st R Ll).
    2:{ intros s0 Es. subst st. cbn [step_or_ones] in Lst. exact Lst. }
    cbn [option_map]. eexists; split; [reflexivity|]. cbn [im cm]. split; [reflexivity|].
    split; [reflexivity|]. split; [apply aslice_in_box; assumption|]. split; [|exact S].
    apply aslice_steps_pos; assumption.
  Qed.

  (** the address of every element of an in-box view lies in the region *)
  Lemma wfarr_index h a k rd v i : wfarr h a k rd v -> valid_idx (adims v) i ->
    exists o, index (cm a) i = Some o /\ k <= o < k + product rd.
  Proof.
    intros (E & Bx & SP & S) Vi. destruct (conc_index rd v i Bx Vi) as [I R].
    rewrite E, index_shift, I. cbn [option_map]. eexists; split; [reflexivity|lia].
  Qed.

  Lemma store_access_ok (h : heap) m k n o : store_ok h m k n -> k <= o < k + n ->
    (exists x, impl_read h m o = Some x) /\ (forall x, exists h', impl_write h m o x = Some h').
  Proof.
    intros S A. destruct m as [g|b]; cbn [store_ok impl_read impl_write] in *.
    - destruct S as (l & E & K0 & K1 & Cg & B0 & B1). unfold gread, gwrite, hread, hwrite. rewrite E.
      destruct (Z.leb_spec 0 o); [|lia]. destruct (Z.ltb_spec o (glen g)); [|lia]. cbn [andb]. split.
      + apply znth_some. lia.
      + intros x. destruct (zset_some l (gbase g + o) x ltac:(lia)) as [l' ->].
        apply set_nth_some. apply nth_error_Some. congruence.
    - destruct S as (l & E & K0 & K1). unfold hread, hwrite. rewrite E. split.
      + apply znth_some. lia.
      + intros x. destruct (zset_some l o x ltac:(lia)) as [l' ->].
        apply set_nth_some. apply nth_error_Some. congruence.
  Qed.

  (** totality: in-bounds reads and writes through a well-formed array never fail *)
  Theorem wfarr_total h a k rd v i : wfarr h a k rd v -> valid_idx (adims v) i ->
    (exists x, get h a i = Some x) /\ (forall x, exists h', set h a i x = Some h').
  Proof.
    intros W Vi. destruct (wfarr_index h a k rd v i W Vi) as (o & I & Bo). destruct W as (_ & _ & _ & S).
    unfold get, set. rewrite I. exact (store_access_ok h (im a) k (product rd) o S Bo).
  Qed.
End Arr.

(* ------------------------------------------------------------------ *)
(** * 5. Contiguous *)

(** B's "the offsets are consecutive", pointwise: it does not depend on the start *)
Lemma contiguous_pointwise (w : B.wview) :
  B.contiguous w = true <->
  forall ix, In ix (B.indices (B.wdims w)) -> B.dot ix (B.wstr w) = B.dot ix (B.strides (B.wdims w)).
Proof.
  rewrite Views.contiguous_iff. unfold B.voffsets. rewrite <- (Views.ravel_offsets (B.wdims w) (B.wstart w)). split.
  - intros H ix Hix. pose proof (ext_in_map H ix Hix) as E. cbv beta in E. lia.
  - intros H. apply map_ext_in. intros ix Hix. rewrite (H ix Hix). reflexivity.
Qed.

Lemma contiguous_start_irrelevant s1 s2 str ds :
  B.contiguous (B.Build_wview s1 str ds) = B.contiguous (B.Build_wview s2 str ds).
Proof.
  pose proof (contiguous_pointwise (B.Build_wview s1 str ds)) as P1.
  pose proof (contiguous_pointwise (B.Build_wview s2 str ds)) as P2.
  cbn [B.wdims B.wstr] in P1, P2.
  destruct (B.contiguous (B.Build_wview s1 str ds)); destruct (B.contiguous (B.Build_wview s2 str ds)); try reflexivity.
  - symmetry. apply P2. apply P1. reflexivity.
  - apply P1. apply P2. reflexivity.
Qed.

(** A's structural test (Contiguous()) computes B's definition *)
Theorem abs_contiguous c : wfc c -> contiguous c = Some (B.contiguous (abs_view c)).
Proof.
  intros (k & rd & v & K0 & -> & Bx & SP).
  destruct (contiguous_iff_adjacent rd v Bx SP) as (b & Cb & Iff). rewrite contiguous_shift, Cb. f_equal.
  pose proof (in_box_rank _ _ Bx) as (Lb & Ls & Ld).
  destruct (axes_ok_nn _ _ _ _ Bx) as (Nr & Nb & Nst & Nd).
  assert (Nos : nn (vmul (astride v) (offsets_from rd))) by (apply vmul_nn; [exact Nst|apply offsets_from_nn; exact Nr]).
  (* the address of a valid index *)
  assert (IdxEq : forall i, valid_idx (adims v) i ->
            index (conc rd v) i = Some (start (conc rd v) + dotz i (vmul (astride v) (offsets_from rd)))).
  { intros i Vi. unfold index, conc; cbn [start offstep].
    rewrite dot_dotz; [reflexivity|]. rewrite vmul_length by (rewrite offsets_from_length; lia).
    rewrite (valid_idx_length _ _ Vi). lia. }
  (* both sides in nat *)
  assert (Key : forall i, valid_idx (adims v) i ->
            (dotz i (vmul (astride v) (offsets_from rd)) = ravel (adims v) i <->
             B.dot (map Z.to_nat i) (map Z.to_nat (vmul (astride v) (offsets_from rd))) =
             B.dot (map Z.to_nat i) (B.strides (map Z.to_nat (adims v))))).
  { intros i Vi. pose proof (valid_idx_nn _ _ Vi) as Ni.
    rewrite (strides_nat _ Nd).
    rewrite <- (dot_nat i _ Ni Nos), <- (dotz_offsets (adims v) i (valid_idx_length _ _ Vi)).
    rewrite <- (dot_nat i (offsets_from (adims v)) Ni (offsets_from_nn _ Nd)). lia. }
  destruct b.
  - symmetry. apply contiguous_pointwise. cbn [abs_view shift conc B.wdims B.wstr dims offstep].
    intros ix Hix. pose proof (indices_valid _ _ Hix) as Vi.
    pose proof (proj1 Iff eq_refl _ Vi) as A. rewrite (IdxEq _ Vi) in A.
    assert (A' : dotz (map Z.of_nat ix) (vmul (astride v) (offsets_from rd)) = ravel (adims v) (map Z.of_nat ix))
      by (inversion A; lia).
    apply (Key _ Vi) in A'. rewrite map_to_of_nat in A'. exact A'.
  - destruct (B.contiguous _) eqn:Cw; [|reflexivity]. exfalso.
    pose proof (proj1 (contiguous_pointwise _) Cw) as Cw'. clear Cw. rename Cw' into Cw.
    cbn [abs_view shift conc B.wdims B.wstr dims offstep] in Cw.
    assert (T : false = true); [|discriminate]. apply Iff. intros i Vi.
    rewrite (IdxEq i Vi). do 2 f_equal. apply (Key i Vi). apply Cw. apply valid_in_indices. exact Vi.
Qed.

Corollary abs_contiguous_arr {V} (h : @heap V) a k rd v : wfarr h a k rd v ->
  contiguous (cm a) = Some (B.contiguous (abs_view (cm a))).
Proof. intros W. apply abs_contiguous. exact (wfarr_wfc _ _ _ _ _ W). Qed.

(* ------------------------------------------------------------------ *)
(** * 6. MustReshape of a contiguous view: no copy, same cells, both back-ends *)
Section Reshape.
  Context {V : Type}.
  Notation heap := (@heap V).

  (** the heap buffer behind an array and the offset of its storage index 0 in that buffer *)
  Definition ibuf (m : impl) : nat := match m with GoImpl g => gbuf g | CImpl b => b end.
  Definition ibase (m : impl) : Z := match m with GoImpl g => gbase g | CImpl _ => 0 end.

  Lemma cell_of_ib m o : cell_of m o = (ibuf m, ibase m + o).
  Proof. destruct m; reflexivity. Qed.

  (** the ABSOLUTE abstraction: the view in cells of the heap buffer [ibuf (im a)].  For a C-backed
      array and for a Go-backed root it coincides with [abs_view (cm a)]; for the Go-backed result of
      a reshape (a fresh root over a re-sliced Go slice) it adds the base of that re-slice. *)
  Definition abs_arr (a : arr) : B.wview :=
    B.Build_wview (Z.to_nat (ibase (im a) + start (cm a))) (map Z.to_nat (offstep (cm a))) (map Z.to_nat (dims (cm a))).

  Lemma abs_arr_base0 a : ibase (im a) = 0 -> abs_arr a = abs_view (cm a).
  Proof. intros H. unfold abs_arr, abs_view. rewrite H. reflexivity. Qed.

  Lemma gread_in (h : heap) g i : 0 <= i < glen g -> gread h g i = hread h (gbuf g) (gbase g + i).
  Proof. intros H. unfold gread. destruct (Z.leb_spec 0 i); [|lia]. destruct (Z.ltb_spec i (glen g)); [|lia]. reflexivity. Qed.
  Lemma gwrite_in (h : heap) g i x : 0 <= i < glen g -> gwrite h g i x = hwrite h (gbuf g) (gbase g + i) x.
  Proof. intros H. unfold gwrite. destruct (Z.leb_spec 0 i); [|lia]. destruct (Z.ltb_spec i (glen g)); [|lia]. reflexivity. Qed.

  Lemma decrement_valid ds : Forall (fun d => 0 < d) ds -> valid_idx ds (decrement ds) /\ ravel ds (decrement ds) = product ds - 1.
  Proof.
    unfold decrement. induction 1 as [|d ds Hd F [IH1 IH2]]; [split; [constructor|reflexivity]|]. cbn [map ravel]. split.
    - constructor; [lia|exact IH1].
    - rewrite IH2, product_cons. lia.
  Qed.

  (** a contiguous in-box view occupies [start, start + size) inside its region, in row-major order *)
  Lemma contig_span (h : heap) a k rd v : wfarr h a k rd v -> contiguous (cm a) = Some true ->
    (forall i, valid_idx (adims v) i -> index (cm a) i = Some (start (cm a) + ravel (adims v) i)) /\
    k <= start (cm a) /\ start (cm a) + product (adims v) <= k + product rd /\ 0 < product (adims v).
  Proof.
    intros W C. pose proof W as (E & Bx & SP & S).
    destruct (contiguous_iff_adjacent rd v Bx SP) as (b & Cb & Iff).
    rewrite E, contiguous_shift, Cb in C. inversion C; subst b. pose proof (proj1 Iff eq_refl) as Adj. clear Iff Cb C.
    pose proof (in_box_dims_pos _ _ Bx) as P. pose proof (product_pos_all _ P) as PP.
    assert (A1 : forall i, valid_idx (adims v) i -> index (cm a) i = Some (start (cm a) + ravel (adims v) i)).
    { intros i Vi. rewrite E, index_shift, (Adj i Vi). cbn [option_map shift start]. f_equal. lia. }
    split; [exact A1|].
    destruct (decrement_valid _ P) as [Vl Rl].
    assert (V0 : valid_idx (adims v) (map (fun _ => 0) (adims v))).
    { apply valid_zero. eapply Forall_impl; [|exact P]. cbn; intros; lia. }
    destruct (wfarr_index h a k rd v _ W Vl) as (o1 & I1 & B1). rewrite (A1 _ Vl), Rl in I1.
    destruct (wfarr_index h a k rd v _ W V0) as (o0 & I0 & B0). rewrite (A1 _ V0), ravel_zero in I0.
    inversion I1; subst o1. inversion I0; subst o0. lia.
  Qed.

  Theorem reshape_wfarr (h : heap) a k rd v s :
    wfarr h a k rd v -> contiguous (cm a) = Some true -> adims v <> [] ->
    Forall (fun d => 0 < d) s -> s <> [] -> product s = product (adims v) ->
    exists r, must_reshape h a s = Some (h, r) /\
      cm r = off_root s (start (cm r)) /\
      ibuf (im r) = ibuf (im a) /\
      ibase (im r) + start (cm r) = ibase (im a) + start (cm a) /\
      (forall b, im a = CImpl b -> im r = CImpl b /\ start (cm r) = start (cm a)) /\
      (forall g, im a = GoImpl g -> start (cm r) = 0 /\
         im r = GoImpl (mkG (gbuf g) (gbase g + start (cm a)) (product s) (gcap g - start (cm a)))) /\
      wfarr h r (start (cm r)) s (idview s) /\
      (* the alias is a fact about ADDRESSES: it holds in every heap, i.e. also after later writes *)
      (forall (h' : heap) o, 0 <= o < product s ->
         impl_read h' (im r) (start (cm r) + o) = impl_read h' (im a) (start (cm a) + o) /\
         forall x, impl_write h' (im r) (start (cm r) + o) x = impl_write h' (im a) (start (cm a) + o) x).
  Proof.
    intros W C Nd Ps Ns Eq. destruct (contig_span h a k rd v W C) as (Adj & K1 & K2 & PP).
    pose proof W as (E & Bx & SP & S). destruct a as [c m]. cbn [cm im] in *.
    pose proof (in_box_dims_pos _ _ Bx) as P.
    assert (Sh : dims c = adims v) by (rewrite E; reflexivity).
    assert (Rts : exists rts, reshape_to_series (mkArr c m) s = Some rts).
    { unfold reshape_to_series, shape. cbn [cm]. rewrite Sh. destruct (Nat.eqb (length s) 1); [|eauto].
      destruct (adims v) as [|d0 dr]; [congruence|]. cbn. eauto. }
    destruct Rts as [rts Rts].
    destruct (decrement_valid _ P) as [Vl Rl]. pose proof (Adj _ Vl) as Il. rewrite Rl in Il.
    destruct m as [g|b].
    - destruct S as (l & El & K0 & Kn & Cg & B0 & B1).
      unfold must_reshape, reshape. cbn [im cm]. unfold shape. cbn [cm]. rewrite Sh.
      destruct (Z.eqb_spec (product s) (product (adims v))) as [_|N]; [|contradiction]. cbn [negb].
      rewrite Rts, C. cbn [orb]. unfold unroll. cbn [im cm]. rewrite C. unfold shape. cbn [cm]. rewrite Sh, Il.
      unfold gsub.
      destruct (Z.leb_spec 0 (start c)); [|lia].
      destruct (Z.leb_spec (start c) (start c + (product (adims v) - 1) + 1)); [|lia].
      destruct (Z.leb_spec (start c + (product (adims v) - 1) + 1) (gcap g)); [|lia].
      cbn [andb]. rewrite (fresh_root_off s _ 0 Ns).
      replace (start c + (product (adims v) - 1) + 1 - start c) with (product s) by lia.
      eexists; split; [reflexivity|]. cbn [cm im].
      split; [reflexivity|]. split; [reflexivity|]. split; [cbn; lia|].
      split; [intros b0 Hb; discriminate|].
      split; [intros g0 Hg; inversion Hg; subst g0; split; reflexivity|].
      split.
      + split; [cbn [cm]; apply off_root_shift|]. split; [apply idview_in_box; exact Ps|]. split; [apply idview_steps_pos|].
        cbn [im store_ok gbuf gbase glen gcap off_root start]. exists l. repeat split; auto; lia.
      + intros h' o Ho. cbn [impl_read impl_write off_root start].
        rewrite (gread_in h' (mkG _ _ _ _)) by (cbn [glen]; lia). rewrite (gread_in h' g) by lia.
        cbn [gbuf gbase]. split; [f_equal; lia|]. intros x.
        rewrite (gwrite_in h' (mkG _ _ _ _)) by (cbn [glen]; lia). rewrite (gwrite_in h' g) by lia.
        cbn [gbuf gbase]. f_equal. lia.
    - destruct S as (l & El & K0 & Kn).
      unfold must_reshape, reshape. cbn [im cm]. unfold shape. cbn [cm]. rewrite Sh.
      destruct (Z.eqb_spec (product s) (product (adims v))) as [_|N]; [|contradiction]. cbn [negb].
      rewrite C, Rts, (fresh_root_off s _ (start c) Ns).
      eexists; split; [reflexivity|]. cbn [cm im].
      split; [reflexivity|]. split; [reflexivity|]. split; [reflexivity|].
      split; [intros b0 Hb; inversion Hb; subst b0; split; reflexivity|].
      split; [intros g0 Hg; discriminate|].
      split.
      + split; [cbn [cm]; apply off_root_shift|]. split; [apply idview_in_box; exact Ps|]. split; [apply idview_steps_pos|].
        cbn [im store_ok off_root start]. exists l. repeat split; auto; lia.
      + intros h' o Ho. cbn [off_root start]. split; [reflexivity|]. intros x; reflexivity.
  Qed.

  (** element law of an offset root: index i is storage index start + rank(i) *)
  Lemma off_root_get_set (h' : heap) r s i : cm r = off_root s (start (cm r)) -> valid_idx s i ->
    get h' r i = impl_read h' (im r) (start (cm r) + ravel s i) /\
    forall x, set h' r i x = impl_write h' (im r) (start (cm r) + ravel s i) x.
  Proof.
    intros E Vi. unfold get, set. rewrite E, (off_root_index s _ i (valid_idx_length _ _ Vi)).
    cbn [off_root start]. split; [reflexivity|]. intros x; reflexivity.
  Qed.

  (** ** the refinement theorem for MustReshape *)
  Theorem abs_reshape (h : heap) a k rd v s w :
    wfarr h a k rd v -> adims v <> [] -> Forall (fun d => 0 < d) s -> s <> [] ->
    B.reshape (abs_view (cm a)) (map Z.to_nat s) = Some w ->
    exists r,
      must_reshape h a s = Some (h, r) /\                       (* no panic, NO COPY: the heap is unchanged *)
      ibuf (im r) = ibuf (im a) /\                              (* same heap buffer *)
      wfarr h r (start (cm r)) s (idview s) /\                  (* again well-formed: the chain continues *)
      B.reshape (abs_arr a) (map Z.to_nat s) = Some (abs_arr r) /\   (* B's reshape, in absolute cells *)
      (forall b, im a = CImpl b -> im r = im a /\ abs_view (cm r) = w) /\
      (forall g, im a = GoImpl g ->
         abs_view (cm r) = B.Build_wview 0 (B.wstr w) (B.wdims w) /\
         im r = GoImpl (mkG (gbuf g) (gbase g + Z.of_nat (B.wstart w)) (product s) (gcap g - Z.of_nat (B.wstart w)))) /\
      (* element i (row-major rank k) of the result IS the cell at flat offset [nth k (voffsets w)]
         of the storage of [a], for reads and writes, now and in every later heap *)
      (forall i, valid_idx s i ->
         let o := Z.of_nat (nth (Z.to_nat (ravel s i)) (B.voffsets w) 0%nat) in
         forall h' : heap,
           get h' r i = impl_read h' (im a) o /\ (forall x, set h' r i x = impl_write h' (im a) o x)).
  Proof.
    intros W Nd Ps Ns R. pose proof W as (E & Bx & SP & S).
    pose proof (wfarr_wfa _ _ _ _ _ W) as (S0 & _).
    destruct (axes_ok_nn _ _ _ _ Bx) as (_ & _ & _ & Ndm).
    assert (Nsn : nn s) by (eapply Forall_impl; [|exact Ps]; cbn; intros; lia).
    assert (Dm : dims (cm a) = adims v) by (rewrite E; reflexivity).
    unfold B.reshape in R.
    destruct (Nat.eqb _ _ && B.contiguous (abs_view (cm a))) eqn:Cond; [|discriminate].
    apply andb_true_iff in Cond as [Lp Cw]. apply Nat.eqb_eq in Lp.
    cbn [abs_view B.wdims] in Lp. rewrite Dm, (lprod_nat s Nsn), (lprod_nat _ Ndm) in Lp.
    pose proof (product_pos_all _ Ps) as PPs. pose proof (product_pos_all _ (in_box_dims_pos _ _ Bx)) as PPd.
    assert (Eq : product s = product (adims v)) by lia.
    assert (C : contiguous (cm a) = Some true) by (rewrite (abs_contiguous_arr h a k rd v W), Cw; reflexivity).
    inversion R; subst w; clear R.
    destruct (reshape_wfarr h a k rd v s W C Nd Ps Ns Eq) as (r & MR & Cr & Ib & Iba & ImC & ImG & Wr & Cells).
    exists r. split; [exact MR|]. split; [exact Ib|]. split; [exact Wr|].
    assert (Avr : forall st0, B.Build_wview st0 (map Z.to_nat (offstep (cm r))) (map Z.to_nat (dims (cm r))) =
                   B.Build_wview st0 (B.strides (map Z.to_nat s)) (map Z.to_nat s)).
    { intros st0. rewrite Cr. cbn [off_root offstep dims]. rewrite (strides_nat s Nsn). reflexivity. }
    split; [|split; [|split]].
    - assert (HA : abs_arr r = B.Build_wview (Z.to_nat (ibase (im a) + start (cm a))) (B.strides (map Z.to_nat s)) (map Z.to_nat s)).
      { unfold abs_arr. rewrite Avr, Iba. reflexivity. }
      assert (HC : B.contiguous (abs_arr a) = true).
      { unfold abs_arr. rewrite (contiguous_start_irrelevant _ (Z.to_nat (start (cm a)))). exact Cw. }
      assert (HL : Spec.lprod (map Z.to_nat s) = Spec.lprod (B.wdims (abs_arr a))).
      { cbn [abs_arr B.wdims]. rewrite Dm, (lprod_nat s Nsn), (lprod_nat _ Ndm), Eq. reflexivity. }
      unfold B.reshape. rewrite <- HL, Nat.eqb_refl, HC, HA. reflexivity.
    - intros b Hb. destruct (ImC b Hb) as [I1 I2]. split; [congruence|].
      unfold abs_view. rewrite Avr, I2. reflexivity.
    - intros g Hg. destruct (ImG g Hg) as [I1 I2]. unfold abs_view. cbn [B.wstr B.wdims B.wstart]. split.
      + rewrite Avr, I1. reflexivity.
      + rewrite I2, Z2Nat.id by exact S0. reflexivity.
    - intros i Vi. cbv zeta. intros h'.
      pose proof (ravel_bounds _ _ Vi) as Rb.
      rewrite Views.voffsets_block, seq_nth by (rewrite (lprod_nat s Nsn); lia).
      cbn [abs_view B.wstart].
      replace (Z.of_nat (Z.to_nat (start (cm a)) + Z.to_nat (ravel s i))) with (start (cm a) + ravel s i) by lia.
      destruct (off_root_get_set h' r s i Cr Vi) as [G St]. destruct (Cells h' (ravel s i) Rb) as [C1 C2].
      split; [rewrite G; exact C1|]. intros x. rewrite St. apply C2.
  Qed.

  (** the same, in the "given both results" form *)
  Corollary abs_reshape_inv (h : heap) a k rd v s w h1 r :
    wfarr h a k rd v -> adims v <> [] -> Forall (fun d => 0 < d) s -> s <> [] ->
    B.reshape (abs_view (cm a)) (map Z.to_nat s) = Some w ->
    must_reshape h a s = Some (h1, r) ->
    h1 = h /\ ibuf (im r) = ibuf (im a) /\ wfarr h r (start (cm r)) s (idview s) /\
    B.reshape (abs_arr a) (map Z.to_nat s) = Some (abs_arr r) /\
    (forall i, valid_idx s i ->
       let o := Z.of_nat (nth (Z.to_nat (ravel s i)) (B.voffsets w) 0%nat) in
       forall h' : heap, get h' r i = impl_read h' (im a) o /\ (forall x, set h' r i x = impl_write h' (im a) o x)).
  Proof.
    intros W Nd Ps Ns R MR. destruct (abs_reshape h a k rd v s w W Nd Ps Ns R) as (r' & MR' & A1 & A2 & A3 & _ & _ & A4).
    rewrite MR in MR'. inversion MR'; subst. auto.
  Qed.

  (** conversely, B refuses ([None]) exactly when A reports the view non-contiguous or the sizes differ
      (A then returns a detached copy resp. an error, which the template never relies on) *)
  Theorem abs_reshape_none (h : heap) a k rd v s :
    wfarr h a k rd v -> Forall (fun d => 0 < d) s ->
    (B.reshape (abs_view (cm a)) (map Z.to_nat s) = None <->
     contiguous (cm a) = Some false \/ product s <> product (dims (cm a))).
  Proof.
    intros W Ps. pose proof W as (E & Bx & SP & S).
    destruct (axes_ok_nn _ _ _ _ Bx) as (_ & _ & _ & Ndm).
    assert (Nsn : nn s) by (eapply Forall_impl; [|exact Ps]; cbn; intros; lia).
    assert (Dm : dims (cm a) = adims v) by (rewrite E; reflexivity).
    pose proof (product_pos_all _ Ps) as PPs. pose proof (product_pos_all _ (in_box_dims_pos _ _ Bx)) as PPd.
    assert (HL : Spec.lprod (B.wdims (abs_view (cm a))) = Z.to_nat (product (adims v))).
    { unfold abs_view. cbn [B.wdims]. rewrite Dm. apply lprod_nat. exact Ndm. }
    rewrite (abs_contiguous_arr h a k rd v W), Dm. unfold B.reshape. rewrite HL, (lprod_nat s Nsn).
    destruct (Nat.eqb_spec (Z.to_nat (product s)) (Z.to_nat (product (adims v)))) as [Ep|Np];
      destruct (B.contiguous (abs_view (cm a))); cbn [andb]; split; intros H; try discriminate; try reflexivity.
    - destruct H as [H|H]; [discriminate|lia].
    - left; reflexivity.
    - right; lia.
    - right; lia.
  Qed.
End Reshape.

(* ------------------------------------------------------------------ *)
(** * 7. Get1 / Set1 *)

Lemma first_wide_nat ds loc : 0 <= loc ->
  first_wide ds loc = map Z.of_nat (B.index1_go (map Z.to_nat ds) (Z.to_nat loc)).
Proof.
  intros Hl. induction ds as [|d r IH]; [reflexivity|]. cbn [first_wide map B.index1_go].
  destruct (Z.ltb_spec 1 d) as [H|H]; destruct (Nat.ltb_spec 1 (Z.to_nat d)) as [H'|H']; try lia; cbn [map].
  - rewrite Z2Nat.id by exact Hl. f_equal. rewrite !map_map. apply map_ext. reflexivity.
  - rewrite IH. reflexivity.
Qed.

Lemma index1_go_length ds n : length (B.index1_go ds n) = length ds.
Proof. induction ds as [|d r IH]; [reflexivity|]. cbn [B.index1_go]. destruct (Nat.ltb 1 d); cbn [length]; [rewrite map_length; reflexivity|rewrite IH; reflexivity]. Qed.

Lemma index1_length w n : length (B.index1 w n) = length (B.wdims w).
Proof. unfold B.index1. destruct (B.wdims w) as [|d1 [|d2 r]]; try reflexivity. apply index1_go_length. Qed.

(** the multi-index Get1/Set1 use: A's [index1] is B's [index1] *)
Theorem abs_index1 a loc : 0 <= loc ->
  index1 a loc = map Z.of_nat (B.index1 (abs_view (cm a)) (Z.to_nat loc)).
Proof.
  intros Hl. unfold index1, B.index1, ndims, shape, abs_view. cbn [B.wdims].
  destruct (dims (cm a)) as [|d1 [|d2 r]]; cbn [length Nat.eqb map].
  - reflexivity.
  - rewrite Z2Nat.id by exact Hl. reflexivity.
  - exact (first_wide_nat (d1 :: d2 :: r) loc Hl).
Qed.

(** hence Get1 reads and Set1 writes B's [get1_off] *)
Theorem abs_get1 {V} (h : @heap V) a loc : wfa (cm a) -> 0 <= loc ->
  let o := Z.of_nat (B.get1_off (abs_view (cm a)) (Z.to_nat loc)) in
  get1 h a loc = impl_read h (im a) o /\ forall x, set1 h a loc x = impl_write h (im a) o x.
Proof.
  intros W Hl. cbv zeta. unfold get1, set1, get, set, B.get1_off. rewrite (abs_index1 a loc Hl).
  destruct (wfa_offstep _ W) as [_ Lo]. pose proof W as (_ & _ & _ & _ & Ld).
  rewrite (abs_index_gen (cm a) _ W (nn_of_nat _)).
  2:{ rewrite map_length, index1_length. unfold abs_view. cbn [B.wdims]. rewrite map_length. lia. }
  rewrite map_to_of_nat. split; [reflexivity|]. intros x; reflexivity.
Qed.

(* ------------------------------------------------------------------ *)
(** * 7b. The simulation in absolute cells ([abs_arr]): one statement for both back-ends *)

Lemma nth_error_flat_map_blocks {X Y} (f : X -> list Y) P : forall l a j x,
  (forall y, In y l -> length (f y) = P) -> nth_error l a = Some x -> (j < P)%nat ->
  nth_error (flat_map f l) (a * P + j) = nth_error (f x) j.
Proof.
  induction l as [|y l IH]; intros a j x HP Ha Hj; [destruct a; discriminate|].
  cbn [flat_map]. destruct a as [|a].
  - cbn in Ha. inversion Ha; subst y. rewrite nth_error_app1; [reflexivity|]. rewrite (HP x (or_introl eq_refl)). lia.
  - cbn in Ha. rewrite nth_error_app2 by (rewrite (HP y (or_introl eq_refl)); lia).
    rewrite (HP y (or_introl eq_refl)). replace (S a * P + j - P)%nat with (a * P + j)%nat by lia.
    apply IH; auto. intros y0 Hy0. apply HP. right; exact Hy0.
Qed.

Lemma indices_total_length ds : length (B.indices ds) = Spec.lprod ds.
Proof.
  pose proof (Views.ravel_offsets ds 0) as H. apply (f_equal (@length nat)) in H.
  rewrite map_length, seq_length in H. exact H.
Qed.

(** the row-major rank of a valid index is its position in B's enumeration *)
Lemma indices_nth ds i : valid_idx ds i ->
  nth_error (B.indices (map Z.to_nat ds)) (Z.to_nat (ravel ds i)) = Some (map Z.to_nat i).
Proof.
  induction 1 as [|d ds x i Hx Vi IH]; [reflexivity|]. cbn [map B.indices ravel].
  pose proof (ravel_bounds _ _ Vi) as Rb. pose proof (valid_idx_nn _ _ Vi) as Ni.
  assert (Nd : nn ds). { clear -Vi. induction Vi; constructor; auto; lia. }
  pose proof (product_nn ds Nd) as Pp.
  replace (Z.to_nat (x * product ds + ravel ds i))
    with (Z.to_nat x * Spec.lprod (map Z.to_nat ds) + Z.to_nat (ravel ds i))%nat
    by (rewrite (lprod_nat ds Nd); nia).
  rewrite (nth_error_flat_map_blocks _ (Spec.lprod (map Z.to_nat ds)) _ _ _ (Z.to_nat x)).
  - rewrite nth_error_map, IH. reflexivity.
  - intros y _. rewrite map_length. apply indices_total_length.
  - rewrite nth_error_nth' with (d := 0%nat) by (rewrite seq_length; lia). rewrite seq_nth by lia. reflexivity.
  - rewrite (lprod_nat ds Nd). lia.
Qed.

(** item 2, pointwise form: the k-th entry of [voffsets], k the row-major rank of i, is i's address *)
Theorem abs_index_rank c i : wfa c -> valid_idx (dims c) i ->
  option_map (fun o => Some (Z.of_nat o)) (nth_error (B.voffsets (abs_view c)) (Z.to_nat (ravel (dims c) i)))
  = Some (index c i).
Proof.
  intros W Vi. unfold B.voffsets. rewrite nth_error_map. unfold abs_view at 3. cbn [B.wdims].
  rewrite (indices_nth _ _ Vi). cbn [option_map]. rewrite (abs_index c i W Vi). reflexivity.
Qed.

Section Abs.
  Context {V : Type}.
  Notation heap := (@heap V).

  Lemma wfarr_base_nn (h : heap) a k rd v : wfarr h a k rd v -> 0 <= ibase (im a).
  Proof. intros (_ & _ & _ & S). destruct (im a) as [g|b]; cbn [ibase store_ok] in *; [|lia]. destruct S as (l & _ & _ & _ & _ & B0 & _). exact B0. Qed.

  (** absolute read / write law: element i of a well-formed array is cell
      [wstart + i . wstr] of the heap buffer [ibuf], in every heap *)
  Theorem abs_arr_get_set (h : heap) a k rd v i : wfarr h a k rd v -> valid_idx (adims v) i ->
    let o := Z.of_nat (B.wstart (abs_arr a) + B.dot (map Z.to_nat i) (B.wstr (abs_arr a))) in
    forall h' : heap,
      get h' a i = hread h' (ibuf (im a)) o /\ forall x, set h' a i x = hwrite h' (ibuf (im a)) o x.
  Proof.
    intros W Vi. cbv zeta. intros h'.
    destruct (wfarr_index h a k rd v i W Vi) as (o & I & Bo).
    pose proof (wfarr_wfa _ _ _ _ _ W) as Wa. pose proof (wfarr_base_nn _ _ _ _ _ W) as Bn.
    pose proof W as (E & Bx & SP & S).
    assert (Dm : dims (cm a) = adims v) by (rewrite E; reflexivity).
    pose proof (abs_index (cm a) i Wa ltac:(rewrite Dm; exact Vi)) as I'. rewrite I in I'. inversion I' as [Eo]. clear I'.
    cbn [abs_view B.wstart B.wstr] in Eo. destruct Wa as (S0 & _).
    assert (Ea : Z.of_nat (B.wstart (abs_arr a) + B.dot (map Z.to_nat i) (B.wstr (abs_arr a))) = ibase (im a) + o).
    { unfold abs_arr. cbn [B.wstart B.wstr]. lia. }
    rewrite Ea. unfold get, set. rewrite I.
    destruct (im a) as [g|b]; cbn [impl_read impl_write ibuf ibase store_ok] in *.
    - destruct S as (l & El & K0 & Kn & _). rewrite (gread_in h' g o) by lia. split; [reflexivity|].
      intros x. rewrite (gwrite_in h' g o x) by lia. reflexivity.
    - rewrite Z.add_0_l. split; [reflexivity|]. intros x; reflexivity.
  Qed.

  (** ... i.e. the [rank i]-th entry of [voffsets (abs_arr a)] *)
  Corollary abs_arr_get_set_rank (h : heap) a k rd v i : wfarr h a k rd v -> valid_idx (adims v) i ->
    let o := Z.of_nat (nth (Z.to_nat (ravel (adims v) i)) (B.voffsets (abs_arr a)) 0%nat) in
    forall h' : heap,
      get h' a i = hread h' (ibuf (im a)) o /\ forall x, set h' a i x = hwrite h' (ibuf (im a)) o x.
  Proof.
    intros W Vi. cbv zeta.
    assert (Dm : dims (cm a) = adims v) by (destruct W as (E & _); rewrite E; reflexivity).
    assert (N : nth (Z.to_nat (ravel (adims v) i)) (B.voffsets (abs_arr a)) 0%nat =
                (B.wstart (abs_arr a) + B.dot (map Z.to_nat i) (B.wstr (abs_arr a)))%nat).
    { apply nth_error_nth. unfold B.voffsets. rewrite nth_error_map.
      change (B.wdims (abs_arr a)) with (map Z.to_nat (dims (cm a))).
      rewrite Dm, (indices_nth _ _ Vi). reflexivity. }
    rewrite N. exact (abs_arr_get_set h a k rd v i W Vi).
  Qed.

  (** roots built by the constructors sit at base 0: absolute = relative *)
  Lemma new_root_abs_arr (h : heap) ds vals h' a :
    (new_go h ds vals = Some (h', a) \/ new_c h ds vals = Some (h', a)) -> nn ds ->
    ibase (im a) = 0 /\ abs_arr a = B.whole (map Z.to_nat ds).
  Proof.
    intros H N. destruct (abs_new_root h ds vals h' a H N) as [Av _].
    assert (B0 : ibase (im a) = 0).
    { destruct H as [H|H]; unfold new_go, new_c in H; destruct (root_common ds); try discriminate; inversion H; reflexivity. }
    split; [exact B0|]. rewrite (abs_arr_base0 a B0). exact Av.
  Qed.

  (** Slice, in absolute cells *)
  Theorem abs_arr_slice (h : heap) a k rd v loc d st :
    wfarr h a k rd v ->
    slice_args_ok (adims v) loc d (step_or_ones (cm a) st) ->
    Forall2 (fun sk dk => 1 < dk -> 1 <= sk) (step_or_ones (cm a) st) d ->
    exists sl, slice a loc d st = Some sl /\ im sl = im a /\
      wfarr h sl k rd (aslice v loc d (step_or_ones (cm a) st)) /\
      abs_view (cm sl) = B.vslice (abs_view (cm a)) (map Z.to_nat loc) (map Z.to_nat d) (option_map (map Z.to_nat) st) /\
      abs_arr sl = B.vslice (abs_arr a) (map Z.to_nat loc) (map Z.to_nat d) (option_map (map Z.to_nat) st).
  Proof.
    intros W A F. destruct (slice_wfarr h a k rd v loc d st W A F) as (sl & Sl & Im & Wsl).
    exists sl. split; [exact Sl|]. split; [exact Im|]. split; [exact Wsl|].
    pose proof (wfarr_wfa _ _ _ _ _ W) as Wa. pose proof (wfarr_wfa _ _ _ _ _ Wsl) as Wsa.
    pose proof (wfarr_base_nn _ _ _ _ _ W) as Bn.
    pose proof W as (E & Bx & _). pose proof (in_box_rank _ _ Bx) as (_ & _ & Ldv).
    destruct (slice_args_ok_lengths _ _ _ _ A) as (Ll & Ldd & Lst).
    assert (Nl : nn loc /\ nn (step_or_ones (cm a) st)).
    { clear -A. induction A as [|pd pds l ls dk ds s ss Hd Hl Hs Hr A [I1 I2]]; [split; constructor|]. split; constructor; auto. }
    destruct Nl as [Nl Nst].
    assert (Lo : length (offset (cm a)) = length rd) by (rewrite E; cbn; apply offsets_from_length).
    destruct (abs_slice a loc d st sl Wa Sl Nl) as (_ & Av & _).
    { intros s0 Es. subst st. exact Nst. }
    { rewrite Lo. lia. }
    split; [exact Av|].
    unfold abs_view, B.vslice in Av. cbn [B.wstart B.wstr B.wdims] in Av. inversion Av as [[Hs Hst Hd]].
    unfold abs_arr, B.vslice. cbn [B.wstart B.wstr B.wdims]. rewrite Im, Hst, Hd.
    destruct Wa as (S0 & _). destruct Wsa as (S1 & _). f_equal. lia.
  Qed.
End Abs.

(* ------------------------------------------------------------------ *)
(** * 8. Slice + MustReshape refines vslice + reshape; the views of the template *)

Lemma reshape_start_irrelevant s1 s2 str ds ns w :
  B.reshape (B.Build_wview s1 str ds) ns = Some w ->
  B.reshape (B.Build_wview s2 str ds) ns = Some (B.Build_wview s2 (B.wstr w) (B.wdims w)).
Proof.
  unfold B.reshape. cbn [B.wdims B.wstart]. rewrite (contiguous_start_irrelevant s1 s2).
  destruct (_ && _); [|discriminate]. intros H; inversion H; subst; reflexivity.
Qed.

Lemma sequence_nth {X} (l : list (option X)) : forall ws k w,
  B.sequence l = Some ws -> nth_error ws k = Some w -> nth_error l k = Some (Some w).
Proof.
  induction l as [|o l IH]; intros ws k w H N; cbn [B.sequence] in H.
  - inversion H; subst. destruct k; discriminate.
  - destruct o as [x|]; [|discriminate]. destruct (B.sequence l) as [xs|] eqn:E; [|discriminate].
    inversion H; subst ws. destruct k as [|k]; cbn in N |- *; [inversion N; reflexivity|]. exact (IH xs k w eq_refl N).
Qed.

Lemma nth_error_seq0 n k k' : nth_error (seq 0 n) k = Some k' -> k' = k /\ (k < n)%nat.
Proof.
  intros H. assert (L : (k < n)%nat) by (rewrite <- (seq_length n 0); apply nth_error_Some; congruence).
  apply (nth_error_nth _ _ 0%nat) in H. rewrite seq_nth in H by exact L. split; [lia|exact L].
Qed.

Lemma sequence_map_seq_nth {X} (f : nat -> option X) n ws k w :
  B.sequence (map f (seq 0 n)) = Some ws -> nth_error ws k = Some w -> f k = Some w /\ (k < n)%nat.
Proof.
  intros H N. pose proof (sequence_nth _ _ _ _ H N) as E. rewrite nth_error_map in E.
  destruct (nth_error (seq 0 n) k) as [k'|] eqn:Ek; [|discriminate]. destruct (nth_error_seq0 _ _ _ Ek) as [-> L].
  cbn in E. inversion E as [E']. split; [reflexivity|exact L].
Qed.

Section Chain.
  Context {V : Type}.
  Notation heap := (@heap V).

  (** ** the combined law, absolute cells, either back-end, step None or Some: if B can build the
      view [reshape (vslice ..)] then A builds it too, without copying, and the two coincide *)
  Theorem slice_reshape_refines (h : heap) a k rd v loc d st s w :
    wfarr h a k rd v ->
    slice_args_ok (adims v) loc d (step_or_ones (cm a) st) ->
    Forall2 (fun sk dk => 1 < dk -> 1 <= sk) (step_or_ones (cm a) st) d ->
    d <> [] -> Forall (fun x => 0 < x) s -> s <> [] ->
    B.reshape (B.vslice (abs_arr a) (map Z.to_nat loc) (map Z.to_nat d) (option_map (map Z.to_nat) st))
              (map Z.to_nat s) = Some w ->
    exists sl r, slice a loc d st = Some sl /\ must_reshape h sl s = Some (h, r) /\
      ibuf (im r) = ibuf (im a) /\ wfarr h r (start (cm r)) s (idview s) /\ abs_arr r = w.
  Proof.
    intros W A F Nd Ps Ns R.
    destruct (abs_arr_slice h a k rd v loc d st W A F) as (sl & Sl & Im & Wsl & Av & Aa).
    rewrite <- Aa in R.
    assert (R' : B.reshape (abs_view (cm sl)) (map Z.to_nat s) =
                 Some (B.Build_wview (Z.to_nat (start (cm sl))) (B.wstr w) (B.wdims w))).
    { unfold abs_arr in R. unfold abs_view. exact (reshape_start_irrelevant _ _ _ _ _ _ R). }
    destruct (abs_reshape h sl k rd _ s _ Wsl ltac:(cbn [aslice adims]; exact Nd) Ps Ns R') as (r & MR & Ib & Wr & Ra & _).
    exists sl, r. split; [exact Sl|]. split; [exact MR|]. split; [rewrite Ib, Im; reflexivity|]. split; [exact Wr|].
    rewrite R in Ra. inversion Ra; reflexivity.
  Qed.

  Lemma root_abs_arr (h : heap) a ds : wfarr h a 0 ds (idview ds) -> ibase (im a) = 0 ->
    abs_arr a = B.whole (map Z.to_nat ds).
  Proof.
    intros (E & Bx & _) B0. rewrite (abs_arr_base0 a B0), E, <- off_root_shift.
    pose proof (in_box_dims_pos _ _ Bx) as P. cbn [idview adims] in P.
    assert (N : nn ds) by (eapply Forall_impl; [|exact P]; cbn; intros; lia).
    unfold abs_view, B.whole, off_root. cbn [start offstep dims]. rewrite (strides_nat ds N). reflexivity.
  Qed.

  (** flat offset [o] of a base-0 array's storage, as a heap cell *)
  Lemma root_cell (h h' : heap) a k rd v o : wfarr h a k rd v -> ibase (im a) = 0 -> k <= o < k + product rd ->
    hread h' (ibuf (im a)) o = impl_read h' (im a) o /\
    forall x, hwrite h' (ibuf (im a)) o x = impl_write h' (im a) o x.
  Proof.
    intros (_ & _ & _ & S) B0 Ho. destruct (im a) as [g|b]; cbn [ibuf ibase impl_read impl_write store_ok] in *.
    - destruct S as (l & _ & K0 & Kn & _). rewrite (gread_in h' g o) by lia. rewrite B0, Z.add_0_l.
      split; [reflexivity|]. intros x. rewrite (gwrite_in h' g o x) by lia. rewrite B0, Z.add_0_l. reflexivity.
    - split; [reflexivity|intros; reflexivity].
  Qed.

  (** a 1-D view [st, st+n) built (by any chain) over the storage of a base-0 array [root]:
      Get/Set/Get1/Set1 at t address flat offset st + t of the root's storage, in every heap *)
  Lemma row_cells (h : heap) root k0 rd0 v0 r kr n st :
    wfarr h root k0 rd0 v0 -> ibase (im root) = 0 ->
    wfarr h r kr [Z.of_nat n] (idview [Z.of_nat n]) ->
    abs_arr r = B.Build_wview st [1%nat] [n] -> ibuf (im r) = ibuf (im root) ->
    k0 <= Z.of_nat st -> Z.of_nat st + Z.of_nat n <= k0 + product rd0 ->
    forall t, (t < n)%nat -> forall h' : heap,
      get h' r [Z.of_nat t] = impl_read h' (im root) (Z.of_nat (st + t)) /\
      (forall x, set h' r [Z.of_nat t] x = impl_write h' (im root) (Z.of_nat (st + t)) x) /\
      get1 h' r (Z.of_nat t) = get h' r [Z.of_nat t] /\
      (forall x, set1 h' r (Z.of_nat t) x = set h' r [Z.of_nat t] x).
  Proof.
    intros Wroot B0 Wr Ar Ib K0 Kn t Ht h'.
    assert (Vt : valid_idx (adims (idview [Z.of_nat n])) [Z.of_nat t]) by (cbn [idview adims]; repeat constructor; lia).
    destruct (abs_arr_get_set h r kr _ _ [Z.of_nat t] Wr Vt h') as [G S].
    rewrite Ar in G, S. cbn [B.wstart B.wstr map B.dot] in G, S. rewrite Nat2Z.id in G, S.
    replace (st + (t * 1 + 0))%nat with (st + t)%nat in G, S by lia. rewrite Ib in G, S.
    destruct (root_cell h h' root k0 rd0 v0 (Z.of_nat (st + t)) Wroot B0 ltac:(lia)) as [C1 C2].
    split; [rewrite G; exact C1|]. split; [intros x; rewrite S; apply C2|].
    assert (I1 : index1 r (Z.of_nat t) = [Z.of_nat t]).
    { destruct Wr as (E & _). unfold index1, ndims. rewrite E. reflexivity. }
    unfold get1, set1. rewrite I1. split; [reflexivity|intros; reflexivity].
  Qed.
End Chain.

Lemma row_bound (a b c i k : nat) : (i < a)%nat -> (k < b)%nat -> ((i * b + k) * c + c <= a * b * c)%nat.
Proof.
  intros Hi Hk. assert (H1 : (i * b + k + 1 <= a * b)%nat) by nia.
  pose proof (Nat.mul_le_mono_r _ _ c H1) as H2. lia.
Qed.

(** ** the template's views (pre/ow-specgen/generated_struct.got, [Run.state_view], [Run.output_views],
    [Run.input_views]) over roots of the shapes [Views.mk_shapes] *)
Section Template.
  Context {V : Type}.
  Notation heap := (@heap V).
  Variable sp : Spec.spec.
  Variables nIn nI nT nN nS oN oK oT nP nSets : nat.
  Let sh := Views.mk_shapes nIn nI nT nN nS oN oK oT nP nSets.
  Local Notation zo := Z.of_nat.

  (** states.Slice({i,0},{1,S},nil).MustReshape({S}) *)
  Theorem template_state_row (h : heap) states i w :
    wfarr h states 0 [zo nN; zo nS] (idview [zo nN; zo nS]) -> ibase (im states) = 0 ->
    (i < nN)%nat -> (0 < nS)%nat ->
    B.state_view sh (B.prologue sh) i = Some w ->
    exists sl r, slice states [zo i; 0] [1; zo nS] None = Some sl /\
      must_reshape h sl [zo nS] = Some (h, r) /\
      ibuf (im r) = ibuf (im states) /\ wfarr h r (start (cm r)) [zo nS] (idview [zo nS]) /\
      abs_arr r = w /\
      forall j, (j < nS)%nat ->
        nth j (B.voffsets w) 0%nat = (i * nS + j)%nat /\ B.get1_off w j = (i * nS + j)%nat /\
        forall h' : heap,
          get h' r [zo j] = impl_read h' (im states) (zo (i * nS + j)) /\
          (forall x, set h' r [zo j] x = impl_write h' (im states) (zo (i * nS + j)) x) /\
          get1 h' r (zo j) = get h' r [zo j] /\
          (forall x, set1 h' r (zo j) x = set h' r [zo j] x).
  Proof.
    intros W B0 Hi HS SV.
    pose proof (root_abs_arr h states _ W B0) as Ar. cbn [map] in Ar. rewrite !Nat2Z.id in Ar.
    pose proof W as (E & _).
    assert (SO : step_or_ones (cm states) None = [1; 1]) by (rewrite E; reflexivity).
    assert (R : B.reshape (B.vslice (abs_arr states) (map Z.to_nat [zo i; 0]) (map Z.to_nat [1; zo nS])
                                    (option_map (map Z.to_nat) None)) (map Z.to_nat [zo nS]) = Some w).
    { rewrite Ar. cbn [map option_map]. rewrite !Nat2Z.id. exact SV. }
    destruct (slice_reshape_refines h states 0 _ _ [zo i; 0] [1; zo nS] None [zo nS] w W) as (sl & r & Sl & MR & Ib & Wr & Arr).
    { rewrite SO. cbn [idview adims]. repeat constructor; lia. }
    { rewrite SO. repeat constructor; lia. }
    { discriminate. } { repeat constructor; lia. } { discriminate. } { exact R. }
    exists sl, r. split; [exact Sl|]. split; [exact MR|]. split; [exact Ib|]. split; [exact Wr|]. split; [exact Arr|].
    unfold sh in SV. rewrite Views.state_view_eq in SV. injection SV as SV. rewrite <- SV in Arr |- *. clear SV.
    intros j Hj. split; [rewrite Views.voffsets_vec, seq_nth by lia; reflexivity|].
    split; [unfold B.get1_off, B.index1; cbn [B.wdims B.wstart B.wstr B.dot]; lia|].
    apply (row_cells h states 0 _ _ r (start (cm r)) nS (i * nS) W B0 Wr Arr Ib); [lia| |exact Hj].
    rewrite !product_cons, product_nil. nia.
  Qed.

  (** outputs.Slice({i,k,0},{1,1,T},{1,1,1}).MustReshape({T}) *)
  Theorem template_output_row (h : heap) outputs i k ws w :
    wfarr h outputs 0 [zo oN; zo oK; zo oT] (idview [zo oN; zo oK; zo oT]) -> ibase (im outputs) = 0 ->
    (i < oN)%nat -> (k < oK)%nat -> (0 < nT <= oT)%nat ->
    B.output_views sp sh (B.prologue sh) i = Some ws -> nth_error ws k = Some w ->
    exists sl r, slice outputs [zo i; zo k; 0] [1; 1; zo nT] (Some [1; 1; 1]) = Some sl /\
      must_reshape h sl [zo nT] = Some (h, r) /\
      ibuf (im r) = ibuf (im outputs) /\ wfarr h r (start (cm r)) [zo nT] (idview [zo nT]) /\
      abs_arr r = w /\
      forall t, (t < nT)%nat ->
        nth t (B.voffsets w) 0%nat = ((i * oK + k) * oT + t)%nat /\
        forall h' : heap,
          get h' r [zo t] = impl_read h' (im outputs) (zo ((i * oK + k) * oT + t)) /\
          (forall x, set h' r [zo t] x = impl_write h' (im outputs) (zo ((i * oK + k) * oT + t)) x) /\
          get1 h' r (zo t) = get h' r [zo t] /\
          (forall x, set1 h' r (zo t) x = set h' r [zo t] x).
  Proof.
    intros W B0 Hi Hk HT OV Nw.
    pose proof (root_abs_arr h outputs _ W B0) as Ar. cbn [map] in Ar. rewrite !Nat2Z.id in Ar.
    pose proof OV as OV0. unfold B.output_views in OV0.
    destruct (sequence_map_seq_nth _ _ _ _ _ OV0 Nw) as [Rk Lk]. clear OV0.
    assert (R : B.reshape (B.vslice (abs_arr outputs) (map Z.to_nat [zo i; zo k; 0]) (map Z.to_nat [1; 1; zo nT])
                                    (option_map (map Z.to_nat) (Some [1; 1; 1]))) (map Z.to_nat [zo nT]) = Some w).
    { rewrite Ar. cbn [map option_map]. rewrite !Nat2Z.id. exact Rk. }
    destruct (slice_reshape_refines h outputs 0 _ _ [zo i; zo k; 0] [1; 1; zo nT] (Some [1; 1; 1]) [zo nT] w W)
      as (sl & r & Sl & MR & Ib & Wr & Arr).
    { cbn [step_or_ones idview adims]. repeat constructor; lia. }
    { cbn [step_or_ones]. repeat constructor; lia. }
    { discriminate. } { repeat constructor; lia. } { discriminate. } { exact R. }
    exists sl, r. split; [exact Sl|]. split; [exact MR|]. split; [exact Ib|]. split; [exact Wr|]. split; [exact Arr|].
    unfold sh in OV. rewrite Views.output_views_eq in OV. inversion OV; subst ws. clear OV.
    rewrite nth_error_map in Nw. destruct (nth_error (seq 0 (Spec.n_out sp)) k) as [k'|] eqn:Ek; [|discriminate].
    destruct (nth_error_seq0 _ _ _ Ek) as [-> _]. cbn in Nw. injection Nw as Nw. rewrite <- Nw in Arr |- *. clear Nw.
    intros t Ht. split; [rewrite Views.voffsets_vec, seq_nth by lia; reflexivity|].
    apply (row_cells h outputs 0 _ _ r (start (cm r)) nT ((i * oK + k) * oT) W B0 Wr Arr Ib); [lia| |exact Ht].
    rewrite !product_cons, product_nil. pose proof (row_bound oN oK oT i k Hi Hk). nia.
  Qed.

  (** the two-level input view:
      inputs.Slice({ci,0,0},{1,nI,T},nil).MustReshape({nI,T}).Slice({k,0},{1,T},nil).MustReshape({T}) *)
  Theorem template_input_row (h : heap) inputs ci k ws w :
    wfarr h inputs 0 [zo nIn; zo nI; zo nT] (idview [zo nIn; zo nI; zo nT]) -> ibase (im inputs) = 0 ->
    (ci < nIn)%nat -> (k < nI)%nat -> (0 < nT)%nat ->
    B.input_views sp sh (B.prologue sh) ci = Some ws -> nth_error ws k = Some w ->
    exists sl1 r1 sl2 r2,
      slice inputs [zo ci; 0; 0] [1; zo nI; zo nT] None = Some sl1 /\
      must_reshape h sl1 [zo nI; zo nT] = Some (h, r1) /\
      slice r1 [zo k; 0] [1; zo nT] None = Some sl2 /\
      must_reshape h sl2 [zo nT] = Some (h, r2) /\
      ibuf (im r2) = ibuf (im inputs) /\ wfarr h r2 (start (cm r2)) [zo nT] (idview [zo nT]) /\
      abs_arr r2 = w /\
      forall t, (t < nT)%nat ->
        nth t (B.voffsets w) 0%nat = ((ci * nI + k) * nT + t)%nat /\
        forall h' : heap,
          get h' r2 [zo t] = impl_read h' (im inputs) (zo ((ci * nI + k) * nT + t)) /\
          (forall x, set h' r2 [zo t] x = impl_write h' (im inputs) (zo ((ci * nI + k) * nT + t)) x) /\
          get1 h' r2 (zo t) = get h' r2 [zo t] /\
          (forall x, set1 h' r2 (zo t) x = set h' r2 [zo t] x).
  Proof.
    intros W B0 Hci Hk HT IV Nw.
    pose proof (root_abs_arr h inputs _ W B0) as Ar. cbn [map] in Ar. rewrite !Nat2Z.id in Ar.
    pose proof W as (E & _).
    assert (SO : step_or_ones (cm inputs) None = [1; 1; 1]) by (rewrite E; reflexivity).
    pose proof IV as IV0. unfold B.input_views in IV0.
    destruct (B.reshape _ (B.cellInputsShape (B.prologue sh))) as [cI|] eqn:R1; [|discriminate].
    destruct (sequence_map_seq_nth _ _ _ _ _ IV0 Nw) as [Rk Lk]. clear IV0.
    (* level 1 *)
    assert (R1' : B.reshape (B.vslice (abs_arr inputs) (map Z.to_nat [zo ci; 0; 0]) (map Z.to_nat [1; zo nI; zo nT])
                                      (option_map (map Z.to_nat) None)) (map Z.to_nat [zo nI; zo nT]) = Some cI).
    { rewrite Ar. cbn [map option_map]. rewrite !Nat2Z.id. exact R1. }
    destruct (slice_reshape_refines h inputs 0 _ _ [zo ci; 0; 0] [1; zo nI; zo nT] None [zo nI; zo nT] cI W)
      as (sl1 & r1 & Sl1 & MR1 & Ib1 & Wr1 & Arr1).
    { rewrite SO. cbn [idview adims]. repeat constructor; lia. }
    { rewrite SO. repeat constructor; lia. }
    { discriminate. } { repeat constructor; lia. } { discriminate. } { exact R1'. }
    (* level 2 *)
    pose proof Wr1 as (E1 & _).
    assert (SO1 : step_or_ones (cm r1) None = [1; 1]) by (rewrite E1; reflexivity).
    assert (R2 : B.reshape (B.vslice (abs_arr r1) (map Z.to_nat [zo k; 0]) (map Z.to_nat [1; zo nT])
                                     (option_map (map Z.to_nat) None)) (map Z.to_nat [zo nT]) = Some w).
    { rewrite Arr1. cbn [map option_map]. rewrite !Nat2Z.id. exact Rk. }
    destruct (slice_reshape_refines h r1 (start (cm r1)) _ _ [zo k; 0] [1; zo nT] None [zo nT] w Wr1)
      as (sl2 & r2 & Sl2 & MR2 & Ib2 & Wr2 & Arr2).
    { rewrite SO1. cbn [idview adims]. repeat constructor; lia. }
    { rewrite SO1. repeat constructor; lia. }
    { discriminate. } { repeat constructor; lia. } { discriminate. } { exact R2. }
    exists sl1, r1, sl2, r2. split; [exact Sl1|]. split; [exact MR1|]. split; [exact Sl2|]. split; [exact MR2|].
    assert (Ib : ibuf (im r2) = ibuf (im inputs)) by (rewrite Ib2; exact Ib1).
    split; [exact Ib|]. split; [exact Wr2|]. split; [exact Arr2|].
    unfold sh in IV. rewrite Views.input_views_eq in IV. inversion IV; subst ws. clear IV.
    rewrite nth_error_map in Nw. destruct (nth_error (seq 0 (Spec.n_in sp)) k) as [k'|] eqn:Ek; [|discriminate].
    destruct (nth_error_seq0 _ _ _ Ek) as [-> _]. cbn in Nw. injection Nw as Nw. rewrite <- Nw in Arr2 |- *. clear Nw.
    intros t Ht. split; [rewrite Views.voffsets_vec, seq_nth by lia; reflexivity|].
    apply (row_cells h inputs 0 _ _ r2 (start (cm r2)) nT ((ci * nI + k) * nT) W B0 Wr2 Arr2 Ib); [lia| |exact Ht].
    rewrite !product_cons, product_nil. pose proof (row_bound nIn nI nT ci k Hci Hk). nia.
  Qed.
End Template.

(* ------------------------------------------------------------------ *)
(** * 9. Both models side by side on a concrete [2;3;4] root (heap cell o holds the value o) *)

Definition vals24 : list Z := map Z.of_nat (seq 0 24).
Definition w_sos : B.wview :=
  B.vslice (B.vslice (B.whole [2; 3; 4]%nat) [0; 1; 0]%nat [2; 2; 4]%nat None) [1; 0; 1]%nat [1; 2; 2]%nat (Some [1; 1; 2]%nat).

(** slice of a slice (second one stepped): A's addresses = B's offsets = the values read *)
Example concrete_slice_of_slice_go :
  exists h a sl1 sl2,
    new_go (V:=Z) [] [2; 3; 4] vals24 = Some (h, a) /\
    slice a [0; 1; 0] [2; 2; 4] None = Some sl1 /\
    slice sl1 [1; 0; 1] [1; 2; 2] (Some [1; 1; 2]) = Some sl2 /\
    abs_view (cm a) = B.whole [2; 3; 4]%nat /\
    abs_view (cm sl2) = w_sos /\
    B.voffsets w_sos = [17; 19; 21; 23]%nat /\
    map (index (cm sl2)) (enum (dims (cm sl2))) = map (fun o => Some (Z.of_nat o)) (B.voffsets w_sos) /\
    elems h sl2 = Some (map Z.of_nat (B.voffsets w_sos)) /\
    contiguous (cm sl2) = Some (B.contiguous w_sos) /\ B.contiguous w_sos = false /\
    contiguous (cm sl1) = Some (B.contiguous (abs_view (cm sl1))) /\ B.contiguous (abs_view (cm sl1)) = false /\
    contiguous (cm a) = Some (B.contiguous (abs_view (cm a))) /\ B.contiguous (abs_view (cm a)) = true.
Proof. do 4 eexists. repeat split; vm_compute; reflexivity. Qed.

Example concrete_slice_of_slice_c :
  exists h a sl1 sl2,
    new_c (V:=Z) [] [2; 3; 4] vals24 = Some (h, a) /\
    slice a [0; 1; 0] [2; 2; 4] None = Some sl1 /\
    slice sl1 [1; 0; 1] [1; 2; 2] (Some [1; 1; 2]) = Some sl2 /\
    abs_view (cm sl2) = w_sos /\
    map (index (cm sl2)) (enum (dims (cm sl2))) = map (fun o => Some (Z.of_nat o)) (B.voffsets w_sos) /\
    elems h sl2 = Some (map Z.of_nat (B.voffsets w_sos)) /\
    contiguous (cm sl2) = Some (B.contiguous w_sos).
Proof. do 4 eexists. repeat split; vm_compute; reflexivity. Qed.

(** the objects of the chain Slice -> MustReshape -> Slice -> MustReshape (the template's input
    chain), computed once per back-end (witnesses of the two examples below) *)
Definition dummy_arr : arr := mkArr (mkCommon [] [] 0 [] [] []) (CImpl 0).
Definition arr_of (o : option arr) : arr := match o with Some x => x | None => dummy_arr end.
Definition harr_of (o : option (@heap Z * arr)) : @heap Z * arr := match o with Some x => x | None => ([], dummy_arr) end.
Definition wv_of (o : option B.wview) : B.wview := match o with Some x => x | None => B.whole [] end.

Definition bw1 : B.wview := Eval vm_compute in
  wv_of (B.reshape (B.vslice (B.whole [2; 3; 4]%nat) [1; 0; 0]%nat [1; 3; 4]%nat None) [3; 4]%nat).
Definition bw2 : B.wview := Eval vm_compute in wv_of (B.reshape (B.vslice bw1 [2; 0]%nat [1; 4]%nat None) [4]%nat).

Definition go_ha := Eval vm_compute in harr_of (new_go (V:=Z) [] [2; 3; 4] vals24).
Definition go_sl1 := Eval vm_compute in arr_of (slice (snd go_ha) [1; 0; 0] [1; 3; 4] None).
Definition go_r1 := Eval vm_compute in snd (harr_of (must_reshape (fst go_ha) go_sl1 [3; 4])).
Definition go_sl2 := Eval vm_compute in arr_of (slice go_r1 [2; 0] [1; 4] None).
Definition go_r2 := Eval vm_compute in snd (harr_of (must_reshape (fst go_ha) go_sl2 [4])).
Definition go_h' := Eval vm_compute in match set1 (fst go_ha) go_r2 2 99 with Some x => x | None => [] end.

Definition c_ha := Eval vm_compute in harr_of (new_c (V:=Z) [] [2; 3; 4] vals24).
Definition c_sl1 := Eval vm_compute in arr_of (slice (snd c_ha) [1; 0; 0] [1; 3; 4] None).
Definition c_r1 := Eval vm_compute in snd (harr_of (must_reshape (fst c_ha) c_sl1 [3; 4])).
Definition c_sl2 := Eval vm_compute in arr_of (slice c_r1 [2; 0] [1; 4] None).
Definition c_r2 := Eval vm_compute in snd (harr_of (must_reshape (fst c_ha) c_sl2 [4])).
Definition c_h' := Eval vm_compute in match set1 (fst c_ha) c_r2 2 99 with Some x => x | None => [] end.

(** Go-backed: no copy, relative start 0 over a re-sliced Go slice, absolute view = B's view,
    values read = B's offsets *)
Example concrete_reshape_chain_go :
  exists h a sl1 r1 sl2 r2 w1 w2 h',
    new_go (V:=Z) [] [2; 3; 4] vals24 = Some (h, a) /\
    slice a [1; 0; 0] [1; 3; 4] None = Some sl1 /\ must_reshape h sl1 [3; 4] = Some (h, r1) /\
    slice r1 [2; 0] [1; 4] None = Some sl2 /\ must_reshape h sl2 [4] = Some (h, r2) /\
    B.reshape (B.vslice (B.whole [2; 3; 4]%nat) [1; 0; 0]%nat [1; 3; 4]%nat None) [3; 4]%nat = Some w1 /\
    B.reshape (B.vslice w1 [2; 0]%nat [1; 4]%nat None) [4]%nat = Some w2 /\
    abs_arr r1 = w1 /\ abs_arr r2 = w2 /\ start (cm r2) = 0 /\ B.voffsets w2 = [20; 21; 22; 23]%nat /\
    elems h r1 = Some (map Z.of_nat (B.voffsets w1)) /\
    elems h r2 = Some (map Z.of_nat (B.voffsets w2)) /\
    map (get1 h r2) [0; 1; 2; 3] = map (fun t => Some (Z.of_nat (B.get1_off w2 t))) [0; 1; 2; 3]%nat /\
    (* a write through the reshaped row lands in the root at B's offset *)
    set1 h r2 2 99 = Some h' /\ get h' a [1; 2; 2] = Some 99 /\ hread h' 0 (Z.of_nat (B.get1_off w2 2)) = Some 99.
Proof.
  exists (fst go_ha), (snd go_ha), go_sl1, go_r1, go_sl2, go_r2, bw1, bw2, go_h'.
  repeat split; vm_compute; reflexivity.
Qed.

(** the same chain, C-backed: offset roots, [abs_view] itself = B's view *)
Example concrete_reshape_chain_c :
  exists h a sl1 r1 sl2 r2 w1 w2 h',
    new_c (V:=Z) [] [2; 3; 4] vals24 = Some (h, a) /\
    slice a [1; 0; 0] [1; 3; 4] None = Some sl1 /\ must_reshape h sl1 [3; 4] = Some (h, r1) /\
    slice r1 [2; 0] [1; 4] None = Some sl2 /\ must_reshape h sl2 [4] = Some (h, r2) /\
    B.reshape (B.vslice (B.whole [2; 3; 4]%nat) [1; 0; 0]%nat [1; 3; 4]%nat None) [3; 4]%nat = Some w1 /\
    B.reshape (B.vslice w1 [2; 0]%nat [1; 4]%nat None) [4]%nat = Some w2 /\
    abs_view (cm r1) = w1 /\ abs_view (cm r2) = w2 /\ abs_arr r2 = w2 /\ start (cm r2) = 20 /\ im r2 = CImpl 0 /\
    elems h r1 = Some (map Z.of_nat (B.voffsets w1)) /\
    elems h r2 = Some (map Z.of_nat (B.voffsets w2)) /\
    map (get1 h r2) [0; 1; 2; 3] = map (fun t => Some (Z.of_nat (B.get1_off w2 t))) [0; 1; 2; 3]%nat /\
    set1 h r2 2 99 = Some h' /\ get h' a [1; 2; 2] = Some 99 /\ hread h' 0 (Z.of_nat (B.get1_off w2 2)) = Some 99.
Proof.
  exists (fst c_ha), (snd c_ha), c_sl1, c_r1, c_sl2, c_r2, bw1, bw2, c_h'.
  repeat split; vm_compute; reflexivity.
Qed.

(** the table-parameter slice of the template: [size] SHORTER than the rank ([loc] full).  A accepts
    it and agrees with B: the leading strides are used *)
Example concrete_short_size_agrees :
  exists h a sl,
    new_go (V:=Z) [] [2; 3; 4] vals24 = Some (h, a) /\
    slice a [0; 0; 1] [2; 3] None = Some sl /\
    abs_view (cm sl) = B.vslice (B.whole [2; 3; 4]%nat) [0; 0; 1]%nat [2; 3]%nat None /\
    B.voffsets (abs_view (cm sl)) = [1; 5; 9; 13; 17; 21]%nat /\
    elems h sl = Some [1; 5; 9; 13; 17; 21] /\
    contiguous (cm sl) = Some false /\ B.contiguous (abs_view (cm sl)) = false.
Proof. do 3 eexists. repeat split; vm_compute; reflexivity. Qed.

(** ** where the two models DIFFER (all outside the hypotheses of the theorems above) *)

(** B is total where A panics: a [loc] longer than the rank, a [step] shorter than the rank *)
Example abs_slice_long_loc_differs :
  exists h a, new_go (V:=Z) [] [2; 3; 4] vals24 = Some (h, a) /\
    slice a [0; 0; 0; 1] [1; 1; 1] None = None /\
    B.voffsets (B.vslice (B.whole [2; 3; 4]%nat) [0; 0; 0; 1]%nat [1; 1; 1]%nat None) = [0]%nat.
Proof. do 2 eexists. repeat split; vm_compute; reflexivity. Qed.

Example abs_slice_short_step_differs :
  exists h a, new_go (V:=Z) [] [2; 3; 4] vals24 = Some (h, a) /\
    slice a [0; 0; 0] [1; 1; 2] (Some [1; 1]) = None /\
    B.voffsets (B.vslice (B.whole [2; 3; 4]%nat) [0; 0; 0]%nat [1; 1; 2]%nat (Some [1; 1]%nat)) = [0; 0]%nat.
Proof. do 2 eexists. repeat split; vm_compute; reflexivity. Qed.

(** B has no negative numbers: a negative [loc] component (which SliceInto does not reject) is not
    representable; hence the hypothesis [nn loc] *)
Example abs_slice_negative_loc_differs :
  exists h a sl, new_go (V:=Z) [] [2; 3; 4] vals24 = Some (h, a) /\
    slice a [1; 0; -1] [1; 1; 1] None = Some sl /\ elems h sl = Some [11] /\
    B.voffsets (B.vslice (B.whole [2; 3; 4]%nat) (map Z.to_nat [1; 0; -1]) [1; 1; 1]%nat None) = [12]%nat.
Proof. do 3 eexists. repeat split; vm_compute; reflexivity. Qed.

(** an EMPTY view (an extent 0): B calls it contiguous (no offsets = seq start 0), A's structural
    test says no, so MustReshape allocates a (zero-length) copy where B aliases; hence extents >= 1
    in [wfc] ([in_box]).  No cell is read or written either way. *)
Example abs_contiguous_empty_differs :
  exists h a sl h' r, new_go (V:=Z) [] [2; 3; 4] vals24 = Some (h, a) /\
    slice a [0; 0; 0] [2; 0; 2] None = Some sl /\
    contiguous (cm sl) = Some false /\ B.contiguous (abs_view (cm sl)) = true /\
    must_reshape h sl [0] = Some (h', r) /\ length h' = 2%nat /\ length h = 1%nat /\
    B.reshape (abs_view (cm sl)) [0]%nat = Some (B.Build_wview 0 [1]%nat [0]%nat).
Proof. do 5 eexists. repeat split; vm_compute; reflexivity. Qed.

(** a NON-contiguous view: B's reshape refuses ([None]); A's MustReshape returns a detached COPY
    (new buffer, later writes not visible in the root) - exactly the case Run.v documents and excludes *)
Example abs_reshape_noncontiguous_differs :
  exists h a sl h' r h'', new_go (V:=Z) [] [2; 3; 4] vals24 = Some (h, a) /\
    slice a [0; 0; 0] [2; 1; 4] None = Some sl /\
    contiguous (cm sl) = Some false /\ B.contiguous (abs_view (cm sl)) = false /\
    B.reshape (abs_view (cm sl)) [8]%nat = None /\
    must_reshape h sl [8] = Some (h', r) /\ length h' = 2%nat /\ ibuf (im r) = 1%nat /\
    set h' r [5] 99 = Some h'' /\ get h'' a [1; 0; 1] = Some 13.
Proof. do 6 eexists. repeat split; vm_compute; reflexivity. Qed.

(* ------------------------------------------------------------------ *)
Print Assumptions abs_index.
Print Assumptions abs_index_enum.
Print Assumptions abs_index_rank.
Print Assumptions abs_elems.
Print Assumptions abs_root.
Print Assumptions abs_slice_into.
Print Assumptions abs_slice.
Print Assumptions abs_slice_get_set.
Print Assumptions slice_wfarr.
Print Assumptions abs_contiguous.
Print Assumptions reshape_wfarr.
Print Assumptions abs_reshape.
Print Assumptions abs_reshape_inv.
Print Assumptions abs_reshape_none.
Print Assumptions abs_index1.
Print Assumptions abs_get1.
Print Assumptions abs_arr_get_set_rank.
Print Assumptions abs_arr_slice.
Print Assumptions slice_reshape_refines.
Print Assumptions template_state_row.
Print Assumptions template_output_row.
Print Assumptions template_input_row.
Print Assumptions concrete_reshape_chain_go.
Print Assumptions concrete_reshape_chain_c.
