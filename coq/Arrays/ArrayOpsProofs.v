(** C02: arrayops.go (ApplyFunc1 / Scale / AddTo).  The contiguous fast path
    (Unroll both arrays, loop over the flat slices, dest.CopyFrom(ArrayFromSlice(destSlice, shape)))
    leaves the same contents in every existing buffer as the element-by-element index loop,
    for every pair of well-formed, non-overlapping views of equal shape -- whatever the backing
    (Go slice: Unroll aliases the storage and the final CopyFrom is a self-copy; C memory: Unroll
    gathers into a fresh slice and the final CopyFrom writes the results back).
    Also: the functional specification of the index loop (every destination element becomes
    f(old destination element, old source element), nothing else changes). *)
From Coq Require Import ZArith List Bool Lia.
From OW Require Import Arrays.IntOps Arrays.View Arrays.Ops Arrays.IndexProofs Arrays.AffineProofs
  Arrays.ContigProofs Arrays.HelperProofs Arrays.MemProofs Arrays.HistoryProofs Arrays.CopyProofs
  Arrays.BulkProofs.
Import ListNotations.
Local Open Scope Z_scope.

Lemma NoDup_map_on {A B} (f : A -> B) l :
  (forall x y, In x l -> In y l -> f x = f y -> x = y) -> NoDup l -> NoDup (map f l).
Proof.
  intros I ND. induction ND as [|x l Nin ND IH]; cbn [map]; constructor.
  - intro C. apply in_map_iff in C as (y & E & Iy).
    assert (Exy : y = x) by (apply I; [right; exact Iy|left; reflexivity|exact E]). subst y. exact (Nin Iy).
  - apply IH. intros a b Ia Ib. apply I; right; assumption.
Qed.

(** distinct indices of a view with positive steps land on distinct root indices *)
Lemma root_idx_inj rd v i j : in_box rd v -> steps_pos v ->
  valid_idx (adims v) i -> valid_idx (adims v) j -> root_idx v i = root_idx v j -> i = j.
Proof.
  unfold in_box, steps_pos, root_idx. destruct v as [b s d]; cbn [abase astride adims]. intros B. revert i j.
  induction B as [|r rd b bs s ss d ds Hd Hb Hs Hr B IH]; intros i j SP Vi Vj E.
  - inversion Vi; inversion Vj; reflexivity.
  - inversion Vi as [|? ? x i' Hx Vi']; subst. inversion Vj as [|? ? y j' Hy Vj']; subst.
    inversion SP as [|? ? ? ? Hsd SP']; subst.
    unfold vadd, vmul in E. cbn [zipw] in E. inversion E as [[E1 E2]].
    f_equal.
    + destruct (Z.eq_dec d 1) as [D1|D1]; [lia|]. assert (S1 : 1 <= s) by (apply Hsd; lia). nia.
    + apply IH; assumption.
Qed.

(** * a generic "read two cells, write one" loop and its list of writes *)
Section G.
  Context {V : Type}.
  Notation heap := (@heap V).

  Definition cread (h : heap) (c : nat * Z) : option V := hread h (fst c) (snd c).
  Definition cwrite (h : heap) (c : nat * Z) (x : V) : option heap := hwrite h (fst c) (snd c) x.

  Lemma writes_cons_cell (h : heap) c x r :
    writes h ((c, x) :: r) = match cwrite h c x with Some h' => writes h' r | None => None end.
  Proof. destruct c as [b a]. reflexivity. Qed.

  Lemma cread_cwrite_other (h : heap) c x h' c2 : cwrite h c x = Some h' -> c2 <> c -> cread h' c2 = cread h c2.
  Proof. destruct c as [b a], c2 as [b2 a2]. unfold cread, cwrite; cbn [fst snd]. intros W N. eapply hread_hwrite_other; eauto. Qed.

  Lemma cread_cell_ok (h : heap) c d : cread h c = Some d -> cell_ok h c.
  Proof.
    unfold cread, hread, cell_ok. destruct (nth_error h (fst c)) as [l|]; [|discriminate]. intros Hz. exists l. split; [reflexivity|].
    unfold znth, zidx in Hz. destruct (Z.ltb_spec (snd c) 0) as [Hn|Hn]; [discriminate|].
    assert (Hlt : (Z.to_nat (snd c) < length l)%nat) by (apply nth_error_Some; congruence). lia.
  Qed.

  Lemma writes_hext : forall ws (h h' : heap), writes h ws = Some h' -> hext h h'.
  Proof.
    induction ws as [|[[b a] x] r IH]; intros h h' W; cbn [writes] in W; [inversion W; apply hext_refl|].
    destruct (hwrite h b a x) as [h1|] eqn:HW; [|discriminate].
    eapply hext_trans; [eapply hext_hwrite; eauto|eapply IH; eauto].
  Qed.

  Lemma gread_cread (h : heap) g k : 0 <= k < glen g -> gread h g k = cread h (gbuf g, gbase g + k).
  Proof.
    intros Hk. unfold gread, cread; cbn [fst snd].
    destruct (Z.leb_spec 0 k); [|lia]. destruct (Z.ltb_spec k (glen g)); [|lia]. reflexivity.
  Qed.

  (** cell [Dc k] := f (cell [Dc k]) (cell [Sc k]) for k, k+1, ..., k+n-1 *)
  Fixpoint cell_loop (f : V -> V -> V) (h : heap) (Dc Sc : Z -> nat * Z) (k : Z) (n : nat) : option heap :=
    match n with
    | O => Some h
    | S m => match cread h (Dc k), cread h (Sc k) with
             | Some d, Some s => match cwrite h (Dc k) (f d s) with
                                 | Some h' => cell_loop f h' Dc Sc (k + 1) m
                                 | None => None
                                 end
             | _, _ => None
             end
    end.

  (** the writes of the loop, with the operands read from the heap [h0] *)
  Fixpoint ew_ws (f : V -> V -> V) (h0 : heap) (Dc Sc : Z -> nat * Z) (k : Z) (n : nat)
    : option (list ((nat * Z) * V)) :=
    match n with
    | O => Some []
    | S m => match cread h0 (Dc k), cread h0 (Sc k), ew_ws f h0 Dc Sc (k + 1) m with
             | Some d, Some s, Some r => Some ((Dc k, f d s) :: r)
             | _, _, _ => None
             end
    end.

  Lemma ew_ws_cells f h0 Dc Sc : forall n k ws, ew_ws f h0 Dc Sc k n = Some ws ->
    map fst ws = map (fun t => Dc (k + Z.of_nat t)) (seq 0 n).
  Proof.
    induction n as [|n IH]; intros k ws H; cbn [ew_ws] in H; [inversion H; reflexivity|].
    destruct (cread h0 (Dc k)); [|discriminate]. destruct (cread h0 (Sc k)); [|discriminate].
    destruct (ew_ws f h0 Dc Sc (k + 1) n) as [r|] eqn:E; [|discriminate].
    inversion H; subst. cbn [map seq fst]. rewrite Z.add_0_r. f_equal.
    rewrite (IH _ _ E), <- seq_shift, map_map. apply map_ext. intros t. f_equal. lia.
  Qed.

  Lemma ew_ws_in f h0 Dc Sc : forall n k ws, ew_ws f h0 Dc Sc k n = Some ws ->
    forall t, k <= t < k + Z.of_nat n ->
      exists d s, cread h0 (Dc t) = Some d /\ cread h0 (Sc t) = Some s /\ In (Dc t, f d s) ws.
  Proof.
    induction n as [|n IH]; intros k ws H t Ht; cbn [ew_ws] in H; [lia|].
    destruct (cread h0 (Dc k)) as [d|] eqn:Ed; [|discriminate]. destruct (cread h0 (Sc k)) as [s|] eqn:Es; [|discriminate].
    destruct (ew_ws f h0 Dc Sc (k + 1) n) as [r|] eqn:E; [|discriminate]. inversion H; subst.
    destruct (Z.eq_dec t k) as [->|Ne].
    - exists d, s. repeat split; try assumption. left; reflexivity.
    - destruct (IH _ _ E t ltac:(lia)) as (d' & s' & Hd & Hs & I). exists d', s'. repeat split; try assumption. right; exact I.
  Qed.

  Lemma ew_ws_some f h0 Dc Sc : forall n k,
    (forall t, k <= t < k + Z.of_nat n -> exists d, cread h0 (Dc t) = Some d) ->
    (forall t, k <= t < k + Z.of_nat n -> exists s, cread h0 (Sc t) = Some s) ->
    exists ws, ew_ws f h0 Dc Sc k n = Some ws.
  Proof.
    induction n as [|n IH]; intros k RD RS; cbn [ew_ws]; [eauto|].
    destruct (RD k ltac:(lia)) as [d ->]. destruct (RS k ltac:(lia)) as [s ->].
    destruct (IH (k + 1)) as [r ->]; [intros; apply RD; lia|intros; apply RS; lia|]. eauto.
  Qed.

  (** ** the loop is that list of writes, when the written cells are pairwise distinct
      and distinct from all the cells read as second operand *)
  Lemma cell_loop_writes f (h0 : heap) Dc Sc N :
    (forall t t', 0 <= t < N -> 0 <= t' < N -> Dc t = Dc t' -> t = t') ->
    (forall t t', 0 <= t < N -> 0 <= t' < N -> Dc t <> Sc t') ->
    forall n k (h : heap), 0 <= k -> k + Z.of_nat n <= N ->
      (forall t, k <= t < N -> cread h (Dc t) = cread h0 (Dc t)) ->
      (forall t, 0 <= t < N -> cread h (Sc t) = cread h0 (Sc t)) ->
      cell_loop f h Dc Sc k n =
      match ew_ws f h0 Dc Sc k n with Some ws => writes h ws | None => None end.
  Proof.
    intros Inj Disj. induction n as [|n IH]; intros k h Hk Hn AD AS; [reflexivity|].
    cbn [cell_loop ew_ws]. rewrite (AD k) by lia. rewrite (AS k) by lia.
    destruct (cread h0 (Dc k)) as [d|]; [|reflexivity].
    destruct (cread h0 (Sc k)) as [s|]; [|reflexivity].
    destruct (cwrite h (Dc k) (f d s)) as [h1|] eqn:W.
    - rewrite (IH (k + 1) h1); try lia.
      + destruct (ew_ws f h0 Dc Sc (k + 1) n) as [r|]; [|reflexivity]. rewrite writes_cons_cell, W. reflexivity.
      + intros t Ht. rewrite <- (AD t) by lia. eapply cread_cwrite_other; [exact W|].
        intros E. assert (t = k) by (apply Inj; [lia|lia|exact E]). lia.
      + intros t Ht. rewrite <- (AS t) by lia. eapply cread_cwrite_other; [exact W|].
        intros E. apply (Disj k t); [lia|lia|symmetry; exact E].
    - destruct (ew_ws f h0 Dc Sc (k + 1) n) as [r|]; [|reflexivity]. rewrite writes_cons_cell, W. reflexivity.
  Qed.

  (** effect of the whole loop on a heap *)
  Definition ew_post (f : V -> V -> V) (h0 : heap) (Dc Sc : Z -> nat * Z) (N : Z) (h' : heap) : Prop :=
    (forall t, 0 <= t < N -> exists d s,
        cread h0 (Dc t) = Some d /\ cread h0 (Sc t) = Some s /\ cread h' (Dc t) = Some (f d s)) /\
    (forall b a, (forall t, 0 <= t < N -> (b, a) <> Dc t) -> hread h' b a = hread h0 b a).

  Lemma cell_loop_post f (h : heap) Dc Sc N :
    0 <= N ->
    (forall t t', 0 <= t < N -> 0 <= t' < N -> Dc t = Dc t' -> t = t') ->
    (forall t t', 0 <= t < N -> 0 <= t' < N -> Dc t <> Sc t') ->
    (forall t, 0 <= t < N -> exists d, cread h (Dc t) = Some d) ->
    (forall t, 0 <= t < N -> exists s, cread h (Sc t) = Some s) ->
    exists ws h', ew_ws f h Dc Sc 0 (Z.to_nat N) = Some ws /\
      cell_loop f h Dc Sc 0 (Z.to_nat N) = writes h ws /\ writes h ws = Some h' /\
      NoDup (map fst ws) /\ ew_post f h Dc Sc N h' /\ hext h h'.
  Proof.
    intros HN Inj Disj RD RS.
    destruct (ew_ws_some f h Dc Sc (Z.to_nat N) 0) as [ws Ews]; [intros; apply RD; lia|intros; apply RS; lia|].
    pose proof (cell_loop_writes f h Dc Sc N Inj Disj (Z.to_nat N) 0 h ltac:(lia) ltac:(lia)
                  (fun _ _ => eq_refl) (fun _ _ => eq_refl)) as EL. rewrite Ews in EL.
    pose proof (ew_ws_cells _ _ _ _ _ _ _ Ews) as Cells.
    assert (OK : Forall (fun w => cell_ok h (fst w)) ws).
    { apply Forall_forall. intros w Iw. assert (Ic : In (fst w) (map fst ws)) by (apply in_map; exact Iw).
      rewrite Cells in Ic. apply in_map_iff in Ic as (t & Et & It). apply in_seq in It. rewrite <- Et.
      destruct (RD (0 + Z.of_nat t) ltac:(lia)) as [d Hd]. eapply cread_cell_ok; eauto. }
    destruct (writes_total ws h OK) as [h' Hw].
    assert (ND : NoDup (map fst ws)).
    { rewrite Cells. apply NoDup_map_on; [|apply seq_NoDup]. intros x y Ix Iy E. apply in_seq in Ix, Iy.
      assert (0 + Z.of_nat x = 0 + Z.of_nat y) by (apply Inj; [lia|lia|exact E]). lia. }
    destruct (writes_spec ws h h' ND Hw) as [S1 O1].
    exists ws, h'. split; [exact Ews|]. split; [exact EL|]. split; [exact Hw|]. split; [exact ND|].
    split; [|eapply writes_hext; eauto]. split.
    - intros t Ht. destruct (ew_ws_in _ _ _ _ _ _ _ Ews t ltac:(lia)) as (d & s & Hd & Hs & I).
      exists d, s. split; [exact Hd|]. split; [exact Hs|]. exact (S1 _ _ I).
    - intros b a Nn. apply O1. rewrite Cells. intros I. apply in_map_iff in I as (t & E & It). apply in_seq in It.
      apply (Nn (0 + Z.of_nat t)); [lia|symmetry; exact E].
  Qed.
End G.

(** * the two loops of arrayops.go as instances of [cell_loop] *)
Section L.
  Context {V : Type}.
  Notation heap := (@heap V).

  (** storage cell of the element of row-major rank [t] *)
  Definition rcell (a : arr) (rd : list Z) (v : aview) (shp : list Z) (t : Z) : nat * Z :=
    acell a rd v (unravel shp t).
  Definition gcell (g : gslice) (t : Z) : nat * Z := (gbuf g, gbase g + t).

  Lemma idx_loop2_cell_loop f dst src rd1 v1 rd2 v2 shp :
    adims v1 = shp -> adims v2 = shp -> Forall (fun d => 0 < d) shp ->
    in_box rd1 v1 -> in_box rd2 v2 -> cm dst = conc rd1 v1 -> cm src = conc rd2 v2 ->
    forall n k (h : heap), 0 <= k -> k + Z.of_nat n <= product shp ->
      storage_ok h (im dst) rd1 -> storage_ok h (im src) rd2 ->
      idx_loop2 f h dst src shp (unravel shp k) n =
      cell_loop f h (rcell dst rd1 v1 shp) (rcell src rd2 v2 shp) k n.
  Proof.
    intros D1 D2 P B1 B2 C1 C2. induction n as [|n IH]; intros k h Hk Hn S1 S2; [reflexivity|].
    assert (Vk : valid_idx shp (unravel shp k)) by (apply unravel_valid; exact P).
    assert (W1 : wf_arr h dst rd1 v1) by (repeat split; assumption).
    assert (W2 : wf_arr h src rd2 v2) by (repeat split; assumption).
    cbn [idx_loop2 cell_loop]. unfold cread, cwrite, rcell.
    rewrite (get_as_hread h dst rd1 v1) by (auto; rewrite D1; exact Vk).
    rewrite (get_as_hread h src rd2 v2) by (auto; rewrite D2; exact Vk).
    destruct (hread h (fst (acell dst rd1 v1 (unravel shp k))) (snd (acell dst rd1 v1 (unravel shp k)))) as [d|]; [|reflexivity].
    destruct (hread h (fst (acell src rd2 v2 (unravel shp k))) (snd (acell src rd2 v2 (unravel shp k)))) as [s|]; [|reflexivity].
    rewrite (set_as_hwrite h dst rd1 v1) by (auto; rewrite D1; exact Vk).
    destruct (hwrite h (fst (acell dst rd1 v1 (unravel shp k))) (snd (acell dst rd1 v1 (unravel shp k))) (f d s)) as [h1|] eqn:Hw;
      [|reflexivity].
    destruct (increment_succ shp _ Vk) as (i' & Ei & Vi' & Ri). rewrite Ei.
    destruct n as [|n']; [reflexivity|].
    assert (Ei' : i' = unravel shp (k + 1)).
    { rewrite ravel_unravel in Ri by (auto; lia). rewrite Z.mod_small in Ri by lia.
      rewrite <- Ri. symmetry. apply unravel_ravel0. exact Vi'. }
    subst i'. apply IH; try lia; eapply storage_ok_hwrite; eauto.
  Qed.

  Lemma slices_loop_cell_loop f gd gs : forall n k (h : heap),
    0 <= k -> k + Z.of_nat n <= glen gd -> k + Z.of_nat n <= glen gs ->
    slices_loop f h gd gs k n = cell_loop f h (gcell gd) (gcell gs) k n.
  Proof.
    induction n as [|n IH]; intros k h Hk H1 H2; [reflexivity|].
    cbn [slices_loop cell_loop]. rewrite !gread_cread by lia. unfold gcell at 1 2 3.
    destruct (cread h (gbuf gd, gbase gd + k)) as [d|]; [|reflexivity].
    destruct (cread h (gbuf gs, gbase gs + k)) as [s|]; [|reflexivity].
    unfold gwrite, cwrite; cbn [fst snd].
    destruct (Z.leb_spec 0 k); [|lia]. destruct (Z.ltb_spec k (glen gd)); [|lia]. cbn [andb].
    destruct (hwrite h (gbuf gd) (gbase gd + k) (f d s)) as [h1|]; [|reflexivity].
    apply IH; lia.
  Qed.

  Lemma rcell_inj a rd v shp : adims v = shp -> in_box rd v -> steps_pos v ->
    forall t t', 0 <= t < product shp -> 0 <= t' < product shp ->
      rcell a rd v shp t = rcell a rd v shp t' -> t = t'.
  Proof.
    intros D B SP t t' Ht Ht' E. pose proof (in_box_dims_pos _ _ B) as P. rewrite D in P.
    assert (Vt : valid_idx (adims v) (unravel shp t)) by (rewrite D; apply unravel_valid; exact P).
    assert (Vt' : valid_idx (adims v) (unravel shp t')) by (rewrite D; apply unravel_valid; exact P).
    pose proof (root_idx_inj rd v _ _ B SP Vt Vt' (acell_inj a rd v _ _ B Vt Vt' E)) as U.
    rewrite <- (ravel_unravel shp t P Ht), <- (ravel_unravel shp t' P Ht'), U. reflexivity.
  Qed.

  Lemma rcell_read (h : heap) a rd v shp t : adims v = shp -> wf_arr h a rd v ->
    cread h (rcell a rd v shp t) = get h a (unravel shp t) /\ exists x, get h a (unravel shp t) = Some x.
  Proof.
    intros D W. pose proof W as (_ & B & _). pose proof (in_box_dims_pos _ _ B) as P.
    assert (Vt : valid_idx (adims v) (unravel shp t)) by (rewrite <- D; apply unravel_valid; exact P).
    split; [symmetry; apply get_as_hread; assumption|]. apply (get_set_total h a rd v _ W Vt).
  Qed.

  (** ** specification of the index loop (slow path): it is the list of writes
      (cell of dst[i], f (old dst[i]) (old src[i])), operands read from the ORIGINAL heap *)
  Theorem idx_loop2_writes (f : V -> V -> V) (h : heap) (dst src : arr) rd1 v1 rd2 v2 :
    wf_arr h dst rd1 v1 -> steps_pos v1 -> wf_arr h src rd2 v2 ->
    adims v1 = adims v2 ->
    (forall i j, valid_idx (adims v1) i -> valid_idx (adims v1) j -> acell dst rd1 v1 i <> acell src rd2 v2 j) ->
    let shp := adims v1 in
    exists ws hs,
      ew_ws f h (rcell dst rd1 v1 shp) (rcell src rd2 v2 shp) 0 (Z.to_nat (product shp)) = Some ws /\
      idx_loop2 f h dst src shp (unravel shp 0) (Z.to_nat (product shp)) = writes h ws /\
      writes h ws = Some hs /\ NoDup (map fst ws) /\
      ew_post f h (rcell dst rd1 v1 shp) (rcell src rd2 v2 shp) (product shp) hs /\ hext h hs.
  Proof.
    intros W1 SP1 W2 D Disj shp. pose proof W1 as (E1 & B1 & S1). pose proof W2 as (E2 & B2 & S2).
    pose proof (in_box_dims_pos _ _ B1) as P. fold shp in P.
    assert (PP : 0 < product shp) by (apply product_pos_all; exact P).
    destruct (cell_loop_post f h (rcell dst rd1 v1 shp) (rcell src rd2 v2 shp) (product shp)) as (ws & hs & Ews & EL & Hw & ND & Post & X).
    - lia.
    - apply rcell_inj; auto.
    - intros t t' Ht Ht'. apply Disj; apply unravel_valid; exact P.
    - intros t Ht. destruct (rcell_read h dst rd1 v1 shp t eq_refl W1) as [R [x Hx]]. exists x. congruence.
    - intros t Ht. destruct (rcell_read h src rd2 v2 shp t (eq_sym D) W2) as [R [x Hx]]. exists x. congruence.
    - exists ws, hs. split; [exact Ews|]. split; [|auto].
      rewrite <- EL. apply idx_loop2_cell_loop; auto; lia.
  Qed.

  (** ** its consequence, element by element: dst[i] := f dst[i] src[i], every other cell of
      every buffer keeps its contents *)
  Theorem idx_loop2_spec (f : V -> V -> V) (h : heap) (dst src : arr) rd1 v1 rd2 v2 :
    wf_arr h dst rd1 v1 -> steps_pos v1 -> wf_arr h src rd2 v2 ->
    adims v1 = adims v2 ->
    (forall i j, valid_idx (adims v1) i -> valid_idx (adims v1) j -> acell dst rd1 v1 i <> acell src rd2 v2 j) ->
    exists hs,
      idx_loop2 f h dst src (shape dst) (new_index (cm dst) 0) (Z.to_nat (product (shape dst))) = Some hs /\
      (forall i, valid_idx (adims v1) i -> exists d s,
          get h dst i = Some d /\ get h src i = Some s /\ get hs dst i = Some (f d s)) /\
      (forall i, valid_idx (adims v1) i -> get hs src i = get h src i) /\
      (forall b a, (forall i, valid_idx (adims v1) i -> (b, a) <> acell dst rd1 v1 i) -> hread hs b a = hread h b a).
  Proof.
    intros W1 SP1 W2 D Disj.
    destruct (idx_loop2_writes f h dst src rd1 v1 rd2 v2 W1 SP1 W2 D Disj) as (ws & hs & Ews & EL & Hw & ND & [Po1 Po2] & X).
    pose proof W1 as (E1 & B1 & S1). pose proof (in_box_dims_pos _ _ B1) as P.
    set (shp := adims v1) in *.
    assert (Sh : shape dst = shp) by (unfold shape; rewrite E1; reflexivity).
    assert (Rk : forall i, valid_idx shp i -> 0 <= ravel shp i < product shp /\ unravel shp (ravel shp i) = i).
    { intros i Vi. split; [apply ravel_bounds; exact Vi|apply unravel_ravel0; exact Vi]. }
    assert (Fr : forall b a, (forall i, valid_idx shp i -> (b, a) <> acell dst rd1 v1 i) -> hread hs b a = hread h b a).
    { intros b a Nn. apply Po2. intros t Ht. apply Nn. apply unravel_valid; exact P. }
    exists hs. split; [|split; [|split]].
    - rewrite Sh, new_index_zeros, E1. cbn [dims conc]. fold shp. rewrite <- unravel_zero by exact P.
      rewrite EL. exact Hw.
    - intros i Vi. destruct (Rk i Vi) as [Rb Ru]. destruct (Po1 _ Rb) as (d & s & Hd & Hs & Hn).
      unfold rcell in Hd, Hs, Hn. rewrite Ru in Hd, Hs, Hn. exists d, s.
      rewrite (get_as_hread h dst rd1 v1 i W1 Vi), (get_as_hread h src rd2 v2 i W2 ltac:(rewrite <- D; exact Vi)).
      rewrite (get_as_hread hs dst rd1 v1 i (wf_arr_hext _ _ _ _ _ X W1) Vi). auto.
    - intros i Vi. assert (Vi2 : valid_idx (adims v2) i) by (rewrite <- D; exact Vi).
      rewrite (get_as_hread h src rd2 v2 i W2 Vi2), (get_as_hread hs src rd2 v2 i (wf_arr_hext _ _ _ _ _ X W2) Vi2).
      apply Fr. intros j Vj C. apply (Disj j i Vj Vi). rewrite <- C. symmetry. apply surjective_pairing.
    - exact Fr.
  Qed.
End L.

(** * ingredients of the fast path *)
Section U.
  Context {V : Type}.
  Notation heap := (@heap V).

  (** Unroll of a well-formed view: either it aliases the storage (contiguous Go-backed view:
      slot k IS the cell of element k) or it is a fresh buffer appended to the heap *)
  Lemma unroll_cases (h : heap) a rd v :
    wf_arr h a rd v -> steps_pos v -> adims v <> [] ->
    exists h2 gs, unroll h a = Some (h2, gs) /\ hext h h2 /\ agree (length h) h h2 /\
      storage_ok h2 (GoImpl gs) (adims v) /\
      (forall k, 0 <= k < product (adims v) -> gread h2 gs k = get h a (unravel (adims v) k)) /\
      (((exists g, im a = GoImpl g /\ contiguous (cm a) = Some true) /\ h2 = h /\
        forall k, 0 <= k < product (adims v) -> rcell a rd v (adims v) k = gcell gs k)
       \/ ((forall g, im a = GoImpl g -> contiguous (cm a) <> Some true) /\
           gbuf gs = length h /\ length h2 = S (length h))).
  Proof.
    intros W SP N. pose proof W as (E & B & St). pose proof (in_box_dims_pos _ _ B) as P.
    assert (PP : 0 < product (adims v)) by (apply product_pos_all; exact P).
    destruct (contiguous_iff_adjacent rd v B SP) as (b & Cb & Iff).
    assert (Gather : exists h2 gs, unroll_gather h a = Some (h2, gs) /\ hext h h2 /\ agree (length h) h h2 /\
              storage_ok h2 (GoImpl gs) (adims v) /\
              (forall k, 0 <= k < product (adims v) -> gread h2 gs k = get h a (unravel (adims v) k)) /\
              gbuf gs = length h /\ length h2 = S (length h)).
    { destruct (unroll_gather_spec h a rd v W N) as (vals & U & L & Nth).
      eexists; eexists; split; [exact U|]. split; [apply hext_app|]. split; [|split; [|split; [|split]]].
      - intros b0 a0 Hb. unfold hread. rewrite nth_error_app1 by exact Hb. reflexivity.
      - cbn [storage_ok gbuf glen gcap gbase]. exists vals. split.
        + rewrite nth_error_app2 by lia. rewrite Nat.sub_diag. reflexivity.
        + lia.
      - intros k Hk. unfold gread; cbn [glen gbuf gbase].
        destruct (Z.leb_spec 0 k); [|lia]. destruct (Z.ltb_spec k (product (adims v))); [|lia]. cbn [andb].
        unfold hread. rewrite nth_error_app2 by lia. rewrite Nat.sub_diag. cbn [nth_error].
        unfold znth, zidx. destruct (Z.ltb_spec (0 + k) 0); [lia|]. rewrite Z.add_0_l. apply Nth. exact Hk.
      - reflexivity.
      - rewrite app_length. cbn [length]. lia. }
    destruct a as [c m]. cbn [cm im] in *. subst c. destruct m as [g|bb].
    - destruct b.
      + destruct (unroll_contiguous_alias h g (conc rd v) rd v W SP Cb) as (g' & U & Gb & Gs & Gl & Rd).
        destruct (unroll_alias_fields h h (conc rd v) g g' Cb U) as (Fc & F0 & Fl & _ & _).
        pose proof (proj1 Iff eq_refl) as Adj.
        exists h, g'. split; [exact U|]. split; [apply hext_refl|]. split; [intros ? ? ?; reflexivity|].
        split; [|split; [exact Rd|]].
        * cbn [storage_ok] in *. destruct St as (l & El & Lg & Cg & B0 & B1). exists l. rewrite Gb. split; [exact El|]. lia.
        * left. split; [exists g; split; [reflexivity|exact Cb]|]. split; [reflexivity|].
          intros t Ht. assert (Vt : valid_idx (adims v) (unravel (adims v) t)) by (apply unravel_valid; exact P).
          destruct (conc_index rd v _ B Vt) as [I _]. rewrite (Adj _ Vt), ravel_unravel in I by (auto; lia).
          unfold rcell, gcell, acell; cbn [im cell_of].
          assert (Er : ravel rd (root_idx v (unravel (adims v) t)) = start (conc rd v) + t) by congruence.
          rewrite Er, Gb, Gs. f_equal. lia.
      + destruct Gather as (h2 & gs & U & X & A & SO & R & Gb & L). exists h2, gs.
        split; [unfold unroll; cbn [im cm]; rewrite Cb; exact U|]. split; [exact X|]. split; [exact A|]. split; [exact SO|].
        split; [exact R|]. right. split; [intros g0 _; congruence|]. split; assumption.
    - destruct Gather as (h2 & gs & U & X & A & SO & R & Gb & L). exists h2, gs.
      split; [exact U|]. split; [exact X|]. split; [exact A|]. split; [exact SO|].
      split; [exact R|]. right. split; [intros g0 E0; discriminate|]. split; assumption.
  Qed.

  Lemma unroll_go_heap_indep (h h' : heap) a g gd : im a = GoImpl g -> contiguous (cm a) = Some true ->
    unroll h a = Some (h, gd) -> unroll h' a = Some (h', gd).
  Proof.
    intros Ia C U. unfold unroll in *. rewrite Ia, C in *.
    destruct (index (cm a) (decrement (shape a))) as [e|]; [|discriminate].
    destruct (gsub g (start (cm a)) (e + 1)) as [g'|]; [|discriminate].
    inversion U; subst. reflexivity.
  Qed.

  Lemma idview_steps_pos (s : list Z) : steps_pos (idview s).
  Proof. unfold steps_pos, idview; cbn [astride adims]. induction s as [|d s IH]; cbn [map]; constructor; auto. intros; lia. Qed.

  (** ArrayFromSlice(slice, shape): a well-formed root over the slice *)
  Lemma fresh_root_wf (h : heap) gd shp : Forall (fun d => 0 < d) shp -> shp <> [] ->
    storage_ok h (GoImpl gd) shp ->
    exists tmp, fresh_root shp (GoImpl gd) 0 = Some tmp /\ im tmp = GoImpl gd /\ shape tmp = shp /\
      wf_arr h tmp shp (idview shp) /\
      forall t, 0 <= t < product shp -> rcell tmp shp (idview shp) shp t = gcell gd t.
  Proof.
    intros P N S.
    destruct (root_common shp) as [c0|] eqn:R0.
    2:{ rewrite root_common_spec in R0 by exact N. discriminate. }
    pose proof (root_is_conc_idview shp c0 R0) as Ec. subst c0.
    unfold fresh_root. rewrite R0. eexists. split; [reflexivity|]. cbn [im cm]. split; [reflexivity|].
    split; [reflexivity|]. split.
    - split; [cbn [cm]; unfold conc, idview; cbn [odims dims start offset step offstep abase astride adims]; rewrite ravel_zero; reflexivity|].
      split; [apply idview_in_box; exact P|exact S].
    - intros t Ht. assert (Vt : valid_idx shp (unravel shp t)) by (apply unravel_valid; exact P).
      unfold rcell, gcell, acell; cbn [im cell_of].
      rewrite root_idx_idview by (apply valid_idx_length; exact Vt). rewrite ravel_unravel by assumption. reflexivity.
  Qed.

  (** slicing a view at the origin with its own shape and no step gives the view back *)
  Lemma slice_self rd v m : in_box rd v ->
    slice (mkArr (conc rd v) m) (new_index (conc rd v) 0) (adims v) None = Some (mkArr (conc rd v) m).
  Proof.
    intros B. pose proof (in_box_rank _ _ B) as R. pose proof R as (Lb & Ls & Ld).
    unfold slice; cbn [cm im].
    rewrite slice_into_some.
    - cbn [option_map step_or_ones]. f_equal. f_equal. unfold conc; cbn [odims dims start offset step offstep].
      unfold new_index, ndims; cbn [dims]. rewrite dotz_zeros_r, Z.add_0_r.
      rewrite (vmul_comm (astride v)), vmul_ones_l by reflexivity. reflexivity.
    - apply conc_wf. exact R.
    - cbn [conc offset]. rewrite offsets_from_length. unfold new_index, ndims. cbn [conc dims]. rewrite uniform_length. exact Ld.
    - intros s E; discriminate.
  Qed.

  Lemma copy_ws_in (h0 : heap) dst src rd1 v1 rd2 v2 shp : forall n k ws,
    copy_ws h0 dst src rd1 v1 rd2 v2 shp k n = Some ws ->
    forall t, k <= t < k + Z.of_nat n ->
      exists x, cread h0 (rcell src rd2 v2 shp t) = Some x /\ In (rcell dst rd1 v1 shp t, x) ws.
  Proof.
    induction n as [|n IH]; intros k ws H t Ht; cbn [copy_ws] in H; [lia|]. unfold cread, rcell.
    destruct (hread h0 (fst (acell src rd2 v2 (unravel shp k))) (snd (acell src rd2 v2 (unravel shp k)))) as [x|] eqn:Ex; [|discriminate].
    destruct (copy_ws h0 dst src rd1 v1 rd2 v2 shp (k + 1) n) as [r|] eqn:E; [|discriminate]. inversion H; subst.
    destruct (Z.eq_dec t k) as [->|Ne].
    - exists x. split; [exact Ex|left; reflexivity].
    - destruct (IH _ _ E t ltac:(lia)) as (x' & Hx & I). exists x'. split; [exact Hx|right; exact I].
  Qed.

  (** effect of the writes of a copy (the values having been read in [h0]) on a heap [hX] *)
  Lemma copy_ws_writes_post (h0 hX : heap) dst src rd1 v1 rd2 v2 shp ws :
    adims v1 = shp -> in_box rd1 v1 -> steps_pos v1 ->
    copy_ws h0 dst src rd1 v1 rd2 v2 shp 0 (Z.to_nat (product shp)) = Some ws ->
    (forall t, 0 <= t < product shp -> cell_ok hX (rcell dst rd1 v1 shp t)) ->
    exists hf, writes hX ws = Some hf /\
      (forall t, 0 <= t < product shp -> exists x,
          cread h0 (rcell src rd2 v2 shp t) = Some x /\ cread hf (rcell dst rd1 v1 shp t) = Some x) /\
      (forall b a, (forall t, 0 <= t < product shp -> (b, a) <> rcell dst rd1 v1 shp t) -> hread hf b a = hread hX b a).
  Proof.
    intros D B SP Ews OKc.
    pose proof (copy_ws_cells _ _ _ _ _ _ _ _ _ _ _ Ews) as Cells.
    assert (OK : Forall (fun w => cell_ok hX (fst w)) ws).
    { apply Forall_forall. intros w Iw. assert (Ic : In (fst w) (map fst ws)) by (apply in_map; exact Iw).
      rewrite Cells in Ic. apply in_map_iff in Ic as (t & Et & It). apply in_seq in It. rewrite <- Et.
      apply (OKc (0 + Z.of_nat t)). lia. }
    destruct (writes_total ws hX OK) as [hf Hw].
    assert (ND : NoDup (map fst ws)).
    { rewrite Cells. apply NoDup_map_on; [|apply seq_NoDup]. intros x y Ix Iy E. apply in_seq in Ix, Iy.
      assert (0 + Z.of_nat x = 0 + Z.of_nat y) by (apply (rcell_inj dst rd1 v1 shp D B SP); [lia|lia|exact E]). lia. }
    destruct (writes_spec ws hX hf ND Hw) as [S1 O1].
    exists hf. split; [exact Hw|]. split.
    - intros t Ht. destruct (copy_ws_in _ _ _ _ _ _ _ _ _ _ _ Ews t ltac:(lia)) as (x & Hx & I).
      exists x. split; [exact Hx|]. exact (S1 _ _ I).
    - intros b a Nn. apply O1. rewrite Cells. intros I. apply in_map_iff in I as (t & E & It). apply in_seq in It.
      apply (Nn (0 + Z.of_nat t)); [lia|symmetry; exact E].
  Qed.
End U.

(** * C02: ApplyFunc1 / Scale / AddTo -- fast path = slow path *)
Section M.
  Context {V : Type}.
  Notation heap := (@heap V).

  Lemma elementwise2_core (f : V -> V -> V) (h : heap) (dst src : arr) rd1 v1 rd2 v2 shp :
    adims v1 = shp -> adims v2 = shp -> shp <> [] ->
    wf_arr h dst rd1 v1 -> steps_pos v1 -> wf_arr h src rd2 v2 -> steps_pos v2 ->
    contiguous (cm dst) = Some true -> contiguous (cm src) = Some true ->
    (forall i j, valid_idx shp i -> valid_idx shp j -> acell dst rd1 v1 i <> acell src rd2 v2 j) ->
    exists hf hs,
      elementwise2 f h dst src = Some hf /\
      idx_loop2 f h dst src (shape dst) (new_index (cm dst) 0) (Z.to_nat (product (shape dst))) = Some hs /\
      agree (length h) hf hs.
  Proof.
    intros D1 D2 Nn W1 SP1 W2 SP2 C1 C2 Disj.
    pose proof W1 as (E1 & B1 & S1). pose proof W2 as (E2 & B2 & S2).
    pose proof (in_box_dims_pos _ _ B1) as P. rewrite D1 in P.
    assert (PP : 0 < product shp) by (apply product_pos_all; exact P).
    assert (Sh : shape dst = shp) by (unfold shape; rewrite E1; exact D1).
    (* slow path *)
    assert (Slow : exists hs,
               idx_loop2 f h dst src (shape dst) (new_index (cm dst) 0) (Z.to_nat (product (shape dst))) = Some hs /\
               ew_post f h (rcell dst rd1 v1 shp) (rcell src rd2 v2 shp) (product shp) hs).
    { destruct (idx_loop2_writes f h dst src rd1 v1 rd2 v2 W1 SP1 W2 ltac:(congruence)
                  ltac:(rewrite D1; exact Disj)) as (ws & hs & _ & EL & Hw & _ & Po & _).
      rewrite D1 in EL, Po. exists hs. split; [|exact Po].
      rewrite Sh, new_index_zeros, E1. cbn [dims conc]. rewrite D1, <- unravel_zero by exact P. rewrite EL. exact Hw. }
    destruct Slow as (hs & SlowE & Po1 & Po2).
    (* fast path: the two Unrolls *)
    destruct (unroll_cases h dst rd1 v1 W1 SP1 ltac:(rewrite D1; exact Nn)) as (h1 & gd & U1 & X1 & A1 & SO1 & R1 & Cs1).
    rewrite D1 in SO1, R1, Cs1.
    assert (W2' : wf_arr h1 src rd2 v2) by (eapply wf_arr_hext; eauto).
    destruct (unroll_cases h1 src rd2 v2 W2' SP2 ltac:(rewrite D2; exact Nn)) as (h2 & gs & U2 & X2 & A2 & SO2 & R2 & Cs2).
    rewrite D2 in SO2, R2, Cs2.
    assert (Lgd : glen gd = product shp) by (cbn [storage_ok] in SO1; destruct SO1 as (l & _ & L & _); exact L).
    assert (Lgs : glen gs = product shp) by (cbn [storage_ok] in SO2; destruct SO2 as (l & _ & L & _); exact L).
    assert (Bgd : (gbuf gd < length h1)%nat).
    { cbn [storage_ok] in SO1. destruct SO1 as (l & El & _). apply nth_error_Some. congruence. }
    assert (LH1 : (length h <= length h1)%nat) by (destruct X1; assumption).
    assert (LH2 : (length h1 <= length h2)%nat) by (destruct X2; assumption).
    (* the operands seen through the two slices are the original elements *)
    assert (RD : forall t, 0 <= t < product shp -> cread h2 (gcell gd t) = cread h (rcell dst rd1 v1 shp t)).
    { intros t Ht. destruct (rcell_read h dst rd1 v1 shp t D1 W1) as [R _]. rewrite R, <- R1 by exact Ht.
      rewrite gread_cread by lia. unfold cread, gcell; cbn [fst snd]. symmetry. apply A2. exact Bgd. }
    assert (RS : forall t, 0 <= t < product shp -> cread h2 (gcell gs t) = cread h (rcell src rd2 v2 shp t)).
    { intros t Ht. unfold gcell. rewrite <- gread_cread by lia. rewrite R2 by exact Ht.
      destruct (rcell_read h1 src rd2 v2 shp t D2 W2') as [R _]. rewrite <- R.
      unfold cread. symmetry. apply A1. apply (acell_buf_lt h src rd2 v2 _ W2). }
    (* the two slices do not overlap *)
    assert (DisjG : forall t t', 0 <= t < product shp -> 0 <= t' < product shp -> gcell gd t <> gcell gs t').
    { intros t t' Ht Ht'.
      destruct Cs1 as [(_ & -> & Al1)|(_ & Gb1 & L1)]; destruct Cs2 as [(_ & -> & Al2)|(_ & Gb2 & L2)].
      - rewrite <- Al1, <- Al2 by assumption. apply Disj; apply unravel_valid; exact P.
      - rewrite <- Al1 by assumption. intros C. apply (f_equal fst) in C. cbn [gcell fst] in C.
        pose proof (acell_buf_lt h dst rd1 v1 (unravel shp t) W1) as Lt. unfold rcell in C. lia.
      - rewrite <- Al2 by assumption. intros C. apply (f_equal fst) in C. cbn [gcell fst] in C.
        pose proof (acell_buf_lt h src rd2 v2 (unravel shp t') W2) as Lt. unfold rcell in C. lia.
      - intros C. apply (f_equal fst) in C. cbn [gcell fst] in C. lia. }
    (* the loop over the flat slices *)
    destruct (cell_loop_post f h2 (gcell gd) (gcell gs) (product shp)) as (ws3 & h3 & _ & EL3 & Hw3 & _ & [Po31 Po32] & X3).
    { lia. }
    { intros t t' _ _ E. unfold gcell in E. inversion E. lia. }
    { exact DisjG. }
    { intros t Ht. rewrite RD by exact Ht. destruct (rcell_read h dst rd1 v1 shp t D1 W1) as [R [x Hx]]. exists x. congruence. }
    { intros t Ht. rewrite RS by exact Ht. destruct (rcell_read h src rd2 v2 shp t D2 W2) as [R [x Hx]]. exists x. congruence. }
    assert (SL : slices_loop f h2 gd gs 0 (Z.to_nat (glen gd)) = Some h3).
    { rewrite slices_loop_cell_loop by lia. rewrite Lgd, EL3. exact Hw3. }
    assert (LH3 : (length h2 <= length h3)%nat) by (destruct X3; assumption).
    (* ArrayFromSlice(destSlice, dest.Shape()) *)
    assert (SO3 : storage_ok h3 (GoImpl gd) shp).
    { eapply storage_ok_hext; [exact X3|]. eapply storage_ok_hext; [exact X2|exact SO1]. }
    destruct (fresh_root_wf h3 gd shp P Nn SO3) as (tmp & FR & Itmp & Shtmp & Wtmp & Ctmp).
    assert (W1_3 : wf_arr h3 dst rd1 v1).
    { eapply wf_arr_hext; [|exact W1]. eapply hext_trans; [exact X1|]. eapply hext_trans; [exact X2|exact X3]. }
    (* whatever way the final CopyFrom performs its writes, the result agrees with the slow path *)
    assert (Fin : forall hX wsc, hext h3 hX -> agree (length h3) h3 hX ->
               copy_ws h3 dst tmp rd1 v1 shp (idview shp) shp 0 (Z.to_nat (product shp)) = Some wsc ->
               exists hf, writes hX wsc = Some hf /\ agree (length h) hf hs).
    { intros hX wsc XX AX Ewc.
      destruct (copy_ws_writes_post h3 hX dst tmp rd1 v1 shp (idview shp) shp wsc D1 B1 SP1 Ewc) as (hf & Hwf & Pf1 & Pf2).
      { intros t Ht. eapply cell_ok_hext; [exact XX|]. apply acell_ok; [exact W1_3|rewrite D1; apply unravel_valid; exact P]. }
      exists hf. split; [exact Hwf|]. intros b a Hb.
      destruct (in_dec cell_eq_dec (b, a) (map (fun t => rcell dst rd1 v1 shp (Z.of_nat t)) (seq 0 (Z.to_nat (product shp)))))
        as [I|NI].
      - apply in_map_iff in I as (t & Et & It). apply in_seq in It.
        assert (Ht : 0 <= Z.of_nat t < product shp) by lia.
        destruct (Po1 _ Ht) as (d & s & Hd & Hs & Hn).
        destruct (Pf1 _ Ht) as (x & Hx & Hfx). rewrite (Ctmp _ Ht) in Hx.
        destruct (Po31 _ Ht) as (d' & s' & Hd' & Hs' & Hn').
        rewrite RD in Hd' by exact Ht. rewrite RS in Hs' by exact Ht.
        assert (Edd : d' = d) by congruence. assert (Ess : s' = s) by congruence. subst d' s'.
        unfold cread in Hn, Hfx. rewrite Et in Hn, Hfx. cbn [fst snd] in Hn, Hfx. congruence.
      - assert (Nc : forall t, 0 <= t < product shp -> (b, a) <> rcell dst rd1 v1 shp t).
        { intros t Ht E. apply NI. apply in_map_iff. exists (Z.to_nat t).
          split; [rewrite Z2Nat.id by lia; symmetry; exact E|apply in_seq; lia]. }
        assert (Ng : forall t, 0 <= t < product shp -> (b, a) <> gcell gd t).
        { intros t Ht. destruct Cs1 as [(_ & _ & Al1)|(_ & Gb1 & _)].
          - rewrite <- Al1 by exact Ht. apply Nc; exact Ht.
          - intros C. apply (f_equal fst) in C. cbn [gcell fst] in C. lia. }
        rewrite (Pf2 b a Nc), (Po2 b a Nc), <- (AX b a) by lia. rewrite (Po32 b a Ng), <- (A2 b a) by lia.
        symmetry. apply A1. exact Hb. }
    (* the final CopyFrom *)
    assert (Sl : slice dst (new_index (cm dst) 0) shp None = Some dst).
    { destruct dst as [c1 m1]. cbn [cm] in *. subst c1. rewrite <- D1. apply slice_self. exact B1. }
    assert (CF : exists hf, copy_from h3 dst tmp = Some hf /\ agree (length h) hf hs).
    { unfold copy_from, apply_slice. cbv zeta. rewrite Shtmp, Sl.
      destruct (im dst) as [g|bb] eqn:Im.
      - (* Go-backed destination: destSlice aliases the storage, CopyFrom is a self-copy *)
        destruct Cs1 as [(_ & Eh1 & Al1)|(Ngo & _)]; [|exfalso; apply (Ngo g eq_refl); exact C1]. subst h1.
        rewrite C1. rewrite (unroll_go_heap_indep h h3 dst g gd Im C1 U1).
        destruct (unroll_cases h3 tmp shp (idview shp) Wtmp (idview_steps_pos shp) Nn) as (h4 & gs' & U4 & X4 & A4 & SO4 & R4 & _).
        cbn [idview adims] in SO4, R4. rewrite U4.
        assert (Lgs' : glen gs' = product shp) by (cbn [storage_ok] in SO4; destruct SO4 as (l & _ & L & _); exact L).
        destruct (gread_all_some h4 gs' (Z.to_nat (glen gs')) 0) as [svals Gv].
        { intros t Ht. rewrite Z.add_0_l, R4 by lia.
          destruct (rcell_read h3 tmp shp (idview shp) shp (Z.of_nat t) eq_refl Wtmp) as [_ [x Hx]]. eauto. }
        destruct (gread_all_spec h4 gs' _ _ _ Gv) as [Lsv Nsv]. rewrite Lgs' in Lsv, Nsv.
        unfold gvalues. rewrite Gv.
        destruct (copy_to_is_copy_ws h3 dst tmp rd1 v1 shp (idview shp) shp gd svals 0 h4) as (wsc & Ewc & Ecp);
          [lia|rewrite Lsv; lia| |].
        { intros t Ht. rewrite Z.add_0_l. split; [apply Al1; lia|].
          rewrite Nsv by lia. rewrite Z.add_0_l, R4 by lia.
          apply get_as_hread; [exact Wtmp|cbn [idview adims]; apply unravel_valid; exact P]. }
        rewrite Ecp. rewrite Lsv in Ewc. exact (Fin h4 wsc X4 A4 Ewc).
      - (* C-backed destination: destSlice is a gathered copy, CopyFrom writes it back by the index loop *)
        destruct Cs1 as [((g0 & Eg & _) & _)|(_ & Gb1 & L1)]; [congruence|].
        pose proof Wtmp as (Etmp & Btmp & Stmp).
        assert (DisjT : forall i j, valid_idx shp i -> valid_idx shp j ->
                   acell dst rd1 v1 i <> acell tmp shp (idview shp) j).
        { intros i j Vi Vj C. apply (f_equal fst) in C. unfold acell at 2 in C. rewrite Itmp in C. cbn [cell_of fst] in C.
          pose proof (acell_buf_lt h dst rd1 v1 i W1) as Lt. lia. }
        destruct W1_3 as (_ & _ & S1_3).
        destruct (idx_copy_loop_writes h3 dst tmp rd1 v1 shp (idview shp) shp D1 eq_refl P B1 Btmp E1 Etmp DisjT
                    (Z.to_nat (product shp)) 0 h3 ltac:(lia) ltac:(lia) S1_3 Stmp ltac:(intros; reflexivity))
          as (wsc & Ewc & Eloop).
        rewrite new_index_zeros, E1. cbn [dims conc]. rewrite D1, <- unravel_zero by exact P.
        rewrite Eloop. exact (Fin h3 wsc (hext_refl _) (fun _ _ _ => eq_refl) Ewc). }
    destruct CF as (hf & CFe & Ag). exists hf, hs. split; [|split; [exact SlowE|exact Ag]].
    unfold elementwise2. rewrite C1, C2, U1, U2, SL, Sh, FR. exact CFe.
  Qed.
End M.

Section T.
  Context {V : Type}.
  Notation heap := (@heap V).

  (** ** C02: the contiguous fast path of ApplyFunc1 / Scale / AddTo and the index loop leave the
      same contents in every pre-existing buffer (Go- or C-backed destination and source) *)
  Theorem elementwise2_fast_eq_slow (f : V -> V -> V) (h : heap) (dst src : arr) rd1 v1 rd2 v2 :
    wf_arr h dst rd1 v1 -> steps_pos v1 -> wf_arr h src rd2 v2 -> steps_pos v2 ->
    adims v1 = adims v2 -> adims v1 <> [] ->
    contiguous (cm dst) = Some true -> contiguous (cm src) = Some true ->
    (forall i j, valid_idx (adims v1) i -> valid_idx (adims v1) j -> acell dst rd1 v1 i <> acell src rd2 v2 j) ->
    exists hf hs,
      elementwise2 f h dst src = Some hf /\
      idx_loop2 f h dst src (shape dst) (new_index (cm dst) 0) (Z.to_nat (product (shape dst))) = Some hs /\
      agree (length h) hf hs.
  Proof.
    intros W1 SP1 W2 SP2 D N C1 C2 Disj.
    exact (elementwise2_core f h dst src rd1 v1 rd2 v2 (adims v1) eq_refl (eq_sym D) N W1 SP1 W2 SP2 C1 C2 Disj).
  Qed.

  (** every path of the operation only appends buffers and keeps the existing ones' sizes *)
  Lemma hext_slices_loop_gen f gd gs : forall n (h : heap) i h', slices_loop f h gd gs i n = Some h' -> hext h h'.
  Proof.
    induction n as [|n IH]; intros h i h' H; cbn [slices_loop] in H; [inversion H; apply hext_refl|].
    destruct (gread h gd i) as [d|]; [|discriminate]. destruct (gread h gs i) as [s|]; [|discriminate].
    destruct (gwrite h gd i (f d s)) as [h1|] eqn:W; [|discriminate].
    eapply hext_trans; [eapply hext_gwrite; eauto|eapply IH; eauto].
  Qed.

  Lemma hext_idx_loop2_gen f dst src shp : forall n (h : heap) idx h', idx_loop2 f h dst src shp idx n = Some h' -> hext h h'.
  Proof.
    induction n as [|n IH]; intros h idx h' H; cbn [idx_loop2] in H; [inversion H; apply hext_refl|].
    destruct (get h dst idx) as [d|]; [|discriminate]. destruct (get h src idx) as [s|]; [|discriminate].
    destruct (set h dst idx (f d s)) as [h1|] eqn:W; [|discriminate]. destruct (increment idx shp); [|discriminate].
    eapply hext_trans; [eapply hext_set; eauto|eapply IH; eauto].
  Qed.

  Lemma hext_elementwise2_gen f (h : heap) dst src h' : elementwise2 f h dst src = Some h' -> hext h h'.
  Proof.
    unfold elementwise2. destruct (contiguous (cm dst)) as [[|]|]; try discriminate;
      destruct (contiguous (cm src)) as [[|]|]; try discriminate; try (apply hext_idx_loop2_gen).
    destruct (unroll h dst) as [[h1 gd]|] eqn:U1; [|discriminate].
    destruct (unroll h1 src) as [[h2 gs]|] eqn:U2; [|discriminate].
    destruct (slices_loop f h2 gd gs 0 (Z.to_nat (glen gd))) as [h3|] eqn:SL; [|discriminate].
    destruct (fresh_root (shape dst) (GoImpl gd) 0); [|discriminate]. intros C.
    eapply hext_trans; [eapply hext_unroll; eauto|]. eapply hext_trans; [eapply hext_unroll; eauto|].
    eapply hext_trans; [eapply hext_slices_loop_gen; eauto|]. unfold copy_from in C. eapply hext_apply_slice; eauto.
  Qed.

  (** ** functional correctness of ApplyFunc1 / Scale / AddTo on whichever path is taken:
      dst[i] := f dst[i] src[i]; the source and every other pre-existing cell keep their contents *)
  Theorem elementwise2_spec (f : V -> V -> V) (h : heap) (dst src : arr) rd1 v1 rd2 v2 :
    wf_arr h dst rd1 v1 -> steps_pos v1 -> wf_arr h src rd2 v2 -> steps_pos v2 ->
    adims v1 = adims v2 -> adims v1 <> [] ->
    (forall i j, valid_idx (adims v1) i -> valid_idx (adims v1) j -> acell dst rd1 v1 i <> acell src rd2 v2 j) ->
    exists hf,
      elementwise2 f h dst src = Some hf /\
      (forall i, valid_idx (adims v1) i -> exists d s,
          get h dst i = Some d /\ get h src i = Some s /\ get hf dst i = Some (f d s)) /\
      (forall i, valid_idx (adims v1) i -> get hf src i = get h src i) /\
      (forall b a, (b < length h)%nat -> (forall i, valid_idx (adims v1) i -> (b, a) <> acell dst rd1 v1 i) ->
                   hread hf b a = hread h b a).
  Proof.
    intros W1 SP1 W2 SP2 D N Disj.
    pose proof W1 as (E1 & B1 & S1). pose proof W2 as (E2 & B2 & S2).
    destruct (idx_loop2_spec f h dst src rd1 v1 rd2 v2 W1 SP1 W2 D Disj) as (hs & Es & G1 & G2 & Fr).
    assert (Key : exists hf, elementwise2 f h dst src = Some hf /\ agree (length h) hf hs).
    { destruct (contiguous_iff_adjacent rd1 v1 B1 SP1) as (b1 & Cb1 & _). rewrite <- E1 in Cb1.
      destruct (contiguous_iff_adjacent rd2 v2 B2 SP2) as (b2 & Cb2 & _). rewrite <- E2 in Cb2.
      assert (SlowCase : b1 && b2 = false -> exists hf, elementwise2 f h dst src = Some hf /\ agree (length h) hf hs).
      { intros Eb. exists hs. split; [|intros ? ? ?; reflexivity]. unfold elementwise2. rewrite Cb1, Cb2.
        destruct b1, b2; try discriminate; exact Es. }
      destruct b1; [|apply SlowCase; reflexivity]. destruct b2; [|apply SlowCase; reflexivity].
      destruct (elementwise2_fast_eq_slow f h dst src rd1 v1 rd2 v2 W1 SP1 W2 SP2 D N Cb1 Cb2 Disj) as (hf & hs' & Ef & Es' & Ag).
      exists hf. split; [exact Ef|]. assert (Ehs : hs' = hs) by congruence. subst hs'. exact Ag. }
    destruct Key as (hf & Ef & Ag). exists hf. split; [exact Ef|].
    pose proof (hext_elementwise2_gen f h dst src hf Ef) as Xf.
    pose proof (hext_idx_loop2_gen f dst src _ _ _ _ _ Es) as Xs.
    split; [|split].
    - intros i Vi. destruct (G1 i Vi) as (d & s & Hd & Hs & Hn). exists d, s. split; [exact Hd|]. split; [exact Hs|].
      rewrite <- Hn.
      rewrite (get_as_hread hf dst rd1 v1 i (wf_arr_hext _ _ _ _ _ Xf W1) Vi),
              (get_as_hread hs dst rd1 v1 i (wf_arr_hext _ _ _ _ _ Xs W1) Vi).
      apply Ag. apply (acell_buf_lt h dst rd1 v1 i W1).
    - intros i Vi. rewrite <- (G2 i Vi). assert (Vi2 : valid_idx (adims v2) i) by (rewrite <- D; exact Vi).
      rewrite (get_as_hread hf src rd2 v2 i (wf_arr_hext _ _ _ _ _ Xf W2) Vi2),
              (get_as_hread hs src rd2 v2 i (wf_arr_hext _ _ _ _ _ Xs W2) Vi2).
      apply Ag. apply (acell_buf_lt h src rd2 v2 i W2).
    - intros b a Hb Nc. rewrite (Ag b a Hb). apply Fr. exact Nc.
  Qed.
End T.

(** non-vacuity: the hypotheses hold on a concrete heap with two 2x3 Go-backed roots, and there
    the two paths compute the same heap (Unroll aliases, the final CopyFrom is a self-copy) *)
Example elementwise2_fast_eq_slow_go_concrete :
  exists h0 a h b,
    new_go (V:=Z) [] [2; 3] [1; 2; 3; 4; 5; 6] = Some (h0, a) /\
    new_go h0 [2; 3] [10; 20; 30; 40; 50; 60] = Some (h, b) /\
    (wf_arr h a [2; 3] (idview [2; 3]) /\ steps_pos (idview [2; 3]) /\ wf_arr h b [2; 3] (idview [2; 3]) /\
     adims (idview [2; 3]) <> [] /\ contiguous (cm a) = Some true /\ contiguous (cm b) = Some true /\
     forall i j, valid_idx (adims (idview [2; 3])) i -> valid_idx (adims (idview [2; 3])) j ->
       acell a [2; 3] (idview [2; 3]) i <> acell b [2; 3] (idview [2; 3]) j) /\
    elementwise2 Z.add h a b = Some [[11; 22; 33; 44; 55; 66]; [10; 20; 30; 40; 50; 60]] /\
    idx_loop2 Z.add h a b (shape a) (new_index (cm a) 0) (Z.to_nat (product (shape a)))
      = Some [[11; 22; 33; 44; 55; 66]; [10; 20; 30; 40; 50; 60]].
Proof.
  do 4 eexists. split; [vm_compute; reflexivity|]. split; [vm_compute; reflexivity|]. split; [|split; vm_compute; reflexivity].
  assert (P : Forall (fun d => 0 < d) [2; 3]) by (repeat constructor; lia).
  split; [|split; [apply idview_steps_pos|split; [|split; [discriminate|split; [vm_compute; reflexivity|split; [vm_compute; reflexivity|]]]]]].
  - split; [vm_compute; reflexivity|]. split; [apply idview_in_box; exact P|].
    cbn [im storage_ok]. eexists. split; [vm_compute; reflexivity|]. vm_compute. repeat split; discriminate.
  - split; [vm_compute; reflexivity|]. split; [apply idview_in_box; exact P|].
    cbn [im storage_ok]. eexists. split; [vm_compute; reflexivity|]. vm_compute. repeat split; discriminate.
  - intros i j _ _ C. apply (f_equal fst) in C. vm_compute in C. discriminate.
Qed.

(** the same with C-backed arrays: both Unrolls gather into fresh buffers (2 and 3), the final
    CopyFrom writes the results back; the pre-existing buffers 0 and 1 end up the same *)
Example elementwise2_fast_eq_slow_c_concrete :
  exists h0 a h b,
    new_c (V:=Z) [] [2; 3] [1; 2; 3; 4; 5; 6] = Some (h0, a) /\
    new_c h0 [2; 3] [10; 20; 30; 40; 50; 60] = Some (h, b) /\
    (wf_arr h a [2; 3] (idview [2; 3]) /\ wf_arr h b [2; 3] (idview [2; 3]) /\
     contiguous (cm a) = Some true /\ contiguous (cm b) = Some true /\
     forall i j, valid_idx (adims (idview [2; 3])) i -> valid_idx (adims (idview [2; 3])) j ->
       acell a [2; 3] (idview [2; 3]) i <> acell b [2; 3] (idview [2; 3]) j) /\
    elementwise2 Z.add h a b = Some [[11; 22; 33; 44; 55; 66]; [10; 20; 30; 40; 50; 60];
                                     [11; 22; 33; 44; 55; 66]; [10; 20; 30; 40; 50; 60]] /\
    idx_loop2 Z.add h a b (shape a) (new_index (cm a) 0) (Z.to_nat (product (shape a)))
      = Some [[11; 22; 33; 44; 55; 66]; [10; 20; 30; 40; 50; 60]].
Proof.
  do 4 eexists. split; [vm_compute; reflexivity|]. split; [vm_compute; reflexivity|]. split; [|split; vm_compute; reflexivity].
  assert (P : Forall (fun d => 0 < d) [2; 3]) by (repeat constructor; lia).
  split; [|split; [|split; [vm_compute; reflexivity|split; [vm_compute; reflexivity|]]]].
  - split; [vm_compute; reflexivity|]. split; [apply idview_in_box; exact P|].
    cbn [im storage_ok]. eexists. split; vm_compute; reflexivity.
  - split; [vm_compute; reflexivity|]. split; [apply idview_in_box; exact P|].
    cbn [im storage_ok]. eexists. split; vm_compute; reflexivity.
  - intros i j _ _ C. apply (f_equal fst) in C. vm_compute in C. discriminate.
Qed.

Print Assumptions idx_loop2_writes.
Print Assumptions idx_loop2_spec.
Print Assumptions elementwise2_spec.
Print Assumptions elementwise2_fast_eq_slow.
