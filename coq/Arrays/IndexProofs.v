(** Index algebra of strided views (C01/C02): dot products, slice composition,
    row-major ravel is a bijection, root arrays address by ravel. *)
From Coq Require Import ZArith List Bool Lia.
From OW Require Import Arrays.IntOps Arrays.View.
Import ListNotations.
Local Open Scope Z_scope.

(** * vectors *)
Fixpoint zipw (f : Z -> Z -> Z) (a b : list Z) : list Z :=
  match a, b with
  | x :: a', y :: b' => f x y :: zipw f a' b'
  | _, _ => []
  end.
Definition vadd := zipw Z.add.
Definition vmul := zipw Z.mul.

Lemma zipw_length f a b : length a = length b -> length (zipw f a b) = length a.
Proof. revert b; induction a as [|x a IH]; intros [|y b] H; cbn in *; try lia. rewrite IH; lia. Qed.

Lemma vmul_length a b : length a = length b -> length (vmul a b) = length a.
Proof. apply zipw_length. Qed.
Lemma vadd_length a b : length a = length b -> length (vadd a b) = length a.
Proof. apply zipw_length. Qed.

Lemma multiply_vmul l r : length l = length r -> multiply l r = Some (vmul l r).
Proof.
  revert r; induction l as [|x l IH]; intros [|y r] H; cbn in *; try lia; [reflexivity|].
  rewrite IH by lia. reflexivity.
Qed.

Lemma multiply_some l r m : multiply l r = Some m -> (length l <= length r)%nat /\ m = vmul l (firstn (length l) r).
Proof.
  revert r m; induction l as [|x l IH]; intros r m H; cbn in *.
  - inversion H; split; [lia|reflexivity].
  - destruct r as [|y r]; [discriminate|]. destruct (multiply l r) eqn:E; cbn in H; [|discriminate].
    inversion H; subst. apply IH in E as [L E]. cbn. split; [lia|]. now rewrite E.
Qed.

Lemma dot_some l r : (length l <= length r)%nat -> exists k, dot l r = Some k.
Proof.
  revert r; induction l as [|x l IH]; intros r H; cbn; [eauto|].
  destruct r as [|y r]; cbn in H; [lia|]. destruct (IH r ltac:(lia)) as [k ->]. cbn; eauto.
Qed.

(** total version used in statements *)
Fixpoint dotz (l r : list Z) : Z :=
  match l, r with x :: l', y :: r' => x * y + dotz l' r' | _, _ => 0 end.

Lemma dot_dotz l r : (length l <= length r)%nat -> dot l r = Some (dotz l r).
Proof.
  revert r; induction l as [|x l IH]; intros r H; cbn; [reflexivity|].
  destruct r as [|y r]; cbn in H; [lia|]. rewrite IH by lia. reflexivity.
Qed.

Lemma dot_none l r : (length r < length l)%nat -> dot l r = None.
Proof.
  revert r; induction l as [|x l IH]; intros r H; cbn in *; [lia|].
  destruct r as [|y r]; [reflexivity|]. cbn in H. rewrite IH by lia. reflexivity.
Qed.

Lemma dotz_vadd a b w : length a = length b -> dotz (vadd a b) w = dotz a w + dotz b w.
Proof.
  revert b w; induction a as [|x a IH]; intros [|y b] w H; cbn in *; try lia.
  destruct w as [|z w]; [lia|]. cbn. rewrite IH by lia. lia.
Qed.

Lemma dotz_vmul_assoc i s w : dotz (vmul i s) w = dotz i (vmul s w).
Proof.
  revert s w; induction i as [|x i IH]; intros [|y s] [|z w]; cbn; try reflexivity.
  rewrite IH. lia.
Qed.

Lemma vmul_assoc a b c : vmul (vmul a b) c = vmul a (vmul b c).
Proof. revert b c; induction a as [|x a IH]; intros [|y b] [|z c]; cbn; try reflexivity. rewrite IH. f_equal. lia. Qed.

Lemma vmul_comm a b : vmul a b = vmul b a.
Proof. revert b; induction a as [|x a IH]; intros [|y b]; cbn; try reflexivity. rewrite IH. f_equal. lia. Qed.

Lemma vmul_ones_l n a : length a = n -> vmul (uniform n 1) a = a.
Proof. revert a; induction n as [|n IH]; intros [|x a] H; cbn in *; try lia; try reflexivity. rewrite IH by lia. f_equal. now destruct x. Qed.

Lemma dotz_zeros_r n w : dotz (uniform n 0) w = 0.
Proof. revert w; induction n as [|n IH]; intros [|z w]; cbn; try reflexivity. rewrite IH. lia. Qed.

(** * the well-formedness that SliceInto preserves: OffsetStep = Step * Offset, equal ranks *)
Definition wf_common (c : common) : Prop :=
  length (step c) = length (offset c) /\ offstep c = vmul (step c) (offset c).

Definition step_or_ones (c : common) (st : option (list Z)) : list Z :=
  match st with Some s => s | None => uniform (length (step c)) 1 end.

Lemma slice_into_some c loc d st :
  wf_common c -> length loc = length (offset c) ->
  (forall s, st = Some s -> length s = length (offset c)) ->
  slice_into c loc d st =
  Some (mkCommon (odims c) d (start c + dotz loc (offstep c)) (offset c)
                 (vmul (step c) (step_or_ones c st)) (vmul (vmul (step c) (step_or_ones c st)) (offset c))).
Proof.
  intros [L E] Hl Hs. unfold slice_into.
  rewrite dot_dotz by (rewrite E, vmul_length; lia).
  destruct st as [s|]; cbn [step_or_ones].
  - specialize (Hs s eq_refl). rewrite multiply_vmul by lia.
    rewrite multiply_vmul by (rewrite vmul_length; lia). reflexivity.
  - rewrite (vmul_comm (step c)), vmul_ones_l by reflexivity.
    rewrite multiply_vmul by lia. reflexivity.
Qed.

Lemma slice_into_wf c loc d st c' :
  wf_common c -> length loc = length (offset c) ->
  (forall s, st = Some s -> length s = length (offset c)) ->
  slice_into c loc d st = Some c' -> wf_common c'.
Proof.
  intros W Hl Hs H. rewrite (slice_into_some c loc d st W Hl Hs) in H. inversion H; subst; clear H.
  destruct W as [L E]. split; cbn; [|reflexivity].
  rewrite vmul_length; [lia|]. destruct st as [s|]; cbn; [rewrite (Hs s eq_refl); lia|].
  unfold uniform; rewrite repeat_length; reflexivity.
Qed.

(** ** C01, first sentence: element i of slice(loc, dims, step) is element loc + i*step of the parent *)
Theorem index_slice c loc d st c' i :
  wf_common c -> length loc = length (offset c) ->
  (forall s, st = Some s -> length s = length (offset c)) ->
  slice_into c loc d st = Some c' ->
  length i = length loc ->
  index c' i = index c (vadd loc (vmul i (step_or_ones c st))).
Proof.
  intros W Hl Hs H Hi. pose proof W as [L E].
  rewrite (slice_into_some c loc d st W Hl Hs) in H. inversion H; subst; clear H.
  assert (Lst : length (step_or_ones c st) = length (offset c)).
  { destruct st as [s|]; cbn; [apply Hs; reflexivity|]. unfold uniform; rewrite repeat_length; lia. }
  unfold index; cbn [start offstep].
  rewrite !dot_dotz.
  - cbn. f_equal. rewrite dotz_vadd by (rewrite vmul_length; lia).
    rewrite E. rewrite !dotz_vmul_assoc. rewrite (vmul_assoc (step c)).
    rewrite <- (vmul_assoc (step_or_ones c st)), (vmul_comm (step_or_ones c st) (step c)), vmul_assoc. lia.
  - rewrite E, vadd_length, vmul_length; rewrite ?vmul_length; lia.
  - rewrite !vmul_length; rewrite ?vmul_length; lia.
Qed.

(** ** chains of nested slices, any depth *)
Record sarg := mkSarg { s_loc : list Z; s_dims : list Z; s_step : option (list Z) }.

Fixpoint slice_chain (c : common) (ch : list sarg) : option common :=
  match ch with
  | [] => Some c
  | a :: r => match slice_into c (s_loc a) (s_dims a) (s_step a) with
              | Some c' => slice_chain c' r
              | None => None
              end
  end.

(** the multi-index of the ROOT view addressed by index i of the last view of the chain *)
Fixpoint compose_chain (c : common) (ch : list sarg) (i : list Z) : list Z :=
  match ch with
  | [] => i
  | a :: r =>
      match slice_into c (s_loc a) (s_dims a) (s_step a) with
      | Some c' => vadd (s_loc a) (vmul (compose_chain c' r i) (step_or_ones c (s_step a)))
      | None => i
      end
  end.

Definition sarg_ok (n : nat) (a : sarg) : Prop :=
  length (s_loc a) = n /\ (forall s, s_step a = Some s -> length s = n).

Theorem index_slice_chain ch : forall c c' i,
  wf_common c -> Forall (sarg_ok (length (offset c))) ch ->
  slice_chain c ch = Some c' -> length i = length (offset c) ->
  index c' i = index c (compose_chain c ch i) /\ length (compose_chain c ch i) = length (offset c).
Proof.
  induction ch as [|a r IH]; intros c c' i W F H Hi; cbn in *.
  - inversion H; subst. split; [reflexivity|exact Hi].
  - inversion F as [|? ? [Hl Hs] F']; subst.
    destruct (slice_into c (s_loc a) (s_dims a) (s_step a)) as [c1|] eqn:E; [|discriminate].
    assert (W1 := slice_into_wf _ _ _ _ _ W Hl Hs E).
    assert (O1 : offset c1 = offset c).
    { rewrite (slice_into_some _ _ _ _ W Hl Hs) in E. inversion E; reflexivity. }
    destruct (IH c1 c' i W1 ltac:(rewrite O1; exact F') H ltac:(rewrite O1; exact Hi)) as [I1 L1].
    rewrite I1, O1 in *. split.
    + apply (index_slice c (s_loc a) (s_dims a) (s_step a) c1); auto. lia.
    + assert (Lst : length (step_or_ones c (s_step a)) = length (offset c)).
      { destruct W as [L _]. destruct (s_step a) as [s|] eqn:Es; cbn; [apply Hs; reflexivity|].
        unfold uniform; rewrite repeat_length; lia. }
      rewrite vadd_length; rewrite ?vmul_length; lia.
Qed.

(** * row-major ravel *)
Lemma fold_mul_acc l : forall a, fold_left Z.mul l a = a * fold_left Z.mul l 1.
Proof.
  induction l as [|x l IH]; intros a; cbn [fold_left]; [lia|].
  rewrite (IH (a * x)), (IH (1 * x)). lia.
Qed.
Lemma product_cons d ds : product (d :: ds) = d * product ds.
Proof. unfold product. cbn [fold_left]. rewrite fold_mul_acc. lia. Qed.
Lemma product_nil : product [] = 1. Proof. reflexivity. Qed.

Fixpoint ravel (ds i : list Z) : Z :=
  match ds, i with
  | _ :: ds', x :: i' => x * product ds' + ravel ds' i'
  | _, _ => 0
  end.

Inductive valid_idx : list Z -> list Z -> Prop :=
| vi_nil : valid_idx [] []
| vi_cons d ds x i : 0 <= x < d -> valid_idx ds i -> valid_idx (d :: ds) (x :: i).

Lemma valid_idx_length ds i : valid_idx ds i -> length i = length ds.
Proof. induction 1; cbn; lia. Qed.

Lemma product_pos ds i : valid_idx ds i -> 0 < product ds.
Proof. induction 1; [reflexivity|]. rewrite product_cons. nia. Qed.

Lemma ravel_bounds ds i : valid_idx ds i -> 0 <= ravel ds i < product ds.
Proof.
  induction 1 as [|d ds x i Hx V IH]; [cbn; lia|cbn [ravel]].
  rewrite product_cons. pose proof (product_pos _ _ V). nia.
Qed.

Theorem ravel_inj ds i j : valid_idx ds i -> valid_idx ds j -> ravel ds i = ravel ds j -> i = j.
Proof.
  intros Vi; revert j; induction Vi as [|d ds x i Hx V IH]; intros j Vj E.
  - inversion Vj; reflexivity.
  - inversion Vj as [|? ? y j' Hy Vj']; subst. cbn in E.
    pose proof (ravel_bounds _ _ V). pose proof (ravel_bounds _ _ Vj').
    assert (x = y) by nia. subst y. f_equal. apply IH; [exact Vj'|lia].
Qed.

Lemma dotz_offsets ds i : length i = length ds -> dotz i (offsets_from ds) = ravel ds i.
Proof.
  revert i; induction ds as [|d ds IH]; intros [|x i] H; cbn in *; try lia; try reflexivity.
  rewrite IH by lia. reflexivity.
Qed.

Lemma offsets_from_length ds : length (offsets_from ds) = length ds.
Proof. induction ds; cbn; auto. Qed.

(** unravel: the inverse, by repeated division (what IDivMod computes) *)
Fixpoint unravel (ds : list Z) (k : Z) : list Z :=
  match ds with
  | [] => []
  | d :: ds' => (k / product ds') mod d :: unravel ds' k
  end.

Lemma unravel_ravel ds i : valid_idx ds i -> forall q, 0 <= q ->
  unravel ds (q * product ds + ravel ds i) = i.
Proof.
  induction 1 as [|d ds x i Hx V IH]; intros q Hq; cbn [unravel ravel]; [reflexivity|].
  pose proof (product_pos _ _ V) as P. pose proof (ravel_bounds _ _ V) as B.
  rewrite product_cons. f_equal.
  - replace (q * (d * product ds) + (x * product ds + ravel ds i))
      with ((q * d + x) * product ds + ravel ds i) by lia.
    rewrite Z.div_add_l by lia. rewrite (Z.div_small (ravel ds i)) by lia.
    rewrite Z.add_0_r. rewrite Z.add_comm, Z.mod_add by lia. apply Z.mod_small; lia.
  - replace (q * (d * product ds) + (x * product ds + ravel ds i))
      with ((q * d + x) * product ds + ravel ds i) by lia.
    apply IH. nia.
Qed.

Corollary unravel_ravel0 ds i : valid_idx ds i -> unravel ds (ravel ds i) = i.
Proof. intros V. pose proof (unravel_ravel ds i V 0 ltac:(lia)) as H. now rewrite Z.mul_0_l, Z.add_0_l in H. Qed.

Lemma unravel_valid ds k : Forall (fun d => 0 < d) ds -> valid_idx ds (unravel ds k).
Proof.
  induction 1 as [|d ds Hd F IH]; cbn; constructor; auto. apply Z.mod_pos_bound; lia.
Qed.

Lemma ravel_unravel ds k : Forall (fun d => 0 < d) ds -> 0 <= k < product ds -> ravel ds (unravel ds k) = k.
Proof.
  intros F; revert k; induction F as [|d ds Hd F IH]; intros k Hk; cbn [unravel ravel].
  - rewrite product_nil in Hk. lia.
  - rewrite product_cons in Hk.
    assert (P : 0 < product ds).
    { clear -F. induction F; [reflexivity|]. rewrite product_cons; nia. }
    rewrite (Z.mod_small (k / product ds)).
    2:{ split; [apply Z.div_pos; lia|]. apply Z.div_lt_upper_bound; lia. }
    assert (E : ravel ds (unravel ds k) = k mod product ds).
    { clear IH Hk Hd. revert k. induction F as [|e es He Fe IHe]; intros k; cbn [unravel ravel].
      - rewrite product_nil, Z.mod_1_r; reflexivity.
      - rewrite product_cons.
        assert (Pe : 0 < product es).
        { clear -Fe. induction Fe; [reflexivity|]. rewrite product_cons; nia. }
        rewrite IHe by (rewrite product_cons in P; nia).
        rewrite (Z.mul_comm e), Z.rem_mul_r by lia. lia. }
    rewrite E. pose proof (Z.div_mod k (product ds) ltac:(lia)). lia.
Qed.

Lemma uniform_length n v : length (uniform n v) = n.
Proof. apply repeat_length. Qed.

(** * root arrays address their elements by ravel *)
Lemma root_common_spec ds : ds <> [] ->
  root_common ds = Some (mkCommon ds ds 0 (offsets_from ds) (uniform (length ds) 1) (offsets_from ds)).
Proof.
  intros N. unfold root_common, offsets. destruct ds as [|d r]; [congruence|]. cbv zeta.
  rewrite multiply_vmul by (rewrite uniform_length, offsets_from_length; reflexivity).
  rewrite vmul_ones_l by (rewrite offsets_from_length; reflexivity). reflexivity.
Qed.

Lemma root_wf ds c : root_common ds = Some c -> wf_common c /\ offset c = offsets_from ds /\ odims c = ds /\ dims c = ds /\ start c = 0.
Proof.
  intros H. assert (N : ds <> []) by (intro; subst; discriminate).
  rewrite root_common_spec in H by exact N.
  inversion H; subst; clear H. unfold wf_common. cbn [offset odims dims start step offstep].
  repeat split.
  - now rewrite uniform_length, offsets_from_length.
  - symmetry. apply vmul_ones_l. now rewrite offsets_from_length.
Qed.

Theorem root_index ds c i : root_common ds = Some c -> length i = length ds ->
  index c i = Some (ravel ds i).
Proof.
  intros H Hi. assert (N : ds <> []) by (intro; subst; discriminate).
  rewrite root_common_spec in H by exact N.
  inversion H; subst; clear H. unfold index; cbn [start offstep].
  rewrite dot_dotz by (rewrite offsets_from_length; lia). rewrite dotz_offsets by exact Hi. reflexivity.
Qed.
