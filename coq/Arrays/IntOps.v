(** Integer index helpers of data/sliceops.go and data/arraysint.go, over Z.
    [None] = the Go code panics (index out of range, division by zero). *)
From Coq Require Import ZArith List Bool.
Import ListNotations.
Local Open Scope Z_scope.

Definition product (l : list Z) : Z := fold_left Z.mul l 1.

(** result has the length of [l]; reading past the end of [r] panics *)
Fixpoint multiply (l r : list Z) : option (list Z) :=
  match l, r with
  | [], _ => Some []
  | x :: l', y :: r' => option_map (cons (x * y)) (multiply l' r')
  | _ :: _, [] => None
  end.

Fixpoint dot (l r : list Z) : option Z :=
  match l, r with
  | [], _ => Some 0
  | x :: l', y :: r' => option_map (Z.add (x * y)) (dot l' r')
  | _ :: _, [] => None
  end.

Definition decrement (l : list Z) : list Z := map (fun x => x - 1) l.

Fixpoint offsets_from (l : list Z) : list Z :=
  match l with [] => [] | _ :: r => product r :: offsets_from r end.

(** Offsets(dims): row-major strides; panics on an empty dims *)
Definition offsets (dims : list Z) : option (list Z) :=
  match dims with [] => None | _ => Some (offsets_from dims) end.

(** IDivMod: res[i] = (n / den[i]) % mod[i], Go truncating division *)
Fixpoint idivmod (n : Z) (den md : list Z) : option (list Z) :=
  match den, md with
  | [], _ => Some []
  | d :: den', m :: md' =>
      if (d =? 0) || (m =? 0) then None
      else option_map (cons (Z.rem (Z.quot n d) m)) (idivmod n den' md')
  | _ :: _, [] => None
  end.

(** Increment(vector, wrt): odometer step, last axis fastest; on reversed lists *)
Fixpoint increment_rev (v w : list Z) : list Z :=
  match v, w with
  | x :: v', m :: w' => if (m <=? x + 1) then 0 :: increment_rev v' w' else (x + 1) :: v'
  | _, _ => v
  end.
Definition increment (v w : list Z) : option (list Z) :=
  if Nat.eqb (length v) (length w) then Some (rev (increment_rev (rev v) (rev w))) else None.

(** Argmax: index of the first maximal element (after the fix: res = i+1) *)
Fixpoint argmax_loop (l : list Z) (i : Z) (best : Z) (res : Z) : Z :=
  match l with
  | [] => res
  | v :: r => if best <? v then argmax_loop r (i + 1) v (i + 1) else argmax_loop r (i + 1) best res
  end.
Definition argmax (l : list Z) : option Z :=
  match l with [] => None | x :: r => Some (argmax_loop r 0 x 0) end.

Definition maximum_int (l : list Z) : option Z :=
  match l with [] => None | x :: r => Some (fold_left Z.max r x) end.

Definition uniform (n : nat) (v : Z) : list Z := repeat v n.

(** list update; [None] when the index is out of range *)
Fixpoint set_nth {A} (l : list A) (n : nat) (v : A) : option (list A) :=
  match l, n with
  | [], _ => None
  | _ :: r, O => Some (v :: r)
  | x :: r, S k => option_map (cons x) (set_nth r k v)
  end.

Definition zidx (i : Z) : option nat := if i <? 0 then None else Some (Z.to_nat i).
Definition znth {A} (l : list A) (i : Z) : option A :=
  match zidx i with Some n => nth_error l n | None => None end.
Definition zset {A} (l : list A) (i : Z) (v : A) : option (list A) :=
  match zidx i with Some n => set_nth l n v | None => None end.
