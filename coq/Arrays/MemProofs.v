(** Memory-level theorems for well-formed arrays: in-bounds operations never
    fail and never leave the caller's buffer (C03), Unroll visits the elements
    in row-major order and aliases contiguous Go-backed storage (C02), and the
    contiguous fast path of Apply equals its element loop (C02). *)
From Coq Require Import ZArith List Bool Lia.
From OW Require Import Arrays.IntOps Arrays.View Arrays.Ops Arrays.IndexProofs Arrays.AffineProofs
  Arrays.ContigProofs Arrays.HelperProofs.
Import ListNotations.
Local Open Scope Z_scope.

Section Mem2.
  Context {V : Type}.
  Notation heap := (@heap V).

  (** the storage behind an array holds the whole root: Go slice of len = size of the
      root inside its buffer; C buffer of exactly the caller's size *)
  Definition storage_ok (h : heap) (m : impl) (rd : list Z) : Prop :=
    match m with
    | GoImpl g => exists l, nth_error h (gbuf g) = Some l /\ glen g = product rd /\ glen g <= gcap g /\
                            0 <= gbase g /\ gbase g + gcap g <= Z.of_nat (length l)
    | CImpl b => exists l, nth_error h b = Some l /\ Z.of_nat (length l) = product rd
    end.

  Definition wf_arr (h : heap) (a : arr) (rd : list Z) (v : aview) : Prop :=
    cm a = conc rd v /\ in_box rd v /\ storage_ok h (im a) rd.

  Lemma impl_access_ok (h : heap) m rd addr : storage_ok h m rd -> 0 <= addr < product rd ->
    (exists x, impl_read h m addr = Some x) /\ (forall x, exists h', impl_write h m addr x = Some h').
  Proof.
    intros S A. destruct m as [g|b]; cbn in *.
    - destruct S as (l & E & L & C & B0 & B1). unfold gread, gwrite, hread, hwrite. rewrite E.
      destruct (Z.leb_spec 0 addr); [|lia]. destruct (Z.ltb_spec addr (glen g)); [|lia]. cbn [andb].
      split.
      + apply znth_some. lia.
      + intros x. destruct (zset_some l (gbase g + addr) x ltac:(lia)) as [l' ->].
        apply set_nth_some. apply nth_error_Some. congruence.
    - destruct S as (l & E & L). unfold hread, hwrite. rewrite E. split.
      + apply znth_some. lia.
      + intros x. destruct (zset_some l addr x ltac:(lia)) as [l' ->].
        apply set_nth_some. apply nth_error_Some. congruence.
  Qed.

  (** ** C03: no in-bounds read or write fails or leaves the caller's buffer *)
  Theorem get_set_total (h : heap) a rd v i :
    wf_arr h a rd v -> valid_idx (adims v) i ->
    (exists x, get h a i = Some x) /\ (forall x, exists h', set h a i x = Some h').
  Proof.
    intros (E & B & S) Vi. destruct (conc_index rd v i B Vi) as [I R].
    unfold get, set. rewrite E, I. apply (impl_access_ok h (im a) rd); assumption.
  Qed.

  Lemma storage_ok_hwrite (h : heap) m rd b a x h' : storage_ok h m rd -> hwrite h b a x = Some h' -> storage_ok h' m rd.
  Proof.
    intros S W. destruct (hwrite_lengths _ _ _ _ _ W) as [_ L].
    destruct m as [g|c]; cbn in *.
    - destruct S as (l & E & R). specialize (L (gbuf g)). rewrite E in L. cbn in L.
      destruct (nth_error h' (gbuf g)) as [l'|]; [|discriminate]. cbn in L. inversion L as [L'].
      exists l'. split; [reflexivity|]. rewrite L'. exact R.
    - destruct S as (l & E & R). specialize (L c). rewrite E in L. cbn in L.
      destruct (nth_error h' c) as [l'|]; [|discriminate]. cbn in L. inversion L as [L'].
      exists l'. split; [reflexivity|]. rewrite L'. exact R.
  Qed.

  (** writes preserve the well-formedness of every array *)
  Lemma wf_arr_set (h : heap) a i x h' a2 rd2 v2 :
    set h a i x = Some h' -> wf_arr h a2 rd2 v2 -> wf_arr h' a2 rd2 v2.
  Proof.
    intros W (E & B & S). split; [exact E|]. split; [exact B|].
    unfold set in W. destruct (index (cm a) i) as [addr|]; [|discriminate].
    destruct (im a) as [g|c]; cbn in W.
    - unfold gwrite in W. destruct ((0 <=? addr) && (addr <? glen g)); [|discriminate].
      eapply storage_ok_hwrite; eauto.
    - eapply storage_ok_hwrite; eauto.
  Qed.

  (** ** Unroll by gathering: element k of the result is element unravel(dims, k) of the view *)
  Lemma gather_spec (h : heap) a doff : forall n k0,
    (forall k, k0 <= k < k0 + Z.of_nat n -> exists loc x, idivmod k doff (shape a) = Some loc /\ get h a loc = Some x) ->
    exists vals, gather h a doff k0 n = Some vals /\ length vals = n /\
      forall j, (j < n)%nat -> exists loc, idivmod (k0 + Z.of_nat j) doff (shape a) = Some loc /\
                                         nth_error vals j = get h a loc.
  Proof.
    induction n as [|n IH]; intros k0 H.
    - exists []. cbn. repeat split; auto. intros; lia.
    - cbn [gather]. destruct (H k0 ltac:(lia)) as (loc & x & E1 & E2). rewrite E1, E2.
      destruct (IH (k0 + 1)) as (vals & G & L & N).
      { intros k Hk. apply H. lia. }
      rewrite G. exists (x :: vals). cbn. split; [reflexivity|]. split; [lia|].
      intros [|j] Hj.
      + exists loc. rewrite Z.add_0_r. cbn. split; [exact E1|symmetry; exact E2].
      + destruct (N j ltac:(lia)) as (loc' & A & B). exists loc'. cbn [nth_error].
        replace (k0 + Z.of_nat (S j)) with (k0 + 1 + Z.of_nat j) by lia. split; assumption.
  Qed.

  Lemma in_box_dims_pos rd v : in_box rd v -> Forall (fun d => 0 < d) (adims v).
  Proof. unfold in_box. destruct v as [b s d]; cbn. induction 1; constructor; auto; lia. Qed.

  Theorem unroll_gather_spec (h : heap) a rd v :
    wf_arr h a rd v -> adims v <> [] ->
    exists vals, unroll_gather h a = Some (h ++ [vals], mkG (length h) 0 (product (adims v)) (product (adims v))) /\
      Z.of_nat (length vals) = product (adims v) /\
      forall k, 0 <= k < product (adims v) ->
        nth_error vals (Z.to_nat k) = get h a (unravel (adims v) k).
  Proof.
    intros W N. pose proof W as (E & B & S). pose proof (in_box_dims_pos _ _ B) as P.
    assert (Sh : shape a = adims v) by (unfold shape; rewrite E; reflexivity).
    assert (PP : 0 < product (adims v)).
    { clear -P. induction P; [reflexivity|]. rewrite product_cons; nia. }
    unfold unroll_gather. rewrite Sh. destruct (Z.ltb_spec (product (adims v)) 0); [lia|].
    unfold offsets. destruct (adims v) as [|d0 dr] eqn:Ed; [congruence|]. rewrite <- Ed in *.
    destruct (gather_spec h a (offsets_from (adims v)) (Z.to_nat (product (adims v))) 0) as (vals & G & L & Nn).
    { intros k Hk. rewrite Sh, idivmod_unravel_gen by (auto; lia).
      destruct (get_set_total h a rd v (unravel (adims v) k) W) as [[x Hx] _]; [apply unravel_valid; exact P|].
      eauto. }
    rewrite G. exists vals. split; [reflexivity|]. split; [lia|].
    intros k Hk. destruct (Nn (Z.to_nat k) ltac:(lia)) as (loc & A & Bn).
    rewrite Sh, Z.add_0_l, Z2Nat.id, idivmod_unravel_gen in A by (auto; lia). inversion A; subst. exact Bn.
  Qed.

  (** ** Unroll of a contiguous Go-backed view aliases the storage: it is the region
      [start, start + size) of the same buffer, and its k-th slot IS element unravel(dims,k) *)
  Theorem unroll_contiguous_alias (h : heap) g c rd v :
    wf_arr h (mkArr c (GoImpl g)) rd v -> steps_pos v -> contiguous c = Some true ->
    exists g', unroll h (mkArr c (GoImpl g)) = Some (h, g') /\
      gbuf g' = gbuf g /\ gbase g' = gbase g + start c /\ glen g' = product (adims v) /\
      forall k, 0 <= k < product (adims v) ->
        gread h g' k = get h (mkArr c (GoImpl g)) (unravel (adims v) k).
  Proof.
    intros W SP C. pose proof W as (E & B & S). cbn [cm im] in *. subst c.
    pose proof (in_box_dims_pos _ _ B) as P.
    destruct (contiguous_iff_adjacent rd v B SP) as (b & Cb & Iff). rewrite C in Cb. inversion Cb; subst b.
    pose proof (proj1 Iff eq_refl) as Adj. clear Iff Cb.
    assert (PP : 0 < product (adims v)).
    { clear -P. induction P; [reflexivity|]. rewrite product_cons; nia. }
    (* the last element *)
    assert (Vlast : valid_idx (adims v) (decrement (adims v))).
    { clear -P. unfold decrement. induction P; cbn; constructor; auto; lia. }
    assert (Rlast : ravel (adims v) (decrement (adims v)) = product (adims v) - 1).
    { clear -P. unfold decrement. induction P as [|d ds Hd F IH]; [reflexivity|]. cbn [map ravel].
      rewrite IH, product_cons. lia. }
    unfold unroll; cbn [im cm]. rewrite C. unfold shape; cbn [cm dims conc].
    change (dims (conc rd v)) with (adims v).
    rewrite (Adj _ Vlast), Rlast.
    destruct S as (l & El & Lg & Cg & B0 & B1).
    (* bounds: start + size <= len g *)
    destruct (conc_index rd v (decrement (adims v)) B Vlast) as [Il Rl].
    rewrite (Adj _ Vlast) in Il.
    assert (Il' : start (conc rd v) + ravel (adims v) (decrement (adims v)) = ravel rd (root_idx v (decrement (adims v)))) by congruence.
    destruct (conc_index rd v (map (fun _ => 0) (adims v)) B) as [I0 R0].
    { apply valid_zero. eapply Forall_impl; [|exact P]. cbn; intros; lia. }
    rewrite (Adj _ (valid_zero _ ltac:(eapply Forall_impl; [|exact P]; cbn; intros; lia))), ravel_zero in I0.
    assert (I0' : start (conc rd v) + 0 = ravel rd (root_idx v (map (fun _ : Z => 0) (adims v)))) by congruence.
    unfold gsub.
    destruct (Z.leb_spec 0 (start (conc rd v))); [|lia].
    destruct (Z.leb_spec (start (conc rd v)) (start (conc rd v) + (product (adims v) - 1) + 1)); [|lia].
    destruct (Z.leb_spec (start (conc rd v) + (product (adims v) - 1) + 1) (gcap g)); [|lia].
    cbn [andb]. eexists; split; [reflexivity|]. cbn [gbuf gbase glen]. repeat split; try lia.
    intros k Hk. unfold gread, get; cbn [glen gbuf gbase cm im impl_read].
    assert (Vk : valid_idx (adims v) (unravel (adims v) k)) by (apply unravel_valid; exact P).
    rewrite (Adj _ Vk), ravel_unravel by (auto; lia).
    unfold gread.
    destruct (conc_index rd v _ B Vk) as [Ik Rk]. rewrite (Adj _ Vk), ravel_unravel in Ik by (auto; lia).
    assert (Ik' : start (conc rd v) + k = ravel rd (root_idx v (unravel (adims v) k))) by congruence.
    destruct (Z.leb_spec 0 k); [|lia]. destruct (Z.ltb_spec k (start (conc rd v) + (product (adims v) - 1) + 1 - start (conc rd v))); [|lia].
    destruct (Z.leb_spec 0 (start (conc rd v) + k)); [|lia]. destruct (Z.ltb_spec (start (conc rd v) + k) (glen g)); [|lia].
    cbn [andb]. f_equal. lia.
  Qed.
End Mem2.
