(** C02: the contiguous fast path of Apply (copy into the backing slice) writes
    exactly what the element-by-element loop writes. *)
From Coq Require Import ZArith List Bool Lia.
From OW Require Import Arrays.IntOps Arrays.View Arrays.Ops Arrays.IndexProofs Arrays.AffineProofs
  Arrays.ContigProofs Arrays.HelperProofs Arrays.MemProofs.
Import ListNotations.
Local Open Scope Z_scope.

Section ApplyP.
  Context {V : Type}.
  Notation heap := (@heap V).

  Fixpoint hwrites (h : heap) (b : nat) (a0 : Z) (vals : list V) : option heap :=
    match vals with
    | [] => Some h
    | x :: r => match hwrite h b a0 x with Some h' => hwrites h' b (a0 + 1) r | None => None end
    end.

  Lemma copy_to_hwrites (g : gslice) : forall vals (h : heap) i,
    0 <= i -> i + Z.of_nat (length vals) <= glen g ->
    copy_to h g i vals = hwrites h (gbuf g) (gbase g + i) vals.
  Proof.
    induction vals as [|x r IH]; intros h i Hi Hl; [reflexivity|]. cbn [copy_to hwrites].
    cbn [length] in Hl. destruct (Z.ltb_spec i (glen g)); [|lia].
    unfold gwrite. destruct (Z.leb_spec 0 i); [|lia]. destruct (Z.ltb_spec i (glen g)); [|lia]. cbn [andb].
    destruct (hwrite h (gbuf g) (gbase g + i) x) as [h'|]; [|reflexivity].
    rewrite IH by lia. f_equal. lia.
  Qed.

  Lemma apply_loop_hwrites (a : arr) g loc dim st0 stp s : im a = GoImpl g ->
    forall vals (h : heap) i,
    0 <= i -> 0 <= s + i -> s + i + Z.of_nat (length vals) <= glen g ->
    (forall j, 0 <= j < Z.of_nat (length vals) ->
       exists loc', zset loc dim (st0 + (i + j) * stp) = Some loc' /\ index (cm a) loc' = Some (s + i + j)) ->
    apply_loop h a loc dim st0 stp i vals = hwrites h (gbuf g) (gbase g + (s + i)) vals.
  Proof.
    intros Im. induction vals as [|x r IH]; intros h i Hi Hs Hl H; [reflexivity|]. cbn [apply_loop hwrites].
    cbn [length] in *. destruct (H 0 ltac:(lia)) as (loc' & Z0 & I0).
    rewrite Z.add_0_r in Z0, I0. rewrite Z0. unfold set. rewrite I0, Im. cbn [impl_write]. unfold gwrite.
    destruct (Z.leb_spec 0 (s + i)); [|lia]. destruct (Z.ltb_spec (s + i) (glen g)); [|lia]. cbn [andb].
    destruct (hwrite h (gbuf g) (gbase g + (s + i)) x) as [h'|]; [|reflexivity].
    rewrite IH; try lia.
    - f_equal. lia.
    - intros j Hj. destruct (H (j + 1) ltac:(lia)) as (l2 & A & B).
      exists l2. replace (i + 1 + j) with (i + (j + 1)) by lia. split; [exact A|]. rewrite B. f_equal. lia.
  Qed.

  (** vectors that differ from a uniform one at one axis *)
  Lemma product_ones n : product (repeat 1 n) = 1.
  Proof. induction n; [reflexivity|]. cbn [repeat]. rewrite product_cons, IHn. reflexivity. Qed.
  Lemma ravel_ones_zeros n : ravel (repeat 1 n) (repeat 0 n) = 0.
  Proof. induction n; [reflexivity|]. cbn [repeat ravel]. rewrite IHn. lia. Qed.
  Lemma valid_ones_zeros n : valid_idx (repeat 1 n) (repeat 0 n).
  Proof. induction n; cbn; constructor; auto; lia. Qed.
  Lemma ones_ge1 n : Forall (fun x => 1 <= x) (repeat 1 n).
  Proof. induction n; cbn; constructor; auto; lia. Qed.

  Lemma set_nth_uniform_valid n d m k : (d < n)%nat -> 0 <= k < m ->
    forall sd uk, set_nth (uniform n 1) d m = Some sd -> set_nth (uniform n 0) d k = Some uk ->
    valid_idx sd uk /\ ravel sd uk = k /\ Forall (fun x => 1 <= x) sd.
  Proof.
    unfold uniform. revert d; induction n as [|n IH]; intros d Hd Hk sd uk S U; [lia|].
    cbn [repeat] in S, U. destruct d as [|d]; cbn [set_nth] in S, U.
    - inversion S; inversion U; subst. split; [|split].
      + constructor; [lia|apply valid_ones_zeros].
      + cbn [ravel]. rewrite product_ones, ravel_ones_zeros. lia.
      + constructor; [lia|apply ones_ge1].
    - destruct (set_nth (repeat 1 n) d m) as [sd'|] eqn:S'; cbn in S; [|discriminate].
      destruct (set_nth (repeat 0 n) d k) as [uk'|] eqn:U'; cbn in U; [|discriminate].
      inversion S; inversion U; subst.
      destruct (IH d ltac:(lia) Hk sd' uk' S' U') as (A & B & C).
      split; [constructor; [lia|exact A]|]. split; [cbn [ravel]; lia|constructor; [lia|exact C]].
  Qed.

  Lemma vadd_zeros_ones n : forall loc, length loc = n -> vadd loc (vmul (repeat 0 n) (repeat 1 n)) = loc.
  Proof.
    induction n; intros [|x loc] L; cbn in L; try lia; [reflexivity|].
    cbn [repeat]. unfold vadd, vmul in *. cbn [zipw]. rewrite IHn by lia. f_equal. lia.
  Qed.

  Lemma vadd_unit_step n d : forall loc sstep uk stp k ld,
    length loc = n -> set_nth (uniform n 1) d stp = Some sstep -> set_nth (uniform n 0) d k = Some uk ->
    nth_error loc d = Some ld ->
    set_nth loc d (ld + k * stp) = Some (vadd loc (vmul uk sstep)).
  Proof.
    unfold uniform. revert d; induction n as [|n IH]; intros d loc sstep uk stp k ld L S U N.
    - destruct loc; [|discriminate]. destruct d; discriminate.
    - destruct loc as [|l loc]; [discriminate|]. cbn [length] in L. cbn [repeat] in S, U.
      destruct d as [|d]; cbn [set_nth nth_error] in S, U, N |- *.
      + inversion S; inversion U; inversion N; subst. unfold vadd, vmul. cbn [zipw]. f_equal. f_equal.
        symmetry. apply (vadd_zeros_ones n). lia.
      + destruct (set_nth (repeat 1 n) d stp) as [s'|] eqn:S'; cbn in S; [|discriminate].
        destruct (set_nth (repeat 0 n) d k) as [u'|] eqn:U'; cbn in U; [|discriminate].
        inversion S; inversion U; subst.
        rewrite (IH d loc s' u' stp k ld) by (auto; lia). unfold vadd, vmul. cbn [option_map zipw]. f_equal. f_equal. lia.
  Qed.

  Lemma slice_args_unit : forall pds loc, valid_idx pds loc ->
    forall d sdim sstep m stp ld dd,
    set_nth (repeat 1 (length pds)) d m = Some sdim -> set_nth (repeat 1 (length pds)) d stp = Some sstep ->
    nth_error loc d = Some ld -> nth_error pds d = Some dd ->
    1 <= m -> 1 <= stp -> ld + (m - 1) * stp < dd ->
    slice_args_ok pds loc sdim sstep.
  Proof.
    induction 1 as [|pd pds x ls Hx Vl IH]; intros d sdim sstep m stp ld dd Sd Ss Hld Hdd Hm Hs Hr.
    - destruct d; discriminate.
    - cbn [length repeat] in Sd, Ss. destruct d as [|d]; cbn [set_nth nth_error] in Sd, Ss, Hld, Hdd.
      + inversion Sd; inversion Ss; inversion Hld; inversion Hdd; subst. constructor; try lia.
        clear -Vl. induction Vl; cbn; constructor; auto; lia.
      + destruct (set_nth (repeat 1 (length pds)) d m) as [sd'|] eqn:Sd'; cbn in Sd; [|discriminate].
        destruct (set_nth (repeat 1 (length pds)) d stp) as [ss'|] eqn:Ss'; cbn in Ss; [|discriminate].
        inversion Sd; inversion Ss; subst. constructor; try lia. eapply IH; eauto.
  Qed.

  Lemma steps_pos_unit : forall ss ds, Forall2 (fun sk dk => 1 < dk -> 1 <= sk) ss ds ->
    forall d sdim sstep m stp ld dd,
    set_nth (repeat 1 (length ss)) d m = Some sdim -> set_nth (repeat 1 (length ss)) d stp = Some sstep ->
    nth_error ds d = Some dd -> 0 <= ld -> 1 <= m -> 1 <= stp -> ld + (m - 1) * stp < dd ->
    Forall2 (fun sk dk => 1 < dk -> 1 <= sk) (vmul ss sstep) sdim.
  Proof.
    induction 1 as [|s dk ss ds Hs SP IH]; intros d sdim sstep m stp ld dd Sd Ss Hdd Hl Hm Hst Hr.
    - destruct d; discriminate.
    - cbn [length repeat] in Sd, Ss. destruct d as [|d]; cbn [set_nth nth_error] in Sd, Ss, Hdd.
      + inversion Sd; inversion Ss; inversion Hdd; subst. unfold vmul; cbn [zipw]. constructor.
        * intros M. assert (1 < dd) by nia. specialize (Hs H). nia.
        * clear -SP. fold (vmul ss (repeat 1 (length ss))). induction SP; cbn; constructor; auto; lia.
      + destruct (set_nth (repeat 1 (length ss)) d m) as [sd'|] eqn:Sd'; cbn in Sd; [|discriminate].
        destruct (set_nth (repeat 1 (length ss)) d stp) as [ss'|] eqn:Ss'; cbn in Ss; [|discriminate].
        inversion Sd; inversion Ss; subst. unfold vmul; cbn [zipw]. constructor; [lia|].
        eapply IH; eauto.
  Qed.

  Lemma valid_nth_nonneg : forall ds loc, valid_idx ds loc -> forall d x, nth_error loc d = Some x -> 0 <= x.
  Proof.
    induction 1 as [|pd pds y ls Hy Vl IH]; intros d x Hx; [destruct d; discriminate|].
    destruct d; cbn in Hx; [inversion Hx; lia|eauto].
  Qed.

  Lemma valid_set_nth : forall ds loc, valid_idx ds loc ->
    forall d x dd loc', nth_error ds d = Some dd -> 0 <= x < dd -> set_nth loc d x = Some loc' -> valid_idx ds loc'.
  Proof.
    induction 1 as [|pd pds y ls Hy Vl IH]; intros d x dd loc' Hdd Hx S.
    - destruct d; discriminate.
    - destruct d as [|d]; cbn [set_nth nth_error] in S, Hdd.
      + inversion S; inversion Hdd; subst. constructor; [lia|exact Vl].
      + destruct (set_nth ls d x) as [l'|] eqn:E'; cbn in S; [|discriminate].
        inversion S; subst. constructor; [exact Hy|]. eapply IH; eauto.
  Qed.

  (** ** Apply: fast path = element loop, for every well-formed Go-backed view and in-bounds run *)
  Theorem apply_fast_eq_slow (h : heap) (c : common) g rd v loc dim stp vals ld :
    wf_arr h (mkArr c (GoImpl g)) rd v -> steps_pos v ->
    valid_idx (adims v) loc -> 0 <= dim -> (Z.to_nat dim < length rd)%nat ->
    1 <= stp -> vals <> [] ->
    znth loc dim = Some ld ->
    (exists dd, znth (adims v) dim = Some dd /\ ld + (Z.of_nat (length vals) - 1) * stp < dd) ->
    apply h (mkArr c (GoImpl g)) loc dim stp vals =
    apply_loop h (mkArr c (GoImpl g)) loc dim ld stp 0 vals.
  Proof.
    intros W SP Vl Hd0 Hdn Hstp Hne Hld (dd & Hdd & Hrun).
    pose proof W as (E & B & S). cbn [cm im] in *. subst c.
    pose proof (in_box_rank _ _ B) as (Lb & Ls & Ld).
    pose proof (valid_idx_length _ _ Vl) as Ll.
    set (n := length rd) in *. set (d := Z.to_nat dim) in *.
    assert (Zi : zidx dim = Some d) by (unfold zidx; destruct (Z.ltb_spec dim 0); [lia|reflexivity]).
    unfold znth in Hld, Hdd. rewrite Zi in Hld, Hdd.
    unfold apply. cbn [cm im]. unfold ndims. change (dims (conc rd v)) with (adims v). rewrite Ld.
    unfold zset. rewrite Zi.
    destruct (set_nth_some (uniform n 1) d (Z.of_nat (length vals)) ltac:(rewrite uniform_length; lia)) as [sdim Sd].
    destruct (set_nth_some (uniform n 1) d stp ltac:(rewrite uniform_length; lia)) as [sstep Ss].
    rewrite Sd, Ss.
    assert (Lsd : length sdim = n) by (rewrite (set_nth_length _ _ _ _ Sd), uniform_length; reflexivity).
    assert (Lss : length sstep = n) by (rewrite (set_nth_length _ _ _ _ Ss), uniform_length; reflexivity).
    unfold slice. cbn [cm im].
    assert (Hloc : length loc = length rd) by (fold n; lia).
    assert (Hst : forall s0, Some sstep = Some s0 -> length s0 = length rd) by (intros s0 Es; inversion Es; subst; fold n; lia).
    rewrite (slice_into_refines rd v loc sdim (Some sstep) (in_box_rank _ _ B) Hloc Hst).
    cbn [option_map step_or_ones cm im].
    set (v' := aslice v loc sdim sstep).
    unfold znth. rewrite Zi, Hld.
    (* the sliced view is in box and has positive steps *)
    assert (Vals : 1 <= Z.of_nat (length vals)) by (destruct vals; [congruence|cbn; lia]).
    assert (Hl0 : 0 <= ld) by (eapply valid_nth_nonneg; eauto).
    assert (B' : in_box rd v').
    { apply aslice_in_box; [exact B|]. unfold uniform in Sd, Ss. replace n with (length (adims v)) in Sd, Ss by lia.
      eapply (slice_args_unit (adims v) loc Vl d sdim sstep _ stp ld dd); eauto. }
    destruct (contiguous (conc rd v')) as [[|]|] eqn:Cg.
    2:{ reflexivity. }
    2:{ (* contiguous never panics on a well-formed view *)
        exfalso. unfold contiguous in Cg. pose proof (in_box_rank _ _ B') as (Lb' & Ls' & Ld').
        destruct (zip4_some (adims v') rd (astride v') (offsets_from rd)) as [lz Z];
          [lia|lia|rewrite offsets_from_length; lia|].
        unfold conc in Cg; cbn [dims odims step offset] in Cg. rewrite Z in Cg. discriminate. }
    (* fast path taken: show it equals the loop *)
    assert (SP' : steps_pos v').
    { unfold steps_pos, v', aslice; cbn [astride adims]. unfold uniform in Sd, Ss.
      replace n with (length (astride v)) in Sd, Ss by lia.
      eapply (steps_pos_unit (astride v) (adims v) SP d sdim sstep _ stp ld dd); eauto. }
    destruct (contiguous_iff_adjacent rd v' B' SP') as (b & Cb & Iff). rewrite Cg in Cb. inversion Cb; subst b.
    pose proof (proj1 Iff eq_refl) as Adj. clear Iff Cb.
    set (s := start (conc rd v')) in *.
    (* addresses of the run, and their bounds *)
    destruct S as (l & El & Lg & Cgp & B0 & B1).
    assert (Run : forall j, 0 <= j < Z.of_nat (length vals) ->
              exists loc', set_nth loc d (ld + j * stp) = Some loc' /\ index (conc rd v) loc' = Some (s + j)
                           /\ 0 <= s + j < glen g).
    { intros j Hj.
      destruct (set_nth_some (uniform n 0) d j ltac:(rewrite uniform_length; lia)) as [uk Uk].
      destruct (set_nth_uniform_valid n d (Z.of_nat (length vals)) j Hdn Hj sdim uk Sd Uk) as (Vu & Ru & _).
      assert (Ej : set_nth loc d (ld + j * stp) = Some (vadd loc (vmul uk sstep))) by (apply (vadd_unit_step n d); auto).
      assert (Ij : index (conc rd v) (vadd loc (vmul uk sstep)) = Some (s + j)).
      { assert (Lu : length uk = n) by (rewrite (set_nth_length _ _ _ _ Uk), uniform_length; reflexivity).
        assert (IS : index (conc rd v') uk = index (conc rd v) (vadd loc (vmul uk (step_or_ones (conc rd v) (Some sstep))))).
        { apply (index_slice (conc rd v) loc sdim (Some sstep) (conc rd v') uk).
          + apply conc_wf. exact (in_box_rank _ _ B).
          + cbn. rewrite offsets_from_length. lia.
          + intros s0 Es. inversion Es; subst. cbn. rewrite offsets_from_length. lia.
          + rewrite (slice_into_refines rd v loc sdim (Some sstep) (in_box_rank _ _ B) Hloc Hst).
            reflexivity.
          + lia. }
        cbn [step_or_ones] in IS. rewrite <- IS.
        change (adims v') with sdim in Adj. rewrite (Adj uk Vu), Ru. reflexivity. }
      exists (vadd loc (vmul uk sstep)). split; [exact Ej|]. split; [exact Ij|].
      assert (Vj : valid_idx (adims v) (vadd loc (vmul uk sstep))).
      { eapply (valid_set_nth (adims v) loc Vl d (ld + j * stp) dd); eauto. nia. }
      destruct (conc_index rd v _ B Vj) as [Ic Rc]. rewrite Ij in Ic. inversion Ic as [Ic']. lia. }
    destruct (Run 0 ltac:(lia)) as (_ & _ & _ & R0).
    destruct (Run (Z.of_nat (length vals) - 1) ltac:(lia)) as (_ & _ & _ & R1).
    unfold gsub.
    destruct (Z.leb_spec 0 s); [|lia]. destruct (Z.leb_spec s (s + Z.of_nat (length vals))); [|lia].
    destruct (Z.leb_spec (s + Z.of_nat (length vals)) (gcap g)); [|lia]. cbn [andb].
    rewrite copy_to_hwrites by (cbn [glen]; lia). cbn [gbuf gbase].
    rewrite (apply_loop_hwrites (mkArr (conc rd v) (GoImpl g)) g loc dim ld stp s eq_refl); try lia.
    - f_equal. lia.
    - intros j Hj. destruct (Run j Hj) as (lj & A1 & A2 & _). exists lj.
      unfold zset. rewrite Zi, Z.add_0_l. split; [exact A1|]. rewrite Z.add_0_r. exact A2.
  Qed.
End ApplyP.
