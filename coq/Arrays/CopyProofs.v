(** C02: the contiguous fast path of ApplySlice / CopyFrom (copy(dst.Unroll(), src.Unroll()))
    gives the same storage contents as the element-by-element index loop, for every pair of
    well-formed views whose storage cells do not overlap. *)
From Coq Require Import ZArith List Bool Lia FinFun.
From OW Require Import Arrays.IntOps Arrays.View Arrays.Ops Arrays.IndexProofs Arrays.AffineProofs
  Arrays.ContigProofs Arrays.HelperProofs Arrays.MemProofs Arrays.HistoryProofs.
Import ListNotations.
Local Open Scope Z_scope.

(** row-major enumeration by rank *)
Lemma unravel_zero ds : Forall (fun d => 0 < d) ds -> unravel ds 0 = map (fun _ => 0) ds.
Proof.
  induction 1 as [|d ds Hd F IH]; [reflexivity|]. cbn [unravel map]. rewrite IH. reflexivity.
Qed.

Lemma new_index_zeros c : new_index c 0 = map (fun _ => 0) (dims c).
Proof. unfold new_index, ndims, uniform. induction (dims c); cbn; congruence. Qed.

Lemma product_pos_all ds : Forall (fun d => 0 < d) ds -> 0 < product ds.
Proof. induction 1; [reflexivity|]. rewrite product_cons; nia. Qed.

Lemma increment_unravel ds k : Forall (fun d => 0 < d) ds -> 0 <= k -> k + 1 < product ds ->
  increment (unravel ds k) ds = Some (unravel ds (k + 1)).
Proof.
  intros F Hk Hlt.
  assert (V : valid_idx ds (unravel ds k)) by (apply unravel_valid; exact F).
  destruct (increment_succ ds _ V) as (i' & E & V' & R).
  rewrite E. f_equal. rewrite ravel_unravel in R by (auto; lia).
  rewrite Z.mod_small in R by lia. rewrite <- R. symmetry. apply unravel_ravel0. exact V'.
Qed.

Definition cell_eq_dec : forall x y : nat * Z, {x = y} + {x <> y}.
Proof. decide equality; [apply Z.eq_dec | apply Nat.eq_dec]. Defined.

Section C.
  Context {V : Type}.
  Notation heap := (@heap V).

  Fixpoint writes (h : heap) (ws : list ((nat * Z) * V)) : option heap :=
    match ws with
    | [] => Some h
    | ((b, a), v) :: r => match hwrite h b a v with Some h' => writes h' r | None => None end
    end.

  Lemma writes_spec : forall ws (h h' : heap), NoDup (map fst ws) -> writes h ws = Some h' ->
    (forall c v, In (c, v) ws -> hread h' (fst c) (snd c) = Some v) /\
    (forall b a, ~ In (b, a) (map fst ws) -> hread h' b a = hread h b a).
  Proof.
    induction ws as [|[[b a] v] r IH]; intros h h' ND W; cbn in W.
    - inversion W; subst. split; [intros ? ? []|reflexivity].
    - destruct (hwrite h b a v) as [h1|] eqn:HW; [|discriminate]. cbn [map fst] in ND. inversion ND as [|? ? Nin ND']; subst.
      destruct (IH h1 h' ND' W) as [A B]. split.
      + intros c v0 [E|I]; [|apply A; exact I]. inversion E; subst. cbn [fst snd].
        rewrite B by exact Nin. eapply hread_hwrite_same; eauto.
      + intros b2 a2 N. cbn [map fst] in N. rewrite B by (intro; apply N; right; assumption).
        eapply hread_hwrite_other; eauto. intros E; apply N; left; symmetry; exact E.
  Qed.

  (** two heaps that agree on the first [n] buffers still agree after the same writes there *)
  Definition agree (n : nat) (h1 h2 : heap) : Prop := forall b a, (b < n)%nat -> hread h1 b a = hread h2 b a.

  Lemma writes_agree ws (h1 h2 h1' h2' : heap) n :
    NoDup (map fst ws) -> Forall (fun w => (fst (fst w) < n)%nat) ws ->
    agree n h1 h2 -> writes h1 ws = Some h1' -> writes h2 ws = Some h2' -> agree n h1' h2'.
  Proof.
    intros ND F A W1 W2 b a Hb.
    destruct (writes_spec ws h1 h1' ND W1) as [S1 O1]. destruct (writes_spec ws h2 h2' ND W2) as [S2 O2].
    destruct (in_dec cell_eq_dec (b, a) (map fst ws)) as [I|N].
    - apply in_map_iff in I as ([c v] & E & I). cbn in E. subst c.
      pose proof (S1 _ _ I) as R1. pose proof (S2 _ _ I) as R2. cbn [fst snd] in R1, R2. rewrite R1, R2. reflexivity.
    - rewrite O1, O2 by exact N. apply A, Hb.
  Qed.
End C.

Section D.
  Context {V : Type}.
  Notation heap := (@heap V).

  (** storage cell of element [i] of a well-formed array *)
  Definition acell (a : arr) (rd : list Z) (v : aview) (i : list Z) : nat * Z :=
    cell_of (im a) (ravel rd (root_idx v i)).

  Lemma set_as_hwrite (h : heap) a rd v i x : wf_arr h a rd v -> valid_idx (adims v) i ->
    set h a i x = hwrite h (fst (acell a rd v i)) (snd (acell a rd v i)) x.
  Proof.
    intros (E & B & S) Vi. destruct (conc_index rd v i B Vi) as [I R]. unfold set, acell. rewrite E, I.
    destruct (im a) as [g|b]; cbn [impl_write cell_of fst snd]; [|reflexivity].
    destruct S as (l & _ & Lg & _). unfold gwrite.
    destruct (Z.leb_spec 0 (ravel rd (root_idx v i))); [|lia].
    destruct (Z.ltb_spec (ravel rd (root_idx v i)) (glen g)); [|lia]. reflexivity.
  Qed.

  Lemma get_as_hread (h : heap) a rd v i : wf_arr h a rd v -> valid_idx (adims v) i ->
    get h a i = hread h (fst (acell a rd v i)) (snd (acell a rd v i)).
  Proof.
    intros (E & B & S) Vi. destruct (conc_index rd v i B Vi) as [I R]. unfold get, acell. rewrite E, I.
    destruct (im a) as [g|b]; cbn [impl_read cell_of fst snd]; [|reflexivity].
    destruct S as (l & _ & Lg & _). unfold gread.
    destruct (Z.leb_spec 0 (ravel rd (root_idx v i))); [|lia].
    destruct (Z.ltb_spec (ravel rd (root_idx v i)) (glen g)); [|lia]. reflexivity.
  Qed.

  Lemma acell_buf_lt (h : heap) a rd v i : wf_arr h a rd v -> (fst (acell a rd v i) < length h)%nat.
  Proof.
    intros (_ & _ & S). unfold acell. destruct (im a) as [g|b]; cbn in *;
      destruct S as (l & E & _); apply nth_error_Some; congruence.
  Qed.

  Lemma acell_inj a rd v i j : in_box rd v -> valid_idx (adims v) i -> valid_idx (adims v) j ->
    acell a rd v i = acell a rd v j -> root_idx v i = root_idx v j.
  Proof.
    intros B Vi Vj E. apply (ravel_inj rd); try (apply root_idx_valid; assumption).
    unfold acell in E. destruct (im a); cbn in E; inversion E; lia.
  Qed.

  (** the k-th .. (k+n-1)-th writes of the copy, in row-major order, with the values the
      source had in heap [h0] *)
  Fixpoint copy_ws (h0 : heap) (dst src : arr) rd1 v1 rd2 v2 (shp : list Z) (k : Z) (n : nat)
    : option (list ((nat * Z) * V)) :=
    match n with
    | O => Some []
    | S m => match hread h0 (fst (acell src rd2 v2 (unravel shp k))) (snd (acell src rd2 v2 (unravel shp k))),
                   copy_ws h0 dst src rd1 v1 rd2 v2 shp (k + 1) m with
             | Some x, Some r => Some ((acell dst rd1 v1 (unravel shp k), x) :: r)
             | _, _ => None
             end
    end.

  Lemma copy_ws_cells h0 dst src rd1 v1 rd2 v2 shp : forall n k ws,
    copy_ws h0 dst src rd1 v1 rd2 v2 shp k n = Some ws ->
    map fst ws = map (fun t => acell dst rd1 v1 (unravel shp (k + Z.of_nat t))) (seq 0 n).
  Proof.
    induction n as [|n IH]; intros k ws H; cbn in H; [inversion H; reflexivity|].
    destruct (hread _ _ _); [|discriminate]. destruct (copy_ws _ _ _ _ _ _ _ _ (k + 1) n) eqn:E; [|discriminate].
    inversion H; subst. cbn [map seq]. rewrite Z.add_0_r. f_equal.
    rewrite (IH _ _ E), <- seq_shift, map_map. apply map_ext. intros t. f_equal. f_equal. lia.
  Qed.

  (** ** the index loop is the list of writes [copy_ws], provided the views do not overlap *)
  Lemma idx_copy_loop_writes (h0 : heap) dst src rd1 v1 rd2 v2 shp :
    adims v1 = shp -> adims v2 = shp -> Forall (fun d => 0 < d) shp ->
    in_box rd1 v1 -> in_box rd2 v2 -> cm dst = conc rd1 v1 -> cm src = conc rd2 v2 ->
    (forall i j, valid_idx shp i -> valid_idx shp j -> acell dst rd1 v1 i <> acell src rd2 v2 j) ->
    forall n k (h : heap),
      0 <= k -> k + Z.of_nat n <= product shp ->
      storage_ok h (im dst) rd1 -> storage_ok h (im src) rd2 ->
      (forall j, valid_idx shp j ->
         hread h (fst (acell src rd2 v2 j)) (snd (acell src rd2 v2 j)) =
         hread h0 (fst (acell src rd2 v2 j)) (snd (acell src rd2 v2 j))) ->
      exists ws, copy_ws h0 dst src rd1 v1 rd2 v2 shp k n = Some ws /\
        idx_copy_loop h dst src shp (unravel shp k) n = writes h ws.
  Proof.
    intros D1 D2 P B1 B2 C1 C2 Disj. induction n as [|n IH]; intros k h Hk Hn S1 S2 Agree.
    - exists []. split; reflexivity.
    - assert (Vk : valid_idx shp (unravel shp k)) by (apply unravel_valid; exact P).
      assert (W1 : wf_arr h dst rd1 v1) by (repeat split; assumption).
      assert (W2 : wf_arr h src rd2 v2) by (repeat split; assumption).
      cbn [idx_copy_loop copy_ws].
      rewrite (get_as_hread h src rd2 v2) by (auto; rewrite D2; exact Vk).
      rewrite (Agree _ Vk).
      destruct (get_set_total h src rd2 v2 (unravel shp k) W2 ltac:(rewrite D2; exact Vk)) as [[x Hx] _].
      rewrite (get_as_hread h src rd2 v2) in Hx by (auto; rewrite D2; exact Vk). rewrite (Agree _ Vk) in Hx. rewrite Hx.
      rewrite (set_as_hwrite h dst rd1 v1) by (auto; rewrite D1; exact Vk).
      destruct (get_set_total h dst rd1 v1 (unravel shp k) W1 ltac:(rewrite D1; exact Vk)) as [_ St].
      destruct (St x) as [h1 Hw]. rewrite (set_as_hwrite h dst rd1 v1) in Hw by (auto; rewrite D1; exact Vk).
      rewrite Hw.
      (* increment *)
      destruct (increment_succ shp _ Vk) as (i' & Ei & Vi' & Ri). rewrite Ei.
      destruct n as [|n'].
      + exists [(acell dst rd1 v1 (unravel shp k), x)]. cbn [copy_ws idx_copy_loop writes].
        split; [reflexivity|]. destruct (acell dst rd1 v1 (unravel shp k)) as [b a]. cbn [fst snd] in *. rewrite Hw. reflexivity.
      + assert (Ei' : i' = unravel shp (k + 1)).
        { rewrite ravel_unravel in Ri by (auto; lia). rewrite Z.mod_small in Ri by lia.
          rewrite <- Ri. symmetry. apply unravel_ravel0. exact Vi'. }
        subst i'.
        destruct (IH (k + 1) h1) as (ws & Ews & Eloop); try lia.
        * eapply storage_ok_hwrite; eauto.
        * eapply storage_ok_hwrite; eauto.
        * intros j Vj. rewrite <- (Agree j Vj). eapply hread_hwrite_other; [exact Hw|].
          intros C. apply (Disj (unravel shp k) j Vk Vj). symmetry.
          destruct (acell src rd2 v2 j), (acell dst rd1 v1 (unravel shp k)); cbn in *. inversion C; subst; reflexivity.
        * rewrite Ews. eexists; split; [reflexivity|]. rewrite Eloop.
          destruct (acell dst rd1 v1 (unravel shp k)) as [b a]. cbn [fst snd writes] in *. rewrite Hw. reflexivity.
  Qed.
End D.

Section E.
  Context {V : Type}.
  Notation heap := (@heap V).

  Lemma gread_all_spec (h : heap) g : forall n i l, gread_all h g i n = Some l ->
    length l = n /\ forall t, (t < n)%nat -> nth_error l t = gread h g (i + Z.of_nat t).
  Proof.
    induction n as [|n IH]; intros i l H; cbn in H.
    - inversion H; subst. split; [reflexivity|intros; lia].
    - destruct (gread h g i) as [x|] eqn:G; [|discriminate].
      destruct (gread_all h g (i + 1) n) as [r|] eqn:R; cbn in H; [|discriminate]. inversion H; subst.
      destruct (IH _ _ R) as [L N]. split; [cbn; lia|]. intros [|t] Ht; cbn [nth_error].
      + rewrite Z.add_0_r. symmetry; exact G.
      + rewrite N by lia. f_equal. lia.
  Qed.

  Lemma gread_all_some (h : heap) g : forall n i, (forall t, (t < n)%nat -> exists x, gread h g (i + Z.of_nat t) = Some x) ->
    exists l, gread_all h g i n = Some l.
  Proof.
    induction n as [|n IH]; intros i H; cbn; [eauto|].
    destruct (H 0%nat ltac:(lia)) as [x Hx]. rewrite Z.add_0_r in Hx. rewrite Hx.
    destruct (IH (i + 1)) as [l Hl].
    { intros t Ht. destruct (H (S t) ltac:(lia)) as [y Hy]. exists y. rewrite <- Hy. f_equal. lia. }
    rewrite Hl. cbn. eauto.
  Qed.

  (** copy(dst, vals) onto a Go slice whose slots are the destination cells = the same writes *)
  Lemma copy_to_is_copy_ws (h0 : heap) dst src rd1 v1 rd2 v2 shp gd :
    forall (svals : list V) k (h' : heap),
      0 <= k -> k + Z.of_nat (length svals) <= glen gd ->
      (forall t, (t < length svals)%nat ->
         acell dst rd1 v1 (unravel shp (k + Z.of_nat t)) = (gbuf gd, gbase gd + (k + Z.of_nat t)) /\
         nth_error svals t = hread h0 (fst (acell src rd2 v2 (unravel shp (k + Z.of_nat t))))
                                      (snd (acell src rd2 v2 (unravel shp (k + Z.of_nat t))))) ->
      exists ws, copy_ws h0 dst src rd1 v1 rd2 v2 shp k (length svals) = Some ws /\
                 copy_to h' gd k svals = writes h' ws.
  Proof.
    induction svals as [|x r IH]; intros k h' Hk Hl H.
    - exists []. split; reflexivity.
    - cbn [length] in *. destruct (H 0%nat ltac:(lia)) as [C0 V0]. rewrite Z.add_0_r in C0, V0. cbn [nth_error] in V0.
      cbn [copy_ws copy_to]. rewrite <- V0.
      destruct (Z.ltb_spec k (glen gd)); [|lia].
      assert (Hr : forall t, (t < length r)%nat ->
         acell dst rd1 v1 (unravel shp (k + 1 + Z.of_nat t)) = (gbuf gd, gbase gd + (k + 1 + Z.of_nat t)) /\
         nth_error r t = hread h0 (fst (acell src rd2 v2 (unravel shp (k + 1 + Z.of_nat t))))
                                  (snd (acell src rd2 v2 (unravel shp (k + 1 + Z.of_nat t))))).
      { intros t Ht. destruct (H (S t) ltac:(lia)) as [Ct Vt]. cbn [nth_error] in Vt.
        replace (k + 1 + Z.of_nat t) with (k + Z.of_nat (S t)) by lia. split; assumption. }
      destruct (IH (k + 1) h' ltac:(lia) ltac:(lia) Hr) as (ws & Ews & Ecp).
      rewrite Ews. eexists; split; [reflexivity|]. rewrite C0. cbn [writes].
      unfold gwrite. destruct (Z.leb_spec 0 k); [|lia]. destruct (Z.ltb_spec k (glen gd)); [|lia]. cbn [andb].
      destruct (hwrite h' (gbuf gd) (gbase gd + k) x) as [h1|]; [|reflexivity].
      clear Ecp. destruct (IH (k + 1) h1 ltac:(lia) ltac:(lia) Hr) as (ws2 & Ews2 & Ecp2).
      rewrite Ews in Ews2. inversion Ews2; subst. exact Ecp2.
  Qed.
End E.

Section F.
  Context {V : Type}.
  Notation heap := (@heap V).

  Definition cell_ok (h : heap) (c : nat * Z) : Prop :=
    exists l, nth_error h (fst c) = Some l /\ 0 <= snd c < Z.of_nat (length l).

  Lemma hwrite_total (h : heap) b a x : cell_ok h (b, a) -> exists h', hwrite h b a x = Some h'.
  Proof.
    intros (l & E & R). cbn in *. unfold hwrite. rewrite E.
    destruct (zset_some l a x R) as [l' ->]. apply set_nth_some. apply nth_error_Some. congruence.
  Qed.

  Lemma cell_ok_hext (h h' : heap) c : hext h h' -> cell_ok h c -> cell_ok h' c.
  Proof. intros [_ A] (l & E & R). destruct (A _ _ E) as (l' & E' & Le). exists l'. split; [exact E'|lia]. Qed.

  Lemma writes_total : forall ws (h : heap), Forall (fun w => cell_ok h (fst w)) ws -> exists h', writes h ws = Some h'.
  Proof.
    induction ws as [|[[b a] x] r IH]; intros h F; [cbn; eauto|]. inversion F as [|? ? C F']; subst. cbn [writes fst] in *.
    destruct (hwrite_total h b a x C) as [h1 W]. rewrite W. apply IH.
    eapply Forall_impl; [|exact F']. intros w Cw. eapply cell_ok_hext; [eapply hext_hwrite; eauto|exact Cw].
  Qed.

  Lemma acell_ok (h : heap) a rd v i : wf_arr h a rd v -> valid_idx (adims v) i -> cell_ok h (acell a rd v i).
  Proof.
    intros (E & B & S) Vi. destruct (conc_index rd v i B Vi) as [_ R]. unfold acell, cell_ok.
    destruct (im a) as [g|b]; cbn in *.
    - destruct S as (l & El & Lg & Cg & B0 & B1). exists l. split; [exact El|lia].
    - destruct S as (l & El & Ll). exists l. split; [exact El|lia].
  Qed.

  (** Unroll of any well-formed view yields its elements in row-major order (aliasing or not) *)
  Lemma unroll_values (h : heap) src rd2 v2 :
    wf_arr h src rd2 v2 -> steps_pos v2 -> adims v2 <> [] ->
    exists h2 gs, unroll h src = Some (h2, gs) /\ hext h h2 /\ agree (length h) h h2 /\
      glen gs = product (adims v2) /\
      forall k, 0 <= k < product (adims v2) -> gread h2 gs k = get h src (unravel (adims v2) k).
  Proof.
    intros W SP N. pose proof W as (E & B & S).
    destruct (contiguous_iff_adjacent rd2 v2 B SP) as (b & Cb & _).
    assert (Gather : exists h2 gs, unroll_gather h src = Some (h2, gs) /\ hext h h2 /\ agree (length h) h h2 /\
              glen gs = product (adims v2) /\
              forall k, 0 <= k < product (adims v2) -> gread h2 gs k = get h src (unravel (adims v2) k)).
    { destruct (unroll_gather_spec h src rd2 v2 W N) as (vals & U & L & Nth).
      eexists; eexists; split; [exact U|]. split; [apply hext_app|]. split.
      - intros b0 a0 Hb. unfold hread. rewrite nth_error_app1 by exact Hb. reflexivity.
      - split; [reflexivity|]. intros k Hk. unfold gread; cbn [glen gbuf gbase].
        destruct (Z.leb_spec 0 k); [|lia]. destruct (Z.ltb_spec k (product (adims v2))); [|lia]. cbn [andb].
        unfold hread. rewrite nth_error_app2 by lia. rewrite Nat.sub_diag. cbn [nth_error].
        unfold znth, zidx. destruct (Z.ltb_spec (0 + k) 0); [lia|]. rewrite Z.add_0_l. apply Nth. exact Hk. }
    unfold unroll. destruct src as [c m]. cbn [cm im] in *. subst c. destruct m as [g|bb]; [|exact Gather].
    rewrite Cb. destruct b; [|exact Gather].
    destruct (unroll_contiguous_alias h g (conc rd2 v2) rd2 v2 W SP Cb) as (g' & U & _ & _ & Lg & Rd).
    unfold unroll in U. cbn [cm im] in U. rewrite Cb in U.
    exists h, g'. split; [exact U|]. split; [apply hext_refl|]. split; [intros ? ? ?; reflexivity|]. split; assumption.
  Qed.

  (** ** C02: ApplySlice / CopyFrom — the contiguous fast path and the index loop leave the
      same contents in every existing buffer, for non-overlapping well-formed views *)
  Theorem apply_slice_fast_eq_slow (h : heap) (a sl src : arr) loc st g rd1 v1 rd2 v2 :
    slice a loc (shape src) st = Some sl -> im a = GoImpl g ->
    wf_arr h sl rd1 v1 -> steps_pos v1 -> wf_arr h src rd2 v2 -> steps_pos v2 ->
    adims v1 = adims v2 -> adims v1 <> [] ->
    contiguous (cm sl) = Some true ->
    (forall i j, valid_idx (adims v1) i -> valid_idx (adims v1) j -> acell sl rd1 v1 i <> acell src rd2 v2 j) ->
    exists hf hs,
      apply_slice h a loc st src = Some hf /\
      idx_copy_loop h sl src (shape src) (new_index (cm sl) 0) (Z.to_nat (product (shape src))) = Some hs /\
      agree (length h) hf hs.
  Proof.
    intros Sl Ia W1 SP1 W2 SP2 D N C Disj.
    pose proof W1 as (E1 & B1 & S1). pose proof W2 as (E2 & B2 & S2).
    assert (Isl : im sl = GoImpl g).
    { unfold slice in Sl. destruct (slice_into _ _ _ _); [|discriminate]. inversion Sl; subst. exact Ia. }
    set (shp := adims v1) in *.
    assert (Shs : shape src = shp) by (unfold shape; rewrite E2; cbn; symmetry; exact D).
    pose proof (in_box_dims_pos _ _ B1) as P. fold shp in P.
    assert (PP : 0 < product shp) by (apply product_pos_all; exact P).
    (* destination: aliasing slice of the storage *)
    destruct sl as [c1 m1]. cbn [cm im] in *. subst m1.
    destruct (unroll_contiguous_alias h g c1 rd1 v1 W1 SP1 C) as (gd & U1 & Gb & Gs & Gl & _).
    (* adjacency of the destination cells *)
    subst c1. destruct (contiguous_iff_adjacent rd1 v1 B1 SP1) as (b & Cb & Iff). rewrite C in Cb. inversion Cb; subst b.
    pose proof (proj1 Iff eq_refl) as Adj. clear Iff Cb.
    assert (Cell : forall t, 0 <= t < product shp ->
               acell (mkArr (conc rd1 v1) (GoImpl g)) rd1 v1 (unravel shp t) = (gbuf gd, gbase gd + t)).
    { intros t Ht. assert (Vt : valid_idx shp (unravel shp t)) by (apply unravel_valid; exact P).
      destruct (conc_index rd1 v1 _ B1 Vt) as [I _]. rewrite (Adj _ Vt), ravel_unravel in I by (auto; lia).
      unfold acell; cbn [im cell_of]. assert (Er : ravel rd1 (root_idx v1 (unravel shp t)) = start (conc rd1 v1) + t) by congruence.
      rewrite Er, Gb, Gs. f_equal. lia. }
    (* source values *)
    destruct (unroll_values h src rd2 v2 W2 SP2 ltac:(rewrite <- D; exact N)) as (h2 & gs & U2 & X2 & A2 & Lgs & Rd2).
    rewrite <- D in Lgs, Rd2. fold shp in Lgs, Rd2.
    destruct (gread_all_some h2 gs (Z.to_nat (glen gs)) 0) as [svals Gv].
    { intros t Ht. rewrite Lgs in Ht. rewrite Z.add_0_l, Rd2 by lia.
      destruct (get_set_total h src rd2 v2 (unravel shp (Z.of_nat t)) W2) as [[x Hx] _];
        [rewrite <- D; apply unravel_valid; exact P|eauto]. }
    destruct (gread_all_spec h2 gs _ _ _ Gv) as [Lsv Nsv]. rewrite Lgs in Lsv, Nsv.
    (* both paths as the same list of writes *)
    destruct (copy_to_is_copy_ws h (mkArr (conc rd1 v1) (GoImpl g)) src rd1 v1 rd2 v2 shp gd svals 0 h2) as (ws & Ews & Ecp);
      [lia|rewrite Lsv, Gl; fold shp; lia| |].
    { intros t Ht. rewrite Lsv in Ht. rewrite Z.add_0_l. split; [apply Cell; lia|].
      rewrite Nsv by exact Ht. rewrite Z.add_0_l, Rd2 by lia.
      apply get_as_hread; [exact W2|rewrite <- D; apply unravel_valid; exact P]. }
    destruct (idx_copy_loop_writes h (mkArr (conc rd1 v1) (GoImpl g)) src rd1 v1 rd2 v2 shp eq_refl (eq_sym D) P B1 B2 eq_refl E2 Disj
                (Z.to_nat (product shp)) 0 h ltac:(lia) ltac:(lia) S1 S2 ltac:(intros; reflexivity)) as (ws' & Ews' & Eloop).
    rewrite Lsv in Ews. rewrite Ews in Ews'. inversion Ews'; subst ws'. clear Ews'.
    (* the writes succeed on both heaps *)
    assert (Cells : map fst ws = map (fun t => (gbuf gd, gbase gd + Z.of_nat t)) (seq 0 (Z.to_nat (product shp)))).
    { rewrite (copy_ws_cells _ _ _ _ _ _ _ _ _ _ _ Ews). apply map_ext_in. intros t It. apply in_seq in It.
      rewrite Z.add_0_l. apply Cell. lia. }
    assert (OK : Forall (fun w => cell_ok h (fst w)) ws).
    { apply Forall_forall. intros w Iw. assert (Ic : In (fst w) (map fst ws)) by (apply in_map; exact Iw).
      rewrite (copy_ws_cells _ _ _ _ _ _ _ _ _ _ _ Ews) in Ic. apply in_map_iff in Ic as (t & Et & It). rewrite <- Et.
      apply acell_ok; [exact W1|apply unravel_valid; exact P]. }
    destruct (writes_total ws h OK) as [hs Hs].
    destruct (writes_total ws h2) as [hf Hf].
    { eapply Forall_impl; [|exact OK]. intros w Cw. eapply cell_ok_hext; eauto. }
    exists hf, hs. split; [|split].
    - unfold apply_slice. rewrite Sl, Ia. cbn [cm]. rewrite C, U1, U2. unfold gvalues. rewrite Gv, Ecp. exact Hf.
    - rewrite Shs. rewrite new_index_zeros. cbn [cm dims conc]. change (adims v1) with shp.
      rewrite <- unravel_zero by exact P. rewrite Eloop. exact Hs.
    - apply (writes_agree ws h2 h hf hs (length h)); auto.
      + rewrite Cells. apply Injective_map_NoDup; [|apply seq_NoDup].
        intros x y Exy. inversion Exy. lia.
      + apply Forall_forall. intros w Iw. assert (Ic : In (fst w) (map fst ws)) by (apply in_map; exact Iw).
        rewrite Cells in Ic. apply in_map_iff in Ic as (t & Et & _). rewrite <- Et. cbn [fst]. rewrite Gb.
        destruct S1 as (l & El & _). cbn in El. apply nth_error_Some. congruence.
      + intros b0 a0 Hb. symmetry. apply A2, Hb.
  Qed.
End F.
