(** C02: the contiguous fast path of ApplySlice / CopyFrom (copy(dst.Unroll(), src.Unroll()))
    gives the same storage contents as the element-by-element index loop, for every pair of
    well-formed views whose storage cells do not overlap. *)
From Coq Require Import ZArith List Bool Lia.
From OW Require Import Arrays.IntOps Arrays.View Arrays.Ops Arrays.IndexProofs Arrays.AffineProofs
  Arrays.ContigProofs Arrays.HelperProofs Arrays.MemProofs Arrays.HistoryProofs.
Import ListNotations.
Local Open Scope Z_scope.

(** row-major enumeration by rank *)
Lemma unravel_zero ds : Forall (fun d => 0 < d) ds -> unravel ds 0 = map (fun _ => 0) ds.
Proof.
  induction 1 as [|d ds Hd F IH]; [reflexivity|]. cbn [unravel map]. rewrite IH. f_equal.
  rewrite Z.div_0_l; [apply Z.mod_0_l; lia|].
  assert (0 < product ds) by (clear -F; induction F; [reflexivity|]; rewrite product_cons; nia). lia.
Qed.

Lemma new_index_zeros c : new_index c 0 = map (fun _ => 0) (dims c).
Proof. unfold new_index, ndims, uniform. induction (dims c); cbn; congruence. Qed.

Lemma product_pos_all ds : Forall (fun d => 0 < d) ds -> 0 < product ds.
Proof. induction 1; [reflexivity|]. rewrite product_cons; nia. Qed.

Lemma increment_unravel ds k : Forall (fun d => 0 < d) ds -> 0 <= k -> k + 1 < product ds ->
  increment (unravel ds k) ds = Some (unravel ds (k + 1)).
Proof.
  intros F Hk Hlt.
  assert (V : valid_idx ds (unravel ds k)) by (apply unravel_valid; exact F).
  destruct (increment_succ ds _ V) as (i' & E & V' & R).
  rewrite E. f_equal. rewrite ravel_unravel in R by (auto; lia).
  rewrite Z.mod_small in R by lia. rewrite <- R. symmetry. apply unravel_ravel0. exact V'.
Qed.

Section C.
  Context {V : Type}.
  Notation heap := (@heap V).

  Fixpoint writes (h : heap) (ws : list ((nat * Z) * V)) : option heap :=
    match ws with
    | [] => Some h
    | ((b, a), v) :: r => match hwrite h b a v with Some h' => writes h' r | None => None end
    end.

  Lemma writes_spec : forall ws (h h' : heap), NoDup (map fst ws) -> writes h ws = Some h' ->
    (forall c v, In (c, v) ws -> hread h' (fst c) (snd c) = Some v) /\
    (forall b a, ~ In (b, a) (map fst ws) -> hread h' b a = hread h b a).
  Proof.
    induction ws as [|[[b a] v] r IH]; intros h h' ND W; cbn in W.
    - inversion W; subst. split; [intros ? ? []|reflexivity].
    - destruct (hwrite h b a v) as [h1|] eqn:HW; [|discriminate]. cbn [map fst] in ND. inversion ND as [|? ? Nin ND']; subst.
      destruct (IH h1 h' ND' W) as [A B]. split.
      + intros c v0 [E|I]; [|apply A; exact I]. inversion E; subst. cbn [fst snd].
        rewrite B by exact Nin. eapply hread_hwrite_same; eauto.
      + intros b2 a2 N. cbn [map fst] in N. rewrite B by (intro; apply N; right; assumption).
        eapply hread_hwrite_other; eauto. intros E; apply N; left; symmetry; exact E.
  Qed.

  (** two heaps that agree on the first [n] buffers still agree after the same writes there *)
  Definition agree (n : nat) (h1 h2 : heap) : Prop := forall b a, (b < n)%nat -> hread h1 b a = hread h2 b a.

  Lemma writes_agree ws (h1 h2 h1' h2' : heap) n :
    NoDup (map fst ws) -> Forall (fun w => (fst (fst w) < n)%nat) ws ->
    agree n h1 h2 -> writes h1 ws = Some h1' -> writes h2 ws = Some h2' -> agree n h1' h2'.
  Proof.
    intros ND F A W1 W2 b a Hb.
    destruct (writes_spec ws h1 h1' ND W1) as [S1 O1]. destruct (writes_spec ws h2 h2' ND W2) as [S2 O2].
    destruct (in_dec (fun x y => ltac:(decide equality; [apply Z.eq_dec|apply Nat.eq_dec])) (b, a) (map fst ws)) as [I|N].
    - apply in_map_iff in I as ([c v] & E & I). cbn in E. subst c.
      rewrite (S1 _ _ I), (S2 _ _ I). reflexivity.
    - rewrite O1, O2 by exact N. apply A, Hb.
  Qed.
End C.
