(** Bridge to the wrapper model (C04/C05): the generated wrappers address their data through
    `Slice(pos, size, step).MustReshape(shape)` on Go- or C-backed root arrays.  The wrapper
    model of coq/Wrapper takes as its interface assumption that such a view denotes the
    row-major offsets of the sliced block.  Here that assumption is a THEOREM of the array
    model, for Go-backed roots: slicing a well-formed view with in-bounds arguments and
    reshaping the (contiguous) result gives an array that shares the storage and whose
    element i is the parent's element  loc + unravel(dims, rank of i) * step. *)
From Coq Require Import ZArith List Bool Lia.
From OW Require Import Arrays.IntOps Arrays.View Arrays.Ops Arrays.IndexProofs Arrays.AffineProofs
  Arrays.ContigProofs Arrays.HelperProofs Arrays.MemProofs Arrays.HistoryProofs Arrays.CopyProofs
  Arrays.BulkProofs Arrays.ApplyProofs.
Import ListNotations.
Local Open Scope Z_scope.

Section W.
  Context {V : Type}.
  Notation heap := (@heap V).

  Lemma slice_args_ok_lengths pds loc d st : slice_args_ok pds loc d st ->
    length loc = length pds /\ length d = length pds /\ length st = length pds.
  Proof. induction 1 as [|pd pds l ls dk ds s ss Hd Hl Hs Hr A IH]; cbn; [auto|]. destruct IH as (? & ? & ?). lia. Qed.

  Lemma slice_wf (h : heap) a rd v loc d st :
    wf_arr h a rd v -> slice_args_ok (adims v) loc d st ->
    exists sl, slice a loc d (Some st) = Some sl /\ im sl = im a /\ wf_arr h sl rd (aslice v loc d st).
  Proof.
    intros (E & B & S) A. pose proof (in_box_rank _ _ B) as R. destruct R as (Lb & Ls & Ld).
    destruct (slice_args_ok_lengths _ _ _ _ A) as (Ll & _ & Lst). rewrite Ld in Ll, Lst.
    unfold slice. rewrite E.
    rewrite (slice_into_refines rd v loc d (Some st) (in_box_rank _ _ B) Ll) by (intros s0 Es; inversion Es; subst; exact Lst).
    cbn [option_map step_or_ones]. eexists; split; [reflexivity|]. cbn [im cm]. split; [reflexivity|].
    split; [reflexivity|]. split; [apply aslice_in_box; assumption|exact S].
  Qed.

  Lemma aslice_steps_pos v loc d st : steps_pos v -> slice_args_ok (adims v) loc d st ->
    Forall2 (fun s dk => 1 < dk -> 1 <= s) st d -> steps_pos (aslice v loc d st).
  Proof.
    unfold steps_pos, aslice; cbn [astride adims]. intros SP A F. revert SP F. generalize (astride v).
    induction A as [|pd pds l ls dk ds s ss Hd Hl Hs Hr A IH]; intros sv SP F.
    - inversion SP; subst; constructor.
    - inversion SP as [|sv0 ? svr ? Hsv SP']; subst. inversion F as [|? ? ? ? Hf F']; subst.
      unfold vmul; cbn [zipw]. constructor.
      + intros D. specialize (Hf D). assert (1 < pd) by nia. specialize (Hsv H). nia.
      + apply IH; assumption.
  Qed.

  (** ** Slice + MustReshape on a Go-backed view: shares the storage, element-wise law *)
  Theorem slice_reshape_denotes (h : heap) c g rd v loc d st s :
    wf_arr h (mkArr c (GoImpl g)) rd v -> steps_pos v ->
    slice_args_ok (adims v) loc d st -> Forall2 (fun sk dk => 1 < dk -> 1 <= sk) st d ->
    d <> [] -> Forall (fun x => 0 < x) s -> s <> [] -> product s = product d ->
    forall sl, slice (mkArr c (GoImpl g)) loc d (Some st) = Some sl -> contiguous (cm sl) = Some true ->
    exists r g', must_reshape h sl s = Some (h, r) /\ im r = GoImpl g' /\ gbuf g' = gbuf g /\
      wf_arr h r s (idview s) /\
      forall i, valid_idx s i ->
        get h r i = get h (mkArr c (GoImpl g)) (vadd loc (vmul (unravel d (ravel s i)) st)).
  Proof.
    intros W SP A F Nd Ps Ns Eq sl Sl C.
    destruct (slice_wf h _ rd v loc d st W A) as (sl' & Sl' & Im & Wsl). rewrite Sl in Sl'. inversion Sl'; subst sl'. clear Sl'.
    cbn [im] in Im. destruct sl as [csl msl]. cbn [im cm] in *. subst msl.
    pose proof (aslice_steps_pos v loc d st SP A F) as SPsl.
    destruct (reshape_contiguous_aliases h g csl rd (aslice v loc d st) s Wsl SPsl C Nd Ps Ns Eq)
      as (r & g' & R & Ir & Gb & Wr & El).
    exists r, g'. unfold must_reshape. rewrite R. split; [reflexivity|]. split; [exact Ir|]. split; [exact Gb|]. split; [exact Wr|].
    intros i Vi. rewrite (El i Vi). cbn [adims aslice].
    (* element of the slice = element of the parent *)
    pose proof W as (E & B & S). cbn [cm] in E.
    assert (Vu : valid_idx d (unravel d (ravel s i))).
    { apply unravel_valid. clear -A. induction A; constructor; auto; lia. }
    unfold get. cbn [cm im].
    pose proof (in_box_rank _ _ B) as (_ & _ & Ldv).
    destruct (slice_args_ok_lengths _ _ _ _ A) as (Ll & Ldd & Lst). rewrite Ldv in Ll, Ldd, Lst.
    assert (IS : index csl (unravel d (ravel s i)) = index c (vadd loc (vmul (unravel d (ravel s i)) st))).
    { pose proof (index_slice c loc d (Some st) csl (unravel d (ravel s i))) as IS. cbn [step_or_ones] in IS. apply IS.
      - rewrite E. apply conc_wf. exact (in_box_rank _ _ B).
      - rewrite E. cbn. rewrite offsets_from_length. exact Ll.
      - intros s0 Es. injection Es as <-. rewrite E. cbn. rewrite offsets_from_length. exact Lst.
      - unfold slice in Sl. cbn [cm im] in Sl. destruct (slice_into c loc d (Some st)); [|discriminate]. inversion Sl; reflexivity.
      - rewrite (valid_idx_length _ _ Vu). lia. }
    rewrite IS. reflexivity.
  Qed.

  (** ** the pattern of the generated wrappers: row (i, k, 0..T-1) of a root of shape [N; K; T]
      viewed as a 1-D series of length T: element t is storage offset (i*K + k)*T + t *)
  Corollary wrapper_output_row (h : heap) c g N K T i k :
    wf_arr h (mkArr c (GoImpl g)) [N; K; T] (idview [N; K; T]) ->
    0 <= i < N -> 0 <= k < K -> 0 < T ->
    forall sl, slice (mkArr c (GoImpl g)) [i; k; 0] [1; 1; T] (Some [1; 1; 1]) = Some sl ->
    contiguous (cm sl) = Some true ->
    exists r, must_reshape h sl [T] = Some (h, r) /\
      forall t, 0 <= t < T -> get h r [t] = impl_read h (GoImpl g) ((i * K + k) * T + t).
  Proof.
    intros W Hi Hk HT sl Sl C.
    assert (SP : steps_pos (idview [N; K; T])) by (unfold steps_pos, idview; cbn; repeat constructor; lia).
    assert (A : slice_args_ok (adims (idview [N; K; T])) [i; k; 0] [1; 1; T] [1; 1; 1]) by (cbn; repeat constructor; lia).
    assert (F : Forall2 (fun sk dk => 1 < dk -> 1 <= sk) [1; 1; 1] [1; 1; T]) by (repeat constructor; lia).
    assert (Ps : Forall (fun x => 0 < x) [T]) by (repeat constructor; lia).
    assert (Eq : product [T] = product [1; 1; T]) by (unfold product; cbn; lia).
    destruct (slice_reshape_denotes h c g [N; K; T] (idview [N; K; T]) [i; k; 0] [1; 1; T] [1; 1; 1] [T] W SP A F
                ltac:(congruence) Ps ltac:(congruence) Eq sl Sl C) as (r & g' & R & _ & _ & _ & El).
    exists r. split; [exact R|]. intros t Ht. rewrite (El [t]) by (repeat constructor; lia).
      cbn [ravel]. rewrite product_nil. replace (t * 1 + 0) with t by lia.
      assert (U : unravel [1; 1; T] t = [0; 0; t]).
      { cbn [unravel]. rewrite !product_cons, product_nil. rewrite !Z.mod_1_r, Z.div_1_r, Z.mod_small by lia. reflexivity. }
      rewrite U. unfold vadd, vmul; cbn [zipw].
      destruct W as (E & B & S). cbn [cm] in E. unfold get; cbn [cm im]. rewrite E.
      destruct (conc_index [N; K; T] (idview [N; K; T]) [i + 0 * 1; k + 0 * 1; 0 + t * 1] B) as [I _].
      { repeat constructor; lia. }
      rewrite I. f_equal. rewrite root_idx_idview by reflexivity. cbn [ravel]. rewrite !product_cons, product_nil. lia.
  Qed.
End W.

(** non-vacuity: a concrete 2x3x4 Go-backed root; the row (1,2,.) is contiguous, reshapes to [4]
    and reads storage offsets 20..23 *)
Example wrapper_output_row_concrete :
  exists h a sl r, new_go (V:=Z) [] [2; 3; 4] (map Z.of_nat (seq 0 24)) = Some (h, a) /\
    slice a [1; 2; 0] [1; 1; 4] (Some [1; 1; 1]) = Some sl /\ contiguous (cm sl) = Some true /\
    must_reshape h sl [4] = Some (h, r) /\
    map (fun t => get h r [t]) [0; 1; 2; 3] = [Some 20; Some 21; Some 22; Some 23].
Proof. do 4 eexists. repeat split; vm_compute; reflexivity. Qed.
