(** Bridge to the wrapper model (C04/C05), C-backed arrays (data/cdata/arrays_c.go).

    WrapperViews.v proves, for Go-backed roots, that `Slice(pos, size, step).MustReshape(shape)`
    shares the storage of the root and denotes the row-major offsets of the sliced block.  Here
    the same results are theorems of the array model for C-BACKED roots (caller-provided buffer).

    The C branch of Reshape differs from the Go branch: for a contiguous view it does not take
    a sub-slice but returns a NEW ROOT DESCRIPTOR over the same buffer whose Start is the view's
    start offset ([fresh_root newShape (im a) (start (cm a))]).  Such an "offset root" has
    OriginalDims = newShape and Start <> 0, so it is not of the form [conc rd v] for the buffer's
    own shape [rd] and [wf_arr] does not literally apply to it.  We therefore
      - define [off_root s st] / [wf_arr_off] (a root of shape s laid out row-major in the region
        [st, st + product s) of its buffer, the region lying inside the buffer) and prove get/set
        totality, the address law and preservation under writes for it;
      - state the aliasing results as laws about [get] AND [set]: reads and writes through the
        reshaped array are exactly reads and writes of the corresponding element of the view. *)
From Coq Require Import ZArith List Bool Lia.
From OW Require Import Arrays.IntOps Arrays.View Arrays.Ops Arrays.IndexProofs Arrays.AffineProofs
  Arrays.ContigProofs Arrays.HelperProofs Arrays.MemProofs Arrays.HistoryProofs Arrays.CopyProofs
  Arrays.BulkProofs Arrays.ApplyProofs Arrays.WrapperViews.
Import ListNotations.
Local Open Scope Z_scope.

Section WC.
  Context {V : Type}.
  Notation heap := (@heap V).
  Notation arr := (@arr).
  Notation impl := (@impl).

  (** * offset roots: what [fresh_root s m st] builds *)
  Definition off_root (s : list Z) (st : Z) : common :=
    mkCommon s s st (offsets_from s) (uniform (length s) 1) (offsets_from s).

  Lemma fresh_root_off (s : list Z) (m : impl) (st : Z) : s <> [] ->
    fresh_root s m st = Some (mkArr (off_root s st) m).
  Proof.
    intros Ns. unfold fresh_root. rewrite (root_common_spec s Ns).
    cbn [odims dims offset step offstep]. reflexivity.
  Qed.

  Lemma off_root_index (s : list Z) (st : Z) (i : list Z) : length i = length s ->
    index (off_root s st) i = Some (st + ravel s i).
  Proof.
    intros Li. unfold index, off_root; cbn [start offstep].
    rewrite dot_dotz by (rewrite offsets_from_length; lia). rewrite dotz_offsets by exact Li. reflexivity.
  Qed.

  (** an ordinary root is the offset root at 0 *)
  Lemma root_is_off_root (s : list Z) (c : common) : root_common s = Some c -> c = off_root s 0.
  Proof.
    intros H. assert (Ns : s <> []) by (intro; subst; discriminate).
    rewrite (root_common_spec s Ns) in H. inversion H; reflexivity.
  Qed.

  (** the region [st, st + n) of the storage behind [m] exists *)
  Definition region_ok (h : heap) (m : impl) (st n : Z) : Prop :=
    match m with
    | GoImpl g => exists l, nth_error h (gbuf g) = Some l /\ 0 <= st /\ st + n <= glen g /\
                            0 <= gbase g /\ gbase g + glen g <= Z.of_nat (length l)
    | CImpl b => exists l, nth_error h b = Some l /\ 0 <= st /\ st + n <= Z.of_nat (length l)
    end.

  (** well-formed offset root: shape [s] (all extents positive), row-major in [st, st + product s) *)
  Definition wf_arr_off (h : heap) (a : arr) (s : list Z) (st : Z) : Prop :=
    cm a = off_root s st /\ Forall (fun d => 0 < d) s /\ s <> [] /\ region_ok h (im a) st (product s).

  Lemma region_access_ok (h : heap) (m : impl) st n addr : region_ok h m st n -> st <= addr < st + n ->
    (exists x, impl_read h m addr = Some x) /\ (forall x, exists h', impl_write h m addr x = Some h').
  Proof.
    intros R A. destruct m as [g|b]; cbn [region_ok impl_read impl_write] in *.
    - destruct R as (l & E & R0 & R1 & B0 & B1). unfold gread, gwrite, hread, hwrite. rewrite E.
      destruct (Z.leb_spec 0 addr); [|lia]. destruct (Z.ltb_spec addr (glen g)); [|lia]. cbn [andb].
      split.
      + apply znth_some. lia.
      + intros x. destruct (zset_some l (gbase g + addr) x ltac:(lia)) as [l' ->].
        apply set_nth_some. apply nth_error_Some. congruence.
    - destruct R as (l & E & R0 & R1). unfold hread, hwrite. rewrite E. split.
      + apply znth_some. lia.
      + intros x. destruct (zset_some l addr x ltac:(lia)) as [l' ->].
        apply set_nth_some. apply nth_error_Some. congruence.
  Qed.

  (** address law: valid index i of an offset root lives at st + rank(i), inside the region *)
  Theorem off_root_address (h : heap) (a : arr) s st i : wf_arr_off h a s st -> valid_idx s i ->
    index (cm a) i = Some (st + ravel s i) /\ st <= st + ravel s i < st + product s.
  Proof.
    intros (E & P & Ns & R) Vi. rewrite E. split; [apply off_root_index, valid_idx_length, Vi|].
    pose proof (ravel_bounds _ _ Vi). lia.
  Qed.

  (** totality: no in-bounds read or write through an offset root fails or leaves its region *)
  Theorem get_set_total_off (h : heap) (a : arr) s st i : wf_arr_off h a s st -> valid_idx s i ->
    (exists x, get h a i = Some x) /\ (forall x, exists h', set h a i x = Some h').
  Proof.
    intros W Vi. destruct (off_root_address h a s st i W Vi) as [I Bd]. destruct W as (E & P & Ns & R).
    unfold get, set. rewrite I. apply (region_access_ok h (im a) st (product s)); assumption.
  Qed.

  Lemma region_ok_hwrite (h : heap) m st n b a x h' : region_ok h m st n -> hwrite h b a x = Some h' -> region_ok h' m st n.
  Proof.
    intros R Wr. destruct (hwrite_lengths _ _ _ _ _ Wr) as [_ L].
    destruct m as [g|c]; cbn [region_ok] in *.
    - destruct R as (l & E & R). specialize (L (gbuf g)). rewrite E in L. cbn in L.
      destruct (nth_error h' (gbuf g)) as [l'|]; [|discriminate]. cbn in L. inversion L as [L'].
      exists l'. split; [reflexivity|]. rewrite L'. exact R.
    - destruct R as (l & E & R). specialize (L c). rewrite E in L. cbn in L.
      destruct (nth_error h' c) as [l'|]; [|discriminate]. cbn in L. inversion L as [L'].
      exists l'. split; [reflexivity|]. rewrite L'. exact R.
  Qed.

  (** writes (through any array) preserve the well-formedness of every offset root *)
  Lemma wf_arr_off_set (h : heap) (a : arr) i x h' (a2 : arr) s2 st2 :
    set h a i x = Some h' -> wf_arr_off h a2 s2 st2 -> wf_arr_off h' a2 s2 st2.
  Proof.
    intros Wr (E & P & Ns & R). split; [exact E|]. split; [exact P|]. split; [exact Ns|].
    unfold set in Wr. destruct (index (cm a) i) as [addr|]; [|discriminate].
    destruct (im a) as [g|c]; cbn [impl_write] in Wr.
    - unfold gwrite in Wr. destruct ((0 <=? addr) && (addr <? glen g)); [|discriminate].
      eapply region_ok_hwrite; eauto.
    - eapply region_ok_hwrite; eauto.
  Qed.

  (** a C-backed root that is well-formed in the sense of [wf_arr] is an offset root at 0 *)
  Lemma wf_arr_root_off (h : heap) c b s : wf_arr h (mkArr c (CImpl b)) s (idview s) -> s <> [] ->
    wf_arr_off h (mkArr c (CImpl b)) s 0.
  Proof.
    intros (E & B & S) Ns. cbn [cm im] in *. split.
    - cbn [cm]. rewrite E. unfold conc, idview, off_root; cbn [adims abase astride].
      rewrite ravel_zero, uniform_ones, vmul_ones_map by (rewrite offsets_from_length; reflexivity). reflexivity.
    - split; [exact (in_box_dims_pos _ _ B)|]. split; [exact Ns|]. cbn [im region_ok storage_ok] in *.
      destruct S as (l & El & Ll). exists l. split; [exact El|]. lia.
  Qed.

  (** * 1. Reshape of a contiguous C-backed view does not copy *)

  (** full form: the result IS the offset root of shape s at the view's start over the same buffer,
      it is well-formed, and its index i addresses the cell of the view's element of equal rank *)
  Theorem reshape_contiguous_c_full (h : heap) b c rd v s :
    wf_arr h (mkArr c (CImpl b)) rd v -> steps_pos v -> contiguous c = Some true -> adims v <> [] ->
    Forall (fun d => 0 < d) s -> s <> [] -> product s = product (adims v) ->
    reshape h (mkArr c (CImpl b)) s = Some (h, RArr (mkArr (off_root s (start c)) (CImpl b))) /\
    wf_arr_off h (mkArr (off_root s (start c)) (CImpl b)) s (start c) /\
    (forall i, valid_idx s i ->
       index (off_root s (start c)) i = Some (start c + ravel s i) /\
       index c (unravel (adims v) (ravel s i)) = Some (start c + ravel s i)).
  Proof.
    intros W SP C Nd Ps Ns Eq. pose proof W as (E & B & S). cbn [cm im] in *.
    pose proof (in_box_dims_pos _ _ B) as P.
    destruct (contiguous_iff_adjacent rd v B SP) as (bb & Cb & Iff). rewrite <- E in Cb, Iff.
    rewrite C in Cb. inversion Cb; subst bb. pose proof (proj1 Iff eq_refl) as Adj. clear Iff Cb.
    assert (PP : 0 < product (adims v)) by (apply product_pos_all; exact P).
    assert (Sh : shape (mkArr c (CImpl b)) = adims v) by (unfold shape; cbn; rewrite E; reflexivity).
    assert (Rts : exists rts, reshape_to_series (mkArr c (CImpl b)) s = Some rts).
    { unfold reshape_to_series. rewrite Sh. destruct (Nat.eqb (length s) 1); [|eauto].
      destruct (adims v) as [|d0 dr] eqn:Ed; [congruence|]. cbn. eauto. }
    destruct Rts as [rts Rts].
    split; [|split].
    - unfold reshape. rewrite Sh. destruct (Z.eqb_spec (product s) (product (adims v))) as [_|N]; [|contradiction].
      cbn [negb im cm]. rewrite C, Rts, (fresh_root_off s (CImpl b) (start c) Ns). reflexivity.
    - split; [reflexivity|]. split; [exact Ps|]. split; [exact Ns|]. cbn [im region_ok].
      destruct S as (l & El & Ll). exists l. split; [exact El|].
      (* first and last element of the view are inside the buffer *)
      assert (Vlast : valid_idx (adims v) (decrement (adims v))).
      { clear -P. unfold decrement. induction P; cbn; constructor; auto; lia. }
      assert (Rlast : ravel (adims v) (decrement (adims v)) = product (adims v) - 1).
      { clear -P. unfold decrement. induction P as [|d ds Hd F IH]; [reflexivity|]. cbn [map ravel].
        rewrite IH, product_cons. lia. }
      assert (V0 : valid_idx (adims v) (map (fun _ => 0) (adims v))).
      { apply valid_zero. eapply Forall_impl; [|exact P]. cbn; intros; lia. }
      destruct (conc_index rd v _ B Vlast) as [Il Rl]. rewrite <- E, (Adj _ Vlast), Rlast in Il.
      destruct (conc_index rd v _ B V0) as [I0 R0]. rewrite <- E, (Adj _ V0), ravel_zero in I0.
      assert (Il' : start c + (product (adims v) - 1) = ravel rd (root_idx v (decrement (adims v)))) by congruence.
      assert (I0' : start c + 0 = ravel rd (root_idx v (map (fun _ : Z => 0) (adims v)))) by congruence.
      lia.
    - intros i Vi. split; [apply off_root_index, valid_idx_length, Vi|].
      assert (Vu : valid_idx (adims v) (unravel (adims v) (ravel s i))) by (apply unravel_valid; exact P).
      rewrite (Adj _ Vu). rewrite ravel_unravel; [reflexivity|exact P|]. rewrite <- Eq. apply ravel_bounds, Vi.
  Qed.

  (** the statement of the Go-backed theorem, for C-backed views, with the write law *)
  Theorem reshape_contiguous_aliases_c (h : heap) b c rd v s :
    wf_arr h (mkArr c (CImpl b)) rd v -> steps_pos v -> contiguous c = Some true -> adims v <> [] ->
    Forall (fun d => 0 < d) s -> s <> [] -> product s = product (adims v) ->
    exists r, reshape h (mkArr c (CImpl b)) s = Some (h, RArr r) /\ im r = CImpl b /\
      (forall i, valid_idx s i ->
         get h r i = get h (mkArr c (CImpl b)) (unravel (adims v) (ravel s i))) /\
      (forall i x, valid_idx s i ->
         set h r i x = set h (mkArr c (CImpl b)) (unravel (adims v) (ravel s i)) x).
  Proof.
    intros W SP C Nd Ps Ns Eq.
    destruct (reshape_contiguous_c_full h b c rd v s W SP C Nd Ps Ns Eq) as (R & _ & I).
    eexists; split; [exact R|]. split; [reflexivity|]. split.
    - intros i Vi. destruct (I i Vi) as [I1 I2]. unfold get; cbn [cm im]. rewrite I1, I2. reflexivity.
    - intros i x Vi. destruct (I i Vi) as [I1 I2]. unfold set; cbn [cm im]. rewrite I1, I2. reflexivity.
  Qed.

  (** the result is a well-formed offset root: every valid index can be read and written *)
  Corollary reshape_contiguous_c_total (h : heap) b c rd v s :
    wf_arr h (mkArr c (CImpl b)) rd v -> steps_pos v -> contiguous c = Some true -> adims v <> [] ->
    Forall (fun d => 0 < d) s -> s <> [] -> product s = product (adims v) ->
    exists r, reshape h (mkArr c (CImpl b)) s = Some (h, RArr r) /\ wf_arr_off h r s (start c) /\
      forall i, valid_idx s i -> (exists x, get h r i = Some x) /\ (forall x, exists h', set h r i x = Some h').
  Proof.
    intros W SP C Nd Ps Ns Eq.
    destruct (reshape_contiguous_c_full h b c rd v s W SP C Nd Ps Ns Eq) as (R & Wo & _).
    eexists; split; [exact R|]. split; [exact Wo|]. intros i Vi. exact (get_set_total_off _ _ _ _ _ Wo Vi).
  Qed.

  (** * 2. Slice + MustReshape on a C-backed view *)

  (** index of the slice = index of the parent (any back-end) *)
  Lemma slice_index_parent (h : heap) c (m : impl) rd v loc d st sl j :
    wf_arr h (mkArr c m) rd v -> slice_args_ok (adims v) loc d st ->
    slice (mkArr c m) loc d (Some st) = Some sl -> length j = length d ->
    index (cm sl) j = index c (vadd loc (vmul j st)).
  Proof.
    intros W A Sl Lj. pose proof W as (E & B & S). cbn [cm im] in *.
    pose proof (in_box_rank _ _ B) as (_ & _ & Ldv).
    destruct (slice_args_ok_lengths _ _ _ _ A) as (Ll & Ldd & Lst). rewrite Ldv in Ll, Ldd, Lst.
    pose proof (index_slice c loc d (Some st) (cm sl) j) as IS. cbn [step_or_ones] in IS. apply IS.
    - rewrite E. apply conc_wf. exact (in_box_rank _ _ B).
    - rewrite E. cbn. rewrite offsets_from_length. exact Ll.
    - intros s0 Es. injection Es as <-. rewrite E. cbn. rewrite offsets_from_length. exact Lst.
    - unfold slice in Sl. cbn [cm im] in Sl. destruct (slice_into c loc d (Some st)); [|discriminate]. inversion Sl; reflexivity.
    - lia.
  Qed.

  Theorem slice_reshape_denotes_c (h : heap) c b rd v loc d st s :
    wf_arr h (mkArr c (CImpl b)) rd v -> steps_pos v ->
    slice_args_ok (adims v) loc d st -> Forall2 (fun sk dk => 1 < dk -> 1 <= sk) st d ->
    d <> [] -> Forall (fun x => 0 < x) s -> s <> [] -> product s = product d ->
    forall sl, slice (mkArr c (CImpl b)) loc d (Some st) = Some sl -> contiguous (cm sl) = Some true ->
    exists r, must_reshape h sl s = Some (h, r) /\ im r = CImpl b /\
      wf_arr_off h r s (start (cm sl)) /\
      (forall i, valid_idx s i ->
         get h r i = get h (mkArr c (CImpl b)) (vadd loc (vmul (unravel d (ravel s i)) st))) /\
      (forall i x, valid_idx s i ->
         set h r i x = set h (mkArr c (CImpl b)) (vadd loc (vmul (unravel d (ravel s i)) st)) x).
  Proof.
    intros W SP A F Nd Ps Ns Eq sl Sl C.
    destruct (slice_wf h _ rd v loc d st W A) as (sl' & Sl' & Im & Wsl). rewrite Sl in Sl'. inversion Sl'; subst sl'. clear Sl'.
    cbn [im] in Im. destruct sl as [csl msl]. cbn [im cm] in *. subst msl.
    pose proof (aslice_steps_pos v loc d st SP A F) as SPsl.
    destruct (reshape_contiguous_c_full h b csl rd (aslice v loc d st) s Wsl SPsl C Nd Ps Ns Eq) as (R & Wo & I).
    eexists. unfold must_reshape. rewrite R. split; [reflexivity|]. split; [reflexivity|]. split; [exact Wo|].
    cbn [adims aslice] in I.
    assert (Vu : forall i, valid_idx d (unravel d (ravel s i))).
    { intros i. apply unravel_valid. clear -A. induction A; constructor; auto; lia. }
    assert (IS : forall i, index csl (unravel d (ravel s i)) = index c (vadd loc (vmul (unravel d (ravel s i)) st))).
    { intros i. apply (slice_index_parent h c (CImpl b) rd v loc d st (mkArr csl (CImpl b)) _ W A Sl).
      apply valid_idx_length, Vu. }
    split.
    - intros i Vi. destruct (I i Vi) as [I1 I2]. unfold get; cbn [cm im]. rewrite I1, <- IS, I2. reflexivity.
    - intros i x Vi. destruct (I i Vi) as [I1 I2]. unfold set; cbn [cm im]. rewrite I1, <- IS, I2. reflexivity.
  Qed.

  (** * 3. the pattern of the generated wrappers *)

  (** the row slice [i; k; 0] [1; 1; T] steps [1; 1; 1] of a root [N; K; T] always reports itself
      contiguous, whatever the back-end (so the hypothesis of [wrapper_output_row] is redundant) *)
  Lemma row_slice_contiguous (m : impl) c N K T i k :
    c = conc [N; K; T] (idview [N; K; T]) ->
    exists sl, slice (mkArr c m) [i; k; 0] [1; 1; T] (Some [1; 1; 1]) = Some sl /\ im sl = m /\
      contiguous (cm sl) = Some true.
  Proof.
    intros ->. unfold slice. cbn [cm im].
    rewrite (slice_into_some (conc [N; K; T] (idview [N; K; T])) [i; k; 0] [1; 1; T] (Some [1; 1; 1])).
    - cbn [option_map]. eexists; split; [reflexivity|]. split; [reflexivity|].
      unfold contiguous. cbn [cm dims odims step offset conc idview adims astride abase map step_or_ones offsets_from].
      unfold vmul; cbn [zipw zip4 option_map rev app contig_loop].
      (* axes 0 and 1 have extent 1 (never fail); axis 2: step 1, full extent, offset 1 *)
      rewrite product_nil. change (1 <? 1) with false. rewrite Bool.andb_false_r. reflexivity.
    - apply conc_wf. repeat split.
    - reflexivity.
    - intros s0 Es. injection Es as <-. reflexivity.
  Qed.

  Corollary wrapper_output_row_c (h : heap) c b N K T i k :
    wf_arr h (mkArr c (CImpl b)) [N; K; T] (idview [N; K; T]) ->
    0 <= i < N -> 0 <= k < K -> 0 < T ->
    exists sl r, slice (mkArr c (CImpl b)) [i; k; 0] [1; 1; T] (Some [1; 1; 1]) = Some sl /\
      contiguous (cm sl) = Some true /\
      must_reshape h sl [T] = Some (h, r) /\ im r = CImpl b /\
      forall t, 0 <= t < T ->
        get h r [t] = impl_read h (CImpl b) ((i * K + k) * T + t) /\
        forall x, set h r [t] x = impl_write h (CImpl b) ((i * K + k) * T + t) x.
  Proof.
    intros W Hi Hk HT. pose proof W as (E & B & S). cbn [cm] in E.
    destruct (row_slice_contiguous (CImpl b) c N K T i k E) as (sl & Sl & _ & C).
    assert (SP : steps_pos (idview [N; K; T])) by (unfold steps_pos, idview; cbn; repeat constructor; lia).
    assert (A : slice_args_ok (adims (idview [N; K; T])) [i; k; 0] [1; 1; T] [1; 1; 1]) by (cbn; repeat constructor; lia).
    assert (F : Forall2 (fun sk dk => 1 < dk -> 1 <= sk) [1; 1; 1] [1; 1; T]) by (repeat constructor; lia).
    assert (Ps : Forall (fun x => 0 < x) [T]) by (repeat constructor; lia).
    assert (Eq : product [T] = product [1; 1; T]) by (unfold product; cbn; lia).
    destruct (slice_reshape_denotes_c h c b [N; K; T] (idview [N; K; T]) [i; k; 0] [1; 1; T] [1; 1; 1] [T] W SP A F
                ltac:(congruence) Ps ltac:(congruence) Eq sl Sl C) as (r & R & Ir & _ & Gl & Stl).
    exists sl, r. split; [exact Sl|]. split; [exact C|]. split; [exact R|]. split; [exact Ir|].
    intros t Ht.
    assert (Vt : valid_idx [T] [t]) by (repeat constructor; lia).
    assert (U : vadd [i; k; 0] (vmul (unravel [1; 1; T] (ravel [T] [t])) [1; 1; 1]) = [i + 0 * 1; k + 0 * 1; 0 + t * 1]).
    { cbn [ravel]. rewrite product_nil. replace (t * 1 + 0) with t by lia.
      cbn [unravel]. rewrite !product_cons, product_nil. rewrite !Z.mod_1_r, Z.div_1_r, Z.mod_small by lia. reflexivity. }
    assert (I : index c [i + 0 * 1; k + 0 * 1; 0 + t * 1] = Some ((i * K + k) * T + t)).
    { rewrite E. destruct (conc_index [N; K; T] (idview [N; K; T]) [i + 0 * 1; k + 0 * 1; 0 + t * 1] B) as [I _].
      { repeat constructor; lia. }
      rewrite I. f_equal. rewrite root_idx_idview by reflexivity. cbn [ravel]. rewrite !product_cons, product_nil. lia. }
    split.
    - rewrite (Gl [t] Vt), U. unfold get; cbn [cm im]. rewrite I. reflexivity.
    - intros x. rewrite (Stl [t] x Vt), U. unfold set; cbn [cm im]. rewrite I. reflexivity.
  Qed.

  (** the Go-backed corollary of WrapperViews.v with the contiguity hypothesis discharged *)
  Corollary wrapper_output_row_go (h : heap) c g N K T i k :
    wf_arr h (mkArr c (GoImpl g)) [N; K; T] (idview [N; K; T]) ->
    0 <= i < N -> 0 <= k < K -> 0 < T ->
    exists sl r, slice (mkArr c (GoImpl g)) [i; k; 0] [1; 1; T] (Some [1; 1; 1]) = Some sl /\
      contiguous (cm sl) = Some true /\
      must_reshape h sl [T] = Some (h, r) /\
      forall t, 0 <= t < T -> get h r [t] = impl_read h (GoImpl g) ((i * K + k) * T + t).
  Proof.
    intros W Hi Hk HT. pose proof W as (E & _ & _). cbn [cm] in E.
    destruct (row_slice_contiguous (GoImpl g) c N K T i k E) as (sl & Sl & _ & C).
    destruct (wrapper_output_row h c g N K T i k W Hi Hk HT sl Sl C) as (r & R & G).
    exists sl, r. repeat split; assumption.
  Qed.

  (** a write through the reshaped row is the write of that cell of the buffer, hence visible
      through the root at [i; k; t] and nowhere else *)
  Corollary wrapper_output_row_c_write_visible (h : heap) c b N K T i k :
    wf_arr h (mkArr c (CImpl b)) [N; K; T] (idview [N; K; T]) ->
    0 <= i < N -> 0 <= k < K -> 0 < T ->
    exists sl r, slice (mkArr c (CImpl b)) [i; k; 0] [1; 1; T] (Some [1; 1; 1]) = Some sl /\
      must_reshape h sl [T] = Some (h, r) /\
      forall t x, 0 <= t < T ->
        exists h', set h r [t] x = Some h' /\
          forall j, valid_idx [N; K; T] j ->
            get h' (mkArr c (CImpl b)) j =
              if list_eq_dec Z.eq_dec j [i; k; t] then Some x else get h (mkArr c (CImpl b)) j.
  Proof.
    intros W Hi Hk HT. pose proof W as (E & B & S). cbn [cm im] in E, S.
    destruct (wrapper_output_row_c h c b N K T i k W Hi Hk HT) as (sl & r & Sl & _ & R & _ & L).
    exists sl, r. split; [exact Sl|]. split; [exact R|]. intros t x Ht.
    destruct (L t Ht) as [_ Lw].
    assert (Vr : valid_idx [N; K; T] [i; k; t]) by (repeat constructor; lia).
    destruct (get_set_total h (mkArr c (CImpl b)) [N; K; T] (idview [N; K; T]) [i; k; t] W Vr) as [_ St].
    destruct (St x) as [h' Sh'].
    assert (Ir : index c [i; k; t] = Some ((i * K + k) * T + t)).
    { rewrite E. destruct (conc_index [N; K; T] (idview [N; K; T]) [i; k; t] B Vr) as [I _].
      rewrite I. f_equal. rewrite root_idx_idview by reflexivity. cbn [ravel]. rewrite !product_cons, product_nil. lia. }
    assert (Sw : set h r [t] x = Some h').
    { rewrite Lw. unfold set in Sh'. cbn [cm im] in Sh'. rewrite Ir in Sh'. exact Sh'. }
    exists h'. split; [exact Sw|]. intros j Vj. subst c.
    rewrite (write_visible h [N; K; T] (CImpl b) (idview [N; K; T]) (idview [N; K; T]) [i; k; t] j x h' B B Vr Vj Sh').
    rewrite !root_idx_idview by (first [reflexivity | apply (valid_idx_length _ _ Vj)]). reflexivity.
  Qed.
End WC.

(** * 4. non-vacuity: a concrete 2x3x4 C-backed root; the row (1,2,.) is contiguous, reshapes to [4]
    WITHOUT copying (heap unchanged, same C buffer, Start = 20), reads storage offsets 20..23, and a
    write through the reshaped row is visible through the root (and only at that element) *)
Example wrapper_output_row_c_concrete :
  exists h a sl r h', new_c (V:=Z) [] [2; 3; 4] (map Z.of_nat (seq 0 24)) = Some (h, a) /\
    slice a [1; 2; 0] [1; 1; 4] (Some [1; 1; 1]) = Some sl /\ contiguous (cm sl) = Some true /\
    must_reshape h sl [4] = Some (h, r) /\ im r = CImpl 0 /\ start (cm r) = 20 /\ odims (cm r) = [4] /\
    map (fun t => get h r [t]) [0; 1; 2; 3] = [Some 20; Some 21; Some 22; Some 23] /\
    set h r [2] 99 = Some h' /\
    map (fun t => get h' a [1; 2; t]) [0; 1; 2; 3] = [Some 20; Some 21; Some 99; Some 23] /\
    get h' a [1; 1; 3] = Some 19 /\
    set h a [1; 2; 2] 99 = Some h'.
Proof. do 5 eexists. repeat split; vm_compute; reflexivity. Qed.

(** a nested case: a C-backed [2;3;4] root, the contiguous sub-block rows 1..2 of plane 1
    (slice [1;1;0] [1;2;4]), reshaped to [2;4] and to [8]: start offset 16 carried by the new root *)
Example nested_block_c_concrete :
  exists h a sl r r2 h', new_c (V:=Z) [] [2; 3; 4] (map Z.of_nat (seq 0 24)) = Some (h, a) /\
    slice a [1; 1; 0] [1; 2; 4] (Some [1; 1; 1]) = Some sl /\ contiguous (cm sl) = Some true /\
    must_reshape h sl [2; 4] = Some (h, r) /\ start (cm r) = 16 /\
    map (fun t => get h r t) [[0; 0]; [0; 3]; [1; 0]; [1; 3]] = [Some 16; Some 19; Some 20; Some 23] /\
    (* reshaping the reshaped (offset) root again keeps the start offset *)
    must_reshape h r [8] = Some (h, r2) /\ start (cm r2) = 16 /\
    map (fun t => get h r2 [t]) [0; 7] = [Some 16; Some 23] /\
    set h r2 [5] 77 = Some h' /\ get h' a [1; 2; 1] = Some 77 /\ get h' sl [0; 1; 1] = Some 77.
Proof. do 6 eexists. repeat split; vm_compute; reflexivity. Qed.

Print Assumptions reshape_contiguous_aliases_c.
Print Assumptions slice_reshape_denotes_c.
Print Assumptions wrapper_output_row_c.
Print Assumptions row_slice_contiguous.
Print Assumptions get_set_total_off.
Print Assumptions wrapper_output_row_c_write_visible.
