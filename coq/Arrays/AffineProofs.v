(** Abstract affine views over a root shape, refinement of the concrete
    records by them, and the memory-level frame/effect theorems (C01). *)
From Coq Require Import ZArith List Bool Lia.
From OW Require Import Arrays.IntOps Arrays.View Arrays.Ops Arrays.IndexProofs.
Import ListNotations.
Local Open Scope Z_scope.

Record aview := mkAview { abase : list Z; astride : list Z; adims : list Z }.

(** the concrete record denoting abstract view [a] of a root of shape [rd] *)
Definition conc (rd : list Z) (a : aview) : common :=
  mkCommon rd (adims a) (ravel rd (abase a)) (offsets_from rd) (astride a)
           (vmul (astride a) (offsets_from rd)).

Definition aslice (a : aview) (loc d st : list Z) : aview :=
  mkAview (vadd (abase a) (vmul loc (astride a))) (vmul (astride a) st) d.

(** root multi-index addressed by index [i] of the view *)
Definition root_idx (a : aview) (i : list Z) : list Z := vadd (abase a) (vmul i (astride a)).

Definition rank_ok (n : nat) (a : aview) : Prop :=
  length (abase a) = n /\ length (astride a) = n /\ length (adims a) = n.

Lemma conc_wf rd a : rank_ok (length rd) a -> wf_common (conc rd a).
Proof. intros (B & S & D). split; cbn; [rewrite offsets_from_length; lia|reflexivity]. Qed.

Lemma ravel_dotz rd v : length v = length rd -> ravel rd v = dotz v (offsets_from rd).
Proof. intros; symmetry; now apply dotz_offsets. Qed.

(** slicing commutes with the abstraction: the concrete SliceInto refines [aslice] *)
Theorem slice_into_refines rd a loc d st :
  rank_ok (length rd) a -> length loc = length rd ->
  (forall s, st = Some s -> length s = length rd) ->
  slice_into (conc rd a) loc d st =
  Some (conc rd (aslice a loc d (step_or_ones (conc rd a) st))).
Proof.
  intros R Hl Hs. pose proof R as (B & S & D).
  rewrite slice_into_some; [|apply conc_wf; exact R|cbn; rewrite offsets_from_length; exact Hl
                            |cbn; rewrite offsets_from_length; exact Hs].
  unfold conc, aslice; cbn [odims dims start offset step offstep abase astride adims]. f_equal. f_equal.
  rewrite !ravel_dotz; [|rewrite vadd_length; rewrite ?vmul_length; lia|lia].
  rewrite dotz_vadd by (rewrite vmul_length; lia).
  rewrite dotz_vmul_assoc. reflexivity.
Qed.

(** ** in-box views: every index of the view lands on a valid root index *)
Inductive axes_ok : list Z -> list Z -> list Z -> list Z -> Prop :=
| ao_nil : axes_ok [] [] [] []
| ao_cons r rd b bs s ss d ds :
    1 <= d -> 0 <= b -> 0 <= s -> b + (d - 1) * s < r ->
    axes_ok rd bs ss ds -> axes_ok (r :: rd) (b :: bs) (s :: ss) (d :: ds).

Definition in_box (rd : list Z) (a : aview) : Prop := axes_ok rd (abase a) (astride a) (adims a).

Lemma axes_ok_rank rd b s d : axes_ok rd b s d -> length b = length rd /\ length s = length rd /\ length d = length rd.
Proof. induction 1; cbn; lia. Qed.

Lemma in_box_rank rd a : in_box rd a -> rank_ok (length rd) a.
Proof. intros H; apply axes_ok_rank in H; exact H. Qed.

Lemma root_idx_valid rd a i : in_box rd a -> valid_idx (adims a) i -> valid_idx rd (root_idx a i).
Proof.
  unfold in_box, root_idx. destruct a as [b s d]; cbn. intros H; revert i.
  induction H as [|r rd b bs s ss d ds Hd Hb Hs Hr H IH]; intros i V; inversion V; subst; cbn.
  - constructor.
  - constructor; [nia|]. apply IH; assumption.
Qed.

(** element [i] of an in-box view lives at address ravel(root index) inside [0, size of root) *)
Theorem conc_index rd a i : in_box rd a -> valid_idx (adims a) i ->
  index (conc rd a) i = Some (ravel rd (root_idx a i)) /\
  0 <= ravel rd (root_idx a i) < product rd.
Proof.
  intros B V. pose proof (in_box_rank _ _ B) as (Lb & Ls & Ld).
  pose proof (valid_idx_length _ _ V) as Li.
  split; [|apply ravel_bounds, root_idx_valid; assumption].
  unfold index, conc; cbn [start offstep].
  rewrite dot_dotz by (rewrite vmul_length; rewrite ?offsets_from_length; lia).
  cbn. f_equal. unfold root_idx.
  rewrite !ravel_dotz; [|rewrite vadd_length; rewrite ?vmul_length; lia|lia].
  rewrite dotz_vadd by (rewrite vmul_length; lia). rewrite dotz_vmul_assoc. reflexivity.
Qed.

(** slicing an in-box view with in-bounds arguments gives an in-box view *)
Inductive slice_args_ok : list Z -> list Z -> list Z -> list Z -> Prop :=
| sa_nil : slice_args_ok [] [] [] []
| sa_cons pd pds l ls d ds s ss :
    1 <= d -> 0 <= l -> 0 <= s -> l + (d - 1) * s < pd ->
    slice_args_ok pds ls ds ss -> slice_args_ok (pd :: pds) (l :: ls) (d :: ds) (s :: ss).

Lemma aslice_in_box rd a loc d st :
  in_box rd a -> slice_args_ok (adims a) loc d st -> in_box rd (aslice a loc d st).
Proof.
  unfold in_box, aslice. destruct a as [b s pd]; cbn. intros H; revert loc d st.
  induction H as [|r rd b bs s ss pd pds Hd Hb Hs Hr H IH]; intros loc d st A; inversion A; subst; cbn.
  - constructor.
  - constructor; try nia. apply IH; assumption.
Qed.

Lemma root_idx_aslice a loc d st i :
  length (abase a) = length (astride a) -> length loc = length (astride a) ->
  length st = length (astride a) -> length i = length (astride a) ->
  root_idx (aslice a loc d st) i = root_idx a (vadd loc (vmul i st)).
Proof.
  unfold root_idx, aslice; cbn. destruct a as [b s pd]; cbn.
  revert s loc st i. induction b as [|x b IH]; intros [|y s] [|l loc] [|t st] [|k i]; cbn; intros; try lia; try reflexivity.
  rewrite IH by lia. f_equal. lia.
Qed.

(** * memory-level lemmas *)
Section ListUpd.
  Context {V : Type}.

  Lemma set_nth_length (l : list V) n v l' : set_nth l n v = Some l' -> length l' = length l.
  Proof.
    revert n l'; induction l as [|x l IH]; intros [|n] l' H; cbn in *; try discriminate.
    - inversion H; reflexivity.
    - destruct (set_nth l n v) eqn:E; cbn in H; [|discriminate]. inversion H; subst. cbn. erewrite IH; eauto.
  Qed.

  Lemma set_nth_same (l : list V) n v l' : set_nth l n v = Some l' -> nth_error l' n = Some v.
  Proof.
    revert n l'; induction l as [|x l IH]; intros [|n] l' H; cbn in *; try discriminate.
    - inversion H; reflexivity.
    - destruct (set_nth l n v) eqn:E; cbn in H; [|discriminate]. inversion H; subst. cbn. eauto.
  Qed.

  Lemma set_nth_other (l : list V) n v l' m : set_nth l n v = Some l' -> m <> n -> nth_error l' m = nth_error l m.
  Proof.
    revert n l' m; induction l as [|x l IH]; intros [|n] l' m H N; cbn in *; try discriminate.
    - inversion H; subst. destruct m; [congruence|reflexivity].
    - destruct (set_nth l n v) eqn:E; cbn in H; [|discriminate]. inversion H; subst.
      destruct m; [reflexivity|]. cbn. eapply IH; eauto.
  Qed.

  Lemma set_nth_some (l : list V) n v : (n < length l)%nat -> exists l', set_nth l n v = Some l'.
  Proof.
    revert n; induction l as [|x l IH]; intros [|n] H; cbn in *; try lia; [eauto|].
    destruct (IH n ltac:(lia)) as [l' ->]. cbn; eauto.
  Qed.

  Lemma znth_zset_same (l : list V) a v l' : zset l a v = Some l' -> znth l' a = Some v.
  Proof. unfold zset, znth, zidx. destruct (a <? 0); [discriminate|]. apply set_nth_same. Qed.

  Lemma znth_zset_other (l : list V) a v l' b : zset l a v = Some l' -> b <> a -> znth l' b = znth l b.
  Proof.
    unfold zset, znth, zidx. destruct (Z.ltb_spec a 0) as [Ha|Ha]; [discriminate|].
    intros H N. destruct (Z.ltb_spec b 0) as [Hb|Hb]; [reflexivity|]. eapply set_nth_other; eauto. lia.
  Qed.

  Lemma zset_some (l : list V) a v : 0 <= a < Z.of_nat (length l) -> exists l', zset l a v = Some l'.
  Proof. intros H. unfold zset, zidx. destruct (Z.ltb_spec a 0) as [Ha|Ha]; [lia|]. apply set_nth_some. lia. Qed.

  Lemma znth_some (l : list V) a : 0 <= a < Z.of_nat (length l) -> exists v, znth l a = Some v.
  Proof.
    intros H. unfold znth, zidx. destruct (Z.ltb_spec a 0) as [Ha|Ha]; [lia|].
    destruct (nth_error l (Z.to_nat a)) eqn:E; [eauto|]. apply nth_error_None in E. lia.
  Qed.

End ListUpd.

Section Mem.
  Context {V : Type}.

  (** writing cell (b,a) of the heap: exactly that cell changes *)
  Lemma hread_hwrite_same (h : @heap V) b a v h' : hwrite h b a v = Some h' -> hread h' b a = Some v.
  Proof.
    unfold hwrite, hread. destruct (nth_error h b) as [l|] eqn:E; [|discriminate].
    destruct (zset l a v) as [l'|] eqn:Z; [|discriminate]. intros H.
    rewrite (set_nth_same _ _ _ _ H). eapply znth_zset_same; eauto.
  Qed.

  Lemma hread_hwrite_other (h : @heap V) b a v h' b2 a2 :
    hwrite h b a v = Some h' -> (b2, a2) <> (b, a) -> hread h' b2 a2 = hread h b2 a2.
  Proof.
    unfold hwrite, hread. destruct (nth_error h b) as [l|] eqn:E; [|discriminate].
    destruct (zset l a v) as [l'|] eqn:Z; [|discriminate]. intros H N.
    destruct (Nat.eq_dec b2 b) as [->|Nb].
    - rewrite (set_nth_same _ _ _ _ H), E. eapply znth_zset_other; eauto. congruence.
    - rewrite (set_nth_other _ _ _ _ _ H Nb). reflexivity.
  Qed.

  Lemma hwrite_lengths (h : @heap V) b a v h' : hwrite h b a v = Some h' ->
    length h' = length h /\ forall b2, option_map (@length V) (nth_error h' b2) = option_map (@length V) (nth_error h b2).
  Proof.
    unfold hwrite. destruct (nth_error h b) as [l|] eqn:E; [|discriminate].
    destruct (zset l a v) as [l'|] eqn:Z; [|discriminate]. intros H. split; [eapply set_nth_length; eauto|].
    intros b2. destruct (Nat.eq_dec b2 b) as [->|Nb].
    - rewrite (set_nth_same _ _ _ _ H), E. cbn. f_equal.
      unfold zset in Z. destruct (zidx a); [|discriminate]. eapply set_nth_length; eauto.
    - rewrite (set_nth_other _ _ _ _ _ H Nb). reflexivity.
  Qed.

  (** storage cell of element index [i] of an array *)
  Definition cell_of (m : impl) (addr : Z) : nat * Z :=
    match m with GoImpl g => (gbuf g, gbase g + addr) | CImpl b => (b, addr) end.

  (** ** C01: a single-element write changes exactly the addressed storage cell ... *)
  Theorem set_effect_frame (h : @heap V) (a : arr) loc v h' :
    set h a loc v = Some h' ->
    exists addr, index (cm a) loc = Some addr /\
      hread h' (fst (cell_of (im a) addr)) (snd (cell_of (im a) addr)) = Some v /\
      forall b2 a2, (b2, a2) <> cell_of (im a) addr -> hread h' b2 a2 = hread h b2 a2.
  Proof.
    unfold set. destruct (index (cm a) loc) as [addr|]; [|discriminate]. intros H. exists addr. split; [reflexivity|].
    destruct (im a) as [g|b]; cbn [impl_write cell_of fst snd] in *.
    - unfold gwrite in H. destruct ((0 <=? addr) && (addr <? glen g)); [|discriminate].
      split; [eapply hread_hwrite_same; eauto|intros; eapply hread_hwrite_other; eauto].
    - split; [eapply hread_hwrite_same; eauto|intros; eapply hread_hwrite_other; eauto].
  Qed.

  (** ... and is immediately visible through every other view of the same storage:
      views [a1], [a2] of one root (same impl, same root shape), in-box, valid indices. *)
  Theorem write_visible (h : @heap V) rd (m : impl) v1 v2 i1 i2 x h' :
    in_box rd v1 -> in_box rd v2 -> valid_idx (adims v1) i1 -> valid_idx (adims v2) i2 ->
    set h (mkArr (conc rd v1) m) i1 x = Some h' ->
    get h' (mkArr (conc rd v2) m) i2 =
      if list_eq_dec Z.eq_dec (root_idx v2 i2) (root_idx v1 i1) then Some x
      else get h (mkArr (conc rd v2) m) i2.
  Proof.
    intros B1 B2 V1 V2 H.
    destruct (conc_index rd v1 i1 B1 V1) as [I1 R1]. destruct (conc_index rd v2 i2 B2 V2) as [I2 R2].
    unfold set, get in *; cbn [cm im] in *. rewrite I1 in H. rewrite I2.
    assert (Inj : ravel rd (root_idx v2 i2) = ravel rd (root_idx v1 i1) -> root_idx v2 i2 = root_idx v1 i1).
    { apply ravel_inj; apply root_idx_valid; assumption. }
    destruct (list_eq_dec Z.eq_dec (root_idx v2 i2) (root_idx v1 i1)) as [E|N].
    - rewrite E. destruct m as [g|b]; cbn [impl_read impl_write] in *.
      + unfold gwrite in H. unfold gread. destruct ((0 <=? _) && (_ <? glen g)); [|discriminate].
        eapply hread_hwrite_same; eauto.
      + eapply hread_hwrite_same; eauto.
    - assert (NE : ravel rd (root_idx v2 i2) <> ravel rd (root_idx v1 i1)) by (intro E; apply N, Inj, E).
      destruct m as [g|b]; cbn [impl_read impl_write] in *.
      + unfold gwrite in H. unfold gread.
        destruct ((0 <=? ravel rd (root_idx v1 i1)) && (_ <? glen g)); [|discriminate].
        destruct ((0 <=? ravel rd (root_idx v2 i2)) && (_ <? glen g)); [|reflexivity].
        eapply hread_hwrite_other; eauto. intros C; inversion C; lia.
      + eapply hread_hwrite_other; eauto. intros C; inversion C; lia.
  Qed.
End Mem.
