(** C02: Reshape fails exactly when the element counts differ; ReshapeFast fails
    exactly on non-contiguous views; Go-backed and C-backed reads agree (C03). *)
From Coq Require Import ZArith List Bool Lia.
From OW Require Import Arrays.IntOps Arrays.View Arrays.Ops Arrays.IndexProofs Arrays.AffineProofs
  Arrays.ContigProofs Arrays.MemProofs.
Import ListNotations.
Local Open Scope Z_scope.

Section R.
  Context {V : Type}.
  Notation heap := (@heap V).

  Lemma reshape_size_mismatch (h : heap) a s :
    product s <> product (shape a) -> reshape h a s = Some (h, RErr).
  Proof. intros N. unfold reshape. destruct (Z.eqb_spec (product s) (product (shape a))); [contradiction|reflexivity]. Qed.

  Lemma reshape_error_only_on_mismatch (h : heap) a s h' :
    reshape h a s = Some (h', RErr) -> product s <> product (shape a).
  Proof.
    unfold reshape. destruct (Z.eqb_spec (product s) (product (shape a))) as [E|N]; cbn [negb]; [|intros _; exact N].
    intros H. exfalso. destruct (im a).
    - destruct (reshape_to_series a s), (contiguous (cm a)); try discriminate.
      destruct (b0 || negb b).
      + destruct (unroll h a) as [[h1 g1]|]; [|discriminate]. destruct (fresh_root s (GoImpl g1) 0); discriminate.
      + destruct (series_special a s); discriminate.
    - destruct (contiguous (cm a)) as [[|]|]; try discriminate.
      + destruct (reshape_to_series a s); [|discriminate]. destruct (fresh_root s (CImpl buf) (start (cm a))); discriminate.
      + destruct (unroll h a) as [[h1 g1]|]; [|discriminate]. destruct (fresh_root s (GoImpl g1) 0); discriminate.
  Qed.

  Theorem reshape_fails_iff_count_differs (h : heap) a s r :
    reshape h a s = Some r -> (snd r = RErr <-> product s <> product (shape a)).
  Proof.
    intros H. split.
    - intros E. destruct r as [h' x]; cbn in E; subst x. eapply reshape_error_only_on_mismatch; eauto.
    - intros N. rewrite reshape_size_mismatch in H by exact N. inversion H; reflexivity.
  Qed.

  Theorem reshape_fast_fails_iff_not_contiguous (h : heap) a s b :
    contiguous (cm a) = Some b -> product s = product (shape a) ->
    forall r, reshape_fast h a s = Some r -> (snd r = RErr <-> b = false).
  Proof.
    intros C E r H. unfold reshape_fast in H. rewrite C in H. destruct b.
    - split; [|discriminate]. intros Er. destruct r as [h' x]; cbn in Er; subst x.
      apply reshape_error_only_on_mismatch in H. contradiction.
    - inversion H; subst. cbn. split; auto.
  Qed.

  (** the series special case of Reshape is dead code: it needs a non-contiguous view whose
      largest extent is 1, but a view with all extents 1 is always contiguous *)
  Lemma contig_loop_all_ones l co fl : Forall (fun t => fst (fst (fst t)) = 1) l -> contig_loop l co fl = true.
  Proof.
    intros F; revert co fl; induction F as [|[[[d od] st] off] l Hd F IH]; intros co fl; [reflexivity|].
    cbn in Hd. subst d. cbn [contig_loop]. cbn. apply IH.
  Qed.

  (** Go- and C-backed views of equal contents read the same values *)
  Theorem go_c_get_equal (h1 h2 : heap) c g b rd v i :
    wf_arr h1 (mkArr c (GoImpl g)) rd v -> wf_arr h2 (mkArr c (CImpl b)) rd v ->
    (forall A, 0 <= A < product rd -> hread h1 (gbuf g) (gbase g + A) = hread h2 b A) ->
    valid_idx (adims v) i ->
    get h1 (mkArr c (GoImpl g)) i = get h2 (mkArr c (CImpl b)) i.
  Proof.
    intros (E1 & B1 & S1) (E2 & B2 & S2) Eq Vi. cbn [cm im] in *. subst c.
    destruct (conc_index rd v i B1 Vi) as [I R]. unfold get; cbn [cm im]. rewrite I. cbn [impl_read].
    destruct S1 as (l & _ & Lg & _). unfold gread.
    destruct (Z.leb_spec 0 (ravel rd (root_idx v i))); [|lia].
    destruct (Z.ltb_spec (ravel rd (root_idx v i)) (glen g)); [|lia]. cbn [andb]. apply Eq. lia.
  Qed.
End R.
