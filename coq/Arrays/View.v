(** NdArrayTypeCommon of data/arrays.go: the strided-view record and its pure
    index arithmetic (Index, Contiguous, SliceInto), line by line. *)
From Coq Require Import ZArith List Bool.
From OW Require Import Arrays.IntOps.
Import ListNotations.
Local Open Scope Z_scope.

Record common := mkCommon {
  odims : list Z;      (* OriginalDims *)
  dims : list Z;       (* Dims *)
  start : Z;           (* Start *)
  offset : list Z;     (* Offset *)
  step : list Z;       (* Step *)
  offstep : list Z     (* OffsetStep *)
}.

(** Index(loc): Start + sum loc[i]*OffsetStep[i], i < len(loc) *)
Definition index (c : common) (loc : list Z) : option Z :=
  option_map (Z.add (start c)) (dot loc (offstep c)).

Definition ndims (c : common) : nat := length (dims c).
Definition new_index (c : common) (v : Z) : list Z := uniform (ndims c) v.

(** Contiguous(): the loop runs over i = len(Dims)-1 .. 0 reading Dims, Step,
    Offset, OriginalDims at i; a shorter list there is an index panic. *)
Fixpoint contig_loop (l : list (Z * Z * Z * Z)) (co : Z) (must1 : bool) : bool :=
  match l with
  | [] => true
  | (d, od, st, off) :: r =>
      if (1 <? d) && (must1 || (1 <? st) || (co <? off)) then false
      else contig_loop r (co * d) (must1 || negb (d =? od))
  end.

Fixpoint zip4 (a b c d : list Z) : option (list (Z * Z * Z * Z)) :=
  match a, b, c, d with
  | [], _, _, _ => Some []
  | x :: a', y :: b', z :: c', w :: d' => option_map (cons (x, y, z, w)) (zip4 a' b' c' d')
  | _, _, _, _ => None
  end.

Definition contiguous (c : common) : option bool :=
  match zip4 (dims c) (odims c) (step c) (offset c) with
  | Some l => Some (contig_loop (rev l) 1 false)
  | None => None
  end.

(** SliceInto (after the fix of the stepped-view composition) *)
Definition slice_into (c : common) (loc d : list Z) (st : option (list Z)) : option common :=
  match dot loc (offstep c) with
  | None => None
  | Some k =>
    match (match st with None => Some (step c) | Some s => multiply (step c) s end) with
    | None => None
    | Some stp =>
      match multiply stp (offset c) with
      | None => None
      | Some os => Some (mkCommon (odims c) d (start c + k) (offset c) stp os)
      end
    end
  end.

(** a freshly allocated / wrapped array of shape [ds] (arrayFromSlice, newCArray) *)
Definition root_common (ds : list Z) : option common :=
  match offsets ds with
  | None => None
  | Some off =>
    let ones := uniform (length ds) 1 in
    match multiply ones off with
    | None => None
    | Some os => Some (mkCommon ds ds 0 off ones os)
    end
  end.

(** row-major enumeration of all multi-indices of a shape *)
Fixpoint enum (ds : list Z) : list (list Z) :=
  match ds with
  | [] => [[]]
  | d :: r => flat_map (fun i => map (cons i) (enum r)) (map Z.of_nat (seq 0 (Z.to_nat d)))
  end.
