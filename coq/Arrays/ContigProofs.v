(** C02: a view reports itself contiguous EXACTLY when its elements are adjacent
    in storage in row-major order. *)
From Coq Require Import ZArith List Bool Lia.
From OW Require Import Arrays.IntOps Arrays.View Arrays.Ops Arrays.IndexProofs Arrays.AffineProofs.
Import ListNotations.
Local Open Scope Z_scope.

(** front-recursive reformulation of the Contiguous loop: state after processing a suffix *)
Fixpoint cstate (l : list (Z * Z * Z * Z)) : option (Z * bool) :=
  match l with
  | [] => Some (1, false)
  | (d, od, st, off) :: r =>
      match cstate r with
      | None => None
      | Some (co, fl) =>
          if (1 <? d) && (fl || (1 <? st) || (co <? off)) then None
          else Some (co * d, fl || negb (d =? od))
      end
  end.

Lemma contig_loop_rev_gen L : forall l2,
  contig_loop (rev L ++ l2) 1 false =
  match cstate L with Some (co, fl) => contig_loop l2 co fl | None => false end.
Proof.
  induction L as [|[[[d od] st] off] r IH]; intros l2; [reflexivity|].
  cbn [rev]. rewrite <- app_assoc. cbn [app]. rewrite IH. cbn [cstate].
  destruct (cstate r) as [[co fl]|]; [|reflexivity].
  cbn [contig_loop]. destruct ((1 <? d) && (fl || (1 <? st) || (co <? off))); reflexivity.
Qed.

Lemma contig_loop_rev L :
  contig_loop (rev L) 1 false = match cstate L with Some _ => true | None => false end.
Proof.
  pose proof (contig_loop_rev_gen L []) as H. rewrite app_nil_r in H. rewrite H.
  destruct (cstate L) as [[co fl]|]; reflexivity.
Qed.

Lemma zip4_some a b c d : length b = length a -> length c = length a -> length d = length a ->
  exists l, zip4 a b c d = Some l.
Proof.
  revert b c d; induction a as [|x a IH]; intros [|y b] [|z c] [|w d] Hb Hc Hd; cbn in *; try lia; [eauto|].
  destruct (IH b c d) as [l ->]; try lia. cbn; eauto.
Qed.

(** adjacency of the elements of the (suffix) view, as an equation between the strided
    address offset and the row-major rank *)
Definition adjF (ds sts ods : list Z) : Prop :=
  forall i, valid_idx ds i -> dotz i (vmul sts (offsets_from ods)) = ravel ds i.

Lemma valid_zero ds : Forall (fun d => 1 <= d) ds -> valid_idx ds (map (fun _ => 0) ds).
Proof. induction 1; cbn; constructor; auto; lia. Qed.

Lemma ravel_zero ds : ravel ds (map (fun _ => 0) ds) = 0.
Proof. induction ds; cbn; auto. Qed.

Lemma dotz_zero_l ds w : dotz (map (fun _ : Z => 0) ds) w = 0.
Proof. revert w; induction ds as [|d ds IH]; intros [|z w]; cbn; auto. Qed.

Lemma adjF_cons d ds st sts od ods :
  Forall (fun d => 1 <= d) ds -> 1 <= d ->
  (adjF (d :: ds) (st :: sts) (od :: ods) <->
   ((1 < d -> st * product ods = product ds) /\ adjF ds sts ods)).
Proof.
  intros F Hd. unfold adjF. split.
  - intros H. split.
    + intros D. specialize (H (1 :: map (fun _ => 0) ds)).
      unfold vmul in H. cbn [dotz zipw offsets_from ravel] in H. rewrite dotz_zero_l, ravel_zero in H.
      assert (V : valid_idx (d :: ds) (1 :: map (fun _ => 0) ds)) by (constructor; [lia|apply valid_zero; exact F]).
      specialize (H V). lia.
    + intros i V. specialize (H (0 :: i) ltac:(constructor; [lia|exact V])).
      unfold vmul in *. cbn [dotz zipw offsets_from ravel] in H. lia.
  - intros [H1 H2] i V. inversion V as [|? ? x i' Hx V']; subst.
    unfold vmul in *. cbn [dotz zipw offsets_from ravel].
    rewrite (H2 i' V'). destruct (Z.eq_dec x 0) as [->|N]; [lia|].
    assert (D : 1 < d) by lia. specialize (H1 D). nia.
Qed.

(** per-axis side conditions on a suffix: 1 <= d <= od and a step >= 1 where d > 1 *)
Inductive caxes : list Z -> list Z -> list Z -> Prop :=
| ca_nil : caxes [] [] []
| ca_cons d ds st sts od ods : 1 <= d <= od -> (1 < d -> 1 <= st) -> caxes ds sts ods ->
    caxes (d :: ds) (st :: sts) (od :: ods).

Lemma caxes_dims_pos ds sts ods : caxes ds sts ods -> Forall (fun d => 1 <= d) ds.
Proof. induction 1; constructor; auto; lia. Qed.

Lemma caxes_products ds sts ods : caxes ds sts ods -> 1 <= product ds <= product ods.
Proof.
  induction 1 as [|d ds st sts od ods Hd Hs C IH]; [cbn; lia|]. rewrite !product_cons. nia.
Qed.

Lemma caxes_prod_eq ds sts ods : caxes ds sts ods -> product ds = product ods -> ds = ods.
Proof.
  induction 1 as [|d ds st sts od ods Hd Hs C IH]; intros E; [reflexivity|].
  rewrite !product_cons in E. pose proof (caxes_products _ _ _ C).
  assert (d = od /\ product ds = product ods) as [-> E'] by nia. f_equal. apply IH, E'.
Qed.

Lemma zip4_cons d ds od ods st sts off offs l :
  zip4 ds ods sts offs = Some l ->
  zip4 (d :: ds) (od :: ods) (st :: sts) (off :: offs) = Some ((d, od, st, off) :: l).
Proof. intros H; cbn; rewrite H; reflexivity. Qed.

Lemma cstate_spec ds sts ods : caxes ds sts ods ->
  forall l, zip4 ds ods sts (offsets_from ods) = Some l ->
  match cstate l with
  | Some (co, fl) => co = product ds /\ (fl = false -> ds = ods) /\ (fl = true -> product ds < product ods)
                     /\ adjF ds sts ods
  | None => ~ adjF ds sts ods
  end.
Proof.
  induction 1 as [|d ds st sts od ods Hd Hs C IH]; intros l Z.
  - cbn in Z. inversion Z; subst. cbn. repeat split; try congruence. intros i V; inversion V; reflexivity.
  - cbn [offsets_from] in Z.
    destruct (zip4 ds ods sts (offsets_from ods)) as [l'|] eqn:Z'.
    2:{ cbn in Z. rewrite Z' in Z. discriminate. }
    rewrite (zip4_cons _ _ _ _ _ _ _ _ _ Z') in Z. inversion Z; subst; clear Z.
    specialize (IH l' eq_refl). cbn [cstate].
    pose proof (caxes_dims_pos _ _ _ C) as F. pose proof (caxes_products _ _ _ C) as P.
    destruct (cstate l') as [[co fl]|].
    + destruct IH as (Eco & Hf & Ht & A). subst co.
      destruct (Z.ltb_spec 1 d) as [D|D]; cbn [andb].
      * destruct fl; cbn [orb].
        { (* an earlier (later-axis) extent was cut: not adjacent *)
          rewrite adjF_cons by (auto; lia). intros [H1 _]. specialize (H1 D). specialize (Ht eq_refl).
          specialize (Hs D). nia. }
        destruct (Z.ltb_spec 1 st) as [S|S]; cbn [orb].
        { rewrite adjF_cons by (auto; lia). intros [H1 _]. specialize (H1 D). nia. }
        destruct (Z.ltb_spec (product ds) (product ods)) as [L|L].
        { rewrite adjF_cons by (auto; lia). intros [H1 _]. specialize (H1 D). specialize (Hs D). nia. }
        specialize (Hf eq_refl). subst ods. specialize (Hs D). assert (st = 1) by lia. subst st.
        rewrite product_cons. repeat split.
        -- lia.
        -- intros E. destruct (Z.eqb_spec d od); cbn in E; [congruence|discriminate].
        -- intros E. destruct (Z.eqb_spec d od); cbn in E; [discriminate|]. rewrite product_cons. nia.
        -- rewrite adjF_cons by (auto; lia). split; [lia|exact A].
      * assert (d = 1) by lia. subst d. rewrite !product_cons. repeat split.
        -- lia.
        -- intros E. apply orb_false_iff in E as [E1 E2]. subst fl. rewrite (Hf eq_refl).
           destruct (Z.eqb_spec 1 od); cbn in E2; [congruence|discriminate].
        -- intros E. apply orb_true_iff in E as [E|E].
           ++ specialize (Ht E). nia.
           ++ destruct (Z.eqb_spec 1 od); cbn in E; [discriminate|]. nia.
        -- rewrite adjF_cons by (auto; lia). split; [lia|exact A].
    + rewrite adjF_cons by (auto; lia). intros [_ A]. exact (IH A).
Qed.

Lemma axes_ok_caxes rd b s d : axes_ok rd b s d ->
  Forall2 (fun sk dk => 1 < dk -> 1 <= sk) s d -> caxes d s rd.
Proof.
  induction 1 as [|r rd b bs s ss d ds Hd Hb Hs Hr H IH]; intros F; inversion F; subst; constructor; auto.
  destruct (Z.eq_dec d 1); [lia|]. assert (1 <= s) by (match goal with H : 1 < d -> _ |- _ => apply H end; lia). nia.
Qed.

Definition steps_pos (a : aview) : Prop := Forall2 (fun sk dk => 1 < dk -> 1 <= sk) (astride a) (adims a).

Theorem contiguous_iff_adjacent rd a :
  in_box rd a -> steps_pos a ->
  exists b, contiguous (conc rd a) = Some b /\
    (b = true <->
     forall i, valid_idx (adims a) i ->
       index (conc rd a) i = Some (start (conc rd a) + ravel (adims a) i)).
Proof.
  intros B SP. pose proof (in_box_rank _ _ B) as (Lb & Ls & Ld).
  pose proof (axes_ok_caxes _ _ _ _ B SP) as C.
  destruct (zip4_some (adims a) rd (astride a) (offsets_from rd)) as [l Z];
    [lia|lia|rewrite offsets_from_length; lia|].
  assert (CE : contiguous (conc rd a) = Some (contig_loop (rev l) 1 false)).
  { unfold contiguous, conc; cbn [dims odims step offset]. rewrite Z. reflexivity. }
  rewrite CE. eexists; split; [reflexivity|]. rewrite contig_loop_rev.
  pose proof (cstate_spec _ _ _ C l Z) as S.
  assert (IdxEq : forall i, valid_idx (adims a) i ->
            index (conc rd a) i = Some (start (conc rd a) + dotz i (vmul (astride a) (offsets_from rd)))).
  { intros i V. unfold index, conc; cbn [start offstep].
    rewrite dot_dotz; [reflexivity|]. rewrite vmul_length by (rewrite offsets_from_length; lia).
    rewrite (valid_idx_length _ _ V). lia. }
  destruct (cstate l) as [[co fl]|].
  - destruct S as (_ & _ & _ & A). split; [|reflexivity]. intros _ i V.
    rewrite (IdxEq i V). f_equal. f_equal. apply A, V.
  - split; [discriminate|]. intros H. exfalso. apply S. intros i V.
    specialize (H i V). rewrite (IdxEq i V) in H. inversion H. unfold conc in *; cbn [start] in *. lia.
Qed.
