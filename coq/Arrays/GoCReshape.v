(** C03, whole histories, second part: the reshape family and the element-wise arithmetic.

    GoCProofs.v relates a Go-backed and a C-backed run when every array is a root or a slice
    of a root.  Here the relation is generalised so that it survives Reshape:

    - attached pair [AW]: Go array = a WINDOW (Go slice with any base/len/cap) of the k-th
      corresponding buffer, C array = that C buffer with the view record moved by the base of
      the window ([cm a2 = shift (gbase g) (cm a1)], [shift] of WrapperRefine).  Roots and
      their slices are the case base = 0; Reshape of a contiguous view re-slices on Go (fresh
      root at start 0 over [g[start : start+size]]) and keeps the buffer with an offset root
      on C: again an attached pair, no copy on either side.
    - detached pair [AD]: two Go slices with equal base/len/cap over corresponding NON-root
      buffers with equal contents: what Reshape of a non-contiguous view creates on both
      sides (both gather into a fresh Go slice; on the C side the result is Go-backed too).
    The tables of corresponding buffers [t1 t2] are existentially quantified in [srel2]; they
    contain the root tables and grow by one pair per gathering Reshape.

    THEOREM [go_c_histories_agree_reshape]: for every history (any length)
      guarded2 arr_init_state (map (set_backing false) ops) = true ->
      arr_run_history arr_init_state (map (set_backing false) ops) =
      arr_run_history arr_init_state (map (set_backing true) ops)
    i.e. the FULL observation (result or panic of every step, contents of every root buffer,
    elements of every live array) coincides; [go_c_results_agree_reshape] is the projection on
    the results.  Every operation except OUnrollW is inside [guardb2]'s fragment.

    THE GUARD [guardb2 s o] (decidable, evaluated on the Go-side state [s]; [guarded2] runs it
    along the Go-side history).  [fullwb h a]: the Go slice behind [a] is its whole buffer
    (base 0, len = buffer length) - true for roots, their slices, gathered copies.
      ONew OShape OLen OContig            no condition
      OGet OSet OGetN OSetN OGet1 OSet1 OApply1 OMax OMin
                                          [okb]: fullwb (any arguments, panics coincide) OR the
                                          Go-side step does not panic.  For a re-sliced window
                                          an index outside the window panics on Go and reads /
                                          writes a neighbouring cell on C ([reshape_differs]):
                                          that is exactly what the second disjunct excludes;
                                          [guard_get_in_range]/[guard_set_in_range]: it holds
                                          for every in-range index of a [wfarr] array.
      OSlice                              the new view's element list is observable:
                                          fullwb or [elems] does not panic on Go ([obs_ok])
                                          (needed only because [arr_run_history] lists the
                                          elements of every live array)
      OReshape OMustReshape OReshapeFast  the Go-side reshape does not panic, and the result is
                                          observable ([reshape_guard]); a size mismatch (error)
                                          and ReshapeFast of a non-contiguous view (error) need
                                          nothing.  Contiguous / non-contiguous, attached /
                                          detached sources are all covered; the "series"
                                          special case is shown to be dead code ([rts_contig])
      OApply OUnroll OApplySlice OCopyFrom the guards of GoCProofs ([apply_guard], [wfb],
                                          [copy_guard]) and the arrays are roots or slices of
                                          roots ([classA]: buffer in [sroots], full window)
      OScale OAddTo OApplyFunc            [classA] operands, both in-box with steps >= 1, equal
                                          shapes, DIFFERENT roots ([ew_guard]); Go and C fast
                                          paths are reduced to the index loop by
                                          ArrayOpsProofs.elementwise2_fast_eq_slow
      OUnrollW                            outside (guard = false): Go aliases, C copies
                                          ([unrollw_differs])
    LEFT OUT: the fast-path operations (OApply OUnroll OApplySlice OCopyFrom OScale OAddTo
    OApplyFunc) on RESULTS of Reshape (re-sliced windows and detached copies) - they are
    accepted on roots and slices of roots only, before or after reshapes; arithmetic / copies
    between two views of the same root (sufficient condition "different roots" instead of
    "disjoint cells").  The guard is a sufficient condition: e.g. it asks the Go side not to
    panic also for detached pairs, where the two sides run the same code.

    Nothing is assumed: [Print Assumptions] at the end prints "Closed under the global
    context".  Examples: [demo_reshape] (30 operations: reshapes of contiguous and
    non-contiguous views, of a reshape, of a slice of a reshape, of a detached copy, writes
    through parent and result, errors), [demo_arith], and the rejected histories. *)
From Coq Require Import ZArith List Bool Lia.
From OW Require Import Arrays.IntOps Arrays.View Arrays.Ops Arrays.IndexProofs Arrays.AffineProofs
  Arrays.ContigProofs Arrays.HelperProofs Arrays.MemProofs Arrays.CopyProofs Arrays.Exec Arrays.HistoryProofs
  Arrays.ArrayOpsProofs Arrays.WrapperRefine Arrays.GoCProofs.
Import ListNotations.
Local Open Scope Z_scope.

Definition is_some {A} (x : option A) : bool := match x with Some _ => true | None => false end.

(** the Go slice behind [a] is the whole of its buffer (roots, slices of roots, gathered copies) *)
Definition fullwb (h : zheap) (a : zarr) : bool :=
  match im a with
  | GoImpl g => match nth_error h (gbuf g) with
                | Some l => (gbase g =? 0) && (glen g =? Z.of_nat (length l))
                | None => false
                end
  | CImpl _ => false
  end.

(** side condition of every element-level step: the window is the whole buffer (then any
    argument is fine: panics coincide), or the Go side does not panic *)
Definition okb {A} (h : zheap) (a : zarr) (x : option A) : bool := fullwb h a || is_some x.
Definition okc {A} (h : zheap) (a : zarr) (x : option A) : Prop := fullwb h a = true \/ x <> None.

Lemma okb_okc {A} h a (x : option A) : okb h a x = true -> okc h a x.
Proof.
  unfold okb, okc. intros H. apply orb_true_iff in H as [H|H]; [left; exact H|right].
  destruct x; [discriminate|discriminate H].
Qed.

Lemma okc_bind {A B} h a (x : option A) (f : A -> option B) :
  okc h a (match x with Some y => f y | None => None end) ->
  okc h a x /\ forall y, x = Some y -> okc h a (f y).
Proof.
  intros [F|N]; [split; [left; exact F|intros y _; left; exact F]|].
  split; [right; intros E; rewrite E in N; apply N; reflexivity|].
  intros y E. right. rewrite E in N. exact N.
Qed.

Lemma fullwb_hext h h' a : fullwb h a = true -> hext h h' -> fullwb h' a = true.
Proof.
  unfold fullwb. destruct (im a) as [g|b]; [|discriminate].
  destruct (nth_error h (gbuf g)) as [l|] eqn:E; [|discriminate]. intros F [_ X].
  destruct (X _ _ E) as (l' & E' & L). rewrite E', L. exact F.
Qed.

(** * the generalised relation between a Go-side array and a C-side array, for tables [t1] [t2]
      of corresponding buffers and the Go-side root table [rs1] *)
Section Rel2.
  Variables t1 t2 : list nat.
  Variable rs1 : list nat.

  (** attached: a Go window of a buffer / the corresponding C buffer, the C record moved by
      the base of the window *)
  Definition AW (a1 a2 : zarr) : Prop :=
    exists j g b2, nth_error t1 j = Some (gbuf g) /\ nth_error t2 j = Some b2 /\
      im a1 = GoImpl g /\ im a2 = CImpl b2 /\ cm a2 = shift (gbase g) (cm a1).

  (** detached: two Go slices with the same base/len/cap over corresponding buffers that are not
      roots (gathered copies made by Reshape on both sides) *)
  Definition AD (a1 a2 : zarr) : Prop :=
    exists j g1 g2, nth_error t1 j = Some (gbuf g1) /\ nth_error t2 j = Some (gbuf g2) /\
      im a1 = GoImpl g1 /\ im a2 = GoImpl g2 /\
      gbase g1 = gbase g2 /\ glen g1 = glen g2 /\ gcap g1 = gcap g2 /\
      cm a2 = cm a1 /\ ~ In (gbuf g1) rs1.

  Definition AR2 (a1 a2 : zarr) : Prop := AW a1 a2 \/ AD a1 a2.

  Lemma AR2_dims a1 a2 : AR2 a1 a2 ->
    dims (cm a2) = dims (cm a1) /\ odims (cm a2) = odims (cm a1) /\ step (cm a2) = step (cm a1) /\
    offset (cm a2) = offset (cm a1) /\ offstep (cm a2) = offstep (cm a1) /\
    contiguous (cm a2) = contiguous (cm a1).
  Proof.
    intros [(j & g & b2 & _ & _ & _ & _ & E)|(j & g1 & g2 & _ & _ & _ & _ & _ & _ & _ & E & _)]; rewrite E.
    - repeat split; reflexivity.
    - repeat split; reflexivity.
  Qed.

  Lemma AR2_shape a1 a2 : AR2 a1 a2 -> shape a2 = shape a1.
  Proof. intros A. unfold shape. apply (AR2_dims _ _ A). Qed.

  Lemma hread_pair h1 h2 j b1 b2 A : HR t1 t2 h1 h2 -> nth_error t1 j = Some b1 -> nth_error t2 j = Some b2 ->
    hread h1 b1 A = hread h2 b2 A.
  Proof.
    intros (_ & _ & _ & R) K1 K2. destruct (R j b1 b2 K1 K2) as (l & H1 & H2). unfold hread. rewrite H1, H2. reflexivity.
  Qed.

  Lemma hwrite_pair h1 h2 j b1 b2 A v : HR t1 t2 h1 h2 -> nth_error t1 j = Some b1 -> nth_error t2 j = Some b2 ->
    orel (HS t1 t2 h1) (hwrite h1 b1 A v) (hwrite h2 b2 A v).
  Proof.
    intros R K1 K2. pose proof R as (Lr & N1 & N2 & R0). destruct (R0 j b1 b2 K1 K2) as (l & H1 & H2).
    unfold hwrite. rewrite H1, H2. destruct (zset l A v) as [l'|] eqn:Z; [|exact I].
    destruct (set_nth_some h1 b1 l') as [h1' W1]; [apply nth_error_Some; congruence|].
    destruct (set_nth_some h2 b2 l') as [h2' W2]; [apply nth_error_Some; congruence|].
    rewrite W1, W2. cbn [orel]. split.
    - split; [exact Lr|]. split; [exact N1|]. split; [exact N2|].
      intros k' c1 c2 C1 C2. destruct (Nat.eq_dec k' j) as [->|Nk].
      + assert (c1 = b1) by congruence. assert (c2 = b2) by congruence. subst c1 c2.
        exists l'. split; eapply set_nth_same; eauto.
      + assert (D1 : c1 <> b1).
        { intros ->. apply Nk. apply (proj1 (NoDup_nth_error t1) N1); [apply nth_error_Some; congruence|congruence]. }
        assert (D2 : c2 <> b2).
        { intros ->. apply Nk. apply (proj1 (NoDup_nth_error t2) N2); [apply nth_error_Some; congruence|congruence]. }
        rewrite (set_nth_other _ _ _ _ _ W1 D1), (set_nth_other _ _ _ _ _ W2 D2). apply (R0 k'); assumption.
    - apply (hext_hwrite h1 b1 A v). unfold hwrite. rewrite H1, Z. exact W1.
  Qed.

  (** ** one element *)
  Lemma get_rel2 h1 h2 a1 a2 loc : HR t1 t2 h1 h2 -> AR2 a1 a2 -> okc h1 a1 (get h1 a1 loc) ->
    get h1 a1 loc = get h2 a2 loc.
  Proof.
    intros R [(j & g & b2 & K1 & K2 & I1 & I2 & E)|(j & g1 & g2 & K1 & K2 & I1 & I2 & Eb & El & Ec & E & _)] O.
    - unfold okc, fullwb, get in O. unfold get. rewrite E, index_shift. rewrite I1 in O.
      destruct (index (cm a1) loc) as [i|]; cbn [option_map]; [|reflexivity].
      rewrite I1, I2 in *. cbn [impl_read] in *. unfold gread in *.
      destruct ((0 <=? i) && (i <? glen g)) eqn:In; [apply (hread_pair h1 h2 j); assumption|].
      destruct O as [F|N]; [|congruence].
      pose proof R as (_ & _ & _ & R0). destruct (R0 j _ _ K1 K2) as (l & H1 & H2). rewrite H1 in F.
      apply andb_true_iff in F as [F1 F2]. apply Z.eqb_eq in F1, F2. unfold hread. rewrite H2.
      symmetry. apply znth_none. apply andb_false_iff in In as [In|In]; [apply Z.leb_gt in In|apply Z.ltb_ge in In]; lia.
    - unfold get. rewrite E. destruct (index (cm a1) loc) as [i|]; [|reflexivity].
      rewrite I1, I2. cbn [impl_read]. unfold gread. rewrite <- El, <- Eb.
      destruct ((0 <=? i) && (i <? glen g1)); [|reflexivity]. apply (hread_pair h1 h2 j); assumption.
  Qed.

  Lemma set_rel2 h1 h2 a1 a2 loc v : HR t1 t2 h1 h2 -> AR2 a1 a2 -> okc h1 a1 (set h1 a1 loc v) ->
    orel (HS t1 t2 h1) (set h1 a1 loc v) (set h2 a2 loc v).
  Proof.
    intros R [(j & g & b2 & K1 & K2 & I1 & I2 & E)|(j & g1 & g2 & K1 & K2 & I1 & I2 & Eb & El & Ec & E & _)] O.
    - unfold okc, fullwb, set in O. unfold set. rewrite E, index_shift. rewrite I1 in O.
      destruct (index (cm a1) loc) as [i|]; cbn [option_map]; [|exact I].
      rewrite I1, I2 in *. cbn [impl_write] in *. unfold gwrite in *.
      destruct ((0 <=? i) && (i <? glen g)) eqn:In; [apply (hwrite_pair h1 h2 j); assumption|].
      destruct O as [F|N]; [|congruence].
      pose proof R as (_ & _ & _ & R0). destruct (R0 j _ _ K1 K2) as (l & H1 & H2). rewrite H1 in F.
      apply andb_true_iff in F as [F1 F2]. apply Z.eqb_eq in F1, F2. unfold hwrite. rewrite H2.
      rewrite zset_none; [exact I|].
      apply andb_false_iff in In as [In|In]; [apply Z.leb_gt in In|apply Z.ltb_ge in In]; lia.
    - unfold set. rewrite E. destruct (index (cm a1) loc) as [i|]; [|exact I].
      rewrite I1, I2. cbn [impl_write]. unfold gwrite. rewrite <- El, <- Eb.
      destruct ((0 <=? i) && (i <? glen g1)); [|exact I]. apply (hwrite_pair h1 h2 j); assumption.
  Qed.

  Lemma index1_rel2 a1 a2 l : AR2 a1 a2 -> index1 a2 l = index1 a1 l.
  Proof.
    intros A. unfold index1, ndims, shape. destruct (AR2_dims _ _ A) as (-> & _). reflexivity.
  Qed.

  (** ** loops *)
  Lemma apply1_rel2 a1 a2 loc stp : AR2 a1 a2 -> forall vals h1 h2 i,
    HR t1 t2 h1 h2 -> okc h1 a1 (apply1 h1 a1 loc stp i vals) ->
    orel (HS t1 t2 h1) (apply1 h1 a1 loc stp i vals) (apply1 h2 a2 loc stp i vals).
  Proof.
    intros A. induction vals as [|v r IH]; intros h1 h2 i R O; cbn [apply1] in *.
    - cbn. apply HS_refl, R.
    - apply okc_bind in O as [O1 O2]. unfold set1 in *. rewrite (index1_rel2 a1 a2 _ A).
      pose proof (set_rel2 h1 h2 a1 a2 _ v R A O1) as S.
      destruct (set h1 a1 (index1 a1 (loc + i * stp)) v) as [h1'|]; destruct (set h2 a2 (index1 a1 (loc + i * stp)) v) as [h2'|];
        cbn [orel] in S |- *; try contradiction; [|exact I].
      destruct S as [R' X]. eapply orel_mono; [intros x y Hxy; eapply HS_trans; [exact X|exact Hxy]|].
      apply IH; [exact R'|]. destruct (O2 h1' eq_refl) as [F|N]; [left; eapply fullwb_hext; eauto|right; exact N].
  Qed.

  Lemma extremum_loop_rel2 better h1 h2 a1 a2 shp : HR t1 t2 h1 h2 -> AR2 a1 a2 -> forall n idx res,
    okc h1 a1 (extremum_loop better h1 a1 shp idx res n) ->
    extremum_loop better h1 a1 shp idx res n = extremum_loop better h2 a2 shp idx res n.
  Proof.
    intros R A. induction n as [|n IH]; intros idx res O; cbn [extremum_loop] in *; [reflexivity|].
    apply okc_bind in O as [O1 O2]. rewrite <- (get_rel2 h1 h2 a1 a2 idx R A O1).
    destruct (get h1 a1 idx) as [v|]; [|reflexivity]. specialize (O2 v eq_refl).
    destruct (increment idx shp) as [idx'|]; [apply IH; exact O2|reflexivity].
  Qed.

  Lemma extremum_rel2 better h1 h2 a1 a2 : HR t1 t2 h1 h2 -> AR2 a1 a2 -> okc h1 a1 (extremum better h1 a1) ->
    extremum better h1 a1 = extremum better h2 a2.
  Proof.
    intros R A O. unfold extremum, new_index, ndims in *. rewrite (AR2_shape _ _ A).
    destruct (AR2_dims _ _ A) as (-> & _).
    apply okc_bind in O as [O1 O2]. rewrite <- (get_rel2 h1 h2 a1 a2 _ R A O1).
    destruct (get h1 a1 _) as [v|]; [|reflexivity]. apply extremum_loop_rel2; [assumption..|apply O2; reflexivity].
  Qed.

  Lemma gets_rel2 h1 h2 a1 a2 : HR t1 t2 h1 h2 -> AR2 a1 a2 -> forall locs,
    okc h1 a1 (gets h1 a1 locs) -> gets h1 a1 locs = gets h2 a2 locs.
  Proof.
    intros R A. induction locs as [|l r IH]; intros O; cbn [gets] in *; [reflexivity|].
    apply okc_bind in O as [O1 O2]. rewrite <- (get_rel2 h1 h2 a1 a2 l R A O1).
    destruct (get h1 a1 l) as [v|]; [|reflexivity]. specialize (O2 v eq_refl).
    rewrite IH; [reflexivity|]. destruct O2 as [F|N]; [left; exact F|right].
    destruct (gets h1 a1 r); [discriminate|exfalso; apply N; reflexivity].
  Qed.

  Lemma elems_rel2 h1 h2 a1 a2 : HR t1 t2 h1 h2 -> AR2 a1 a2 -> okc h1 a1 (elems h1 a1) ->
    elems h1 a1 = elems h2 a2.
  Proof. intros R A O. unfold elems in *. rewrite (AR2_shape _ _ A). apply gets_rel2; assumption. Qed.

  Lemma gather_rel2 h1 h2 a1 a2 doff : HR t1 t2 h1 h2 -> AR2 a1 a2 -> forall n i,
    okc h1 a1 (gather h1 a1 doff i n) -> gather h1 a1 doff i n = gather h2 a2 doff i n.
  Proof.
    intros R A. induction n as [|n IH]; intros i O; cbn [gather] in *; [reflexivity|]. rewrite (AR2_shape _ _ A).
    destruct (idivmod i doff (shape a1)) as [loc|]; [|reflexivity].
    apply okc_bind in O as [O1 O2]. rewrite <- (get_rel2 h1 h2 a1 a2 loc R A O1).
    destruct (get h1 a1 loc) as [v|]; [|reflexivity]. specialize (O2 v eq_refl).
    rewrite IH; [reflexivity|]. destruct O2 as [F|N]; [left; exact F|right].
    destruct (gather h1 a1 doff (i + 1) n); [discriminate|exfalso; apply N; reflexivity].
  Qed.

  Lemma slice_rel2 a1 a2 loc d st : AR2 a1 a2 -> orel AR2 (slice a1 loc d st) (slice a2 loc d st).
  Proof.
    intros [(j & g & b2 & K1 & K2 & I1 & I2 & E)|(j & g1 & g2 & K1 & K2 & I1 & I2 & Eb & El & Ec & E & Nr)]; unfold slice.
    - rewrite E, slice_into_shift. destruct (slice_into (cm a1) loc d st) as [c|]; cbn [option_map orel]; [|exact I].
      left. exists j, g, b2. cbn [cm im]. repeat split; assumption.
    - rewrite E. destruct (slice_into (cm a1) loc d st) as [c|]; cbn [option_map orel]; [|exact I].
      right. exists j, g1, g2. cbn [cm im]. repeat split; assumption.
  Qed.
End Rel2.

(** * tables only grow *)
Definition tsub (t t' : list nat) : Prop := forall j b, nth_error t j = Some b -> nth_error t' j = Some b.

Lemma tsub_refl t : tsub t t.
Proof. intros j b H; exact H. Qed.

Lemma tsub_app t e : tsub t (t ++ e).
Proof. intros j b H. rewrite nth_error_app1; [exact H|]. apply nth_error_Some. congruence. Qed.

Lemma AR2_tsub t1 t2 t1' t2' rs1 a1 a2 : tsub t1 t1' -> tsub t2 t2' -> AR2 t1 t2 rs1 a1 a2 -> AR2 t1' t2' rs1 a1 a2.
Proof.
  intros S1 S2 [(j & g & b2 & K1 & K2 & Rest)|(j & g1 & g2 & K1 & K2 & Rest)].
  - left. exists j, g, b2. split; [apply S1, K1|]. split; [apply S2, K2|exact Rest].
  - right. exists j, g1, g2. split; [apply S1, K1|]. split; [apply S2, K2|exact Rest].
Qed.

(** * persistence of "the Go side does not panic" under heap extension *)
Lemma znth_some_range {A} (l : list A) i : znth l i <> None -> 0 <= i < Z.of_nat (length l).
Proof.
  intros H. destruct (Z_lt_dec i 0) as [L|L]; [exfalso; apply H, znth_none; lia|].
  destruct (Z_le_dec (Z.of_nat (length l)) i) as [G|G]; [exfalso; apply H, znth_none; lia|]. lia.
Qed.

Lemma hread_some_hext (h h' : zheap) b i : hread h b i <> None -> hext h h' -> hread h' b i <> None.
Proof.
  unfold hread. destruct (nth_error h b) as [l|] eqn:E; [|congruence]. intros H [_ X].
  destruct (X _ _ E) as (l' & E' & L). rewrite E'. apply znth_some_range in H.
  destruct (znth_some l' i) as [x Hx]; [lia|]. congruence.
Qed.

Lemma get_some_hext (h h' : zheap) a loc : get h a loc <> None -> hext h h' -> get h' a loc <> None.
Proof.
  unfold get. destruct (index (cm a) loc) as [i|]; [|congruence]. destruct (im a) as [g|b]; cbn [impl_read].
  - unfold gread. destruct ((0 <=? i) && (i <? glen g)); [apply hread_some_hext|congruence].
  - apply hread_some_hext.
Qed.

Lemma gets_some_hext (h h' : zheap) a : hext h h' -> forall locs, gets h a locs <> None -> gets h' a locs <> None.
Proof.
  intros X. induction locs as [|l r IH]; cbn [gets]; [congruence|]. intros H.
  destruct (get h a l) as [v|] eqn:G; [|congruence].
  assert (G' : get h' a l <> None) by (apply (get_some_hext h h'); [congruence|exact X]).
  destruct (get h' a l) as [v'|]; [|congruence].
  assert (Hr : gets h a r <> None) by (destruct (gets h a r); [congruence|exfalso; apply H; reflexivity]).
  specialize (IH Hr). destruct (gets h' a r); [discriminate|congruence].
Qed.

Lemma okc_elems_hext (h h' : zheap) a : okc h a (elems h a) -> hext h h' -> okc h' a (elems h' a).
Proof.
  intros [F|N] X; [left; eapply fullwb_hext; eauto|right]. unfold elems in *. eapply gets_some_hext; eauto.
Qed.

(** * states *)
Definition roots_in (rs1 rs2 t1 t2 : list nat) : Prop :=
  length rs1 = length rs2 /\
  forall k b1 b2, nth_error rs1 k = Some b1 -> nth_error rs2 k = Some b2 ->
    exists j, nth_error t1 j = Some b1 /\ nth_error t2 j = Some b2.

(** array pairs of the state: related, and observable (the element list is compared in
    [arr_run_history]) *)
Definition SR (t1 t2 rs1 : list nat) (h1 : zheap) (a1 a2 : zarr) : Prop :=
  AR2 t1 t2 rs1 a1 a2 /\ okc h1 a1 (elems h1 a1).

Definition srel2 (s1 s2 : arr_state) : Prop :=
  exists t1 t2, HR t1 t2 (sheap s1) (sheap s2) /\ roots_in (sroots s1) (sroots s2) t1 t2 /\
    Forall2 (SR t1 t2 (sroots s1) (sheap s1)) (sarrs s1) (sarrs s2).

Definition xrel2 (x1 x2 : arr_state * oresult) : Prop := snd x1 = snd x2 /\ srel2 (fst x1) (fst x2).

Lemma SR_step t1 t2 t1' t2' rs1 h1 h1' a1 a2 : tsub t1 t1' -> tsub t2 t2' -> hext h1 h1' ->
  SR t1 t2 rs1 h1 a1 a2 -> SR t1' t2' rs1 h1' a1 a2.
Proof. intros S1 S2 X [A O]. split; [eapply AR2_tsub; eauto|eapply okc_elems_hext; eauto]. Qed.

Lemma roots_in_tsub rs1 rs2 t1 t2 t1' t2' : tsub t1 t1' -> tsub t2 t2' -> roots_in rs1 rs2 t1 t2 -> roots_in rs1 rs2 t1' t2'.
Proof.
  intros S1 S2 [L Rt]. split; [exact L|]. intros k b1 b2 K1 K2. destruct (Rt k b1 b2 K1 K2) as (j & J1 & J2).
  exists j. split; [apply S1, J1|apply S2, J2].
Qed.

Lemma root_lt t1 t2 rs1 rs2 h1 h2 b : HR t1 t2 h1 h2 -> roots_in rs1 rs2 t1 t2 -> In b rs1 -> (b < length h1)%nat.
Proof.
  intros (_ & _ & _ & R) [L Rt] Hin. apply In_nth_error in Hin as [k K1].
  destruct (nth_error rs2 k) as [b2|] eqn:K2.
  2:{ apply nth_error_None in K2. assert (k < length rs1)%nat by (apply nth_error_Some; congruence). lia. }
  destruct (Rt k b b2 K1 K2) as (j & J1 & J2). destruct (R j b b2 J1 J2) as (l & H1 & _).
  apply nth_error_Some. congruence.
Qed.

Lemma table_lt t1 t2 h1 h2 j b : HR t1 t2 h1 h2 -> nth_error t1 j = Some b -> (b < length h1)%nat.
Proof.
  intros (L & _ & _ & R) J1. destruct (nth_error t2 j) as [b2|] eqn:J2.
  2:{ apply nth_error_None in J2. assert (j < length t1)%nat by (apply nth_error_Some; congruence). lia. }
  destruct (R j b b2 J1 J2) as (l & H1 & _). apply nth_error_Some. congruence.
Qed.

Lemma srel2_heap s1 s2 t1 t2 h1' h2' :
  roots_in (sroots s1) (sroots s2) t1 t2 ->
  Forall2 (SR t1 t2 (sroots s1) (sheap s1)) (sarrs s1) (sarrs s2) ->
  HS t1 t2 (sheap s1) h1' h2' -> srel2 (with_heap s1 h1') (with_heap s2 h2').
Proof.
  intros RI F [R' X]. exists t1, t2. cbn [with_heap sheap sroots sarrs]. split; [exact R'|]. split; [exact RI|].
  eapply Forall2_mono; [|exact F]. intros a b S. eapply SR_step; eauto using tsub_refl.
Qed.

Lemma okh_rel2 s1 s2 t1 t2 (x y : option zheap) :
  roots_in (sroots s1) (sroots s2) t1 t2 ->
  Forall2 (SR t1 t2 (sroots s1) (sheap s1)) (sarrs s1) (sarrs s2) ->
  orel (HS t1 t2 (sheap s1)) x y ->
  orel xrel2 (option_map (fun h' => (with_heap s1 h', ROk)) x) (option_map (fun h' => (with_heap s2 h', ROk)) y).
Proof.
  intros RI F H. destruct x, y; cbn in *; try contradiction; [|exact I].
  split; [reflexivity|]. eapply srel2_heap; eauto.
Qed.

Lemma val_rel2 s1 s2 (x y : option Z) : srel2 s1 s2 -> x = y ->
  orel xrel2 (option_map (fun v => (s1, RVal v)) x) (option_map (fun v => (s2, RVal v)) y).
Proof. intros S ->. destruct y; cbn; [|exact I]. split; [reflexivity|exact S]. Qed.

Lemma add_arr_rel2 s1 s2 t1 t2 t1' t2' h1' h2' r1 r2 :
  roots_in (sroots s1) (sroots s2) t1 t2 ->
  Forall2 (SR t1 t2 (sroots s1) (sheap s1)) (sarrs s1) (sarrs s2) ->
  tsub t1 t1' -> tsub t2 t2' -> HR t1' t2' h1' h2' -> hext (sheap s1) h1' ->
  SR t1' t2' (sroots s1) h1' r1 r2 ->
  xrel2 (add_arr s1 h1' r1) (add_arr s2 h2' r2).
Proof.
  intros RI F S1 S2 R' X Sn. unfold add_arr, xrel2. cbn [fst snd]. split.
  - rewrite (Forall2_len _ _ _ F). reflexivity.
  - exists t1', t2'. cbn [sheap sroots sarrs]. split; [exact R'|]. split; [eapply roots_in_tsub; eauto|].
    apply Forall2_app; [|constructor; [exact Sn|constructor]].
    eapply Forall2_mono; [|exact F]. intros a b S. eapply SR_step; eauto.
Qed.

(** * gathering Unroll on both sides: a new pair of detached buffers *)
Lemma unroll_gather_rel2 t1 t2 rs1 h1 h2 a1 a2 h1' g1 : HR t1 t2 h1 h2 -> AR2 t1 t2 rs1 a1 a2 ->
  unroll_gather h1 a1 = Some (h1', g1) ->
  exists vals n, h1' = h1 ++ [vals] /\ g1 = mkG (length h1) 0 n n /\
    unroll_gather h2 a2 = Some (h2 ++ [vals], mkG (length h2) 0 n n).
Proof.
  intros R A U. unfold unroll_gather in *. rewrite (AR2_shape _ _ _ _ _ A).
  destruct (product (shape a1) <? 0); [discriminate|]. destruct (offsets (shape a1)) as [doff|]; [|discriminate].
  destruct (gather h1 a1 doff 0 (Z.to_nat (product (shape a1)))) as [vals|] eqn:G; [|discriminate].
  rewrite <- (gather_rel2 t1 t2 rs1 h1 h2 a1 a2 doff R A), G by (right; congruence).
  inversion U. exists vals, (product (shape a1)). repeat split.
Qed.

Lemma detached_new t1 t2 rs1 rs2 h1 h2 vals c n : HR t1 t2 h1 h2 -> roots_in rs1 rs2 t1 t2 ->
  HR (t1 ++ [length h1]) (t2 ++ [length h2]) (h1 ++ [vals]) (h2 ++ [vals]) /\
  AR2 (t1 ++ [length h1]) (t2 ++ [length h2]) rs1
      (mkArr c (GoImpl (mkG (length h1) 0 n n))) (mkArr c (GoImpl (mkG (length h2) 0 n n))).
Proof.
  intros R RI. split; [apply HR_new, R|]. right.
  exists (length t1), (mkG (length h1) 0 n n), (mkG (length h2) 0 n n). cbn [gbuf gbase glen gcap cm im].
  pose proof R as (L & _).
  assert (N1 : nth_error (t1 ++ [length h1]) (length t1) = Some (length h1))
    by (rewrite nth_error_app2, Nat.sub_diag by lia; reflexivity).
  assert (N2 : nth_error (t2 ++ [length h2]) (length t1) = Some (length h2))
    by (rewrite L, nth_error_app2, Nat.sub_diag by lia; reflexivity).
  repeat split; try assumption.
  intros Hin. pose proof (root_lt t1 t2 rs1 rs2 h1 h2 _ R RI Hin). lia.
Qed.

(** * the series special case of Reshape is dead code (largest extent 1 => contiguous) *)
Lemma zip4_dims : forall a b c d l, zip4 a b c d = Some l -> map (fun t => fst (fst (fst t))) l = a.
Proof.
  induction a as [|x a IH]; intros b c d l H; cbn in H; [inversion H; reflexivity|].
  destruct b as [|y b]; [discriminate|]. destruct c as [|z c]; [discriminate|]. destruct d as [|w d]; [discriminate|].
  destruct (zip4 a b c d) as [l'|] eqn:Z; [|discriminate]. cbn in H. inversion H; subst l. cbn [map fst]. f_equal. eapply IH; eauto.
Qed.

Lemma contig_loop_small : forall l co fl, Forall (fun t => fst (fst (fst t)) <= 1) l -> contig_loop l co fl = true.
Proof.
  induction l as [|[[[d od] st] off] l IH]; intros co fl F; [reflexivity|]. inversion F as [|? ? Hd F']; subst.
  cbn [fst] in Hd. cbn [contig_loop]. destruct (Z.ltb_spec 1 d); [lia|]. cbn [andb]. apply IH, F'.
Qed.

Lemma rts_contig (a : zarr) shp : reshape_to_series a shp = Some true -> contiguous (cm a) = Some false -> False.
Proof.
  unfold reshape_to_series, contiguous, shape. destruct (Nat.eqb (length shp) 1); [|discriminate].
  destruct (maximum_int (dims (cm a))) as [mx|] eqn:M; [|discriminate]. intros E. inversion E as [E']. apply Z.eqb_eq in E'. subst mx.
  destruct (maximum_int_spec _ _ M) as [_ F].
  destruct (zip4 (dims (cm a)) (odims (cm a)) (step (cm a)) (offset (cm a))) as [l|] eqn:Z; [|discriminate].
  rewrite contig_loop_small; [discriminate|]. apply Forall_rev. rewrite <- (zip4_dims _ _ _ _ _ Z) in F.
  rewrite Forall_map in F. exact F.
Qed.

(** * Reshape: if the Go side does not panic the C side does the same thing *)
Definition RR (t1 t2 rs1 : list nat) (h1 h2 : zheap) (x1 x2 : zheap * rres) : Prop :=
  hext h1 (fst x1) /\
  ((snd x1 = RErr /\ snd x2 = RErr /\ fst x1 = h1 /\ fst x2 = h2) \/
   exists r1 r2 t1' t2', snd x1 = RArr r1 /\ snd x2 = RArr r2 /\ tsub t1 t1' /\ tsub t2 t2' /\
     HR t1' t2' (fst x1) (fst x2) /\ AR2 t1' t2' rs1 r1 r2).

Lemma gsub_fields (g g' : gslice) lo hi : gsub g lo hi = Some g' ->
  g' = mkG (gbuf g) (gbase g + lo) (hi - lo) (gcap g - lo).
Proof. unfold gsub. destruct (_ && _); [|discriminate]. intros E; inversion E; reflexivity. Qed.

Lemma reshape_rel2 t1 t2 rs1 rs2 h1 h2 a1 a2 shp x1 :
  HR t1 t2 h1 h2 -> roots_in rs1 rs2 t1 t2 -> AR2 t1 t2 rs1 a1 a2 ->
  reshape h1 a1 shp = Some x1 ->
  exists x2, reshape h2 a2 shp = Some x2 /\ RR t1 t2 rs1 h1 h2 x1 x2.
Proof.
  intros R RI A H.
  pose proof (AR2_shape _ _ _ _ _ A) as Sh. destruct (AR2_dims _ _ _ _ _ A) as (_ & _ & _ & _ & _ & Ec).
  assert (Erts : reshape_to_series a2 shp = reshape_to_series a1 shp)
    by (unfold reshape_to_series; rewrite Sh; reflexivity).
  unfold reshape in H |- *. rewrite Sh.
  destruct (negb (product shp =? product (shape a1))).
  { inversion H; subst x1. eexists; split; [reflexivity|]. split; [apply hext_refl|]. left. cbn [fst snd]. auto. }
  destruct A as [(j & g & b2 & K1 & K2 & I1 & I2 & E)|(j & g1 & g2 & K1 & K2 & I1 & I2 & Eb & El & Ecap & E & Nr)].
  - (* Go window / C buffer *)
    rewrite I1 in H. rewrite I2, Ec, Erts.
    destruct (reshape_to_series a1 shp) as [rts|] eqn:Rts; [|discriminate].
    destruct (contiguous (cm a1)) as [[|]|] eqn:Cg; [| |discriminate].
    + cbn [orb] in H. unfold unroll in H. rewrite I1, Cg in H.
      destruct (index (cm a1) (decrement (shape a1))) as [e|]; [|discriminate].
      destruct (gsub g (start (cm a1)) (e + 1)) as [g'|] eqn:Gs; [|discriminate].
      apply gsub_fields in Gs. unfold fresh_root in *. destruct (root_common shp) as [c|]; [|discriminate].
      inversion H; subst x1. eexists; split; [reflexivity|]. split; [apply hext_refl|]. right.
      eexists _, _, t1, t2. cbn [fst snd]. split; [reflexivity|]. split; [reflexivity|].
      split; [apply tsub_refl|]. split; [apply tsub_refl|]. split; [exact R|].
      left. exists j, g', b2. subst g'. cbn [gbuf gbase cm im]. repeat split; try assumption.
      rewrite E. unfold shift. cbn [odims dims start offset step offstep]. f_equal. lia.
    + destruct rts; [exfalso; eapply rts_contig; eauto|]. cbn [orb negb] in H.
      unfold unroll in H |- *. rewrite I1, Cg in H. rewrite I2.
      destruct (unroll_gather h1 a1) as [[h1' g1]|] eqn:U; [|discriminate].
      destruct (unroll_gather_rel2 t1 t2 rs1 h1 h2 a1 a2 h1' g1 R
                  (or_introl (ex_intro _ j (ex_intro _ g (ex_intro _ b2 (conj K1 (conj K2 (conj I1 (conj I2 E)))))))) U)
        as (vals & n & -> & -> & U2).
      rewrite U2. unfold fresh_root in *. destruct (root_common shp) as [c|]; [|discriminate].
      inversion H; subst x1. eexists; split; [reflexivity|]. cbn [fst snd]. split; [apply hext_app|]. right.
      destruct (detached_new t1 t2 rs1 rs2 h1 h2 vals
                  (mkCommon (odims c) (dims c) 0 (offset c) (step c) (offstep c)) n R RI) as [R' A'].
      eexists _, _, _, _. split; [reflexivity|]. split; [reflexivity|].
      split; [apply tsub_app|]. split; [apply tsub_app|]. split; [exact R'|exact A'].
  - (* two detached Go slices *)
    assert (A : AR2 t1 t2 rs1 a1 a2).
    { right. exists j, g1, g2. repeat split; assumption. }
    rewrite I1 in H. rewrite I2, Ec, Erts.
    destruct (reshape_to_series a1 shp) as [rts|] eqn:Rts; [|discriminate].
    destruct (contiguous (cm a1)) as [[|]|] eqn:Cg; [| |discriminate].
    + cbn [orb] in H |- *. unfold unroll in H |- *. rewrite I1, Cg in H. rewrite I2, Ec, Sh, E.
      destruct (index (cm a1) (decrement (shape a1))) as [e|]; [|discriminate].
      destruct (gsub g1 (start (cm a1)) (e + 1)) as [g1'|] eqn:Gs; [|discriminate].
      assert (Gs2 : gsub g2 (start (cm a1)) (e + 1) =
                    Some (mkG (gbuf g2) (gbase g2 + start (cm a1)) (e + 1 - start (cm a1)) (gcap g2 - start (cm a1)))).
      { unfold gsub in Gs |- *. rewrite <- Ecap. destruct (_ && _); [reflexivity|discriminate]. }
      rewrite Gs2. apply gsub_fields in Gs. unfold fresh_root in *. destruct (root_common shp) as [c|]; [|discriminate].
      inversion H; subst x1. eexists; split; [reflexivity|]. split; [apply hext_refl|]. right.
      eexists _, _, t1, t2. cbn [fst snd]. split; [reflexivity|]. split; [reflexivity|].
      split; [apply tsub_refl|]. split; [apply tsub_refl|]. split; [exact R|].
      right. exists j, g1', (mkG (gbuf g2) (gbase g2 + start (cm a1)) (e + 1 - start (cm a1)) (gcap g2 - start (cm a1))).
      subst g1'. cbn [gbuf gbase glen gcap cm im]. repeat split; try assumption; try reflexivity; lia.
    + destruct rts; [exfalso; eapply rts_contig; eauto|]. cbn [orb negb] in H |- *.
      unfold unroll in H |- *. rewrite I1, Cg in H. rewrite I2, Ec.
      destruct (unroll_gather h1 a1) as [[h1' g1']|] eqn:U; [|discriminate].
      destruct (unroll_gather_rel2 t1 t2 rs1 h1 h2 a1 a2 h1' g1' R A U) as (vals & n & -> & -> & U2).
      rewrite U2. unfold fresh_root in *. destruct (root_common shp) as [c|]; [|discriminate].
      inversion H; subst x1. eexists; split; [reflexivity|]. cbn [fst snd]. split; [apply hext_app|]. right.
      destruct (detached_new t1 t2 rs1 rs2 h1 h2 vals
                  (mkCommon (odims c) (dims c) 0 (offset c) (step c) (offstep c)) n R RI) as [R' A'].
      eexists _, _, _, _. split; [reflexivity|]. split; [reflexivity|].
      split; [apply tsub_app|]. split; [apply tsub_app|]. split; [exact R'|exact A'].
Qed.

(** * Scale / AddTo / ApplyFunc on two different roots: fast path ~ index loop on each side
      (ArrayOpsProofs), Go index loop ~ C index loop *)
Lemma idx_loop2_rel r1 r2 f d1 d2 s1 s2 shp : forall n h1 h2 idx,
  HR r1 r2 h1 h2 -> AR r1 r2 h1 d1 d2 -> AR r1 r2 h1 s1 s2 ->
  orel (HS r1 r2 h1) (idx_loop2 f h1 d1 s1 shp idx n) (idx_loop2 f h2 d2 s2 shp idx n).
Proof.
  induction n as [|n IH]; intros h1 h2 idx R Ad As; cbn [idx_loop2].
  - cbn. apply HS_refl, R.
  - rewrite <- (get_rel r1 r2 h1 h2 d1 d2 idx R Ad), <- (get_rel r1 r2 h1 h2 s1 s2 idx R As).
    destruct (get h1 d1 idx) as [d|]; [|exact I]. destruct (get h1 s1 idx) as [x|]; [|exact I].
    apply (orel_bind r1 r2 h1 (set h1 d1 idx (f d x)) (set h2 d2 idx (f d x))
             (fun h => match increment idx shp with Some idx' => idx_loop2 f h d1 s1 shp idx' n | None => None end)
             (fun h => match increment idx shp with Some idx' => idx_loop2 f h d2 s2 shp idx' n | None => None end)).
    + apply set_rel; assumption.
    + intros h1' h2' R' X. destruct (increment idx shp) as [idx'|]; [|exact I].
      apply IH; [exact R'|eapply AR_hext; eauto|eapply AR_hext; eauto].
Qed.

Lemma HR_agree_r r1 r2 (h1 h2 hx hf2 hs2 : zheap) : HR r1 r2 h1 h2 -> HR r1 r2 hx hs2 -> hext h2 hf2 ->
  agree (length h2) hf2 hs2 -> HR r1 r2 hx hf2.
Proof.
  intros (Lr & N1 & N2 & R0) (_ & _ & _ & Rs) [_ Xf] Ag.
  split; [exact Lr|]. split; [exact N1|]. split; [exact N2|]. intros k b1 b2 K1 K2.
  destruct (R0 k b1 b2 K1 K2) as (l0 & _ & H20). destruct (Rs k b1 b2 K1 K2) as (l & Hs1 & Hs2).
  destruct (Xf b2 l0 H20) as (lf & Hf & _). exists l. split; [exact Hs1|]. rewrite Hf. f_equal.
  apply znth_ext. intros a. assert (Lb : (b2 < length h2)%nat) by (apply nth_error_Some; congruence).
  specialize (Ag b2 a Lb). unfold hread in Ag. rewrite Hf, Hs2 in Ag. exact Ag.
Qed.

Definition ew_guard (a b : zarr) : bool :=
  wfb (cm a) && wfb (cm b) && lzeq (dims (cm a)) (dims (cm b)) && negb (Nat.eqb (buf_of a) (buf_of b)).

Lemma ew_rel r1 r2 f h1 h2 a1 a2 s1 s2 : HR r1 r2 h1 h2 -> AR r1 r2 h1 a1 a2 -> AR r1 r2 h1 s1 s2 ->
  ew_guard a1 s1 = true ->
  orel (HS r1 r2 h1) (elementwise2 f h1 a1 s1) (elementwise2 f h2 a2 s2).
Proof.
  intros R Aa As G. unfold ew_guard in G.
  apply andb_true_iff in G as [G Nb]. apply andb_true_iff in G as [G Dm]. apply andb_true_iff in G as [Wa Ws].
  apply lzeq_eq in Dm.
  destruct (wf_both _ _ _ _ _ _ R Aa Wa) as (Wa1 & Wa2 & SPa & Na).
  destruct (wf_both _ _ _ _ _ _ R As Ws) as (Ws1 & Ws2 & SPs & Ns).
  destruct (AR_buffers _ _ _ _ _ _ R Aa) as (ka & ba1 & ba2 & la & Ka1 & Ka2 & _ & _ & _ & Ia1 & Ia2).
  destruct (AR_buffers _ _ _ _ _ _ R As) as (ks & bs1 & bs2 & ls & Ks1 & Ks2 & _ & _ & _ & Is1 & Is2).
  pose proof (proj1 Aa) as Eca. pose proof (proj1 As) as Ecs.
  assert (Nb1 : ba1 <> bs1).
  { unfold buf_of in Nb. rewrite Ia1, Is1 in Nb. cbn [gbuf] in Nb. intros ->. rewrite Nat.eqb_refl in Nb. discriminate. }
  assert (Nb2 : ba2 <> bs2).
  { intros ->. apply Nb1. destruct R as (_ & _ & N2 & _).
    assert (ka = ks) by (apply (proj1 (NoDup_nth_error r2) N2); [apply nth_error_Some; congruence|congruence]).
    subst ks. congruence. }
  pose proof (idx_loop2_rel r1 r2 f a1 a2 s1 s2 (shape a1) (Z.to_nat (product (shape a1))) h1 h2
                (new_index (cm a1) 0) R Aa As) as Slow.
  assert (Slow2 : idx_loop2 f h2 a2 s2 (shape a2) (new_index (cm a2) 0) (Z.to_nat (product (shape a2))) =
                  idx_loop2 f h2 a2 s2 (shape a1) (new_index (cm a1) 0) (Z.to_nat (product (shape a1))))
    by (unfold shape; rewrite <- Eca; reflexivity).
  pose proof Wa1 as (Ec1 & Ba & _). pose proof Ws1 as (Ec2 & Bs & _).
  destruct (contiguous_iff_adjacent _ _ Ba SPa) as (ca & Cca & _). rewrite <- Ec1 in Cca.
  destruct (contiguous_iff_adjacent _ _ Bs SPs) as (cs & Ccs & _). rewrite <- Ec2 in Ccs.
  assert (SlowCase : ca && cs = false ->
            orel (HS r1 r2 h1) (elementwise2 f h1 a1 s1) (elementwise2 f h2 a2 s2)).
  { intros Eb. unfold elementwise2. rewrite Slow2, <- Eca, <- Ecs, Cca, Ccs.
    destruct ca, cs; try discriminate Eb; exact Slow. }
  destruct ca; [|apply SlowCase; reflexivity]. destruct cs; [|apply SlowCase; reflexivity].
  destruct (elementwise2_fast_eq_slow f h1 a1 s1 _ _ _ _ Wa1 SPa Ws1 SPs Dm Na Cca Ccs) as (hf1 & hs1 & Ef1 & El1 & Ag1).
  { intros i j _ _. unfold acell. rewrite Ia1, Is1. cbn [cell_of gbuf]. intros E. inversion E. contradiction. }
  destruct (elementwise2_fast_eq_slow f h2 a2 s2 _ _ _ _ Wa2 SPa Ws2 SPs Dm Na) as (hf2 & hs2 & Ef2 & El2 & Ag2).
  { rewrite <- Eca. exact Cca. }
  { rewrite <- Ecs. exact Ccs. }
  { intros i j _ _. unfold acell. rewrite Ia2, Is2. cbn [cell_of]. intros E. inversion E. contradiction. }
  rewrite Ef1, Ef2. rewrite Slow2 in El2. rewrite El1, El2 in Slow. cbn [orel] in Slow |- *. destruct Slow as [Rs Xs].
  split; [|eapply hext_elementwise2_gen; eauto].
  eapply HR_agree_r; [exact R| |eapply hext_elementwise2_gen; eauto|exact Ag2].
  eapply HR_agree; [exact R|exact Rs|eapply hext_elementwise2_gen; eauto|exact Ag1].
Qed.

(** * the guard of one step, evaluated on the Go-side state *)
Definition in_roots (s : arr_state) (b : nat) : bool := existsb (Nat.eqb b) (sroots s).

(** a root or a slice (of a slice ...) of a root: the situation of GoCProofs *)
Definition classA (s : arr_state) (a : zarr) : bool :=
  match im a with
  | GoImpl g => in_roots s (gbuf g) && fullwb (sheap s) a && (gcap g =? glen g) &&
                (product (odims (cm a)) =? glen g)
  | CImpl _ => false
  end.

(** the element list of [a] is observable without a Go panic (or the window is the whole buffer) *)
Definition obs_ok (h : zheap) (a : zarr) : bool := okb h a (elems h a).

Definition reshape_guard (h : zheap) (a : zarr) (shp : list Z) : bool :=
  match reshape h a shp with
  | Some (h', RArr r) => obs_ok h' r
  | Some (_, RErr) => true
  | None => false
  end.

Definition guardb2 (s : arr_state) (o : op) : bool :=
  let h := sheap s in
  let on (id : Z) (f : zarr -> bool) := match arr_at s id with Some a => f a | None => true end in
  match o with
  | ONew _ _ | OShape _ | OLen _ _ | OContig _ => true
  | OSlice id loc d st =>
      on id (fun a => match slice a loc d st with Some a' => obs_ok h a' | None => true end)
  | OGet id loc | OGetN id loc => on id (fun a => okb h a (get h a loc))
  | OSet id loc v | OSetN id loc v => on id (fun a => okb h a (set h a loc v))
  | OGet1 id l => on id (fun a => okb h a (get1 h a l))
  | OSet1 id l v => on id (fun a => okb h a (set1 h a l v))
  | OApply1 id l stp vals => on id (fun a => okb h a (apply1 h a l stp 0 vals))
  | OMax id => on id (fun a => okb h a (maximum Z.ltb h a))
  | OMin id => on id (fun a => okb h a (minimum Z.ltb h a))
  | OReshape id shp | OMustReshape id shp => on id (fun a => reshape_guard h a shp)
  | OReshapeFast id shp =>
      on id (fun a => match contiguous (cm a) with Some true => reshape_guard h a shp | _ => true end)
  | OApply id loc dim stp vals => on id (fun a => classA s a && apply_guard a loc dim stp vals)
  | OUnroll id => on id (fun a => classA s a && wfb (cm a))
  | OApplySlice id loc st src =>
      on id (fun a => on src (fun b => classA s a && classA s b && copy_guard a b loc st))
  | OCopyFrom id src =>
      on id (fun a => on src (fun b => classA s a && classA s b && copy_guard a b (new_index (cm a) 0) None))
  | OScale d sr _ | OAddTo d sr | OApplyFunc d sr =>
      on d (fun a => on sr (fun b => classA s a && classA s b && ew_guard a b))
  | OUnrollW _ _ _ => false
  end.

Lemma shift_0 c : shift 0 c = c.
Proof. destruct c; reflexivity. Qed.

Lemma classA_AR s1 t1 t2 h2 a1 a2 : HR t1 t2 (sheap s1) h2 -> AR2 t1 t2 (sroots s1) a1 a2 ->
  classA s1 a1 = true -> AR t1 t2 (sheap s1) a1 a2.
Proof.
  intros R [(j & g & b2 & K1 & K2 & I1 & I2 & E)|(j & g1 & g2 & K1 & K2 & I1 & I2 & _ & _ & _ & _ & Nr)] C;
    unfold classA in C; rewrite I1 in C.
  - apply andb_true_iff in C as [C Cp]. apply andb_true_iff in C as [C Cc]. apply andb_true_iff in C as [_ Cf].
    unfold fullwb in Cf. rewrite I1 in Cf. destruct R as (_ & _ & _ & R). destruct (R j _ _ K1 K2) as (l & H1 & H2).
    rewrite H1 in Cf. apply andb_true_iff in Cf as [Cb Cl]. apply Z.eqb_eq in Cb, Cl, Cc, Cp.
    destruct g as [gb gs gl gc]. cbn [gbuf gbase glen gcap] in *. subst gs gc gl.
    rewrite shift_0 in E. split; [congruence|]. exists j, gb, b2, l. repeat split; try assumption. lia.
  - exfalso. apply andb_true_iff in C as [C _]. apply andb_true_iff in C as [C _]. apply andb_true_iff in C as [C _].
    unfold in_roots in C. apply existsb_exists in C as (x & Hin & Ex). apply Nat.eqb_eq in Ex. subst x. exact (Nr Hin).
Qed.

Lemma arr_at_rel2 s1 s2 t1 t2 id :
  Forall2 (SR t1 t2 (sroots s1) (sheap s1)) (sarrs s1) (sarrs s2) ->
  orel (SR t1 t2 (sroots s1) (sheap s1)) (arr_at s1 id) (arr_at s2 id).
Proof.
  intros F. unfold arr_at, znth. destruct (zidx id) as [n|]; [|exact I]. apply Forall2_nth_error, F.
Qed.

(** ** new roots *)
Lemma AR2_new_root t1 t2 rs1 h1 h2 a1 a2 : HR t1 t2 h1 h2 -> AR2 t1 t2 rs1 a1 a2 ->
  AR2 t1 t2 (rs1 ++ [length h1]) a1 a2.
Proof.
  intros R [W|(j & g1 & g2 & K1 & K2 & I1 & I2 & Eb & El & Ec & E & Nr)]; [left; exact W|right].
  exists j, g1, g2. repeat split; try assumption. intros Hin. apply in_app_or in Hin as [Hin|[Hin|[]]]; [exact (Nr Hin)|].
  pose proof (table_lt t1 t2 h1 h2 j _ R K1). lia.
Qed.

Lemma new_rel2 s1 s2 ds : srel2 s1 s2 -> orel xrel2 (exec s1 (ONew false ds)) (exec s2 (ONew true ds)).
Proof.
  intros (t1 & t2 & R & RI & F). cbn [exec]. destruct (existsb (fun d => d <? 0) ds) eqn:Neg; [exact I|].
  unfold new_go, new_c. destruct (root_common ds) as [c|] eqn:RC; [|exact I].
  cbn [orel]. unfold xrel2. cbn [fst snd]. split; [rewrite (Forall2_len _ _ _ F); reflexivity|].
  set (vals := iota (product ds)). pose proof R as (L & _). destruct RI as [Lr Rt].
  exists (t1 ++ [length (sheap s1)]), (t2 ++ [length (sheap s2)]). cbn [sheap sroots sarrs].
  assert (N1 : nth_error (t1 ++ [length (sheap s1)]) (length t1) = Some (length (sheap s1)))
    by (rewrite nth_error_app2, Nat.sub_diag by lia; reflexivity).
  assert (N2 : nth_error (t2 ++ [length (sheap s2)]) (length t1) = Some (length (sheap s2)))
    by (rewrite L, nth_error_app2, Nat.sub_diag by lia; reflexivity).
  split; [apply HR_new, R|]. split.
  - split; [rewrite !app_length; cbn; lia|]. intros k b1 b2 K1 K2.
    apply nth_error_snoc in K1 as [[L1 K1]|[E1 ->]]; apply nth_error_snoc in K2 as [[L2 K2]|[E2 ->]]; try lia.
    + destruct (Rt k b1 b2 K1 K2) as (j & J1 & J2). exists j. split; apply tsub_app; assumption.
    + exists (length t1). split; assumption.
  - apply Forall2_app.
    + eapply Forall2_mono; [|exact F]. intros a b [A O]. split.
      * eapply AR2_tsub; [apply tsub_app|apply tsub_app|]. apply AR2_new_root with (h2 := sheap s2); [exact R|exact A].
      * eapply okc_elems_hext; [exact O|apply hext_app].
    + constructor; [|constructor]. split.
      * left. exists (length t1), (mkG (length (sheap s1)) 0 (Z.of_nat (length vals)) (Z.of_nat (length vals))), (length (sheap s2)).
        cbn [gbuf gbase cm im]. rewrite shift_0. repeat split; assumption.
      * left. unfold fullwb. cbn [im gbuf gbase glen]. rewrite nth_error_app2, Nat.sub_diag by lia. cbn [nth_error].
        rewrite !Z.eqb_refl. reflexivity.
Qed.

(** ** the reshape family at the level of states *)
Lemma of_rres_rel2 s1 s2 t1 t2 a1 a2 shp :
  HR t1 t2 (sheap s1) (sheap s2) -> roots_in (sroots s1) (sroots s2) t1 t2 ->
  Forall2 (SR t1 t2 (sroots s1) (sheap s1)) (sarrs s1) (sarrs s2) ->
  AR2 t1 t2 (sroots s1) a1 a2 -> reshape_guard (sheap s1) a1 shp = true ->
  orel xrel2 (of_rres s1 (reshape (sheap s1) a1 shp)) (of_rres s2 (reshape (sheap s2) a2 shp)) /\
  orel xrel2 (match must_reshape (sheap s1) a1 shp with Some (h', r) => Some (add_arr s1 h' r) | None => None end)
             (match must_reshape (sheap s2) a2 shp with Some (h', r) => Some (add_arr s2 h' r) | None => None end).
Proof.
  intros R RI F A G. unfold reshape_guard in G. unfold must_reshape.
  destruct (reshape (sheap s1) a1 shp) as [[h1' x1]|] eqn:Rs; [|discriminate].
  destruct (reshape_rel2 _ _ _ _ _ _ _ _ _ _ R RI A Rs) as ([h2' x2] & Rs2 & X & Cases). rewrite Rs2. cbn [fst snd] in *.
  destruct Cases as [(-> & -> & -> & ->)|(r1 & r2 & t1' & t2' & -> & -> & S1 & S2 & R' & A')]; cbn [of_rres orel].
  - split; [|exact I]. split; [reflexivity|]. cbn [fst]. eapply srel2_heap; eauto. apply HS_refl, R.
  - assert (Hx : xrel2 (add_arr s1 h1' r1) (add_arr s2 h2' r2)).
    { eapply add_arr_rel2; eauto. split; [exact A'|apply okb_okc; exact G]. }
    split; exact Hx.
Qed.

Ltac arr_pair2 F s1 s2 id a1 a2 A E :=
  pose proof (arr_at_rel2 s1 s2 _ _ id F) as A;
  destruct (arr_at s1 id) as [a1|] eqn:E; destruct (arr_at s2 id) as [a2|];
  cbn [orel] in A; try contradiction; [|exact I].

Lemma exec_rel2 s1 s2 o : srel2 s1 s2 -> guardb2 s1 (set_backing false o) = true ->
  orel xrel2 (exec s1 (set_backing false o)) (exec s2 (set_backing true o)).
Proof.
  intros S G. pose proof S as (t1 & t2 & R & RI & F).
  destruct o; cbn [set_backing] in G |- *; unfold guardb2 in G; try discriminate G.
  - (* ONew *) apply new_rel2, S.
  - (* OSlice *) cbn [exec]. arr_pair2 F s1 s2 id a1 a2 A E. try rewrite E in G.
    pose proof (slice_rel2 t1 t2 _ a1 a2 loc d st (proj1 A)) as Sl.
    destruct (slice a1 loc d st) as [c1|]; destruct (slice a2 loc d st) as [c2|];
      cbn [orel] in Sl |- *; try contradiction; [|exact I].
    eapply add_arr_rel2; [exact RI|exact F|apply tsub_refl|apply tsub_refl|exact R|apply hext_refl|].
    split; [exact Sl|apply okb_okc; exact G].
  - (* OGet *) cbn [exec]. arr_pair2 F s1 s2 id a1 a2 A E. try rewrite E in G.
    apply val_rel2; [exact S|]. eapply get_rel2; [exact R|exact (proj1 A)|apply okb_okc, G].
  - (* OSet *) cbn [exec]. arr_pair2 F s1 s2 id a1 a2 A E. try rewrite E in G.
    eapply okh_rel2; [exact RI|exact F|]. eapply set_rel2; [exact R|exact (proj1 A)|apply okb_okc, G].
  - (* OApply *) cbn [exec]. arr_pair2 F s1 s2 id a1 a2 A E. try rewrite E in G.
    apply andb_true_iff in G as [Ca Ga]. pose proof (classA_AR _ _ _ _ _ _ R (proj1 A) Ca) as A0.
    eapply okh_rel2; [exact RI|exact F|]. eapply apply_rel; eassumption.
  - (* OApplySlice *) cbn [exec]. arr_pair2 F s1 s2 id a1 a2 A E. arr_pair2 F s1 s2 src b1 b2 B E'.
    try rewrite E in G; try rewrite E' in G.
    apply andb_true_iff in G as [G Gc]. apply andb_true_iff in G as [Ca Cb].
    pose proof (classA_AR _ _ _ _ _ _ R (proj1 A) Ca) as A0. pose proof (classA_AR _ _ _ _ _ _ R (proj1 B) Cb) as B0.
    eapply okh_rel2; [exact RI|exact F|]. eapply apply_slice_rel; eassumption.
  - (* OCopyFrom *) cbn [exec]. arr_pair2 F s1 s2 id a1 a2 A E. arr_pair2 F s1 s2 src b1 b2 B E'.
    try rewrite E in G; try rewrite E' in G.
    apply andb_true_iff in G as [G Gc]. apply andb_true_iff in G as [Ca Cb].
    pose proof (classA_AR _ _ _ _ _ _ R (proj1 A) Ca) as A0. pose proof (classA_AR _ _ _ _ _ _ R (proj1 B) Cb) as B0.
    eapply okh_rel2; [exact RI|exact F|]. unfold copy_from. rewrite <- (proj1 A0). eapply apply_slice_rel; eassumption.
  - (* OUnroll *) cbn [exec]. arr_pair2 F s1 s2 id a1 a2 A E. try rewrite E in G.
    apply andb_true_iff in G as [Ca Gw]. pose proof (classA_AR _ _ _ _ _ _ R (proj1 A) Ca) as A0.
    destruct (unroll_rel _ _ _ _ _ _ R A0 Gw) as (h1' & g1 & h2' & g2 & U1 & U2 & Hx & Gv).
    rewrite U1, U2, Gv. destruct (gvalues h2' g2); cbn [option_map orel]; [|exact I].
    split; [reflexivity|]. cbn [fst]. eapply srel2_heap; eauto.
  - (* OReshape *) cbn [exec]. arr_pair2 F s1 s2 id a1 a2 A E. try rewrite E in G.
    apply (of_rres_rel2 s1 s2 t1 t2 a1 a2 shp R RI F (proj1 A) G).
  - (* OReshapeFast *) cbn [exec]. arr_pair2 F s1 s2 id a1 a2 A E. try rewrite E in G.
    unfold reshape_fast. destruct (AR2_dims _ _ _ _ _ (proj1 A)) as (_ & _ & _ & _ & _ & ->).
    destruct (contiguous (cm a1)) as [[|]|]; [| |exact I].
    + apply (of_rres_rel2 s1 s2 t1 t2 a1 a2 shp R RI F (proj1 A) G).
    + cbn [of_rres orel]. split; [reflexivity|]. cbn [fst]. eapply srel2_heap; eauto. apply HS_refl, R.
  - (* OMustReshape *) cbn [exec]. arr_pair2 F s1 s2 id a1 a2 A E. try rewrite E in G.
    apply (of_rres_rel2 s1 s2 t1 t2 a1 a2 shp R RI F (proj1 A) G).
  - (* OContig *) cbn [exec]. arr_pair2 F s1 s2 id a1 a2 A E.
    destruct (AR2_dims _ _ _ _ _ (proj1 A)) as (_ & _ & _ & _ & _ & ->).
    destruct (contiguous (cm a1)); cbn [option_map orel]; [|exact I]. split; [reflexivity|exact S].
  - (* OMax *) cbn [exec]. arr_pair2 F s1 s2 id a1 a2 A E. try rewrite E in G.
    apply val_rel2; [exact S|]. unfold maximum in *. eapply extremum_rel2; [exact R|exact (proj1 A)|apply okb_okc, G].
  - (* OMin *) cbn [exec]. arr_pair2 F s1 s2 id a1 a2 A E. try rewrite E in G.
    apply val_rel2; [exact S|]. unfold minimum in *. eapply extremum_rel2; [exact R|exact (proj1 A)|apply okb_okc, G].
  - (* OGet1 *) cbn [exec]. arr_pair2 F s1 s2 id a1 a2 A E. try rewrite E in G.
    apply val_rel2; [exact S|]. unfold get1 in *. rewrite (index1_rel2 _ _ _ _ _ l (proj1 A)).
    eapply get_rel2; [exact R|exact (proj1 A)|apply okb_okc, G].
  - (* OSet1 *) cbn [exec]. arr_pair2 F s1 s2 id a1 a2 A E. try rewrite E in G.
    eapply okh_rel2; [exact RI|exact F|]. unfold set1 in *. rewrite (index1_rel2 _ _ _ _ _ l (proj1 A)).
    eapply set_rel2; [exact R|exact (proj1 A)|apply okb_okc, G].
  - (* OApply1 *) cbn [exec]. arr_pair2 F s1 s2 id a1 a2 A E. try rewrite E in G.
    eapply okh_rel2; [exact RI|exact F|]. eapply apply1_rel2; [exact (proj1 A)|exact R|apply okb_okc, G].
  - (* OGetN *) cbn [exec]. arr_pair2 F s1 s2 id a1 a2 A E. try rewrite E in G.
    apply val_rel2; [exact S|]. eapply get_rel2; [exact R|exact (proj1 A)|apply okb_okc, G].
  - (* OSetN *) cbn [exec]. arr_pair2 F s1 s2 id a1 a2 A E. try rewrite E in G.
    eapply okh_rel2; [exact RI|exact F|]. eapply set_rel2; [exact R|exact (proj1 A)|apply okb_okc, G].
  - (* OScale *) cbn [exec]. arr_pair2 F s1 s2 dst a1 a2 A E. arr_pair2 F s1 s2 src b1 b2 B E'.
    try rewrite E in G; try rewrite E' in G.
    apply andb_true_iff in G as [G Gc]. apply andb_true_iff in G as [Ca Cb].
    pose proof (classA_AR _ _ _ _ _ _ R (proj1 A) Ca) as A0. pose proof (classA_AR _ _ _ _ _ _ R (proj1 B) Cb) as B0.
    eapply okh_rel2; [exact RI|exact F|]. unfold scale. eapply ew_rel; eassumption.
  - (* OAddTo *) cbn [exec]. arr_pair2 F s1 s2 dst a1 a2 A E. arr_pair2 F s1 s2 src b1 b2 B E'.
    try rewrite E in G; try rewrite E' in G.
    apply andb_true_iff in G as [G Gc]. apply andb_true_iff in G as [Ca Cb].
    pose proof (classA_AR _ _ _ _ _ _ R (proj1 A) Ca) as A0. pose proof (classA_AR _ _ _ _ _ _ R (proj1 B) Cb) as B0.
    eapply okh_rel2; [exact RI|exact F|]. unfold add_to. eapply ew_rel; eassumption.
  - (* OApplyFunc *) cbn [exec]. arr_pair2 F s1 s2 dst a1 a2 A E. arr_pair2 F s1 s2 src b1 b2 B E'.
    try rewrite E in G; try rewrite E' in G.
    apply andb_true_iff in G as [G Gc]. apply andb_true_iff in G as [Ca Cb].
    pose proof (classA_AR _ _ _ _ _ _ R (proj1 A) Ca) as A0. pose proof (classA_AR _ _ _ _ _ _ R (proj1 B) Cb) as B0.
    eapply okh_rel2; [exact RI|exact F|]. unfold apply_func1. eapply ew_rel; eassumption.
  - (* OShape *) cbn [exec]. arr_pair2 F s1 s2 id a1 a2 A E. rewrite (AR2_shape _ _ _ _ _ (proj1 A)).
    cbn [orel]. split; [reflexivity|exact S].
  - (* OLen *) cbn [exec]. arr_pair2 F s1 s2 id a1 a2 A E.
    apply val_rel2; [exact S|]. rewrite (AR2_shape _ _ _ _ _ (proj1 A)). reflexivity.
Qed.

(** * whole histories *)
Lemma observe_rel2 s1 s2 r : srel2 s1 s2 -> observe s1 r = observe s2 r.
Proof.
  intros (t1 & t2 & R & [Lr Rt] & F). unfold observe. f_equal.
  - apply map_ext_pos; [exact Lr|]. intros k b1 b2 K1 K2. destruct (Rt k b1 b2 K1 K2) as (j & J1 & J2).
    destruct R as (_ & _ & _ & R). destruct (R j b1 b2 J1 J2) as (l & H1 & H2).
    rewrite (nth_error_nth _ _ _ H1), (nth_error_nth _ _ _ H2). reflexivity.
  - revert F. generalize (sarrs s1) (sarrs s2). induction 1 as [|a b l1 l2 [A O] F IH]; cbn [map]; [reflexivity|].
    f_equal; [eapply elems_rel2; eassumption|exact IH].
Qed.

Lemma srel2_init : srel2 arr_init_state arr_init_state.
Proof.
  exists [], []. cbn. split; [|split; [|constructor]].
  - split; [reflexivity|]. split; [constructor|]. split; [constructor|]. intros [|k] b1 b2 K; discriminate.
  - split; [reflexivity|]. intros [|k] b1 b2 K; discriminate.
Qed.

(** every step passes [guardb2] on the Go-side run (cut at the first panic) *)
Fixpoint guarded2 (s : arr_state) (ops : list op) : bool :=
  match ops with
  | [] => true
  | o :: r => guardb2 s o && match exec s o with Some (s', _) => guarded2 s' r | None => true end
  end.

Lemma histories_rel2 : forall ops s1 s2, srel2 s1 s2 -> guarded2 s1 (map (set_backing false) ops) = true ->
  arr_run_history s1 (map (set_backing false) ops) = arr_run_history s2 (map (set_backing true) ops).
Proof.
  induction ops as [|o r IH]; intros s1 s2 S G; [reflexivity|]. cbn [map arr_run_history guarded2] in *.
  apply andb_true_iff in G as [G1 G2]. pose proof (exec_rel2 s1 s2 o S G1) as X.
  destruct (exec s1 (set_backing false o)) as [[s1' x1]|]; destruct (exec s2 (set_backing true o)) as [[s2' x2]|];
    cbn [orel] in X; try contradiction; [|reflexivity].
  destruct X as [Ex Sx]. cbn [fst snd] in Ex, Sx. subst x2. rewrite (observe_rel2 _ _ _ Sx). f_equal.
  apply IH; assumption.
Qed.

Theorem go_c_histories_agree_reshape : forall ops,
  guarded2 arr_init_state (map (set_backing false) ops) = true ->
  arr_run_history arr_init_state (map (set_backing false) ops) =
  arr_run_history arr_init_state (map (set_backing true) ops).
Proof. intros ops G. apply histories_rel2; [exact srel2_init|exact G]. Qed.

Corollary go_c_results_agree_reshape : forall ops,
  guarded2 arr_init_state (map (set_backing false) ops) = true ->
  results arr_init_state (map (set_backing false) ops) = results arr_init_state (map (set_backing true) ops).
Proof. intros ops G. rewrite !results_of_history, (go_c_histories_agree_reshape ops G). reflexivity. Qed.

Definition demo_reshape : list op :=
  [ ONew false [3; 4];                        (* 0: root 3x4 = 1..12 *)
    OSlice 0 [1; 0] [2; 4] None;              (* 1: rows 1-2: contiguous *)
    OSlice 0 [0; 1] [3; 2] None;              (* 2: columns 1-2: not contiguous *)
    OReshape 1 [4; 2];                        (* 3: aliases the root on both sides *)
    OReshape 2 [6];                           (* 4: a detached copy on both sides *)
    OSet 3 [0; 1] 100;                        (* write through the result ... *)
    OGet 0 [1; 1];                            (* ... seen in the parent *)
    OSet 0 [2; 3] 200;                        (* write through the parent ... *)
    OGet 3 [3; 1];                            (* ... seen in the result *)
    OSet 4 [2] 300;                           (* write into the copy ... *)
    OGet 0 [1; 1]; OGet 4 [2];                (* ... not seen in the parent *)
    OMustReshape 3 [2; 2; 2];                 (* 5: reshape of a reshape *)
    OSlice 5 [1; 0; 0] [1; 2; 2] None;        (* 6 *)
    OReshapeFast 6 [4];                       (* 7: Go window with base 8 / C offset root *)
    OSet1 7 3 77; OGet 0 [2; 3];
    OReshape 4 [2; 3];                        (* 8: reshape of the detached copy *)
    OSetN 8 [1; 0] 55; OGet 4 [3];
    OMax 8; OMin 7; OApply1 7 0 1 [1; 2];
    OReshape 0 [5];                           (* wrong size: error on both *)
    OReshapeFast 2 [6];                       (* not contiguous: error on both *)
    OUnroll 0; OShape 7; OLen 5 1; OContig 7; OContig 2 ].

Example demo_reshape_ok : guarded2 arr_init_state (map (set_backing false) demo_reshape) = true.
Proof. vm_compute. reflexivity. Qed.

Example demo_reshape_results :
  results arr_init_state (map (set_backing false) demo_reshape) =
    [Some (RNewArr 0); Some (RNewArr 1); Some (RNewArr 2); Some (RNewArr 3); Some (RNewArr 4); Some ROk;
     Some (RVal 100); Some ROk; Some (RVal 200); Some ROk; Some (RVal 100); Some (RVal 300);
     Some (RNewArr 5); Some (RNewArr 6); Some (RNewArr 7); Some ROk; Some (RVal 77); Some (RNewArr 8);
     Some ROk; Some (RVal 55); Some (RVal 300); Some (RVal 9); Some ROk; Some RError; Some RError;
     Some (RVals [1; 2; 3; 4; 5; 100; 7; 8; 1; 2; 11; 77]); Some (RVals [4]); Some (RVal 2);
     Some (RBool true); Some (RBool false)]
  /\ results arr_init_state (map (set_backing true) demo_reshape) =
     results arr_init_state (map (set_backing false) demo_reshape)
  /\ arr_run_history arr_init_state (map (set_backing true) demo_reshape) =
     arr_run_history arr_init_state (map (set_backing false) demo_reshape).
Proof. vm_compute. repeat split. Qed.

(** the histories of GoCProofs pass the new guard as well *)
Example demo_access_ok2 : guarded2 arr_init_state (map (set_backing false) demo_access) = true.
Proof. vm_compute. reflexivity. Qed.
Example demo_guarded_ok2 : guarded2 arr_init_state (map (set_backing false) demo_guarded) = true.
Proof. vm_compute. reflexivity. Qed.

(** the guard is needed and is what rejects the histories of [reshape_differs] (GoCProofs): the
    access is outside the re-sliced Go window (Go panics, C reads a neighbour) *)
Example reshape_differs_rejected :
  guarded2 arr_init_state (map (set_backing false) [ONew false [6]; OSlice 0 [2] [2] None; OReshape 1 [2]; OGet 2 [3]]) = false
  /\ differ [ONew false [6]; OSlice 0 [2] [2] None; OReshape 1 [2]; OGet 2 [3]].
Proof. split; [vm_compute; reflexivity|exact reshape_differs]. Qed.

(** the guard of an element access holds for every in-range index of a well-formed array in
    the sense of WrapperRefine ([wfarr]: in-box view of a row-major region, either back-end) *)
Lemma guard_get_in_range (h : zheap) a k rd v i : wfarr h a k rd v -> valid_idx (adims v) i ->
  okb h a (get h a i) = true.
Proof.
  intros W Vi. destruct (wfarr_total h a k rd v i W Vi) as [[x Hx] _]. unfold okb. rewrite Hx. apply orb_true_r.
Qed.
Lemma guard_set_in_range (h : zheap) a k rd v i x : wfarr h a k rd v -> valid_idx (adims v) i ->
  okb h a (set h a i x) = true.
Proof.
  intros W Vi. destruct (wfarr_total h a k rd v i W Vi) as [_ St]. destruct (St x) as [h' Hs].
  unfold okb. rewrite Hs. apply orb_true_r.
Qed.

(** arithmetic between different roots (fast path on contiguous, index loop on non-contiguous
    operands), then reshapes and writes through parent and result *)
Definition demo_arith : list op :=
  [ ONew false [2; 3]; ONew false [2; 3];
    OSlice 0 [0; 0] [1; 3] None; OSlice 1 [1; 0] [1; 3] None;      (* 2, 3: contiguous rows *)
    OSlice 1 [0; 1] [2; 2] None; OSlice 0 [0; 0] [2; 2] None;      (* 4, 5: non-contiguous blocks *)
    OScale 0 1 3; OAddTo 2 3; OApplyFunc 5 4; OAddTo 0 1;
    OUnroll 0; OUnroll 1;
    OReshape 0 [6]; OSet 6 [5] 9; OGet 0 [1; 2];                   (* 6 aliases root 0 *)
    OReshape 5 [4]; OSet1 7 0 1000; OGet 0 [0; 0]; OMax 7 ].       (* 7 is a detached copy *)

Example demo_arith_ok : guarded2 arr_init_state (map (set_backing false) demo_arith) = true.
Proof. vm_compute. reflexivity. Qed.

Example demo_arith_results :
  results arr_init_state (map (set_backing false) demo_arith) =
    [Some (RNewArr 0); Some (RNewArr 1); Some (RNewArr 2); Some (RNewArr 3); Some (RNewArr 4); Some (RNewArr 5);
     Some ROk; Some ROk; Some ROk; Some ROk; Some (RVals [6; 9; 18; 15; 18; 24]); Some (RVals [1; 2; 3; 4; 5; 6]);
     Some (RNewArr 6); Some ROk; Some (RVal 9); Some (RNewArr 7); Some ROk; Some (RVal 6); Some (RVal 1000)]
  /\ arr_run_history arr_init_state (map (set_backing true) demo_arith) =
     arr_run_history arr_init_state (map (set_backing false) demo_arith).
Proof. vm_compute. split; reflexivity. Qed.

(** the guard rejects the overlapping operands of [scale_overlap_differs] (GoCProofs) *)
Example scale_overlap_rejected :
  guarded2 arr_init_state (map (set_backing false)
    [ONew false [4]; OSlice 0 [1] [3] None; OSlice 0 [0] [3] None; OScale 1 2 2; OUnroll 0]) = false.
Proof. vm_compute. reflexivity. Qed.

Print Assumptions go_c_results_agree_reshape.
Print Assumptions go_c_histories_agree_reshape.
