(** C03, whole histories: Go-backed and C-backed arrays are observationally equal.

    [set_backing b] sets the [c_backed] flag of every [ONew] to [b]; the two runs compared
    are  map (set_backing false) ops  (all roots Go slices) and  map (set_backing true) ops
    (all roots caller-provided C buffers), both from [arr_init_state].  What is compared is the
    whole [arr_run_history] list: per step the [oresult] (value / values / bool / new id /
    error) or the panic ([None] = Go panic, resp. an access outside the caller's buffer on C),
    the contents of every root buffer and the elements of every array alive.

    THEOREMS (no axioms; see the [Print Assumptions] at the end)
    - [go_c_histories_agree] : for every history made of operations of [in_fragment], any
      length, ANY arguments (out-of-range indices, negative steps, ill-shaped slices, ...),
      the two runs are equal step by step, panics included.  [in_fragment] =
        ONew OSlice OGet OSet OGetN OSetN OGet1 OSet1 OApply1 OShape OLen OContig OMax OMin.
      [go_c_results_agree] is the projection on the result lists.
    - [go_c_histories_agree_guarded] : the same conclusion for the larger set
        in_fragment + OApply OUnroll OApplySlice OCopyFrom
      provided every step passes the decidable guard [guardb] in the Go-side run
      ([guarded ... = true], computable by vm_compute).  The guard is [true] for the
      operations of [in_fragment]; for the four others it asks what the library's callers
      ensure anyway:
        OUnroll     the array is an in-box view with steps >= 1 of its root ([wfb]);
        OApply      the same, the start index is valid, 1 <= step, the run is non-empty and
                    stays inside the axis ([apply_guard]);
        OApplySlice / OCopyFrom   destination slice and source are in-box views with steps
                    >= 1 and live in different roots ([copy_guard]).
      Go's fast paths (re-slicing + copy) are reduced to the element loops by the existing
      theorems apply_fast_eq_slow / unroll_values / apply_slice_fast_eq_slow, the element
      loops are related across the back-ends here.  On the C side Unroll allocates a
      gathered copy where Go aliases: the relation lets the two heaps differ by buffers that
      no array refers to.
      Each guard is needed: see the Examples unroll_negative_step_differs,
      unroll_zero_step_differs, apply_empty_out_of_range_differs,
      apply_low_rank_view_differs, copy_from_overlap_differs, apply_slice_overlap_differs
      (the model's two back-ends give different results there).

    OUTSIDE both fragments, with a concrete history on which the model's back-ends differ:
    - OUnrollW (write through the slice returned by Unroll): Go aliases contiguous storage,
      C returns a copy                                              [unrollw_differs];
    - OReshape, OReshapeFast, OMustReshape: for a contiguous view Go re-slices (accesses are
      then bounds-checked against the length of the view), C keeps the whole buffer; an
      out-of-range index of the reshaped array panics on Go and reads a neighbour on C
                                  [reshape_differs, reshape_fast_differs, must_reshape_differs];
      (no difference is known for in-range accesses; proving agreement there needs a
      relation with a start offset between the two view records - not done);
    - OScale, OAddTo, OApplyFunc: with overlapping operands Go updates aliased storage in
      place, C works on gathered copies     [scale_/add_to_/apply_func_overlap_differs];
      (no difference is known for disjoint well-formed operands; not attempted).

    THE RELATION ([srel]): same number of arrays; pairwise equal view records [cm]; the k-th
    Go root buffer and the k-th C root buffer (tables [sroots]) exist and hold the same list
    (same length: out-of-bounds outcomes coincide); a Go array is the full slice
    (base 0, len = cap = size) of its root buffer and the C array is the corresponding C
    buffer; the root tables have no duplicates (writes hit corresponding buffers only). *)
From Coq Require Import ZArith List Bool Lia.
From OW Require Import Arrays.IntOps Arrays.View Arrays.Ops Arrays.IndexProofs Arrays.AffineProofs
  Arrays.ContigProofs Arrays.HelperProofs Arrays.MemProofs Arrays.ApplyProofs Arrays.CopyProofs
  Arrays.Exec Arrays.HistoryProofs.
Import ListNotations.
Local Open Scope Z_scope.

(** the same history with every root Go-backed ([false]) or C-backed ([true]) *)
Definition set_backing (b : bool) (o : op) : op :=
  match o with ONew _ ds => ONew b ds | _ => o end.

(** results only (the [o_res] part of [arr_run_history]) *)
Fixpoint results (s : arr_state) (ops : list op) : list (option oresult) :=
  match ops with
  | [] => []
  | o :: r => match exec s o with
              | Some (s', x) => Some x :: results s' r
              | None => [None]
              end
  end.

Lemma results_of_history : forall ops s,
  results s ops = map (option_map o_res) (arr_run_history s ops).
Proof.
  induction ops as [|o r IH]; intros s; [reflexivity|]. cbn [results arr_run_history].
  destruct (exec s o) as [[s' x]|]; [|reflexivity]. cbn [map option_map observe o_res]. rewrite IH. reflexivity.
Qed.

(** both [None], or both [Some] and related *)
Definition orel {A B} (P : A -> B -> Prop) (x : option A) (y : option B) : Prop :=
  match x, y with Some a, Some b => P a b | None, None => True | _, _ => False end.

Lemma orel_mono {A B} (P Q : A -> B -> Prop) x y :
  (forall a b, P a b -> Q a b) -> orel P x y -> orel Q x y.
Proof. intros HPQ. destruct x, y; cbn; auto. Qed.

Lemma orel_eq {A} (x y : option A) : orel eq x y -> x = y.
Proof. destruct x, y; cbn; intros H; try contradiction; congruence. Qed.

(** * small list facts *)
Lemma znth_none {A} (l : list A) i : i < 0 \/ Z.of_nat (length l) <= i -> znth l i = None.
Proof.
  intros H. unfold znth, zidx. destruct (Z.ltb_spec i 0) as [L|L]; [reflexivity|].
  apply nth_error_None. lia.
Qed.

Lemma set_nth_none {A} (l : list A) n v : (length l <= n)%nat -> set_nth l n v = None.
Proof.
  revert n; induction l as [|x l IH]; intros n H; [reflexivity|]. destruct n as [|n]; cbn in *; [lia|].
  rewrite IH by lia. reflexivity.
Qed.

Lemma zset_none {A} (l : list A) i v : i < 0 \/ Z.of_nat (length l) <= i -> zset l i v = None.
Proof.
  intros H. unfold zset, zidx. destruct (Z.ltb_spec i 0) as [L|L]; [reflexivity|].
  apply set_nth_none. lia.
Qed.

Lemma zset_length {A} (l : list A) i v l' : zset l i v = Some l' -> length l' = length l.
Proof. unfold zset. destruct (zidx i); [apply set_nth_length|discriminate]. Qed.

Lemma Forall2_nth_error {A B} (P : A -> B -> Prop) l1 l2 :
  Forall2 P l1 l2 -> forall n, orel P (nth_error l1 n) (nth_error l2 n).
Proof.
  induction 1 as [|x y l1 l2 Hxy F IH]; intros [|n]; cbn; auto.
Qed.

Lemma Forall2_mono {A B} (P Q : A -> B -> Prop) l1 l2 :
  (forall a b, P a b -> Q a b) -> Forall2 P l1 l2 -> Forall2 Q l1 l2.
Proof. intros HPQ. induction 1; constructor; auto. Qed.

Lemma Forall2_len {A B} (P : A -> B -> Prop) l1 l2 : Forall2 P l1 l2 -> length l1 = length l2.
Proof. induction 1; cbn; congruence. Qed.

Lemma map_ext_pos {A B C} (f : A -> C) (g : B -> C) : forall l1 l2,
  length l1 = length l2 ->
  (forall k a b, nth_error l1 k = Some a -> nth_error l2 k = Some b -> f a = g b) ->
  map f l1 = map g l2.
Proof.
  induction l1 as [|a l1 IH]; intros [|b l2] L H; cbn in L; try lia; [reflexivity|].
  cbn [map]. f_equal.
  - apply (H 0%nat); reflexivity.
  - apply IH; [lia|]. intros k a' b' Ha Hb. apply (H (S k)); assumption.
Qed.

(** * the simulation relation, for fixed root tables [r1] (Go side) and [r2] (C side) *)
Section Rel.
  Variables r1 r2 : list nat.

  (** heaps: the k-th root buffers of the two sides exist and have equal contents
      (hence equal lengths: out-of-bounds outcomes coincide) *)
  Definition HR (h1 h2 : zheap) : Prop :=
    length r1 = length r2 /\ NoDup r1 /\ NoDup r2 /\
    forall k b1 b2, nth_error r1 k = Some b1 -> nth_error r2 k = Some b2 ->
      exists l, nth_error h1 b1 = Some l /\ nth_error h2 b2 = Some l.

  (** arrays: same view record; the Go side is the full slice of the k-th Go root buffer,
      the C side is the k-th C root buffer; the buffer holds exactly the root *)
  Definition AR (h1 : zheap) (a1 a2 : zarr) : Prop :=
    cm a1 = cm a2 /\
    exists k b1 b2 l, nth_error r1 k = Some b1 /\ nth_error r2 k = Some b2 /\
      nth_error h1 b1 = Some l /\ Z.of_nat (length l) = product (odims (cm a1)) /\
      im a1 = GoImpl (mkG b1 0 (Z.of_nat (length l)) (Z.of_nat (length l))) /\ im a2 = CImpl b2.

  (** outcome of a heap-changing step *)
  Definition HS (h1 : zheap) (h1' h2' : zheap) : Prop := HR h1' h2' /\ hext h1 h1'.

  Lemma AR_hext h1 h1' a1 a2 : AR h1 a1 a2 -> hext h1 h1' -> AR h1' a1 a2.
  Proof.
    intros (Ec & k & b1 & b2 & l & K1 & K2 & Hl & Lp & I1 & I2) [_ X].
    destruct (X b1 l Hl) as (l' & Hl' & Ll'). split; [exact Ec|].
    exists k, b1, b2, l'. rewrite Ll'. repeat split; assumption.
  Qed.

  Lemma HS_trans h1 h1' h1'' h2'' : hext h1 h1' -> HS h1' h1'' h2'' -> HS h1 h1'' h2''.
  Proof. intros X [R X']. split; [exact R|eapply hext_trans; eauto]. Qed.

  Lemma HS_refl h1 h2 : HR h1 h2 -> HS h1 h1 h2.
  Proof. intros R. split; [exact R|apply hext_refl]. Qed.

  Lemma AR_buffers h1 h2 a1 a2 : HR h1 h2 -> AR h1 a1 a2 ->
    exists k b1 b2 l, nth_error r1 k = Some b1 /\ nth_error r2 k = Some b2 /\
      nth_error h1 b1 = Some l /\ nth_error h2 b2 = Some l /\
      Z.of_nat (length l) = product (odims (cm a1)) /\
      im a1 = GoImpl (mkG b1 0 (Z.of_nat (length l)) (Z.of_nat (length l))) /\ im a2 = CImpl b2.
  Proof.
    intros (_ & _ & _ & R) (_ & k & b1 & b2 & l & K1 & K2 & Hl & Lp & I1 & I2).
    destruct (R k b1 b2 K1 K2) as (l0 & H1 & H2). assert (l0 = l) by congruence. subst l0.
    exists k, b1, b2, l. repeat split; assumption.
  Qed.

  Lemma read_rel h1 h2 a1 a2 i : HR h1 h2 -> AR h1 a1 a2 ->
    impl_read h1 (im a1) i = impl_read h2 (im a2) i.
  Proof.
    intros R A. destruct (AR_buffers _ _ _ _ R A) as (k & b1 & b2 & l & K1 & K2 & H1 & H2 & Lp & I1 & I2).
    rewrite I1, I2. cbn [impl_read]. unfold gread, hread. cbn [glen gbuf gbase]. rewrite H1, H2.
    destruct (Z.leb_spec 0 i) as [L0|L0]; cbn [andb].
    - destruct (Z.ltb_spec i (Z.of_nat (length l))) as [L1|L1].
      + rewrite Z.add_0_l. reflexivity.
      + symmetry. apply znth_none. lia.
    - symmetry. apply znth_none. lia.
  Qed.

  Lemma write_rel h1 h2 a1 a2 i v : HR h1 h2 -> AR h1 a1 a2 ->
    orel (HS h1) (impl_write h1 (im a1) i v) (impl_write h2 (im a2) i v).
  Proof.
    intros R A. destruct (AR_buffers _ _ _ _ R A) as (k & b1 & b2 & l & K1 & K2 & H1 & H2 & Lp & I1 & I2).
    rewrite I1, I2. cbn [impl_write]. unfold gwrite. cbn [glen gbuf gbase].
    assert (Out : i < 0 \/ Z.of_nat (length l) <= i -> orel (HS h1) None (hwrite h2 b2 i v)).
    { intros O. unfold hwrite. rewrite H2, (zset_none l i v O). exact I. }
    destruct (Z.leb_spec 0 i) as [L0|L0]; cbn [andb]; [|apply Out; lia].
    destruct (Z.ltb_spec i (Z.of_nat (length l))) as [L1|L1]; [|apply Out; lia].
    rewrite Z.add_0_l.
    destruct (hwrite h1 b1 i v) as [h1'|] eqn:W1.
    2:{ exfalso. unfold hwrite in W1. rewrite H1 in W1. destruct (zset_some l i v ltac:(lia)) as [l' Z]. rewrite Z in W1.
        destruct (set_nth_some h1 b1 l') as [h' S]; [apply nth_error_Some; congruence|]. congruence. }
    destruct (hwrite h2 b2 i v) as [h2'|] eqn:W2.
    2:{ exfalso. unfold hwrite in W2. rewrite H2 in W2. destruct (zset_some l i v ltac:(lia)) as [l' Z]. rewrite Z in W2.
        destruct (set_nth_some h2 b2 l') as [h' S]; [apply nth_error_Some; congruence|]. congruence. }
    cbn [orel]. split; [|eapply hext_hwrite; eauto].
    unfold hwrite in W1, W2. rewrite H1 in W1. rewrite H2 in W2.
    destruct (zset l i v) as [l'|] eqn:Z; [|discriminate].
    destruct R as (Lr & N1 & N2 & R). split; [exact Lr|]. split; [exact N1|]. split; [exact N2|].
    intros k' c1 c2 C1 C2. destruct (Nat.eq_dec k' k) as [->|Nk].
    - assert (c1 = b1) by congruence. assert (c2 = b2) by congruence. subst c1 c2.
      exists l'. split; eapply set_nth_same; eauto.
    - assert (D1 : c1 <> b1).
      { intros ->. apply Nk. apply (proj1 (NoDup_nth_error r1) N1).
        - apply nth_error_Some. congruence.
        - congruence. }
      assert (D2 : c2 <> b2).
      { intros ->. apply Nk. apply (proj1 (NoDup_nth_error r2) N2).
        - apply nth_error_Some. congruence.
        - congruence. }
      rewrite (set_nth_other _ _ _ _ _ W1 D1), (set_nth_other _ _ _ _ _ W2 D2). apply (R k'); assumption.
  Qed.

  Lemma get_rel h1 h2 a1 a2 loc : HR h1 h2 -> AR h1 a1 a2 -> get h1 a1 loc = get h2 a2 loc.
  Proof.
    intros R A. unfold get. rewrite <- (proj1 A). destruct (index (cm a1) loc); [|reflexivity].
    apply read_rel; assumption.
  Qed.

  Lemma set_rel h1 h2 a1 a2 loc v : HR h1 h2 -> AR h1 a1 a2 ->
    orel (HS h1) (set h1 a1 loc v) (set h2 a2 loc v).
  Proof.
    intros R A. unfold set. rewrite <- (proj1 A). destruct (index (cm a1) loc); [|exact I].
    apply write_rel; assumption.
  Qed.

  (** chaining: a related step followed by related continuations *)
  Lemma orel_bind h1 (x y : option zheap) (f g : zheap -> option zheap) :
    orel (HS h1) x y ->
    (forall h1' h2', HR h1' h2' -> hext h1 h1' -> orel (HS h1') (f h1') (g h2')) ->
    orel (HS h1) (match x with Some h => f h | None => None end)
                 (match y with Some h => g h | None => None end).
  Proof.
    intros H K. destruct x as [h1'|], y as [h2'|]; cbn in H; try contradiction; [|exact I].
    destruct H as [R X]. eapply orel_mono; [|apply K; assumption].
    intros a b Hab. eapply HS_trans; eauto.
  Qed.

  Lemma apply_loop_rel a1 a2 loc dim st0 stp : forall vals h1 h2 i,
    HR h1 h2 -> AR h1 a1 a2 ->
    orel (HS h1) (apply_loop h1 a1 loc dim st0 stp i vals) (apply_loop h2 a2 loc dim st0 stp i vals).
  Proof.
    induction vals as [|v r IH]; intros h1 h2 i R A; cbn [apply_loop].
    - cbn. apply HS_refl, R.
    - destruct (zset loc dim (st0 + i * stp)) as [loc'|]; [|exact I].
      apply orel_bind; [apply set_rel; assumption|].
      intros h1' h2' R' X. apply IH; [exact R'|eapply AR_hext; eauto].
  Qed.

  Lemma index1_rel h1 a1 a2 l : AR h1 a1 a2 -> index1 a1 l = index1 a2 l.
  Proof. intros [E _]. unfold index1, shape. rewrite E. reflexivity. Qed.

  Lemma apply1_rel a1 a2 loc stp : forall vals h1 h2 i,
    HR h1 h2 -> AR h1 a1 a2 ->
    orel (HS h1) (apply1 h1 a1 loc stp i vals) (apply1 h2 a2 loc stp i vals).
  Proof.
    induction vals as [|v r IH]; intros h1 h2 i R A; cbn [apply1].
    - cbn. apply HS_refl, R.
    - apply orel_bind.
      + unfold set1. rewrite (index1_rel h1 a1 a2 _ A). apply set_rel; assumption.
      + intros h1' h2' R' X. apply IH; [exact R'|eapply AR_hext; eauto].
  Qed.

  Lemma idx_copy_loop_rel d1 d2 s1 s2 shp : forall n h1 h2 idx,
    HR h1 h2 -> AR h1 d1 d2 -> AR h1 s1 s2 ->
    orel (HS h1) (idx_copy_loop h1 d1 s1 shp idx n) (idx_copy_loop h2 d2 s2 shp idx n).
  Proof.
    induction n as [|n IH]; intros h1 h2 idx R Ad As; cbn [idx_copy_loop].
    - cbn. apply HS_refl, R.
    - rewrite <- (get_rel h1 h2 s1 s2 idx R As). destruct (get h1 s1 idx) as [v|]; [|exact I].
      apply (orel_bind h1 (set h1 d1 idx v) (set h2 d2 idx v)
               (fun h => match increment idx shp with Some idx' => idx_copy_loop h d1 s1 shp idx' n | None => None end)
               (fun h => match increment idx shp with Some idx' => idx_copy_loop h d2 s2 shp idx' n | None => None end)).
      + apply set_rel; assumption.
      + intros h1' h2' R' X. destruct (increment idx shp) as [idx'|]; [|exact I].
        apply IH; [exact R'|eapply AR_hext; eauto|eapply AR_hext; eauto].
  Qed.

  Lemma extremum_loop_rel better h1 h2 a1 a2 shp : HR h1 h2 -> AR h1 a1 a2 -> forall n idx res,
    extremum_loop better h1 a1 shp idx res n = extremum_loop better h2 a2 shp idx res n.
  Proof.
    intros R A. induction n as [|n IH]; intros idx res; cbn [extremum_loop]; [reflexivity|].
    rewrite <- (get_rel h1 h2 a1 a2 idx R A). destruct (get h1 a1 idx) as [v|]; [|reflexivity].
    destruct (increment idx shp); [apply IH|reflexivity].
  Qed.

  Lemma extremum_rel better h1 h2 a1 a2 : HR h1 h2 -> AR h1 a1 a2 ->
    extremum better h1 a1 = extremum better h2 a2.
  Proof.
    intros R A. unfold extremum, new_index, ndims, shape. rewrite <- (proj1 A).
    rewrite <- (get_rel h1 h2 a1 a2 _ R A). destruct (get h1 a1 _); [|reflexivity].
    apply extremum_loop_rel; assumption.
  Qed.

  Lemma gets_rel h1 h2 a1 a2 : HR h1 h2 -> AR h1 a1 a2 -> forall locs,
    gets h1 a1 locs = gets h2 a2 locs.
  Proof.
    intros R A. induction locs as [|l r IH]; cbn [gets]; [reflexivity|].
    rewrite <- (get_rel h1 h2 a1 a2 l R A), IH. reflexivity.
  Qed.

  Lemma elems_rel h1 h2 a1 a2 : HR h1 h2 -> AR h1 a1 a2 -> elems h1 a1 = elems h2 a2.
  Proof. intros R A. unfold elems, shape. rewrite <- (proj1 A). apply gets_rel; assumption. Qed.

  Lemma slice_rel h1 a1 a2 loc d st : AR h1 a1 a2 ->
    orel (AR h1) (slice a1 loc d st) (slice a2 loc d st).
  Proof.
    intros (Ec & k & b1 & b2 & l & K1 & K2 & Hl & Lp & I1 & I2). unfold slice. rewrite <- Ec.
    destruct (slice_into (cm a1) loc d st) as [c|] eqn:S; cbn [option_map orel]; [|exact I].
    split; [reflexivity|]. exists k, b1, b2, l. cbn [cm im]. repeat split; try assumption.
    unfold slice_into in S. destruct (dot loc (offstep (cm a1))); [|discriminate].
    destruct (match st with Some s => multiply (step (cm a1)) s | None => Some (step (cm a1)) end); [|discriminate].
    destruct (multiply l0 (offset (cm a1))); [|discriminate]. inversion S; subst c. cbn [odims]. exact Lp.
  Qed.

  (** appending a buffer on either side *)
  Lemma HR_app_l h1 h2 x : HR h1 h2 -> HR (h1 ++ [x]) h2.
  Proof.
    intros (Lr & N1 & N2 & R). split; [exact Lr|]. split; [exact N1|]. split; [exact N2|].
    intros k b1 b2 K1 K2. destruct (R k b1 b2 K1 K2) as (l & H1 & H2). exists l. split; [|exact H2].
    rewrite nth_error_app1; [exact H1|]. apply nth_error_Some. congruence.
  Qed.
  Lemma HR_app_r h1 h2 x : HR h1 h2 -> HR h1 (h2 ++ [x]).
  Proof.
    intros (Lr & N1 & N2 & R). split; [exact Lr|]. split; [exact N1|]. split; [exact N2|].
    intros k b1 b2 K1 K2. destruct (R k b1 b2 K1 K2) as (l & H1 & H2). exists l. split; [exact H1|].
    rewrite nth_error_app1; [exact H2|]. apply nth_error_Some. congruence.
  Qed.
End Rel.

(** * states *)
Definition srel (s1 s2 : arr_state) : Prop :=
  HR (sroots s1) (sroots s2) (sheap s1) (sheap s2) /\
  Forall2 (AR (sroots s1) (sroots s2) (sheap s1)) (sarrs s1) (sarrs s2).

(** equal result, related successor states *)
Definition xrel (x1 x2 : arr_state * oresult) : Prop := snd x1 = snd x2 /\ srel (fst x1) (fst x2).

Lemma srel_with_heap s1 s2 h1' h2' :
  srel s1 s2 -> HS (sroots s1) (sroots s2) (sheap s1) h1' h2' -> srel (with_heap s1 h1') (with_heap s2 h2').
Proof.
  intros [R F] [R' X]. split; cbn [with_heap sheap sroots sarrs]; [exact R'|].
  eapply Forall2_mono; [|exact F]. intros a b A. cbv beta. eapply AR_hext; eauto.
Qed.

Lemma arr_at_rel s1 s2 id : srel s1 s2 ->
  orel (AR (sroots s1) (sroots s2) (sheap s1)) (arr_at s1 id) (arr_at s2 id).
Proof.
  intros [_ F]. unfold arr_at, znth. destruct (zidx id) as [n|]; [|exact I].
  apply Forall2_nth_error, F.
Qed.

Lemma okh_rel s1 s2 (x y : option zheap) : srel s1 s2 ->
  orel (HS (sroots s1) (sroots s2) (sheap s1)) x y ->
  orel xrel (option_map (fun h' => (with_heap s1 h', ROk)) x) (option_map (fun h' => (with_heap s2 h', ROk)) y).
Proof.
  intros S H. destruct x, y; cbn in *; try contradiction; [|exact I].
  split; [reflexivity|]. apply srel_with_heap; assumption.
Qed.

Lemma val_rel s1 s2 (x y : option Z) : srel s1 s2 -> x = y ->
  orel xrel (option_map (fun v => (s1, RVal v)) x) (option_map (fun v => (s2, RVal v)) y).
Proof. intros S ->. destruct y; cbn; [|exact I]. split; [reflexivity|exact S]. Qed.

Lemma add_arr_rel s1 s2 h1' h2' a1 a2 : srel s1 s2 ->
  HS (sroots s1) (sroots s2) (sheap s1) h1' h2' -> AR (sroots s1) (sroots s2) h1' a1 a2 ->
  xrel (add_arr s1 h1' a1) (add_arr s2 h2' a2).
Proof.
  intros [R F] [R' X] A. unfold add_arr, xrel. cbn [fst snd]. split.
  - rewrite (Forall2_len _ _ _ F). reflexivity.
  - split; cbn [sheap sroots sarrs]; [exact R'|]. apply Forall2_app.
    + eapply Forall2_mono; [|exact F]. intros a b A0. eapply AR_hext; eauto.
    + constructor; [exact A|constructor].
Qed.

(** ** allocation of a new root *)
Lemma NoDup_snoc {A} (l : list A) x : NoDup l -> ~ In x l -> NoDup (l ++ [x]).
Proof.
  induction 1 as [|y l Hy N IH]; intros Hx; cbn [app].
  - constructor; [intros []|constructor].
  - constructor.
    + intros Hin. apply in_app_or in Hin as [Hin|[->|[]]]; [apply Hy, Hin|apply Hx; left; reflexivity].
    + apply IH. intros Hin; apply Hx; right; exact Hin.
Qed.

Lemma nth_error_snoc {A} (l : list A) x k y : nth_error (l ++ [x]) k = Some y ->
  ((k < length l)%nat /\ nth_error l k = Some y) \/ (k = length l /\ y = x).
Proof.
  intros H. destruct (lt_dec k (length l)) as [L|L].
  - left. split; [exact L|]. rewrite nth_error_app1 in H by exact L. exact H.
  - right. rewrite nth_error_app2 in H by lia. destruct (k - length l)%nat as [|m] eqn:E.
    + cbn in H. inversion H. split; [lia|reflexivity].
    + cbn in H. destruct m; discriminate.
Qed.

Lemma HR_new r1 r2 h1 h2 x : HR r1 r2 h1 h2 ->
  HR (r1 ++ [length h1]) (r2 ++ [length h2]) (h1 ++ [x]) (h2 ++ [x]).
Proof.
  intros (Lr & N1 & N2 & R).
  assert (F1 : ~ In (length h1) r1).
  { intros Hin. apply In_nth_error in Hin as [k K1].
    destruct (nth_error r2 k) as [b2|] eqn:K2.
    2:{ apply nth_error_None in K2. assert (k < length r1)%nat by (apply nth_error_Some; congruence). lia. }
    destruct (R k _ _ K1 K2) as (l & H1 & _).
    assert (length h1 < length h1)%nat by (apply nth_error_Some; congruence). lia. }
  assert (F2 : ~ In (length h2) r2).
  { intros Hin. apply In_nth_error in Hin as [k K2].
    destruct (nth_error r1 k) as [b1|] eqn:K1.
    2:{ apply nth_error_None in K1. assert (k < length r2)%nat by (apply nth_error_Some; congruence). lia. }
    destruct (R k _ _ K1 K2) as (l & _ & H2).
    assert (length h2 < length h2)%nat by (apply nth_error_Some; congruence). lia. }
  split; [rewrite !app_length; cbn; lia|]. split; [apply NoDup_snoc; assumption|]. split; [apply NoDup_snoc; assumption|].
  intros k b1 b2 K1 K2.
  apply nth_error_snoc in K1 as [[L1 K1]|[E1 ->]]; apply nth_error_snoc in K2 as [[L2 K2]|[E2 ->]]; try lia.
  - destruct (R k b1 b2 K1 K2) as (l & H1 & H2). exists l.
    rewrite !nth_error_app1 by (apply nth_error_Some; congruence). split; assumption.
  - exists x. rewrite !nth_error_app2 by lia. rewrite !Nat.sub_diag. split; reflexivity.
Qed.

Lemma AR_new_roots r1 r2 x y h1 a1 a2 : AR r1 r2 h1 a1 a2 -> AR (r1 ++ [x]) (r2 ++ [y]) h1 a1 a2.
Proof.
  intros (Ec & k & b1 & b2 & l & K1 & K2 & Rest). split; [exact Ec|]. exists k, b1, b2, l.
  rewrite !nth_error_app1 by (apply nth_error_Some; congruence). repeat split; tauto.
Qed.

Lemma product_nonneg ds : existsb (fun d => d <? 0) ds = false -> 0 <= product ds.
Proof.
  induction ds as [|d ds IH]; cbn [existsb]; intros H; [cbn; lia|].
  apply orb_false_iff in H as [Hd Hr]. rewrite product_cons. specialize (IH Hr).
  destruct (Z.ltb_spec d 0); [discriminate|]. nia.
Qed.

Lemma iota_length n : length (iota n) = Z.to_nat n.
Proof. unfold iota. rewrite map_length, seq_length. reflexivity. Qed.

Lemma new_rel s1 s2 ds : srel s1 s2 ->
  orel xrel (exec s1 (ONew false ds)) (exec s2 (ONew true ds)).
Proof.
  intros [R F]. cbn [exec]. destruct (existsb (fun d => d <? 0) ds) eqn:Neg; [exact I|].
  unfold new_go, new_c. destruct (root_common ds) as [c|] eqn:RC; [|exact I].
  cbn [orel]. unfold xrel. cbn [fst snd]. split; [rewrite (Forall2_len _ _ _ F); reflexivity|].
  split; cbn [sheap sroots sarrs]; [apply HR_new, R|].
  assert (Xh : hext (sheap s1) (sheap s1 ++ [iota (product ds)])) by apply hext_app.
  apply Forall2_app.
  - eapply Forall2_mono; [|exact F]. intros a b A. apply AR_new_roots. eapply AR_hext; eauto.
  - constructor; [|constructor]. split; [reflexivity|].
    destruct R as (Lr & _). exists (length (sroots s1)), (length (sheap s1)), (length (sheap s2)), (iota (product ds)).
    cbn [cm im]. rewrite !nth_error_app2 by lia. rewrite <- Lr, !Nat.sub_diag. cbn [nth_error].
    repeat split; try reflexivity.
    destruct (root_wf ds c RC) as (_ & _ & Eo & _). rewrite Eo, iota_length.
    pose proof (product_nonneg ds Neg). lia.
Qed.

(** * decidable well-formedness of a view record (reflection of [wf_arr]'s pure part) *)
Fixpoint lzeq (a b : list Z) : bool :=
  match a, b with
  | [], [] => true
  | x :: a', y :: b' => (x =? y) && lzeq a' b'
  | _, _ => false
  end.
Lemma lzeq_eq : forall a b, lzeq a b = true -> a = b.
Proof.
  induction a as [|x a IH]; intros [|y b] H; cbn in H; try discriminate; [reflexivity|].
  apply andb_true_iff in H as [Hx Hr]. apply Z.eqb_eq in Hx. subst y. f_equal. apply IH, Hr.
Qed.

Fixpoint axes_okb (rd b s d : list Z) : bool :=
  match rd, b, s, d with
  | [], [], [], [] => true
  | r :: rd', b0 :: b', s0 :: s', d0 :: d' =>
      (1 <=? d0) && (0 <=? b0) && (1 <=? s0) && (b0 + (d0 - 1) * s0 <? r) && axes_okb rd' b' s' d'
  | _, _, _, _ => false
  end.
Lemma axes_okb_sound : forall rd b s d, axes_okb rd b s d = true ->
  axes_ok rd b s d /\ Forall2 (fun sk dk => 1 < dk -> 1 <= sk) s d.
Proof.
  induction rd as [|r rd IH]; intros [|b0 b] [|s0 s] [|d0 d] H; cbn in H; try discriminate.
  - split; constructor.
  - repeat (apply andb_true_iff in H as [H ?]).
    destruct (IH b s d) as [A P]; [assumption|].
    split; constructor; try assumption; lia.
Qed.

Fixpoint valid_idxb (ds i : list Z) : bool :=
  match ds, i with
  | [], [] => true
  | d :: ds', x :: i' => (0 <=? x) && (x <? d) && valid_idxb ds' i'
  | _, _ => false
  end.
Lemma valid_idxb_sound : forall ds i, valid_idxb ds i = true -> valid_idx ds i.
Proof.
  induction ds as [|d ds IH]; intros [|x i] H; cbn in H; try discriminate; [constructor|].
  repeat (apply andb_true_iff in H as [H ?]). constructor; [lia|apply IH; assumption].
Qed.

Definition view_of (c : common) : aview := mkAview (unravel (odims c) (start c)) (step c) (dims c).

(** [c] is an in-box view, with steps >= 1, of a root of shape [odims c] *)
Definition wfb (c : common) : bool :=
  match dims c with [] => false | _ => true end &&
  axes_okb (odims c) (unravel (odims c) (start c)) (step c) (dims c) &&
  (start c =? ravel (odims c) (unravel (odims c) (start c))) &&
  lzeq (offset c) (offsets_from (odims c)) &&
  lzeq (offstep c) (vmul (step c) (offsets_from (odims c))).

Lemma wfb_sound c : wfb c = true ->
  c = conc (odims c) (view_of c) /\ in_box (odims c) (view_of c) /\ steps_pos (view_of c) /\
  adims (view_of c) <> [].
Proof.
  unfold wfb. intros H. repeat (apply andb_true_iff in H as [H ?]).
  destruct (axes_okb_sound _ _ _ _ H3) as [A P].
  destruct c as [od d st off sp os]; cbn [odims dims start offset step offstep] in *.
  unfold conc, view_of, in_box, steps_pos; cbn [odims dims start offset step offstep abase astride adims].
  repeat split; try assumption.
  - f_equal; [apply Z.eqb_eq; assumption|apply lzeq_eq; assumption|apply lzeq_eq; assumption].
  - destruct d; [discriminate|congruence].
Qed.

(** a related pair whose record passes [wfb] is a well-formed array on both sides *)
Lemma wf_both r1 r2 h1 h2 a1 a2 : HR r1 r2 h1 h2 -> AR r1 r2 h1 a1 a2 -> wfb (cm a1) = true ->
  wf_arr h1 a1 (odims (cm a1)) (view_of (cm a1)) /\ wf_arr h2 a2 (odims (cm a1)) (view_of (cm a1)) /\
  steps_pos (view_of (cm a1)) /\ adims (view_of (cm a1)) <> [].
Proof.
  intros R A W. destruct (wfb_sound _ W) as (Ec & B & SP & N).
  destruct (AR_buffers _ _ _ _ _ _ R A) as (k & b1 & b2 & l & K1 & K2 & H1 & H2 & Lp & I1 & I2).
  split; [|split; [|split; assumption]].
  - split; [exact Ec|]. split; [exact B|]. rewrite I1. cbn [storage_ok gbuf glen gcap gbase].
    exists l. repeat split; try assumption; lia.
  - split; [rewrite <- (proj1 A); exact Ec|]. split; [exact B|]. rewrite I2. cbn [storage_ok].
    exists l. split; assumption.
Qed.

(** * Unroll: both sides yield the row-major element values (Go aliases, C gathers) *)
Lemma unroll_heap (h : zheap) a h' g : unroll h a = Some (h', g) -> h' = h \/ exists x, h' = h ++ [x].
Proof.
  assert (G : forall h0 g0, unroll_gather h a = Some (h0, g0) -> h0 = h \/ exists x, h0 = h ++ [x]).
  { intros h0 g0. unfold unroll_gather. destruct (product (shape a) <? 0); [discriminate|].
    destruct (offsets (shape a)); [|discriminate]. destruct (gather h a l 0 _) as [vals|]; [|discriminate].
    intros E; inversion E. right; eauto. }
  unfold unroll. destruct (im a); [|apply G]. destruct (contiguous (cm a)) as [[|]|]; [|apply G|discriminate].
  destruct (index _ _); [|discriminate]. destruct (gsub _ _ _); [|discriminate].
  intros E; inversion E; left; reflexivity.
Qed.

Lemma gread_all_ext (h1 h2 : zheap) g1 g2 : forall n i,
  (forall k, i <= k < i + Z.of_nat n -> gread h1 g1 k = gread h2 g2 k) ->
  gread_all h1 g1 i n = gread_all h2 g2 i n.
Proof.
  induction n as [|n IH]; intros i H; cbn [gread_all]; [reflexivity|].
  rewrite <- (H i) by lia. destruct (gread h1 g1 i); [|reflexivity].
  rewrite (IH (i + 1)); [reflexivity|]. intros k Hk; apply H; lia.
Qed.

Lemma unroll_rel r1 r2 h1 h2 a1 a2 : HR r1 r2 h1 h2 -> AR r1 r2 h1 a1 a2 -> wfb (cm a1) = true ->
  exists h1' g1 h2' g2, unroll h1 a1 = Some (h1', g1) /\ unroll h2 a2 = Some (h2', g2) /\
    HS r1 r2 h1 h1' h2' /\ gvalues h1' g1 = gvalues h2' g2.
Proof.
  intros R A W. destruct (wf_both _ _ _ _ _ _ R A W) as (W1 & W2 & SP & N).
  destruct (unroll_values h1 a1 _ _ W1 SP N) as (h1' & g1 & U1 & X1 & _ & L1 & Rd1).
  destruct (unroll_values h2 a2 _ _ W2 SP N) as (h2' & g2 & U2 & X2 & _ & L2 & Rd2).
  exists h1', g1, h2', g2. split; [exact U1|]. split; [exact U2|]. split.
  - split; [|exact X1].
    destruct (unroll_heap _ _ _ _ U1) as [->|[x1 ->]]; destruct (unroll_heap _ _ _ _ U2) as [->|[x2 ->]].
    + exact R.
    + apply HR_app_r, R.
    + apply HR_app_l, R.
    + apply HR_app_l, HR_app_r, R.
  - unfold gvalues. rewrite L1, L2. apply gread_all_ext. intros k Hk.
    rewrite Rd1, Rd2 by lia. eapply get_rel; eassumption.
Qed.

(** * Apply: Go fast path = Go element loop (ApplyProofs), Go loop ~ C loop *)
Definition apply_guard (a : zarr) (loc : list Z) (dim stp : Z) (vals : list Z) : bool :=
  wfb (cm a) && valid_idxb (dims (cm a)) loc && (0 <=? dim) && (1 <=? stp) &&
  match vals with [] => false | _ => true end &&
  match znth loc dim, znth (dims (cm a)) dim with
  | Some ld, Some dd => ld + (Z.of_nat (length vals) - 1) * stp <? dd
  | _, _ => false
  end.

Lemma apply_rel r1 r2 h1 h2 a1 a2 loc dim stp vals : HR r1 r2 h1 h2 -> AR r1 r2 h1 a1 a2 ->
  apply_guard a1 loc dim stp vals = true ->
  orel (HS r1 r2 h1) (apply h1 a1 loc dim stp vals) (apply h2 a2 loc dim stp vals).
Proof.
  intros R A G. unfold apply_guard in G.
  apply andb_true_iff in G as [G Hb]. apply andb_true_iff in G as [G Hnv]. apply andb_true_iff in G as [G Hs].
  apply andb_true_iff in G as [G Hd]. apply andb_true_iff in G as [G Hvi].
  destruct (znth loc dim) as [ld|] eqn:Hld; [|discriminate].
  destruct (znth (dims (cm a1)) dim) as [dd|] eqn:Hdd; [|discriminate].
  destruct (wf_both _ _ _ _ _ _ R A G) as (W1 & _ & SP & _).
  destruct (AR_buffers _ _ _ _ _ _ R A) as (k & b1 & b2 & l & _ & _ & _ & _ & _ & I1 & I2).
  pose proof (proj1 A) as Ec.
  destruct a1 as [c1 m1]. cbn [cm im] in *. subst m1.
  set (g := mkG b1 0 (Z.of_nat (length l)) (Z.of_nat (length l))) in *.
  pose proof W1 as (_ & B & _). pose proof (in_box_rank _ _ B) as (_ & _ & Ld).
  change (adims (view_of c1)) with (dims c1) in Ld.
  assert (Hd0 : 0 <= dim) by lia.
  assert (Hdn : (Z.to_nat dim < length (dims c1))%nat).
  { unfold znth, zidx in Hdd. destruct (Z.ltb_spec dim 0); [lia|]. apply nth_error_Some. congruence. }
  assert (Hne : vals <> []) by (destruct vals; [discriminate|congruence]).
  rewrite (apply_fast_eq_slow h1 c1 g (odims c1) (view_of c1) loc dim stp vals ld W1 SP).
  - (* C side: the element loop *)
    unfold apply. rewrite <- Ec. unfold ndims.
    destruct (zset_some (uniform (length (dims c1)) 1) dim (Z.of_nat (length vals))) as [sd ->];
      [rewrite uniform_length; lia|].
    destruct (zset_some (uniform (length (dims c1)) 1) dim stp) as [ss ->]; [rewrite uniform_length; lia|].
    rewrite I2, Hld. apply apply_loop_rel; assumption.
  - apply valid_idxb_sound. assumption.
  - exact Hd0.
  - lia.
  - lia.
  - exact Hne.
  - exact Hld.
  - exists dd. split; [exact Hdd|lia].
Qed.

(** * ApplySlice / CopyFrom: Go fast path ~ Go index loop (CopyProofs) ~ C index loop *)
Definition buf_of (a : zarr) : nat := match im a with GoImpl g => gbuf g | CImpl b => b end.

Definition copy_guard (a b : zarr) (loc : list Z) (st : option (list Z)) : bool :=
  match slice a loc (shape b) st with
  | Some sl => wfb (cm sl) && wfb (cm b) && negb (Nat.eqb (buf_of a) (buf_of b))
  | None => true
  end.

Lemma nth_error_ext' {A} : forall (l l' : list A), (forall n, nth_error l n = nth_error l' n) -> l = l'.
Proof.
  induction l as [|x l IH]; intros [|y l'] H; [reflexivity|specialize (H 0%nat); discriminate..|].
  pose proof (H 0%nat) as H0; cbn in H0; inversion H0; subst. f_equal. apply IH. intros n. apply (H (S n)).
Qed.
Lemma znth_ext {A} (l l' : list A) : (forall a, znth l a = znth l' a) -> l = l'.
Proof.
  intros H. apply nth_error_ext'. intros n. specialize (H (Z.of_nat n)). unfold znth, zidx in H.
  destruct (Z.ltb_spec (Z.of_nat n) 0); [lia|]. rewrite Nat2Z.id in H. exact H.
Qed.

Lemma HR_agree r1 r2 (h1 h2 hf hs hs2 : zheap) : HR r1 r2 h1 h2 -> HR r1 r2 hs hs2 -> hext h1 hf ->
  agree (length h1) hf hs -> HR r1 r2 hf hs2.
Proof.
  intros (Lr & N1 & N2 & R0) (_ & _ & _ & Rs) [_ Xf] Ag.
  split; [exact Lr|]. split; [exact N1|]. split; [exact N2|]. intros k b1 b2 K1 K2.
  destruct (R0 k b1 b2 K1 K2) as (l0 & H10 & _). destruct (Rs k b1 b2 K1 K2) as (l & Hs1 & Hs2).
  destruct (Xf b1 l0 H10) as (lf & Hf & _). exists l. split; [|exact Hs2]. rewrite Hf. f_equal.
  apply znth_ext. intros a. assert (Lb : (b1 < length h1)%nat) by (apply nth_error_Some; congruence).
  specialize (Ag b1 a Lb). unfold hread in Ag. rewrite Hf, Hs1 in Ag. exact Ag.
Qed.

Lemma slice_fields (a : zarr) loc d st sl : slice a loc d st = Some sl -> dims (cm sl) = d /\ im sl = im a.
Proof.
  unfold slice, slice_into. destruct (dot loc (offstep (cm a))); [|discriminate].
  destruct (match st with Some s => multiply (step (cm a)) s | None => Some (step (cm a)) end); [|discriminate].
  destruct (multiply l (offset (cm a))); [|discriminate]. cbn [option_map]. intros E; inversion E. split; reflexivity.
Qed.

Lemma apply_slice_rel r1 r2 h1 h2 a1 a2 s1 s2 loc st :
  HR r1 r2 h1 h2 -> AR r1 r2 h1 a1 a2 -> AR r1 r2 h1 s1 s2 -> copy_guard a1 s1 loc st = true ->
  orel (HS r1 r2 h1) (apply_slice h1 a1 loc st s1) (apply_slice h2 a2 loc st s2).
Proof.
  intros R Aa As G. unfold copy_guard in G.
  assert (Esh : shape s2 = shape s1) by (unfold shape; rewrite (proj1 As); reflexivity).
  pose proof (slice_rel r1 r2 h1 a1 a2 loc (shape s1) st Aa) as Sl.
  destruct (slice a1 loc (shape s1) st) as [sl1|] eqn:S1; destruct (slice a2 loc (shape s1) st) as [sl2|] eqn:S2;
    cbn [orel] in Sl; try contradiction.
  2:{ unfold apply_slice. rewrite Esh, S1, S2. exact I. }
  apply andb_true_iff in G as [G Nb]. apply andb_true_iff in G as [Wsl Wsr].
  destruct (AR_buffers _ _ _ _ _ _ R Aa) as (ka & ba1 & ba2 & la & _ & _ & _ & _ & _ & Ia1 & Ia2).
  destruct (AR_buffers _ _ _ _ _ _ R As) as (ks & bs1 & bs2 & ls & _ & _ & _ & _ & _ & Is1 & Is2).
  assert (E2 : apply_slice h2 a2 loc st s2 =
               idx_copy_loop h2 sl2 s2 (shape s1) (new_index (cm sl1) 0) (Z.to_nat (product (shape s1)))).
  { unfold apply_slice. rewrite Esh, S2, Ia2, (proj1 Sl). reflexivity. }
  rewrite E2.
  pose proof (idx_copy_loop_rel r1 r2 sl1 sl2 s1 s2 (shape s1) (Z.to_nat (product (shape s1))) h1 h2
                (new_index (cm sl1) 0) R Sl As) as Slow.
  destruct (wf_both _ _ _ _ _ _ R Sl Wsl) as (W1 & _ & SP1 & N1).
  destruct (wf_both _ _ _ _ _ _ R As Wsr) as (W2 & _ & SP2 & N2).
  pose proof W1 as (Ec1 & B1 & _).
  destruct (contiguous_iff_adjacent _ _ B1 SP1) as (b & Cb & _). rewrite <- Ec1 in Cb.
  destruct (slice_fields _ _ _ _ _ S1) as [Dsl Isl].
  destruct b.
  - (* Go takes the contiguous fast path *)
    destruct (apply_slice_fast_eq_slow h1 a1 sl1 s1 loc st _ _ _ _ _ S1 Ia1 W1 SP1 W2 SP2) as (hf & hs & Ehf & Ehs & Ag).
    + exact Dsl.
    + exact N1.
    + exact Cb.
    + intros i j _ _. unfold acell. rewrite Isl, Ia1, Is1. cbn [cell_of]. intros E. inversion E as [[Eb Ea]].
      unfold buf_of in Nb. rewrite Ia1, Is1 in Nb. cbn [gbuf] in Nb. rewrite Eb, Nat.eqb_refl in Nb. discriminate.
    + rewrite Ehf. rewrite Ehs in Slow.
      destruct (idx_copy_loop h2 sl2 s2 _ _ _) as [hs2|]; cbn [orel] in Slow |- *; [|contradiction].
      destruct Slow as [Rs Xs]. split; [|eapply hext_apply_slice; eauto].
      eapply HR_agree; [exact R|exact Rs|eapply hext_apply_slice; eauto|exact Ag].
  - unfold apply_slice. rewrite S1, Ia1, Cb. exact Slow.
Qed.

(** * the guard of one step, evaluated on the Go-side state *)
Definition guardb (s : arr_state) (o : op) : bool :=
  match o with
  | ONew _ _ | OSlice _ _ _ _ | OGet _ _ | OSet _ _ _ | OGetN _ _ | OSetN _ _ _
  | OGet1 _ _ | OSet1 _ _ _ | OApply1 _ _ _ _ | OShape _ | OLen _ _ | OContig _ | OMax _ | OMin _ => true
  | OApply id loc dim stp vals =>
      match arr_at s id with Some a => apply_guard a loc dim stp vals | None => true end
  | OUnroll id => match arr_at s id with Some a => wfb (cm a) | None => true end
  | OApplySlice id loc st src =>
      match arr_at s id, arr_at s src with
      | Some a, Some b => copy_guard a b loc st
      | _, _ => true
      end
  | OCopyFrom id src =>
      match arr_at s id, arr_at s src with
      | Some a, Some b => copy_guard a b (new_index (cm a) 0) None
      | _, _ => true
      end
  | _ => false
  end.

Ltac arr_pair S s1 s2 id a1 a2 A E :=
  pose proof (arr_at_rel s1 s2 id S) as A;
  destruct (arr_at s1 id) as [a1|] eqn:E; destruct (arr_at s2 id) as [a2|];
  cbn [orel] in A; try contradiction; [|exact I].

Lemma exec_rel s1 s2 o : srel s1 s2 -> guardb s1 (set_backing false o) = true ->
  orel xrel (exec s1 (set_backing false o)) (exec s2 (set_backing true o)).
Proof.
  intros S G. pose proof S as [R F].
  destruct o; cbn [set_backing guardb] in G |- *; try discriminate G.
  - (* ONew *) apply new_rel, S.
  - (* OSlice *) cbn [exec]. arr_pair S s1 s2 id a1 a2 A E.
    pose proof (slice_rel _ _ _ a1 a2 loc d st A) as Sl.
    destruct (slice a1 loc d st) as [c1|]; destruct (slice a2 loc d st) as [c2|];
      cbn [orel] in Sl |- *; try contradiction; [|exact I].
    apply add_arr_rel; [exact S|apply HS_refl, R|exact Sl].
  - (* OGet *) cbn [exec]. arr_pair S s1 s2 id a1 a2 A E.
    apply val_rel; [exact S|eapply get_rel; eassumption].
  - (* OSet *) cbn [exec]. arr_pair S s1 s2 id a1 a2 A E.
    apply okh_rel; [exact S|eapply set_rel; eassumption].
  - (* OApply *) cbn [exec]. arr_pair S s1 s2 id a1 a2 A E. try rewrite E in G.
    apply okh_rel; [exact S|eapply apply_rel; eassumption].
  - (* OApplySlice *) cbn [exec]. arr_pair S s1 s2 id a1 a2 A E. arr_pair S s1 s2 src b1 b2 B E'.
    try rewrite E in G; try rewrite E' in G. apply okh_rel; [exact S|eapply apply_slice_rel; eassumption].
  - (* OCopyFrom *) cbn [exec]. arr_pair S s1 s2 id a1 a2 A E. arr_pair S s1 s2 src b1 b2 B E'.
    try rewrite E in G; try rewrite E' in G. apply okh_rel; [exact S|]. unfold copy_from. rewrite <- (proj1 A).
    eapply apply_slice_rel; eassumption.
  - (* OUnroll *) cbn [exec]. arr_pair S s1 s2 id a1 a2 A E. try rewrite E in G.
    destruct (unroll_rel _ _ _ _ _ _ R A G) as (h1' & g1 & h2' & g2 & U1 & U2 & Hx & Gv).
    rewrite U1, U2, Gv. destruct (gvalues h2' g2); cbn [option_map orel]; [|exact I].
    split; [reflexivity|]. cbn [fst]. apply srel_with_heap; assumption.
  - (* OContig *) cbn [exec]. arr_pair S s1 s2 id a1 a2 A E. rewrite <- (proj1 A).
    destruct (contiguous (cm a1)); cbn [option_map orel]; [|exact I]. split; [reflexivity|exact S].
  - (* OMax *) cbn [exec]. arr_pair S s1 s2 id a1 a2 A E.
    apply val_rel; [exact S|]. unfold maximum. eapply extremum_rel; eassumption.
  - (* OMin *) cbn [exec]. arr_pair S s1 s2 id a1 a2 A E.
    apply val_rel; [exact S|]. unfold minimum. eapply extremum_rel; eassumption.
  - (* OGet1 *) cbn [exec]. arr_pair S s1 s2 id a1 a2 A E.
    apply val_rel; [exact S|]. unfold get1. rewrite (index1_rel _ _ _ _ _ l A). eapply get_rel; eassumption.
  - (* OSet1 *) cbn [exec]. arr_pair S s1 s2 id a1 a2 A E.
    apply okh_rel; [exact S|]. unfold set1. rewrite (index1_rel _ _ _ _ _ l A). eapply set_rel; eassumption.
  - (* OApply1 *) cbn [exec]. arr_pair S s1 s2 id a1 a2 A E.
    apply okh_rel; [exact S|]. eapply apply1_rel; eassumption.
  - (* OGetN *) cbn [exec]. arr_pair S s1 s2 id a1 a2 A E.
    apply val_rel; [exact S|eapply get_rel; eassumption].
  - (* OSetN *) cbn [exec]. arr_pair S s1 s2 id a1 a2 A E.
    apply okh_rel; [exact S|eapply set_rel; eassumption].
  - (* OShape *) cbn [exec]. arr_pair S s1 s2 id a1 a2 A E. unfold shape. rewrite <- (proj1 A).
    cbn [orel]. split; [reflexivity|exact S].
  - (* OLen *) cbn [exec]. arr_pair S s1 s2 id a1 a2 A E.
    apply val_rel; [exact S|]. unfold shape. rewrite (proj1 A). reflexivity.
Qed.

(** * whole histories *)
Lemma observe_rel s1 s2 r : srel s1 s2 -> observe s1 r = observe s2 r.
Proof.
  intros [R F]. unfold observe. f_equal.
  - destruct R as (Lr & _ & _ & R). apply map_ext_pos; [exact Lr|]. intros k b1 b2 K1 K2.
    destruct (R k b1 b2 K1 K2) as (l & H1 & H2).
    rewrite (nth_error_nth _ _ _ H1), (nth_error_nth _ _ _ H2). reflexivity.
  - revert F. generalize (sarrs s1) (sarrs s2). induction 1 as [|a b l1 l2 A F IH]; cbn [map]; [reflexivity|].
    f_equal; [eapply elems_rel; eassumption|exact IH].
Qed.

Lemma srel_init : srel arr_init_state arr_init_state.
Proof.
  split; cbn; [|constructor]. split; [reflexivity|]. split; [constructor|]. split; [constructor|].
  intros [|k] b1 b2 K; discriminate.
Qed.

(** every step passes its guard on the Go-side run (the run is cut at the first panic) *)
Fixpoint guarded (s : arr_state) (ops : list op) : bool :=
  match ops with
  | [] => true
  | o :: r => guardb s o && match exec s o with Some (s', _) => guarded s' r | None => true end
  end.

Lemma histories_rel : forall ops s1 s2, srel s1 s2 -> guarded s1 (map (set_backing false) ops) = true ->
  arr_run_history s1 (map (set_backing false) ops) = arr_run_history s2 (map (set_backing true) ops).
Proof.
  induction ops as [|o r IH]; intros s1 s2 S G; [reflexivity|]. cbn [map arr_run_history guarded] in *.
  apply andb_true_iff in G as [G1 G2]. pose proof (exec_rel s1 s2 o S G1) as X.
  destruct (exec s1 (set_backing false o)) as [[s1' x1]|]; destruct (exec s2 (set_backing true o)) as [[s2' x2]|];
    cbn [orel] in X; try contradiction; [|reflexivity].
  destruct X as [Ex Sx]. cbn [fst snd] in Ex, Sx. subst x2. rewrite (observe_rel _ _ _ Sx). f_equal.
  apply IH; assumption.
Qed.

(** ** the state-independent fragment: no side condition on any argument *)
Definition in_fragment (o : op) : Prop :=
  match o with
  | ONew _ _ | OSlice _ _ _ _ | OGet _ _ | OSet _ _ _ | OGetN _ _ | OSetN _ _ _
  | OGet1 _ _ | OSet1 _ _ _ | OApply1 _ _ _ _ | OShape _ | OLen _ _ | OContig _ | OMax _ | OMin _ => True
  | _ => False
  end.

Lemma fragment_guarded : forall ops, Forall in_fragment ops ->
  forall s, guarded s (map (set_backing false) ops) = true.
Proof.
  induction 1 as [|o r Ho F IH]; intros s; [reflexivity|]. cbn [map guarded].
  assert (G : guardb s (set_backing false o) = true) by (destruct o; cbn in Ho |- *; try reflexivity; contradiction).
  rewrite G. cbn [andb]. destruct (exec s (set_backing false o)) as [[s' x]|]; [apply IH|reflexivity].
Qed.

(** ** main theorems.  [arr_run_history] lists, per step, the result of the operation (value,
    values, bool, new id, error) or the panic, the contents of every root buffer and the
    elements of every array alive: all of it coincides on the two back-ends. *)
Theorem go_c_histories_agree_guarded : forall ops,
  guarded arr_init_state (map (set_backing false) ops) = true ->
  arr_run_history arr_init_state (map (set_backing false) ops) =
  arr_run_history arr_init_state (map (set_backing true) ops).
Proof. intros ops G. apply histories_rel; [exact srel_init|exact G]. Qed.

Theorem go_c_histories_agree : forall ops,
  Forall in_fragment ops ->
  arr_run_history arr_init_state (map (set_backing false) ops) =
  arr_run_history arr_init_state (map (set_backing true) ops).
Proof. intros ops F. apply go_c_histories_agree_guarded, fragment_guarded, F. Qed.

Corollary go_c_results_agree : forall ops,
  Forall in_fragment ops ->
  results arr_init_state (map (set_backing false) ops) = results arr_init_state (map (set_backing true) ops).
Proof. intros ops F. rewrite !results_of_history, (go_c_histories_agree ops F). reflexivity. Qed.

Corollary go_c_results_agree_guarded : forall ops,
  guarded arr_init_state (map (set_backing false) ops) = true ->
  results arr_init_state (map (set_backing false) ops) = results arr_init_state (map (set_backing true) ops).
Proof. intros ops G. rewrite !results_of_history, (go_c_histories_agree_guarded ops G). reflexivity. Qed.

(** * non-vacuity: concrete histories on both backings *)
Definition demo_access : list op :=
  [ ONew false [3; 4];                               (* 0: root 3x4 = 1..12 *)
    OSlice 0 [1; 0] [2; 3] (Some [1; 1]);             (* 1: rows 1-2, cols 0-2 *)
    OSlice 1 [0; 1] [2; 2] None;                      (* 2: slice of the slice *)
    OSlice 0 [0; 3] [3; 1] (Some [1; -1]);            (* 3: negative step: still in the fragment *)
    OSet 2 [1; 1] 100;                                (* write through the inner view *)
    OGet 0 [2; 2];                                    (* ... seen in the root: 100 *)
    OGetN 1 [1; 2];
    OSet1 3 1 55;
    OApply1 2 0 1 [7; 8];
    OMax 0; OMin 1;
    OShape 2; OLen 1 0; OContig 1; OContig 0;
    OGet 0 [3; 0];                                    (* out of the buffer: panics on both *)
    OGet 0 [0; 0] ].

Example demo_access_in_fragment : Forall in_fragment demo_access.
Proof. repeat constructor. Qed.

Example demo_access_results :
  results arr_init_state (map (set_backing false) demo_access) =
    [Some (RNewArr 0); Some (RNewArr 1); Some (RNewArr 2); Some (RNewArr 3); Some ROk; Some (RVal 100);
     Some (RVal 100); Some ROk; Some ROk; Some (RVal 100); Some (RVal 5); Some (RVals [2; 2]); Some (RVal 2);
     Some (RBool false); Some (RBool true); None]
  /\ results arr_init_state (map (set_backing true) demo_access) =
     results arr_init_state (map (set_backing false) demo_access)
  /\ arr_run_history arr_init_state (map (set_backing true) demo_access) =
     arr_run_history arr_init_state (map (set_backing false) demo_access).
Proof. vm_compute. repeat split. Qed.

(** a guarded history using the fast paths: Apply, Unroll (contiguous and gathered),
    ApplySlice and CopyFrom between different roots *)
Definition demo_guarded : list op :=
  [ ONew false [3; 4]; ONew false [2; 2];
    OSlice 0 [1; 1] [2; 2] (Some [1; 1]);             (* 2: non-contiguous 2x2 block of root 0 *)
    OSlice 0 [1; 0] [2; 4] None;                      (* 3: contiguous rows 1-2 *)
    OUnroll 2; OUnroll 3;
    OApply 0 [0; 1] 1 1 [50; 51; 52];                 (* fast path on Go *)
    OApply 0 [0; 0] 0 1 [60; 61; 62];                 (* element loop on both *)
    OCopyFrom 2 1;                                    (* root 1 into the block *)
    OApplySlice 0 [1; 0] None 1;
    OCopyFrom 1 2;
    OUnroll 0; OUnroll 1;
    OGet 0 [9; 9] ].

Example demo_guarded_ok : guarded arr_init_state (map (set_backing false) demo_guarded) = true.
Proof. vm_compute. reflexivity. Qed.

Example demo_guarded_results :
  results arr_init_state (map (set_backing true) demo_guarded) =
  results arr_init_state (map (set_backing false) demo_guarded)
  /\ nth 11 (results arr_init_state (map (set_backing false) demo_guarded)) None =
     Some (RVals [60; 50; 51; 52; 1; 2; 2; 8; 3; 4; 4; 12]).
Proof. vm_compute. split; reflexivity. Qed.

(** * operations on which the two back-ends of the MODEL really differ (outside every fragment,
      or inside the guarded one only under the guard).  [differ ops]: the result lists differ. *)
Definition differ (ops : list op) : Prop :=
  results arr_init_state (map (set_backing false) ops) <> results arr_init_state (map (set_backing true) ops).

(** OUnrollW: the Go slice returned by Unroll aliases contiguous storage, the C one is a copy;
    a write through it is visible in the array on Go only (99 vs 2) *)
Example unrollw_differs : differ [ONew false [4]; OUnrollW 0 1 99; OGet 0 [1]].
Proof. vm_compute. discriminate. Qed.

(** Reshape / ReshapeFast / MustReshape of a contiguous view: Go re-slices (len = size of the
    view, later accesses bounds-checked against it: panic), C keeps the whole caller buffer
    (the same access reads a neighbouring element: 6) *)
Example reshape_differs : differ [ONew false [6]; OSlice 0 [2] [2] None; OReshape 1 [2]; OGet 2 [3]].
Proof. vm_compute. discriminate. Qed.
Example reshape_fast_differs : differ [ONew false [6]; OSlice 0 [2] [2] None; OReshapeFast 1 [2]; OGet 2 [3]].
Proof. vm_compute. discriminate. Qed.
Example must_reshape_differs : differ [ONew false [6]; OSlice 0 [2] [2] None; OMustReshape 1 [2]; OGet 2 [3]].
Proof. vm_compute. discriminate. Qed.

(** CopyFrom / ApplySlice with overlapping source and destination in one root: Go's contiguous
    fast path copies a snapshot (memmove), the C element loop reads what it has just written *)
Example copy_from_overlap_differs :
  differ [ONew false [4]; OSlice 0 [1] [3] None; OSlice 0 [0] [3] None; OCopyFrom 1 2; OUnroll 0].
Proof. vm_compute. discriminate. Qed.
Example apply_slice_overlap_differs :
  differ [ONew false [4]; OSlice 0 [0] [3] None; OApplySlice 0 [1] None 1; OUnroll 0].
Proof. vm_compute. discriminate. Qed.

(** Scale / AddTo / ApplyFunc with overlapping operands: Go updates the aliased storage in
    place while reading the source, C works on gathered copies *)
Example apply_func_overlap_differs :
  differ [ONew false [4]; OSlice 0 [1] [3] None; OSlice 0 [0] [3] None; OApplyFunc 1 2; OUnroll 0].
Proof. vm_compute. discriminate. Qed.
Example add_to_overlap_differs :
  differ [ONew false [4]; OSlice 0 [1] [3] None; OSlice 0 [0] [3] None; OAddTo 1 2; OUnroll 0].
Proof. vm_compute. discriminate. Qed.
Example scale_overlap_differs :
  differ [ONew false [4]; OSlice 0 [1] [3] None; OSlice 0 [0] [3] None; OScale 1 2 2; OUnroll 0].
Proof. vm_compute. discriminate. Qed.

(** why Unroll and Apply need their guard: Contiguous() accepts steps <= 1, so a reversed or
    step-0 view counts as contiguous on Go (panic / 1 element) while C gathers 3 elements;
    Apply's fast path re-slices even for an empty run and for a view of lower rank *)
Example unroll_negative_step_differs : differ [ONew false [3]; OSlice 0 [2] [3] (Some [-1]); OUnroll 1].
Proof. vm_compute. discriminate. Qed.
Example unroll_zero_step_differs : differ [ONew false [3]; OSlice 0 [0] [3] (Some [0]); OUnroll 1].
Proof. vm_compute. discriminate. Qed.
Example apply_empty_out_of_range_differs : differ [ONew false [3]; OApply 0 [7] 0 1 []].
Proof. vm_compute. discriminate. Qed.
Example apply_low_rank_view_differs : differ [ONew false [2; 3]; OSlice 0 [0] [2] None; OApply 1 [0] 0 1 [9]].
Proof. vm_compute. discriminate. Qed.

Print Assumptions go_c_histories_agree_guarded.
Print Assumptions go_c_results_agree.
Print Assumptions go_c_histories_agree.
