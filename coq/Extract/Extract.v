From Coq Require Import Extraction ExtrOcamlBasic ExtrOCamlFloats ExtrOCamlInt63.
From OW Require Import Base.Arith Base.FInst Num.Calendar.
Extraction Language OCaml.
Extraction "model.ml" FArith date_generator_kernel.
