(** C07 - ow-sim executes a model graph exactly like the sequential reference
    semantics, for every scheduling of the model goroutines and the asynchronous
    writer.  Only statements, each closed by [exact <lemma>]; the models are
    Sim/Graph.v (graph files), Sim/RefSim.v (reference), Sim/ImplSim.v (ow-sim's
    data path as atomic actions run under an arbitrary schedule), Sim/Protocol.v
    (the goroutine/channel protocol as an LTS, link loop turn by turn), Sim/Sched.v
    (legal schedules), Sim/SplitProtocol.v (external writer process);
    proofs in Sim/ImplSimProofs.v, Sim/ProtocolProofs.v, Sim/C07Main.v. *)
From Coq Require Import List Arith Bool.
From OW Require Import Sim.SimAux Sim.Graph Sim.RefSim Sim.ImplSim Sim.Sched Sim.Protocol
     Sim.ProtocolProofs Sim.ImplSimProofs Sim.C07Main Sim.SplitProtocol Sim.SplitProtocolProofs Sim.RunOrder.
From Coq Require Import Permutation.
Import ListNotations.

(** ow-sim (canonical schedule: every writer runs as soon as it is spawned) =
    the sequential reference, for every kernel family K that matches the
    catalogue, every valid graph (any number of generations, empty batches,
    several links into one input, fan-out, models without stored inputs), every
    series type, every output selection without an external writer process.
    [None] on both sides when a node's kernel panics. *)
Theorem C07_impl_eq_ref :
  forall (name T Ser : Type) (s_zero : nat -> Ser) (s_add : Ser -> Ser -> Ser)
         (cat : catalogue name)
         (K : name -> list T -> list T -> list Ser -> option (list Ser * list T))
         (name_eqb : name -> name -> bool)
         (gr : graph name T Ser) (sel : selection name),
    valid_graph cat name_eqb gr = true ->
    kernels_match_catalogue cat K ->
    no_external_writer name_eqb gr sel ->
    impl_sim s_zero s_add cat K name_eqb gr sel = ref_sim s_zero s_add cat K name_eqb gr sel.
Proof. exact impl_eq_ref. Qed.
Print Assumptions C07_impl_eq_ref.

(** ... and for EVERY legal schedule of runGeneration / link processing /
    writeGeneration / PurgeGeneration: runs and link phases in program order,
    generations written in order after they were simulated, a generation purged
    (any number of times) only after it was written and its links applied. *)
Theorem C07_impl_any_schedule_eq_ref :
  forall (name T Ser : Type) (s_zero : nat -> Ser) (s_add : Ser -> Ser -> Ser)
         (cat : catalogue name)
         (K : name -> list T -> list T -> list Ser -> option (list Ser * list T))
         (name_eqb : name -> name -> bool)
         (gr : graph name T Ser) (sel : selection name) (sch : list action),
    valid_graph cat name_eqb gr = true ->
    kernels_match_catalogue cat K ->
    no_external_writer name_eqb gr sel ->
    legal_schedule (n_gens gr) (sel_outfile sel) sch ->
    impl_sim_sched s_zero s_add cat K name_eqb gr sel sch = ref_sim s_zero s_add cat K name_eqb gr sel.
Proof. exact impl_any_schedule_eq_ref. Qed.
Print Assumptions C07_impl_any_schedule_eq_ref.

(** Every run of the protocol LTS (main loop, one writer goroutine per
    generation, unbuffered writingDone rendezvous, put-backs, final wait loop)
    that reaches the exit of run_simulation produces a legal complete schedule,
    hence exactly the reference result - for every interleaving. *)
Theorem C07_protocol_run_eq_ref :
  forall (name T Ser : Type) (s_zero : nat -> Ser) (s_add : Ser -> Ser -> Ser)
         (cat : catalogue name)
         (K : name -> list T -> list T -> list Ser -> option (list Ser * list T))
         (name_eqb : name -> name -> bool)
         (gr : graph name T Ser) (sel : selection name)
         (ls : list plabel) (s : pstate),
    valid_graph cat name_eqb gr = true ->
    kernels_match_catalogue cat K ->
    no_external_writer name_eqb gr sel ->
    prun (n_gens gr) (sel_outfile sel) ls (pinit (n_gens gr) (sel_outfile sel)) = Some s ->
    p_main s = MExited ->
    impl_sim_sched s_zero s_add cat K name_eqb gr sel (schedule_of ls)
    = ref_sim s_zero s_add cat K name_eqb gr sel.
Proof. exact protocol_run_eq_ref. Qed.
Print Assumptions C07_protocol_run_eq_ref.

(** The model goroutines of one generation (one per model, started by
    runGeneration) may complete in any order: running the models one by one in
    any permutation of the model indices gives the memory - or the crash - of
    the canonical order used by [ARun]. *)
Theorem C07_model_goroutine_order_irrelevant :
  forall (name T Ser : Type) (s_zero : nat -> Ser) (cat : catalogue name)
         (K : name -> list T -> list T -> list Ser -> option (list Ser * list T))
         (gr : graph name T Ser) (i : nat) (order : list nat) (refs : list (mref T Ser)),
    length refs = length (g_models gr) ->
    Permutation order (seq 0 (length (g_models gr))) ->
    run_models_order s_zero cat K gr i order refs = run_models s_zero cat K gr i (g_models gr) refs.
Proof. exact run_models_any_order. Qed.
Print Assumptions C07_model_goroutine_order_irrelevant.

Theorem C07_protocol_schedule_legal :
  forall (G : nat) (outp : bool) (ls : list plabel) (s : pstate),
    prun G outp ls (pinit G outp) = Some s -> p_main s = MExited ->
    legal_schedule G outp (schedule_of ls).
Proof. exact protocol_exit_schedule_complete. Qed.
Print Assumptions C07_protocol_schedule_legal.

(** In every reachable state the written generations are a prefix 0..k-1, each
    written exactly once. *)
Theorem C07_writes_once_in_order :
  forall (G : nat) (outp : bool) (s : pstate),
    reachable G outp s -> p_written s = seq 0 (length (p_written s)).
Proof. exact writes_once_in_order. Qed.
Print Assumptions C07_writes_once_in_order.

(** A generation is written only after it has been simulated, and in order. *)
Theorem C07_write_after_run :
  forall (G : nat) (outp : bool) (s : pstate) (g : nat) (s' : pstate),
    reachable G outp s -> pnext G outp s (LWrite g) = Some s' ->
    g = length (p_written s) /\ g < runs_done G s.
Proof. exact write_after_run. Qed.
Print Assumptions C07_write_after_run.

(** No generation is discarded before it has been written and its outgoing
    links applied. *)
Theorem C07_purge_safe :
  forall (G : nat) (outp : bool) (s : pstate) (g t : nat) (s' : pstate),
    reachable G outp s -> pnext G outp s (LPurge g t) = Some s' ->
    In t (p_written s) /\ t < links_done G s.
Proof. exact purge_safe. Qed.
Print Assumptions C07_purge_safe.

(** The main goroutine returns only when all G generations are written (and no
    writer goroutine is left behind). *)
Theorem C07_exit_implies_all_written :
  forall (G : nat) (outp : bool) (s : pstate),
    reachable G outp s -> p_main s = MExited -> outp = true -> p_written s = seq 0 G.
Proof. exact exit_implies_all_written. Qed.
Print Assumptions C07_exit_implies_all_written.

Theorem C07_exit_writers_done :
  forall (G : nat) (s : pstate) (g : nat) (ph : wphase),
    reachable G true s -> p_main s = MDone \/ p_main s = MExited ->
    nth_error (p_writers s) g = Some ph -> ph = WDone.
Proof. exact exit_writers_done. Qed.
Print Assumptions C07_exit_writers_done.

(** At most one goroutine holds the token. *)
Theorem C07_token_unique :
  forall (G : nat) (outp : bool) (s : pstate), reachable G outp s -> holders s <= 1.
Proof. exact token_unique. Qed.
Print Assumptions C07_token_unique.

(** Deadlock freedom: every reachable state before the exit has an enabled
    transition (with an output file and zero generations the program does
    deadlock in the final receive: second statement). *)
Theorem C07_no_stuck_state :
  forall (G : nat) (outp : bool) (s : pstate),
    reachable G outp s -> 1 <= G \/ outp = false -> p_main s <> MExited ->
    exists l s', pnext G outp s l = Some s'.
Proof. exact no_stuck_state. Qed.
Print Assumptions C07_no_stuck_state.

Theorem C07_stuck_when_no_generations :
  forall (G : nat) (outp : bool), G = 0 -> outp = true ->
    forall l, pnext 0 true (pinit 0 true) l = None.
Proof. exact stuck_when_no_generations. Qed.
Print Assumptions C07_stuck_when_no_generations.

(** The exit is reachable (the LTS is not vacuous). *)
Theorem C07_exit_reachable :
  forall G : nat, 1 <= G ->
    exists ls s, prun G true ls (pinit G true) = Some s /\ p_main s = MExited.
Proof. exact reachable_exit_exists. Qed.
Print Assumptions C07_exit_reachable.

(** REFUTED for [-outputs model=file] (external writer process): the final
    states of such a model are written nowhere. *)
Theorem C07_impl_eq_ref_split_refuted :
  exists (gr : graph nat nat Ex.Ser) (sel : selection nat),
    valid_graph Ex.cat Nat.eqb gr = true /\ kernels_match_catalogue Ex.cat Ex.K /\
    (exists f r, impl_sim Ex.s_zero Ex.s_add Ex.cat Ex.K Nat.eqb gr sel = Some f /\
                 ref_sim Ex.s_zero Ex.s_add Ex.cat Ex.K Nat.eqb gr sel = Some r /\
                 option_map (@mo_states _ _) (nth_error f 2) = Some None /\
                 option_map (@mo_states _ _) (nth_error r 2) = Some (Some [Some [43]; Some [230]]) /\
                 option_map (@mo_outputs _ _) (nth_error f 2) = option_map (@mo_outputs _ _) (nth_error r 2)).
Proof. exact impl_eq_ref_split_refuted. Qed.
Print Assumptions C07_impl_eq_ref_split_refuted.

(** External writer process of a model named in [-outputs model=file]
    (Sim/SplitProtocol.v).  If the model's LAST batch is non-empty, run_simulation
    returns only after the child has written every generation that has nodes: *)
Theorem C07_split_exit_complete :
  forall (counts : list nat) (s : xstate),
    xreachable counts s -> x_exited s = true -> 0 < xcount counts (xG counts - 1) ->
    x_file s = nonempty_gens counts (xG counts) /\ x_queue s = [].
Proof. exact split_exit_complete. Qed.
Print Assumptions C07_split_exit_complete.

(** REFUTED when the last batch is empty: WriteData returns at gen.Count == 0
    before the Close()/Wait() of the last generation, so the process can exit
    while a message that was sent is still unwritten (counts = [1; 0]). *)
Theorem C07_split_exit_refuted :
  exists counts s, xreachable counts s /\ x_exited s = true /\
                   x_file s = [] /\ x_queue s = [0] /\ nonempty_gens counts (xG counts) = [0].
Proof. exact split_exit_refuted. Qed.
Print Assumptions C07_split_exit_refuted.

(** Non-vacuity: a concrete valid 3-generation graph with fan-in (two links into
    one input variable) and fan-out satisfies the hypotheses; both semantics give
    the same non-trivial file, also under a protocol run with put-backs. *)
Example C07_nonvacuous :
  valid_graph Ex.cat Nat.eqb Ex.gr = true /\ kernels_match_catalogue Ex.cat Ex.K /\
  no_external_writer Nat.eqb Ex.gr (Ex.sel []) /\
  impl_sim Ex.s_zero Ex.s_add Ex.cat Ex.K Nat.eqb Ex.gr (Ex.sel []) = Some Ex.expected /\
  ref_sim Ex.s_zero Ex.s_add Ex.cat Ex.K Nat.eqb Ex.gr (Ex.sel []) = Some Ex.expected /\
  accepts_exited 3 true Ex.trace = true /\
  impl_sim_sched Ex.s_zero Ex.s_add Ex.cat Ex.K Nat.eqb Ex.gr (Ex.sel []) (schedule_of Ex.trace) = Some Ex.expected /\
  accepts_exited 3 true Ex.trace_fine = true /\
  impl_sim_sched Ex.s_zero Ex.s_add Ex.cat Ex.K Nat.eqb Ex.gr (Ex.sel []) (schedule_of Ex.trace_fine) = Some Ex.expected.
Proof. exact example_nonvacuous. Qed.

Example C07_trace_examples :
  accepts_exited 3 true trace_straight = true /\ accepts_exited 3 true trace_putback = true.
Proof. exact (conj trace_straight_accepted trace_putback_accepted). Qed.

Example C07_bad_traces_rejected :
  (accepts 3 true trace_before_bad = true /\ accepts 3 true (trace_before_bad ++ [LWrite 2]) = false) /\
  (accepts 3 true [LRun 0; LSpawn 0; LWrite 0] = true /\
   accepts 3 true [LRun 0; LSpawn 0; LWrite 0; LPurge 1 0] = false).
Proof. exact (conj write_out_of_order_rejected purge_before_links_rejected). Qed.
