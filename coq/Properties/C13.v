(** C13 — reservoir storage closes its water balance and respects its release rules.
    Only statements, each closed by [exact <lemma>]; the model is Kernels/Storage.v
    (storage.go + piecewise.go), the proofs are in KernelProofs/Storage.v.

    All theorems are about the real-number instance [RArith] of the kernel (exact
    arithmetic; binary64 round-off is tested by tools/c13.py, not proved).
    [storage_water_balance tbl dt V0 xs] is the whole of storageWaterBalance for one cell:
    [ROk os v l a] = normal return with per-time-step outputs [os] (volume, outflow,
    rainfallVolume, evaporationVolume + ghost list of accepted sub-steps) and the returned
    (volume, level, area); [RPanic] = the Go code panics; [RFuel] = the model's loop fuel ran
    out (proved impossible); [RConfigError] = checkStorageConfiguration's early return.
    [wf_tables] = at least 2 rows, equal lengths, strictly increasing volumes. *)
From Coq Require Import ZArith Reals List Sorted.
From OW Require Import Base.Arith Base.RInst Base.Mealy Kernels.Storage KernelProofs.Storage.
Import ListNotations.
Local Open Scope R_scope.

(** Water balance of every time step with the REPORTED outflow, rainfallVolume and
    evaporationVolume (rates, hence the factor dt).  [Vp] is the volume before step t.
    Needs that the accepted sub-steps add up to deltaT exactly, which holds over R. *)
Theorem C13_timestep_balance : forall tbl dt V0 xs os v l a,
  wf_tables tbl -> 0 < dt ->
  storage_water_balance tbl dt V0 xs = ROk os v l a ->
  forall t x o, nth_error xs t = Some x -> nth_error os t = Some o ->
  exists Vp, nth_error (V0 :: map r_volume os) t = Some Vp /\
    r_volume o - Vp = (i_inflow x - r_outflow o) * dt
                      + (r_rainfallVolume o - r_evaporationVolume o) * dt.
Proof. exact storage_timestep_balance. Qed.
Print Assumptions C13_timestep_balance.

(** Every accepted sub-step changes the volume by (inflow - avgOutflow + net*avgArea)*h - spill;
    sub-steps are positive, add up to deltaT, and chain from the volume before the step to the
    reported volume. *)
Theorem C13_substep_balance : forall tbl dt V0 xs os v l a,
  wf_tables tbl -> 0 < dt ->
  storage_water_balance tbl dt V0 xs = ROk os v l a ->
  forall t x o, nth_error xs t = Some x -> nth_error os t = Some o ->
  let net := (i_rainfall x / dt - i_pet x / dt) * (1 / 1000) in
  (forall ss, In ss (r_substeps o) ->
     ss_v1 ss - ss_v0 ss = (i_inflow x - ss_out ss + net * ss_area ss) * ss_h ss - ss_spill ss /\
     0 < ss_h ss) /\
  sumf ss_h (r_substeps o) = dt /\
  exists Vp, nth_error (V0 :: map r_volume os) t = Some Vp /\ linked Vp (r_substeps o) (r_volume o).
Proof. exact storage_substep_balance. Qed.
Print Assumptions C13_substep_balance.

(** Volume never negative: whenever the run returns normally (no panic), every reported
    volume and the returned volume are >= 0.  (The Go code panics rather than go negative;
    that outcome is [RPanic], excluded here by the hypothesis.) *)
Theorem C13_volume_nonneg : forall tbl dt V0 xs os v l a,
  wf_tables tbl -> 0 < dt -> 0 <= V0 ->
  storage_water_balance tbl dt V0 xs = ROk os v l a ->
  Forall (fun o => 0 <= r_volume o) os /\ 0 <= v.
Proof. exact storage_volume_nonneg. Qed.
Print Assumptions C13_volume_nonneg.

(** The returned volume is the last reported volume, and the returned level and area are
    the level-volume-area table values at it ([table_value]: end rows outside the table,
    linear interpolation between the bracketing rows inside). *)
Theorem C13_final_level_area : forall tbl dt V0 xs os v l a,
  wf_tables tbl ->
  storage_water_balance tbl dt V0 xs = ROk os v l a ->
  v = last (V0 :: map r_volume os) V0 /\
  table_value (t_volumes tbl) (t_levels tbl) v l /\
  table_value (t_volumes tbl) (t_areas tbl) v a.
Proof. exact storage_final_level_area. Qed.
Print Assumptions C13_final_level_area.

(** [table_value] at a table row is that row's value. *)
Theorem C13_table_value_at_row : forall xs ys x y,
  StronglySorted Rlt xs -> length ys = length xs -> table_value xs ys x y ->
  forall k yk, nth_error xs k = Some x -> nth_error ys k = Some yk -> y = yk.
Proof. exact table_value_at_node. Qed.
Print Assumptions C13_table_value_at_row.

(** Release rules.  reported outflow * dt = release volume + spill volume, where the release
    volume is the time-weighted sum of the accepted sub-steps' release rates.  The release
    lies between any bounds lo/hi that bound the minimum/maximum release curves at the
    volumes where the scheme evaluates them (start volume and predicted end volume of every
    accepted sub-step), and equals the demand when the demand lies between the two curves at
    those volumes; with no spill the reported outflow is then exactly the demand. *)
Theorem C13_release_between_curves : forall tbl dt V0 xs os v l a,
  wf_tables tbl -> Forall2 Rle (t_minRelease tbl) (t_maxRelease tbl) -> 0 < dt ->
  storage_water_balance tbl dt V0 xs = ROk os v l a ->
  forall cv, make_curves tbl = Some cv ->
  forall t x o, nth_error xs t = Some x -> nth_error os t = Some o ->
  r_outflow o * dt = release_volume o + spill_volume o /\ 0 <= spill_volume o /\
  (forall lo hi,
     (forall ss v mn mx, In ss (r_substeps o) -> v = ss_v0 ss \/ v = ss_vp ss ->
        capped_piecewise cv v (t_minRelease tbl) = Some mn ->
        capped_piecewise cv v (t_maxRelease tbl) = Some mx -> lo <= mn /\ mx <= hi) ->
     lo * dt <= release_volume o <= hi * dt) /\
  ((forall ss v mn mx, In ss (r_substeps o) -> v = ss_v0 ss \/ v = ss_vp ss ->
        capped_piecewise cv v (t_minRelease tbl) = Some mn ->
        capped_piecewise cv v (t_maxRelease tbl) = Some mx -> mn <= i_demand x <= mx) ->
   release_volume o = i_demand x * dt /\ (spill_volume o = 0 -> r_outflow o = i_demand x)).
Proof. exact storage_release_between_curves. Qed.
Print Assumptions C13_release_between_curves.

(** Unconditional envelope: the release of every time step lies between the smallest
    minimum-release and the largest maximum-release row of the table. *)
Theorem C13_release_envelope : forall tbl dt V0 xs os v l a lo hi,
  wf_tables tbl -> Forall2 Rle (t_minRelease tbl) (t_maxRelease tbl) -> 0 < dt ->
  Forall (fun y => lo <= y) (t_minRelease tbl) -> Forall (fun y => y <= hi) (t_maxRelease tbl) ->
  storage_water_balance tbl dt V0 xs = ROk os v l a ->
  forall t o, nth_error os t = Some o ->
  lo * dt <= release_volume o <= hi * dt /\
  r_outflow o * dt = release_volume o + spill_volume o.
Proof. exact storage_release_envelope. Qed.
Print Assumptions C13_release_envelope.

(** Spill only above the full-supply volume: a sub-step spills only if its end volume exceeds
    volCurveMax, never more than the excess, so the volume after spilling stays >= volCurveMax. *)
Theorem C13_spill_only_above_fsv : forall tbl dt V0 xs os v l a,
  wf_tables tbl -> 0 < dt ->
  storage_water_balance tbl dt V0 xs = ROk os v l a ->
  forall cv, make_curves tbl = Some cv ->
  forall t o ss, nth_error os t = Some o -> In ss (r_substeps o) ->
  0 <= ss_spill ss /\
  (ss_spill ss <> 0 -> volCurveMax cv < ss_vmid ss /\ volCurveMax cv <= ss_v1 ss /\
                        ss_spill ss <= ss_vmid ss - volCurveMax cv) /\
  ss_v1 ss = ss_vmid ss - ss_spill ss.
Proof. exact storage_spill_only_above_fsv. Qed.
Print Assumptions C13_spill_only_above_fsv.

(** Termination: the fuel the model computes from deltaT and the MIN_TIMESTEP constants
    (log2_up(trunc deltaT + 1) + 2 trials per pass, trunc deltaT / 6 + 2 passes per time step)
    is never exhausted, for any table, deltaT, initial volume and inputs. *)
Theorem C13_terminates : forall tbl dt V0 xs, storage_water_balance tbl dt V0 xs <> RFuel.
Proof. exact storage_terminates. Qed.
Print Assumptions C13_terminates.

(** The kernel run against the Go code is the projection of the ghost result. *)
Theorem C13_kernel_projection : forall params states inputs os v l a,
  storage_run params states inputs = ROk os v l a ->
  storage_kernel params states inputs =
    Some ([map r_volume os; map r_outflow os; map r_rainfallVolume os; map r_evaporationVolume os], [v; l; a]).
Proof. exact storage_kernel_ok. Qed.
Print Assumptions C13_kernel_projection.

(** Non-vacuity: a concrete well-formed table with ordered curves, and a concrete run (one
    60 s step from empty with 10 m3/s inflow and a demand of 100 m3/s) that returns normally,
    with its reported values. *)
Example C13_example_run :
  wf_tables ex_tbl /\ Forall2 Rle (t_minRelease ex_tbl) (t_maxRelease ex_tbl) /\
  make_curves ex_tbl = Some ex_cv /\
  storage_water_balance ex_tbl 60 0 [ex_in] = ROk [ex_out] 360 (0 + (360 - 0) / (500 - 0) * (5 - 0)) 0 /\
  r_volume ex_out = 360 /\ r_outflow ex_out = 4 /\ r_rainfallVolume ex_out = 0 /\ r_evaporationVolume ex_out = 0 /\
  release_volume ex_out = 4 * 60 /\ spill_volume ex_out = 0.
Proof. exact storage_example_run. Qed.
Print Assumptions C13_example_run.

(** REFUTED (strict reading of "over the volumes traversed"): the release curves are
    evaluated at the start volume and at the PREDICTED end volume of a sub-step, and the
    corrected step may end short of the prediction.  In the run above the reservoir goes
    from 0 to 360 m3, the maximum-release curve is 0 at every volume in [0,360], there is no
    spill, yet the reported outflow is 4 m3/s.  [C13_release_between_curves] is therefore
    stated over the evaluation volumes (ss_v0, ss_vp), not over [start, end]. *)
Theorem C13_release_within_end_volumes_refuted :
  exists tbl dt V0 x o v l a cv,
    wf_tables tbl /\ Forall2 Rle (t_minRelease tbl) (t_maxRelease tbl) /\ 0 < dt /\
    make_curves tbl = Some cv /\
    storage_water_balance tbl dt V0 [x] = ROk [o] v l a /\
    (forall u, V0 <= u <= r_volume o -> capped_piecewise cv u (t_maxRelease tbl) = Some 0) /\
    spill_volume o = 0 /\ r_outflow o = 4.
Proof. exact storage_release_within_end_volumes_refuted. Qed.
Print Assumptions C13_release_within_end_volumes_refuted.

(** The panic outcome excluded by [C13_volume_nonneg] is reachable with a well-formed table:
    a dry reservoir whose table has a non-zero area at zero volume, with evaporation and no
    inflow, makes the first trial volume negative at the 6 s floor and the Go code panics. *)
Example C13_dry_reservoir_panics :
  wf_tables dry_tbl /\ Forall2 Rle (t_minRelease dry_tbl) (t_maxRelease dry_tbl) /\
  storage_water_balance dry_tbl 6 0 [dry_in] = RPanic.
Proof. exact storage_dry_reservoir_panics. Qed.
Print Assumptions C13_dry_reservoir_panics.
