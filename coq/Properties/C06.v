(** C06 -- hot-start continuity: split runs reproduce the uninterrupted run.
    Only statements, each closed by [exact <lemma>]; the proofs are in
    KernelProofs/HotStart*.v.

    Vocabulary (KernelProofs/HotStart.v):  a kernel with its parameters applied
    is  [K : list T (states) -> list (list T) (one series per input)
             -> option (list (list T) (one series per output) * list T (final states))],
    [None] = the Go code panics.
      firsts n ins / lasts n ins   every input series cut at index n
      o1 +++ o2                    series-wise concatenation
      split_then K s0 ins n        run K on the first parts, then on the second parts FROM THE
                                   RETURNED STATE VECTOR; concatenate outputs, keep the last states
      split_at K s0 ins n          K s0 ins = split_then K s0 ins n
      split_spec K                 split_at for every s0, ins, n   (every cut, 1-step segments included)
      run_cuts K lens s0 ins       any number of consecutive segments (lengths lens, then the rest)
    All theorems hold for EVERY [Arith] instance (exact reals and binary64
    alike: they are structural facts about packing and unpacking the state)
    unless the statement names [RArith]. *)
From Coq Require Import List ZArith Reals.
From OW Require Import Base.Arith Base.RInst Base.FInst Base.Mealy.
From OW Require Import KernelProofs.HotStart KernelProofs.HotStartStateless KernelProofs.HotStartConstituent
  KernelProofs.HotStartRR KernelProofs.HotStartRouting KernelProofs.HotStartStorage KernelProofs.HotStartReal
  KernelProofs.HotStartWitness KernelProofs.HotStartSRTol KernelProofs.HotStartIndex.
From OW Require Import Kernels.Muskingum Kernels.Lag Kernels.StorageRouting Kernels.LumpedConstituent Kernels.Decay
  Kernels.InstreamFineSediment Kernels.InstreamCoarseSediment Kernels.InstreamParticulateNutrient
  Kernels.SedimentTrapping Kernels.TrapAll Kernels.DissolvedDecay Kernels.InstreamDissolvedNutrient Kernels.Storage
  Kernels.Gr4j Kernels.Simhyd Kernels.Surm Kernels.Sacramento Kernels.Coeff
  Kernels.Scale Kernels.DeliveryRatio Kernels.DepthToRate Kernels.FixedPartition Kernels.VarPartition
  Kernels.RatingPartition Kernels.Baseflow Kernels.ComputeProportion Kernels.Gate Kernels.Input
  Kernels.PartitionDemand Kernels.Sum Kernels.EmcDwc Kernels.FixedConcentration Kernels.PassLoadIfFlow
  Kernels.DissolvedNutrients Kernels.ParticulateNutrients Kernels.BankErosion Kernels.UsleFine
  Kernels.SednetGully Kernels.SednetGullyAlt Num.Calendar Num.Climate.
Import ListNotations.

(* ------------------------------------------------------------------ generic *)
(** every Mealy machine: a run over xs ++ ys is the run over xs followed by the run over ys from the state reached *)
Theorem C06_run_app : forall (S I O : Type) (step : S -> I -> S * O) s xs ys,
  run step s (xs ++ ys) = let (s1, o1) := run step s xs in let (s2, o2) := run step s1 ys in (s2, o1 ++ o2).
Proof. exact (@run_app). Qed.
Print Assumptions C06_run_app.

Theorem C06_run_segments_concat : forall (S I O : Type) (step : S -> I -> S * O) s segs,
  run_segments step s segs = run step s (concat segs).
Proof. exact (@run_segments_concat). Qed.
Print Assumptions C06_run_segments_concat.

(** a kernel that satisfies the 2-way statement satisfies it for any number of segments *)
Theorem C06_any_number_of_segments : forall (T : Type) (K : kern T),
  split_spec K -> forall lens s0 ins, run_cuts K lens s0 ins = K s0 ins.
Proof. exact (@split_spec_cuts). Qed.
Print Assumptions C06_any_number_of_segments.

(** ... and in the [xs ++ ys] reading (blocks with the same number of series, first block n long) *)
Theorem C06_split_spec_app : forall (T : Type) (K : kern T), split_spec K ->
  forall s0 xs ys n, length xs = length ys -> Forall (fun x => length x = n) xs ->
  K s0 (xs +++ ys) =
  match K s0 xs with
  | Some (o1, s1) => match K s1 ys with Some (o2, s2) => Some (o1 +++ o2, s2) | None => None end
  | None => None
  end.
Proof. exact (@split_spec_app). Qed.
Print Assumptions C06_split_spec_app.

(** side-conditioned version for the kernels below that carry one *)
Theorem C06_any_number_of_segments_when : forall (T : Type) C (K : kern T),
  split_when C K -> forall lens s0 ins, cuts_ok C K lens s0 ins -> run_cuts K lens s0 ins = K s0 ins.
Proof. exact (@split_when_cuts). Qed.
Print Assumptions C06_any_number_of_segments_when.

(** the common kernel shape (unpack / zip / run step / project / pack): the cut is exact as soon as
    the loop state survives pack-then-unpack up to what [step], [good] and [pack] can observe *)
Theorem C06_kernel_of_machine_split :
  forall (T Aux St In Out : Type) (unpack : list T -> option (Aux * St))
    (zip : list (list T) -> option (list In)) (step : Aux -> St -> In -> St * Out) (good : St -> bool)
    (pack : Aux -> St -> list T) (outs : list Out -> option (list (list T))),
  zip_laws zip -> outs_laws outs ->
  (forall aux st x, good st = false -> good (fst (step aux st x)) = false) ->
  forall sim : Aux -> St -> St -> Prop,
  (forall aux a b x, sim aux a b ->
     sim aux (fst (step aux a x)) (fst (step aux b x)) /\ snd (step aux a x) = snd (step aux b x)) ->
  (forall aux a b, sim aux a b -> good a = good b) ->
  (forall aux a b, sim aux a b -> pack aux a = pack aux b) ->
  forall Inv : Aux -> St -> Prop,
  (forall s aux st, unpack s = Some (aux, st) -> Inv aux st) ->
  (forall aux st x, Inv aux st -> Inv aux (fst (step aux st x))) ->
  (forall aux st, Inv aux st -> good st = true ->
     exists st', unpack (pack aux st) = Some (aux, st') /\ sim aux st st') ->
  split_spec (kernel_of_machine unpack zip step good pack outs).
Proof. exact (@kernel_of_machine_split). Qed.
Print Assumptions C06_kernel_of_machine_split.

(* ------------------------------------------------------------------ stateful models: full theorems *)
(** Muskingum *)
Theorem C06_muskingum_kernel : forall (T : Type) (A : Arith T) (p : list T), split_spec (muskingum_kernel p).
Proof. exact (fun T A p => proj1 (muskingum_kernel_hc p)). Qed.
Print Assumptions C06_muskingum_kernel.

(** LumpedConstituentRouting *)
Theorem C06_lumped_constituent_routing_kernel : forall (T : Type) (A : Arith T) (p : list T), split_spec (lumped_constituent_routing_kernel p).
Proof. exact (fun T A p => proj1 (lumped_constituent_routing_kernel_hc p)). Qed.
Print Assumptions C06_lumped_constituent_routing_kernel.

(** ConstituentDecay *)
Theorem C06_constituent_decay_kernel : forall (T : Type) (A : Arith T) (p : list T), split_spec (constituent_decay_kernel p).
Proof. exact (fun T A p => proj1 (constituent_decay_kernel_hc p)). Qed.
Print Assumptions C06_constituent_decay_kernel.

(** InstreamCoarseSediment *)
Theorem C06_instream_coarse_sediment_kernel : forall (T : Type) (A : Arith T) (p : list T), split_spec (instream_coarse_sediment_kernel p).
Proof. exact (fun T A p => proj1 (instream_coarse_sediment_kernel_hc p)). Qed.
Print Assumptions C06_instream_coarse_sediment_kernel.

(** InstreamParticulateNutrient *)
Theorem C06_instream_particulate_nutrient_kernel : forall (T : Type) (A : Arith T) (p : list T), split_spec (instream_particulate_nutrient_kernel p).
Proof. exact (fun T A p => proj1 (instream_particulate_nutrient_kernel_hc p)). Qed.
Print Assumptions C06_instream_particulate_nutrient_kernel.

(** StorageParticulateTrapping *)
Theorem C06_storage_particulate_trapping_kernel : forall (T : Type) (A : Arith T) (p : list T), split_spec (storage_particulate_trapping_kernel p).
Proof. exact (fun T A p => proj1 (storage_particulate_trapping_kernel_hc p)). Qed.
Print Assumptions C06_storage_particulate_trapping_kernel.

(** StorageDissolvedDecay *)
Theorem C06_storage_dissolved_decay_kernel : forall (T : Type) (A : Arith T) (p : list T), split_spec (storage_dissolved_decay_kernel p).
Proof. exact (fun T A p => proj1 (storage_dissolved_decay_kernel_hc p)). Qed.
Print Assumptions C06_storage_dissolved_decay_kernel.

(** Simhyd *)
Theorem C06_simhyd_kernel : forall (T : Type) (A : Arith T) (p : list T), split_spec (simhyd_kernel p).
Proof. exact (fun T A p => proj1 (simhyd_kernel_hc p)). Qed.
Print Assumptions C06_simhyd_kernel.

(** Surm *)
Theorem C06_surm_kernel : forall (T : Type) (A : Arith T) (p : list T), split_spec (surm_kernel p).
Proof. exact (fun T A p => proj1 (surm_kernel_hc p)). Qed.
Print Assumptions C06_surm_kernel.

(** Lag (index loops over the whole series, variable-length state vector) *)
Theorem C06_lag_kernel : forall (T : Type) (A : Arith T) (p : list T), split_spec (lag_kernel p).
Proof. exact (@lag_kernel_split). Qed.
Print Assumptions C06_lag_kernel.

(** a state vector shorter than the lag is a Go panic, for every series (so in whole and split runs alike) *)
Theorem C06_lag_short_state_panics : forall (T : Type) (A : Arith T) (L : nat) (inflow lagged : list T),
  length lagged < L -> lag_body L inflow lagged = None.
Proof. exact (@lag_body_short). Qed.
Print Assumptions C06_lag_short_state_panics.

(* ------------------------------------------------------------------ GR4J *)
(** the unit-hydrograph lengths n1, n2 travel through the state vector as floats: exact when their
    int -> float -> int round trip is the identity *)
Theorem C06_gr4j_kernel_gen : forall (T : Type) (A : Arith T) (p s0 : list T) ins n,
  (forall s r fn1 fn2 rest, s0 = s :: r :: fn1 :: fn2 :: rest ->
     truncZ (of_Z (truncZ fn1)) = truncZ fn1 /\ truncZ (of_Z (truncZ fn2)) = truncZ fn2) ->
  split_at (gr4j_kernel p) s0 ins n.
Proof. exact (@gr4j_kernel_split_gen). Qed.
Print Assumptions C06_gr4j_kernel_gen.

Theorem C06_gr4j_kernel_R : forall p : list R, split_spec (gr4j_kernel (A := RArith) p).
Proof. exact gr4j_kernel_split_R. Qed.

Example C06_gr4j_float_roundtrip :
  forallb (fun z => Z.eqb (f_truncZ (f_of_Z z)) z) (map Z.of_nat (seq 1 64)) = true.
Proof. exact gr4j_float_roundtrip. Qed.

(* ------------------------------------------------------------------ InstreamFineSediment *)
(** bankFullFlow <= 1e-8 (LumpedConstituentTransport): full *)
Theorem C06_instream_fine_sediment_lowbank : forall (T : Type) (A : Arith T) (p : list T) fp,
  fine_params_of p = Some fp -> leb (fp_bankFullFlow fp) FS_BANKFULL_EPS = true ->
  split_spec (instream_fine_sediment_kernel p).
Proof. exact (@instream_fine_sediment_lowbank_split). Qed.
Print Assumptions C06_instream_fine_sediment_lowbank.

(** otherwise: exact whenever the channel store returned at the cut is not negative (a negative
    channelStoreFine state is decoded as a fraction of the maximum storage by the next call) *)
Theorem C06_instream_fine_sediment_split_partial : forall (T : Type) (A : Arith T) (p s0 : list T) ins n,
  (forall o1 c1 m1, instream_fine_sediment_kernel p s0 (firsts n ins) = Some (o1, [c1; m1]) ->
                    ltb c1 zero = false) ->
  split_at (instream_fine_sediment_kernel p) s0 ins n.
Proof. exact (@instream_fine_sediment_kernel_split_partial). Qed.
Print Assumptions C06_instream_fine_sediment_split_partial.

(** ... which over the reals always holds when the maximum channel storage is >= 0 *)
Theorem C06_instream_fine_sediment_R : forall (p : list R) fp,
  fine_params_of p = Some fp -> (0 <= fine_maxStorage fp)%R ->
  split_spec (instream_fine_sediment_kernel (A := RArith) p).
Proof. exact instream_fine_sediment_kernel_split_R. Qed.

(* ------------------------------------------------------------------ StorageTrapAll *)
(** every cut, empty segments included (since fix b73cc97 an empty series carries the stored mass
    unchanged); the restarted run adds the returned stored mass 0 to its first input: exact when x + 0 = x *)
Theorem C06_storage_trap_all_split_partial : forall (T : Type) (A : Arith T) (p s0 : list T) ins n,
  (forall x : T, add x zero = x) ->
  split_at (storage_trap_all_kernel p) s0 ins n.
Proof. exact (@storage_trap_all_kernel_split_partial). Qed.
Print Assumptions C06_storage_trap_all_split_partial.

Theorem C06_storage_trap_all_R : forall (p s0 : list R) ins n,
  split_at (storage_trap_all_kernel (A := RArith) p) s0 ins n.
Proof. exact storage_trap_all_kernel_split_R. Qed.

(** binary64: (-0.0) + 0.0 = +0.0 *)
Theorem C06_storage_trap_all_float_refuted :
  exists (A : Arith PrimFloat.float) p s0 ins n, ~ split_at (storage_trap_all_kernel (A := A) p) s0 ins n.
Proof. exact storage_trap_all_kernel_split_float_refuted. Qed.
Print Assumptions C06_storage_trap_all_float_refuted.

(* ------------------------------------------------------------------ InstreamDissolvedNutrientDecay *)
(** decay OFF (LumpedConstituentTransport): every cut, empty segments included (fix b73cc97) *)
Theorem C06_instream_dissolved_nutrient_nodecay_split_partial :
  forall (T : Type) (A : Arith T) (p s0 : list T) ins n doDecay psl dp,
  dn_params_of p = Some (doDecay, psl, dp) -> ltb doDecay (of_q 1 2) = true ->
  split_at (instream_dissolved_nutrient_decay_kernel p) s0 ins n.
Proof. exact (@instream_dissolved_nutrient_nodecay_split_partial). Qed.
Print Assumptions C06_instream_dissolved_nutrient_nodecay_split_partial.

(** decay ON: the previous reach volume is a local, not a state (known finding D12) *)
Theorem C06_instream_dissolved_nutrient_decay_split_refuted :
  exists (A : Arith PrimFloat.float) p s0 ins n,
    ~ split_at (instream_dissolved_nutrient_decay_kernel (A := A) p) s0 ins n.
Proof. exact instream_dissolved_nutrient_decay_kernel_split_refuted. Qed.
Print Assumptions C06_instream_dissolved_nutrient_decay_split_refuted.

(** the same refutation in exact real arithmetic (doDecay = 1, a 1000 km reach, volumes 1e6 then 4e6 m3) *)
Theorem C06_instream_dissolved_nutrient_decay_split_refuted_R :
  exists p s0 ins n, ~ split_at (instream_dissolved_nutrient_decay_kernel (A := RArith) p) s0 ins n.
Proof. exact instream_dissolved_nutrient_decay_kernel_split_refuted_R. Qed.

(* ------------------------------------------------------------------ Sacramento *)
(** the unit-hydrograph buffer qq is a local, not a state (known finding D7) *)
Theorem C06_sacramento_split_refuted :
  exists (A : Arith PrimFloat.float) p s0 ins n, ~ split_at (sacramento_kernel (A := A) p) s0 ins n.
Proof. exact sacramento_kernel_split_refuted. Qed.
Print Assumptions C06_sacramento_split_refuted.

(** what does hold: with a single unit-hydrograph ordinate the buffer is never read with a non-zero weight *)
Theorem C06_sacramento_split_partial : forall (ps : list R) p,
  sac_par_of ps = Some p ->
  (uh2 p = 0 /\ uh3 p = 0 /\ uh4 p = 0 /\ uh5 p = 0)%R -> uh1 p <> 0%R -> (1 + side p <> 0)%R ->
  split_spec (sacramento_kernel (A := RArith) ps).
Proof. exact sacramento_kernel_split_partial. Qed.

(* ------------------------------------------------------------------ StorageRouting *)
(** the carried index-flow guess qi is not a state: equality only within the solver tolerance *)
Theorem C06_storage_routing_split_refuted :
  exists (A : Arith PrimFloat.float) p s0 ins n, ~ split_at (storage_routing_kernel (A := A) p) s0 ins n.
Proof. exact storage_routing_kernel_split_refuted. Qed.
Print Assumptions C06_storage_routing_split_refuted.

(** exact when the first step after the cut cannot tell the carried guess from zero *)
Theorem C06_storage_routing_split_partial : forall (T : Type) (A : Arith T) (p s0 : list T) ins n,
  (forall pr s pin pout rest a b c d tl s1,
     sr_params_of p = Some pr -> s0 = s :: pin :: pout :: rest -> ins = a :: b :: c :: d :: tl ->
     fst (sr_run pr (sr_init s pin pout) (firstn n (zip4 a b c d))) = Some s1 ->
     sr_cut_insensitive pr s1 (skipn n (zip4 a b c d))) ->
  split_at (storage_routing_kernel p) s0 ins n.
Proof. exact (@storage_routing_kernel_split_partial). Qed.
Print Assumptions C06_storage_routing_split_partial.

(** in particular when that step leaves calcOutflow through one of the exit paths 1-4 (no water for any
    outflow / zero index flow / fluxes exceed storage / maximum index flow) in the uninterrupted run *)
Theorem C06_storage_routing_split_early_exit : forall (T : Type) (A : Arith T) (p s0 : list T) ins n,
  (forall pr s pin pout rest a b c d tl s1 x r,
     sr_params_of p = Some pr -> s0 = s :: pin :: pout :: rest -> ins = a :: b :: c :: d :: tl ->
     fst (sr_run pr (sr_init s pin pout) (firstn n (zip4 a b c d))) = Some s1 ->
     skipn n (zip4 a b c d) = x :: r ->
     match sr_step pr s1 x with Some (_, (_, _, path)) => path <= 4 | None => False end) ->
  split_at (storage_routing_kernel p) s0 ins n.
Proof. exact (@storage_routing_kernel_split_early_exit). Qed.
Print Assumptions C06_storage_routing_split_early_exit.

(** "within the solver's own mass-balance tolerance", over the reals: at the first step after a cut of a
    zero-bias reach (S = k q^m + dead, k >= 0, 0 < m <= 1), the restarted run (guess 0) and the uninterrupted
    run (carried guess) end the step with storages and outflow volumes less than 2 * massBalanceLimit = 2e-3 m3
    apart, unless the solver left unconverged (exit path 7).  (Later steps: tested, 2e-3 m3 per cut.) *)
Theorem C06_storage_routing_split_within_tol :
  forall bias k m area dead dt (s1 : sr_state (T := R)) x s2 out sto path s2' out' sto' path',
  (Rabs bias < 1 / 1000)%R -> (0 <= k)%R -> (0 < m <= 1)%R -> (0 < dt)%R ->
  let p := sr_setup (A := RArith) bias k m area dead dt in
  sr_step p s1 x = Some (s2, (out, sto, path)) ->
  sr_step p (sr_forget_qi s1) x = Some (s2', (out', sto', path')) ->
  path <> 7%nat -> path' <> 7%nat ->
  (Rabs (sto - sto') < 2 * (1 / 1000) /\ Rabs (out - out') * dt < 2 * (1 / 1000))%R.
Proof. exact storage_routing_split_within_tol. Qed.

(** the same for any parameters for which the storage-discharge relation S(q) is non-decreasing *)
Theorem C06_storage_routing_cut_step_within_tol :
  forall (p : sr_params (T := R)) i l S rate, (0 < p_dt p)%R ->
  (forall a b, (a <= b)%R -> (s_index p a <= s_index p b)%R) ->
  forall pq pq' qi out sto path qi' out' sto' path',
  calc_outflow p i l pq S rate = Some (qi, out, sto, path) ->
  calc_outflow p i l pq' S rate = Some (qi', out', sto', path') ->
  path <> 7%nat -> path' <> 7%nat ->
  (Rabs (sto - sto') < 2 * (1 / 1000) /\ Rabs (out - out') * p_dt p < 2 * (1 / 1000))%R.
Proof. exact sr_cut_step_within_tol. Qed.

(* ------------------------------------------------------------------ Storage *)
(** level and area are recomputed from the volume by every call: exact whenever the first segment
    returns (its time steps and the level/area lookup at the cut volume do not panic) *)
Theorem C06_storage_split_partial : forall (T : Type) (A : Arith T) (p s0 : list T) ins n,
  storage_kernel p s0 (firsts n ins) <> None -> split_at (storage_kernel p) s0 ins n.
Proof. exact (@storage_kernel_split_partial). Qed.
Print Assumptions C06_storage_split_partial.

(* ------------------------------------------------------------------ models without states *)
(** (outside the property's quantifier; they hand the state vector back as given) *)
Theorem C06_apply_scaling_factor_kernel : forall (T : Type) (A : Arith T) (p : list T), split_spec (apply_scaling_factor_kernel p).
Proof. exact (fun T A p => proj1 (apply_scaling_factor_kernel_hc p)). Qed.
Theorem C06_delivery_ratio_kernel : forall (T : Type) (A : Arith T) (p : list T), split_spec (delivery_ratio_kernel p).
Proof. exact (fun T A p => proj1 (delivery_ratio_kernel_hc p)). Qed.
Theorem C06_depth_to_rate_kernel : forall (T : Type) (A : Arith T) (p : list T), split_spec (depth_to_rate_kernel p).
Proof. exact (fun T A p => proj1 (depth_to_rate_kernel_hc p)). Qed.
Theorem C06_fixed_partition_kernel : forall (T : Type) (A : Arith T) (p : list T), split_spec (fixed_partition_kernel p).
Proof. exact (fun T A p => proj1 (fixed_partition_kernel_hc p)). Qed.
Theorem C06_variable_partition_kernel : forall (T : Type) (A : Arith T) (p : list T), split_spec (variable_partition_kernel p).
Proof. exact (fun T A p => proj1 (variable_partition_kernel_hc p)). Qed.
Theorem C06_rating_curve_partition_kernel : forall (T : Type) (A : Arith T) (p : list T), split_spec (rating_curve_partition_kernel p).
Proof. exact (fun T A p => proj1 (rating_curve_partition_kernel_hc p)). Qed.
Theorem C06_baseflow_filter_kernel : forall (T : Type) (A : Arith T) (p : list T), split_spec (baseflow_filter_kernel p).
Proof. exact (fun T A p => proj1 (baseflow_filter_kernel_hc p)). Qed.
Theorem C06_compute_proportion_kernel : forall (T : Type) (A : Arith T) (p : list T), split_spec (compute_proportion_kernel p).
Proof. exact (fun T A p => proj1 (compute_proportion_kernel_hc p)). Qed.
Theorem C06_gate_kernel : forall (T : Type) (A : Arith T) (p : list T), split_spec (gate_kernel p).
Proof. exact (fun T A p => proj1 (gate_kernel_hc p)). Qed.
Theorem C06_input_kernel : forall (T : Type) (A : Arith T) (p : list T), split_spec (input_kernel p).
Proof. exact (fun T A p => proj1 (input_kernel_hc p)). Qed.
Theorem C06_partition_demand_kernel : forall (T : Type) (A : Arith T) (p : list T), split_spec (partition_demand_kernel p).
Proof. exact (fun T A p => proj1 (partition_demand_kernel_hc p)). Qed.
Theorem C06_sum_kernel : forall (T : Type) (A : Arith T) (p : list T), split_spec (sum_kernel p).
Proof. exact (fun T A p => proj1 (sum_kernel_hc p)). Qed.
Theorem C06_emc_dwc_kernel : forall (T : Type) (A : Arith T) (p : list T), split_spec (emc_dwc_kernel p).
Proof. exact (fun T A p => proj1 (emc_dwc_kernel_hc p)). Qed.
Theorem C06_fixed_concentration_kernel : forall (T : Type) (A : Arith T) (p : list T), split_spec (fixed_concentration_kernel p).
Proof. exact (fun T A p => proj1 (fixed_concentration_kernel_hc p)). Qed.
Theorem C06_pass_load_if_flow_kernel : forall (T : Type) (A : Arith T) (p : list T), split_spec (pass_load_if_flow_kernel p).
Proof. exact (fun T A p => proj1 (pass_load_if_flow_kernel_hc p)). Qed.
Theorem C06_dissolved_nutrients_kernel : forall (T : Type) (A : Arith T) (p : list T), split_spec (dissolved_nutrients_kernel p).
Proof. exact (fun T A p => proj1 (dissolved_nutrients_kernel_hc p)). Qed.
Theorem C06_particulate_nutrients_kernel : forall (T : Type) (A : Arith T) (p : list T), split_spec (particulate_nutrients_kernel p).
Proof. exact (fun T A p => proj1 (particulate_nutrients_kernel_hc p)). Qed.
Theorem C06_bank_erosion_kernel : forall (T : Type) (A : Arith T) (p : list T), split_spec (bank_erosion_kernel p).
Proof. exact (fun T A p => proj1 (bank_erosion_kernel_hc p)). Qed.
Theorem C06_usle_fine_kernel : forall (T : Type) (A : Arith T) (p : list T), split_spec (usle_fine_kernel p).
Proof. exact (fun T A p => proj1 (usle_fine_kernel_hc p)). Qed.
Theorem C06_dynamic_sednet_gully_kernel : forall (T : Type) (A : Arith T) (p : list T), split_spec (dynamic_sednet_gully_kernel p).
Proof. exact (fun T A p => proj1 (dynamic_sednet_gully_kernel_hc p)). Qed.
Theorem C06_dynamic_sednet_gully_alt_kernel : forall (T : Type) (A : Arith T) (p : list T), split_spec (dynamic_sednet_gully_alt_kernel p).
Proof. exact (fun T A p => proj1 (dynamic_sednet_gully_alt_kernel_hc p)). Qed.
Theorem C06_climate_variables_kernel : forall (T : Type) (A : Arith T) (p : list T), split_spec (climate_variables_kernel p).
Proof. exact (fun T A p => proj1 (climate_variables_kernel_hc p)). Qed.
Theorem C06_runoff_coefficient_kernel : forall (T : Type) (A : Arith T) (p : list T), split_spec (runoff_coefficient_kernel p).
Proof. exact (fun T A p => proj1 (runoff_coefficient_kernel_hc p)). Qed.

(** observation: DateGenerator has no state, so a second call starts at the start-date parameters again *)
Theorem C06_date_generator_split_refuted :
  exists p s0 ins n, ~ split_at (date_generator_kernel (A := RArith) p) s0 ins n.
Proof. exact date_generator_kernel_split_refuted. Qed.

(* ------------------------------------------------------------------ the real-number statements: assumptions *)
Definition C06_real_number_statements :=
  (C06_gr4j_kernel_R, C06_instream_fine_sediment_R, C06_storage_trap_all_R, C06_sacramento_split_partial,
   C06_date_generator_split_refuted, C06_storage_routing_split_within_tol, C06_storage_routing_cut_step_within_tol,
   C06_instream_dissolved_nutrient_decay_split_refuted_R).
Print Assumptions C06_real_number_statements.
Definition C06_stateless_statements := (@C06_apply_scaling_factor_kernel, @C06_delivery_ratio_kernel, @C06_depth_to_rate_kernel, @C06_fixed_partition_kernel, @C06_variable_partition_kernel, @C06_rating_curve_partition_kernel, @C06_baseflow_filter_kernel, @C06_compute_proportion_kernel, @C06_gate_kernel, @C06_partition_demand_kernel, @C06_sum_kernel, @C06_emc_dwc_kernel, @C06_fixed_concentration_kernel, @C06_pass_load_if_flow_kernel, @C06_dissolved_nutrients_kernel, @C06_particulate_nutrients_kernel, @C06_bank_erosion_kernel, @C06_usle_fine_kernel, @C06_dynamic_sednet_gully_kernel, @C06_dynamic_sednet_gully_alt_kernel, @C06_climate_variables_kernel, @C06_runoff_coefficient_kernel).
Print Assumptions C06_stateless_statements.

(* ------------------------------------------------------------------ non-vacuity *)
From Coq Require Import Floats.
Example C06_muskingum_split_example :
  let K := muskingum_kernel (A := SA) [43200; 0x1.999999999999ap-3; 86400]%float in
  let ins := [[1; 2; 3; 4]; [0; 0; 1; 0]]%float in
  exists o s, K [0; 1; 2]%float ins = Some (o, s) /\ length (nth 0 o []) = 4%nat /\
              split_then K [0; 1; 2]%float ins 2 = Some (o, s) /\
              run_cuts K [1; 1; 1]%nat [0; 1; 2]%float ins = Some (o, s).
Proof. exact muskingum_split_example. Qed.

Example C06_lag_split_example :
  let K := lag_kernel (A := SA) [2%float] in
  exists o s, K [7; 8]%float [[1; 2; 3; 4; 5]%float] = Some (o, s) /\ o = [[7; 8; 1; 2; 3]%float] /\ s = [4; 5]%float /\
              split_then K [7; 8]%float [[1; 2; 3; 4; 5]%float] 1 = Some (o, s).
Proof. exact lag_split_example. Qed.

(** the StorageRouting witness: whole and restarted run differ, but by less than the solver tolerance *)
Example C06_storage_routing_witness_within_tolerance :
  let w := storage_routing_kernel (A := SA) sr_witness_p [0; 0; 0]%float sr_witness_ins in
  let s := split_then (storage_routing_kernel (A := SA) sr_witness_p) [0; 0; 0]%float sr_witness_ins 35 in
  forallb (fun t => (PrimFloat.ltb (PrimFloat.abs (out_at 1 t w - out_at 1 t s)) 0x1.0624dd2f1a9fcp-10 &&
                     PrimFloat.ltb (PrimFloat.abs (out_at 0 t w - out_at 0 t s) * 86400) 0x1.0624dd2f1a9fcp-10)%float%bool)
          (seq 0 40) = true.
Proof. exact storage_routing_witness_within_tolerance. Qed.
