(** C16 — partition, conversion and generation models satisfy their algebraic
    identities.  Only statements, each closed by [exact <lemma>]; the proofs are in
    KernelProofs/{Conversion,RatingPartition,Functions,Generation,BankErosion,Usle,Gully}Proofs.v
    and KernelProofs/UnitsTie.v.  All statements are over the real instance
    [RArith] of the kernels in Kernels/*.v (the same Gallina terms that are run in
    binary64 against the Go code).  [kernel params states inputs = Some (outputs,
    states)]; [None] = the Go code panics.  Series are lists; [zipw f a b] combines
    two series pointwise. *)
From Coq Require Import ZArith QArith Qreals List Reals Sorted.
From OW Require Import Base.Arith Base.RInst Kernels.C16Common Kernels.UnitConsts
  Kernels.Scale Kernels.DeliveryRatio Kernels.DepthToRate Kernels.FixedPartition Kernels.VarPartition
  Kernels.RatingPartition Kernels.Input Kernels.Sum Kernels.Gate Kernels.PartitionDemand
  Kernels.ComputeProportion Kernels.Baseflow Kernels.EmcDwc Kernels.FixedConcentration Kernels.PassLoadIfFlow
  Kernels.DissolvedNutrients Kernels.ParticulateNutrients Kernels.BankErosion Kernels.UsleFine
  Kernels.SednetGully Kernels.SednetGullyAlt
  KernelProofs.C16Lib KernelProofs.ConversionProofs KernelProofs.RatingPartitionProofs KernelProofs.FunctionsProofs
  KernelProofs.GenerationProofs KernelProofs.BankErosionProofs KernelProofs.UsleProofs KernelProofs.GullyProofs
  KernelProofs.UnitsTie.
From OW Require Gen.Units.
Import ListNotations.
Local Open Scope R_scope.

(** * 1. Partitions split without loss *)

(** FixedPartition: for every fraction (also outside [0,1]) and every input series of any
    length the two outputs sum to the input, and output1 = input x fraction. *)
Theorem C16_fixed_partition_sum : forall (fraction : R) (input st : list R),
  exists o1 o2, fixed_partition_kernel [fraction] st [input] = Some ([o1; o2], st)
    /\ zipw Rplus o1 o2 = input
    /\ o1 = map (fun x => x * fraction) input.
Proof. exact fixed_partition_sum. Qed.
Print Assumptions C16_fixed_partition_sum.

Theorem C16_variable_partition_sum : forall (input fraction st : list R),
  length input = length fraction ->
  exists o1 o2, variable_partition_kernel [] st [input; fraction] = Some ([o1; o2], st)
    /\ zipw Rplus o1 o2 = input
    /\ o1 = zipw Rmult input fraction.
Proof. exact variable_partition_sum. Qed.

(** RatingCurvePartition, any parameter column (any table size, sorted or not) and any input:
    whenever the Go code returns, the outputs sum to the input. *)
Theorem C16_rating_partition_sum : forall (params st st' input o1 o2 : list R),
  rating_curve_partition_kernel params st [input] = Some ([o1; o2], st') ->
  zipw Rplus o1 o2 = input.
Proof. exact rating_curve_partition_sum. Qed.
Print Assumptions C16_rating_partition_sum.

(** ... and it does return for every input within the end points of a strictly increasing
    table of n >= 2 points (column layout of the generated wrapper: nPts, inputAmount[n], proportion[n]) *)
Theorem C16_rating_partition_defined_inside : forall (nPts x0 : R) (xr : list R) (y0 : R) (yr input st : list R),
  xr <> [] -> length xr = length yr -> Sorted Rlt (x0 :: xr) ->
  truncZ nPts = Z.of_nat (S (length xr)) ->
  Forall (fun x => x0 <= x <= last xr x0) input ->
  exists o1 o2,
    rating_curve_partition_kernel (nPts :: (x0 :: xr) ++ (y0 :: yr)) st [input] = Some ([o1; o2], st)
    /\ zipw Rplus o1 o2 = input.
Proof. exact rating_curve_partition_defined. Qed.

(** the interpolated fraction lies between two of the table's proportions *)
Theorem C16_rating_fraction_between : forall (x0 : R) (xr : list R) (y0 : R) (yr : list R) (x : R),
  xr <> [] -> length xr = length yr -> Sorted Rlt (x0 :: xr) ->
  x0 <= x <= last xr x0 ->
  exists ya yb f, rc_piecewise x (x0 :: xr) (y0 :: yr) = Some f
    /\ In ya (y0 :: yr) /\ In yb (y0 :: yr) /\ Rmin ya yb <= f <= Rmax ya yb.
Proof. exact rc_piecewise_inside. Qed.

(** outside the end points the partition is not defined: the Go code panics *)
Theorem C16_rating_partition_panics_outside : forall (x0 : R) (xr : list R) (y0 : R) (yr input : list R),
  Exists (fun x => x < x0 \/ last (x0 :: xr) x0 < x) input ->
  rating_partition (x0 :: xr) (y0 :: yr) input = None.
Proof. exact rating_partition_panics_outside. Qed.

Example C16_rating_partition_nonvacuous : exists o1 o2,
  rating_curve_partition_kernel [2; 0; 10; 2/10; 8/10] [] [[0; 5; 10]] = Some ([o1; o2], [])
  /\ zipw Rplus o1 o2 = [0; 5; 10].
Proof. exact rating_curve_partition_example. Qed.

(** PartitionDemand, all inputs and demands (zero, negative demand, demand > availability) *)
Theorem C16_partition_demand : forall (input demand st : list R),
  length input = length demand ->
  exists outflow extraction,
    partition_demand_kernel [] st [input; demand] = Some ([outflow; extraction], st)
    /\ zipw Rplus outflow extraction = input
    /\ Forall2 Rle extraction demand
    /\ Forall2 Rle extraction input
    /\ Forall (fun o => 0 <= o) outflow.
Proof. exact partition_demand_sum. Qed.
Print Assumptions C16_partition_demand.

Example C16_partition_demand_negative_demand :
  partition_demand_kernel [] [] [[5; 3; 0]; [-2; 7; 1]] = Some ([[7; 0; 0]; [-2; 3; 0]], []).
Proof. exact partition_demand_negative_demand. Qed.

(** * 2. Identity, sum, mask and linear maps with the documented unit factors *)

Theorem C16_input_id : forall (input st : list R), input_kernel [] st [input] = Some ([input], st).
Proof. exact input_id. Qed.

Theorem C16_sum_is_sum : forall (i1 i2 st : list R), sum_kernel [] st [i1; i2] = Some ([zipw Rplus i1 i2], st).
Proof. exact sum_is_sum. Qed.

Theorem C16_gate_is_mask : forall (trigger incoming st : list R),
  gate_kernel [] st [trigger; incoming] = Some ([zipw gate_mask trigger incoming], st).
Proof. exact gate_is_mask. Qed.

Theorem C16_gate_mask_meaning : forall t i : R, (0 < t -> gate_mask t i = i) /\ (t <= 0 -> gate_mask t i = 0).
Proof. exact gate_mask_spec. Qed.

Theorem C16_scaling_linear : forall (scale : R) (input st : list R),
  apply_scaling_factor_kernel [scale] st [input] = Some ([map (fun x => x * scale) input], st).
Proof. exact scaling_linear. Qed.

Theorem C16_delivery_ratio_linear : forall (fraction : R) (input st : list R),
  delivery_ratio_kernel [fraction] st [input] = Some ([map (fun x => x * fraction) input], st).
Proof. exact delivery_ratio_linear. Qed.

Theorem C16_scaling_superposition : forall (scale a b : R) (xs ys : list R),
  apply_scaling scale (zipw (fun x y => a * x + b * y) xs ys) =
  zipw (fun x y => a * x + b * y) (apply_scaling scale xs) (apply_scaling scale ys).
Proof. exact scaling_superposition. Qed.

(** DepthToRate: mm per time step -> m3/s : x (mm->m = 1/1000) x area / DeltaT *)
Theorem C16_depth_to_rate_factor : forall (deltaT area : R) (input st : list R),
  deltaT <> 0 ->
  depth_to_rate_kernel [deltaT; area] st [input] =
  Some ([map (fun x => x * (1 / 1000) * area / deltaT) input], st).
Proof. exact depth_to_rate_factor. Qed.

Theorem C16_pass_load_if_flow : forall (k : R) (flow inputLoad st : list R),
  pass_load_if_flow_kernel [k] st [flow; inputLoad] = Some ([zipw (pass_mask k) flow inputLoad], st).
Proof. exact pass_load_if_flow_spec. Qed.

Theorem C16_pass_mask_meaning : forall k f l : R,
  (f <= 0 -> pass_mask k f l = 0) /\ (1 / 100000000 < f -> pass_mask k f l = l * k).
Proof. exact pass_mask_spec. Qed.

Theorem C16_compute_proportion : forall (r : R) (numerator denominator st : list R),
  compute_proportion_kernel [r] st [numerator; denominator] =
  Some ([zipw (fun n d => if Req_EM_T d 0 then r else n / d) numerator denominator], st).
Proof. exact compute_proportion_spec. Qed.

(** BaseflowFilter is an empty loop in the Go source: both outputs stay zero (it is not one of
    the partitions of the property; recorded for the model's sake) *)
Theorem C16_baseflow_filter_is_a_stub : forall (streamflow st : list R),
  baseflow_filter_kernel [] st [streamflow] = Some ([map (fun _ => 0) streamflow; map (fun _ => 0) streamflow], st).
Proof. exact baseflow_filter_outputs_untouched. Qed.

(** the unit factors of the kernels are the constants of /repo/conv/units, /repo/conv/rough
    (Gen/Units.v is regenerated from the Go source on every run of the check) *)
Theorem C16_unit_constants_match_source :
  (qp q_MG_PER_LITRE_TO_KG_PER_M3 == Units.MG_PER_LITRE_TO_KG_PER_M3
   /\ qp q_MILLIGRAM_TO_KG == Units.MILLIGRAM_TO_KG
   /\ qp q_KG_TO_MILLIGRAM == Units.KG_TO_MILLIGRAM
   /\ qp q_TONNES_TO_KG == Units.TONNES_TO_KG
   /\ qp q_MILLIMETRES_TO_METRES == Units.MILLIMETRES_TO_METRES
   /\ qp q_METRES_TO_MILLIMETRES == Units.METRES_TO_MILLIMETRES
   /\ qp q_PERCENT_TO_PROPORTION == Units.PERCENT_TO_PROPORTION
   /\ qp q_SECONDS_PER_DAY == Units.SECONDS_PER_DAY
   /\ qp q_CUBIC_METRES_TO_LITRES == Units.CUBIC_METRES_TO_LITRES
   /\ qp q_MEGA_LITRES_TO_LITRES == Units.MEGA_LITRES_TO_LITRES
   /\ qp q_SQUARE_METRES_TO_HECTARES == Units.SQUARE_METRES_TO_HECTARES
   /\ qp q_CUMECS_TO_ML_PER_DAY == Units.CUBIC_METRES_PER_SECOND_TO_MEGA_LITRES_PER_DAY
   /\ qp q_DAYS_PER_YEAR == Units.DAYS_PER_YEAR
   /\ qp q_EFFECTIVELY_ZERO == Units.pass_load_if_flow__EFFECTIVELY_ZERO
   /\ qp q_CUMECS_TO_LITRES_PER_DAY == Units.SECONDS_PER_DAY * Units.CUBIC_METRES_TO_LITRES
   /\ (100 # 36525) == / Units.DAYS_PER_YEAR)%Q.
Proof. exact unit_constants_match_source. Qed.
Print Assumptions C16_unit_constants_match_source.

Theorem C16_unit_factors_documented :
  Q2R Units.MG_PER_LITRE_TO_KG_PER_M3 = 1 / 1000
  /\ Q2R Units.CUBIC_METRES_PER_SECOND_TO_MEGA_LITRES_PER_DAY = 864 / 10
  /\ Q2R Units.MILLIMETRES_TO_METRES = 1 / 1000
  /\ Q2R Units.PERCENT_TO_PROPORTION = 1 / 100
  /\ Q2R Units.SECONDS_PER_DAY = 86400
  /\ Q2R Units.TONNES_TO_KG = 1000
  /\ Q2R Units.DAYS_PER_YEAR = 36525 / 100
  /\ Q2R Units.KG_TO_TONNES = 1 / 1000
  /\ Q2R Units.KG_TO_MILLIGRAM = 1000000
  /\ Q2R Units.MILLIGRAM_TO_KG = 1 / 1000000
  /\ Q2R Units.LITRES_TO_CUBIC_METRES = 1 / 1000
  /\ Q2R Units.CUBIC_METRES_TO_LITRES = 1000
  /\ Q2R Units.MEGA_LITRES_TO_LITRES = 1000000
  /\ Q2R Units.METRES_TO_MILLIMETRES = 1000
  /\ Q2R Units.PROPORTION_TO_PERCENT = 100
  /\ Q2R Units.SQUARE_METRES_TO_HECTARES = 1 / 10000
  /\ Q2R Units.pass_load_if_flow__EFFECTIVELY_ZERO = 1 / 100000000.
Proof. exact unit_factors_documented. Qed.

Theorem C16_unit_factors_real :
  u_MG_PER_LITRE_TO_KG_PER_M3 (A := RArith) = Q2R Units.MG_PER_LITRE_TO_KG_PER_M3
  /\ u_MILLIGRAM_TO_KG (A := RArith) = Q2R Units.MILLIGRAM_TO_KG
  /\ u_KG_TO_MILLIGRAM (A := RArith) = Q2R Units.KG_TO_MILLIGRAM
  /\ u_TONNES_TO_KG (A := RArith) = Q2R Units.TONNES_TO_KG
  /\ u_MILLIMETRES_TO_METRES (A := RArith) = Q2R Units.MILLIMETRES_TO_METRES
  /\ u_METRES_TO_MILLIMETRES (A := RArith) = Q2R Units.METRES_TO_MILLIMETRES
  /\ u_PERCENT_TO_PROPORTION (A := RArith) = Q2R Units.PERCENT_TO_PROPORTION
  /\ u_SECONDS_PER_DAY (A := RArith) = Q2R Units.SECONDS_PER_DAY
  /\ u_CUBIC_METRES_TO_LITRES (A := RArith) = Q2R Units.CUBIC_METRES_TO_LITRES
  /\ u_MEGA_LITRES_TO_LITRES (A := RArith) = Q2R Units.MEGA_LITRES_TO_LITRES
  /\ u_SQUARE_METRES_TO_HECTARES (A := RArith) = Q2R Units.SQUARE_METRES_TO_HECTARES
  /\ u_CUMECS_TO_ML_PER_DAY (A := RArith) = Q2R Units.CUBIC_METRES_PER_SECOND_TO_MEGA_LITRES_PER_DAY
  /\ u_DAYS_PER_YEAR (A := RArith) = Q2R Units.DAYS_PER_YEAR
  /\ u_EFFECTIVELY_ZERO (A := RArith) = Q2R Units.pass_load_if_flow__EFFECTIVELY_ZERO
  /\ u_CUMECS_TO_LITRES_PER_DAY (A := RArith) = Q2R Units.SECONDS_PER_DAY * Q2R Units.CUBIC_METRES_TO_LITRES.
Proof. exact unit_factors_real. Qed.

(** * 3. Generation models *)

(** [conc_load c q = q * c * (1/1000)] : load of flow q [m3/s] at concentration c [mg/L], in kg/s *)
Theorem C16_conc_load_is_linear : forall c d q r a b : R,
  conc_load c (a * q + b * r) = a * conc_load c q + b * conc_load c r
  /\ conc_load (a * c + b * d) q = a * conc_load c q + b * conc_load d q
  /\ conc_load c q = q * c * (1 / 1000).
Proof. exact conc_load_is_linear. Qed.

(** every series of concentration loads is zero where its driver is zero and non-negative where
    its drivers are *)
Theorem C16_conc_load_zero_nonneg : forall (c : R) (flow : list R),
  Forall2 (fun q l => (q = 0 \/ c = 0 -> l = 0) /\ (0 <= q -> 0 <= c -> 0 <= l)) flow (map (conc_load c) flow).
Proof. exact conc_load_series_zero_nonneg. Qed.

Theorem C16_emc_dwc_total : forall (emc dwc : R) (quickflow baseflow st : list R),
  length quickflow = length baseflow ->
  exists quick slow total,
    emc_dwc_kernel [emc; dwc] st [quickflow; baseflow] = Some ([quick; slow; total], st)
    /\ total = zipw Rplus quick slow
    /\ quick = map (conc_load emc) quickflow
    /\ slow = map (conc_load dwc) baseflow.
Proof. exact emc_dwc_total. Qed.

Theorem C16_fixed_conc_linear : forall (conc : R) (flow st : list R),
  fixed_concentration_kernel [conc] st [flow] = Some ([map (conc_load conc) flow], st).
Proof. exact fixed_conc_linear. Qed.

Theorem C16_dissolved_nutrients_total : forall (emc dwc : R) (quickflow slowflow st : list R),
  length quickflow = length slowflow ->
  exists quick slow total,
    dissolved_nutrients_kernel [emc; dwc] st [quickflow; slowflow] = Some ([quick; slow; total], st)
    /\ total = zipw Rplus quick slow
    /\ quick = map (conc_load emc) quickflow
    /\ slow = map (conc_load dwc) slowflow.
Proof. exact dissolved_nutrients_total. Qed.

Theorem C16_conc_load_superposition : forall (c a b : R) (xs ys : list R),
  map (conc_load c) (zipw (fun x y => a * x + b * y) xs ys) =
  zipw (fun x y => a * x + b * y) (map (conc_load c) xs) (map (conc_load c) ys).
Proof. exact conc_load_superposition. Qed.

(** SednetParticulateNutrientGeneration.  The run is the per-step function mapped over the
    zipped input series; the per-step identities follow. *)
Theorem C16_particulate_nutrients_run : forall (area nsc hdr ner nssc nerg gdr dwc creams : R) (fs cs fg cg sf st : list R),
  let p := {| pn_area := area; pn_nutSurfSoilConc := nsc; pn_hillDeliveryRatio := hdr; pn_NER := ner;
              pn_nutSubSoilConc := nssc; pn_NER_gully := nerg; pn_gullyDeliveryRatio := gdr;
              pn_nutrientDWC := dwc; pn_doCreams := creams |} in
  let os := map (particulate_nutrients_row p) (combine5 fs cs fg cg sf) in
  particulate_nutrients_kernel [area; nsc; hdr; ner; nssc; nerg; gdr; dwc; creams] st [fs; cs; fg; cg; sf] =
  Some ([map pn_quick os; map pn_slow os; map pn_total os; map pn_hillslope os; map pn_gully os], st).
Proof. exact particulate_nutrients_run. Qed.

Theorem C16_particulate_nutrients_step : forall (p : pn_params (T := R)) (fs cs fg cg sf : R),
  let o := particulate_nutrients_row p (fs, cs, fg, cg, sf) in
  pn_total o = pn_quick o + pn_slow o
  /\ pn_quick o = pn_hillslope o + pn_gully o
  /\ pn_hillslope o = (fs + cs) * pn_nutSurfSoilConc p * pn_NER p * (pn_hillDeliveryRatio p * (1 / 100))
  /\ pn_gully o = (fg + cg) * pn_nutSubSoilConc p * pn_NER_gully p * (pn_gullyDeliveryRatio p * (1 / 100))
  /\ pn_slow o = conc_load (pn_nutrientDWC p) sf.
Proof. exact particulate_nutrients_row_spec. Qed.

Theorem C16_particulate_nutrients_zero : forall (p : pn_params (T := R)) (fs cs fg cg sf : R),
  let o := particulate_nutrients_row p (fs, cs, fg, cg, sf) in
  (fs + cs = 0 -> pn_hillslope o = 0) /\ (fg + cg = 0 -> pn_gully o = 0)
  /\ (fs + cs = 0 -> fg + cg = 0 -> pn_quick o = 0) /\ (sf = 0 -> pn_slow o = 0).
Proof. exact particulate_nutrients_row_zero. Qed.

Theorem C16_particulate_nutrients_nonneg : forall (p : pn_params (T := R)) (fs cs fg cg sf : R),
  0 <= pn_nutSurfSoilConc p -> 0 <= pn_NER p -> 0 <= pn_hillDeliveryRatio p ->
  0 <= pn_nutSubSoilConc p -> 0 <= pn_NER_gully p -> 0 <= pn_gullyDeliveryRatio p ->
  0 <= pn_nutrientDWC p ->
  0 <= fs -> 0 <= cs -> 0 <= fg -> 0 <= cg -> 0 <= sf ->
  let o := particulate_nutrients_row p (fs, cs, fg, cg, sf) in
  0 <= pn_hillslope o /\ 0 <= pn_gully o /\ 0 <= pn_quick o /\ 0 <= pn_slow o /\ 0 <= pn_total o.
Proof. exact particulate_nutrients_row_nonneg. Qed.

(** BankErosion: whole run, fine + coarse = total, fine = total x soilPercentFine % *)
Theorem C16_bank_erosion_fine_coarse_split :
  forall (rv mrv se coeff slope bff mgt dens height len power ltadf spf dur : R) (flow vol st : list R),
  let p := {| be_riparianVegPercent := rv; be_maxRiparianVegEffectiveness := mrv; be_soilErodibility := se;
              be_bankErosionCoeff := coeff; be_linkSlope := slope; be_bankFullFlow := bff;
              be_bankMgtFactor := mgt; be_sedBulkDensity := dens; be_bankHeight := height;
              be_linkLength := len; be_dailyFlowPowerFactor := power; be_longTermAvDailyFlow := ltadf;
              be_soilPercentFine := spf; be_durationInSeconds := dur |} in
  exists fine coarse,
    bank_erosion_kernel [rv; mrv; se; coeff; slope; bff; mgt; dens; height; len; power; ltadf; spf; dur] st [flow; vol]
      = Some ([fine; coarse], st)
    /\ zipw Rplus fine coarse = map (bank_erosion_total p (mean_annual_bank_erosion p)) (combine flow vol)
    /\ fine = map (fun x => bank_erosion_total p (mean_annual_bank_erosion p) x * (spf * (1 / 100))) (combine flow vol).
Proof. exact bank_erosion_fine_coarse_split. Qed.

Theorem C16_bank_erosion_zero_when_driver_zero : forall (p : be_params (T := R)) (meanAnnual outflow totalVolume : R),
  be_durationInSeconds p <> 0 ->
  outflow <= 0 \/ totalVolume <= 0 \/ be_longTermAvDailyFlow p <= 0 ->
  bank_erosion_row p meanAnnual (outflow, totalVolume) = (0, 0).
Proof. exact bank_erosion_row_zero. Qed.

Theorem C16_bank_erosion_nonneg : forall (p : be_params (T := R)) (meanAnnual : R) (x : R * R),
  0 <= meanAnnual -> 0 < be_durationInSeconds p -> 0 <= be_soilPercentFine p <= 100 ->
  let '(fine, coarse) := bank_erosion_row p meanAnnual x in 0 <= fine /\ 0 <= coarse.
Proof. exact bank_erosion_row_nonneg. Qed.

Theorem C16_bank_erosion_mean_annual_nonneg : forall (p : be_params (T := R)),
  Rmin (be_riparianVegPercent p) (be_maxRiparianVegEffectiveness p) <= 100 ->
  0 <= be_soilErodibility p -> 0 <= be_bankErosionCoeff p -> 0 <= be_linkSlope p -> 0 <= be_bankFullFlow p ->
  0 <= be_bankMgtFactor p -> 0 <= be_sedBulkDensity p -> 0 <= be_bankHeight p -> 0 <= be_linkLength p ->
  0 <= mean_annual_bank_erosion p.
Proof. exact mean_annual_bank_erosion_nonneg. Qed.

Example C16_bank_erosion_hyps_satisfiable :
  let p := {| be_riparianVegPercent := 50; be_maxRiparianVegEffectiveness := 95; be_soilErodibility := 80;
              be_bankErosionCoeff := 1/100000; be_linkSlope := 1/100; be_bankFullFlow := 100;
              be_bankMgtFactor := 1; be_sedBulkDensity := 1500; be_bankHeight := 2;
              be_linkLength := 1000; be_dailyFlowPowerFactor := 1; be_longTermAvDailyFlow := 1000;
              be_soilPercentFine := 30; be_durationInSeconds := 86400 |} in
  0 < mean_annual_bank_erosion p /\ 0 <= be_soilPercentFine p <= 100 /\ 0 < be_durationInSeconds p.
Proof. exact bank_erosion_hyps_satisfiable. Qed.

(** USLEFineSedimentGeneration *)
Theorem C16_usle_run : forall (s pp rt alpha beta eta a1 a2 a3 dwc avK avLS avFines area maxConc hf hc ts : R)
  (quickflow baseflow rainfall klsc klscFine cov doy st : list R),
  let p := {| us_S := s; us_P := pp; us_rainThreshold := rt; us_alpha := alpha; us_beta := beta;
              us_eta := eta; us_a1 := a1; us_a2 := a2; us_a3 := a3; us_dwc := dwc; us_avK := avK;
              us_avLS := avLS; us_avFines := avFines; us_area := area; us_maxConc := maxConc;
              us_hsdrFine := hf; us_hsdrCoarse := hc; us_timeStepInSeconds := ts |} in
  let os := map (usle_row p) (combine7 quickflow baseflow rainfall klsc klscFine cov doy) in
  usle_fine_kernel [s; pp; rt; alpha; beta; eta; a1; a2; a3; dwc; avK; avLS; avFines; area; maxConc; hf; hc; ts] st
    [quickflow; baseflow; rainfall; klsc; klscFine; cov; doy]
  = Some ([map us_quickLoadFine os; map us_slowLoadFine os; map us_quickLoadCoarse os;
           map us_slowLoadCoarse os; map us_totalFineLoad os; map us_totalCoarseLoad os;
           map us_generatedLoadFine os; map us_generatedLoadCoarse os], st).
Proof. exact usle_run. Qed.

(** one-line lift of a per-step fact to the run: [Forall2 P rows (map (usle_row p) rows)] *)
Theorem C16_per_step_lift : forall (X Y : Type) (P : X -> Y -> Prop) (f : X -> Y) (rows : list X),
  (forall x, P x (f x)) -> Forall2 P rows (map f rows).
Proof. exact (@Forall2_map_r). Qed.

Theorem C16_usle_totals : forall (p : usle_params (T := R)) (x : R * R * R * R * R * R * R),
  let o := usle_row p x in
  us_totalFineLoad o = us_quickLoadFine o + us_slowLoadFine o
  /\ us_totalCoarseLoad o = us_quickLoadCoarse o + us_slowLoadCoarse o
  /\ us_slowLoadFine o = conc_load (us_dwc p) (snd (fst (fst (fst (fst (fst x)))))).
Proof. exact usle_row_totals. Qed.

Theorem C16_usle_delivered_eq_generated_times_hsdr : forall (p : usle_params (T := R)) (x : R * R * R * R * R * R * R),
  us_timeStepInSeconds p <> 0 ->
  let o := usle_row p x in
  us_quickLoadFine o = us_generatedLoadFine o * (us_hsdrFine p * (1 / 100))
  /\ us_quickLoadCoarse o = us_generatedLoadCoarse o * (us_hsdrCoarse p * (1 / 100)).
Proof. exact usle_row_delivered. Qed.

(** fine : (fine + coarse) = KLSC_Fine : KLSC, with or without the maximum-concentration cap *)
Theorem C16_usle_fine_plus_coarse : forall (p : usle_params (T := R)) (qf sf rain klsc klscF cov doy : R),
  let o := usle_row p (qf, sf, rain, klsc, klscF, cov, doy) in
  us_generatedLoadFine o * klsc = (us_generatedLoadFine o + us_generatedLoadCoarse o) * klscF.
Proof. exact usle_row_fine_coarse_split. Qed.

Theorem C16_usle_zero_when_driver_zero : forall (p : usle_params (T := R)) (qf sf rain klsc klscF cov doy : R),
  qf <= 0 \/ rain <= us_rainThreshold p ->
  let o := usle_row p (qf, sf, rain, klsc, klscF, cov, doy) in
  us_quickLoadFine o = 0 /\ us_quickLoadCoarse o = 0
  /\ us_generatedLoadFine o = 0 /\ us_generatedLoadCoarse o = 0.
Proof. exact usle_row_zero. Qed.

Theorem C16_usle_nonneg : forall (p : usle_params (T := R)) (qf sf rain klsc klscF cov doy : R),
  0 <= klsc -> 0 <= klscF <= klsc -> 0 <= us_area p -> 0 < us_timeStepInSeconds p ->
  0 <= us_maxConc p -> 0 <= us_hsdrFine p -> 0 <= us_hsdrCoarse p ->
  let o := usle_row p (qf, sf, rain, klsc, klscF, cov, doy) in
  0 <= us_quickLoadFine o /\ 0 <= us_quickLoadCoarse o
  /\ 0 <= us_generatedLoadFine o /\ 0 <= us_generatedLoadCoarse o
  /\ (0 <= sf -> 0 <= us_dwc p -> 0 <= us_slowLoadFine o /\ 0 <= us_totalFineLoad o).
Proof. exact usle_row_nonneg. Qed.
Print Assumptions C16_usle_nonneg.

Example C16_usle_generating_path_reachable :
  let p := {| us_S := 0; us_P := 0; us_rainThreshold := 5; us_alpha := 1; us_beta := 0;
              us_eta := 0; us_a1 := 0; us_a2 := 0; us_a3 := 0; us_dwc := 1; us_avK := 0;
              us_avLS := 0; us_avFines := 0; us_area := 10000; us_maxConc := 1000000000; us_hsdrFine := 10;
              us_hsdrCoarse := 5; us_timeStepInSeconds := 1000 |} in
  let o := usle_row p (1, 0, 10, 2, 1, 0, 1) in
  us_generatedLoadFine o = 1 /\ us_generatedLoadCoarse o = 1 /\ us_quickLoadFine o = 1 / 10.
Proof. exact usle_generating_example. Qed.

(** DynamicSednetGully / DynamicSednetGullyAlt *)
Theorem C16_gully_run : forall (calc : gully_export_fn (T := R))
  (yd ey area act supply pcf mpf ltrf drpf sdrf sdrc ts : R) (quickflow year annualRunoff annualLoad st : list R),
  let p := {| g_yearDisturbance := yd; g_gullyEndYear := ey; g_area := area;
              g_averageGullyActivityFactor := act; g_annualAverageSedimentSupply := supply;
              g_percentFine := pcf; g_managementPracticeFactor := mpf; g_longtermRunoffFactor := ltrf;
              g_dailyRunoffPowerFactor := drpf; g_sdrFine := sdrf; g_sdrCoarse := sdrc;
              g_timestepInSeconds := ts |} in
  let os := map (sednet_gully_row calc p) (combine4 quickflow year annualRunoff annualLoad) in
  sednet_gully_generic calc [yd; ey; area; act; supply; pcf; mpf; ltrf; drpf; sdrf; sdrc; ts] st
    [quickflow; year; annualRunoff; annualLoad]
  = Some ([map g_fineLoad os; map g_coarseLoad os; map g_generatedFine os; map g_generatedCoarse os], st).
Proof. exact sednet_gully_generic_run. Qed.

Theorem C16_gully_delivered_eq_generated_times_sdr : forall (calc : gully_export_fn (T := R)) (p : gully_params (T := R))
  (x : R * R * R * R),
  let o := sednet_gully_row calc p x in
  g_fineLoad o = g_generatedFine o * (g_sdrFine p * (1 / 100))
  /\ g_coarseLoad o = g_generatedCoarse o * (g_sdrCoarse p * (1 / 100)).
Proof. exact gully_row_delivered. Qed.

Theorem C16_gully_zero_when_driver_zero : forall (calc : gully_export_fn (T := R)) (p : gully_params (T := R)) (qf yr ar al : R),
  qf = 0 \/ ar = 0 \/ yr < g_yearDisturbance p ->
  sednet_gully_row calc p (qf, yr, ar, al) = gully_zero_out.
Proof. exact gully_row_zero. Qed.

(** what the code does: fine : coarse = propFine x activity : (1 - propFine); the activity factor
    (1 up to GullyEndYear, averageGullyActivityFactor after) multiplies only the fine part *)
Theorem C16_gully_orig_split : forall (p : gully_params (T := R)) (qf yr ar al : R),
  let o := sednet_gully_row gully_load_orig p (qf, yr, ar, al) in
  g_generatedFine o * (1 - gully_prop_fine p) = g_generatedCoarse o * (gully_prop_fine p * gully_activity p yr).
Proof. exact gully_orig_row_split. Qed.

Theorem C16_gully_alt_split : forall (p : gully_params (T := R)) (qf yr ar al : R),
  let o := sednet_gully_row gully_load_derm p (qf, yr, ar, al) in
  g_generatedFine o * (1 - gully_prop_fine p) = g_generatedCoarse o * (gully_prop_fine p * gully_activity p yr).
Proof. exact gully_alt_row_split. Qed.

Theorem C16_gully_activity_meaning : forall (p : gully_params (T := R)) (yr : R),
  (yr <= g_gullyEndYear p -> gully_activity p yr = 1)
  /\ (g_gullyEndYear p < yr -> gully_activity p yr = g_averageGullyActivityFactor p).
Proof. exact gully_activity_spec. Qed.

(** while the gully is active the split is by the fine fraction alone ... *)
Theorem C16_gully_orig_fine_fraction_while_active : forall (p : gully_params (T := R)) (qf yr ar al : R),
  yr <= g_gullyEndYear p ->
  let o := sednet_gully_row gully_load_orig p (qf, yr, ar, al) in
  g_generatedFine o = gully_prop_fine p * (g_generatedFine o + g_generatedCoarse o).
Proof. exact gully_orig_row_fine_fraction. Qed.

Theorem C16_gully_alt_fine_fraction_while_active : forall (p : gully_params (T := R)) (qf yr ar al : R),
  yr <= g_gullyEndYear p ->
  let o := sednet_gully_row gully_load_derm p (qf, yr, ar, al) in
  g_generatedFine o = gully_prop_fine p * (g_generatedFine o + g_generatedCoarse o).
Proof. exact gully_alt_row_fine_fraction. Qed.

(** ... but not afterwards: the literal reading "fine = fine fraction x (fine + coarse)" is refuted
    (GullyPercentFine = 50, activity factor 2, year after GullyEndYear: fine 2, coarse 1) *)
Theorem C16_gully_split_by_fine_fraction_alone_refuted :
  exists (p : gully_params (T := R)) (x : R * R * R * R),
    let o := sednet_gully_row gully_load_derm p x in
    g_generatedFine o = 2 /\ g_generatedCoarse o = 1
    /\ g_generatedFine o <> gully_prop_fine p * (g_generatedFine o + g_generatedCoarse o).
Proof. exact gully_split_by_fine_fraction_alone_refuted. Qed.
Print Assumptions C16_gully_split_by_fine_fraction_alone_refuted.

Theorem C16_gully_orig_zero_supply : forall (p : gully_params (T := R)) (qf yr ar al : R),
  g_annualAverageSedimentSupply p = 0 ->
  let o := sednet_gully_row gully_load_orig p (qf, yr, ar, al) in
  g_generatedFine o = 0 /\ g_generatedCoarse o = 0 /\ g_fineLoad o = 0 /\ g_coarseLoad o = 0.
Proof. exact gully_orig_row_zero_supply. Qed.

Theorem C16_gully_alt_zero_supply : forall (p : gully_params (T := R)) (qf yr ar : R),
  let o := sednet_gully_row gully_load_derm p (qf, yr, ar, 0) in
  g_generatedFine o = 0 /\ g_generatedCoarse o = 0 /\ g_fineLoad o = 0 /\ g_coarseLoad o = 0.
Proof. exact gully_alt_row_zero_supply. Qed.

Theorem C16_gully_orig_nonneg : forall (p : gully_params (T := R)) (qf yr ar al : R),
  0 <= qf -> 0 <= g_percentFine p <= 100 -> 0 <= g_averageGullyActivityFactor p ->
  0 <= g_managementPracticeFactor p -> 0 <= g_annualAverageSedimentSupply p ->
  0 < g_timestepInSeconds p -> 0 <= g_sdrFine p -> 0 <= g_sdrCoarse p ->
  let o := sednet_gully_row gully_load_orig p (qf, yr, ar, al) in
  0 <= g_generatedFine o /\ 0 <= g_generatedCoarse o /\ 0 <= g_fineLoad o /\ 0 <= g_coarseLoad o.
Proof. exact gully_orig_row_nonneg. Qed.

Theorem C16_gully_alt_nonneg : forall (p : gully_params (T := R)) (qf yr ar al : R),
  0 <= qf -> 0 <= ar -> 0 <= al -> 0 < g_area p ->
  0 <= g_percentFine p <= 100 -> 0 <= g_averageGullyActivityFactor p ->
  0 <= g_managementPracticeFactor p ->
  0 < g_timestepInSeconds p -> 0 <= g_sdrFine p -> 0 <= g_sdrCoarse p ->
  let o := sednet_gully_row gully_load_derm p (qf, yr, ar, al) in
  0 <= g_generatedFine o /\ 0 <= g_generatedCoarse o /\ 0 <= g_fineLoad o /\ 0 <= g_coarseLoad o.
Proof. exact gully_alt_row_nonneg. Qed.

Example C16_gully_hyps_satisfiable :
  let p := gully_example_params in
  (0 <= g_percentFine p <= 100 /\ 0 <= g_averageGullyActivityFactor p /\ 0 <= g_managementPracticeFactor p
   /\ 0 <= g_annualAverageSedimentSupply p /\ 0 < g_timestepInSeconds p /\ 0 <= g_sdrFine p /\ 0 <= g_sdrCoarse p
   /\ 0 < g_area p)
  /\ (let o := sednet_gully_row gully_load_orig p (1, 1995, 500, 0) in
      g_generatedFine o = 50 /\ g_generatedCoarse o = 50 /\ g_fineLoad o = 50 /\ g_coarseLoad o = 25)
  /\ (let o := sednet_gully_row gully_load_derm p (1, 1995, 86400000, 4000) in
      g_generatedFine o = 2 /\ g_generatedCoarse o = 2 /\ g_fineLoad o = 2 /\ g_coarseLoad o = 1).
Proof. exact gully_hyps_satisfiable. Qed.

Example C16_conc_load_example : conc_load 100 2 = 2 / 10 /\ 0 <= (2 : R) /\ 0 <= (100 : R).
Proof. exact conc_load_example. Qed.

Example C16_particulate_nutrients_example :
  let p := {| pn_area := 1; pn_nutSurfSoilConc := 1/1000; pn_hillDeliveryRatio := 10; pn_NER := 2;
              pn_nutSubSoilConc := 1/1000; pn_NER_gully := 1; pn_gullyDeliveryRatio := 100;
              pn_nutrientDWC := 1; pn_doCreams := 0 |} in
  pn_hillslope (particulate_nutrients_row p (3, 2, 1, 1, 1)) = 1 / 1000.
Proof. exact particulate_nutrients_hyps_satisfiable. Qed.

Example C16_depth_to_rate_example : exists o,
  depth_to_rate_kernel [86400; 1000000] [] [[864 / 10]] = Some ([[o]], []) /\ o = 1.
Proof. exact depth_to_rate_example. Qed.

(** * Assumptions of every statement above (union; the individual core theorems are also printed
    where they are stated).  Only the standard-library axioms of Coq.Reals appear. *)
Definition C16_all := (C16_fixed_partition_sum,
  C16_variable_partition_sum,
  C16_rating_partition_sum,
  C16_rating_partition_defined_inside,
  C16_rating_fraction_between,
  C16_rating_partition_panics_outside,
  C16_rating_partition_nonvacuous,
  C16_partition_demand,
  C16_partition_demand_negative_demand,
  C16_input_id,
  C16_sum_is_sum,
  C16_gate_is_mask,
  C16_gate_mask_meaning,
  C16_scaling_linear,
  C16_delivery_ratio_linear,
  C16_scaling_superposition,
  C16_depth_to_rate_factor,
  C16_pass_load_if_flow,
  C16_pass_mask_meaning,
  C16_compute_proportion,
  C16_baseflow_filter_is_a_stub,
  C16_unit_constants_match_source,
  C16_unit_factors_documented,
  C16_unit_factors_real,
  C16_conc_load_is_linear,
  C16_conc_load_zero_nonneg,
  C16_emc_dwc_total,
  C16_fixed_conc_linear,
  C16_dissolved_nutrients_total,
  C16_conc_load_superposition,
  C16_particulate_nutrients_run,
  C16_particulate_nutrients_step,
  C16_particulate_nutrients_zero,
  C16_particulate_nutrients_nonneg,
  C16_bank_erosion_fine_coarse_split,
  C16_bank_erosion_zero_when_driver_zero,
  C16_bank_erosion_nonneg,
  C16_bank_erosion_mean_annual_nonneg,
  C16_bank_erosion_hyps_satisfiable,
  C16_usle_run,
  C16_per_step_lift,
  C16_usle_totals,
  C16_usle_delivered_eq_generated_times_hsdr,
  C16_usle_fine_plus_coarse,
  C16_usle_zero_when_driver_zero,
  C16_usle_nonneg,
  C16_usle_generating_path_reachable,
  C16_gully_run,
  C16_gully_delivered_eq_generated_times_sdr,
  C16_gully_zero_when_driver_zero,
  C16_gully_orig_split,
  C16_gully_alt_split,
  C16_gully_activity_meaning,
  C16_gully_orig_fine_fraction_while_active,
  C16_gully_alt_fine_fraction_while_active,
  C16_gully_split_by_fine_fraction_alone_refuted,
  C16_gully_orig_zero_supply,
  C16_gully_alt_zero_supply,
  C16_gully_orig_nonneg,
  C16_gully_alt_nonneg,
  C16_gully_hyps_satisfiable,
  C16_conc_load_example,
  C16_particulate_nutrients_example,
  C16_depth_to_rate_example).
Print Assumptions C16_all.
