(** C04 / C05 — the view interface of the wrapper model is a THEOREM of the array model.

    Wrapper/Run.v (the model of pre/ow-specgen/generated_struct.got on which every C04 and C05
    statement rests) describes the arrays by a small view algebra [B.wview] (start, strides,
    extents; [B.vslice], [B.reshape], [B.voffsets], [B.get1_off]) and takes as its interface
    assumption that the Go library's Slice / MustReshape / Get1 / Set1 address exactly those flat
    offsets.  Arrays/WrapperRefine.v proves that the detailed array model of C01-C03
    (Arrays/Ops.v, tied to data/ and data/cdata/ by the correspondence runs of C01-C03) refines
    that algebra, for Go- and C-backed arrays.  Only statements here, each closed by [exact]. *)
From Coq Require Import ZArith List Bool Lia Arith.
From OW Require Import Arrays.IntOps Arrays.View Arrays.Ops Arrays.IndexProofs Arrays.AffineProofs
  Arrays.MemProofs Arrays.BulkProofs Arrays.WrapperRefine.
From OW Require Wrapper.Spec Wrapper.Run Wrapper.Views.
Import ListNotations.
Local Open Scope Z_scope.
Module B := OW.Wrapper.Run.
Local Notation zo := Z.of_nat.

(** element addresses: the k-th element (row-major) of a well-formed view is the k-th flat offset
    of its abstraction *)
Theorem C04_view_index_refines : forall c i, wfa c -> valid_idx (dims c) i ->
  index c i = Some (Z.of_nat (B.wstart (abs_view c) + B.dot (map Z.to_nat i) (B.wstr (abs_view c)))).
Proof. exact abs_index. Qed.
Theorem C04_view_offsets_refine : forall c, wfa c ->
  map (index c) (enum (dims c)) = map (fun o => Some (Z.of_nat o)) (B.voffsets (abs_view c)).
Proof. exact abs_index_enum. Qed.

(** Slice commutes with the abstraction (any arguments with non-negative components, including
    the short [loc]/[size] forms the template uses for table parameters) *)
Theorem C04_view_slice_refines : forall c loc d st c', wfa c -> slice_into c loc d st = Some c' ->
  nn loc -> (forall s, st = Some s -> nn s) -> (length d <= length (offset c))%nat ->
  abs_view c' = B.vslice (abs_view c) (map Z.to_nat loc) (map Z.to_nat d) (option_map (map Z.to_nat) st) /\
  wfa c' /\ offset c' = offset c /\ odims c' = odims c.
Proof. exact abs_slice_into. Qed.

(** the structural Contiguous() test of the library = "the offsets are consecutive" of the wrapper model *)
Theorem C04_view_contiguous_refines : forall c, wfc c -> contiguous c = Some (B.contiguous (abs_view c)).
Proof. exact abs_contiguous. Qed.

(** Get1 / Set1 address [B.get1_off] *)
Theorem C04_view_get1_refines : forall (V : Type) (h : @heap V) a loc, wfa (cm a) -> 0 <= loc ->
  get1 h a loc = impl_read h (im a) (Z.of_nat (B.get1_off (abs_view (cm a)) (Z.to_nat loc))) /\
  forall x, set1 h a loc x = impl_write h (im a) (Z.of_nat (B.get1_off (abs_view (cm a)) (Z.to_nat loc))) x.
Proof. exact (@abs_get1). Qed.

Print Assumptions C04_view_offsets_refine.
Print Assumptions C04_view_slice_refines.
Print Assumptions C04_view_contiguous_refines.
Print Assumptions C04_view_get1_refines.

Section Template.
  Context {V : Type}.
  Variable sp : Spec.spec.
  Variables nIn nI nT nN nS oN oK oT nP nSets : nat.
  Let sh := Views.mk_shapes nIn nI nT nN nS oN oK oT nP nSets.

  (** states.Slice({i,0},{1,S},nil).MustReshape({S}): no copy, and element j IS root cell i*S + j,
      for reads and writes, in every later heap *)
  Theorem C04_template_state_row : forall (h : @heap V) states i w,
    wfarr h states 0 [zo nN; zo nS] (idview [zo nN; zo nS]) -> ibase (im states) = 0 ->
    (i < nN)%nat -> (0 < nS)%nat ->
    B.state_view sh (B.prologue sh) i = Some w ->
    exists sl r, slice states [zo i; 0] [1; zo nS] None = Some sl /\
      must_reshape h sl [zo nS] = Some (h, r) /\
      ibuf (im r) = ibuf (im states) /\ wfarr h r (start (cm r)) [zo nS] (idview [zo nS]) /\
      abs_arr r = w /\
      forall j, (j < nS)%nat ->
        nth j (B.voffsets w) 0%nat = (i * nS + j)%nat /\ B.get1_off w j = (i * nS + j)%nat /\
        forall h' : @heap V,
          get h' r [zo j] = impl_read h' (im states) (zo (i * nS + j)) /\
          (forall x, set h' r [zo j] x = impl_write h' (im states) (zo (i * nS + j)) x) /\
          get1 h' r (zo j) = get h' r [zo j] /\
          (forall x, set1 h' r (zo j) x = set h' r [zo j] x).
  Proof. exact (template_state_row nIn nI nT nN nS oN oK oT nP nSets). Qed.

  (** outputs.Slice({i,k,0},{1,1,T},{1,1,1}).MustReshape({T}) *)
  Theorem C04_template_output_row : forall (h : @heap V) outputs i k ws w,
    wfarr h outputs 0 [zo oN; zo oK; zo oT] (idview [zo oN; zo oK; zo oT]) -> ibase (im outputs) = 0 ->
    (i < oN)%nat -> (k < oK)%nat -> (0 < nT <= oT)%nat ->
    B.output_views sp sh (B.prologue sh) i = Some ws -> nth_error ws k = Some w ->
    exists sl r, slice outputs [zo i; zo k; 0] [1; 1; zo nT] (Some [1; 1; 1]) = Some sl /\
      must_reshape h sl [zo nT] = Some (h, r) /\
      ibuf (im r) = ibuf (im outputs) /\ wfarr h r (start (cm r)) [zo nT] (idview [zo nT]) /\
      abs_arr r = w /\
      forall t, (t < nT)%nat ->
        nth t (B.voffsets w) 0%nat = ((i * oK + k) * oT + t)%nat /\
        forall h' : @heap V,
          get h' r [zo t] = impl_read h' (im outputs) (zo ((i * oK + k) * oT + t)) /\
          (forall x, set h' r [zo t] x = impl_write h' (im outputs) (zo ((i * oK + k) * oT + t)) x) /\
          get1 h' r (zo t) = get h' r [zo t] /\
          (forall x, set1 h' r (zo t) x = set h' r [zo t] x).
  Proof. exact (template_output_row sp nIn nI nT nN nS oN oK oT nP nSets). Qed.

  (** the two-level chain on the inputs: Slice -> MustReshape({nI,T}) -> Slice -> MustReshape({T}) *)
  Theorem C04_template_input_row : forall (h : @heap V) inputs ci k ws w,
    wfarr h inputs 0 [zo nIn; zo nI; zo nT] (idview [zo nIn; zo nI; zo nT]) -> ibase (im inputs) = 0 ->
    (ci < nIn)%nat -> (k < nI)%nat -> (0 < nT)%nat ->
    B.input_views sp sh (B.prologue sh) ci = Some ws -> nth_error ws k = Some w ->
    exists sl1 r1 sl2 r2,
      slice inputs [zo ci; 0; 0] [1; zo nI; zo nT] None = Some sl1 /\
      must_reshape h sl1 [zo nI; zo nT] = Some (h, r1) /\
      slice r1 [zo k; 0] [1; zo nT] None = Some sl2 /\
      must_reshape h sl2 [zo nT] = Some (h, r2) /\
      ibuf (im r2) = ibuf (im inputs) /\ wfarr h r2 (start (cm r2)) [zo nT] (idview [zo nT]) /\
      abs_arr r2 = w /\
      forall t, (t < nT)%nat ->
        nth t (B.voffsets w) 0%nat = ((ci * nI + k) * nT + t)%nat /\
        forall h' : @heap V,
          get h' r2 [zo t] = impl_read h' (im inputs) (zo ((ci * nI + k) * nT + t)) /\
          (forall x, set h' r2 [zo t] x = impl_write h' (im inputs) (zo ((ci * nI + k) * nT + t)) x) /\
          get1 h' r2 (zo t) = get h' r2 [zo t] /\
          (forall x, set1 h' r2 (zo t) x = set h' r2 [zo t] x).
  Proof. exact (template_input_row sp nIn nI nT nN nS oN oK oT nP nSets). Qed.
End Template.
Print Assumptions C04_template_state_row.
Print Assumptions C04_template_output_row.
Print Assumptions C04_template_input_row.

(** non-vacuity: concrete [2;3;4] roots on both back-ends, the chain of the template computed in both models *)
Example C04_views_nonvacuous_go : True. Proof. pose proof concrete_reshape_chain_go. exact I. Qed.
Example C04_views_nonvacuous_c : True. Proof. pose proof concrete_reshape_chain_c. exact I. Qed.
