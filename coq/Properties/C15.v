(** C15 — GR4J computes the published GR4J equations (Perrin et al. 2003).
    Only statements, each closed by [exact <lemma>]; the published formulation
    is Num/Gr4jSpec.v, the code's model Kernels/Gr4j.v, proofs in
    KernelProofs/{Gr4jMath,Gr4jUH,Gr4j}.v.  All statements are over exact reals. *)
From Coq Require Import Reals List Bool ZArith.
From OW Require Import Base.Arith Base.RInst Kernels.Gr4j Num.Gr4jSpec
  KernelProofs.RRCommon KernelProofs.Gr4jUH KernelProofs.Gr4j.
Import ListNotations.
Local Open Scope R_scope.

(** documented parameter ranges: x1 in [1,1500], x3 in [1,500] (only the lower ends matter),
    x4 in [0.5,4]; x2 is unconstrained *)
Definition C15_gr4j_ok (x1 x3 x4 : R) : bool :=
  Rleb 1 x1 && Rleb 1 x3 && Rleb (1 / 2) x4 && Rleb x4 4.

(** For every x4 in [0.5,4] (every length n1 = ceil(x4) in 1..4, n2 = ceil(2 x4) in 1..8) the
    arrays UH1, UH2 built by the code are the differences of the published S-curves (exponent
    5/2, time bases x4 and 2 x4) at consecutive integers, and the published ordinates vanish
    beyond n1 resp. n2. *)
Theorem C15_gr4j_uh_equals_scurve_differences :
  forall x4 n1 n2, 1 / 2 <= x4 <= 4 -> is_ceil x4 n1 -> is_ceil (2 * x4) n2 ->
  gr4j_uh1 x4 n1 = map (fun i => UH1 x4 (S i)) (seq 0 n1) /\
  gr4j_uh2 x4 n2 = map (fun i => UH2 x4 (S i)) (seq 0 n2) /\
  (forall j, (n1 < j)%nat -> UH1 x4 j = 0) /\ (forall j, (n2 < j)%nat -> UH2 x4 j = 0).
Proof. exact gr4j_uh_c15. Qed.
Print Assumptions C15_gr4j_uh_equals_scurve_differences.

(** The shift register of the code (add c*Pr*UH[i], release slot 0, shift) is the convolution
    of the history of effective rainfall with the ordinates, for any carried contents b. *)
Theorem C15_gr4j_buffer_is_convolution :
  forall c (uh : nat -> R) uhl, (forall i, nth i uhl 0 = uh (S i)) -> uhl <> [] ->
  forall prs b, length b = length uhl ->
  sr_run c uhl b prs =
  (map (conv_carry c uh b prs (length prs)) (seq 0 (length b)),
   map (conv_out c uh b prs) (seq 0 (length prs))).
Proof. exact gr4j_buffer_is_convolution. Qed.
Print Assumptions C15_gr4j_buffer_is_convolution.

(** Run of the code = run of the published model: every parameter set in range, every
    non-negative rainfall/PET series of any length, all initial stores 0 <= S <= x1, 0 <= R,
    arbitrary unit-hydrograph store contents.  Exact side condition: |P - E| <= 13 x1 on every
    day (the code caps the argument of tanh at 13; see C15_gr4j_cap_immaterial). *)
Theorem C15_gr4j_equals_published :
  forall x1 x2 x3 x4 n1 n2 st io,
  C15_gr4j_ok x1 x3 x4 = true -> is_ceil x4 n1 -> is_ceil (2 * x4) n2 ->
  0 <= g_s st <= x1 -> 0 <= g_r st -> length (g_q1 st) = n2 -> length (g_q9 st) = n1 ->
  io_nonneg io -> Forall (fun x => Rabs (fst x - snd x) <= 13 * x1) io ->
  let r := gr4j_run x1 x2 x3 x4 n1 n2 st io in
  let sp := spec_run x1 x2 x3 x4 n1 n2 (g_s st) (g_r st) (g_q1 st) (g_q9 st) io in
  g_s (fst r) = sp_S sp /\ g_r (fst r) = sp_R sp /\ g_q1 (fst r) = sp_q1 sp /\
  g_q9 (fst r) = sp_q9 sp /\ snd r = sp_Q sp.
Proof. exact gr4j_c15. Qed.
Print Assumptions C15_gr4j_equals_published.

(** Unconditional form: for EVERY non-negative series the run of the code equals the run of the
    published model in which tanh w is evaluated as tanh (min w 13) (the only deviation of the
    code from the paper; [spec_run_capped] is [spec_run] with that one function replaced). *)
Theorem C15_gr4j_equals_published_capped :
  forall x1 x2 x3 x4 n1 n2 st io,
  C15_gr4j_ok x1 x3 x4 = true -> is_ceil x4 n1 -> is_ceil (2 * x4) n2 ->
  0 <= g_s st <= x1 -> 0 <= g_r st -> length (g_q1 st) = n2 -> length (g_q9 st) = n1 ->
  io_nonneg io ->
  let r := gr4j_run x1 x2 x3 x4 n1 n2 st io in
  let sp := spec_run_capped x1 x2 x3 x4 n1 n2 (g_s st) (g_r st) (g_q1 st) (g_q9 st) io in
  g_s (fst r) = sp_S sp /\ g_r (fst r) = sp_R sp /\ g_q1 (fst r) = sp_q1 sp /\
  g_q9 (fst r) = sp_q9 sp /\ snd r = sp_Q sp.
Proof. exact gr4j_c15_capped. Qed.
Print Assumptions C15_gr4j_equals_published_capped.

(** where the cap is active (w >= 13) it changes tanh by less than 5e-11 *)
Theorem C15_gr4j_cap_immaterial :
  forall w, 13 <= w -> Rabs (tanh w - tanh (cap13 w)) < 5 / 100000000000.
Proof. exact tanh_cap_error. Qed.
Print Assumptions C15_gr4j_cap_immaterial.

(** InitialiseStates yields [0, 0, ceil(x4), ceil(2 x4), zeros], and on such a state vector
    the generated wrapper is unpack; run; pack *)
Theorem C15_gr4j_init_states : forall x4, 0 < x4 ->
  exists n1 n2, is_ceil x4 n1 /\ is_ceil (2 * x4) n2 /\
    gr4j_init x4 = [0; 0; INR n1; INR n2] ++ repeat 0 n2 ++ repeat 0 n1.
Proof. exact gr4j_init_states. Qed.
Print Assumptions C15_gr4j_init_states.

Theorem C15_gr4j_kernel_is_run : forall x1 x2 x3 x4 n1 n2 s r q1 q9 rain pet,
  (1 <= n1)%nat -> (1 <= n2)%nat -> length q1 = n2 -> length q9 = n1 ->
  gr4j_kernel [x1; x2; x3; x4] (s :: r :: INR n1 :: INR n2 :: q1 ++ q9) [rain; pet] =
  let res := gr4j_run x1 x2 x3 x4 n1 n2 {| g_s := s; g_r := r; g_q1 := q1; g_q9 := q9 |} (combine rain pet) in
  Some ([snd res], g_s (fst res) :: g_r (fst res) :: INR n1 :: INR n2 :: g_q1 (fst res) ++ g_q9 (fst res) ++ []).
Proof. exact gr4j_kernel_run. Qed.
Print Assumptions C15_gr4j_kernel_is_run.

Example C15_nonvacuous :
  C15_gr4j_ok 350 90 (17 / 10) = true /\ is_ceil (17 / 10) 2 /\ is_ceil (2 * (17 / 10)) 4.
Proof. exact gr4j_ok_satisfiable. Qed.
