(** C08 — HDF5 array I/O round-trips and addresses exactly the selected region.

    Only statements, each closed by [exact <lemma>]; the proofs live in
    IO/HyperslabProofs.v, IO/H5StoreProofs.v, IO/IoOpsProofs.v, IO/IoExamples.v,
    IO/LockCheck.v, IO/LockGraphCheck.v.

    Objects: [IO.IoOps] is the model of /repo/io/hdf5.go + hdf5_util.go (tied to
    the Go code by the differential run of tools/c08.py); it runs on
    [IO.H5Store] + [IO.Hyperslab], the stated semantics of the HDF5 calls
    (implemented by harness/fakehdf5; trusted).  Arrays are (dims, row-major
    elements): that [Unroll()] of any source view is its row-major element list
    is property C02.  [codec_exact cd]: one file cell per element (float64,
    float32, int32, uint32, int64, uint64); Go int / uint are refuted below. *)
From Coq Require Import ZArith List Bool.
From OW Require Import IO.Hyperslab IO.H5Store IO.IoOps IO.HyperslabProofs IO.H5StoreProofs IO.IoOpsProofs
  IO.IoSeqProofs IO.IoExamples IO.LockCheck IO.LockGraphCheck Gen.LockGraph.
Import ListNotations.
Local Open Scope Z_scope.

(** [sliceSize([start, stop, step], n)] is the number of k >= 0 with
    start + k*step < min(stop, n): ceiling division, [stop] beyond the extent
    clips, a start at or beyond the end gives 0.  The model computes with
    64-bit wrap-around like Go; [ss_ok] = the arguments are Go ints with
    0 <= start, 1 <= step, n + step <= 2^63 (extent + step - 1 cannot overflow)
    and MinInt64 + n <= stop <= MaxInt64 -- the open-ended stop = MaxInt64
    included. *)
Theorem C08_slice_size_spec : forall a b s n c, ss_ok a b s n ->
  slice_size [a; b; s] n = Some c ->
  0 <= c /\ forall k, 0 <= k -> (k < c <-> a + k * s < Z.min b n).
Proof. exact slice_size_counts. Qed.
Print Assumptions C08_slice_size_spec.

Theorem C08_slice_size_total : forall a b s n, ss_ok a b s n ->
  slice_size [a; b; s] n = Some (slice_count a b s n).
Proof. exact slice_size_spec. Qed.
Print Assumptions C08_slice_size_total.

(** Loading without a selection returns the dataset: shape and every element. *)
Theorem C08_load_whole : forall V C (cd : codec V C), codec_exact cd ->
  forall st s p d, h5_open_dataset st [] s = Some (p, d) -> ds_wf d ->
  io_load cd (Some st) {| h_dataset := s; h_slice := None |} = IoRet (Some (ds_view cd d)) false.
Proof. exact @load_whole. Qed.
Print Assumptions C08_load_whole.

(** Loading with a per-dimension [start, stop, step] selection (nil entries =
    whole axis; stop may exceed the extent; any rank) returns exactly the
    in-memory slice of the dataset: per axis the count of C08_slice_size_spec,
    elements at start + k*step, row-major. *)
Theorem C08_load_selection_is_memory_slice : forall V C (cd : codec V C), codec_exact cd ->
  forall st s p d sl,
  h5_open_dataset st [] s = Some (p, d) -> ds_wf d ->
  Forall2 dimsel_wf (ds_dims d) sl ->
  has_selection (Some sl) = true ->
  io_load cd (Some st) {| h_dataset := s; h_slice := Some sl |}
  = IoRet (Some (mem_slice (vzero cd) (ds_view cd d) (slice_triples sl (ds_dims d)))) false.
Proof. exact @load_subset_eq_memory_slice. Qed.
Print Assumptions C08_load_selection_is_memory_slice.

(** Write then Load gives back the same shape and values, for every shape of
    rank >= 1 with at least one element, on a missing file, a new dataset
    (intermediate groups are created) or an existing dataset of that shape. *)
Theorem C08_write_load_roundtrip : forall V C (cd : codec V C), codec_exact cd ->
  forall f s p a f',
  file_wf f -> plain_name s p -> arr_wf a -> ha_elems a <> [] ->
  io_write cd f {| h_dataset := s; h_slice := None |} a = (f', IoRet (Some tt) false) ->
  io_load cd f' {| h_dataset := s; h_slice := None |} = IoRet (Some a) false.
Proof. exact @write_load_roundtrip. Qed.
Print Assumptions C08_write_load_roundtrip.

(** What Write does to the rest of the file: every other dataset is untouched;
    on success the dataset holds exactly the array; on refusal (shape differs,
    or the name cannot be created) nothing changes at that name either. *)
Theorem C08_write_effect_and_frame : forall V C (cd : codec V C), codec_exact cd ->
  forall f s p a f' r,
  file_wf f -> plain_name s p -> arr_wf a -> ha_elems a <> [] ->
  io_write cd f {| h_dataset := s; h_slice := None |} a = (f', r) ->
  exists st', f' = Some st' /\ store_wf st' /\
    (forall q d, q <> p -> (st_lookup st' q = Some (ODataset d) <-> st_lookup (open_or_new f) q = Some (ODataset d))) /\
    match r with
    | IoPanic => False
    | IoRet (Some _) _ =>
        st_lookup st' p = Some (ODataset {| ds_dims := ha_dims a; ds_data := io_encode cd (ha_elems a) |}) /\
        (forall d0, st_lookup (open_or_new f) p = Some (ODataset d0) -> ds_dims d0 = ha_dims a)
    | IoRet None _ => forall d, st_lookup st' p = Some (ODataset d) <-> st_lookup (open_or_new f) p = Some (ODataset d)
    end.
Proof. exact @write_spec. Qed.
Print Assumptions C08_write_effect_and_frame.

(** WriteSlice of a sub-array [a] at [loc] inside the extent: the file changes
    only at that dataset ([st_update]), whose extent is kept and whose cells
    change exactly on the block: cell loc + k receives element k of [a], every
    other cell keeps its value. *)
Theorem C08_write_slice_footprint : forall V C (cd : codec V C), codec_exact cd ->
  forall st s p d a loc,
  store_wf st -> plain_name s p -> st_lookup st p = Some (ODataset d) ->
  arr_wf a -> length loc = length (ha_dims a) -> Forall u64 loc ->
  block_fits (ds_dims d) loc (ha_dims a) ->
  let tr := block_tr loc (ha_dims a) in
  let cz := io_czero cd in
  exists data',
    io_write_slice cd (Some st) {| h_dataset := s; h_slice := None |} a loc
      = (Some (st_update st p (ODataset {| ds_dims := ds_dims d; ds_data := data' |})), IoRet (Some tt) false)
    /\ length data' = length (ds_data d)
    /\ (forall k, in_range (ha_dims a) k ->
          nth (Z.to_nat (h5_linear (ds_dims d) (affine tr k))) data' cz
          = nth (Z.to_nat (h5_linear (ha_dims a) k)) (io_encode cd (ha_elems a)) cz)
    /\ (forall idx, in_range (ds_dims d) idx -> (forall k, in_range (ha_dims a) k -> idx <> affine tr k) ->
          nth (Z.to_nat (h5_linear (ds_dims d) idx)) data' cz = nth (Z.to_nat (h5_linear (ds_dims d) idx)) (ds_data d) cz).
Proof. exact @write_slice_spec. Qed.
Print Assumptions C08_write_slice_footprint.

(** ... and [st_update] touches no other object of the file. *)
Theorem C08_write_slice_frame_other_objects : forall C (st : h5store C) p q o, p <> q ->
  st_lookup (st_update st p o) q = st_lookup st q.
Proof. exact @lookup_update_other. Qed.
Print Assumptions C08_write_slice_frame_other_objects.

(** A block outside the extent writes nothing (the Go code drops the error of
    WriteSubset and returns nil: noted, not part of the property). *)
Theorem C08_write_slice_outside_writes_nothing : forall V C (cd : codec V C),
  forall st s p d a loc fsel,
  plain_name s p -> st_lookup st p = Some (ODataset d) -> ha_dims a <> [] ->
  select_hyperslab (length (ds_dims d)) SelAll (map go_uint loc) (map (fun _ => 1) loc) (map (fun _ => 1) loc)
                   (map go_uint (ha_dims a)) = Some (Some fsel) ->
  h5_select fsel (ds_dims d) = None ->
  io_write_slice cd (Some st) {| h_dataset := s; h_slice := None |} a loc = (Some st, IoRet (Some tt) false).
Proof. exact @write_slice_outside_noop. Qed.
Print Assumptions C08_write_slice_outside_writes_nothing.

(** Creating a dataset that already exists never changes the file (not its
    contents, not anything else), whatever the fill value / compression flag;
    it succeeds iff the shape is the same, and a different shape is refused. *)
Theorem C08_create_existing_noop_or_refused : forall V C (cd : codec V C),
  forall st s p d shape compress,
  store_wf st -> plain_name s p -> st_lookup st p = Some (ODataset d) ->
  io_create cd (Some st) {| h_dataset := s; h_slice := None |} shape compress
  = (Some st, if zlist_eqb (ds_dims d) shape then IoRet (Some tt) false else IoRet None true).
Proof. exact @create_existing. Qed.
Print Assumptions C08_create_existing_noop_or_refused.

(** Every sequence of Create / Write / WriteSlice / Load (with or without a
    selection) / Shape on one file refines a simple abstract specification:
    a map from dataset paths to arrays (plus the set of groups), whose
    operations are defined per index ([a_step]: WriteSlice = "index in the block
    ? element of the sub-array : old element", Load with a selection = the
    in-memory slice, Create of an existing dataset = nothing, a new name is
    accepted iff no dataset lies on the way and the leaf is new).  Induction
    over the operation list; [R] relates the store to the specification, and
    every observation (results, errors, loaded arrays) is the specification's. *)
Theorem C08_sequences_refine_spec : forall V C (cd : codec V C), codec_exact cd ->
  forall ops f m,
  R cd f m -> sops_ok cd m ops ->
  exists f', io_run_ops cd f (map to_op ops) = (f', snd (a_run cd m ops)) /\ R cd f' (fst (a_run cd m ops)).
Proof. exact @sequences_refine_spec. Qed.
Print Assumptions C08_sequences_refine_spec.

Theorem C08_sequences_from_missing_file : forall V C (cd : codec V C), codec_exact cd ->
  forall ops, sops_ok cd af_empty ops ->
  exists f', io_run_ops cd None (map to_op ops) = (f', snd (a_run cd af_empty ops)) /\ R cd f' (fst (a_run cd af_empty ops)).
Proof. exact @sequences_refine_spec_from_nothing. Qed.
Print Assumptions C08_sequences_from_missing_file.

(** REFUTED for Go int (and uint): the round trip loses the second half of the
    buffer (known finding native-int-width). *)
Theorem C08_write_load_roundtrip_int_refuted :
  exists (s : list Z) (a : harr Z) f',
    ha_dims a = [6] /\ length (ha_elems a) = 6%nat /\
    io_write int_codec None {| h_dataset := s; h_slice := None |} a = (f', IoRet (Some tt) false) /\
    io_load int_codec f' {| h_dataset := s; h_slice := None |}
      = IoRet (Some {| ha_dims := [6]; ha_elems := [10; 11; 12; 0; 0; 0] |}) false /\
    io_load int_codec f' {| h_dataset := s; h_slice := None |} <> IoRet (Some a) false.
Proof. exact write_load_roundtrip_int_refuted. Qed.
Print Assumptions C08_write_load_roundtrip_int_refuted.

Theorem C08_write_load_roundtrip_uint_refuted :
  exists (s : list Z) (a : harr Z) f',
    io_write uint_codec None {| h_dataset := s; h_slice := None |} a = (f', IoRet (Some tt) false) /\
    io_load uint_codec f' {| h_dataset := s; h_slice := None |} <> IoRet (Some a) false.
Proof. exact write_load_roundtrip_uint_refuted. Qed.
Print Assumptions C08_write_load_roundtrip_uint_refuted.

(** Modelling lemma: [createDataset] recurses on strings.Join(paths[1:], "/"),
    the model on the tail of the component list; they are the same thing. *)
Theorem C08_model_split_join : forall l, l <> [] -> Forall (fun c => ~ In ch_slash c) l ->
  split_slash (join_slash l) = l.
Proof. exact split_join_slash. Qed.
Print Assumptions C08_model_split_join.

(** ** Lock discipline.

    For ALL graphs: if the checker accepts, then in every run of every exported
    entry point started without the lock, every HDF5 call site is reached with
    the lock held (write-held if the site mutates, and at every site when the
    entry point can reach a mutating site), no lock operation is applied in the
    wrong state, and the lock is released on return. *)
Theorem C08_lock_checker_sound : forall g, check g = true ->
  forall fn, In fn g -> fn_entry fn = true ->
  forall tr h', exec_body g (fn_body fn) [] HU tr h' ->
    Forall (item_ok (is_writer g fn)) tr /\ h' = HU.
Proof. exact check_sound. Qed.
Print Assumptions C08_lock_checker_sound.

Theorem C08_lock_item_meaning : forall s i, item_ok s i ->
  match i with
  | ISite _ m h => h <> HU /\ (m = true -> h = HW) /\ (s = true -> h = HW)
  | IBad => False
  end.
Proof. exact item_ok_held. Qed.
Print Assumptions C08_lock_item_meaning.

(** For TODAY's package io (graph regenerated from /repo/io on every run). *)
Theorem C08_lock_discipline : forall fn, In fn graph -> fn_entry fn = true ->
  forall tr h', exec_body graph (fn_body fn) [] HU tr h' ->
    Forall (item_ok (is_writer graph fn)) tr /\ h' = HU.
Proof. exact lock_discipline_today. Qed.
Print Assumptions C08_lock_discipline.

(** ** Non-vacuity *)
Example C08_nonvacuous_io :
  exists f', io_write id_codec None ref_ga arr23 = (f', IoRet (Some tt) false)
   /\ io_load id_codec f' ref_ga = IoRet (Some arr23) false
   /\ io_load id_codec f' {| h_dataset := nm_ga; h_slice := Some [None; Some [0; 7; 2]] |}
      = IoRet (Some {| ha_dims := [2; 2]; ha_elems := [10; 12; 20; 22] |}) false
   /\ io_exists f' ref_ga = true
   /\ exists f'', io_write_slice id_codec f' ref_ga {| ha_dims := [1; 2]; ha_elems := [7; 8] |} [1; 1] = (f'', IoRet (Some tt) false)
        /\ io_load id_codec f'' ref_ga = IoRet (Some {| ha_dims := [2; 3]; ha_elems := [10; 11; 12; 20; 7; 8] |}) false
        /\ io_create id_codec f'' ref_ga [2; 3] false = (f'', IoRet (Some tt) false)
        /\ io_create id_codec f'' ref_ga [3; 2] false = (f'', IoRet None true).
Proof. exact write_then_load. Qed.

Example C08_nonvacuous_hypotheses : codec_exact id_codec /\ plain_name nm_ga [[103]; [97]] /\ arr_wf arr23.
Proof. exact (conj id_codec_exact (conj nm_ga_plain arr23_wf)). Qed.

Example C08_nonvacuous_sequence : sops_ok id_codec (af_empty (V:=Z)) seq_example
  /\ snd (a_run id_codec (af_empty (V:=Z)) seq_example)
      = [ObsUnit (IoRet (Some tt) false); ObsUnit (IoRet (Some tt) false);
         ObsArr (IoRet (Some {| ha_dims := [2; 2]; ha_elems := [10; 12; 20; 8] |}) false);
         ObsUnit (IoRet (Some tt) false); ObsShape (IoRet (Some [2; 3]) false)].
Proof. exact (conj seq_example_ok seq_example_run). Qed.

Example C08_nonvacuous_slice_size : slice_size [0; 5; 2] 10 = Some 3 /\ slice_size [2; 100; 3] 10 = Some 3
  /\ slice_size [10; 12; 1] 10 = Some 0 /\ slice_size [0; 5; 0] 10 = None.
Proof. exact slice_size_ceil. Qed.

Example C08_nonvacuous_slice_size_extremes :
  ss_ok 0 9223372036854775807 2 10 /\ slice_size [0; 9223372036854775807; 2] 10 = Some 5
  /\ slice_size [1; 9223372036854775806; 3] 10 = Some 3
  /\ slice_size [0; 7; 9223372036854775807] 10 = Some 0.
Proof. exact slice_size_extremes. Qed.

Example C08_nonvacuous_lock_graph :
  (0 < count_entries)%nat /\ (0 < count_writers)%nat /\ (count_writers < count_entries)%nat /\ (0 < count_sites)%nat.
Proof. exact lock_graph_nonvacuous. Qed.
