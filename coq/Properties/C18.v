(** C18 — root finding and piecewise interpolation meet their numerical contracts.
    Only statements, each closed by [exact <lemma>]; the model is Num/FindRoot.v,
    Num/Piecewise.v (util/fn/root.go, util/fn/piecewise.go), the proofs are in
    Num/FindRootProofs.v, Num/PiecewiseProofs.v.  All FindRoot theorems are about
    the real-number instance and hold for an arbitrary [f : R -> R], an arbitrary
    (or absent) derivative [fdx], every tolerance, convergence limit and iteration
    limit unless a hypothesis says otherwise.  [find_root f fdx tol conv x0 a b n]
    returns [None] for the Go panic, else the point [rx], the value [rdelta], the
    arguments of every call of fn ([revals]; [None] marks the 0/0 = NaN secant
    trial) and of fn_dx ([rdevals]). *)
From Coq Require Import Reals List Floats.
From OW Require Import Base.Arith Base.RInst Base.FInst.
From OW Require Import Num.FindRoot Num.Piecewise Num.FindRootProofs Num.PiecewiseProofs.
Import ListNotations.
Local Open Scope R_scope.

(** ------------------------------------------------------------ FindRoot *)

(** FindRoot panics exactly when the bracket ends have the wrong signs. *)
Theorem C18_findroot_defined_iff : forall (f : R -> R) fdx tol conv x0 a b n,
  (exists r, find_root f fdx tol conv x0 a b n = Some r) <-> f a <= 0 <= f b.
Proof. exact findroot_defined_iff. Qed.
Print Assumptions C18_findroot_defined_iff.

(** The returned value is the function's value at the returned point: ANY f, any inputs. *)
Theorem C18_findroot_value_is_f : forall (f : R -> R) fdx tol conv x0 a b n r,
  find_root f fdx tol conv x0 a b n = Some r -> rdelta r = f (rx r).
Proof. exact findroot_value_is_f. Qed.
Print Assumptions C18_findroot_value_is_f.

(** ANY f (no continuity, no monotonicity): the returned point lies in [a,b] — unless
    the NaN trial was evaluated — and every proper evaluation point of fn and fn_dx
    lies in [a,b]. *)
Theorem C18_findroot_in_interval : forall (f : R -> R) fdx tol conv x0 a b n,
  a <= x0 <= b -> f a <= 0 <= f b ->
  exists r, find_root f fdx tol conv x0 a b n = Some r /\ rdelta r = f (rx r) /\
    (In None (revals r) \/ a <= rx r <= b) /\
    (forall p, In (Some p) (revals r) -> a <= p <= b) /\
    (forall p, In p (rdevals r) -> a <= p <= b).
Proof. exact findroot_in_interval_any_f. Qed.
Print Assumptions C18_findroot_in_interval.

(** "Never evaluated outside the interval", with the exact side condition (tol > 0):
    the bracket is not the degenerate one  f a = f b = 0  with a midpoint value
    outside the tolerance. *)
Theorem C18_findroot_evals_inside : forall (f : R -> R) fdx tol conv x0 a b n,
  0 < tol -> a <= x0 <= b -> f a <= 0 <= f b ->
  ~ (f a = 0 /\ f b = 0 /\ tol <= Rabs (f ((a + b) / 2))) ->
  exists r, find_root f fdx tol conv x0 a b n = Some r /\
    Forall (fun o => match o with Some p => a <= p <= b | None => False end) (revals r) /\
    Forall (fun p => a <= p <= b) (rdevals r) /\ a <= rx r <= b.
Proof. exact findroot_evals_inside. Qed.
Print Assumptions C18_findroot_evals_inside.

(** For ANY tolerance (also 0 or negative): a strictly negative value at the lower end
    keeps the secant denominator away from zero. *)
Theorem C18_findroot_evals_inside_neg_end : forall (f : R -> R) fdx tol conv x0 a b n,
  a <= x0 <= b -> f a < 0 -> 0 <= f b ->
  exists r, find_root f fdx tol conv x0 a b n = Some r /\
    Forall (fun o => match o with Some p => a <= p <= b | None => False end) (revals r) /\
    Forall (fun p => a <= p <= b) (rdevals r) /\ a <= rx r <= b.
Proof. exact findroot_evals_inside_neg_end. Qed.
Print Assumptions C18_findroot_evals_inside_neg_end.

(** ... and in that degenerate case fn IS evaluated at the NaN trial (defect, see
    the known finding  nan-trial-zero-secant-denominator). *)
Theorem C18_findroot_nan_trial_refuted : forall (f : R -> R) fdx tol conv x0 a b n,
  (1 <= n)%nat -> (f a = 0 /\ f b = 0 /\ tol <= Rabs (f ((a + b) / 2))) ->
  exists r, find_root f fdx tol conv x0 a b n = Some r /\ In None (revals r).
Proof. exact findroot_nan_trial_evaluated. Qed.
Print Assumptions C18_findroot_nan_trial_refuted.

(** For a non-decreasing f the degenerate case cannot arise. *)
Theorem C18_findroot_evals_inside_monotone : forall (f : R -> R) fdx tol conv x0 a b n,
  0 < tol -> (forall x y, a <= x -> x <= y -> y <= b -> f x <= f y) ->
  a <= x0 <= b -> f a <= 0 <= f b ->
  exists r, find_root f fdx tol conv x0 a b n = Some r /\
    Forall (fun o => match o with Some p => a <= p <= b | None => False end) (revals r) /\
    Forall (fun p => a <= p <= b) (rdevals r) /\ a <= rx r <= b.
Proof. exact findroot_evals_inside_monotone. Qed.
Print Assumptions C18_findroot_evals_inside_monotone.

(** Bracket invariant and halving bound: after k complete iterations (none of which
    returned) f lo <= 0 <= f hi, a <= lo <= hi <= b and hi - lo <= (b-a)/2^k; the
    current point is one of the ends from the first iteration on. *)
Theorem C18_findroot_bracket_invariant : forall (f : R -> R) fdx tol conv x0 a b,
  a <= x0 <= b -> f a <= 0 <= f b ->
  forall k s, iter_k f fdx tol conv k (init_state f x0 a b) = Cont s ->
    a <= smin s /\ smin s <= smax s /\ smax s <= b /\
    smind s = f (smin s) /\ smaxd s = f (smax s) /\ f (smin s) <= 0 <= f (smax s) /\
    smax s - smin s <= (b - a) / 2 ^ k /\
    sd s = f (sx s) /\ a <= sx s <= b /\
    ((1 <= k)%nat -> sx s = smin s \/ sx s = smax s).
Proof. exact findroot_bracket_invariant. Qed.
Print Assumptions C18_findroot_bracket_invariant.

Theorem C18_findroot_run_is_iterations : forall (f : R -> R) fdx tol conv x0 a b n,
  f a <= 0 <= f b ->
  find_root f fdx tol conv x0 a b n =
  Some (match iter_k f fdx tol conv n (init_state f x0 a b) with
        | Done r => r | Cont s => finish s end).
Proof. exact findroot_loop_is_iter_k. Qed.
Print Assumptions C18_findroot_run_is_iterations.

(** Non-decreasing f, at least one iteration: the value is within the tolerance or no
    larger in magnitude than at the better end of the initial bracket. *)
Theorem C18_findroot_no_worse_or_within_tol : forall (f : R -> R) fdx tol conv x0 a b n,
  (forall x y, a <= x -> x <= y -> y <= b -> f x <= f y) ->
  a <= x0 <= b -> f a <= 0 <= f b -> (1 <= n)%nat ->
  exists r, find_root f fdx tol conv x0 a b n = Some r /\
    (Rabs (rdelta r) < tol \/ Rabs (rdelta r) <= Rmin (Rabs (f a)) (Rabs (f b))).
Proof. exact findroot_no_worse_or_within_tol. Qed.
Print Assumptions C18_findroot_no_worse_or_within_tol.

(** The strict reading (always no larger than at the better end) is FALSE when an end
    is already within the tolerance (benign: the value returned is within it too). *)
Theorem C18_findroot_no_worse_strict_refuted :
  exists (f : R -> R) (a b x0 tol conv : R),
    (forall x y, a <= x -> x <= y -> y <= b -> f x <= f y) /\
    a <= x0 <= b /\ f a <= 0 <= f b /\ 0 < tol /\
    forall n, (1 <= n)%nat ->
      exists r, find_root f None tol conv x0 a b n = Some r /\
        Rabs (rdelta r) < tol /\ ~ Rabs (rdelta r) <= Rmin (Rabs (f a)) (Rabs (f b)).
Proof. exact findroot_no_worse_strict_refuted. Qed.
Print Assumptions C18_findroot_no_worse_strict_refuted.

(** ... and with an iteration limit of zero the initial guess comes back unchanged. *)
Theorem C18_findroot_zero_iterations : forall (f : R -> R) fdx tol conv x0 a b,
  f a <= 0 <= f b ->
  exists r, find_root f fdx tol conv x0 a b 0 = Some r /\ rx r = x0 /\ rdelta r = f x0.
Proof. exact findroot_zero_iterations. Qed.
Print Assumptions C18_findroot_zero_iterations.

(** "Below the tolerance whenever the iteration budget suffices for interval halving to
    reach it", made precise for an L-Lipschitz f (monotonicity is not needed):
    L (b-a)/2^n < tol  and  L conv < tol,  and the initial guess is an end of the
    bracket or at least conv away from its midpoint. *)
Theorem C18_findroot_converges : forall (f : R -> R) fdx tol conv x0 a b n L,
  0 <= L ->
  (forall x y, a <= x <= b -> a <= y <= b -> Rabs (f x - f y) <= L * Rabs (x - y)) ->
  a <= x0 <= b -> f a <= 0 <= f b ->
  (x0 = a \/ x0 = b \/ conv <= Rabs (x0 - (a + b) / 2)) ->
  L * conv < tol -> L * ((b - a) / 2 ^ n) < tol ->
  exists r, find_root f fdx tol conv x0 a b n = Some r /\ Rabs (rdelta r) < tol.
Proof. exact findroot_converges. Qed.
Print Assumptions C18_findroot_converges.

(** The general form, not tied to a global Lipschitz constant (it also covers functions
    that are flat at the root): if every bracket of width <= w inside [a,b] has an end whose
    value is within the tolerance, n >= 1 halvings bring b-a below w and conv <= w, the
    tolerance is reached.  This is the clause the check evaluates on the implementation. *)
Theorem C18_findroot_converges_modulus : forall (f : R -> R) fdx tol conv x0 a b n w,
  (forall lo hi, a <= lo -> lo <= hi -> hi <= b -> f lo <= 0 -> 0 <= f hi ->
                 hi - lo <= w -> Rmin (Rabs (f lo)) (f hi) < tol) ->
  a <= x0 <= b -> f a <= 0 <= f b ->
  (x0 = a \/ x0 = b \/ conv <= Rabs (x0 - (a + b) / 2)) ->
  conv <= w -> (b - a) / 2 ^ n <= w -> (1 <= n)%nat ->
  exists r, find_root f fdx tol conv x0 a b n = Some r /\ Rabs (rdelta r) < tol.
Proof. exact findroot_converges_modulus. Qed.
Print Assumptions C18_findroot_converges_modulus.

(** The hypothesis on the initial guess cannot be dropped ("all initial guesses" is
    FALSE): guess at the midpoint of a bracket with f a = - f b, first-iteration
    convergence exit with |delta| far above the tolerance. *)
Theorem C18_findroot_converges_any_guess_refuted :
  exists (f : R -> R) (L a b x0 tol conv : R),
    0 <= L /\
    (forall x y, a <= x -> x <= y -> y <= b -> f x <= f y) /\
    (forall x y, a <= x <= b -> a <= y <= b -> Rabs (f x - f y) <= L * Rabs (x - y)) /\
    a <= x0 <= b /\ f a <= 0 <= f b /\ 0 < conv /\ L * conv < tol /\
    forall n, (12 <= n)%nat ->
      L * ((b - a) / 2 ^ n) < tol /\
      exists r, find_root f None tol conv x0 a b n = Some r /\ ~ Rabs (rdelta r) < tol.
Proof. exact findroot_converges_any_guess_refuted. Qed.
Print Assumptions C18_findroot_converges_any_guess_refuted.

(** ------------------------------------------------------------ Piecewise *)
(** strictly increasing knots of any length >= 2, one table value per knot *)

Theorem C18_piecewise_knots_exact : forall xs ys : list R,
  (forall i, (S i < length xs)%nat -> nth i xs 0 < nth (S i) xs 0) ->
  length ys = length xs -> (2 <= length xs)%nat ->
  forall k, (k < length xs)%nat -> piecewise (nth k xs 0) xs ys = Some (nth k ys 0).
Proof. exact piecewise_knots_exact. Qed.
Print Assumptions C18_piecewise_knots_exact.

Theorem C18_piecewise_is_linear_interpolant : forall xs ys : list R,
  (forall i, (S i < length xs)%nat -> nth i xs 0 < nth (S i) xs 0) ->
  length ys = length xs ->
  forall x k, (S k < length xs)%nat -> nth k xs 0 <= x <= nth (S k) xs 0 ->
  piecewise x xs ys =
  Some (nth k ys 0 + (x - nth k xs 0) / (nth (S k) xs 0 - nth k xs 0) * (nth (S k) ys 0 - nth k ys 0)).
Proof. exact piecewise_is_linear_interpolant. Qed.
Print Assumptions C18_piecewise_is_linear_interpolant.

Theorem C18_piecewise_between_neighbours : forall xs ys : list R,
  (forall i, (S i < length xs)%nat -> nth i xs 0 < nth (S i) xs 0) ->
  length ys = length xs ->
  forall x k, (S k < length xs)%nat -> nth k xs 0 <= x <= nth (S k) xs 0 ->
  exists v, piecewise x xs ys = Some v /\
    Rmin (nth k ys 0) (nth (S k) ys 0) <= v <= Rmax (nth k ys 0) (nth (S k) ys 0).
Proof. exact piecewise_between_neighbours. Qed.
Print Assumptions C18_piecewise_between_neighbours.

(** an error (never a number) exactly for arguments outside the table; it is the Go
    error, not a panic *)
Theorem C18_piecewise_error_iff_outside : forall xs ys : list R,
  (forall i, (S i < length xs)%nat -> nth i xs 0 < nth (S i) xs 0) ->
  length ys = length xs -> (2 <= length xs)%nat ->
  forall x, piecewise x xs ys = None <-> (x < nth 0 xs 0 \/ nth (length xs - 1) xs 0 < x).
Proof. exact piecewise_error_iff_outside. Qed.
Print Assumptions C18_piecewise_error_iff_outside.

Theorem C18_piecewise_error_outside : forall xs ys : list R,
  (forall i, (S i < length xs)%nat -> nth i xs 0 < nth (S i) xs 0) ->
  length ys = length xs -> (2 <= length xs)%nat ->
  forall x, x < nth 0 xs 0 \/ nth (length xs - 1) xs 0 < x ->
  piecewise x xs ys = None /\ piecewise_full x xs ys = Some None.
Proof. exact piecewise_error_outside. Qed.
Print Assumptions C18_piecewise_error_outside.

(** on a well-formed table nothing panics: [piecewise] is the whole story *)
Theorem C18_piecewise_no_panic : forall x (xs ys : list R),
  (forall i, (S i < length xs)%nat -> nth i xs 0 < nth (S i) xs 0) ->
  length ys = length xs -> (2 <= length xs)%nat ->
  exists r, piecewise_full x xs ys = Some r /\ piecewise x xs ys = r.
Proof. exact piecewise_full_wf. Qed.
Print Assumptions C18_piecewise_no_panic.

(** not-a-number: in ANY arithmetic, if every comparison involving the query is false
    the result is the error — for every table, never a number *)
Theorem C18_piecewise_error_nan : forall (T : Type) (A : Arith T) (x : T) (xs ys : list T),
  (forall v, ltb x v = false /\ ltb v x = false /\ leb x v = false) ->
  piecewise x xs ys = None /\ (xs <> [] -> piecewise_full x xs ys = Some None).
Proof. exact (@piecewise_error_unordered). Qed.
Print Assumptions C18_piecewise_error_nan.

(** ... and binary64 NaN is such a query (Coq's primitive-float specification) *)
Theorem C18_piecewise_error_nan_float : forall (l : LibM) (x : float) (xs ys : list float),
  @is_nan float (FArith l) x = true ->
  @piecewise float (FArith l) x xs ys = None /\
  (xs <> [] -> @piecewise_full float (FArith l) x xs ys = Some None).
Proof. exact piecewise_error_nan_float. Qed.
Print Assumptions C18_piecewise_error_nan_float.

(** ------------------------------------------------------------ non-vacuity *)
Example C18_findroot_nonvacuous :
  exists r, find_root (fun x => x - 1/4) None (1/1000) 0 0 0 1 5 = Some r /\ rx r = 1/4 /\ rdelta r = 0 /\
            revals r = [Some 0; Some 1; Some 0; Some (1/2); Some (1/4)].
Proof. exact findroot_example. Qed.

Example C18_piecewise_nonvacuous :
  (forall i, (S i < length [0; 1; 3])%nat -> nth i [0; 1; 3] 0 < nth (S i) [0; 1; 3] 0) /\
  piecewise 2 [0; 1; 3] [0; 10; 30] = Some 20 /\ piecewise 1 [0; 1; 3] [0; 10; 30] = Some 10 /\
  piecewise 4 [0; 1; 3] [0; 10; 30] = None /\ piecewise (-1) [0; 1; 3] [0; 10; 30] = None.
Proof. exact piecewise_example. Qed.
