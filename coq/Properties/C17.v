(** C17 -- the JSON single-model runner is equivalent to a direct run and always answers.
    Only statements, each closed by [exact <lemma>]; proofs live in Json/*Proofs.v. *)
From Coq Require Import String ZArith List.
From OW Require Import Json.Encode Json.EncodeProofs.
Import ListNotations.
Local Open Scope Z_scope.

Theorem C17_json_safe_array_nested : forall (T : Type) (classify : T -> fclass) (v : view T) (d : nat),
  length (vstrides v) = length (vdims v) -> (d < length (vdims v))%nat ->
  json_safe_array classify v (Z.of_nat d) =
  nested (skipn d (vdims v))
         (fun idx => option_map (json_safe_value classify) (vget v (repeat 0 d ++ idx))).
Proof. exact (@json_safe_array_nested). Qed.
Print Assumptions C17_json_safe_array_nested.
