(** C17 -- the JSON single-model runner is equivalent to a direct run and always answers.
    Only statements, each closed by [exact <lemma>]; proofs live in Json/*Proofs.v and
    Json/Examples.v.

    Level: DECODED requests and ENCODED value trees (encoding/json is trusted).  The model
    description, InitialiseStates and the one-cell kernel are arguments ([catalog]), so the
    statements hold for every catalogued model.  [T] is the number type, [zero] its 0.0 and
    [classify] what math.IsNaN / math.IsInf see of a number.

    What is NOT claimed: "always answers" is false for the code as it is (C17_always_answers_refuted,
    C17_kernel_panic_kills_the_runner, C17_split_states_short_kills_the_runner); the exact
    conditions under which the runner does answer are in C17_run_single_total. *)
From Coq Require Import Ascii String ZArith List Bool.
From OW Require Import Json.Encode Json.EncodeProofs Json.Request Json.RequestProofs Json.Examples.
Import ListNotations.
Local Open Scope Z_scope.

(* ------------------------------------------------------------------ JSON-safe conversion *)

(** For EVERY view (flat buffer, dims, start, per-axis strides: every chain of slices of every
    array) and EVERY shift dimension d < ndims, JsonSafeArray is the nesting of dims[d..] whose
    leaf (i_d,..) is the JSON-safe form of element (0,..,0,i_d,..); it panics ([None]) exactly
    when that nesting reads outside the buffer or meets a negative extent. *)
Theorem C17_json_safe_array_nested :
  forall (T : Type) (classify : T -> fclass) (v : view T) (d : nat),
  length (vstrides v) = length (vdims v) -> (d < length (vdims v))%nat ->
  json_safe_array classify v (Z.of_nat d) =
  nested (skipn d (vdims v))
         (fun idx => option_map (json_safe_value classify) (vget v (repeat 0 d ++ idx))).
Proof. exact (@json_safe_array_nested). Qed.
Print Assumptions C17_json_safe_array_nested.

(** The same in words: the result is arrays nested exactly like dims[d..], and the value at
    path (i_d,..) is the JSON-safe form of element (0,..,0,i_d,..). *)
Theorem C17_json_safe_array_shape_and_leaves :
  forall (T : Type) (classify : T -> fclass) (v : view T) (d : nat) (j : jvalue T),
  length (vstrides v) = length (vdims v) -> (d < length (vdims v))%nat ->
  json_safe_array classify v (Z.of_nat d) = Some j ->
  jshape (skipn d (vdims v)) j /\
  forall idx, Forall2 (fun i n => 0 <= i < n) idx (skipn d (vdims v)) ->
    exists x, vget v (repeat 0 d ++ idx) = Some x /\ jpath j idx = Some (json_safe_value classify x).
Proof. exact (@json_safe_array_shape_and_leaves). Qed.
Print Assumptions C17_json_safe_array_shape_and_leaves.

(** non-finite numbers are the strings NaN, +Inf, -Inf; finite ones stay numbers *)
Theorem C17_json_safe_value :
  forall (T : Type) (classify : T -> fclass) (x : T),
  match classify x with
  | Finite => json_safe_value classify x = JNum x
  | IsNaN => json_safe_value classify x = JStr (jstr "NaN")
  | PosInf => json_safe_value classify x = JStr (jstr "+Inf")
  | NegInf => json_safe_value classify x = JStr (jstr "-Inf")
  end.
Proof. exact (@json_safe_value_cases). Qed.
Print Assumptions C17_json_safe_value.

(** a shift dimension outside 0..ndims-1 is a panic (not in the property's domain) *)
Theorem C17_json_safe_array_bad_shift :
  forall (T : Type) (classify : T -> fclass) (v : view T) (s : Z),
  s < 0 \/ Z.of_nat (length (vdims v)) <= s -> json_safe_array classify v s = None.
Proof. exact (@json_safe_array_bad_shift). Qed.
Print Assumptions C17_json_safe_array_bad_shift.

(* ------------------------------------------------------------------ the runner *)

(** For every request that names a catalogued model [m] (InitialiseStates returns [st]) and
    supplies at least one of its inputs, all supplied ones of one length [len]:
    if the direct one-cell run -- defaults for the missing parameters, zero series for the
    missing inputs, the model's own initial states (supplied states are ignored by the code) --
    returns (outs, fin) shaped like the output array, then the runner answers with exactly the
    encoding of (outs, fin), and its log is the blank first entry followed by one entry per
    missing parameter and then one per missing input, in description order.
    (splitOutputs: names must be distinct, and only the first |state names| states are reported.) *)
Theorem C17_run_single_equals_direct :
  forall (T : Type) (zero : T) (classify : T -> fclass)
         (cat : catalog) (split : bool) (req : request) (m : model) (st : list T) (len : nat)
         (outs : list (list T)) (fin : list T),
  runnable cat req m st len ->
  direct_run m (resolved_params (m_desc m) req) (resolved_inputs zero (m_desc m) req len) = Some (outs, fin) ->
  well_shaped (m_desc m) len outs ->
  (split = true -> NoDup (d_outputs (m_desc m)) /\ NoDup (d_states (m_desc m)) /\
                   (length (d_states (m_desc m)) <= length fin)%nat) ->
  run_single zero classify cat split req =
  Responded (mkResponse (LBlank :: param_log (m_desc m) req ++ input_log (m_desc m) req)
                        (Some (enc_outputs classify split (m_desc m) outs))
                        (Some (enc_states classify split (m_desc m) fin))).
Proof. exact (@run_single_equals_direct). Qed.
Print Assumptions C17_run_single_equals_direct.

(** Every decoded request, and every decode failure, has exactly the outcome of its class:
    an error entry and no result for a decode failure, an empty or unknown model name, no input at
    all, unequal input lengths; a result otherwise -- unless the model's own code panics, which
    kills the process ([Crashed]). *)
Theorem C17_run_single_total :
  forall (T : Type) (zero : T) (classify : T -> fclass) (cat : catalog) (split : bool) (d : option request),
  match d with
  | None => run_single_decoded zero classify cat split d = Responded (error_response LErrDecode)
  | Some req =>
    run_single_decoded zero classify cat split d = run_single zero classify cat split req /\
    match classify_request cat req with
    | CNoName => run_single zero classify cat split req = Responded (error_response LErrNoName)
    | CUnknown => run_single zero classify cat split req = Responded (error_response (LErrUnknown (q_name req)))
    | CInitPanics _ => run_single zero classify cat split req = Crashed (Some empty_response)
    | CNoInputs _ => run_single zero classify cat split req = Responded (error_response LErrNoInputs)
    | CBadLength _ n got expected =>
      run_single zero classify cat split req
      = Responded (error_response (LErrInputLength n got (Z.of_nat expected)))
    | CRunnable m len =>
      match direct_run m (resolved_params (m_desc m) req) (resolved_inputs zero (m_desc m) req len) with
      | None => run_single zero classify cat split req = Crashed None
      | Some (outs, fin) =>
        well_shaped (m_desc m) len outs ->
        (split = true -> NoDup (d_outputs (m_desc m)) /\ NoDup (d_states (m_desc m)) /\
                         (length (d_states (m_desc m)) <= length fin)%nat) ->
        exists o s, run_single zero classify cat split req
                    = Responded (mkResponse (LBlank :: param_log (m_desc m) req ++ input_log (m_desc m) req)
                                            (Some o) (Some s))
      end
    end
  end.
Proof. exact (@run_single_total). Qed.
Print Assumptions C17_run_single_total.

(* ------------------------------------------------------------------ where "always answers" fails *)

(** a panicking kernel kills the runner: no document *)
Theorem C17_kernel_panic_kills_the_runner :
  forall (T : Type) (zero : T) (classify : T -> fclass) (cat : catalog) (split : bool) (req : request)
         (m : model) (st : list T) (len : nat),
  runnable cat req m st len ->
  m_kernel m (resolved_params (m_desc m) req) st (resolved_inputs zero (m_desc m) req len) = None ->
  run_single zero classify cat split req = Crashed None.
Proof. exact (@run_single_kernel_panic). Qed.
Print Assumptions C17_kernel_panic_kills_the_runner.

(** splitOutputs with fewer states than state names kills the runner inside encodeResults *)
Theorem C17_split_states_short_kills_the_runner :
  forall (T : Type) (zero : T) (classify : T -> fclass) (cat : catalog) (req : request)
         (m : model) (st : list T) (len : nat) (outs : list (list T)) (fin : list T),
  runnable cat req m st len ->
  m_kernel m (resolved_params (m_desc m) req) st (resolved_inputs zero (m_desc m) req len) = Some (outs, fin) ->
  well_shaped (m_desc m) len outs -> NoDup (d_outputs (m_desc m)) ->
  (length fin < length (d_states (m_desc m)))%nat ->
  run_single zero classify cat true req = Crashed None.
Proof. exact (@run_single_split_states_short). Qed.
Print Assumptions C17_split_states_short_kills_the_runner.

(** concrete witness: a catalogued model whose direct run succeeds, and the runner dies *)
Theorem C17_always_answers_refuted :
  exists (cat : catalog (T:=Z)) (req : request) (m : model) outs fin,
    cat (q_name req) = Some m /\
    direct_run m (resolved_params (m_desc m) req) (resolved_inputs 0 (m_desc m) req 2) = Some (outs, fin) /\
    run_single 0 toy_classify cat true req = Crashed None.
Proof. exact always_answers_refuted. Qed.
Print Assumptions C17_always_answers_refuted.

(* ------------------------------------------------------------------ non-vacuity *)
Example C17_example_defaults_and_missing_input :
  toy_run true (mkRequest (jstr "Sum2") [(jstr "b", Some [1; 2; 3])] [] [])
  = Responded (mkResponse [LBlank; LParamDefault (jstr "scale") 2; LMissingInput (jstr "a")]
                          (Some (JObj [(jstr "out", JArr [JNum 2; JNum 4; JNum 6])]))
                          (Some (JObj [(jstr "s", JNum 0)]))).
Proof. exact toy_defaults_and_missing_input. Qed.

Example C17_example_superset_order_nonfinite :
  toy_run false (mkRequest (jstr "Sum2")
                           [(jstr "zz", Some [9]); (jstr "b", Some [1; 2000]); (jstr "a", Some [1; 2]);
                            (jstr "b", Some [7; 7; 7])]
                           [(jstr "s", 5)]
                           [(jstr "other", 1); (jstr "scale", -1000); (jstr "scale", 3)])
  = Responded (mkResponse [LBlank]
                          (Some (JArr [JArr [JStr (jstr "NaN"); JStr (jstr "NaN")]]))
                          (Some (JArr [JNum 0]))).
Proof. exact toy_superset_nonfinite. Qed.

Example C17_example_error_cases :
  toy_run true (mkRequest [] [] [] []) = Responded (error_response LErrNoName) /\
  toy_run true (mkRequest (jstr "Nope") [] [] []) = Responded (error_response (LErrUnknown (jstr "Nope"))) /\
  toy_run true (mkRequest (jstr "Sum2") [(jstr "zz", Some [1])] [] []) = Responded (error_response LErrNoInputs) /\
  toy_run true (mkRequest (jstr "Sum2") [(jstr "a", None)] [] []) = Responded (error_response LErrNoInputs) /\
  toy_run true (mkRequest (jstr "Sum2") [(jstr "b", Some [1; 2; 3]); (jstr "a", Some [1; 2])] [] [])
  = Responded (error_response (LErrInputLength (jstr "b") 3 2)) /\
  run_single_decoded 0 toy_classify toy_catalog true None = Responded (error_response LErrDecode).
Proof. exact toy_error_cases. Qed.

Example C17_example_stepped_view :
  json_safe_array toy_classify toy_view 0
  = Some (JArr [JArr [JNum 10; JNum 12]; JArr [JNum 20; JStr (jstr "NaN")]]) /\
  json_safe_array toy_classify toy_view 1 = Some (JArr [JNum 10; JNum 12]) /\
  json_safe_array toy_classify toy_view 2 = None /\
  json_safe_array toy_classify (mkView [1; 2] [3] 0 [1]) 0 = None.
Proof. exact toy_view_nested. Qed.
