(** C09 — checked-in generated code is exactly what the generators produce; every
    OW-SPEC model is in the catalogue and its Description lists the spec's
    parameters (defaults, ranges, dimensions), inputs, states, outputs in spec order.

    Clause 1 (byte identity of the 47 generated files) is NOT a theorem: it is a
    byte comparison against the re-executed generators, done by tools/c09.py on
    every run.  This file holds clauses 2-3: a model [describe] of what
    ow-specgen + the template + the Go compiler make of a spec
    (Wrapper/SpecDescribe.v), theorems about it for ALL specs, and the comparison
    of [describe] with the RUNNING catalogue for the data regenerated today
    (Gen/Specs.v from the OW-SPEC blocks, Gen/CatalogDump.v from a binary linked
    against /repo).  Only statements, each closed by [exact]; proofs are in
    Wrapper/SpecDescribeProofs.v. *)
From Coq Require Import ZArith String List Ascii Permutation.
From OW Require Import Wrapper.SpecTypes Wrapper.SpecDescribe Wrapper.SpecDescribeProofs.
From OW Require Gen.Specs Gen.CatalogDump Gen.SynthSpecs Gen.SynthCatalog.
Import ListNotations.
Local Open Scope Z_scope.

(** ** For ALL specs: names, order and parsed values are preserved.
    [param_name], [param_dims], [param_toks] are the model of main.go's parsing
    of the raw yaml key / value ([split_key], [parse_param]); [parse_float] is
    strconv.ParseFloat with "error -> 0"; [go_const] is the trip through the
    generated Go source (identity except -0 -> +0). *)
Theorem C09_describe_preserves_order : forall s d, describe s = Some d ->
  map pd_name (ds_params d) = map param_name (sp_params s)
  /\ ds_inputs d = sp_inputs s /\ ds_states d = sp_states s /\ ds_outputs d = sp_outputs s
  /\ length (ds_params d) = length (sp_params s)
  /\ (forall i p, nth_error (sp_params s) i = Some p ->
        exists pd, nth_error (ds_params d) i = Some pd
          /\ pd_name pd = param_name p
          /\ pd_dims pd = param_dims p
          /\ pd_default pd = go_const (parse_float (pt_default (param_toks p)))
          /\ pd_lo pd = go_const (parse_float (pt_min (param_toks p)))
          /\ pd_hi pd = go_const (parse_float (pt_max (param_toks p)))
          /\ pd_units pd = sa (pt_units (param_toks p))
          /\ pd_desc pd = sa (pt_desc (param_toks p)))
  /\ NoDup (ds_dims d)
  /\ (forall x, In x (ds_dims d) <-> exists p, In p (sp_params s) /\ In x (param_dims p)).
Proof. exact describe_preserves_order. Qed.
Print Assumptions C09_describe_preserves_order.

(** ** For ALL texts: the matcher recognises the documented parameter syntax
    [min,max]units description, default=x   ([F_shape] = the language of the
    number expression, [stops p l] = l is empty or its first character fails p). *)
Theorem C09_parameter_syntax_full : forall lo hi u d ws df rest,
  F_shape lo -> F_shape hi -> forallb is_space u = true ->
  stops is_space d -> forallb not_comma d = true ->
  forallb is_space ws = true -> F_shape df -> stops digit_or_point rest ->
  parse_param ("["%char :: lo ++ ","%char :: hi ++ "]"%char :: u ++ d ++ ","%char :: ws ++ default_kw ++ df ++ rest)
  = {| pt_min := lo; pt_max := hi; pt_units := u; pt_desc := d; pt_default := df |}.
Proof. exact parse_param_full. Qed.
Print Assumptions C09_parameter_syntax_full.

(** missing default: no default token, Description().Default = 0 *)
Theorem C09_parameter_syntax_range_only : forall lo hi u d,
  F_shape lo -> F_shape hi -> forallb is_space u = true ->
  stops is_space d -> forallb not_comma d = true ->
  parse_param ("["%char :: lo ++ ","%char :: hi ++ "]"%char :: u ++ d)
  = {| pt_min := lo; pt_max := hi; pt_units := u; pt_desc := d; pt_default := [] |}.
Proof. exact parse_param_range_only. Qed.
Print Assumptions C09_parameter_syntax_range_only.

(** missing range: Range = [0,0], no units *)
Theorem C09_parameter_syntax_default_only : forall ws0 d ws df rest,
  forallb is_space ws0 = true -> stops is_space d -> forallb not_comma d = true ->
  stops (fun c => eqc c "["%char) (ws0 ++ d ++ [","%char]) ->
  forallb is_space ws = true -> F_shape df -> stops digit_or_point rest ->
  parse_param (ws0 ++ d ++ ","%char :: ws ++ default_kw ++ df ++ rest)
  = {| pt_min := []; pt_max := []; pt_units := []; pt_desc := d; pt_default := df |}.
Proof. exact parse_param_default_only. Qed.
Print Assumptions C09_parameter_syntax_default_only.

Theorem C09_parameter_syntax_plain : forall ws0 d,
  forallb is_space ws0 = true -> stops is_space d -> forallb not_comma d = true ->
  stops (fun c => eqc c "["%char) (ws0 ++ d) ->
  parse_param (ws0 ++ d)
  = {| pt_min := []; pt_max := []; pt_units := []; pt_desc := d; pt_default := [] |}.
Proof. exact parse_param_plain. Qed.
Print Assumptions C09_parameter_syntax_plain.

(** ** For the data regenerated today: every spec model is in the running
    catalogue with Description() = describe spec, and the catalogue has nothing
    else.  The bound is the generated constant [Gen.Specs.spec_count] (printed
    below; 41 at the time of writing): the statement is about exactly that many
    models and that many catalogue entries.  [desc_same] is equality of
    parameters, states, inputs, outputs and equality up to permutation of the
    list of dimension names (the generator ranges over a Go map there). *)
Theorem C09_catalogue_matches_specs :
  Z.of_nat (length Gen.Specs.all) = Gen.Specs.spec_count
  /\ Z.of_nat (length Gen.CatalogDump.catalog) = Gen.Specs.spec_count
  /\ NoDup (map sp_name Gen.Specs.all) /\ NoDup (map fst Gen.CatalogDump.catalog)
  /\ (forall s, In s Gen.Specs.all ->
        exists d d', describe s = Some d /\ lookup (sp_name s) Gen.CatalogDump.catalog = Some d'
          /\ ds_params d = ds_params d' /\ ds_states d = ds_states d' /\ ds_inputs d = ds_inputs d'
          /\ ds_outputs d = ds_outputs d' /\ Permutation (ds_dims d) (ds_dims d'))
  /\ (forall k d', In (k, d') Gen.CatalogDump.catalog -> exists s, In s Gen.Specs.all /\ sp_name s = k).
Proof. exact catalogue_matches_specs. Qed.
Print Assumptions C09_catalogue_matches_specs.
Eval vm_compute in Gen.Specs.spec_count.

(** ** The catalogue entry of every spec IS the wrapper generated for it.
    Equal Descriptions do not identify the registered object: a hand-written
    init() may overwrite the generated registration (Go runs the init functions
    of a package in file-name order) with a type that embeds the wrapper, keeps
    its Description() and replaces Run.  So the running binary also reports, for
    every key, the dynamic type of what the registered factory returns
    (reflect.TypeOf), of a second call, whether the two objects are distinct,
    and the source files (runtime.FuncForPC) of the registered function and of
    every method of sim.TimeSteppingModel the object dispatches to; the
    translator reports where ow-specgen puts each wrapper ([Gen.Specs.wrappers]).
    For every spec: the dynamic type is exactly the pointer to the struct type
    named like the spec in the package of the spec's directory, both calls give
    that type and distinct objects, the registered function is declared in
    generated_<name>.go, and no interface method is missing or promoted from an
    embedded type; and the catalogue has no entry without a spec. *)
Theorem C09_catalogue_entries_are_generated_wrappers :
  map sp_name Gen.Specs.all = map fst Gen.Specs.wrappers
  /\ NoDup (map fst Gen.CatalogDump.catalog_identity)
  /\ (forall s, In s Gen.Specs.all ->
        exists w e, In (sp_name s, w) Gen.Specs.wrappers /\ wi_name w = sp_name s
          /\ lookup_gen (sp_name s) Gen.CatalogDump.catalog_identity = Some e
          /\ ei_type e = wi_type w /\ ei_ptr_to_struct e = true
          /\ ei_pkg e = wi_pkg w /\ ei_name e = sp_name s
          /\ ei_second_type e = ei_type e /\ ei_fresh e = true
          /\ ei_factory_file e = wi_file w
          /\ ei_methods e <> []
          /\ (forall m f, In (m, f) (ei_methods e) -> f <> EmptyString /\ f <> autogenerated))
  /\ (forall k e, In (k, e) Gen.CatalogDump.catalog_identity -> exists s, In s Gen.Specs.all /\ sp_name s = k).
Proof. exact catalogue_entries_are_generated_wrappers. Qed.
Print Assumptions C09_catalogue_entries_are_generated_wrappers.

(** The translator's own tokenisation (Go regexp package on the same expression,
    strings.Split, exact decimals) agrees with the Coq matcher on every parameter
    of every spec regenerated today. *)
Theorem C09_translator_tokens_agree :
  forall s, In s Gen.Specs.all -> forall p, In p (sp_params s) -> tokens_agree p = true.
Proof. exact translator_tokens_agree. Qed.
Print Assumptions C09_translator_tokens_agree.

(** ** Correspondence of [describe] with the real tool chain on a synthetic corpus
    (corpus/C09/synth_models.go.txt: 46 edge cases of the parameter text, table
    parameters with one and two dimensions, a renamed model, reordered inputs /
    states / outputs), run on every check through /repo's ow-specgen, the Go
    compiler and a running binary. *)
Theorem C09_synthetic_corpus_matches :
  Z.of_nat (length Gen.SynthSpecs.all) = Gen.SynthSpecs.spec_count
  /\ Z.of_nat (length Gen.SynthCatalog.catalog) = Gen.SynthSpecs.spec_count
  /\ NoDup (map sp_name Gen.SynthSpecs.all) /\ NoDup (map fst Gen.SynthCatalog.catalog)
  /\ (forall s, In s Gen.SynthSpecs.all ->
        exists d d', describe s = Some d /\ lookup (sp_name s) Gen.SynthCatalog.catalog = Some d'
          /\ ds_params d = ds_params d' /\ ds_states d = ds_states d' /\ ds_inputs d = ds_inputs d'
          /\ ds_outputs d = ds_outputs d' /\ Permutation (ds_dims d) (ds_dims d'))
  /\ (forall k d', In (k, d') Gen.SynthCatalog.catalog -> exists s, In s Gen.SynthSpecs.all /\ sp_name s = k).
Proof. exact synthetic_corpus_matches. Qed.
Print Assumptions C09_synthetic_corpus_matches.

(** the identity check passes on wrappers freshly generated in the scratch copy (another source root),
    and rejects an entry whose type embeds the wrapper *)
Theorem C09_synthetic_entries_are_generated_wrappers :
  identities_agree Gen.SynthSpecs.all Gen.SynthSpecs.wrappers Gen.SynthCatalog.catalog_identity.
Proof. exact synthetic_entries_are_generated_wrappers. Qed.
Print Assumptions C09_synthetic_entries_are_generated_wrappers.

Theorem C09_synthetic_tokens_agree :
  forall s, In s Gen.SynthSpecs.all -> forall p, In p (sp_params s) -> tokens_agree p = true.
Proof. exact synthetic_tokens_agree. Qed.
Print Assumptions C09_synthetic_tokens_agree.

(** ** Observations about the generator's expression (hold for every text).
    Neither contradicts the property as worded (units are not in its list, and
    "default=1" without the comma is not the documented syntax), but both differ
    from what the spec author evidently meant; tools/c09.py lists the affected
    parameters of today's specs in its evidence. *)
Theorem C09_units_are_whitespace : forall txt, forallb is_space (pt_units (parse_param txt)) = true.
Proof. exact units_are_whitespace. Qed.
Print Assumptions C09_units_are_whitespace.

Example C09_default_without_comma_is_description :
  parse_param (la "default=1")
  = {| pt_min := []; pt_max := []; pt_units := []; pt_desc := la "default=1"; pt_default := [] |}
  /\ parse_float [] = 0
  /\ pt_default (parse_param (la "scale, default=1")) = la "1"
  /\ parse_float (la "1") = 4607182418800017408.
Proof. exact default_without_comma_is_description. Qed.

(** ** Non-vacuity *)
Example C09_missing_pieces :
  parse_float [] = 0 /\ go_const 0 = 0
  /\ forall k, describe_param {| rp_key := k; rp_val := "<nil>"; tk_name := ""; tk_dims := []; tk_min := ""; tk_max := "";
                                 tk_default := ""; tk_units := ""; tk_desc := ""; tk_min_dec := None; tk_max_dec := None;
                                 tk_default_dec := None |}
       = {| pd_name := sa (fst (split_key (la k))); pd_default := 0; pd_desc := ""; pd_lo := 0; pd_hi := 0;
            pd_open := (false, false); pd_units := ""; pd_dims := map sa (snd (split_key (la k))) |}.
Proof. exact missing_pieces. Qed.
