(** C11 -- flow routing conserves volume and honours its storage-discharge relation.
    Only statements, each closed by [exact <lemma>]; the proofs are in
    KernelProofs/{Muskingum,Lag,StorageRouting,StorageRoutingRoot}.v.  All
    numerical statements are over the real-number instance [RArith] of the
    kernels in Kernels/{Muskingum,Lag,StorageRouting}.v (the same Gallina terms
    are run at binary64 against the Go code by tools/c11.py).

    Status of the StorageRouting clauses on the CURRENT code:
      * per-exit balance identity, non-negativity, exit 3 unreachable: proved for all inputs;
      * closed balance / constitutive statements: [_partial] -- they assume that the solver
        did not leave on exit 7 (FindRoot returned on its iteration / convergenceLimit test
        with |delta| >= massBalanceLimit) and bias < 0.999; for the LINEAR storage law (m = 1)
        exit 7 is proved impossible and the closed balance statement is complete
        ([C11_sr_balance_closed_linear]);
      * two clauses are REFUTED by concrete witnesses inside the stated domain
        ([C11_sr_highbias_balance_refuted], [C11_sr_maxflow_lateral_refuted]); a third failure
        class (exit 7 reached with tiny flows) cannot be evaluated symbolically over R and is
        exhibited only by the binary64 run of the same model (finding sr-solver-unconverged). *)
From Coq Require Import ZArith Reals List.
From OW Require Import Base.Arith Base.RInst Base.Mealy.
From OW Require Import Kernels.Muskingum Kernels.Lag Kernels.StorageRouting.
From OW Require Import KernelProofs.Muskingum KernelProofs.Lag KernelProofs.StorageRouting KernelProofs.StorageRoutingBound
  KernelProofs.StorageRoutingLinear.
Import ListNotations.
Local Open Scope R_scope.

(** ------------------------------------------------------------------ Muskingum *)

(** The three weights sum to one (non-zero denominator). *)
Theorem C11_musk_weights_sum_one : forall k x dt,
  musk_denom k x dt <> 0 ->
  let w := musk_setup k x dt in a1 w + a2 w + a3 w = 1.
Proof. exact musk_weights_sum_one. Qed.
Print Assumptions C11_musk_weights_sum_one.

(** The weights apply to ALL water entering the reach: a steady upstream +
    lateral inflow c, in a reach at the steady state, passes unchanged. *)
Theorem C11_musk_steady_passes : forall (w : musk_weights) c xs,
  a1 w + a2 w + a3 w = 1 ->
  Forall (fun p => fst p + snd p = c) xs ->
  musk_run w (c, c) xs = ((c, c), repeat c (length xs)).
Proof. exact musk_steady_passes. Qed.
Print Assumptions C11_musk_steady_passes.

(** Exact telescoping identity for ANY weights, state and series. *)
Theorem C11_musk_telescope : forall (w : musk_weights) xs u0 o0,
  let '((uT, oT), os) := musk_run w (u0, o0) xs in
  Rsum os = a1 w * Rsum (totals xs) + a2 w * (Rsum (totals xs) + u0 - uT)
            + a3 w * (Rsum os + o0 - oT).
Proof. exact musk_telescope. Qed.
Print Assumptions C11_musk_telescope.

(** Volume budget for the weights the code computes, any series and state:
    dt*sum(out) + V(final) = dt*sum(in + lat) + V(initial). *)
Theorem C11_musk_volume_budget : forall k x dt xs u0 o0,
  musk_denom k x dt <> 0 ->
  let '((uT, oT), os) := musk_run (musk_setup k x dt) (u0, o0) xs in
  dt * Rsum os + musk_volume k x dt uT oT = dt * Rsum (totals xs) + musk_volume k x dt u0 o0.
Proof. exact musk_volume_budget. Qed.
Print Assumptions C11_musk_volume_budget.

(** Finite event from rest followed by n+1 zero steps: what has not left yet is a3^n times a constant. *)
Theorem C11_musk_event_volume : forall (w : musk_weights) xs n,
  a1 w + a2 w + a3 w = 1 -> a1 w + a2 w <> 0 ->
  let '((u1, o1), _) := musk_run w (0, 0) xs in
  let '(_, os) := musk_run w (0, 0) (xs ++ repeat (0, 0) (S n)) in
  Rsum os = Rsum (totals xs) - a3 w / (a1 w + a2 w) * (a3 w ^ n * (a2 w * u1 + a3 w * o1)).
Proof. exact musk_event_volume. Qed.
Print Assumptions C11_musk_event_volume.

(** The whole Muskingum clause in the stable region 2KX <= dt <= 2K(1-X):
    weights sum to one; steady flow passes; the outflow volume of any finite
    event converges to the inflow + lateral volume; outflow is never negative. *)
Theorem C11_musk_stable_region : forall k x dt,
  0 <= k -> 0 <= x -> 0 < dt -> 2 * k * x <= dt -> dt <= 2 * k * (1 - x) ->
  let w := musk_setup k x dt in
  a1 w + a2 w + a3 w = 1 /\
  (forall c xs, Forall (fun p => fst p + snd p = c) xs ->
     musk_run w (c, c) xs = ((c, c), repeat c (length xs))) /\
  (forall xs eps, 0 < eps -> exists N, forall n, (n >= N)%nat ->
     Rabs (Rsum (snd (musk_run w (0, 0) (xs ++ repeat (0, 0) (S n)))) - Rsum (totals xs)) < eps) /\
  (forall xs u o, Forall (fun p => 0 <= fst p /\ 0 <= snd p) xs -> 0 <= u -> 0 <= o ->
     Forall (fun q => 0 <= q) (snd (musk_run w (u, o) xs))).
Proof. exact musk_stable_region_summary. Qed.
Print Assumptions C11_musk_stable_region.

(** the kernel the wrapper calls is [musk_run] on the zipped inputs, carrying (inflow+lateral, outflow) *)
Theorem C11_musk_kernel_is_run : forall k x dt s u0 o0 rest inflows laterals,
  muskingum_kernel [k; x; dt] (s :: u0 :: o0 :: rest) [inflows; laterals] =
  let '((uT, oT), os) := musk_run (musk_setup k x dt) (u0, o0) (combine inflows laterals) in
  Some ([os], s :: uT :: oT :: rest).
Proof. exact muskingum_kernel_run. Qed.
Print Assumptions C11_musk_kernel_is_run.

Example C11_musk_nonvacuous :
  let w := musk_setup 86400 (1/5) 86400 in
  a1 w = 3/13 /\ a2 w = 7/13 /\ a3 w = 3/13 /\
  2 * 86400 * (1/5) <= 86400 <= 2 * 86400 * (1 - 1/5) /\
  musk_run w (14, 14) [(10, 4); (10, 4)] = ((14, 14), [14; 14]).
Proof. exact musk_example. Qed.

(** ------------------------------------------------------------------ Lag *)

(** For ANY lag L >= 0 and ANY series (also shorter than the lag), with a
    buffer of L entries: outflow = first T entries of (buffer ++ inflow), new
    buffer = last L entries.  Stated for every [Arith] instance (no arithmetic
    is involved), in particular for the binary64 run. *)
Theorem C11_lag_spec : forall (T : Type) (A : Arith T) (L : nat) (inflow buffer : list T),
  length buffer = L ->
  lag_body L inflow buffer
  = Some (firstn (length inflow) (buffer ++ inflow), lastn L (buffer ++ inflow)).
Proof. exact @lag_spec. Qed.
Print Assumptions C11_lag_spec.

(** The function the wrapper calls, for every timeLag with integer part L >= 0
    and every state vector at least L long (the rest is carried through). *)
Theorem C11_lag_fn_spec : forall (T : Type) (A : Arith T) (timeLag : T) (L : nat) (inflow lagged : list T),
  truncZ timeLag = Z.of_nat L -> (L <= length lagged)%nat ->
  let whole := firstn L lagged ++ inflow in
  lag_fn timeLag inflow lagged = Some (firstn (length inflow) whole, lastn L whole ++ skipn L lagged).
Proof. exact @lag_fn_spec. Qed.
Print Assumptions C11_lag_fn_spec.

(** Cold start from the buffer that initLag creates. *)
Theorem C11_lag_cold_start : forall (T : Type) (A : Arith T) (timeLag : T) (L : nat) (inflow : list T),
  truncZ timeLag = Z.of_nat L ->
  exists buffer, lag_init timeLag = Some buffer /\ length buffer = L /\
    lag_fn timeLag inflow buffer
    = Some (firstn (length inflow) (repeat zero L ++ inflow), lastn L (repeat zero L ++ inflow)).
Proof. exact @lag_cold_start. Qed.
Print Assumptions C11_lag_cold_start.

(** Carried-over buffer: routing xs and then ys equals routing xs ++ ys. *)
Theorem C11_lag_compose : forall (T : Type) (A : Arith T) (L : nat) (xs ys buffer : list T),
  length buffer = L ->
  exists o1 b1 o2 b2,
    lag_body L xs buffer = Some (o1, b1) /\ lag_body L ys b1 = Some (o2, b2) /\
    lag_body L (xs ++ ys) buffer = Some (o1 ++ o2, b2).
Proof. exact @lag_compose. Qed.
Print Assumptions C11_lag_compose.

Example C11_lag_nonvacuous :
  @lag_body R RArith 3 [1; 2] [7; 8; 9] = Some ([7; 8], [9; 1; 2]) /\
  @lag_body R RArith 2 [1; 2; 3; 4] [7; 8] = Some ([7; 8; 1; 2], [3; 4]).
Proof. split; reflexivity. Qed.

(** ------------------------------------------------------------------ StorageRouting *)

(** What each of the seven exits of calcOutflow returns, and the tests that led there. *)
Theorem C11_sr_exit_paths : forall p i l pq S rate qi out sto path,
  calc_outflow p i l pq S rate = Some (qi, out, sto, path) -> path_facts p i l S rate qi out sto path.
Proof. exact calc_outflow_inv. Qed.
Print Assumptions C11_sr_exit_paths.

(** Balance identity, exactly, per exit:
      storage' - storage = (inflow + lateral - outflow - evapflux) * dt + berr
    ([ns] = mass-balance storage max(raw,0), [raw] the unclamped one). *)
Theorem C11_sr_balance_per_path : forall p i l pq S rate, 0 < p_dt p ->
  forall qi out sto path,
  calc_outflow p i l pq S rate = Some (qi, out, sto, path) ->
  berr p i l S rate out sto =
  match path with
  | 1%nat => Rmax 0 (- raw p i l S rate)
  | 3%nat => (sto - ns p i l S rate) + Rmax 0 (- raw p i l S rate)
  | 4%nat => Rmax 0 (- (raw p i l S rate - out * p_dt p))
  | _ => Rmax 0 (sto - ns p i l S rate) + Rmax 0 (- raw p i l S rate)
  end.
Proof. exact sr_balance_per_path. Qed.
Print Assumptions C11_sr_balance_per_path.

(** Closed per-step statement: outflow and storage non-negative, exit 3 never
    taken, the balance error is >= 0, is 0 whenever outflow > 0, and is below
    massBalanceLimit unless the solver left on exit 7. *)
Theorem C11_sr_step_closed : forall p i l pq S rate,
  0 < p_dt p -> 0 <= S -> 0 <= l -> (forall q, 0 <= s_index p q) ->
  forall qi out sto path,
  p_bias p < 999 / 1000 ->
  calc_outflow p i l pq S rate = Some (qi, out, sto, path) ->
  0 <= out /\ 0 <= sto /\ path <> 3%nat /\
  0 <= berr p i l S rate out sto /\ (0 < out -> berr p i l S rate out sto = 0) /\
  (path <> 7%nat -> berr p i l S rate out sto < limit).
Proof. exact sr_step_closed. Qed.
Print Assumptions C11_sr_step_closed.

(** The storage law is non-negative for the parameters the code derives in the stated domain. *)
Theorem C11_sr_storage_law_nonneg : forall bias k m area dead dt,
  sr_stable bias k m dead dt -> forall q, 0 <= s_index (sr_setup bias k m area dead dt) q.
Proof. exact sr_setup_sindex_nonneg. Qed.
Print Assumptions C11_sr_storage_law_nonneg.

(** Every timestep of every run of the kernel, parameters in the stated domain
    with bias < 0.999.  PARTIAL: see the header. *)
Theorem C11_sr_balance_closed_partial : forall bias k m area dead dt s pin pout rest ins lats rain evp os sts,
  sr_stable bias k m dead dt -> bias < 999 / 1000 ->
  0 <= s -> Forall (fun v => 0 <= v) lats ->
  storage_routing_run [bias; k; m; area; dead; dt] (s :: pin :: pout :: rest) [ins; lats; rain; evp] = Some (os, sts) ->
  trace_ok (sr_setup bias k m area dead dt) (sr_init s pin pout) (zip4 ins lats rain evp) os.
Proof. exact sr_kernel_closed_partial. Qed.
Print Assumptions C11_sr_balance_closed_partial.

(** LINEAR storage law (RoutingPower = 1, or within 0.001 of 1 with non-zero bias): the residual is
    affine on the solver's bracket, FindRoot's first secant trial is the exact root, exit 7 is never
    taken -- the closed statement holds with NO assumption about the solver: at every timestep of
    every run the balance error is in [0, massBalanceLimit) and 0 whenever outflow > 0. *)
Theorem C11_sr_balance_closed_linear : forall bias k m area dead dt s pin pout rest ins lats rain evp os sts,
  sr_stable bias k m dead dt -> bias < 999 / 1000 -> sr_linear_params bias m ->
  0 <= s -> Forall (fun v => 0 <= v) ins -> Forall (fun v => 0 <= v) lats ->
  storage_routing_run [bias; k; m; area; dead; dt] (s :: pin :: pout :: rest) [ins; lats; rain; evp] = Some (os, sts) ->
  trace_ok (sr_setup bias k m area dead dt) (sr_init s pin pout) (zip4 ins lats rain evp) os /\
  Forall (fun o : sr_output => snd o <> 7%nat) os.
Proof. exact sr_balance_closed_linear. Qed.
Print Assumptions C11_sr_balance_closed_linear.

(** FindRoot on an affine objective with a sign change: the result balances to the tolerance. *)
Theorem C11_find_root_affine : forall f fdx tol conv a b A B,
  (forall q, a <= q <= b -> f q = Some (A * q + B)) ->
  A * a + B < 0 -> 0 < A * b + B -> a < b -> 0 < tol ->
  forall x0 n x d, a <= x0 <= b -> (0 < n)%nat ->
  Kernels.StorageRoutingRoot.sr_find_root f fdx tol conv x0 a b n = Some (x, d) ->
  a <= x <= b /\ d = A * x + B /\ Rabs d < tol.
Proof. exact KernelProofs.StorageRoutingRoot.sr_find_root_affine. Qed.
Print Assumptions C11_find_root_affine.

(** Constitutive relation, zero (or snapped-to-zero) bias, positive outflow.  PARTIAL: exits 2, 5, 6
    and exit 4 without lateral inflow. *)
Theorem C11_sr_constitutive_closed_partial : forall bias k m area dead dt i l pq S rate qi out sto path,
  sr_stable bias k m dead dt -> Rabs bias < 1 / 1000 ->
  0 <= S -> 0 <= l ->
  calc_outflow (sr_setup bias k m area dead dt) i l pq S rate = Some (qi, out, sto, path) ->
  0 < out ->
  ((path = 2 \/ path = 5 \/ path = 6)%nat ->
     exists q, 0 <= q /\ sto = k * Rpow q m + dead /\ Rabs (q - out) * dt <= limit) /\
  (path = 4%nat -> l = 0 -> sto = 0 /\ 0 <= k * Rpow out m + dead < limit).
Proof. exact sr_constitutive_closed_partial. Qed.
Print Assumptions C11_sr_constitutive_closed_partial.

(** The same in "storage space" (the tolerance used by the executable oracle): on the converged
    exits |S - (k Q^m + dead)| <= k (massBalanceLimit/dt)^m  (sub-additivity of x^m, 0 < m <= 1). *)
Theorem C11_sr_constitutive_sspace : forall bias k m area dead dt i l pq S rate qi out sto path,
  sr_stable bias k m dead dt -> Rabs bias < 1 / 1000 ->
  0 <= S -> 0 <= l ->
  calc_outflow (sr_setup bias k m area dead dt) i l pq S rate = Some (qi, out, sto, path) ->
  0 < out -> (path = 2 \/ path = 5 \/ path = 6)%nat ->
  Rabs (sto - (k * Rpow out m + dead)) <= k * Rpow (limit / dt) m.
Proof. exact sr_constitutive_sspace. Qed.
Print Assumptions C11_sr_constitutive_sspace.

(** REFUTED on the current code (finding sr-highbias-index-storage): bias >= 0.999 inside the domain. *)
Theorem C11_sr_highbias_balance_refuted :
  exists bias k m area dead dt S i l rain evp pq,
    sr_stable bias k m dead dt /\ 0 <= S /\ 0 <= i /\ 0 <= l /\ 0 <= rain /\ 0 <= evp /\
    let p := sr_setup bias k m area dead dt in
    let rate := evap_rate p rain evp in
    exists qi out sto,
      calc_outflow p i l pq S rate = Some (qi, out, sto, 2%nat) /\
      out = 0 /\ berr p i l S rate out sto = 9568 / 10 /\ ~ (berr p i l S rate out sto < limit).
Proof. exact sr_highbias_balance_refuted. Qed.
Print Assumptions C11_sr_highbias_balance_refuted.

(** REFUTED on the current code (finding sr-maxflow-lateral-held): exit 4 with lateral inflow. *)
Theorem C11_sr_maxflow_lateral_refuted :
  exists bias k m area dead dt S i l rain evp pq,
    sr_stable bias k m dead dt /\ Rabs bias < 1 / 1000 /\
    0 <= S /\ 0 <= i /\ 0 <= l /\ 0 <= rain /\ 0 <= evp /\
    let p := sr_setup bias k m area dead dt in
    let rate := evap_rate p rain evp in
    exists qi out sto,
      calc_outflow p i l pq S rate = Some (qi, out, sto, 4%nat) /\
      0 < out /\ berr p i l S rate out sto = 0 /\
      sto - (k * Rpow out m + dead) > 259199.
Proof. exact sr_maxflow_lateral_refuted. Qed.
Print Assumptions C11_sr_maxflow_lateral_refuted.

Example C11_sr_nonvacuous_too_little_water :
  let p := sr_setup 0 43200 1 0 1000 86400 in
  calc_outflow p (1 / 1000) 0 0 0 0 = Some (0, 0, 864 / 10, 1%nat) /\
  berr p (1 / 1000) 0 0 0 0 (864 / 10) = 0.
Proof. exact sr_example_too_little_water. Qed.

Example C11_sr_nonvacuous_converged :
  let p := sr_setup 0 43200 1 0 0 86400 in
  calc_outflow p 3 0 2 0 0 = Some (2, 2, 86400, 5%nat) /\
  berr p 3 0 0 0 2 86400 = 0 /\ 86400 = 43200 * Rpow 2 1 + 0.
Proof. exact sr_example_converged. Qed.
