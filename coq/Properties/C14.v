(** C14 -- model results are a pure, causal function of parameters, states and inputs.
    Only statements, each closed by [exact <lemma>]; the proofs are in KernelProofs/HotStart*.v.

    Purity of the MODEL is by construction: every kernel is a closed Gallina
    function [params -> states -> inputs -> option (outputs * states)] with no
    other argument, so equal arguments give equal results whatever was evaluated
    before.  Purity of the IMPLEMENTATION (no information survives in model
    objects or package-level variables) is what tools/c14.py tests: same object
    twice, fresh object, after other models, all bit-compared with each other
    and with the extracted kernel.

    Causality ([causal_spec K], KernelProofs/HotStart.v): whenever both runs
    return, input blocks that agree on their first t time steps give outputs that
    agree on their first t time steps; truncating the inputs at t and replacing
    their tail are the two special cases.  Proved for all 41 catalogue kernels
    (+ the path-reporting variant of StorageRouting), for EVERY [Arith] instance. *)
From Coq Require Import List ZArith Reals.
From OW Require Import Base.Arith Base.RInst Base.FInst Base.Mealy.
From OW Require Import KernelProofs.HotStart KernelProofs.HotStartStateless KernelProofs.HotStartConstituent
  KernelProofs.HotStartRR KernelProofs.HotStartRouting KernelProofs.HotStartStorage KernelProofs.HotStartReal
  KernelProofs.HotStartWitness.
From OW Require Import Kernels.Muskingum Kernels.Lag Kernels.StorageRouting Kernels.LumpedConstituent Kernels.Decay
  Kernels.InstreamFineSediment Kernels.InstreamCoarseSediment Kernels.InstreamParticulateNutrient
  Kernels.SedimentTrapping Kernels.TrapAll Kernels.DissolvedDecay Kernels.InstreamDissolvedNutrient Kernels.Storage
  Kernels.Gr4j Kernels.Simhyd Kernels.Surm Kernels.Sacramento Kernels.Coeff
  Kernels.Scale Kernels.DeliveryRatio Kernels.DepthToRate Kernels.FixedPartition Kernels.VarPartition
  Kernels.RatingPartition Kernels.Baseflow Kernels.ComputeProportion Kernels.Gate Kernels.Input
  Kernels.PartitionDemand Kernels.Sum Kernels.EmcDwc Kernels.FixedConcentration Kernels.PassLoadIfFlow
  Kernels.DissolvedNutrients Kernels.ParticulateNutrients Kernels.BankErosion Kernels.UsleFine
  Kernels.SednetGully Kernels.SednetGullyAlt Num.Calendar Num.Climate.
Import ListNotations.

(* ------------------------------------------------------------------ generic *)
Theorem C14_run_causal : forall (S I O : Type) (step : S -> I -> S * O) s xs xs' t,
  firstn t xs = firstn t xs' -> firstn t (snd (run step s xs)) = firstn t (snd (run step s xs')).
Proof. exact (@run_causal). Qed.
Print Assumptions C14_run_causal.

(** output at step t depends only on the inputs up to and including t *)
Theorem C14_run_causal_nth : forall (S I O : Type) (step : S -> I -> S * O) s xs xs' t d,
  firstn (Datatypes.S t) xs = firstn (Datatypes.S t) xs' ->
  nth t (snd (run step s xs)) d = nth t (snd (run step s xs')) d.
Proof. exact (@run_causal_nth). Qed.
Print Assumptions C14_run_causal_nth.

Theorem C14_kernel_of_machine_causal :
  forall (T Aux St In Out : Type) (unpack : list T -> option (Aux * St))
    (zip : list (list T) -> option (list In)) (step : Aux -> St -> In -> St * Out) (good : St -> bool)
    (pack : Aux -> St -> list T) (outs : list Out -> option (list (list T))),
  zip_laws zip -> outs_laws outs -> causal_spec (kernel_of_machine unpack zip step good pack outs).
Proof. exact (@kernel_of_machine_causal). Qed.
Print Assumptions C14_kernel_of_machine_causal.

(** truncation: the outputs of the run on the first t steps are the first t outputs of the full run *)
Theorem C14_truncation : forall (T : Type) (K : kern T), causal_spec K ->
  forall s0 ins t o sT o' sT',
    K s0 ins = Some (o, sT) -> K s0 (firsts t ins) = Some (o', sT') -> firsts t o = firsts t o'.
Proof. exact (@causal_truncate). Qed.
Print Assumptions C14_truncation.

(** models that return early on a zero factor leave their output series as allocated: the kernels
    model that as a series of zeros, i.e. they rely on zero-initialised outputs (C04's hypothesis) *)
Theorem C14_zero_factor_leaves_outputs : forall (T : Type) (A : Arith T) (scale : T) (input : list T),
  eqb scale zero = true -> apply_scaling scale input = map (fun _ => zero) input.
Proof. exact (@zero_factor_leaves_outputs). Qed.
Print Assumptions C14_zero_factor_leaves_outputs.
Theorem C14_zero_area_leaves_outputs : forall (T : Type) (A : Arith T) (deltaT area : T) (input : list T),
  eqb area zero = true -> depth_to_rate deltaT area input = map (fun _ => zero) input.
Proof. exact (@zero_area_leaves_outputs). Qed.
Print Assumptions C14_zero_area_leaves_outputs.

(* ------------------------------------------------------------------ every catalogue kernel *)
Theorem C14_muskingum_kernel : forall (T : Type) (A : Arith T) (p : list T), causal_spec (muskingum_kernel p).
Proof. exact (fun T A p => proj2 (muskingum_kernel_hc p)). Qed.
Theorem C14_lag_kernel : forall (T : Type) (A : Arith T) (p : list T), causal_spec (lag_kernel p).
Proof. exact (@lag_kernel_causal). Qed.
Theorem C14_storage_routing_kernel : forall (T : Type) (A : Arith T) (p : list T), causal_spec (storage_routing_kernel p).
Proof. exact (@storage_routing_kernel_causal). Qed.
Theorem C14_storage_routing_paths_kernel : forall (T : Type) (A : Arith T) (p : list T), causal_spec (storage_routing_paths_kernel p).
Proof. exact (@storage_routing_paths_kernel_causal). Qed.
Theorem C14_lumped_constituent_routing_kernel : forall (T : Type) (A : Arith T) (p : list T), causal_spec (lumped_constituent_routing_kernel p).
Proof. exact (fun T A p => proj2 (lumped_constituent_routing_kernel_hc p)). Qed.
Theorem C14_constituent_decay_kernel : forall (T : Type) (A : Arith T) (p : list T), causal_spec (constituent_decay_kernel p).
Proof. exact (fun T A p => proj2 (constituent_decay_kernel_hc p)). Qed.
Theorem C14_instream_fine_sediment_kernel : forall (T : Type) (A : Arith T) (p : list T), causal_spec (instream_fine_sediment_kernel p).
Proof. exact (@instream_fine_sediment_kernel_causal). Qed.
Theorem C14_instream_coarse_sediment_kernel : forall (T : Type) (A : Arith T) (p : list T), causal_spec (instream_coarse_sediment_kernel p).
Proof. exact (fun T A p => proj2 (instream_coarse_sediment_kernel_hc p)). Qed.
Theorem C14_instream_particulate_nutrient_kernel : forall (T : Type) (A : Arith T) (p : list T), causal_spec (instream_particulate_nutrient_kernel p).
Proof. exact (fun T A p => proj2 (instream_particulate_nutrient_kernel_hc p)). Qed.
Theorem C14_storage_particulate_trapping_kernel : forall (T : Type) (A : Arith T) (p : list T), causal_spec (storage_particulate_trapping_kernel p).
Proof. exact (fun T A p => proj2 (storage_particulate_trapping_kernel_hc p)). Qed.
Theorem C14_storage_trap_all_kernel : forall (T : Type) (A : Arith T) (p : list T), causal_spec (storage_trap_all_kernel p).
Proof. exact (@storage_trap_all_kernel_causal). Qed.
Theorem C14_storage_dissolved_decay_kernel : forall (T : Type) (A : Arith T) (p : list T), causal_spec (storage_dissolved_decay_kernel p).
Proof. exact (fun T A p => proj2 (storage_dissolved_decay_kernel_hc p)). Qed.
Theorem C14_instream_dissolved_nutrient_decay_kernel : forall (T : Type) (A : Arith T) (p : list T), causal_spec (instream_dissolved_nutrient_decay_kernel p).
Proof. exact (@instream_dissolved_nutrient_decay_kernel_causal). Qed.
Theorem C14_storage_kernel : forall (T : Type) (A : Arith T) (p : list T), causal_spec (storage_kernel p).
Proof. exact (@storage_kernel_causal). Qed.
Theorem C14_gr4j_kernel : forall (T : Type) (A : Arith T) (p : list T), causal_spec (gr4j_kernel p).
Proof. exact (@gr4j_kernel_causal). Qed.
Theorem C14_sacramento_kernel : forall (T : Type) (A : Arith T) (p : list T), causal_spec (sacramento_kernel p).
Proof. exact (@sacramento_kernel_causal). Qed.
Theorem C14_simhyd_kernel : forall (T : Type) (A : Arith T) (p : list T), causal_spec (simhyd_kernel p).
Proof. exact (fun T A p => proj2 (simhyd_kernel_hc p)). Qed.
Theorem C14_surm_kernel : forall (T : Type) (A : Arith T) (p : list T), causal_spec (surm_kernel p).
Proof. exact (fun T A p => proj2 (surm_kernel_hc p)). Qed.
Theorem C14_date_generator_kernel : forall (T : Type) (A : Arith T) (p : list T), causal_spec (date_generator_kernel p).
Proof. exact (@date_generator_kernel_causal). Qed.
Theorem C14_apply_scaling_factor_kernel : forall (T : Type) (A : Arith T) (p : list T), causal_spec (apply_scaling_factor_kernel p).
Proof. exact (fun T A p => proj2 (apply_scaling_factor_kernel_hc p)). Qed.
Theorem C14_delivery_ratio_kernel : forall (T : Type) (A : Arith T) (p : list T), causal_spec (delivery_ratio_kernel p).
Proof. exact (fun T A p => proj2 (delivery_ratio_kernel_hc p)). Qed.
Theorem C14_depth_to_rate_kernel : forall (T : Type) (A : Arith T) (p : list T), causal_spec (depth_to_rate_kernel p).
Proof. exact (fun T A p => proj2 (depth_to_rate_kernel_hc p)). Qed.
Theorem C14_fixed_partition_kernel : forall (T : Type) (A : Arith T) (p : list T), causal_spec (fixed_partition_kernel p).
Proof. exact (fun T A p => proj2 (fixed_partition_kernel_hc p)). Qed.
Theorem C14_variable_partition_kernel : forall (T : Type) (A : Arith T) (p : list T), causal_spec (variable_partition_kernel p).
Proof. exact (fun T A p => proj2 (variable_partition_kernel_hc p)). Qed.
Theorem C14_rating_curve_partition_kernel : forall (T : Type) (A : Arith T) (p : list T), causal_spec (rating_curve_partition_kernel p).
Proof. exact (fun T A p => proj2 (rating_curve_partition_kernel_hc p)). Qed.
Theorem C14_baseflow_filter_kernel : forall (T : Type) (A : Arith T) (p : list T), causal_spec (baseflow_filter_kernel p).
Proof. exact (fun T A p => proj2 (baseflow_filter_kernel_hc p)). Qed.
Theorem C14_compute_proportion_kernel : forall (T : Type) (A : Arith T) (p : list T), causal_spec (compute_proportion_kernel p).
Proof. exact (fun T A p => proj2 (compute_proportion_kernel_hc p)). Qed.
Theorem C14_gate_kernel : forall (T : Type) (A : Arith T) (p : list T), causal_spec (gate_kernel p).
Proof. exact (fun T A p => proj2 (gate_kernel_hc p)). Qed.
Theorem C14_input_kernel : forall (T : Type) (A : Arith T) (p : list T), causal_spec (input_kernel p).
Proof. exact (fun T A p => proj2 (input_kernel_hc p)). Qed.
Theorem C14_partition_demand_kernel : forall (T : Type) (A : Arith T) (p : list T), causal_spec (partition_demand_kernel p).
Proof. exact (fun T A p => proj2 (partition_demand_kernel_hc p)). Qed.
Theorem C14_sum_kernel : forall (T : Type) (A : Arith T) (p : list T), causal_spec (sum_kernel p).
Proof. exact (fun T A p => proj2 (sum_kernel_hc p)). Qed.
Theorem C14_emc_dwc_kernel : forall (T : Type) (A : Arith T) (p : list T), causal_spec (emc_dwc_kernel p).
Proof. exact (fun T A p => proj2 (emc_dwc_kernel_hc p)). Qed.
Theorem C14_fixed_concentration_kernel : forall (T : Type) (A : Arith T) (p : list T), causal_spec (fixed_concentration_kernel p).
Proof. exact (fun T A p => proj2 (fixed_concentration_kernel_hc p)). Qed.
Theorem C14_pass_load_if_flow_kernel : forall (T : Type) (A : Arith T) (p : list T), causal_spec (pass_load_if_flow_kernel p).
Proof. exact (fun T A p => proj2 (pass_load_if_flow_kernel_hc p)). Qed.
Theorem C14_dissolved_nutrients_kernel : forall (T : Type) (A : Arith T) (p : list T), causal_spec (dissolved_nutrients_kernel p).
Proof. exact (fun T A p => proj2 (dissolved_nutrients_kernel_hc p)). Qed.
Theorem C14_particulate_nutrients_kernel : forall (T : Type) (A : Arith T) (p : list T), causal_spec (particulate_nutrients_kernel p).
Proof. exact (fun T A p => proj2 (particulate_nutrients_kernel_hc p)). Qed.
Theorem C14_bank_erosion_kernel : forall (T : Type) (A : Arith T) (p : list T), causal_spec (bank_erosion_kernel p).
Proof. exact (fun T A p => proj2 (bank_erosion_kernel_hc p)). Qed.
Theorem C14_usle_fine_kernel : forall (T : Type) (A : Arith T) (p : list T), causal_spec (usle_fine_kernel p).
Proof. exact (fun T A p => proj2 (usle_fine_kernel_hc p)). Qed.
Theorem C14_dynamic_sednet_gully_kernel : forall (T : Type) (A : Arith T) (p : list T), causal_spec (dynamic_sednet_gully_kernel p).
Proof. exact (fun T A p => proj2 (dynamic_sednet_gully_kernel_hc p)). Qed.
Theorem C14_dynamic_sednet_gully_alt_kernel : forall (T : Type) (A : Arith T) (p : list T), causal_spec (dynamic_sednet_gully_alt_kernel p).
Proof. exact (fun T A p => proj2 (dynamic_sednet_gully_alt_kernel_hc p)). Qed.
Theorem C14_climate_variables_kernel : forall (T : Type) (A : Arith T) (p : list T), causal_spec (climate_variables_kernel p).
Proof. exact (fun T A p => proj2 (climate_variables_kernel_hc p)). Qed.
Theorem C14_runoff_coefficient_kernel : forall (T : Type) (A : Arith T) (p : list T), causal_spec (runoff_coefficient_kernel p).
Proof. exact (fun T A p => proj2 (runoff_coefficient_kernel_hc p)). Qed.

Definition C14_all_kernels := (@C14_muskingum_kernel, @C14_lag_kernel, @C14_storage_routing_kernel, @C14_storage_routing_paths_kernel, @C14_lumped_constituent_routing_kernel, @C14_constituent_decay_kernel, @C14_instream_fine_sediment_kernel, @C14_instream_coarse_sediment_kernel, @C14_instream_particulate_nutrient_kernel, @C14_storage_particulate_trapping_kernel, @C14_storage_trap_all_kernel, @C14_storage_dissolved_decay_kernel, @C14_instream_dissolved_nutrient_decay_kernel, @C14_storage_kernel, @C14_gr4j_kernel, @C14_sacramento_kernel, @C14_simhyd_kernel, @C14_surm_kernel, @C14_date_generator_kernel, @C14_apply_scaling_factor_kernel, @C14_delivery_ratio_kernel, @C14_depth_to_rate_kernel, @C14_fixed_partition_kernel, @C14_variable_partition_kernel, @C14_rating_curve_partition_kernel, @C14_baseflow_filter_kernel, @C14_compute_proportion_kernel, @C14_gate_kernel, @C14_input_kernel, @C14_partition_demand_kernel, @C14_sum_kernel, @C14_emc_dwc_kernel, @C14_fixed_concentration_kernel, @C14_pass_load_if_flow_kernel, @C14_dissolved_nutrients_kernel, @C14_particulate_nutrients_kernel, @C14_bank_erosion_kernel, @C14_usle_fine_kernel, @C14_dynamic_sednet_gully_kernel, @C14_dynamic_sednet_gully_alt_kernel, @C14_climate_variables_kernel, @C14_runoff_coefficient_kernel).
Print Assumptions C14_all_kernels.

(* ------------------------------------------------------------------ non-vacuity *)
From Coq Require Import Floats.
(** changing the input at step 3 changes output 3 and leaves outputs 1-2 alone *)
Example C14_muskingum_causal_example :
  let K := muskingum_kernel (A := SA) [43200; 0x1.999999999999ap-3; 86400]%float in
  let r := K [0; 1; 2]%float [[1; 2; 3; 4]; [0; 0; 1; 0]]%float in
  let r' := K [0; 1; 2]%float [[1; 2; 9; 4]; [0; 0; 1; 0]]%float in
  (PrimFloat.eqb (out_at 0 0 r) (out_at 0 0 r') && PrimFloat.eqb (out_at 0 1 r) (out_at 0 1 r') &&
   negb (PrimFloat.eqb (out_at 0 2 r) (out_at 0 2 r')))%bool = true.
Proof. exact muskingum_causal_example. Qed.
