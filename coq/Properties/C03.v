(** C03 — C-memory-backed arrays behave like the Go-native ones and never touch memory
    outside the caller's buffer.  All C01/C02 theorems are stated over [impl] = Go slice | C
    buffer and hold for both; the statements below are specific to the comparison. *)
From Coq Require Import ZArith List Lia.
From OW Require Import Arrays.IntOps Arrays.View Arrays.Ops Arrays.IndexProofs Arrays.AffineProofs
  Arrays.ContigProofs Arrays.MemProofs Arrays.ReshapeProofs Arrays.Exec Arrays.HistoryProofs Arrays.GoCProofs Arrays.GoCReshape Arrays.BulkProofs Arrays.WrapperViews Arrays.WrapperViewsC.
Import ListNotations.
Local Open Scope Z_scope.

(** every in-bounds element access of a well-formed view succeeds: for a C-backed array
    [wf_arr] says the buffer has exactly the caller's size, and an access outside it is the
    error outcome of the model, so success means the access stayed inside the buffer *)
Theorem C03_in_bounds_access_never_leaves_buffer : forall (V : Type) (h : @heap V) a rd v i,
  wf_arr h a rd v -> valid_idx (adims v) i ->
  (exists x, get h a i = Some x) /\ (forall x, exists h', set h a i x = Some h').
Proof. exact (@get_set_total). Qed.
Print Assumptions C03_in_bounds_access_never_leaves_buffer.

Theorem C03_addresses_inside_buffer : forall rd a i, in_box rd a -> valid_idx (adims a) i ->
  index (conc rd a) i = Some (ravel rd (root_idx a i)) /\ 0 <= ravel rd (root_idx a i) < product rd.
Proof. exact conc_index. Qed.

(** writes keep every array well-formed (so the above holds along any history of writes) *)
Theorem C03_writes_preserve_wellformedness : forall (V : Type) (h : @heap V) a i x h' a2 rd2 v2,
  set h a i x = Some h' -> wf_arr h a2 rd2 v2 -> wf_arr h' a2 rd2 v2.
Proof. exact (@wf_arr_set). Qed.

(** a Go-backed and a C-backed view with the same shape/strides over equal contents read
    the same value at every index *)
Theorem C03_go_c_reads_equal : forall (V : Type) (h1 h2 : @heap V) c g b rd v i,
  wf_arr h1 (mkArr c (GoImpl g)) rd v -> wf_arr h2 (mkArr c (CImpl b)) rd v ->
  (forall A, 0 <= A < product rd -> hread h1 (gbuf g) (gbase g + A) = hread h2 b A) ->
  valid_idx (adims v) i ->
  get h1 (mkArr c (GoImpl g)) i = get h2 (mkArr c (CImpl b)) i.
Proof. exact (@go_c_get_equal). Qed.
Print Assumptions C03_go_c_reads_equal.

(** along ANY operation history (any length, any operations, any arguments) that the model
    executes, no buffer is removed or resized: every array stays well-formed, so every
    in-bounds access through it still succeeds inside its buffer afterwards *)
Theorem C03_any_history_preserves_storage : forall ops s s' a rd v,
  exec_all s ops = Some s' -> wf_arr (sheap s) a rd v -> wf_arr (sheap s') a rd v.
Proof. exact history_preserves_storage. Qed.
Theorem C03_access_after_any_history : forall ops s s' a rd v i,
  exec_all s ops = Some s' -> wf_arr (sheap s) a rd v -> valid_idx (adims v) i ->
  (exists x, get (sheap s') a i = Some x) /\ (forall x, exists h', set (sheap s') a i x = Some h').
Proof. exact access_after_any_history. Qed.
Print Assumptions C03_access_after_any_history.

(** WHOLE HISTORIES.  The same history run with every root Go-allocated and with every root
    wrapped around a caller-provided C buffer gives, step by step, the same result (value,
    values, flag, new array, error) or the same panic, the same contents of every root buffer
    and the same elements of every live array -- for every history (any length, ANY arguments:
    out-of-range indices, negative steps, ill-shaped slices) of element-level operations ... *)
Theorem C03_go_c_histories_agree : forall ops, Forall in_fragment ops ->
  arr_run_history arr_init_state (map (set_backing false) ops) =
  arr_run_history arr_init_state (map (set_backing true) ops).
Proof. exact go_c_histories_agree. Qed.
(** ... and for histories that also use Apply, Unroll, ApplySlice and CopyFrom, provided each
    of those is applied to in-box views with steps >= 1 (Apply: a valid non-empty run inside
    the axis; ApplySlice / CopyFrom: source and destination in different roots) -- the decidable
    guard [guardb]; GoCProofs.v shows by a concrete history per clause that each clause of the
    guard is needed (there the model's two back-ends differ, as do Reshape on out-of-range
    indices and the write through an unrolled slice: see the header of that file) *)
Theorem C03_go_c_histories_agree_guarded : forall ops,
  guarded arr_init_state (map (set_backing false) ops) = true ->
  arr_run_history arr_init_state (map (set_backing false) ops) =
  arr_run_history arr_init_state (map (set_backing true) ops).
Proof. exact go_c_histories_agree_guarded. Qed.
Print Assumptions C03_go_c_histories_agree_guarded.

(** The view pattern of the generated wrappers on CALLER-OWNED memory (what RunSingleModel
    builds): Slice + MustReshape of a C-backed array never copies, the result reads and writes
    exactly the parent's elements loc + unravel(d, rank) * step, and it stays inside the region
    [start, start + size) of the caller's buffer *)
Theorem C03_slice_reshape_denotes_c : forall (V : Type) (h : @heap V) c b rd v loc d st s,
  wf_arr h (mkArr c (CImpl b)) rd v -> steps_pos v ->
  slice_args_ok (adims v) loc d st -> Forall2 (fun sk dk => 1 < dk -> 1 <= sk) st d ->
  d <> [] -> Forall (fun x => 0 < x) s -> s <> [] -> product s = product d ->
  forall sl, slice (mkArr c (CImpl b)) loc d (Some st) = Some sl -> contiguous (cm sl) = Some true ->
  exists r, must_reshape h sl s = Some (h, r) /\ im r = CImpl b /\
    wf_arr_off h r s (start (cm sl)) /\
    (forall i, valid_idx s i ->
       get h r i = get h (mkArr c (CImpl b)) (vadd loc (vmul (unravel d (ravel s i)) st))) /\
    (forall i x, valid_idx s i ->
       set h r i x = set h (mkArr c (CImpl b)) (vadd loc (vmul (unravel d (ravel s i)) st)) x).
Proof. exact (@slice_reshape_denotes_c). Qed.
(** row (i, k, .) of a C-backed [N; K; T] block as a series of length T: element t is byte-for-byte
    the caller's element (i*K + k)*T + t, for reads and for writes *)
Theorem C03_wrapper_output_row_c : forall (V : Type) (h : @heap V) c b N K T i k,
  wf_arr h (mkArr c (CImpl b)) [N; K; T] (idview [N; K; T]) ->
  0 <= i < N -> 0 <= k < K -> 0 < T ->
  exists sl r, slice (mkArr c (CImpl b)) [i; k; 0] [1; 1; T] (Some [1; 1; 1]) = Some sl /\
    contiguous (cm sl) = Some true /\
    must_reshape h sl [T] = Some (h, r) /\ im r = CImpl b /\
    forall t, 0 <= t < T ->
      get h r [t] = impl_read h (CImpl b) ((i * K + k) * T + t) /\
      forall x, set h r [t] x = impl_write h (CImpl b) ((i * K + k) * T + t) x.
Proof. exact (@wrapper_output_row_c). Qed.
(** accesses through such an offset view never fail and never leave its region *)
Theorem C03_offset_view_access_total : forall (V : Type) (h : @heap V) a s st i,
  wf_arr_off h a s st -> valid_idx s i ->
  (exists x, get h a i = Some x) /\ (forall x, exists h', set h a i x = Some h').
Proof. exact (@get_set_total_off). Qed.
Print Assumptions C03_slice_reshape_denotes_c.
Print Assumptions C03_wrapper_output_row_c.

(** ... and for histories over the WHOLE operation language except the write through an unrolled
    slice (where the back-ends differ by design: Go aliases, C copies): Reshape / MustReshape /
    ReshapeFast of contiguous and non-contiguous views, Scale / AddTo / ApplyFunc, Apply, Unroll,
    ApplySlice, CopyFrom and all element-level operations, under the decidable guard [guardb2]
    evaluated on the Go-side run (element accesses: any arguments on roots, slices and gathered
    copies, in-window indices on re-sliced results of reshapes; bulk operations: in-box views with
    steps >= 1 in different roots).  Same conclusion: results, panics, root contents and live
    elements equal step by step. *)
Theorem C03_go_c_histories_agree_reshape : forall ops,
  guarded2 arr_init_state (map (set_backing false) ops) = true ->
  arr_run_history arr_init_state (map (set_backing false) ops) =
  arr_run_history arr_init_state (map (set_backing true) ops).
Proof. exact go_c_histories_agree_reshape. Qed.
Print Assumptions C03_go_c_histories_agree_reshape.

(** NOT proved (C03_entry_point_partial): equality of the exported C entry point (RunSingleModel)
    with the Go API is established by the cdriver correspondence run only (its view chains on
    caller memory are the theorems C03_slice_reshape_denotes_c / C03_wrapper_output_row_c and
    Properties/C04_views.v). *)
Example C03_nonvacuous : exists h a,
  wf_arr (V:=Z) h a [2;3] (mkAview [0;0] [1;1] [2;3]) /\ get h a [1;2] = Some 6.
Proof.
  exists [[1;2;3;4;5;6]], (mkArr (conc [2;3] (mkAview [0;0] [1;1] [2;3])) (CImpl 0)).
  split; [|reflexivity]. unfold wf_arr. split; [reflexivity|]. split; [unfold in_box; cbn; repeat (constructor; try lia)|].
  cbn. exists [1;2;3;4;5;6]. split; reflexivity.
Qed.
