(** C10 — rainfall-runoff models never create water and keep stores within bounds.
    Only statements, each closed by [exact <lemma>]; models in Kernels/*.v, proofs in
    KernelProofs/{Gr4jMath,Gr4jUH,Gr4j,Simhyd,Surm,Coeff,Sacramento,SacramentoLand,SacramentoBudget}.v.  All statements are
    over exact reals (instance RArith) and hold for series of ANY length.  The parameter-range
    predicates are boolean and written out here. *)
From Coq Require Import Reals List Bool ZArith.
From OW Require Import Base.Arith Base.RInst Base.Mealy
  Kernels.Gr4j Kernels.Simhyd Kernels.Surm Kernels.Coeff Kernels.Sacramento Num.Gr4jSpec
  KernelProofs.RRCommon KernelProofs.Gr4jUH KernelProofs.Gr4j
  KernelProofs.Simhyd KernelProofs.Surm KernelProofs.Coeff KernelProofs.Sacramento
  KernelProofs.SacramentoLand KernelProofs.SacramentoBudget.
Import ListNotations.
Local Open Scope R_scope.

(** ** GR4J *)
(** x1 >= 1 mm, x3 >= 1 mm, 0.5 <= x4 <= 4 days (documented ranges [1,1500], [1,500], [0.5,4]);
    the exchange coefficient x2 is constrained only where a clause needs it *)
Definition C10_gr4j_ok (x1 x3 x4 : R) : bool :=
  Rleb 1 x1 && Rleb 1 x3 && Rleb (1 / 2) x4 && Rleb x4 4.

(** store invariant: 0 <= S <= x1, 0 <= R, unit-hydrograph stores non-negative, of lengths n2, n1 *)
Definition C10_gr4j_inv (x1 : R) (n1 n2 : nat) (st : gr4j_st (T:=R)) : Prop :=
  0 <= g_s st <= x1 /\ 0 <= g_r st /\
  Forall (fun x => 0 <= x) (g_q1 st) /\ Forall (fun x => 0 <= x) (g_q9 st) /\
  length (g_q1 st) = n2 /\ length (g_q9 st) = n1.
Definition C10_gr4j_stock (st : gr4j_st (T:=R)) : R :=
  g_s st + g_r st + rr_sum (g_q1 st) + rr_sum (g_q9 st).

(** both unit hydrographs: 1..4 resp. 1..8 non-negative ordinates summing to one *)
Theorem C10_gr4j_uh_sums_to_one :
  forall x4 n1 n2, 1 / 2 <= x4 <= 4 -> is_ceil x4 n1 -> is_ceil (2 * x4) n2 ->
  (1 <= n1 <= 4)%nat /\ (1 <= n2 <= 8)%nat /\
  Forall (fun u => 0 <= u) (gr4j_uh1 x4 n1) /\ rr_sum (gr4j_uh1 x4 n1) = 1 /\ length (gr4j_uh1 x4 n1) = n1 /\
  Forall (fun u => 0 <= u) (gr4j_uh2 x4 n2) /\ rr_sum (gr4j_uh2 x4 n2) = 1 /\ length (gr4j_uh2 x4 n2) = n2.
Proof. exact gr4j_uh_c10. Qed.
Print Assumptions C10_gr4j_uh_sums_to_one.

(** stores bounded, runoff non-negative, R < x3; for x2 <= 0 no water created (whole run and
    every prefix); for x2 = 0 and PET = 0 the balance closes exactly:
    sum P = sum Q + change in (S + R + sum q1 + sum q9) *)
Theorem C10_gr4j :
  forall x1 x2 x3 x4 n1 n2 st io,
  C10_gr4j_ok x1 x3 x4 = true -> is_ceil x4 n1 -> is_ceil (2 * x4) n2 ->
  C10_gr4j_inv x1 n1 n2 st -> io_nonneg io ->
  let r := gr4j_run x1 x2 x3 x4 n1 n2 st io in
  C10_gr4j_inv x1 n1 n2 (fst r) /\ Forall (fun q => 0 <= q) (snd r) /\
  (g_r st < x3 -> g_r (fst r) < x3) /\
  (x2 <= 0 ->
     C10_gr4j_stock (fst r) + rr_sum (snd r) <= C10_gr4j_stock st + rr_sum (map fst io) /\
     forall t, rr_sum (firstn t (snd r)) <= rr_sum (firstn t (map fst io)) + C10_gr4j_stock st) /\
  (x2 = 0 -> Forall (fun x => snd x = 0) io ->
     rr_sum (map fst io) = rr_sum (snd r) + (C10_gr4j_stock (fst r) - C10_gr4j_stock st)).
Proof. exact gr4j_c10. Qed.
Print Assumptions C10_gr4j.

(** one day: invariant preserved, R' < x3, runoff >= 0, and the per-step balance
    (inequality for x2 <= 0, identity for x2 = 0 and PET = 0) *)
Theorem C10_gr4j_step :
  forall x1 x2 x3 x4 n1 n2, 0 < x1 -> 0 < x3 -> 0 < x4 -> is_ceil x4 n1 -> is_ceil (2 * x4) n2 ->
  forall st P E, C10_gr4j_inv x1 n1 n2 st -> 0 <= P -> 0 <= E ->
  let r := gr4j_step (gr4j_mkpar x1 x2 x3 x4 n1 n2) st (P, E) in
  C10_gr4j_inv x1 n1 n2 (fst r) /\ g_r (fst r) < x3 /\ 0 <= snd r /\
  (x2 <= 0 -> C10_gr4j_stock (fst r) + snd r <= C10_gr4j_stock st + P) /\
  (x2 = 0 -> E = 0 -> C10_gr4j_stock (fst r) + snd r = C10_gr4j_stock st + P).
Proof. exact gr4j_step_facts. Qed.
Print Assumptions C10_gr4j_step.

(** the model's own initial state (InitialiseStates: zeros, n1 = ceil x4, n2 = ceil 2 x4)
    satisfies the invariant and holds no water *)
Theorem C10_gr4j_zero_state : forall x1 n1 n2, 0 < x1 ->
  C10_gr4j_inv x1 n1 n2 {| g_s := 0; g_r := 0; g_q1 := repeat 0 n2; g_q9 := repeat 0 n1 |} /\
  C10_gr4j_stock {| g_s := 0; g_r := 0; g_q1 := repeat 0 n2; g_q9 := repeat 0 n1 |} = 0.
Proof. exact gr4j_zero_state_inv. Qed.
Print Assumptions C10_gr4j_zero_state.

Example C10_gr4j_ok_satisfiable :
  C10_gr4j_ok 350 90 (17 / 10) = true /\ is_ceil (17 / 10) 2 /\ is_ceil (2 * (17 / 10)) 4.
Proof. exact gr4j_ok_satisfiable. Qed.

(** ** Simhyd *)
Definition C10_simhyd_ok (p : simhyd_par (T:=R)) : bool :=
  Rleb 0 (sh_baseflowCoefficient p) && Rleb (sh_baseflowCoefficient p) 1 &&
  Rleb 0 (sh_imperviousThreshold p) && Rleb 0 (sh_infiltrationCoefficient p) &&
  Rleb 0 (sh_interflowCoefficient p) && Rleb (sh_interflowCoefficient p) 1 &&
  Rleb 0 (sh_perviousFraction p) && Rleb (sh_perviousFraction p) 1 &&
  Rleb 0 (sh_risc p) &&
  Rleb 0 (sh_rechargeCoefficient p) && Rleb (sh_rechargeCoefficient p) 1 &&
  Rltb 0 (sh_smsc p).
Definition C10_simhyd_inv (p : simhyd_par (T:=R)) (st : simhyd_st (T:=R)) : Prop :=
  0 <= sh_sms st <= sh_smsc p /\ 0 <= sh_gw st.
Definition C10_simhyd_stock (p : simhyd_par (T:=R)) (st : simhyd_st (T:=R)) : R :=
  sh_perviousFraction p * (sh_sms st + sh_gw st).
Definition C10_simhyd_out_ok (p : simhyd_par (T:=R)) (o : simhyd_out (T:=R)) : Prop :=
  0 <= sh_runoff o /\ 0 <= sh_quickflow o /\ 0 <= sh_baseflow o /\
  0 <= sh_store o <= sh_smsc p /\ sh_runoff o = sh_quickflow o + sh_baseflow o.

Theorem C10_simhyd : forall p st io, C10_simhyd_ok p = true -> C10_simhyd_inv p st -> io_nonneg io ->
  C10_simhyd_inv p (fst (simhyd_run p st io)) /\
  Forall (C10_simhyd_out_ok p) (snd (simhyd_run p st io)) /\
  rr_sum (map sh_runoff (snd (simhyd_run p st io))) + C10_simhyd_stock p (fst (simhyd_run p st io))
    <= rr_sum (map fst io) + C10_simhyd_stock p st /\
  (forall t, rr_sum (firstn t (map sh_runoff (snd (simhyd_run p st io))))
             <= rr_sum (firstn t (map fst io)) + C10_simhyd_stock p st).
Proof. exact simhyd_c10. Qed.
Print Assumptions C10_simhyd.

(** per-step exact budget with the (unreported) actual ET: rain = runoff + ET + change in stores *)
Theorem C10_simhyd_step_budget : forall p st io, C10_simhyd_ok p = true -> C10_simhyd_inv p st ->
  0 <= fst io -> 0 <= snd io ->
  exists et, 0 <= et /\
    fst io + C10_simhyd_stock p st =
    sh_runoff (snd (simhyd_step p st io)) + et + C10_simhyd_stock p (fst (simhyd_step p st io)).
Proof. exact simhyd_step_budget. Qed.
Print Assumptions C10_simhyd_step_budget.

Example C10_simhyd_ok_satisfiable : exists p, C10_simhyd_ok p = true.
Proof. exact simhyd_ok_satisfiable. Qed.

(** ** Surm *)
Definition C10_surm_ok (p : surm_par (T:=R)) : bool :=
  Rleb 0 (su_bfac p) && Rleb (su_bfac p) 1 && Rleb 0 (su_coeff p) &&
  Rleb 0 (su_dseep p) && Rleb (su_dseep p) 1 && Rleb 0 (su_fcFrac p) && Rleb (su_fcFrac p) 1 &&
  Rleb 0 (su_fimp p) && Rleb (su_fimp p) 1 && Rleb 0 (su_rfac p) && Rleb (su_rfac p) 1 &&
  Rleb 10 (su_smax p) && Rleb 0 (su_thres p).
Definition C10_surm_inv (p : surm_par (T:=R)) (st : surm_st (T:=R)) : Prop :=
  0 <= su_sms st <= su_smax p /\ 0 <= su_gw st.
Definition C10_surm_stock (p : surm_par (T:=R)) (st : surm_st (T:=R)) : R :=
  (1 - su_fimp p) * (su_sms st + su_gw st).
Definition C10_surm_out_ok (o : surm_out (T:=R)) : Prop :=
  0 <= su_runoff o /\ 0 <= su_quickflow o /\ 0 <= su_baseflow o /\ 0 <= su_store o /\
  su_runoff o = su_quickflow o + su_baseflow o.

Theorem C10_surm : forall p st io, C10_surm_ok p = true -> C10_surm_inv p st -> io_nonneg io ->
  C10_surm_inv p (fst (surm_run p st io)) /\
  Forall C10_surm_out_ok (snd (surm_run p st io)) /\
  rr_sum (map su_runoff (snd (surm_run p st io))) + C10_surm_stock p (fst (surm_run p st io))
    <= rr_sum (map fst io) + C10_surm_stock p st /\
  (forall t, rr_sum (firstn t (map su_runoff (snd (surm_run p st io))))
             <= rr_sum (firstn t (map fst io)) + C10_surm_stock p st).
Proof. exact surm_c10. Qed.
Print Assumptions C10_surm.

Theorem C10_surm_step_budget : forall p st io, C10_surm_ok p = true -> C10_surm_inv p st ->
  0 <= fst io -> 0 <= snd io ->
  exists loss, 0 <= loss /\
    fst io + C10_surm_stock p st =
    su_runoff (snd (surm_step p st io)) + loss + C10_surm_stock p (fst (surm_step p st io)).
Proof. exact surm_step_budget. Qed.
Print Assumptions C10_surm_step_budget.

Example C10_surm_ok_satisfiable : exists p, C10_surm_ok p = true.
Proof. exact surm_ok_satisfiable. Qed.

(** the bound smax >= 10 is needed: below it min(10*S/smax, pet) can exceed S and the soil
    store goes negative *)
Example C10_surm_smax_bound_needed : exists p st io,
  0 <= su_bfac p <= 1 /\ 0 <= su_coeff p /\ 0 <= su_dseep p <= 1 /\ 0 <= su_fcFrac p <= 1 /\
  0 <= su_fimp p <= 1 /\ 0 <= su_rfac p <= 1 /\ 0 < su_smax p < 10 /\ 0 <= su_thres p /\
  C10_surm_inv p st /\ 0 <= fst io /\ 0 <= snd io /\ su_sms (fst (surm_step p st io)) < 0.
Proof. exact surm_smax_bound_needed. Qed.

(** ** RunoffCoefficient *)
Theorem C10_runoff_coefficient : forall c rain, 0 <= c <= 1 -> Forall (fun r => 0 <= r) rain ->
  length (coeff_run c rain) = length rain /\
  coeff_run c rain = map (fun r => c * r) rain /\
  Forall (fun q => 0 <= q) (coeff_run c rain) /\
  (forall t, rr_sum (firstn t (coeff_run c rain)) <= rr_sum (firstn t rain)).
Proof. exact coeff_c10. Qed.
Print Assumptions C10_runoff_coefficient.

(** ** Sacramento (repaired code) *)
(** rates and fractions in [0,1], capacities >= 1 mm, pctim + adimp <= 1, non-negative
    unit-hydrograph proportions with positive sum (documented ranges of the OW-SPEC block) *)
Definition C10_sac_ok (p : sac_par (T:=R)) : bool :=
  Rleb 0 (lzpk p) && Rleb (lzpk p) 1 && Rleb 0 (lzsk p) && Rleb (lzsk p) 1 && Rleb 0 (uzk p) && Rleb (uzk p) 1 &&
  Rleb 1 (uztwm p) && Rleb 1 (uzfwm p) && Rleb 1 (lztwm p) && Rleb 1 (lzfsm p) && Rleb 1 (lzfpm p) &&
  Rleb 0 (pfree p) && Rleb (pfree p) 1 && Rleb 0 (rexp p) && Rleb 0 (zperc p) && Rleb 0 (side p) && Rleb 0 (ssout p) &&
  Rleb 0 (pctim p) && Rleb 0 (adimp p) && Rleb (pctim p + adimp p) 1 && Rleb 0 (sarva p) && Rleb (sarva p) 1 &&
  Rleb 0 (rserv p) && Rleb (rserv p) 1 &&
  Rleb 0 (uh1 p) && Rleb 0 (uh2 p) && Rleb 0 (uh3 p) && Rleb 0 (uh4 p) && Rleb 0 (uh5 p) &&
  Rltb 0 (uh1 p + uh2 p + uh3 p + uh4 p + uh5 p).
Definition C10_qq_ok (q : list R) : Prop := length q = 5%nat /\ Forall (fun x => 0 <= x) q.
(** water held in the unit-hydrograph buffer, weighted by the share still to be released *)
Definition C10_sac_uh_store (p : sac_par (T:=R)) (q : list R) : R :=
  let d := sac_dro p in
  nth 1 q 0 * (nth 1 d 0 + nth 2 d 0 + nth 3 d 0 + nth 4 d 0) +
  nth 2 q 0 * (nth 2 d 0 + nth 3 d 0 + nth 4 d 0) +
  nth 3 q 0 * (nth 3 d 0 + nth 4 d 0) +
  nth 4 q 0 * nth 4 d 0.

Example C10_sac_ok_satisfiable : exists p, C10_sac_ok p = true.
Proof. exact sac_ok_satisfiable. Qed.

Theorem C10_sac_uh_normalised : forall p, C10_sac_ok p = true ->
  Forall (fun d => 0 <= d) (sac_dro p) /\ rr_sum (sac_dro p) = 1 /\ length (sac_dro p) = 5%nat.
Proof. exact sac_uh_normalised. Qed.
Print Assumptions C10_sac_uh_normalised.

(** channel phase (area scaling, unit hydrograph, ssout and riparian losses): outputs
    non-negative, 0 <= baseflow <= runoff, and no water created: what leaves plus what stays in
    the buffer is at most what was there plus what the land phase delivered *)
Theorem C10_sac_channel_ok : forall p q evapt flosf roimp floin flobf, C10_sac_ok p = true -> C10_qq_ok q ->
  0 <= evapt -> 0 <= flosf -> 0 <= roimp -> 0 <= floin -> 0 <= flobf ->
  let ch := sac_channel p q evapt flosf roimp floin flobf in
  C10_qq_ok (c_qq ch) /\ 0 <= c_e4 ch /\ 0 <= c_bf ch <= c_qf ch /\ 0 <= c_qf ch /\
  c_qf ch + c_e4 ch + C10_sac_uh_store p (c_qq ch)
    <= C10_sac_uh_store p q + ((flosf + floin) * (1 - pctim p - adimp p) + roimp)
       + flobf * (1 - pctim p - adimp p) / (1 + side p).
Proof. exact sac_channel_ok. Qed.
Print Assumptions C10_sac_channel_ok.

Theorem C10_sac_components_add_up : forall p st io,
  o_runoff (snd (sac_step p st io)) = o_surface (snd (sac_step p st io)) + o_baseflow (snd (sac_step p st io)).
Proof. exact sac_components_add_up. Qed.
Print Assumptions C10_sac_components_add_up.

(** One time step, channel side: IF the land phase delivers non-negative accumulated flows, then
    runoff = surfaceRunoff + baseflow, 0 <= baseflow <= runoff, runoff / surfaceRunoff /
    imperviousRunoff >= 0 and the unit-hydrograph buffer stays non-negative (the hypothesis is
    discharged by C10_sacramento below) *)
Theorem C10_sac_step_flows_ok : forall p st io, C10_sac_ok p = true -> C10_qq_ok (qq st) -> 0 <= snd io ->
  let l := sac_land p st io in
  0 <= i_flosf (l_v l) -> 0 <= i_roimp (l_v l) -> 0 <= i_floin (l_v l) -> 0 <= i_flobf (l_v l) ->
  let o := snd (sac_step p st io) in
  o_runoff o = o_surface o + o_baseflow o /\ 0 <= o_baseflow o <= o_runoff o /\ 0 <= o_surface o /\
  0 <= o_runoff o /\ 0 <= o_imperv o /\ C10_qq_ok (qq (fst (sac_step p st io))).
Proof. exact sac_step_flows_ok. Qed.
Print Assumptions C10_sac_step_flows_ok.

(** ** Sacramento, repaired code (hooks/fix-sacramento-guards.diff + hooks/fix-sacramento-e5-nonneg.diff):
    store invariant, outputs, water balance *)
(** Hypotheses that remain:
    (h1) [C10_sac_ok p], the store invariant of the initial state (written out in
         C10_sac_st_inv_written_out; note: only  0 <= adimc <= uztwc + lztwm  is required of the
         additional impervious store), a non-negative UH buffer, non-negative forcing;
    (h2) PET of every day <= uztwm + lztwm (the total tension-water capacity); needed for the bound
         adimc - uztwc <= lztwm after the ADIMP evaporation; *)
Theorem C10_sac_st_inv_written_out : forall p st, st_inv p st <->
  (0 <= uztwc st <= uztwm p /\ 0 <= uzfwc st <= uzfwm p /\ 0 <= lztwc st <= lztwm p /\
   0 <= alzfpc st <= lzfpm p * (1 + side p) /\ 0 <= alzfsc st <= lzfsm p * (1 + side p) /\
   0 <= adimc st <= uztwc st + lztwm p).
Proof. exact st_inv_iff. Qed.
Print Assumptions C10_sac_st_inv_written_out.

(** whole runs of any length: every store stays between zero and its capacity, the UH buffer stays
    non-negative, and every output satisfies runoff = surfaceRunoff + baseflow,
    0 <= baseflow <= runoff, every output (incl. actualET) >= 0 *)
Theorem C10_sacramento : forall p io st, C10_sac_ok p = true ->
  st_inv p st -> C10_qq_ok (qq st) -> io_nonneg io ->
  Forall (fun x => snd x <= uztwm p + lztwm p) io ->
  st_inv p (fst (sac_run p st io)) /\ C10_qq_ok (qq (fst (sac_run p st io))) /\
  Forall (fun o => (o_runoff o = o_surface o + o_baseflow o /\ 0 <= o_baseflow o <= o_runoff o /\
                    0 <= o_surface o /\ 0 <= o_runoff o /\ 0 <= o_imperv o) /\ 0 <= o_aet o)
         (snd (sac_run p st io)).
Proof. exact sacramento_c10. Qed.
Print Assumptions C10_sacramento.

(** regression: the witnesses that broke the unrepaired code (known findings
    sacramento-adimc-unguarded, sacramento-fracp-unguarded) and the one for a negative actualET
    under the guards patch alone now behave *)
Theorem C10_sac_adimc_bound_fixed :
  adimc (fst (sac_run sac_wit_a (sac_init sac_wit_a 0 0 0 0 0 0) [(54, 0)])) = uztwm sac_wit_a + lztwm sac_wit_a.
Proof. exact sac_adimc_bound_fixed. Qed.
Theorem C10_sac_adimc_negative_fixed :
  adimc (fst (sac_run sac_wit_n (sac_init sac_wit_n 0 0 0 0 0 0) [(54, 0); (4, 0)])) = 51.
Proof. exact sac_adimc_negative_fixed. Qed.
Theorem C10_sac_adimc_ratio_negative_fixed :
  adimc (fst (sac_run sac_wit_r (sac_init sac_wit_r 100 0 0 0 0 10) [(29, 0)])) = 39 /\
  map o_imperv (snd (sac_run sac_wit_r (sac_init sac_wit_r 100 0 0 0 0 10) [(29, 0)])) = [29/100].
Proof. exact sac_adimc_ratio_negative_fixed. Qed.
Theorem C10_sac_lzfsc_negative_fixed :
  lzfsc (fst (sac_run sac_wit_b (sac_init sac_wit_b 50 4 0 0 (9/10) 50) [(0, 0)])) = 9/10 /\
  lzfpc (fst (sac_run sac_wit_b (sac_init sac_wit_b 50 4 0 0 (9/10) 50) [(0, 0)])) = 4.
Proof. exact sac_lzfsc_negative_fixed. Qed.
Theorem C10_sac_aet_negative_fixed :
  o_aet (snd (sac_step sac_wit_e (sac_init sac_wit_e 0 10 0 0 0 0) (0, 4))) = 0.
Proof. exact sac_aet_negative_fixed. Qed.
Print Assumptions C10_sac_aet_negative_fixed.

(** water held per unit catchment area *)
Definition C10_sac_stock (p : sac_par (T:=R)) (st : sac_st (T:=R)) : R :=
  (1 - pctim p - adimp p) * (uztwc st + uzfwc st + lztwc st + alzfpc st + alzfsc st)
  + adimp p * adimc st + C10_sac_uh_store p (qq st).

(** no water created: stores after + cumulative (runoff + actualET) <= stores before + cumulative
    rain, for the whole run and (second theorem) for every prefix of the run *)
Theorem C10_sacramento_budget : forall p, C10_sac_ok p = true ->
  forall io st, st_inv p st -> C10_qq_ok (qq st) -> io_nonneg io ->
  Forall (fun x => snd x <= uztwm p + lztwm p) io ->
  C10_sac_stock p (fst (sac_run p st io))
    + rr_sum (map (fun o => o_runoff o + o_aet o) (snd (sac_run p st io)))
    <= C10_sac_stock p st + rr_sum (map fst io).
Proof. exact sacramento_budget. Qed.
Print Assumptions C10_sacramento_budget.

Theorem C10_sacramento_cumulative : forall p, C10_sac_ok p = true ->
  forall io st t, st_inv p st -> C10_qq_ok (qq st) -> io_nonneg io ->
  Forall (fun x => snd x <= uztwm p + lztwm p) io ->
  rr_sum (firstn t (map (fun o => o_runoff o + o_aet o) (snd (sac_run p st io))))
    <= rr_sum (firstn t (map fst io)) + C10_sac_stock p st.
Proof. exact sacramento_cumulative. Qed.
Print Assumptions C10_sacramento_cumulative.

(** the model's own initial state satisfies the invariant and holds no water; the hypotheses are
    satisfiable on a non-empty run *)
Theorem C10_sac_zero_state : forall p, C10_sac_ok p = true ->
  st_inv p (sac_init p 0 0 0 0 0 0) /\ C10_sac_stock p (sac_init p 0 0 0 0 0 0) = 0.
Proof. exact (fun p H => conj (st_inv_init0 p H) (sac_stock_init0 p)). Qed.
Print Assumptions C10_sac_zero_state.

Example C10_sac_hyps_satisfiable : exists p io, C10_sac_ok p = true /\
  st_inv p (sac_init p 0 0 0 0 0 0) /\ C10_qq_ok (qq (sac_init p 0 0 0 0 0 0)) /\ io_nonneg io /\
  Forall (fun x => snd x <= uztwm p + lztwm p) io /\ io <> [].
Proof. exact sac_hyps_satisfiable. Qed.
