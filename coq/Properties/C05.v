(** C05 — concurrent cell and model execution is race-free and
    schedule-independent.  Only statements, each closed by [exact <lemma>].

    Model of concurrency (Base/Interleave.v): a goroutine is a resumption of
    atomic array reads and writes; an execution is the run of an arbitrary
    schedule (list of thread numbers); every interleaving is the run of some
    schedule.  The goroutine of cell [i] is the SAME program [cell_prog i] whose
    functional run is property C04's [run_cell] (Wrapper/Run.v).

    PARTIAL with respect to the Go memory model: the join on [doneChan]
    (resp. [simulationDone]) is not modelled — "all threads finished" stands for
    the channel happens-before that makes the results visible to the caller. *)
From Coq Require Import List Arith ZArith Bool.
From OW Require Import Base.Interleave Wrapper.Spec Wrapper.Run Wrapper.Views Wrapper.CellFacts
  Wrapper.RunProofs Wrapper.Footprint Wrapper.SharedVectors Wrapper.Examples.
Import ListNotations.
Local Open Scope nat_scope.

(** General theorem, any number of threads, any address and value types: if
    each thread's write set is disjoint from every other thread's read and
    write sets, every complete interleaving ends in the memory of the sequential
    composition, each thread finishes with the result it has alone and performs
    exactly the accesses (addresses AND values) it performs alone. *)
Theorem C05_disjoint_threads_commute :
  forall (A V : Type) (A_eq_dec : forall a b : A, {a = b} + {a <> b}) (X : Type)
         (R W : nat -> A -> bool) (ts : list (prog A V X)) (m : mem A V),
  footprints_ok R W ts -> pairwise_disjoint R W (length ts) ->
  forall s m' ts' tr, run_sched A_eq_dec s m ts = (m', ts', tr) -> finished ts' ->
  (forall a, m' a = run_seq A_eq_dec ts m a) /\
  (forall j p, nth_error ts j = Some p ->
     (exists p', nth_error ts' j = Some p' /\ res_of (exec A_eq_dec p' m') = res_of (exec A_eq_dec p m)) /\
     proj_trace j tr = trace_of (exec A_eq_dec p m) /\
     (forall a, R j a || W j a = true -> m' a = mem_of (exec A_eq_dec p m) a)) /\
  (forall a, (forall j, j < length ts -> W j a = false) -> m' a = m a).
Proof. exact disjoint_threads_commute. Qed.
Print Assumptions C05_disjoint_threads_commute.

(** The global trace of any complete schedule is an element of the inductive
    shuffle [interleavings] of the threads' solo traces. *)
Theorem C05_trace_is_interleaving :
  forall (A V : Type) (A_eq_dec : forall a b : A, {a = b} + {a <> b}) (X : Type)
         (R W : nat -> A -> bool) s (ts : list (prog A V X)) (m : mem A V),
  footprints_ok R W ts -> pairwise_disjoint R W (length ts) ->
  forall m' ts' tr, run_sched A_eq_dec s m ts = (m', ts', tr) -> finished ts' ->
  interleavings (map (fun p => trace_of (exec A_eq_dec p m)) ts) (map snd tr).
Proof. exact schedule_trace_interleaving. Qed.
Print Assumptions C05_trace_is_interleaving.

(** No data race on the modelled memory: two accesses of different threads to
    the same address are both reads, in every run (complete or not). *)
Theorem C05_no_conflicting_accesses :
  forall (A V : Type) (A_eq_dec : forall a b : A, {a = b} + {a <> b}) (X : Type)
         (R W : nat -> A -> bool) s (ts : list (prog A V X)) (m : mem A V),
  footprints_ok R W ts -> pairwise_disjoint R W (length ts) ->
  forall m' ts' tr, run_sched A_eq_dec s m ts = (m', ts', tr) ->
  forall j1 e1 j2 e2, In (j1, e1) tr -> In (j2, e2) tr -> j1 < length ts -> j2 < length ts ->
  j1 <> j2 -> ev_addr e1 = ev_addr e2 -> is_write e1 = false /\ is_write e2 = false.
Proof. exact no_conflicting_accesses. Qed.
Print Assumptions C05_no_conflicting_accesses.

(** Complete schedules exist (the theorems above are not vacuous). *)
Theorem C05_complete_schedule_exists :
  forall (A V : Type) (A_eq_dec : forall a b : A, {a = b} + {a <> b}) (X : Type) (ts : list (prog A V X)) m,
  exists s m' ts' tr, run_sched A_eq_dec s m ts = (m', ts', tr) /\ finished ts'.
Proof. exact complete_schedule_exists. Qed.
Print Assumptions C05_complete_schedule_exists.

Section C05.
  Variable V : Type.
  Variable toZ : V -> Z.
  Variable K : cellparams V -> list V -> list (list V) -> list (list V) -> option (list (list V) * list V).
  Variable sp : spec.

  (** Footprint of the goroutine of cell [i], for every spec and layout: it
      reads only the parameter array, its state row, the rows of its input
      block and its own output rows, and writes only its output rows and its
      state row — whatever values it reads.  [K_state_len]: the kernel's packed
      state is not longer than the state row it was extracted from (custom-state
      models only; same side condition as known finding init-states-sized-from-cell0). *)
  Theorem C05_cell_footprint : forall nIn nI T N S oN oK oT nP nSets maxd,
    K_state_len V K -> forall i,
    fp (Rb sp nIn nI T N S oN oK oT nP nSets i) (Wb sp nIn nI T N S oN oK oT nP nSets i)
       (cell_prog V toZ K sp (mk_shapes nIn nI T N S oN oK oT nP nSets) (pviews_from maxd nSets 0 (s_params sp)) i).
  Proof. exact (fp_cell V toZ K sp). Qed.

  (** The closed-form footprint lists of Wrapper/Run.v — the ones extracted and
      compared with the accesses RECORDED on the real code — contain every
      access the goroutine performs from memory [m]: exactly the parameter
      elements of set [i mod nSets] (tables with the cell's own extents), its
      state row, its input block rows, its output rows. *)
  Theorem C05_cell_footprint_exact : forall nIn nI T N S oN oK oT nP nSets maxd,
    K_state_len V K -> 1 <= nSets ->
    forall i (m : mem addr V) e,
    In e (trace_of (exec addr_eq_dec (cell_prog V toZ K sp (mk_shapes nIn nI T N S oN oK oT nP nSets) (pviews_from maxd nSets 0 (s_params sp)) i) m)) ->
    if is_write e then In (ev_addr e) (cell_writes sp (mk_shapes nIn nI T N S oN oK oT nP nSets) i)
    else In (ev_addr e) (cell_reads V toZ sp (mk_shapes nIn nI T N S oN oK oT nP nSets) maxd (fun o => m (BP, o)) i).
  Proof. exact (cell_footprint_exact V toZ K sp). Qed.

  (** cells_disjoint: i <> j -> W_i ∩ (R_j ∪ W_j) = ∅ (different cells =
      different rows; row-major ravel is injective). *)
  Theorem C05_cells_disjoint : forall nIn nI T N S oN oK oT nP nSets,
    wf_layout sp nIn nI T N S oN oK oT nSets ->
    forall i j a, i <> j -> Wb sp nIn nI T N S oN oK oT nP nSets i a = true ->
    Rb sp nIn nI T N S oN oK oT nP nSets j a = false /\ Wb sp nIn nI T N S oN oK oT nP nSets j a = false.
  Proof. exact (cells_disjoint sp). Qed.

  (** No goroutine of Run writes the inputs or the parameters. *)
  Theorem C05_inputs_params_never_written : forall nIn nI T N S oN oK oT nP nSets i o,
    Wb sp nIn nI T N S oN oK oT nP nSets i (BI, o) = false /\ Wb sp nIn nI T N S oN oK oT nP nSets i (BP, o) = false.
  Proof. exact (inputs_params_not_written sp). Qed.

  (** run_schedule_independent: any interleaving of the N cell goroutines of
      one Run call ends in the memory of the sequential cell-by-cell run of C04,
      each goroutine performs exactly its solo accesses, and no two goroutines
      ever perform conflicting accesses. *)
  Theorem C05_run_schedule_independent : forall nIn nI T N S oN oK oT nP nSets maxd (m0 : mem addr V) outs_of st_of,
    wf_layout sp nIn nI T N S oN oK oT nSets ->
    all_ok V toZ K sp nIn nI T N S oK oT nP nSets maxd m0 outs_of st_of ->
    K_state_len V K ->
    exists m2, run V toZ K sp (mk_shapes nIn nI T N S oN oK oT nP nSets) (pviews_from maxd nSets 0 (s_params sp)) m0 = Some m2 /\
    forall s m' ts' tr,
      run_sched addr_eq_dec s m0 (cell_threads V toZ K sp nIn nI T N S oN oK oT nP nSets maxd) = (m', ts', tr) ->
      finished ts' ->
      (forall a, m' a = m2 a) /\
      (forall i, i < N ->
         proj_trace i tr = trace_of (exec addr_eq_dec (cell_prog V toZ K sp (mk_shapes nIn nI T N S oN oK oT nP nSets) (pviews_from maxd nSets 0 (s_params sp)) i) m0)) /\
      (forall j1 e1 j2 e2, In (j1, e1) tr -> In (j2, e2) tr -> j1 <> j2 ->
         ev_addr e1 = ev_addr e2 -> is_write e1 = false /\ is_write e2 = false).
  Proof. exact (run_schedule_independent V toZ K sp). Qed.
End C05.
Print Assumptions C05_cell_footprint.
Print Assumptions C05_cell_footprint_exact.
Print Assumptions C05_cells_disjoint.
Print Assumptions C05_inputs_params_never_written.
Print Assumptions C05_run_schedule_independent.

(** The non-array shared state of Run, with the index vectors put into memory
    (Wrapper/SharedVectors.v): shared size / step / shape vectors at addresses
    [XShared ..], the position vectors of cell c at [XPos c ..] (allocated inside
    the goroutine).  shared_vectors_readonly: whatever the memory holds, no
    access of any goroutine writes an element of a shared vector, and the only
    position vectors it writes are its own. *)
Theorem C05_shared_vectors_readonly :
  forall (V : Type) (toZ : V -> Z) K (sp : spec) (nIn nI T N S oN oK oT nP nSets : nat) (maxd : denv),
  K_state_len V K ->
  forall (i : nat) (m : mem xaddr (xval V)) (e : event xaddr (xval V)),
  In e (trace_of (exec xaddr_eq_dec (ext_cell V toZ K sp nIn nI T N S oN oK oT nP nSets maxd i) m)) ->
  is_write e = true ->
  (forall v idx, ev_addr e <> XShared v idx) /\ (forall c v idx, ev_addr e = XPos c v idx -> c = i).
Proof. exact shared_vectors_readonly. Qed.
Print Assumptions C05_shared_vectors_readonly.

(** Disjointness and schedule independence hold with the vectors included. *)
Theorem C05_ext_cells_disjoint : forall (sp : spec) (nIn nI T N S oN oK oT nP nSets : nat),
  wf_layout sp nIn nI T N S oN oK oT nSets ->
  forall i j a, i <> j -> Wx sp nIn nI T N S oN oK oT nP nSets i a = true ->
  Rx sp nIn nI T N S oN oK oT nP nSets j a = false /\ Wx sp nIn nI T N S oN oK oT nP nSets j a = false.
Proof. exact ext_cells_disjoint. Qed.
Print Assumptions C05_ext_cells_disjoint.

Theorem C05_ext_schedule_independent :
  forall (V : Type) (toZ : V -> Z) K (sp : spec) (nIn nI T N S oN oK oT nP nSets : nat) (maxd : denv),
  wf_layout sp nIn nI T N S oN oK oT nSets -> K_state_len V K ->
  forall (m : mem xaddr (xval V)) s m' ts' tr,
  run_sched xaddr_eq_dec s m (ext_threads V toZ K sp nIn nI T N S oN oK oT nP nSets maxd) = (m', ts', tr) ->
  finished ts' ->
  (forall a, m' a = run_seq xaddr_eq_dec (ext_threads V toZ K sp nIn nI T N S oN oK oT nP nSets maxd) m a) /\
  (forall j1 e1 j2 e2, In (j1, e1) tr -> In (j2, e2) tr -> j1 <> j2 ->
     ev_addr e1 = ev_addr e2 -> is_write e1 = false /\ is_write e2 = false).
Proof. exact ext_schedule_independent. Qed.
Print Assumptions C05_ext_schedule_independent.

(** With the prologue's values in the shared cells, the extended goroutine does
    to the arrays exactly what [cell_prog i] (the goroutine of C04 / of the
    theorems above) does, and leaves the shared vectors as they were. *)
Theorem C05_ext_refines :
  forall (V : Type) (toZ : V -> Z) K (sp : spec) (nIn nI T N S oN oK oT nP nSets : nat) (maxd : denv) (dv : V)
         (i : nat) (m : mem xaddr (xval V)),
  holds_shared V nIn nI T N S oN oK oT nP nSets m -> arrays_typed V m ->
  res_of (exec xaddr_eq_dec (ext_cell V toZ K sp nIn nI T N S oN oK oT nP nSets maxd i) m) =
  res_of (exec addr_eq_dec (cell_prog V toZ K sp (mk_shapes nIn nI T N S oN oK oT nP nSets) (pviews_from maxd nSets 0 (s_params sp)) i) (proj V dv m)) /\
  (forall a, proj V dv (mem_of (exec xaddr_eq_dec (ext_cell V toZ K sp nIn nI T N S oN oK oT nP nSets maxd i) m)) a =
             mem_of (exec addr_eq_dec (cell_prog V toZ K sp (mk_shapes nIn nI T N S oN oK oT nP nSets) (pviews_from maxd nSets 0 (s_params sp)) i) (proj V dv m)) a) /\
  (forall v j, mem_of (exec xaddr_eq_dec (ext_cell V toZ K sp nIn nI T N S oN oK oT nP nSets maxd i) m) (XShared v j) = m (XShared v j)).
Proof. exact ext_refines. Qed.
Print Assumptions C05_ext_refines.

(** One ow-sim generation: a goroutine per model type, each running its own Run
    on its own arrays (addresses carry the model type).  All cell goroutines of
    all model types are pairwise disjoint, hence schedule-independent. *)
Theorem C05_generation_models_disjoint : forall (V : Type) (toZ : V -> Z) (models : nat -> gmodel V) (tids : list (nat * nat)),
  NoDup tids ->
  (forall g, let M := models g in
     wf_layout (g_sp V M) (g_nIn V M) (g_nI V M) (g_T V M) (g_N V M) (g_S V M) (g_oN V M) (g_oK V M) (g_oT V M) (g_nSets V M)) ->
  pairwise_disjoint (gR V models tids) (gW V models tids) (length (gthreads V toZ models tids)).
Proof. exact generation_models_disjoint. Qed.
Print Assumptions C05_generation_models_disjoint.

Theorem C05_generation_schedule_independent : forall (V : Type) (toZ : V -> Z) (models : nat -> gmodel V) (tids : list (nat * nat)),
  NoDup tids ->
  (forall g, let M := models g in
     wf_layout (g_sp V M) (g_nIn V M) (g_nI V M) (g_T V M) (g_N V M) (g_S V M) (g_oN V M) (g_oK V M) (g_oT V M) (g_nSets V M)) ->
  (forall g, K_state_len V (g_K V (models g))) ->
  forall (m : mem gaddr V) s m' ts' tr,
  run_sched gaddr_eq_dec s m (gthreads V toZ models tids) = (m', ts', tr) -> finished ts' ->
  (forall a, m' a = run_seq gaddr_eq_dec (gthreads V toZ models tids) m a) /\
  (forall j p, nth_error (gthreads V toZ models tids) j = Some p -> proj_trace j tr = trace_of (exec gaddr_eq_dec p m)) /\
  (forall j1 e1 j2 e2, In (j1, e1) tr -> In (j2, e2) tr -> j1 <> j2 ->
     ev_addr e1 = ev_addr e2 -> is_write e1 = false /\ is_write e2 = false).
Proof. exact generation_schedule_independent. Qed.
Print Assumptions C05_generation_schedule_independent.

(** Non-vacuity: three goroutines of a concrete model under a round-robin
    (genuinely interleaved) schedule all finish and leave the memory of the
    sequential run; the kernel satisfies [K_state_len]. *)
Example C05_nonvacuous : C05_demo_statement.
Proof. exact C05_demo. Qed.
