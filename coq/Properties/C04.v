(** C04 — the vectorised Run equals independent single-cell runs and touches
    nothing else.  Only statements, each closed by [exact <lemma>]; the model is
    Wrapper/Run.v (every index computation of pre/ow-specgen/generated_struct.got),
    the proofs are in Wrapper/RunProofs.v and Wrapper/InitProofs.v.

    Reading guide.  Arrays are flat row-major stores: memory maps
    (buffer, flat offset) to values, buffers BI / BS / BO / BP = inputs [nIn;nI;T],
    states [N;S], outputs [oN;oK;oT] (at least as large as needed), parameters
    [nP;nSets].  [K] is the model's kernel (any function of the decoded
    parameters, the state row, the input rows and the previous output rows;
    [None] = panic).  [cell_result m i] is [K] applied to cell [i]'s own data in
    [m]: parameters of set [i mod nSets] (tables decoded with the cell's own
    extents), state row [i], input block [i mod nIn], output rows of cell [i].

    Array extents are part of the caller-visible state too: in the model the
    shapes ([shapes]: dI, dS, dO, dP) are immutable values passed to [run] — the
    theorems below say "inputs and parameters unchanged" about the stores; that
    the Go Run also leaves every array DESCRIPTOR (Shape / NDims / Len per axis,
    which [Shape()] hands out as a live slice) unchanged, and that a second Run
    on the same objects reproduces the first, is checked on the real code by
    the harness (tools/c04.py, harness/cmd/cellrun) for every case. *)
From Coq Require Import List Arith ZArith Permutation.
From OW Require Import Base.Interleave Wrapper.Spec Wrapper.Run Wrapper.Views Wrapper.CellFacts
  Wrapper.RunProofs Wrapper.ParamBounds Wrapper.FindDims Wrapper.InitProofs Wrapper.Examples Gen.WrapperSpecs.
Import ListNotations.
Local Open Scope nat_scope.

Section C04.
  Variable V : Type.
  Variable toZ : V -> Z.          (* Go int(x) *)
  Variable K : cellparams V -> list V -> list (list V) -> list (list V) -> option (list (list V) * list V).
  Variable sp : spec.             (* any spec: in particular each of the 41 in Gen/WrapperSpecs.v *)

  (** Parameters are decoded per cell: parameter set [i mod nSets]; parameter
      [j] occupies the rows starting at the running sum of the block sizes
      (table blocks: product of the MAX extents); a table yields, for cell [i],
      the rows [row + ravel_max(ix)] for [ix] below the cell's OWN extents. *)
  Theorem C04_apply_parameters_decode : forall nIn nI T N S oN oK oT nP nSets maxd (m : mem addr V) i,
    1 <= nSets ->
    let sh := mk_shapes nIn nI T N S oN oK oT nP nSets in
    let c := i mod nSets in
    let pcol := fun r => m (BP, r * nSets + c) in
    let rows := param_rows toZ maxd pcol 0 [] (s_params sp) in
    Forall (Forall (fun r => r < nP)) rows ->
    exists pviews,
      apply_parameters maxd (dP sh) (s_params sp) = Some pviews /\
      run_prog V (read_params V toZ sh i (s_params sp) pviews []) m = Some (map (map pcol) rows, m).
  Proof. exact (apply_parameters_decode V toZ sp). Qed.

  Theorem C04_parameter_rows : forall maxd pcol ps j row env p,
    nth_error ps j = Some p ->
    exists env',
      nth_error (param_rows (V:=V) toZ maxd pcol row env ps) j =
      Some match p with
           | Table ds => map (fun ix => row + row_of maxd ps j + dot ix (strides (map (dlookup maxd) ds)))
                             (indices (map (dlookup env') ds))
           | _ => [row + row_of maxd ps j]
           end.
  Proof. exact (param_rows_nth V toZ). Qed.

  (** Main statement.  For all cell counts N, parameter-set counts nSets >= 1,
      input-block counts nIn >= 1, series lengths T, output arrays at least as
      large as needed: if the kernel succeeds on every cell's own data (with
      rows of the series length and a state row that fits), Run succeeds and
      leaves in output rows (i,k,0..T-1) and state row i exactly what the kernel
      returned for cell i; every other element of the outputs and states, and all
      inputs and parameters, are unchanged. *)
  Theorem C04_run_cellwise : forall nIn nI T N S oN oK oT nP nSets maxd (m0 : mem addr V) outs_of st_of,
    wf_layout sp nIn nI T N S oN oK oT nSets ->
    all_ok V toZ K sp nIn nI T N S oK oT nP nSets maxd m0 outs_of st_of ->
    exists m', run V toZ K sp (mk_shapes nIn nI T N S oN oK oT nP nSets) (pviews_from maxd nSets 0 (s_params sp)) m0 = Some m' /\
      (forall i k t row v, i < N -> nth_error (outs_of i) k = Some row -> nth_error row t = Some v ->
         m' (BO, (i * oK + k) * oT + t) = v) /\
      (forall i j v, i < N -> nth_error (st_of i) j = Some v -> m' (BS, i * S + j) = v) /\
      (forall a, ~ cell_written V sp T N S oK oT st_of a -> m' a = m0 a) /\
      (forall o, m' (BI, o) = m0 (BI, o)) /\ (forall o, m' (BP, o) = m0 (BP, o)).
  Proof. exact (run_cellwise V toZ K sp). Qed.

  (** The hypothesis "the cell's parameter reads are inside the matrix" of
      [all_ok] follows from the natural conditions: the matrix has at least
      [total_rows] rows (blocks sized by the max extents) and every table is
      sliced with own extents within the max extents. *)
  Theorem C04_params_in_bounds_intro : forall nP nSets maxd (m : mem addr V) i,
    1 <= nSets -> total_rows maxd (s_params sp) <= nP ->
    own_dims_ok V toZ maxd (fun r => m (BP, r * nSets + i mod nSets)) 0 [] (s_params sp) ->
    params_in_bounds V toZ sp nP nSets maxd m i.
  Proof. exact (fun nP nSets maxd m i => params_in_bounds_intro V toZ sp nP nSets maxd m i). Qed.

  (** ... and with maxd := FindDimensions(P) (NaN-free matrix: Go's [>] and
      [int(.)] are order-compatible) every cell's own extents are covered. *)
  Theorem C04_find_dimensions_covers : forall (gtb : V -> V -> bool),
    (forall a b, gtb a b = true -> (toZ b <= toZ a)%Z) ->
    (forall a b, gtb a b = false -> (toZ a <= toZ b)%Z) ->
    forall nIn nI T N S oN oK oT nP nSets (m : mem addr V) maxd i,
    1 <= nSets -> dims_declared [] (s_params sp) = true -> NoDup (dim_names (s_params sp)) ->
    find_dims_from V toZ gtb (mk_shapes nIn nI T N S oN oK oT nP nSets) m nSets 0 [] (s_params sp) = Some maxd ->
    total_rows maxd (s_params sp) <= nP ->
    params_in_bounds V toZ sp nP nSets maxd m i.
  Proof. exact (fun gtb G1 G2 => find_dimensions_covers V toZ gtb G1 G2 sp). Qed.

  (** Any order of the cells gives the same memory. *)
  Theorem C04_run_order_irrelevant : forall nIn nI T N S oN oK oT nP nSets maxd (m0 : mem addr V) outs_of st_of,
    wf_layout sp nIn nI T N S oN oK oT nSets ->
    all_ok V toZ K sp nIn nI T N S oK oT nP nSets maxd m0 outs_of st_of ->
    forall order, Permutation order (seq 0 N) ->
    exists m1 m2, run_order V toZ K sp (mk_shapes nIn nI T N S oN oK oT nP nSets) (pviews_from maxd nSets 0 (s_params sp)) order m0 = Some m1 /\
                  run V toZ K sp (mk_shapes nIn nI T N S oN oK oT nP nSets) (pviews_from maxd nSets 0 (s_params sp)) m0 = Some m2 /\
                  forall a, m1 a = m2 a.
  Proof. exact (run_order_perm V toZ K sp). Qed.

  (** The N-cell run equals N one-cell runs on the extracted parameter column,
      state row and input block. *)
  Theorem C04_run_equals_singles : forall nIn nI T N S oN oK oT nP nSets maxd (m0 : mem addr V) outs_of st_of,
    wf_layout sp nIn nI T N S oN oK oT nSets ->
    all_ok V toZ K sp nIn nI T N S oK oT nP nSets maxd m0 outs_of st_of ->
    exists m', run V toZ K sp (mk_shapes nIn nI T N S oN oK oT nP nSets) (pviews_from maxd nSets 0 (s_params sp)) m0 = Some m' /\
    forall i, i < N ->
    exists m1, run V toZ K sp (mk_shapes 1 nI T 1 S 1 oK oT nP 1) (pviews_from maxd 1 0 (s_params sp))
                   (extract_cell V nIn nI T S oK oT nSets m0 i) = Some m1 /\
      (forall k t, k < n_out sp -> t < T -> m' (BO, (i * oK + k) * oT + t) = m1 (BO, k * oT + t)) /\
      (forall j, j < length (st_of i) -> m' (BS, i * S + j) = m1 (BS, j)).
  Proof. exact (run_equals_singles V toZ K sp). Qed.

  (** A goroutine body that completes means its kernel succeeded with
      well-shaped output rows. *)
  Theorem C04_run_cell_some_kernel_ok : forall nIn nI T N S oN oK oT nP nSets maxd (m m' : mem addr V) i,
    wf_layout sp nIn nI T N S oN oK oT nSets -> i < N -> params_in_bounds V toZ sp nP nSets maxd m i ->
    run_cell V toZ K sp (mk_shapes nIn nI T N S oN oK oT nP nSets) (pviews_from maxd nSets 0 (s_params sp)) i m = Some m' ->
    exists outs st', cell_result V toZ K sp nIn nI T S oK oT nSets maxd m i = Some (outs, st') /\
                     outs_shape_ok V sp T oK oT i outs.
  Proof. exact (run_cell_some_kernel_ok V toZ K sp). Qed.

  (** InitialiseStates.  Zero flavour: every row is zeros, as for one cell. *)
  Theorem C04_initialise_states_zero : forall (vzero : V) n k i j, i < n -> j < k ->
    nth_error (snd (initialise_states_zero V vzero n k)) (i * k + j) = Some vzero /\
    nth_error (snd (initialise_states_zero V vzero 1 k)) j = Some vzero.
  Proof. exact (initialise_states_zero_cellwise V). Qed.

  (** Custom flavour (GR4J, Lag) — PARTIAL: only under "all cells have the same
      state length", because the matrix is sized from cell 0
      (known finding init-states-sized-from-cell0). *)
  Theorem C04_initialise_states_cellwise_partial : forall (vzero : V) Kinit nSets pm n L,
    1 <= nSets -> 1 <= n ->
    (forall i, i < n -> length (Kinit (init_params V sp nSets pm i)) = L) ->
    exists st, initialise_states_custom V vzero Kinit sp nSets pm n = Some ([n; L], st) /\
      length st = n * L /\
      forall i, i < n ->
        (forall j, j < L -> nth_error st (i * L + j) = nth_error (Kinit (init_params V sp nSets pm i)) j) /\
        initialise_states_custom V vzero Kinit sp 1 (fun r => pm (r * nSets + i mod nSets)) 1
          = Some ([1; L], Kinit (init_params V sp nSets pm i)).
  Proof. exact (fun vzero Kinit => initialise_states_cellwise_partial V vzero Kinit sp). Qed.
End C04.
Print Assumptions C04_apply_parameters_decode.
Print Assumptions C04_parameter_rows.
Print Assumptions C04_run_cellwise.
Print Assumptions C04_params_in_bounds_intro.
Print Assumptions C04_find_dimensions_covers.
Print Assumptions C04_run_order_irrelevant.
Print Assumptions C04_run_equals_singles.
Print Assumptions C04_run_cell_some_kernel_ok.
Print Assumptions C04_initialise_states_zero.
Print Assumptions C04_initialise_states_cellwise_partial.

(** The general InitialiseStates statement is FALSE for the code as it is:
    with state lengths (1,2) the second row runs past the matrix sized from
    cell 0 (Go: panic), with (2,1) the matrix row of cell 1 is not cell 1's
    own initial state. *)
Theorem C04_initialise_states_cellwise_refuted :
  initialise_states Z 0%Z lag_init lagspec 2 (pm_of [1; 2]%Z) 2 = None /\
  initialise_states Z 0%Z lag_init lagspec 1 (pm_of [2]%Z) 1 = Some ([1; 2], [2; 2]%Z) /\
  initialise_states Z 0%Z lag_init lagspec 2 (pm_of [2; 1]%Z) 2 = Some ([2; 2], [2; 2; 1; 0]%Z) /\
  initialise_states Z 0%Z lag_init lagspec 1 (pm_of [1]%Z) 1 = Some ([1; 1], [1]%Z).
Proof. exact initialise_states_cellwise_refuted. Qed.
Print Assumptions C04_initialise_states_cellwise_refuted.

(** Every catalogued OW-SPEC block is one of the two modelled flavours with
    [outputs: params] and well-scoped dimensions (re-checked against the
    current sources on every run: Gen/WrapperSpecs.v is regenerated). *)
Example C04_all_specs_supported :
  wrapper_specs_unsupported = [] /\ forallb spec_supported wrapper_specs = true /\ length wrapper_specs = 41.
Proof. exact C04_specs_check. Qed.
Example C04_all_specs_dim_names_distinct : Forall (fun s => NoDup (dim_names (s_params s))) wrapper_specs.
Proof. exact C04_specs_dim_names_nodup. Qed.

(** Non-vacuity: a concrete 3-cell run (2 parameter sets, 2 input blocks, 2
    steps, padded outputs) of a one-state model whose kernel adds the parameter
    to the inputs and accumulates the state; hypotheses of C04_run_cellwise hold
    and the run is computed. *)
Example C04_nonvacuous : C04_demo_statement.
Proof. exact C04_demo. Qed.
