(** C19 — the date generator follows the proleptic Gregorian calendar.
    Only statements, each closed by [exact <lemma>]; proofs live in Num/CalendarProofs.v. *)
From Coq Require Import ZArith List.
From OW Require Import Num.Calendar Num.CalendarProofs.
Local Open Scope Z_scope.

(** From any valid start date, for ANY number of steps n, the i-th emitted
    (date, month, year, dayOfYear) is a valid calendar date whose closed-form
    day number is (day number of the start) + i, and dayOfYear is its offset
    from 1 January of its year.  All years in Z (proleptic). *)
Theorem C19_date_generator_follows_calendar : forall n s,
  valid_date s ->
  exists os, date_generator n s = Some os /\ length os = n /\
    forall i, (i < n)%nat ->
      exists d m y, nth_error os i = Some (d, m, y, days_from_civil d m y - days_from_civil 1 1 y + 1)
        /\ valid_date {| dd := d; dm := m; dy := y |}
        /\ days_from_civil d m y = dfc s + Z.of_nat i.
Proof. exact date_generator_correct. Qed.
Print Assumptions C19_date_generator_follows_calendar.

(** The day number identifies a valid date uniquely, so the statement above
    determines every emitted date. *)
Theorem C19_day_number_injective : forall s1 s2,
  valid_date s1 -> valid_date s2 -> dfc s1 = dfc s2 -> s1 = s2.
Proof. exact days_from_civil_injective. Qed.
Print Assumptions C19_day_number_injective.

(** The code's leap-year test (Go truncating %) is the Gregorian rule. *)
Theorem C19_leap_rule : forall y, leap_year y = is_leap y.
Proof. exact leap_year_is_leap. Qed.
Print Assumptions C19_leap_rule.

Theorem C19_day_of_year : forall d m y, 1 <= m <= 12 ->
  day_of_year d m y = Some (days_from_civil d m y - days_from_civil 1 1 y + 1).
Proof. exact day_of_year_spec. Qed.
Print Assumptions C19_day_of_year.

Example C19_nonvacuous : days_from_civil 1 1 1970 = 0 /\ days_from_civil 1 3 2000 = 11017
  /\ valid_date {| dd := 29; dm := 2; dy := 2000 |} /\ ~ valid_date {| dd := 29; dm := 2; dy := 1900 |}.
Proof. exact dfc_epoch. Qed.
