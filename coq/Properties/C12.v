(** C12 — constituent transport and trapping models conserve mass.
    Only statements, each closed by [exact <lemma>]; the proofs live in
    KernelProofs/{Budget,LumpedConstituent,Decay,InstreamFineSediment,
    InstreamCoarseSediment,InstreamParticulateNutrient,SedimentTrapping,TrapAll,
    DissolvedDecay,InstreamDissolvedNutrient,C12Float}.v.  All theorems but the three binary64 statements are
    about the real-number instance [RArith] of the kernels in Kernels/*.v, which are
    the same Gallina terms that are extracted and run against the Go code.

    Reading guide.  [run step s xs] is the time loop; [inflows f xs] is the sum over
    the period of the mass entering per step, [outflows g xs os] the sum of what
    leaves per step (downstream rate * dt + deposited/trapped/decayed/floodplain +
    the ghost component "flushed").  Every budget theorem holds for ANY series
    (any period, any length) and any initial stored mass. *)
From Coq Require Import ZArith Reals Lra List Floats.
From OW Require Import Base.Arith Base.RInst Base.FInst Base.Mealy KernelProofs.Budget.
From OW Require Import Kernels.C12Common Kernels.LumpedConstituent Kernels.Decay Kernels.InstreamFineSediment
  Kernels.InstreamCoarseSediment Kernels.InstreamParticulateNutrient Kernels.SedimentTrapping
  Kernels.TrapAll Kernels.DissolvedDecay Kernels.InstreamDissolvedNutrient Kernels.C12Written.
From OW Require KernelProofs.LumpedConstituent KernelProofs.Decay KernelProofs.InstreamFineSediment
  KernelProofs.InstreamCoarseSediment KernelProofs.InstreamParticulateNutrient KernelProofs.SedimentTrapping
  KernelProofs.TrapAll KernelProofs.DissolvedDecay KernelProofs.InstreamDissolvedNutrient KernelProofs.C12Float KernelProofs.C12Written.
Import KernelProofs.LumpedConstituent KernelProofs.Decay KernelProofs.InstreamFineSediment
  KernelProofs.InstreamCoarseSediment KernelProofs.InstreamParticulateNutrient KernelProofs.SedimentTrapping
  KernelProofs.TrapAll KernelProofs.DissolvedDecay KernelProofs.InstreamDissolvedNutrient KernelProofs.C12Float KernelProofs.C12Written.
Import ListNotations.
Local Open Scope R_scope.

(** * 0. The generic lifting: a per-step identity holds over every period *)
Theorem C12_budget_lifts_to_any_period :
  forall (S I O : Type) (step : S -> I -> S * O) (stock : S -> R) (inflow : I -> R) (outflow : I -> O -> R),
  (forall s x, stock s + inflow x = stock (fst (step s x)) + outflow x (snd (step s x))) ->
  forall xs s,
    stock s + inflows inflow xs =
    stock (fst (run step s xs)) + outflows outflow xs (snd (run step s xs)).
Proof. exact @run_budget. Qed.
Print Assumptions C12_budget_lifts_to_any_period.

(** ... in particular over any later period [ys] of a longer run [xs ++ ys] *)
Theorem C12_budget_over_sub_period :
  forall (S I O : Type) (step : S -> I -> S * O) (stock : S -> R) (inflow : I -> R) (outflow : I -> O -> R),
  (forall s x, stock s + inflow x = stock (fst (step s x)) + outflow x (snd (step s x))) ->
  forall xs ys s,
    let s1 := fst (run step s xs) in
    stock s1 + inflows inflow ys =
    stock (fst (run step s (xs ++ ys))) + outflows outflow ys (snd (run step s1 ys)).
Proof. exact @run_budget_split. Qed.
Print Assumptions C12_budget_over_sub_period.

(** * 1. Lumped constituent routing (LumpedConstituentTransport) *)
(** stored + sum (inflow+lateral+point)*dt = stored' + sum (outflowLoad*dt + flushed); no hypotheses *)
Theorem C12_lumped_budget : forall p dt xs s,
  s + inflows (lumped_inflow p dt) xs =
  fst (run (@lumped_step R RArith p dt) s xs) +
  outflows (lumped_outflow dt) xs (snd (run (@lumped_step R RArith p dt) s xs)).
Proof. exact lumped_run_budget. Qed.
Print Assumptions C12_lumped_budget.

Theorem C12_lumped_flush_only_below_minimum_volume : forall p dt xs s,
  Forall (fun xo => lo_flushed (snd xo) <> 0 -> lumped_working_vol dt (fst xo) < 1 / 100)
         (combine xs (snd (run (@lumped_step R RArith p dt) s xs))).
Proof. exact lumped_run_flush. Qed.
Print Assumptions C12_lumped_flush_only_below_minimum_volume.

Theorem C12_lumped_nonneg : forall p dt, 0 <= p -> 0 <= dt -> forall xs s,
  0 <= s -> Forall lumped_in_nonneg xs ->
  0 <= fst (run (@lumped_step R RArith p dt) s xs) /\
  Forall (fun xo => 0 <= lo_outflowLoad (snd xo) /\ 0 <= lo_flushed (snd xo))
         (combine xs (snd (run (@lumped_step R RArith p dt) s xs))).
Proof. exact lumped_run_nonneg. Qed.
Print Assumptions C12_lumped_nonneg.

(** * 2. Constituent decay *)
(** stored + sum (inflow+lateral)*dt = stored' + sum (outflowLoad*dt + decayed + flushed) *)
Theorem C12_decay_budget : forall h dt xs s,
  s + inflows (decay_inflow dt) xs =
  fst (run (@decay_step R RArith h dt) s xs) +
  outflows (decay_outflow dt) xs (snd (run (@decay_step R RArith h dt) s xs)).
Proof. exact decay_run_budget. Qed.
Print Assumptions C12_decay_budget.

(** the decayed amount is what the output decayedLoad (a rate) reports *)
Theorem C12_decay_reported_rate : forall h dt s x, dt <> 0 ->
  do_decayedLoad (snd (@decay_step R RArith h dt s x)) * dt = do_decayedAmount (snd (@decay_step R RArith h dt s x)).
Proof. exact decay_step_decayedLoad. Qed.
Print Assumptions C12_decay_reported_rate.

Theorem C12_decay_flush_only_below_minimum_volume : forall h dt xs s,
  Forall (fun xo => do_flushed (snd xo) <> 0 -> decay_working_vol dt (fst xo) < 1 / 100)
         (combine xs (snd (run (@decay_step R RArith h dt) s xs))).
Proof. exact decay_run_flush. Qed.
Print Assumptions C12_decay_flush_only_below_minimum_volume.

Theorem C12_decay_nonneg : forall h dt, 0 <= dt -> forall xs s,
  0 <= s -> Forall decay_in_nonneg xs ->
  0 <= fst (run (@decay_step R RArith h dt) s xs) /\
  Forall (fun xo => 0 <= do_outflowLoad (snd xo) /\ 0 <= do_decayedAmount (snd xo) /\ 0 <= do_flushed (snd xo))
         (combine xs (snd (run (@decay_step R RArith h dt) s xs))).
Proof. exact decay_run_nonneg. Qed.
Print Assumptions C12_decay_nonneg.

(** * 3. In-stream fine sediment, main path (bankFullFlow > 1e-8) *)
(** channel store + stored + sum incoming*dt = channel store' + stored' + sum (downstream*dt + floodplain + flushed);
    every branch (flood / no flood, deposition / remobilisation / neither, no water), no hypotheses *)
Theorem C12_fine_budget : forall p xs s,
  fine_stock s + inflows (fine_inflow p) xs =
  fine_stock (fst (run (@fine_step R RArith p) s xs)) +
  outflows (fine_outflow p) xs (snd (run (@fine_step R RArith p) s xs)).
Proof. exact fine_run_budget. Qed.
Print Assumptions C12_fine_budget.

(** the reported net channel deposition is the change of the channel store *)
Theorem C12_fine_deposition_is_store_change : forall p c m x,
  fst (fst (@fine_step R RArith p (c, m) x)) = c + fo_loadToChannelDeposition (snd (@fine_step R RArith p (c, m) x)) /\
  fo_channelStoreBefore (snd (@fine_step R RArith p (c, m) x)) = c /\
  fo_totalVolume (snd (@fine_step R RArith p (c, m) x)) = fi_reachVolume x + fi_outflow x * fp_durationInSeconds p.
Proof. exact fine_step_store. Qed.
Print Assumptions C12_fine_deposition_is_store_change.

Theorem C12_fine_flush_only_below_minimum_volume : forall p xs s,
  Forall (fun xo => fo_flushed (snd xo) <> 0 -> fo_totalVolume (snd xo) < 1 / 100)
         (combine xs (snd (run (@fine_step R RArith p) s xs))).
Proof. exact fine_run_flush. Qed.
Print Assumptions C12_fine_flush_only_below_minimum_volume.

(** non-negative stores and loads, and remobilisation (negative deposition) never
    exceeds what the channel store holds, for parameters in range and non-negative inputs *)
Theorem C12_fine_nonneg_and_remobilisation_bounded : forall p, fine_params_ok p -> forall xs s,
  (0 <= fst s /\ 0 <= snd s) -> Forall fine_in_nonneg xs ->
  (0 <= fst (fst (run (@fine_step R RArith p) s xs)) /\ 0 <= snd (fst (run (@fine_step R RArith p) s xs))) /\
  Forall (fun xo => 0 <= fo_loadDownstream (snd xo) /\ 0 <= fo_floodplainDeposit (snd xo) /\
                    0 <= fo_flushed (snd xo) /\
                    - fo_loadToChannelDeposition (snd xo) <= fo_channelStoreBefore (snd xo))
         (combine xs (snd (run (@fine_step R RArith p) s xs))).
Proof. exact fine_run_nonneg. Qed.
Print Assumptions C12_fine_nonneg_and_remobilisation_bounded.

(** the initial store the loop starts from (negative = proportion of maxStorage) is non-negative *)
Theorem C12_fine_initial_store_nonneg : forall p c, fine_params_ok p -> 0 <= @fine_init_store R RArith p c.
Proof. exact fine_init_store_nonneg. Qed.
Print Assumptions C12_fine_initial_store_nonneg.

(** no division by zero is reached in the floodplain function (in particular at outflow =
    bankFullFlow, which gave NaN in binary64 before fix d80779f): at or below bank-full it
    returns 0 before dividing, above bank-full both divisors are positive *)
Theorem C12_fine_floodplain_no_division_by_zero : forall q M bff v A,
  (q <= bff -> @floodPlainDepositionEmperical R RArith q M bff v A = 0) /\
  (bff < q -> 0 <= bff -> 0 < q - bff /\ 0 < q).
Proof. exact floodplain_no_division_by_zero. Qed.
Print Assumptions C12_fine_floodplain_no_division_by_zero.

(** ** bankFullFlow <= 1e-8 path (after fix 70f6256): lumped routing of upstream + lateral +
    reach-local mass; the mass entering is the SAME [fine_inflow] as on the main path *)
Theorem C12_fine_lowbank_budget : forall p xs m,
  m + inflows (fine_inflow p) xs =
  fst (run (@fine_lowbank_step R RArith p) m xs) +
  outflows (fine_lowbank_outflow p) xs (snd (run (@fine_lowbank_step R RArith p) m xs)).
Proof. exact fine_lowbank_run_budget. Qed.
Print Assumptions C12_fine_lowbank_budget.

Theorem C12_fine_lowbank_flush_only_below_minimum_volume : forall p xs m,
  Forall (fun xo => lo_flushed (snd xo) <> 0 ->
                    fi_outflow (fst xo) * fp_durationInSeconds p + fi_reachVolume (fst xo) < 1 / 100)
         (combine xs (snd (run (@fine_lowbank_step R RArith p) m xs))).
Proof. exact fine_lowbank_run_flush. Qed.
Print Assumptions C12_fine_lowbank_flush_only_below_minimum_volume.

Theorem C12_fine_lowbank_nonneg : forall p, 0 <= fp_durationInSeconds p -> forall xs m,
  0 <= m -> Forall fine_in_nonneg xs ->
  0 <= fst (run (@fine_lowbank_step R RArith p) m xs) /\
  Forall (fun xo => 0 <= lo_outflowLoad (snd xo) /\ 0 <= lo_flushed (snd xo))
         (combine xs (snd (run (@fine_lowbank_step R RArith p) m xs))).
Proof. exact fine_lowbank_run_nonneg. Qed.
Print Assumptions C12_fine_lowbank_nonneg.

(** * 4. In-stream coarse sediment: everything is deposited *)
Theorem C12_coarse_budget : forall dt xs s,
  coarse_stock s + inflows (coarse_inflow dt) xs =
  coarse_stock (fst (run (@coarse_step R RArith dt) s xs)) +
  outflows (coarse_outflow dt) xs (snd (run (@coarse_step R RArith dt) s xs)).
Proof. exact coarse_run_budget. Qed.
Print Assumptions C12_coarse_budget.

Theorem C12_coarse_nonneg : forall dt, 0 <= dt -> forall xs s,
  (0 <= fst s /\ 0 <= snd s) -> Forall coarse_in_nonneg xs ->
  (0 <= fst (fst (run (@coarse_step R RArith dt) s xs)) /\ 0 <= snd (fst (run (@coarse_step R RArith dt) s xs))) /\
  Forall (fun xo => 0 <= snd xo) (combine xs (snd (run (@coarse_step R RArith dt) s xs))).
Proof. exact coarse_run_nonneg. Qed.
Print Assumptions C12_coarse_nonneg.

(** * 5. In-stream particulate nutrient *)
(** instream + bed store + sum (upstream+lateral+streambank)*dt =
    instream' + bed store' + sum (downstream*dt + floodplain + flushed); every branch, no hypotheses *)
Theorem C12_particulate_budget : forall pnc spf dt xs s,
  pn_stock s + inflows (pn_inflow pnc dt) xs =
  pn_stock (fst (run (@pn_step R RArith pnc spf dt) s xs)) +
  outflows (pn_outflow dt) xs (snd (run (@pn_step R RArith pnc spf dt) s xs)).
Proof. exact pn_run_budget. Qed.
Print Assumptions C12_particulate_budget.

Theorem C12_particulate_flush_only_below_minimum_volume : forall pnc spf dt xs s,
  Forall (fun xo => po_flushed (snd xo) <> 0 -> pn_working_vol dt (fst xo) < 1 / 100)
         (combine xs (snd (run (@pn_step R RArith pnc spf dt) s xs))).
Proof. exact pn_run_flush. Qed.
Print Assumptions C12_particulate_flush_only_below_minimum_volume.

Theorem C12_particulate_nonneg : forall pnc spf dt, 0 <= pnc -> 0 <= spf <= 100 -> 0 <= dt -> forall xs s,
  0 <= fst s -> Forall pn_in_nonneg xs ->
  0 <= fst (fst (run (@pn_step R RArith pnc spf dt) s xs)) /\
  Forall (fun xo => 0 <= po_loadDownstream (snd xo) /\ 0 <= po_floodplainDeposit (snd xo) /\ 0 <= po_flushed (snd xo))
         (combine xs (snd (run (@pn_step R RArith pnc spf dt) s xs))).
Proof. exact pn_run_nonneg. Qed.
Print Assumptions C12_particulate_nonneg.

(** * 6. Reservoir particulate trapping (after fix 7addb3e the division is guarded).
    For non-negative inputs (so the working volume is >= 0), non-negative step and initial store:
    stored + sum inflow*dt = stored' + sum (outflowLoad*dt + trapped).  There is no flush in this
    model.  The non-negativity hypotheses are genuinely needed: the model clamps the new store with
    math.Max(.,0), which would create mass out of a negative store. *)
Theorem C12_trapping_budget : forall p, 0 <= tp_deltaT p -> forall xs s,
  0 <= s -> Forall (trap_in_ok p) xs ->
  0 <= fst (run (@trap_step R RArith p) s xs) /\
  s + inflows (trap_inflow p) xs =
  fst (run (@trap_step R RArith p) s xs) + outflows (trap_outflow p) xs (snd (run (@trap_step R RArith p) s xs)).
Proof. exact trap_run_budget. Qed.
Print Assumptions C12_trapping_budget.

(** [trap_in_ok] is just non-negativity of the three series that matter *)
Theorem C12_trapping_hypothesis_is_nonnegativity : forall p x,
  trap_in_ok p x <-> (0 <= ti_inflowLoad x /\ 0 <= ti_outflow x /\ 0 <= ti_storage x).
Proof. exact trap_in_ok_iff. Qed.

Theorem C12_trapping_nonneg : forall p, 0 <= tp_deltaT p -> forall xs s,
  0 <= s -> Forall (trap_in_ok p) xs ->
  0 <= fst (run (@trap_step R RArith p) s xs) /\
  Forall (fun xo => 0 <= to_outflowLoad (snd xo) /\ 0 <= to_trappedMass (snd xo) <= trap_inflow p (fst xo))
         (combine xs (snd (run (@trap_step R RArith p) s xs))).
Proof. exact trap_run_nonneg. Qed.
Print Assumptions C12_trapping_nonneg.

(** the zero-volume branch explicitly: nothing is released, the untrapped mass stays *)
Theorem C12_trapping_empty_reservoir_keeps_mass : forall p s x,
  0 <= s -> 0 <= ti_inflowLoad x -> 0 <= tp_deltaT p -> trap_working_vol p x <= 0 ->
  to_outflowLoad (snd (@trap_step R RArith p s x)) = 0 /\
  fst (@trap_step R RArith p s x) = s + trap_inflow p x - to_trappedMass (snd (@trap_step R RArith p s x)).
Proof. exact trap_step_empty_reservoir. Qed.
Print Assumptions C12_trapping_empty_reservoir_keeps_mass.

(** ... and in binary64, on the input that produced NaN before the fix, for every libm *)
Theorem C12_trapping_empty_reservoir_keeps_mass_binary64 : forall l : LibM,
  @storage_particulate_trapping_kernel float (FArith l)
    [86400; 1000000; 0; 112; 800; 1; 0.5]%float [10]%float [[1]; [1]; [0]; [0]]%float
  = Some ([[0]; [0]], [86410])%float.
Proof. exact trapping_empty_reservoir_keeps_mass. Qed.
Print Assumptions C12_trapping_empty_reservoir_keeps_mass_binary64.

(** * 7. Reservoir trap-all *)
(** the numbers balance in the units of the input (kg/s): stored + sum inflowMass = sum trappedMass *)
Theorem C12_trap_all_rate_identity : forall xs s,
  trapall_stock s + inflows (fun x => x) xs =
  trapall_stock (fst (run (@trapall_step R RArith) s xs)) +
  outflows (fun _ o => o) xs (snd (run (@trapall_step R RArith) s xs)).
Proof. exact trapall_run_rate_identity. Qed.
Print Assumptions C12_trap_all_rate_identity.

(** REFUTED as a MASS budget: for every step length other than 1 s *)
Theorem C12_trap_all_budget_refuted : forall dt, dt <> 1 ->
  exists (m0 : R) (xs : list R), 0 <= m0 /\ Forall (fun x => 0 <= x) xs /\
    exists outs st,
      @storage_trap_all_kernel R RArith [] [m0] [xs; xs; xs; xs] = Some (outs, [st]) /\
      m0 + Rsum (map (fun x => x * dt) xs) <>
      st + Rsum (nth 0 outs []) + Rsum (map (fun o => o * dt) (nth 1 outs [])).
Proof. exact trap_all_budget_refuted. Qed.
Print Assumptions C12_trap_all_budget_refuted.

(** * 8. Reservoir dissolved constituent, decay disabled (nil lateral series) *)
Theorem C12_dissolved_nodecay_budget : forall dt (a c d : list R) s,
  let r := @dissolved_nodecay R RArith a c d s dt in
  s + inflows (dissolved_inflow dt) (dissolved_rows a c d) =
  fst r + outflows (lumped_outflow dt) (dissolved_rows a c d) (snd r).
Proof. exact dissolved_nodecay_budget. Qed.
Print Assumptions C12_dissolved_nodecay_budget.

Theorem C12_dissolved_nodecay_flush_only_below_minimum_volume : forall dt (a c d : list R) s,
  let r := @dissolved_nodecay R RArith a c d s dt in
  Forall (fun xo => lo_flushed (snd xo) <> 0 -> lumped_working_vol dt (fst xo) < 1 / 100)
         (combine (dissolved_rows a c d) (snd r)).
Proof. exact dissolved_nodecay_flush. Qed.
Print Assumptions C12_dissolved_nodecay_flush_only_below_minimum_volume.

Theorem C12_dissolved_nodecay_nonneg : forall dt (a c d : list R) s,
  0 <= dt -> 0 <= s -> Forall (fun x => 0 <= x) a -> Forall (fun x => 0 <= x) c -> Forall (fun x => 0 <= x) d ->
  let r := @dissolved_nodecay R RArith a c d s dt in
  0 <= fst r /\
  Forall (fun xo => 0 <= lo_outflowLoad (snd xo) /\ 0 <= lo_flushed (snd xo))
         (combine (dissolved_rows a c d) (snd r)).
Proof. exact dissolved_nodecay_nonneg. Qed.
Print Assumptions C12_dissolved_nodecay_nonneg.

(** the model of the current code never panics on well-formed arguments (the pre-fix code
    dereferenced the nil lateral series: the check detects that as a crash) *)
Theorem C12_dissolved_kernel_total : forall (dt flag ari bff mfrt s : R) (a b c d : list R),
  @storage_dissolved_decay_kernel R RArith [dt; flag; ari; bff; mfrt] [s] [a; b; c; d] <> None.
Proof. exact dissolved_kernel_total. Qed.
Print Assumptions C12_dissolved_kernel_total.

(** * 9. Binary64 *)
(** regression witness of fix d80779f: outflow = bankFullFlow with no floodplain: no NaN *)
Theorem C12_fine_at_bankfull_no_nan_binary64 :
  exists outs c st,
    @instream_fine_sediment_kernel float (FArith stubM)
      [10; 0; 0; 5; 1000; 0.5; 2; 0.5; 1.5; 0.25; 0.125; 0.25; 86400]%float [0; 100]%float
      [[0.5]; [0]; [0]; [1000]; [10]]%float = Some (outs, [c; st]) /\
    forallb (forallb (fun v => negb (f_is_nan v))) outs = true /\
    f_is_nan c = false /\ f_is_nan st = false /\ nth 0 (nth 1 outs []) 1%float = 0%float.
Proof. exact fine_at_bankfull_no_nan. Qed.
Print Assumptions C12_fine_at_bankfull_no_nan_binary64.

(** remaining binary64 finding *)
Theorem C12_decay_roundoff_negative_refuted : forall l : LibM,
  exists params states inputs outs st,
    all_nonneg params = true /\ all_nonneg states = true /\ forallb all_nonneg inputs = true /\
    @constituent_decay_kernel float (FArith l) params states inputs = Some (outs, [st]) /\
    PrimFloat.ltb st 0 = true.
Proof. exact decay_roundoff_negative_refuted. Qed.
Print Assumptions C12_decay_roundoff_negative_refuted.

(** * 10. The catalogue kernels (what is extracted and run against the Go code) are these runs *)
Theorem C12_lumped_kernel_is_run : forall (w p dt s : R) (a b c d : list R),
  @lumped_constituent_routing_kernel R RArith [w; p; dt] [s] [a; b; c; d] =
  let r := run (@lumped_step R RArith p dt) s (lumped_rows a (Some b) c d) in
  Some ([map lo_outflowLoad (snd r); map lo_pointSourceLoad (snd r)], [fst r]).
Proof. exact lumped_kernel_unfold. Qed.

Theorem C12_decay_kernel_is_run : forall (w h dt s : R) (a b c d e : list R),
  @constituent_decay_kernel R RArith [w; h; dt] [s] [a; b; c; d; e] =
  let r := run (@decay_step R RArith h dt) s (decay_rows a b c d e) in
  Some ([map do_decayedLoad (snd r); map do_outflowLoad (snd r)], [fst r]).
Proof. exact decay_kernel_unfold. Qed.

Theorem C12_fine_kernel_main_is_run : forall (bff vf fpa lw ll ls bh pbh sbd mn vs vr dt c m : R) (a b l v q : list R),
  1 / 100000000 < bff ->
  @instream_fine_sediment_kernel R RArith [bff; vf; fpa; lw; ll; ls; bh; pbh; sbd; mn; vs; vr; dt] [c; m] [a; b; l; v; q] =
  let p := mk_fine_params bff vf fpa lw ll ls bh pbh sbd mn vs vr dt in
  let r := run (@fine_step R RArith p) (@fine_init_store R RArith p c, m) (fine_rows a b l v q) in
  Some ([map fo_loadDownstream (snd r); map fo_loadToFloodplain (snd r); map fo_loadToChannelDeposition (snd r);
         map fo_floodplainDepositionFraction (snd r); map fo_channelDepositionFraction (snd r)],
        [fst (fst r); snd (fst r)]).
Proof. exact fine_kernel_unfold_main. Qed.

Theorem C12_fine_kernel_lowbank_is_run :
  forall (bff vf fpa lw ll ls bh pbh sbd mn vs vr dt c m : R) (a b l v q : list R),
  bff <= 1 / 100000000 ->
  @instream_fine_sediment_kernel R RArith [bff; vf; fpa; lw; ll; ls; bh; pbh; sbd; mn; vs; vr; dt] [c; m] [a; b; l; v; q] =
  let p := mk_fine_params bff vf fpa lw ll ls bh pbh sbd mn vs vr dt in
  let r := run (@fine_lowbank_step R RArith p) m (fine_rows a b l v q) in
  Some ([map lo_outflowLoad (snd r); zeros (snd r); zeros (snd r); zeros (snd r); zeros (snd r)], [c; fst r]).
Proof. exact fine_kernel_unfold_lowbank. Qed.

Theorem C12_coarse_kernel_is_run : forall (dt c m : R) (a b d : list R),
  @instream_coarse_sediment_kernel R RArith [dt] [c; m] [a; b; d] =
  let r := run (@coarse_step R RArith dt) (c, m) (zip3 a b d) in
  Some ([snd r], [fst (fst r); snd (fst r)]).
Proof. exact coarse_kernel_unfold. Qed.

Theorem C12_particulate_kernel_is_run : forall (pnc spf dt i c : R) (a b c0 d e f g h : list R),
  @instream_particulate_nutrient_kernel R RArith [pnc; spf; dt] [i; c] [a; b; c0; d; e; f; g; h] =
  let r := run (@pn_step R RArith pnc spf dt) (i, c) (pn_rows a b c0 d e f g h) in
  Some ([map po_loadDeposited (snd r); map po_loadFromStreambank (snd r); map po_loadDownstream (snd r);
         map po_loadToFloodplain (snd r)], [fst (fst r); snd (fst r)]).
Proof. exact pn_kernel_unfold. Qed.

Theorem C12_trapping_kernel_is_run : forall (dt cap len sub mult ldf ldp s : R) (a b c d : list R),
  @storage_particulate_trapping_kernel R RArith [dt; cap; len; sub; mult; ldf; ldp] [s] [a; b; c; d] =
  let p := mk_trap_params dt cap len sub mult ldf ldp in
  let r := run (@trap_step R RArith p) s (trap_rows a b c d) in
  Some ([map to_trappedMass (snd r); map to_outflowLoad (snd r)], [fst r]).
Proof. exact trap_kernel_unfold. Qed.

Theorem C12_trapall_kernel_is_run : forall (m0 : R) (xs b c d : list R),
  @storage_trap_all_kernel R RArith [] [m0] [xs; b; c; d] =
  let rr := run (@trapall_step R RArith) (Some m0) xs in
  Some ([snd rr; zeros (snd rr)], [@trapall_pack R RArith (fst rr)]).
Proof. exact trapall_kernel_unfold. Qed.

(** the state the kernel hands back is the stock of section 7's identity *)
Theorem C12_trapall_packed_state_is_stock : forall s, @trapall_pack R RArith s = trapall_stock s.
Proof. exact trapall_pack_is_stock. Qed.

(** empty series (fix b73cc97): no output, stored mass carried unchanged; after a non-empty run nothing is left *)
Theorem C12_trapall_kernel_empty_series : forall (m0 : R) (b c d : list R),
  @storage_trap_all_kernel R RArith [] [m0] [[]; b; c; d] = Some ([[]; []], [m0]).
Proof. exact trapall_kernel_empty. Qed.

Theorem C12_trapall_kernel_nonempty_leaves_nothing : forall (m0 x : R) (r b c d : list R),
  exists outs, @storage_trap_all_kernel R RArith [] [m0] [x :: r; b; c; d] = Some (outs, [0]).
Proof. exact trapall_kernel_nonempty_state. Qed.

Theorem C12_dissolved_kernel_nodecay_is_lumped : forall (dt flag ari bff mfrt s : R) (a b c d : list R),
  flag < 1 / 2 ->
  @storage_dissolved_decay_kernel R RArith [dt; flag; ari; bff; mfrt] [s] [a; b; c; d] =
  let r := @dissolved_nodecay R RArith a c d s dt in
  Some ([zeros (snd r); map lo_outflowLoad (snd r)], [fst r]).
Proof. exact dissolved_kernel_unfold. Qed.

(** InstreamDissolvedNutrientDecay with decay disabled is the lumped routing with the annual
    point-source load as point input (kg/s): theorems of section 1 apply to it *)
Theorem C12_dissolved_nutrient_nodecay_is_lumped : forall (flag psl lh lw ll uv dt s : R) (up lat vol q fpf : list R),
  flag < 1 / 2 ->
  @instream_dissolved_nutrient_decay_kernel R RArith [flag; psl; lh; lw; ll; uv; dt] [s] [up; lat; vol; q; fpf] =
  let r := run (@lumped_step R RArith (psl / 31557600) dt) s (lumped_rows up (Some lat) q vol) in
  Some ([zeros (snd r); map lo_outflowLoad (snd r); zeros (snd r); map lo_pointSourceLoad (snd r)], [fst r]).
Proof. exact dn_kernel_nodecay_is_lumped. Qed.

Theorem C12_dissolved_nutrient_kernel_empty_series : forall (flag psl lh lw ll uv dt s : R),
  @instream_dissolved_nutrient_decay_kernel R RArith [flag; psl; lh; lw; ll; uv; dt] [s] [[]; []; []; []; []] =
  Some ([[]; []; []; []], [s]).
Proof. exact dn_kernel_empty. Qed.

Theorem C12_dissolved_nutrient_nodecay_budget : forall (psl dt s : R) (up lat vol q : list R),
  let p := psl / 31557600 in
  let rows := @lumped_rows R RArith up (Some lat) q vol in
  s + inflows (lumped_inflow p dt) rows =
  fst (run (@lumped_step R RArith p dt) s rows) +
  outflows (lumped_outflow dt) rows (snd (run (@lumped_step R RArith p dt) s rows)).
Proof. exact dn_nodecay_budget. Qed.
Print Assumptions C12_dissolved_nutrient_nodecay_budget.

(** * 10b. Write footprint (Kernels/C12Written.v): which output elements the Go code assigns in every
    execution.  Wherever the footprint is 0 ("not always written": the code relies on the caller's
    zero-initialised output array there) the kernel's value is exactly that 0.0; everywhere else the
    check requires a run into an output array holding OLD data to be bit-identical to a run into a
    fresh one.  [respects mask outs]: same shape, footprint 0 -> value 0. *)
Theorem C12_lumped_footprint : forall (w p dt s : R) (a b c d : list R) outs st mask st',
  @lumped_constituent_routing_kernel R RArith [w; p; dt] [s] [a; b; c; d] = Some (outs, st) ->
  @lumped_constituent_routing_written R RArith [w; p; dt] [s] [a; b; c; d] = Some (mask, st') ->
  respects mask outs.
Proof. exact lumped_footprint. Qed.

(** in particular the lumped transport writes BOTH outputs on EVERY step, flushed or not *)
Theorem C12_lumped_writes_every_element : forall (w p dt s : R) (a b c d : list R),
  @lumped_constituent_routing_written R RArith [w; p; dt] [s] [a; b; c; d] =
  Some ([ones (lumped_rows a (Some b) c d); ones (lumped_rows a (Some b) c d)], []).
Proof. exact (fun w p dt s a b c d => eq_refl). Qed.

Theorem C12_decay_footprint : forall (w h dt s : R) (a b c d e : list R) outs st mask st',
  @constituent_decay_kernel R RArith [w; h; dt] [s] [a; b; c; d; e] = Some (outs, st) ->
  @constituent_decay_written R RArith [w; h; dt] [s] [a; b; c; d; e] = Some (mask, st') ->
  respects mask outs.
Proof. exact decay_footprint. Qed.

Theorem C12_fine_footprint :
  forall (bff vf fpa lw ll ls bh pbh sbd mn vs vr dt c m : R) (a b l v q : list R) outs st mask st',
  @instream_fine_sediment_kernel R RArith [bff; vf; fpa; lw; ll; ls; bh; pbh; sbd; mn; vs; vr; dt] [c; m] [a; b; l; v; q] = Some (outs, st) ->
  @instream_fine_sediment_written R RArith [bff; vf; fpa; lw; ll; ls; bh; pbh; sbd; mn; vs; vr; dt] [c; m] [a; b; l; v; q] = Some (mask, st') ->
  respects mask outs.
Proof. exact fine_footprint. Qed.

Theorem C12_coarse_footprint : forall (dt c m : R) (a b d : list R) outs st mask st',
  @instream_coarse_sediment_kernel R RArith [dt] [c; m] [a; b; d] = Some (outs, st) ->
  @instream_coarse_sediment_written R RArith [dt] [c; m] [a; b; d] = Some (mask, st') ->
  respects mask outs.
Proof. exact coarse_footprint. Qed.

Theorem C12_particulate_footprint : forall (pnc spf dt i c : R) (a b c0 d e f g h : list R) outs st mask st',
  @instream_particulate_nutrient_kernel R RArith [pnc; spf; dt] [i; c] [a; b; c0; d; e; f; g; h] = Some (outs, st) ->
  @instream_particulate_nutrient_written R RArith [pnc; spf; dt] [i; c] [a; b; c0; d; e; f; g; h] = Some (mask, st') ->
  respects mask outs.
Proof. exact particulate_footprint. Qed.

Theorem C12_trapping_footprint : forall (dt cap len sub mult ldf ldp s : R) (a b c d : list R) outs st mask st',
  @storage_particulate_trapping_kernel R RArith [dt; cap; len; sub; mult; ldf; ldp] [s] [a; b; c; d] = Some (outs, st) ->
  @storage_particulate_trapping_written R RArith [dt; cap; len; sub; mult; ldf; ldp] [s] [a; b; c; d] = Some (mask, st') ->
  respects mask outs.
Proof. exact trapping_footprint. Qed.

Theorem C12_trapall_footprint : forall (m0 : R) (xs b c d : list R) outs st mask st',
  @storage_trap_all_kernel R RArith [] [m0] [xs; b; c; d] = Some (outs, st) ->
  @storage_trap_all_written R RArith [] [m0] [xs; b; c; d] = Some (mask, st') ->
  respects mask outs.
Proof. exact trapall_footprint. Qed.

Theorem C12_dissolved_nodecay_footprint : forall (dt flag ari bff mfrt s : R) (a b c d : list R) outs st mask st',
  flag < 1 / 2 ->
  @storage_dissolved_decay_kernel R RArith [dt; flag; ari; bff; mfrt] [s] [a; b; c; d] = Some (outs, st) ->
  @storage_dissolved_decay_written R RArith [dt; flag; ari; bff; mfrt] [s] [a; b; c; d] = Some (mask, st') ->
  respects mask outs.
Proof. exact dissolved_nodecay_footprint. Qed.

Theorem C12_dissolved_nutrient_nodecay_footprint :
  forall (flag psl lh lw ll uv dt s : R) (up lat vol q fpf : list R) outs st mask st',
  flag < 1 / 2 ->
  @instream_dissolved_nutrient_decay_kernel R RArith [flag; psl; lh; lw; ll; uv; dt] [s] [up; lat; vol; q; fpf] = Some (outs, st) ->
  @instream_dissolved_nutrient_decay_written R RArith [flag; psl; lh; lw; ll; uv; dt] [s] [up; lat; vol; q; fpf] = Some (mask, st') ->
  respects mask outs.
Proof. exact dissolved_nutrient_nodecay_footprint. Qed.
Print Assumptions C12_particulate_footprint.

(** * 11. Observations outside the statement of C12 (recorded, not counted as violations) *)
(** the particulate-nutrient BED store (not the in-stream store) can be driven negative by a
    resuspension signal; C12's remobilisation clause is about the fine-sediment store *)
Theorem C12_observation_particulate_bed_store_can_go_negative :
  exists x : @pn_in R, pn_in_nonneg x /\ snd (fst (@pn_step R RArith 0 0 1 (100, 0) x)) < 0.
Proof. exact pn_channel_store_can_go_negative. Qed.

(** on a flushed step the output loadDeposited stays 0 although the bed store changed *)
Theorem C12_observation_particulate_deposit_unreported_on_flushed_step :
  exists x : @pn_in R, pn_in_nonneg x /\
    po_loadDeposited (snd (@pn_step R RArith 0 0 1 (100, 0) x)) = 0 /\
    po_bedExchange (snd (@pn_step R RArith 0 0 1 (100, 0) x)) = 50.
Proof. exact pn_deposit_unreported_on_flushed_step. Qed.

(** * 12. Non-vacuity *)
Example C12_fine_deposition_example :
  let r := @fine_step R RArith (fine_unit_params 1) (0, 0) (mk_fine_in 5 0 0 1 0) in
  fst r = (5, 0) /\ fo_loadToChannelDeposition (snd r) = 5 /\ fo_loadDownstream (snd r) = 0 /\
  fo_floodplainDeposit (snd r) = 0 /\ fo_flushed (snd r) = 0.
Proof. exact fine_deposition_example. Qed.

Example C12_fine_remobilisation_example :
  let r := @fine_step R RArith (fine_unit_params 2) (5, 0) (mk_fine_in 0 0 0 1 1) in
  fst r = (0, 5 / 2) /\ fo_loadToChannelDeposition (snd r) = - 5 /\ fo_loadDownstream (snd r) = 5 / 2 /\
  fo_channelStoreBefore (snd r) = 5 /\ fo_flushed (snd r) = 0.
Proof. exact fine_remobilisation_example. Qed.

Example C12_fine_lowbank_keeps_reach_local :
  let p := mk_fine_params 0 0 0 10 1000 (1/1000) 2 (1/2) (3/2) (4/100) (1/1000) (1/1000) 86400 in
  let r := @fine_lowbank_step R RArith p 0 (mk_fine_in 0 0 1 1000 1) in
  fst r + lo_outflowLoad (snd r) * 86400 = 86400 /\ lo_flushed (snd r) = 0 /\ 0 < fst r.
Proof. exact fine_lowbank_keeps_reach_local. Qed.

Example C12_trap_empty_example :
  @trap_step R RArith (mk_trap_params 86400 1000000 0 112 800 1 (1/2)) 10 (mk_trap_in 1 1 0 0) =
  (86410, {| to_trappedMass := 0; to_outflowLoad := 0 |}).
Proof. exact trap_empty_example. Qed.

Example C12_particulate_deposition_example :
  let r := @pn_step R RArith 0 0 1 (100, 0) (mk_pn_in 0 0 1 1 0 0 0 (1 / 2)) in
  fst r = (25, 50) /\ po_loadDownstream (snd r) = 25 /\ po_loadDeposited (snd r) = 50 /\ po_flushed (snd r) = 0.
Proof. exact pn_deposition_example. Qed.

Example C12_lumped_flush_example :
  @lumped_step R RArith 0 1 3 (mk_lumped_in 0 0 0 0) =
  (0, {| lo_outflowLoad := 0; lo_pointSourceLoad := 0; lo_flushed := 3 |}).
Proof. exact lumped_flush_example. Qed.

Example C12_lumped_noflush_example :
  @lumped_step R RArith 0 1 3 (mk_lumped_in 1 0 1 1) =
  (2, {| lo_outflowLoad := 2; lo_pointSourceLoad := 0; lo_flushed := 0 |}).
Proof. exact lumped_noflush_example. Qed.

Example C12_decay_halves :
  fst (@decay_step R RArith 1 1 8 (mk_decay_in 0 0 0 0 1)) = 4 /\
  do_decayedAmount (snd (@decay_step R RArith 1 1 8 (mk_decay_in 0 0 0 0 1))) = 4.
Proof. exact decay_halves. Qed.

Example C12_coarse_example : @coarse_step R RArith 2 (10, 1) (1, 2, 3) = ((23, 0), 0).
Proof. exact coarse_example. Qed.

Example C12_trap_example :
  @trap_step R RArith (mk_trap_params 1 0 0 112 800 1 (-1/5)) 3 (mk_trap_in 1 1 1 1) =
  (2, {| to_trappedMass := 0; to_outflowLoad := 2 |}).
Proof. exact trap_example. Qed.

Example C12_trapall_example :
  @storage_trap_all_kernel R RArith [] [5] [[1; 2]; [0; 0]; [0; 0]; [0; 0]] = Some ([[1 + 5; 2]; [0; 0]], [0]).
Proof. exact trapall_example. Qed.

Example C12_dissolved_example :
  @storage_dissolved_decay_kernel R RArith [1; 0; 0; 0; 0] [3] [[1]; [0]; [1]; [1]] = Some ([[0]; [2]], [2]).
Proof. exact dissolved_example. Qed.
