(** C02 — bulk array operations equal their element-by-element, row-major definition. *)
From Coq Require Import ZArith List Lia.
From OW Require Import Arrays.ArrayOpsProofs Arrays.WrapperViews Arrays.IntOps Arrays.View Arrays.Ops Arrays.IndexProofs Arrays.AffineProofs
  Arrays.ContigProofs Arrays.HelperProofs Arrays.MemProofs Arrays.ApplyProofs Arrays.ReshapeProofs
  Arrays.HistoryProofs Arrays.CopyProofs Arrays.BulkProofs.
Import ListNotations.
Local Open Scope Z_scope.

(** a view reports itself contiguous EXACTLY when its elements are adjacent in storage in
    row-major order (both directions) *)
Theorem C02_contiguous_iff_adjacent : forall rd a, in_box rd a -> steps_pos a ->
  exists b, contiguous (conc rd a) = Some b /\
    (b = true <-> forall i, valid_idx (adims a) i ->
       index (conc rd a) i = Some (start (conc rd a) + ravel (adims a) i)).
Proof. exact contiguous_iff_adjacent. Qed.
Print Assumptions C02_contiguous_iff_adjacent.

(** row-major rank <-> multi-index is a bijection (what "row-major order" means below) *)
Theorem C02_unravel_ravel : forall ds i, valid_idx ds i -> unravel ds (ravel ds i) = i.
Proof. exact unravel_ravel0. Qed.
Theorem C02_ravel_unravel : forall ds k, Forall (fun d => 0 < d) ds -> 0 <= k < product ds -> ravel ds (unravel ds k) = k.
Proof. exact ravel_unravel. Qed.

(** Unroll by gathering: slot k of the result is element number k in row-major order *)
Theorem C02_unroll_row_major : forall (V : Type) (h : @heap V) a rd v,
  wf_arr h a rd v -> adims v <> [] ->
  exists vals, unroll_gather h a = Some (h ++ [vals], mkG (length h) 0 (product (adims v)) (product (adims v))) /\
    Z.of_nat (length vals) = product (adims v) /\
    forall k, 0 <= k < product (adims v) -> nth_error vals (Z.to_nat k) = get h a (unravel (adims v) k).
Proof. exact (@unroll_gather_spec). Qed.
Print Assumptions C02_unroll_row_major.

(** unrolling a contiguous Go-backed view aliases (does not copy) the storage, and still
    lists the elements in row-major order *)
Theorem C02_unroll_contiguous_aliases : forall (V : Type) (h : @heap V) g c rd v,
  wf_arr h (mkArr c (GoImpl g)) rd v -> steps_pos v -> contiguous c = Some true ->
  exists g', unroll h (mkArr c (GoImpl g)) = Some (h, g') /\
    gbuf g' = gbuf g /\ gbase g' = gbase g + start c /\ glen g' = product (adims v) /\
    forall k, 0 <= k < product (adims v) -> gread h g' k = get h (mkArr c (GoImpl g)) (unravel (adims v) k).
Proof. exact (@unroll_contiguous_alias). Qed.
Print Assumptions C02_unroll_contiguous_aliases.

(** the contiguous fast path of Apply never changes the answer *)
Theorem C02_apply_fast_eq_slow : forall (V : Type) (h : @heap V) c g rd v loc dim stp vals ld,
  wf_arr h (mkArr c (GoImpl g)) rd v -> steps_pos v ->
  valid_idx (adims v) loc -> 0 <= dim -> (Z.to_nat dim < length rd)%nat ->
  1 <= stp -> vals <> [] -> znth loc dim = Some ld ->
  (exists dd, znth (adims v) dim = Some dd /\ ld + (Z.of_nat (length vals) - 1) * stp < dd) ->
  apply h (mkArr c (GoImpl g)) loc dim stp vals = apply_loop h (mkArr c (GoImpl g)) loc dim ld stp 0 vals.
Proof. exact (@apply_fast_eq_slow). Qed.
Print Assumptions C02_apply_fast_eq_slow.

(** ApplySlice (hence CopyFrom = ApplySlice at the origin): whenever the sliced destination is
    contiguous the code takes copy(dst.Unroll(), src.Unroll()); that fast path and the
    element-by-element index loop leave the SAME contents in every buffer that existed
    before the call, for any source back-end and layout, provided the two views address
    disjoint storage cells (for partially overlapping views they differ: finding
    overlapping-copy) *)
Theorem C02_apply_slice_fast_eq_slow : forall (V : Type) (h : @heap V) (a sl src : arr) loc st g rd1 v1 rd2 v2,
  slice a loc (shape src) st = Some sl -> im a = GoImpl g ->
  wf_arr h sl rd1 v1 -> steps_pos v1 -> wf_arr h src rd2 v2 -> steps_pos v2 ->
  adims v1 = adims v2 -> adims v1 <> [] ->
  contiguous (cm sl) = Some true ->
  (forall i j, valid_idx (adims v1) i -> valid_idx (adims v1) j -> acell sl rd1 v1 i <> acell src rd2 v2 j) ->
  exists hf hs,
    apply_slice h a loc st src = Some hf /\
    idx_copy_loop h sl src (shape src) (new_index (cm sl) 0) (Z.to_nat (product (shape src))) = Some hs /\
    agree (length h) hf hs.
Proof. exact (@apply_slice_fast_eq_slow). Qed.
Print Assumptions C02_apply_slice_fast_eq_slow.

(** the index loop itself is the row-major list of element writes, with the values the source
    had before the call *)
Theorem C02_index_loop_is_row_major_writes : forall (V : Type) (h0 : @heap V) dst src rd1 v1 rd2 v2 shp,
  adims v1 = shp -> adims v2 = shp -> Forall (fun d => 0 < d) shp ->
  in_box rd1 v1 -> in_box rd2 v2 -> cm dst = conc rd1 v1 -> cm src = conc rd2 v2 ->
  (forall i j, valid_idx shp i -> valid_idx shp j -> acell dst rd1 v1 i <> acell src rd2 v2 j) ->
  forall n k (h : @heap V),
    0 <= k -> k + Z.of_nat n <= product shp ->
    storage_ok h (im dst) rd1 -> storage_ok h (im src) rd2 ->
    (forall j, valid_idx shp j ->
       hread h (fst (acell src rd2 v2 j)) (snd (acell src rd2 v2 j)) =
       hread h0 (fst (acell src rd2 v2 j)) (snd (acell src rd2 v2 j))) ->
    exists ws, copy_ws h0 dst src rd1 v1 rd2 v2 shp k n = Some ws /\
      idx_copy_loop h dst src shp (unravel shp k) n = writes h ws.
Proof. exact (@idx_copy_loop_writes). Qed.

(** Reshape fails exactly when element counts differ; ReshapeFast exactly on non-contiguous views *)
Theorem C02_reshape_fails_iff_count_differs : forall (V : Type) (h : @heap V) a s r,
  reshape h a s = Some r -> (snd r = RErr <-> product s <> product (shape a)).
Proof. exact (@reshape_fails_iff_count_differs). Qed.
Theorem C02_reshape_fast_fails_iff_not_contiguous : forall (V : Type) (h : @heap V) a s b,
  contiguous (cm a) = Some b -> product s = product (shape a) ->
  forall r, reshape_fast h a s = Some r -> (snd r = RErr <-> b = false).
Proof. exact (@reshape_fast_fails_iff_not_contiguous). Qed.
Print Assumptions C02_reshape_fast_fails_iff_not_contiguous.

(** integer index helpers agree with their arithmetic definitions *)
Theorem C02_offsets : forall ds i, ds <> [] -> length i = length ds ->
  exists off, offsets ds = Some off /\ dotz i off = ravel ds i.
Proof. exact offsets_spec. Qed.
Theorem C02_idivmod : forall ds k, 0 <= k -> Forall (fun d => 0 < d) ds -> ds <> [] ->
  exists off, offsets ds = Some off /\ idivmod k off ds = Some (unravel ds k).
Proof. exact idivmod_unravel. Qed.
Theorem C02_increment_is_row_major_successor : forall ds i, valid_idx ds i ->
  exists i', increment i ds = Some i' /\ valid_idx ds i' /\ ravel ds i' = (ravel ds i + 1) mod product ds.
Proof. exact increment_succ. Qed.
Theorem C02_product : forall l, product l = fold_right Z.mul 1 l.
Proof. exact product_spec. Qed.
Theorem C02_multiply : forall l r, length l = length r -> multiply l r = Some (vmul l r).
Proof. exact multiply_spec. Qed.
Theorem C02_argmax_least_index_of_maximum : forall l r, argmax l = Some r ->
  exists v, znth l r = Some v /\ Forall (fun w => w <= v) l /\ Forall (fun w => w < v) (firstn (Z.to_nat r) l).
Proof. exact argmax_spec. Qed.
Theorem C02_maximum : forall l m, maximum_int l = Some m -> In m l /\ Forall (fun w => w <= m) l.
Proof. exact maximum_int_spec. Qed.
Print Assumptions C02_argmax_least_index_of_maximum.
Print Assumptions C02_increment_is_row_major_successor.

(** reshaping a contiguous Go-backed view aliases (does not copy) the storage: the result is a
    well-formed array over the same buffer whose element i is the view's element of the same
    row-major rank *)
Theorem C02_reshape_contiguous_aliases : forall (V : Type) (h : @heap V) g c rd v s,
  wf_arr h (mkArr c (GoImpl g)) rd v -> steps_pos v -> contiguous c = Some true -> adims v <> [] ->
  Forall (fun d => 0 < d) s -> s <> [] -> product s = product (adims v) ->
  exists r g', reshape h (mkArr c (GoImpl g)) s = Some (h, RArr r) /\
    im r = GoImpl g' /\ gbuf g' = gbuf g /\ wf_arr h r s (idview s) /\
    forall i, valid_idx s i -> get h r i = get h (mkArr c (GoImpl g)) (unravel (adims v) (ravel s i)).
Proof. exact (@reshape_contiguous_aliases). Qed.
Print Assumptions C02_reshape_contiguous_aliases.

(** Maximum / Minimum are the left fold of the comparison over the elements in row-major order *)
Theorem C02_extremum_is_row_major_fold : forall (V : Type) better (h : @heap V) a rd v,
  wf_arr h a rd v -> adims v <> [] ->
  exists x0, get h a (unravel (adims v) 0) = Some x0 /\
    extremum better h a = fold_elems better h a (adims v) 0 x0 (Z.to_nat (product (adims v))).
Proof. exact (@extremum_is_row_major_fold). Qed.

(** Slice(loc, d, step) followed by MustReshape(s) -- the pattern by which every generated
    model wrapper addresses its inputs, states and outputs -- shares the storage, and its
    element i is the parent's element loc + unravel(d, rank_s(i)) * step.  This discharges, for
    Go-backed arrays, the interface assumption of the wrapper model (Wrapper/Views.v). *)
Theorem C02_slice_reshape_denotes : forall (V : Type) (h : @heap V) c g rd v loc d st s,
  wf_arr h (mkArr c (GoImpl g)) rd v -> steps_pos v ->
  slice_args_ok (adims v) loc d st -> Forall2 (fun sk dk => 1 < dk -> 1 <= sk) st d ->
  d <> [] -> Forall (fun x => 0 < x) s -> s <> [] -> product s = product d ->
  forall sl, slice (mkArr c (GoImpl g)) loc d (Some st) = Some sl -> contiguous (cm sl) = Some true ->
  exists r g', must_reshape h sl s = Some (h, r) /\ im r = GoImpl g' /\ gbuf g' = gbuf g /\
    wf_arr h r s (idview s) /\
    forall i, valid_idx s i ->
      get h r i = get h (mkArr c (GoImpl g)) (vadd loc (vmul (unravel d (ravel s i)) st)).
Proof. exact (@slice_reshape_denotes). Qed.
Theorem C02_wrapper_output_row : forall (V : Type) (h : @heap V) c g N K T i k,
  wf_arr h (mkArr c (GoImpl g)) [N; K; T] (idview [N; K; T]) ->
  0 <= i < N -> 0 <= k < K -> 0 < T ->
  forall sl, slice (mkArr c (GoImpl g)) [i; k; 0] [1; 1; T] (Some [1; 1; 1]) = Some sl ->
  contiguous (cm sl) = Some true ->
  exists r, must_reshape h sl [T] = Some (h, r) /\
    forall t, 0 <= t < T -> get h r [t] = impl_read h (GoImpl g) ((i * K + k) * T + t).
Proof. exact (@wrapper_output_row). Qed.
Print Assumptions C02_slice_reshape_denotes.

(** arrayops.go (ApplyFunc1 / Scale / AddTo = [elementwise2 f]): whichever path is taken
    (flat-slice fast path when both views are contiguous, Get/Set index loop otherwise), every
    destination element becomes f(old destination element, old source element), the source is
    unchanged and no other cell of an existing buffer changes -- for well-formed views of equal
    shape that do not overlap, Go- or C-backed *)
Theorem C02_arrayops_elementwise : forall (V : Type) (f : V -> V -> V) (h : @heap V) dst src rd1 v1 rd2 v2,
  wf_arr h dst rd1 v1 -> steps_pos v1 -> wf_arr h src rd2 v2 -> steps_pos v2 ->
  adims v1 = adims v2 -> adims v1 <> [] ->
  (forall i j, valid_idx (adims v1) i -> valid_idx (adims v1) j -> acell dst rd1 v1 i <> acell src rd2 v2 j) ->
  exists hf,
    elementwise2 f h dst src = Some hf /\
    (forall i, valid_idx (adims v1) i -> exists d s,
        get h dst i = Some d /\ get h src i = Some s /\ get hf dst i = Some (f d s)) /\
    (forall i, valid_idx (adims v1) i -> get hf src i = get h src i) /\
    (forall b a, (b < length h)%nat -> (forall i, valid_idx (adims v1) i -> (b, a) <> acell dst rd1 v1 i) ->
                 hread hf b a = hread h b a).
Proof. exact (@elementwise2_spec). Qed.
(** ... and the fast path and the index loop leave the same contents in every existing buffer *)
Theorem C02_arrayops_fast_eq_slow : forall (V : Type) (f : V -> V -> V) (h : @heap V) dst src rd1 v1 rd2 v2,
  wf_arr h dst rd1 v1 -> steps_pos v1 -> wf_arr h src rd2 v2 -> steps_pos v2 ->
  adims v1 = adims v2 -> adims v1 <> [] ->
  contiguous (cm dst) = Some true -> contiguous (cm src) = Some true ->
  (forall i j, valid_idx (adims v1) i -> valid_idx (adims v1) j -> acell dst rd1 v1 i <> acell src rd2 v2 j) ->
  exists hf hs,
    elementwise2 f h dst src = Some hf /\
    idx_loop2 f h dst src (shape dst) (new_index (cm dst) 0) (Z.to_nat (product (shape dst))) = Some hs /\
    agree (length h) hf hs.
Proof. exact (@elementwise2_fast_eq_slow). Qed.
Print Assumptions C02_arrayops_elementwise.
Print Assumptions C02_arrayops_fast_eq_slow.

(** Limits: the bulk-operation theorems above assume source and destination do not overlap
    (overlapping copies are the recorded finding `overlapping-copy`); for overlapping views the
    model is still executable and is compared with the code by the correspondence run. *)
Example C02_nonvacuous :
  contiguous (conc [3;4] (mkAview [1;0] [1;1] [2;4])) = Some true /\
  contiguous (conc [3;4] (mkAview [0;1] [1;1] [3;2])) = Some false /\
  in_box [3;4] (mkAview [1;0] [1;1] [2;4]) /\ argmax [1;5;3] = Some 1 /\
  increment [1;3] [3;4] = Some [2;0].
Proof. repeat split; try reflexivity. unfold in_box; cbn. repeat (constructor; try lia). Qed.
