(** C01 — array slices are live strided views that compose, with exact write footprints.
    Statements only; proofs in Arrays/*Proofs.v.  The model (Arrays/View.v, Ops.v) is the
    Go text of data/arrays.go, arrays_go.go and cdata/arrays_c.go, for an arbitrary element
    type V and both storage back-ends ([impl] = Go slice | C buffer). *)
From Coq Require Import ZArith List Lia.
From OW Require Import Arrays.IntOps Arrays.View Arrays.Ops Arrays.IndexProofs Arrays.AffineProofs
  Arrays.ContigProofs Arrays.MemProofs Arrays.ApplyProofs Arrays.Exec Arrays.HistoryProofs.
Import ListNotations.
Local Open Scope Z_scope.

(** element i of slice(loc, dims, step) is element loc + i*step of its parent (any rank) *)
Theorem C01_slice_elementwise : forall c loc d st c' i,
  wf_common c -> length loc = length (offset c) ->
  (forall s, st = Some s -> length s = length (offset c)) ->
  slice_into c loc d st = Some c' -> length i = length loc ->
  index c' i = index c (vadd loc (vmul i (step_or_ones c st))).
Proof. exact index_slice. Qed.
Print Assumptions C01_slice_elementwise.

(** ... for every chain of nested slices, stepped or not, of any depth *)
Theorem C01_slice_chain : forall ch c c' i,
  wf_common c -> Forall (sarg_ok (length (offset c))) ch ->
  slice_chain c ch = Some c' -> length i = length (offset c) ->
  index c' i = index c (compose_chain c ch i) /\ length (compose_chain c ch i) = length (offset c).
Proof. exact index_slice_chain. Qed.
Print Assumptions C01_slice_chain.

(** the concrete SliceInto refines slicing of abstract affine views (base, stride, dims) *)
Theorem C01_slice_refines_affine : forall rd a loc d st,
  rank_ok (length rd) a -> length loc = length rd ->
  (forall s, st = Some s -> length s = length rd) ->
  slice_into (conc rd a) loc d st = Some (conc rd (aslice a loc d (step_or_ones (conc rd a) st))).
Proof. exact slice_into_refines. Qed.
Print Assumptions C01_slice_refines_affine.

(** a freshly created array addresses its elements in row-major order, and row-major
    addressing is injective on in-range multi-indices *)
Theorem C01_root_row_major : forall ds c i, root_common ds = Some c -> length i = length ds ->
  index c i = Some (ravel ds i).
Proof. exact root_index. Qed.
Theorem C01_ravel_injective : forall ds i j, valid_idx ds i -> valid_idx ds j -> ravel ds i = ravel ds j -> i = j.
Proof. exact ravel_inj. Qed.
Print Assumptions C01_ravel_injective.

(** element i of every in-box view lives at the row-major address of its root multi-index,
    inside [0, size of the root) *)
Theorem C01_element_address : forall rd a i, in_box rd a -> valid_idx (adims a) i ->
  index (conc rd a) i = Some (ravel rd (root_idx a i)) /\ 0 <= ravel rd (root_idx a i) < product rd.
Proof. exact conc_index. Qed.
Print Assumptions C01_element_address.

(** slicing with in-bounds arguments keeps the view inside its root *)
Theorem C01_slice_stays_in_box : forall rd a loc d st,
  in_box rd a -> slice_args_ok (adims a) loc d st -> in_box rd (aslice a loc d st).
Proof. exact aslice_in_box. Qed.

(** a write through any view changes exactly the addressed storage cell and no other *)
Theorem C01_write_exact_footprint : forall (V : Type) (h : @heap V) (a : arr) loc v h',
  set h a loc v = Some h' ->
  exists addr, index (cm a) loc = Some addr /\
    hread h' (fst (cell_of (im a) addr)) (snd (cell_of (im a) addr)) = Some v /\
    forall b2 a2, (b2, a2) <> cell_of (im a) addr -> hread h' b2 a2 = hread h b2 a2.
Proof. exact (@set_effect_frame). Qed.
Print Assumptions C01_write_exact_footprint.

(** ... and is immediately visible through every other view of the same storage that
    overlaps it (same root element), and invisible through those that do not *)
Theorem C01_write_visible : forall (V : Type) (h : @heap V) rd (m : impl) v1 v2 i1 i2 x h',
  in_box rd v1 -> in_box rd v2 -> valid_idx (adims v1) i1 -> valid_idx (adims v2) i2 ->
  set h (mkArr (conc rd v1) m) i1 x = Some h' ->
  get h' (mkArr (conc rd v2) m) i2 =
    if list_eq_dec Z.eq_dec (root_idx v2 i2) (root_idx v1 i1) then Some x
    else get h (mkArr (conc rd v2) m) i2.
Proof. exact (@write_visible). Qed.
Print Assumptions C01_write_visible.

(** a 1-D run write (Apply) is exactly the sequence of its element writes, on the
    contiguous fast path too (the sub-array / whole-array writes are element loops by
    definition on the slow path; their fast path is covered by the correspondence run only:
    C01_bulk_write_partial) *)
Theorem C01_run_write_is_element_writes : forall (V : Type) (h : @heap V) c g rd v loc dim stp vals ld,
  wf_arr h (mkArr c (GoImpl g)) rd v -> steps_pos v ->
  valid_idx (adims v) loc -> 0 <= dim -> (Z.to_nat dim < length rd)%nat ->
  1 <= stp -> vals <> [] -> znth loc dim = Some ld ->
  (exists dd, znth (adims v) dim = Some dd /\ ld + (Z.of_nat (length vals) - 1) * stp < dd) ->
  apply h (mkArr c (GoImpl g)) loc dim stp vals = apply_loop h (mkArr c (GoImpl g)) loc dim ld stp 0 vals.
Proof. exact (@apply_fast_eq_slow). Qed.
Print Assumptions C01_run_write_is_element_writes.

(** views are live for the whole history: an array id keeps denoting the same view, and its
    storage is never resized or dropped, whatever operations (of any kind, through any view)
    follow *)
Theorem C01_views_stay_live : forall ops s s' id a,
  exec_all s ops = Some s' -> arr_at s id = Some a -> arr_at s' id = Some a.
Proof. exact history_keeps_arrays. Qed.
Theorem C01_history_extends_heap : forall s o s' r, exec s o = Some (s', r) -> hext (sheap s) (sheap s').
Proof. exact exec_extends_heap. Qed.
Print Assumptions C01_history_extends_heap.

(** non-vacuity: a stepped slice of a stepped slice of a 48-element array (the witness of
    the defect repaired by commit 690c6da) *)
Example C01_nonvacuous :
  exists c1 c2, root_common [48] = Some c1 /\ wf_common c1 /\
    slice_chain c1 [mkSarg [1] [10] (Some [2]); mkSarg [1] [4] (Some [2])] = Some c2 /\
    map (fun k => index c2 [k]) [0;1;2;3] = [Some 3; Some 7; Some 11; Some 15] /\
    in_box [48] (mkAview [3] [4] [4]).
Proof.
  eexists; eexists. split; [reflexivity|]. split; [split; reflexivity|]. split; [reflexivity|].
  split; [reflexivity|]. unfold in_box; cbn. repeat (constructor; try lia).
Qed.
