(** C20 — derived climate variables are physically ordered.
    Only statements, each closed by [exact <lemma>]; proofs live in Num/ClimateProofs.v.
    All statements are about the real-number instance [RArith] of the model
    Num/Climate.v of models/climate/climate_variables.go (round-off is not
    modelled; the float instance of the same text is run against the Go code). *)
From Coq Require Import Reals List.
From OW Require Import Base.Arith Base.RInst Num.Climate Num.ClimateProofs.
Import ListNotations.
Local Open Scope R_scope.

(** Saturation vapour pressure is positive (for every temperature above absolute zero). *)
Theorem C20_svp_positive : forall t : R,
  -27316 / 100 < t -> 0 < calc_vapor_pressure t.
Proof. exact svp_positive. Qed.
Print Assumptions C20_svp_positive.

(** ... and strictly increasing on the meteorological range, across the switch
    from the ice formula to the water formula at 0 C (the jump there is upward:
    [svp_jump_at_zero_upward] in Num/ClimateProofs.v). *)
Theorem C20_svp_strictly_increasing : forall x y : R,
  -40 <= x -> x < y -> y <= 55 -> calc_vapor_pressure x < calc_vapor_pressure y.
Proof. exact svp_strictly_increasing. Qed.
Print Assumptions C20_svp_strictly_increasing.

(** The bisection of calcWetBulb returns a value between dew point and dry
    bulb for ANY enthalpy function, any target enthalpy and any (real) inputs. *)
Theorem C20_wet_bulb_between_generic : forall (enth : R -> R) (dry dew h : R),
  Rmin dew dry <= wet_bulb_generic enth dry dew h <= Rmax dew dry.
Proof. exact wet_bulb_between_generic. Qed.
Print Assumptions C20_wet_bulb_between_generic.

Theorem C20_wet_bulb_between : forall dry dew h pa : R,
  Rmin dew dry <= calc_wet_bulb dry dew h pa <= Rmax dew dry
  /\ (dew <= dry -> dew <= calc_wet_bulb dry dew h pa <= dry).
Proof. exact wet_bulb_between. Qed.
Print Assumptions C20_wet_bulb_between.

(** The reported depression is dry bulb minus wet bulb. *)
Theorem C20_deltaT_is_difference : forall pa t h vp dew wet dT : R,
  climate_step pa t h = (vp, dew, wet, dT) -> dT = t - wet.
Proof. exact deltaT_is_difference. Qed.
Print Assumptions C20_deltaT_is_difference.

(** Dew point rises (strictly) with humidity. *)
Theorem C20_dew_increasing_in_humidity : forall t h1 h2 : R,
  -40 <= t <= 55 -> 0 < h1 -> h1 < h2 -> h2 <= 100 ->
  exists d1 d2, calc_dew_point_opt t h1 = Some d1 /\ calc_dew_point_opt t h2 = Some d2 /\ d1 < d2.
Proof. exact dew_increasing_in_humidity. Qed.
Print Assumptions C20_dew_increasing_in_humidity.

(** The ORDERED reading fails at saturation (RH = 100 %): the Magnus inversion of
    the Goff-Gratch pressure overshoots the dry bulb by more than 0.006 C at
    44.19 C; the bisection then returns that dew point as the wet bulb, above
    the dry bulb, and the reported depression is negative.  (Up to RH = 99 %
    dew <= wet <= dry and the depression is >= 0, and the overshoot is below
    0.01 C everywhere: see [C20_step_physically_ordered].) *)
Theorem C20_ordered_at_saturation_refuted :
  exists t e, -40 <= t <= 55 /\ 0 <= e <= 10000 /\
    exists vp dew wet dT,
      climate_step (barometric_pressure e) t 100 = (vp, dew, wet, dT) /\
      calc_dew_point_opt t 100 = Some dew /\
      t + 6 / 1000 < dew /\ wet = dew /\ dT < - (6 / 1000).
Proof. exact ordered_at_saturation_refuted. Qed.
Print Assumptions C20_ordered_at_saturation_refuted.

(** Finiteness: on the whole range every operation of one step is applied
    inside its domain (positive absolute temperatures, logarithms of positive
    numbers, pa - svp > 10 kPa at every temperature the bisection can visit, no
    NaN branch), and the bisection visits only temperatures between dew point
    and dry bulb. *)
Theorem C20_outputs_finite : forall t h e : R,
  -40 <= t <= 55 -> 0 < h <= 100 -> 0 <= e <= 10000 ->
  let pa := barometric_pressure e in
  let hE := calc_enthalpy t (calc_humidity_ratio_actual t h pa) in
  0 < (293 - 65 / 10000 * e) / 293 /\ 27 < pa < 102 /\
  0 < t + 27316 / 100 /\
  exists dew,
    calc_dew_point_opt t h = Some dew /\
    0 < calc_vapor_pressure t * h / 100 / (6108 / 10000) /\
    0 < 1727 / 100 - dew_f t h /\
    -2373 / 10 < dew <= t + 1 / 100 /\
    (forall x, Rmin dew t <= x <= Rmax dew t ->
       0 < x + 27316 / 100 /\ 0 < calc_vapor_pressure x < 17 /\ 10 < pa - calc_vapor_pressure x) /\
    (forall enth', (forall x, Rmin dew t <= x <= Rmax dew t -> enth' x = saturation_enthalpy pa x) ->
       wet_bulb_generic enth' t dew hE = calc_wet_bulb t dew hE pa).
Proof. exact outputs_finite. Qed.
Print Assumptions C20_outputs_finite.

(** All clauses on one time step of the model, with explicit bounds on every
    output; the last clause is the ordered reading, valid up to RH = 99 %
    (lemma [dew_le_dry_below_99]). *)
Theorem C20_step_physically_ordered : forall t h e : R,
  -40 <= t <= 55 -> 0 < h <= 100 -> 0 <= e <= 10000 ->
  exists vp dew wet dT,
    climate_step (barometric_pressure e) t h = (vp, dew, wet, dT) /\
    0 < vp < 17 /\
    calc_dew_point_opt t h = Some dew /\ -2373 / 10 < dew <= t + 1 / 100 /\
    Rmin dew t <= wet <= Rmax dew t /\
    dT = t - wet /\
    (h <= 99 -> dew <= wet <= t /\ 0 <= dT).
Proof. exact climate_physically_ordered. Qed.
Print Assumptions C20_step_physically_ordered.

(** The catalogue kernel is that step mapped over the two input series. *)
Theorem C20_kernel_is_step_mapped : forall (e : R) (st ts hs : list R),
  length ts = length hs ->
  climate_variables_kernel [e] st [ts; hs] =
    let rows := map (fun th => climate_step (barometric_pressure e) (fst th) (snd th)) (combine ts hs) in
    Some ([ map (fun o => let '(v,_,_,_) := o in v) rows;
            map (fun o => let '(_,d,_,_) := o in d) rows;
            map (fun o => let '(_,_,w,_) := o in w) rows;
            map (fun o => let '(_,_,_,x) := o in x) rows ], st).
Proof. exact climate_kernel_eq. Qed.
Print Assumptions C20_kernel_is_step_mapped.
