(** Legal schedules of the data-level actions of ImplSim: the orderings that
    the protocol of main.go enforces (proved for the LTS in ProtocolProofs.v:
    [protocol_schedule_legal]) and that the data-level proof needs
    (ImplSimProofs.v: [impl_any_schedule_eq_ref]).

      ARun i    in program order, after ALinks (i-1)
      ALinkOne i  single link applications of iteration i: after ARun i, before ALinks i
      ALinks i  (the rest of the link loop) in program order, after ARun i
      AWrite g  generations are written in order, each once, after ARun g
      APurge g  only when g has been written and its outgoing links applied
                (any number of times: every put-back of the token purges again) *)
From Coq Require Import List Arith Bool Lia.
From OW Require Import Sim.SimAux Sim.ImplSim.
Import ListNotations.

Record sched_state := {
  sc_ran     : nat;     (* generations simulated *)
  sc_linked  : nat;     (* iterations whose links have been applied *)
  sc_written : nat      (* generations written *)
}.

Definition sched0 : sched_state := {| sc_ran := 0; sc_linked := 0; sc_written := 0 |}.

Section Sched.
  Variable G : nat.
  Variable outp : bool.

  Definition sched_next (c : sched_state) (a : action) : option sched_state :=
    match a with
    | ARun i =>
        if (i =? sc_ran c) && (sc_ran c =? sc_linked c) && (i <? G)
        then Some {| sc_ran := S (sc_ran c); sc_linked := sc_linked c; sc_written := sc_written c |}
        else None
    | ALinkOne i =>
        if (i =? sc_linked c) && (sc_ran c =? S (sc_linked c)) then Some c else None
    | ALinks i =>
        if (i =? sc_linked c) && (sc_ran c =? S (sc_linked c))
        then Some {| sc_ran := sc_ran c; sc_linked := S (sc_linked c); sc_written := sc_written c |}
        else None
    | AWrite g =>
        if outp && (g =? sc_written c) && (g <? sc_ran c)
        then Some {| sc_ran := sc_ran c; sc_linked := sc_linked c; sc_written := S (sc_written c) |}
        else None
    | APurge g =>
        if outp && (g <? sc_written c) && (g <? sc_linked c) then Some c else None
    end.

  Definition sched_run (sch : list action) (c : sched_state) : option sched_state := foldM sched_next sch c.

  Definition sched_complete (c : sched_state) : bool :=
    (sc_ran c =? G) && (sc_linked c =? G) && (sc_written c =? (if outp then G else 0)).

  (** a complete legal schedule *)
  Definition legal_schedule (sch : list action) : Prop :=
    exists c, sched_run sch sched0 = Some c /\ sched_complete c = true.
End Sched.
