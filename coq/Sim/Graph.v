(** Model-graph files of [ow-sim] as data (cmd/ow-sim/main.go,
    simulation_model_reference.go).

    A graph file holds
      /META/models                      the model names, in order
      /MODELS/<name>/batches            cumulative node counts, one per generation
      /MODELS/<name>/parameters         [nParams x nNodes]   (here: one column per node)
      /MODELS/<name>/states             [nNodes x nStates]   (one row per node)
      /MODELS/<name>/inputs  (optional) [nNodes x nInputs x T]
      /LINKS                            [nLinks x 10] uint32, the LINK_* columns of main.go

    Everything is generic in
      [name] the type of model names, [T] the type of parameter/state values and
      [Ser] the type of a time series (one [1,1,T] slice); the only operations on
      series used by ow-sim are "a zero series of length n" and AddTo. *)
From Coq Require Import List Arith Bool Lia.
Import ListNotations.

Set Implicit Arguments.

Section Graph.
  Variables name T Ser : Type.

  (** One model type of the file.  The three tables are indexed by the model's
      GLOBAL node row (the file stores parameters transposed; the hyperslab
      [nil, genSlice] / [genSlice, nil] selects exactly the node rows
      [start, stop) - that the selection does that is property C08). *)
  Record model_data := {
    md_name    : name;
    md_batches : list nat;                       (* cumulative: batches[g] = rows in generations 0..g *)
    md_params  : list (list T);                  (* per node: its parameter column *)
    md_states  : list (list T);                  (* per node: its initial-state row *)
    md_inputs  : option (nat * list (list Ser))    (* None: no stored inputs. Some (T, per node: one series per input) *)
  }.

  (** One row of /LINKS: the ten LINK_* columns, in the order of main.go. *)
  Record link := {
    l_src_gen : nat;  l_src_model : nat;  l_src_node : nat;  l_src_gen_node : nat;  l_src_var : nat;
    l_dest_gen : nat; l_dest_model : nat; l_dest_node : nat; l_dest_gen_node : nat; l_dest_var : nat
  }.

  Record graph := {
    g_models : list model_data;
    g_links  : list link
  }.

  (** generationLocation / genSlice of GetGeneration *)
  Definition m_start (md : model_data) (g : nat) : nat :=
    match g with 0 => 0 | S g' => nth g' (md_batches md) 0 end.
  Definition m_stop (md : model_data) (g : nat) : nat := nth g (md_batches md) 0.
  Definition m_count (md : model_data) (g : nat) : nat := m_stop md g - m_start md g.
  (** TotalRuns *)
  Definition m_total (md : model_data) : nat := last (md_batches md) 0.

  (** genCount of makeModelRefs: len(Generations) of the LAST model *)
  Definition n_gens (gr : graph) : nat :=
    match rev (g_models gr) with [] => 0 | md :: _ => length (md_batches md) end.

  (** What sim.Catalog knows about a model name. *)
  Record catalogue := {
    cat_known : name -> bool;      (* sim.Catalog[name] != nil *)
    cat_nin   : name -> nat;       (* len(Description().Inputs)  *)
    cat_nout  : name -> nat        (* len(Description().Outputs) *)
  }.

  Variable cat : catalogue.
  Variable name_eqb : name -> name -> bool.

  Fixpoint sorted_nat (l : list nat) : bool :=
    match l with
    | [] => true
    | x :: r => match r with [] => true | y :: _ => (x <=? y) && sorted_nat r end
    end.

  Fixpoint distinct_names (l : list name) : bool :=
    match l with
    | [] => true
    | x :: r => negb (existsb (name_eqb x) r) && distinct_names r
    end.

  Definition table_len_ok {A} (n : nat) (tbl : list A) : bool := length tbl =? n.

  (** a model: as many batches as there are generations, monotone; tables have
      one row per node; stored input rows have one series per catalogued input *)
  Definition valid_model (G : nat) (md : model_data) : bool :=
    cat_known cat (md_name md)
    && (length (md_batches md) =? G)
    && sorted_nat (md_batches md)
    && table_len_ok (m_total md) (md_params md)
    && table_len_ok (m_total md) (md_states md)
    && match md_inputs md with
       | None => true
       | Some (_, tbl) => table_len_ok (m_total md) tbl
                          && forallb (fun row => length row =? cat_nin cat (md_name md)) tbl
       end.

  (** all stored input datasets have the same time dimension *)
  Definition input_lengths (gr : graph) : list nat :=
    flat_map (fun md => match md_inputs md with Some (t, _) => [t] | None => [] end) (g_models gr).
  Definition same_lengths (l : list nat) : bool :=
    match l with [] => true | t :: r => forallb (Nat.eqb t) r end.

  Definition valid_link (gr : graph) (G : nat) (l : link) : bool :=
    match nth_error (g_models gr) (l_src_model l), nth_error (g_models gr) (l_dest_model l) with
    | Some ms, Some md =>
         (l_src_gen l <? l_dest_gen l) && (l_dest_gen l <? G)
      && (l_src_gen_node l <? m_count ms (l_src_gen l))
      && (l_src_node l =? m_start ms (l_src_gen l) + l_src_gen_node l)
      && (l_src_var l <? cat_nout cat (md_name ms))
      && (l_dest_gen_node l <? m_count md (l_dest_gen l))
      && (l_dest_node l =? m_start md (l_dest_gen l) + l_dest_gen_node l)
      && (l_dest_var l <? cat_nin cat (md_name md))
    | _, _ => false
    end.

  Definition valid_graph (gr : graph) : bool :=
    let G := n_gens gr in
    (1 <=? G)
    && forallb (valid_model G) (g_models gr)
    && distinct_names (map md_name (g_models gr))
    && same_lengths (input_lengths gr)
    && sorted_nat (map l_src_gen (g_links gr))
    && forallb (valid_link gr G) (g_links gr).

End Graph.

Arguments Build_catalogue {name} _ _ _.
