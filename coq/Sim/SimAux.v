(** Small list / option utilities shared by the Sim models (definitions only;
    lemmas are in SimAuxProofs.v). *)
From Coq Require Import List Arith Bool Lia.
Import ListNotations.

Set Implicit Arguments.

Definition obind {A B} (o : option A) (f : A -> option B) : option B :=
  match o with Some a => f a | None => None end.

Notation "x <- e ;; k" := (obind e (fun x => k)) (at level 61, e at next level, right associativity).
Notation "' p <- e ;; k" := (obind e (fun x => match x with p => k end))
  (at level 61, p pattern, e at next level, right associativity).

(** [mapM f l]: all-or-nothing map, left to right *)
Fixpoint mapM {A B} (f : A -> option B) (l : list A) : option (list B) :=
  match l with
  | [] => Some []
  | x :: r => y <- f x ;; ys <- mapM f r ;; Some (y :: ys)
  end.

(** [foldM f l a]: left fold that stops at the first failure *)
Fixpoint foldM {A B} (f : A -> B -> option A) (l : list B) (a : A) : option A :=
  match l with
  | [] => Some a
  | x :: r => a' <- f a x ;; foldM f r a'
  end.

(** in-place update of element [n]; [None] when [n] is out of range (a Go
    index panic) or the update itself fails *)
Fixpoint upd_nth {A} (l : list A) (n : nat) (f : A -> option A) : option (list A) :=
  match l, n with
  | [], _ => None
  | x :: r, 0 => y <- f x ;; Some (y :: r)
  | x :: r, S n' => r' <- upd_nth r n' f ;; Some (x :: r')
  end.

(** rows [start, start+count) of a table (an HDF5 hyperslab on the first axis,
    clamped to the extent like io.makeHyperslab / sliceSize) *)
Definition slice_rows {A} (start count : nat) (tbl : list A) : list A :=
  firstn count (skipn start tbl).

(** overwrite [rows] at position [loc] of a dataset whose elements are
    [option] (None = still the NaN fill value); [None] when the region does not
    fit (HDF5 SelectHyperslab error) *)
Fixpoint write_rows {A} (ds : list (option A)) (loc : nat) (rows : list A) : option (list (option A)) :=
  match loc with
  | S loc' => match ds with
              | [] => None
              | x :: r => r' <- write_rows r loc' rows ;; Some (x :: r')
              end
  | 0 => match rows with
         | [] => Some ds
         | y :: ys => match ds with
                      | [] => None
                      | _ :: r => r' <- write_rows r 0 ys ;; Some (Some y :: r')
                      end
         end
  end.

(** list of (index, element) *)
Definition indexed {A} (l : list A) : list (nat * A) := combine (seq 0 (length l)) l.
