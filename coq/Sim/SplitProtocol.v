(** The external writer process of ONE model in [-outputs model=file] mode
    (simulation_model_reference.go: WriteData / writeProtobuf; writer.go:
    run_writer), as a small labelled transition system.

    The writer goroutines call WriteData(g) for g = 0, 1, .., G-1 in this order
    (Protocol.v).  For this model:
        if gen.Count == 0 { return nil }                       XSkip g
        writeProtobuf(g): the message of generation g is handed to the pipe   XSend g
            if generation == len(Batches)-1 { OutputWriter.Close(); OutputProcess.Wait() }   XWaitDone
    The child process reads one message at a time from its stdin and writes it
    to the split file (XChild g); [Wait] returns when the child has drained its
    input and exited.  When all WriteData calls have returned, run_simulation can
    return (XExit).  [counts] = number of nodes of the model per generation. *)
From Coq Require Import List Arith Bool Lia.
From OW Require Import Sim.SimAux.
Import ListNotations.

Record xstate := {
  x_next    : nat;        (* next generation whose WriteData is called *)
  x_waiting : bool;       (* inside Close(); Wait() of the last generation *)
  x_queue   : list nat;   (* messages sent, not yet written by the child *)
  x_file    : list nat;   (* generations in the split file *)
  x_exited  : bool        (* run_simulation has returned *)
}.

Inductive xlabel := XSkip (g : nat) | XSend (g : nat) | XWaitDone | XChild (g : nat) | XExit.

Section X.
  Variable counts : list nat.
  Definition xG : nat := length counts.
  Definition xcount (g : nat) : nat := nth g counts 0.

  Definition xinit : xstate :=
    {| x_next := 0; x_waiting := false; x_queue := []; x_file := []; x_exited := false |}.

  Definition xnext (s : xstate) (l : xlabel) : option xstate :=
    if x_exited s then None else
    match l with
    | XSkip g =>
        if (g =? x_next s) && (g <? xG) && (xcount g =? 0) && negb (x_waiting s)
        then Some {| x_next := S g; x_waiting := false; x_queue := x_queue s; x_file := x_file s; x_exited := false |}
        else None
    | XSend g =>
        if (g =? x_next s) && (g <? xG) && (0 <? xcount g) && negb (x_waiting s)
        then Some (if S g =? xG
                   then {| x_next := g; x_waiting := true; x_queue := x_queue s ++ [g]; x_file := x_file s; x_exited := false |}
                   else {| x_next := S g; x_waiting := false; x_queue := x_queue s ++ [g]; x_file := x_file s; x_exited := false |})
        else None
    | XWaitDone =>
        if x_waiting s then
          match x_queue s with
          | [] => Some {| x_next := S (x_next s); x_waiting := false; x_queue := []; x_file := x_file s; x_exited := false |}
          | _ => None
          end
        else None
    | XChild g =>
        match x_queue s with
        | g' :: q => if g =? g'
                     then Some {| x_next := x_next s; x_waiting := x_waiting s; x_queue := q;
                                  x_file := x_file s ++ [g]; x_exited := false |}
                     else None
        | [] => None
        end
    | XExit =>
        if (x_next s =? xG) && negb (x_waiting s)
        then Some {| x_next := x_next s; x_waiting := false; x_queue := x_queue s; x_file := x_file s; x_exited := true |}
        else None
    end.

  Definition xrun (ls : list xlabel) (s : xstate) : option xstate := foldM xnext ls s.
  Definition xreachable (s : xstate) : Prop := exists ls, xrun ls xinit = Some s.

  (** the generations in which this model has nodes *)
  Definition nonempty_gens (n : nat) : list nat := filter (fun g => 0 <? xcount g) (seq 0 n).
End X.
