(** C07: the protocol of main.go composed with the data-level result, the
    refutation for the external-writer mode, and concrete examples. *)
From Coq Require Import List Arith Bool Lia.
From OW Require Import Sim.SimAux Sim.SimAuxProofs Sim.Graph Sim.RefSim Sim.ImplSim Sim.Sched
     Sim.Protocol Sim.ProtocolProofs Sim.ImplSimProofs.
Import ListNotations.

(** Every run of the goroutine/channel protocol that reaches the end of
    run_simulation - whatever the interleaving of simulation, link processing,
    the writer goroutines, put-backs and purges - leaves exactly the reference
    result in the output file. *)
Theorem protocol_run_eq_ref :
  forall (name T Ser : Type) (s_zero : nat -> Ser) (s_add : Ser -> Ser -> Ser)
         (cat : catalogue name)
         (K : name -> list T -> list T -> list Ser -> option (list Ser * list T))
         (name_eqb : name -> name -> bool)
         (gr : graph name T Ser) (sel : selection name)
         (ls : list plabel) (s : pstate),
    valid_graph cat name_eqb gr = true ->
    kernels_match_catalogue cat K ->
    no_external_writer name_eqb gr sel ->
    prun (n_gens gr) (sel_outfile sel) ls (pinit (n_gens gr) (sel_outfile sel)) = Some s ->
    p_main s = MExited ->
    impl_sim_sched s_zero s_add cat K name_eqb gr sel (schedule_of ls)
    = ref_sim s_zero s_add cat K name_eqb gr sel.
Proof.
  intros. apply impl_any_schedule_eq_ref; try assumption.
  eapply protocol_exit_schedule_complete; eauto.
Qed.

(** ---------- a concrete 3-generation graph with fan-in and fan-out ---------- *)
Module Ex.
  Definition Ser := list nat.
  Definition s_zero (n : nat) : Ser := repeat 0 n.
  Fixpoint s_add (a b : Ser) : Ser :=
    match a, b with x :: a', y :: b' => (x + y) :: s_add a' b' | _, _ => [] end.
  (** model 0: 1 input, adds its parameter; model 1: sum of 2 inputs;
      model 2: doubles its input and accumulates the input total in a state *)
  Definition cat : catalogue nat :=
    Build_catalogue (fun n => n <? 3) (fun n => match n with 0 => 1 | 1 => 2 | _ => 1 end) (fun _ => 1).
  Definition K (nm : nat) (p s : list nat) (i : list Ser) : option (list Ser * list nat) :=
    match nm, i with
    | 0, [a] => Some ([map (fun x => x + hd 0 p) a], s)
    | 1, [a; b] => Some ([s_add a b], s)
    | 2, [a] => Some ([map (fun x => x * 2) a], [fold_left Nat.add a (hd 0 s)])
    | _, _ => None
    end.
  Definition mk (a b c d e f g h i j : nat) := Build_link a b c d e f g h i j.
  Definition gr : graph nat nat Ser := {|
    g_models := [
      {| md_name := 0; md_batches := [2; 2; 2]; md_params := [[10]; [20]]; md_states := [[]; []];
         md_inputs := Some (3, [[[1;2;3]]; [[4;5;6]]]) |};
      {| md_name := 1; md_batches := [0; 1; 2]; md_params := [[]; []]; md_states := [[]; []]; md_inputs := None |};
      {| md_name := 2; md_batches := [0; 1; 2]; md_params := [[]; []]; md_states := [[7]; [8]]; md_inputs := None |} ];
    g_links := [ mk 0 0 0 0 0 1 1 0 0 0; mk 0 0 1 1 0 1 1 0 0 1; mk 0 0 1 1 0 1 1 0 0 0; mk 0 0 0 0 0 2 2 1 0 0;
                 mk 0 0 0 0 0 1 2 0 0 0;
                 mk 1 1 0 0 0 2 1 1 0 0; mk 1 2 0 0 0 2 1 1 0 1; mk 1 1 0 0 0 2 2 1 0 0 ] |}.
  Definition sel (split : list nat) : selection nat :=
    {| sel_outfile := true; sel_outputs_for := []; sel_no_outputs_for := []; sel_inputs_for := [];
       sel_no_inputs_for := []; sel_split := split |}.

  Definition expected : out_file nat Ser :=
    [ {| mo_inputs := None;
         mo_outputs := Some [Some [[11; 12; 13]]; Some [[24; 25; 26]]];
         mo_states := Some [Some []; Some []] |};
      {| mo_inputs := Some [Some [[35; 37; 39]; [24; 25; 26]]; Some [[59; 62; 65]; [22; 24; 26]]];
         mo_outputs := Some [Some [[59; 62; 65]]; Some [[81; 86; 91]]];
         mo_states := Some [Some []; Some []] |};
      {| mo_inputs := Some [Some [[11; 12; 13]]; Some [[70; 74; 78]]];
         mo_outputs := Some [Some [[22; 24; 26]]; Some [[140; 148; 156]]];
         mo_states := Some [Some [43]; Some [230]] |} ].

  Lemma K_ok : kernels_match_catalogue cat K.
  Proof.
    intros nm p s i o s' H. unfold K in H.
    destruct nm as [|[|[|nm]]]; destruct i as [|a [|b [|c r]]]; try discriminate; inversion H; reflexivity.
  Qed.

  Lemma valid : valid_graph cat Nat.eqb gr = true.
  Proof. vm_compute. reflexivity. Qed.

  Lemma no_split : no_external_writer Nat.eqb gr (sel []).
  Proof. intros md _. reflexivity. Qed.

  Lemma impl_value : impl_sim s_zero s_add cat K Nat.eqb gr (sel []) = Some expected.
  Proof. vm_compute. reflexivity. Qed.

  Lemma ref_value : ref_sim s_zero s_add cat K Nat.eqb gr (sel []) = Some expected.
  Proof. vm_compute. reflexivity. Qed.

  (** a run of the protocol with a put-back (writer 2 gets token 0 first; main's
      final loop gets token 1 first), and the model executed under it *)
  Definition trace : list plabel := trace_putback.
  Lemma trace_run : accepts_exited 3 true trace = true.
  Proof. exact trace_putback_accepted. Qed.
  Lemma trace_value : impl_sim_sched s_zero s_add cat K Nat.eqb gr (sel []) (schedule_of trace) = Some expected.
  Proof. vm_compute. reflexivity. Qed.

  (** a run in which writing and purging happen BETWEEN single link applications *)
  Definition trace_fine : list plabel :=
    [LRun 0; LSpawn 0; LLinkOne 0; LLinkOne 0; LWrite 0; LLinkOne 0; LLinkOne 0; LLinkOne 0; LLinks 0;
     LRun 1; LSpawn 1; LLinkOne 1; LRecv 1 0; LPurge 1 0; LLinkOne 1; LWrite 1; LLinkOne 1; LLinks 1;
     LRun 2; LSpawn 2; LLinks 2; LRecv 2 1; LPurge 2 1; LWrite 2; LMainRecv 2; LExit].
  Lemma trace_fine_run : accepts_exited 3 true trace_fine = true.
  Proof. vm_compute. reflexivity. Qed.
  Lemma trace_fine_value :
    impl_sim_sched s_zero s_add cat K Nat.eqb gr (sel []) (schedule_of trace_fine) = Some expected.
  Proof. vm_compute. reflexivity. Qed.
End Ex.

(** The example is an instance of the theorems (hypotheses satisfiable), with a
    non-trivial value. *)
Lemma example_nonvacuous :
  valid_graph Ex.cat Nat.eqb Ex.gr = true /\ kernels_match_catalogue Ex.cat Ex.K /\
  no_external_writer Nat.eqb Ex.gr (Ex.sel []) /\
  impl_sim Ex.s_zero Ex.s_add Ex.cat Ex.K Nat.eqb Ex.gr (Ex.sel []) = Some Ex.expected /\
  ref_sim Ex.s_zero Ex.s_add Ex.cat Ex.K Nat.eqb Ex.gr (Ex.sel []) = Some Ex.expected /\
  accepts_exited 3 true Ex.trace = true /\
  impl_sim_sched Ex.s_zero Ex.s_add Ex.cat Ex.K Nat.eqb Ex.gr (Ex.sel []) (schedule_of Ex.trace) = Some Ex.expected /\
  accepts_exited 3 true Ex.trace_fine = true /\
  impl_sim_sched Ex.s_zero Ex.s_add Ex.cat Ex.K Nat.eqb Ex.gr (Ex.sel []) (schedule_of Ex.trace_fine) = Some Ex.expected.
Proof.
  exact (conj Ex.valid (conj Ex.K_ok (conj Ex.no_split (conj Ex.impl_value (conj Ex.ref_value
           (conj Ex.trace_run (conj Ex.trace_value (conj Ex.trace_fine_run Ex.trace_fine_value)))))))).
Qed.

(** ---------- the external-writer mode does not satisfy the property ---------- *)
(** With [-outputs model=file] the model's results go through writeProtobuf to a
    child process; the message carries no states, so the final states of that
    model appear nowhere.  Witness: the example graph with model 2 split. *)
Theorem impl_eq_ref_split_refuted :
  exists (gr : graph nat nat Ex.Ser) (sel : selection nat),
    valid_graph Ex.cat Nat.eqb gr = true /\ kernels_match_catalogue Ex.cat Ex.K /\
    (exists f r, impl_sim Ex.s_zero Ex.s_add Ex.cat Ex.K Nat.eqb gr sel = Some f /\
                 ref_sim Ex.s_zero Ex.s_add Ex.cat Ex.K Nat.eqb gr sel = Some r /\
                 option_map (@mo_states _ _) (nth_error f 2) = Some None /\
                 option_map (@mo_states _ _) (nth_error r 2) = Some (Some [Some [43]; Some [230]]) /\
                 option_map (@mo_outputs _ _) (nth_error f 2) = option_map (@mo_outputs _ _) (nth_error r 2)).
Proof.
  exists Ex.gr, (Ex.sel [2]). split; [exact Ex.valid|]. split; [exact Ex.K_ok|].
  eexists. eexists. split; [vm_compute; reflexivity|]. split; [vm_compute; reflexivity|].
  vm_compute. repeat split.
Qed.

Print Assumptions protocol_run_eq_ref.
Print Assumptions impl_eq_ref_split_refuted.
