(** The external-writer mode: when the model's last batch is non-empty the
    process exits only after the child has written every message; when the last
    batch is empty it can exit with messages still unwritten (refutation). *)
From Coq Require Import List Arith Bool Lia.
From OW Require Import Sim.SimAux Sim.SimAuxProofs Sim.SplitProtocol.
Import ListNotations.

Section P.
  Variable counts : list nat.
  Local Notation G := (xG counts).

  Lemma nonempty_gens_S n :
    nonempty_gens counts (S n) = nonempty_gens counts n ++ (if 0 <? xcount counts n then [n] else []).
  Proof.
    unfold nonempty_gens. rewrite seq_S, filter_app. cbn. destruct (0 <? xcount counts n); reflexivity.
  Qed.

  Definition xinv (s : xstate) : Prop :=
    x_file s ++ x_queue s = nonempty_gens counts (x_next s) ++ (if x_waiting s then [x_next s] else []) /\
    x_next s <= G /\
    (x_waiting s = true -> S (x_next s) = G /\ 0 < xcount counts (x_next s)) /\
    (x_next s = G -> 0 < xcount counts (G - 1) -> x_queue s = [] /\ x_waiting s = false) /\
    (x_exited s = true -> x_next s = G).

  Lemma xinv_init : xinv (xinit).
  Proof. unfold xinv, xinit; cbn. repeat split; auto; try lia; try discriminate. Qed.

  Lemma xinv_step s l s' : xinv s -> xnext counts s l = Some s' -> xinv s'.
  Proof.
    intros (I1 & I2 & I3 & I4 & I5) H. unfold xnext in H.
    destruct (x_exited s) eqn:Ex; [discriminate|].
    destruct l as [g|g| |g|].
    - (* XSkip *)
      destruct ((g =? x_next s) && (g <? G) && (xcount counts g =? 0) && negb (x_waiting s)) eqn:C; [|discriminate].
      inversion H; subst s'; clear H.
      repeat (apply andb_true_iff in C; destruct C as [C ?]).
      apply Nat.eqb_eq in C. apply Nat.ltb_lt in H1. apply Nat.eqb_eq in H0. apply negb_true_iff in H.
      subst g. unfold xinv; cbn [x_next x_waiting x_queue x_file x_exited]. rewrite H in I1. rewrite nonempty_gens_S.
      replace (0 <? xcount counts (x_next s)) with false by (symmetry; apply Nat.ltb_ge; lia).
      rewrite !app_nil_r in *.
      split; [exact I1|]. split; [lia|]. split; [discriminate|]. split; [|discriminate].
      intros E1 E2. replace (G - 1) with (x_next s) in E2 by lia. lia.
    - (* XSend *)
      destruct ((g =? x_next s) && (g <? G) && (0 <? xcount counts g) && negb (x_waiting s)) eqn:C; [|discriminate].
      repeat (apply andb_true_iff in C; destruct C as [C ?]).
      apply Nat.eqb_eq in C. apply Nat.ltb_lt in H1. apply Nat.ltb_lt in H2. apply negb_true_iff in H0.
      subst g. rewrite H0 in I1. rewrite app_nil_r in I1.
      destruct (S (x_next s) =? G) eqn:EL; inversion H; subst s'; clear H; unfold xinv;
        cbn [x_next x_waiting x_queue x_file x_exited].
      + apply Nat.eqb_eq in EL. rewrite app_assoc, I1.
        split; [reflexivity|]. split; [lia|]. split; [intros _; split; [exact EL|exact H1]|].
        split; [intros E1; lia|discriminate].
      + apply Nat.eqb_neq in EL. rewrite app_assoc, I1, nonempty_gens_S.
        replace (0 <? xcount counts (x_next s)) with true by (symmetry; apply Nat.ltb_lt; lia).
        rewrite app_nil_r.
        split; [reflexivity|]. split; [lia|]. split; [discriminate|]. split; [intros E1; lia|discriminate].
    - (* XWaitDone *)
      destruct (x_waiting s) eqn:W; [|discriminate]. destruct (x_queue s) eqn:Q; [|discriminate].
      inversion H; subst s'; clear H. destruct (I3 eq_refl) as [E1 E2].
      unfold xinv; cbn [x_next x_waiting x_queue x_file x_exited]. rewrite app_nil_r in *. rewrite I1, nonempty_gens_S.
      replace (0 <? xcount counts (x_next s)) with true by (symmetry; apply Nat.ltb_lt; lia).
      split; [rewrite ?app_nil_r; reflexivity|]. split; [lia|]. split; [discriminate|]. split; [intros _ _; split; reflexivity|discriminate].
    - (* XChild *)
      destruct (x_queue s) as [|g' q] eqn:Q; [discriminate|].
      destruct (g =? g') eqn:E; [|discriminate]. apply Nat.eqb_eq in E. subst g'.
      inversion H; subst s'; clear H. unfold xinv; cbn [x_next x_waiting x_queue x_file x_exited].
      rewrite <- app_assoc. cbn [app].
      split; [exact I1|]. split; [exact I2|]. split; [exact I3|]. split; [|discriminate].
      intros E1 E2. destruct (I4 E1 E2) as [A _]. discriminate.
    - (* XExit *)
      destruct ((x_next s =? G) && negb (x_waiting s)) eqn:C; [|discriminate].
      apply andb_true_iff in C. destruct C as [C1 C2]. apply Nat.eqb_eq in C1. apply negb_true_iff in C2.
      inversion H; subst s'; clear H. unfold xinv; cbn [x_next x_waiting x_queue x_file x_exited]. rewrite C2 in I1.
      split; [exact I1|]. split; [exact I2|]. split; [discriminate|]. split; [|intros _; exact C1].
      intros E1 E2. destruct (I4 E1 E2) as [A _]. split; [exact A|reflexivity].
  Qed.

  Lemma xreachable_inv s : xreachable counts s -> xinv s.
  Proof.
    intros (ls & H). revert s H. induction ls as [|l ls IH] using rev_ind; intros s H.
    - cbn in H. inversion H; subst. apply xinv_init.
    - unfold xrun in H. rewrite foldM_app in H.
      destruct (foldM (xnext counts) ls xinit) as [s1|] eqn:E; cbn in H; [|discriminate].
      destruct (xnext counts s1 l) as [s2|] eqn:E2; cbn in H; [|discriminate]. inversion H; subst s2.
      eapply xinv_step; eauto.
  Qed.

  (** last batch non-empty: at exit the split file holds every generation that has nodes, in order *)
  Theorem split_exit_complete s :
    xreachable counts s -> x_exited s = true -> 0 < xcount counts (G - 1) ->
    x_file s = nonempty_gens counts G /\ x_queue s = [].
  Proof.
    intros HR HE HL. destruct (xreachable_inv s HR) as (I1 & I2 & I3 & I4 & I5).
    pose proof (I5 HE) as EN. destruct (I4 EN HL) as [Q W].
    rewrite Q, W, EN, !app_nil_r in I1. auto.
  Qed.
End P.

(** last batch empty: the process can exit while a sent message is still unwritten *)
Theorem split_exit_refuted :
  exists counts s, xreachable counts s /\ x_exited s = true /\
                   x_file s = [] /\ x_queue s = [0] /\ nonempty_gens counts (xG counts) = [0].
Proof.
  exists [1; 0]. eexists. split.
  - exists [XSend 0; XSkip 1; XExit]. vm_compute. reflexivity.
  - vm_compute. repeat split.
Qed.

(** ... and with a non-empty last batch the same prefix cannot exit (non-vacuity of split_exit_complete) *)
Example split_wait_example :
  xrun [1; 1] [XSend 0; XSend 1; XExit] (xinit) = None /\
  (exists s, xrun [1; 1] [XSend 0; XSend 1; XChild 0; XChild 1; XWaitDone; XExit] xinit = Some s /\
             x_file s = [0; 1] /\ x_exited s = true).
Proof. split; [vm_compute; reflexivity|]. eexists. split; [vm_compute; reflexivity|]. split; reflexivity. Qed.

Print Assumptions split_exit_complete.
Print Assumptions split_exit_refuted.
