(** The goroutine / channel protocol of [run_simulation] (cmd/ow-sim/main.go)
    as a labelled transition system.

    Processes: the main goroutine and one writer goroutine per generation
    (spawned by main in iteration g, when an output file was named).  They
    communicate only through the UNBUFFERED channel [writingDone]: a send and a
    receive complete together (rendezvous), which is the one assumption made
    about Go's channel semantics (no fairness / FIFO assumption is used).

      main:     for i in 0..G-1 { runGeneration(i); go writer(i); links(i) }
                for { t := <-writingDone; if t == G-1 break; writingDone <- t; sleep }
                exit
      writer g: if g > 0 { for { t := <-writingDone; purge(t) for every model;
                                 if t == g-1 break; writingDone <- t; sleep } }
                writeGeneration(g); writingDone <- g

    [pnext s l] is the (deterministic) effect of label [l] in state [s], [None]
    when [l] is not enabled; the transition relation is [pnext s l = Some s'].
    The state also records, as ghost history, the generations written (in
    order), so that the properties can be stated on states.

    [find_sender] picks the first goroutine blocked in a send of the value; the
    invariant of ProtocolProofs.v shows that there is never more than one, so
    every run of the real system is a run of this deterministic-choice LTS.

    Relation to the verifTrace events of the real program (each logged AFTER
    the action, under a mutex): ran/spawn/link/linked/written/exit are LRun/
    LSpawn/LLinkOne/LLinks/LWrite/LExit; a rendezvous is identified by the
    RECEIVER's event (recv:<g> t = LRecv g t, main-recv t = LMainRecv t), whose
    sender has logged everything it did before the send; purged:<g> t =
    LPurge g t; the sender-side markers (sent, putback, main-putback, start) are
    ignored by the acceptor. *)
From Coq Require Import List Arith Bool Lia.
From OW Require Import Sim.SimAux Sim.ImplSim.
Import ListNotations.

(** program counter of the main goroutine *)
Inductive main_pc :=
| MRun (i : nat)      (* about to call runGeneration(i) *)
| MSpawn (i : nat)    (* about to execute [go func(g){...}(i)] *)
| MLinks (i : nat)    (* about to run the PROCESS LINKS loop of iteration i *)
| MWait               (* final loop: blocked in [genFinished := <-writingDone] *)
| MPut (t : nat)      (* final loop: blocked in [writingDone <- genFinished] (then sleeps, then MWait) *)
| MDone               (* final loop left; about to return from run_simulation *)
| MExited.

(** phase of writer goroutine g *)
Inductive wphase :=
| WRecv               (* blocked in [prevG = <-writingDone] (possibly after the half-second sleep) *)
| WGot (t : nat)      (* received t; about to purge generation t *)
| WPut (t : nat)      (* purged, t != g-1; blocked in [writingDone <- prevG] *)
| WWrite              (* about to call writeGeneration(g) *)
| WSend               (* written; blocked in [writingDone <- g] *)
| WDone.

Record pstate := {
  p_main    : main_pc;
  p_writers : list wphase;    (* writer g = element g; length = number spawned *)
  p_written : list nat        (* ghost: generations whose writeGeneration has completed, oldest first *)
}.

Inductive plabel :=
| LRun (i : nat)          (* main: runGeneration(i) *)
| LSpawn (i : nat)        (* main: go writer(i) *)
| LLinkOne (i : nat)      (* main: one link of iteration i applied (one turn of the PROCESS LINKS loop) *)
| LLinks (i : nat)        (* main: the PROCESS LINKS loop of iteration i left *)
| LRecv (g t : nat)       (* rendezvous: writer g receives t from whoever is sending t *)
| LPurge (g t : nat)      (* writer g: PurgeGeneration(t) on every model, then the comparison t == g-1 *)
| LWrite (g : nat)        (* writer g: writeGeneration(g) *)
| LMainRecv (t : nat)     (* rendezvous: main's final loop receives t, then the comparison t == G-1 *)
| LExit.                  (* main returns *)

Section Protocol.
  Variable G : nat.        (* genCount *)
  Variable outp : bool.    (* outputFn != "" *)

  (** where main goes after the last statement of iteration i *)
  Definition after_loop : main_pc := if outp then MWait else MDone.
  Definition loop_head (i : nat) : main_pc := if i <? G then MRun i else after_loop.

  Definition pinit : pstate :=
    {| p_main := loop_head 0; p_writers := []; p_written := [] |}.

  Definition set_writer (ws : list wphase) (g : nat) (ph : wphase) : option (list wphase) :=
    upd_nth ws g (fun _ => Some ph).

  (** a goroutine blocked in a send of value t: the writer that has just
      written t, a writer putting t back, or main putting t back.  The effect of
      the rendezvous on the sender: *)
  Inductive sender := SWriter (g : nat) | SMain.

  Fixpoint find_wsender (ws : list wphase) (g t : nat) : option nat :=
    match ws with
    | [] => None
    | ph :: r =>
        match ph with
        | WSend => if g =? t then Some g else find_wsender r (S g) t
        | WPut t' => if t' =? t then Some g else find_wsender r (S g) t
        | _ => find_wsender r (S g) t
        end
    end.

  Definition find_sender (s : pstate) (t : nat) : option sender :=
    match find_wsender (p_writers s) 0 t with
    | Some g => Some (SWriter g)
    | None => match p_main s with
              | MPut t' => if t' =? t then Some SMain else None
              | _ => None
              end
    end.

  (** the sender's side of a completed rendezvous *)
  Definition sender_done (s : pstate) (sd : sender) : option pstate :=
    match sd with
    | SWriter g =>
        ph <- nth_error (p_writers s) g ;;
        let ph' := match ph with WSend => WDone | _ => WRecv end in   (* WPut: sleep, then receive again *)
        ws' <- set_writer (p_writers s) g ph' ;;
        Some {| p_main := p_main s; p_writers := ws'; p_written := p_written s |}
    | SMain => Some {| p_main := MWait; p_writers := p_writers s; p_written := p_written s |}
    end.

  Definition pnext (s : pstate) (l : plabel) : option pstate :=
    match l with
    | LRun i =>
        match p_main s with
        | MRun j => if i =? j
                    then Some {| p_main := if outp then MSpawn i else MLinks i;
                                 p_writers := p_writers s; p_written := p_written s |}
                    else None
        | _ => None
        end
    | LSpawn i =>
        match p_main s with
        | MSpawn j => if (i =? j) && (i =? length (p_writers s))
                      then Some {| p_main := MLinks i;
                                   p_writers := p_writers s ++ [match i with 0 => WWrite | _ => WRecv end];
                                   p_written := p_written s |}
                      else None
        | _ => None
        end
    | LLinkOne i =>
        match p_main s with
        | MLinks j => if i =? j then Some s else None
        | _ => None
        end
    | LLinks i =>
        match p_main s with
        | MLinks j => if i =? j
                      then Some {| p_main := loop_head (S i);
                                   p_writers := p_writers s; p_written := p_written s |}
                      else None
        | _ => None
        end
    | LRecv g t =>
        match nth_error (p_writers s) g with
        | Some WRecv =>
            sd <- find_sender s t ;;
            s1 <- sender_done s sd ;;
            ws' <- set_writer (p_writers s1) g (WGot t) ;;
            Some {| p_main := p_main s1; p_writers := ws'; p_written := p_written s1 |}
        | _ => None
        end
    | LPurge g t =>
        match nth_error (p_writers s) g with
        | Some (WGot t') =>
            if t' =? t then
              ws' <- set_writer (p_writers s) g (if S t =? g then WWrite else WPut t) ;;
              Some {| p_main := p_main s; p_writers := ws'; p_written := p_written s |}
            else None
        | _ => None
        end
    | LWrite g =>
        match nth_error (p_writers s) g with
        | Some WWrite =>
            ws' <- set_writer (p_writers s) g WSend ;;
            Some {| p_main := p_main s; p_writers := ws'; p_written := p_written s ++ [g] |}
        | _ => None
        end
    | LMainRecv t =>
        match p_main s with
        | MWait =>
            match find_wsender (p_writers s) 0 t with
            | Some g =>
                s1 <- sender_done s (SWriter g) ;;
                Some {| p_main := if S t =? G then MDone else MPut t;
                        p_writers := p_writers s1; p_written := p_written s1 |}
            | None => None
            end
        | _ => None
        end
    | LExit =>
        match p_main s with
        | MDone => Some {| p_main := MExited; p_writers := p_writers s; p_written := p_written s |}
        | _ => None
        end
    end.

  Definition pstep (s : pstate) (l : plabel) (s' : pstate) : Prop := pnext s l = Some s'.

  (** runs of the system *)
  Definition prun (ls : list plabel) (s : pstate) : option pstate := foldM pnext ls s.

  Definition reachable (s : pstate) : Prop := exists ls, prun ls pinit = Some s.

  (** trace acceptor (extracted; applied to the verifTrace events of real runs) *)
  Definition accepts (ls : list plabel) : bool :=
    match prun ls pinit with Some _ => true | None => false end.
  (** ... of a run that has terminated *)
  Definition accepts_exited (ls : list plabel) : bool :=
    match prun ls pinit with
    | Some s => match p_main s with MExited => true | _ => false end
    | None => false
    end.

  (** ---- observations used by the properties ---- *)

  (** number of iterations whose links have been applied *)
  Definition links_done (s : pstate) : nat :=
    match p_main s with
    | MRun i | MSpawn i | MLinks i => i
    | _ => G
    end.

  (** number of generations simulated *)
  Definition runs_done (s : pstate) : nat :=
    match p_main s with
    | MRun i => i
    | MSpawn i | MLinks i => S i
    | _ => G
    end.

  Definition holds_token_w (ph : wphase) : bool :=
    match ph with WGot _ | WPut _ | WWrite | WSend => true | WRecv | WDone => false end.
  Definition holds_token_m (pc : main_pc) : bool :=
    match pc with MPut _ | MDone | MExited => true | _ => false end.
  (** how many goroutines hold "the token" (have received or produced a
      generation number and not yet handed it on) *)
  Definition holders (s : pstate) : nat :=
    length (filter holds_token_w (p_writers s)) + (if holds_token_m (p_main s) then 1 else 0).

  (** the data-level actions of a label (the schedule of ImplSim) *)
  Definition action_of (l : plabel) : list action :=
    match l with
    | LRun i => [ARun i]
    | LLinkOne i => [ALinkOne i]
    | LLinks i => [ALinks i]
    | LWrite g => [AWrite g]
    | LPurge _ t => [APurge t]
    | _ => []
    end.
  Definition schedule_of (ls : list plabel) : list action := flat_map action_of ls.

End Protocol.
