(** ow-sim (ImplSim) = the sequential reference (RefSim), for every legal
    schedule of simulation, link processing, writing and purging.

    Invariant (see [model_inv]): with [d] the reference results of the
    generations already simulated and [applied] the links already processed,
      - a generation that has been simulated is either purged (allowed only once
        it is written and its links are applied) or holds exactly the reference
        inputs / outputs / final states of its rows;
      - a generation not yet simulated, seen through the lazy loader ([view]),
        holds stored input + the contributions of the applied links, i.e. the
        reference input restricted to [applied];
      - the output file holds the reference rows of the written generations. *)
From Coq Require Import List Arith Bool Lia.
From OW Require Import Sim.SimAux Sim.SimAuxProofs Sim.Graph Sim.GraphProofs Sim.RefSim Sim.ImplSim Sim.Sched.
Import ListNotations.

Section Proofs.
  Variables name T Ser : Type.
  Variable s_zero : nat -> Ser.
  Variable s_add : Ser -> Ser -> Ser.
  Variable cat : catalogue name.
  Variable K : name -> list T -> list T -> list Ser -> option (list Ser * list T).
  Variable name_eqb : name -> name -> bool.
  Variable gr : graph name T Ser.
  Variable sel : selection name.

  Hypothesis Hvalid : valid_graph cat name_eqb gr = true.
  (** the catalogue describes the kernels: a run yields one series per catalogued output *)
  Hypothesis K_wf : forall nm p s i o s', K nm p s i = Some (o, s') -> length o = cat_nout cat nm.
  (** no model is written through an external writer process (-outputs model=file) *)
  Hypothesis Hnosplit : forall md, In md (g_models gr) -> is_split name_eqb sel md = false.

  Local Notation G := (n_gens gr).
  Local Notation M := (g_models gr).
  Local Notation L := (g_links gr).
  Local Notation outp := (sel_outfile sel).
  Local Notation model_data := (model_data name T Ser).
  Local Notation gen_data := (gen_data T Ser).
  Local Notation mref := (mref T Ser).
  Local Notation istate := (istate T Ser).
  Local Notation node_result := (node_result T Ser).
  Local Notation done_t := (done_t T Ser).
  Local Notation model_out := (model_out T Ser).
  Local Notation stored_input := (stored_input s_zero cat gr).
  Local Notation ref_input_from := (@ref_input_from T Ser s_add).
  Local Notation ref_node := (ref_node s_zero s_add cat K gr).
  Local Notation ref_gen := (ref_gen s_zero s_add cat K gr).
  Local Notation load_gen := (load_gen s_zero cat gr).
  Local Notation get_generation := (get_generation s_zero cat gr).

  (** ---------- validity facts, specialised ---------- *)
  Lemma VG : 1 <= G. Proof. eapply valid_G; eauto. Qed.
  Lemma Vlen md : In md M -> length (md_batches md) = G. Proof. intros; eapply vm_len; eauto. Qed.
  Lemma Vparams md : In md M -> length (md_params md) = m_total md. Proof. intros; eapply vm_params; eauto. Qed.
  Lemma Vstates md : In md M -> length (md_states md) = m_total md. Proof. intros; eapply vm_states; eauto. Qed.
  Lemma Vinputs md t tbl : In md M -> md_inputs md = Some (t, tbl) ->
    length tbl = m_total md /\ Forall (fun row => length row = cat_nin cat (md_name md)) tbl.
  Proof. intros; eapply vm_inputs; eauto. Qed.
  Lemma Vmono md g g' : In md M -> g <= g' -> g' <= G -> m_start md g <= m_start md g'.
  Proof. intros; eapply m_start_mono; eauto. Qed.
  Lemma Vle md g : In md M -> g < G -> m_start md g <= m_stop md g.
  Proof. intros; eapply m_start_le_stop; eauto. Qed.
  Lemma Vadd md g : In md M -> g < G -> m_start md g + m_count md g = m_stop md g.
  Proof. intros; eapply m_count_add; eauto. Qed.
  Lemma Vtot md : In md M -> m_total md = m_start md G.
  Proof. intros; eapply m_total_start; eauto. Qed.
  Lemma Vstop md g : In md M -> g < G -> m_stop md g <= m_total md.
  Proof. intros; eapply m_stop_le_total; eauto. Qed.
  Lemma Vuniq md g g' row : In md M -> g < G -> g' < G ->
    m_start md g <= row < m_stop md g -> m_start md g' <= row < m_stop md g' -> g = g'.
  Proof. intros; eapply gen_of_row_unique; eauto. Qed.
  Lemma Vlink l : In l L ->
    exists ms md, nth_error M (l_src_model l) = Some ms /\ nth_error M (l_dest_model l) = Some md /\
      l_src_gen l < l_dest_gen l /\ l_dest_gen l < G /\
      l_src_gen_node l < m_count ms (l_src_gen l) /\
      l_src_node l = m_start ms (l_src_gen l) + l_src_gen_node l /\
      l_src_var l < cat_nout cat (md_name ms) /\
      l_dest_gen_node l < m_count md (l_dest_gen l) /\
      l_dest_node l = m_start md (l_dest_gen l) + l_dest_gen_node l /\
      l_dest_var l < cat_nin cat (md_name md).
  Proof. intros; eapply valid_link_props; eauto. Qed.
  Lemma Vsame : same_lengths (input_lengths gr) = true. Proof. eapply valid_same_lengths; eauto. Qed.
  Lemma Vsorted : sorted_nat (map l_src_gen L) = true. Proof. eapply valid_links_sorted; eauto. Qed.

  (** ---------- the simulation length ---------- *)
  Definition sl_step (sl : nat) (md : model_data) : nat :=
    if sl =? 0 then match md_inputs md with Some (t, _) => t | None => sl end else sl.
  Definition in_lens (mds : list model_data) : list nat :=
    flat_map (fun md => match md_inputs md with Some (t, _) => [t] | None => [] end) mds.

  Lemma sl_aux mds : forall t, Forall (fun x => x = t) (in_lens mds) ->
    fold_left sl_step mds t = t /\
    fold_left sl_step mds 0 = match in_lens mds with [] => 0 | _ => t end.
  Proof.
    induction mds as [|md mds IH]; intros t HF; cbn [fold_left in_lens flat_map]; [cbn; auto|].
    cbn [in_lens flat_map] in HF. fold (in_lens mds) in HF |- *.
    unfold sl_step at 2 4.
    destruct (md_inputs md) as [[t' tbl]|] eqn:E.
    - cbn in HF. inversion HF; subst. destruct (IH _ H2) as [I1 I2].
      split.
      + destruct (t =? 0); exact I1.
      + cbn. exact I1.
    - cbn in HF. destruct (IH _ HF) as [I1 I2]. split.
      + destruct (t =? 0); exact I1.
      + cbn. exact I2.
  Qed.

  Lemma sim_length_eq : impl_sim_length gr = ref_T gr.
  Proof.
    pose proof Vsame as HS.
    unfold impl_sim_length, ref_T, input_lengths in *.
    fold (in_lens M) in HS |- *. fold sl_step.
    destruct (in_lens M) as [|t r] eqn:EL.
    - destruct (sl_aux M (t:=0)) as [_ A2]; [rewrite EL; constructor|]. rewrite EL in A2. exact A2.
    - cbn in HS. destruct (sl_aux M (t:=t)) as [_ A2].
      + rewrite EL. constructor; [reflexivity|]. rewrite forallb_forall in HS.
        apply Forall_forall. intros x Hx. symmetry. apply Nat.eqb_eq. auto.
      + rewrite EL in A2. exact A2.
  Qed.

  (** ---------- expected contents of the memory ---------- *)

  Definition empty_gd : gen_data :=
    {| gd_count := 0; gd_inputs := []; gd_states := []; gd_params := []; gd_outputs := None |}.

  (** a generation that has not been simulated, with input rows [ins] *)
  Definition pending_gd (md : model_data) (g : nat) (ins : list (list Ser)) : gen_data :=
    if m_count md g =? 0 then empty_gd else
    {| gd_count := m_count md g; gd_inputs := ins;
       gd_states := slice_rows (m_start md g) (m_count md g) (md_states md);
       gd_params := slice_rows (m_start md g) (m_count md g) (md_params md);
       gd_outputs := None |}.

  (** a generation that has been simulated: the reference results of its rows *)
  Definition final_gd (md : model_data) (dm : list node_result) (g : nat) : gen_data :=
    if m_count md g =? 0 then empty_gd else
    let rows := slice_rows (m_start md g) (m_count md g) dm in
    {| gd_count := m_count md g; gd_inputs := map (@nr_in _ _) rows;
       gd_states := map (@nr_st _ _) rows;
       gd_params := slice_rows (m_start md g) (m_count md g) (md_params md);
       gd_outputs := Some (map (@nr_out _ _) rows) |}.

  (** the reference input of node (m,row) restricted to the links [applied] *)
  Definition exp_row (d : done_t) (applied : list link) (m : nat) (md : model_data) (row : nat)
    : option (list Ser) :=
    init <- stored_input md row ;; ref_input_from d applied m row init.

  Definition exp_inputs (d : done_t) (applied : list link) (m : nat) (md : model_data) (g : nat)
    : option (list (list Ser)) :=
    mapM (exp_row d applied m md) (seq (m_start md g) (m_count md g)).

  (** what GetGeneration would return, without changing anything *)
  Definition view (md : model_data) (gens : list (option gen_data)) (g : nat) : option gen_data :=
    match nth_error gens g with
    | Some (Some gd) => Some gd
    | Some None => load_gen md g
    | None => None
    end.

  Lemma obind_eta {A} (o : option A) : (x <- o ;; Some x) = o.
  Proof. destruct o; reflexivity. Qed.

  Lemma mapM_const {A B} (c : B) (l : list A) : mapM (fun _ => Some c) l = Some (repeat c (length l)).
  Proof. induction l as [|x r IH]; cbn; [reflexivity|]. rewrite IH. reflexivity. Qed.

  Lemma load_gen_pending d m md g : In md M -> g < G ->
    exists ins, exp_inputs d [] m md g = Some ins /\ load_gen md g = Some (pending_gd md g ins).
  Proof.
    intros Hmd Hg.
    pose proof (@Vle md g Hmd Hg) as Hle.
    pose proof (@Vadd md g Hmd Hg) as Hadd.
    pose proof (@Vstop md g Hmd Hg) as Htot.
    unfold load_gen, exp_inputs, pending_gd.
    replace (m_stop md g <? m_start md g) with false by (symmetry; apply Nat.ltb_ge; exact Hle).
    fold (m_count md g).
    destruct (m_count md g =? 0) eqn:E0.
    - apply Nat.eqb_eq in E0. rewrite E0. cbn. eauto.
    - unfold exp_row, stored_input. cbn [ref_input_from foldM RefSim.ref_input_from].
      destruct (md_inputs md) as [[t tbl]|] eqn:EI.
      + destruct (@Vinputs md t tbl Hmd EI) as [Hlen _].
        exists (slice_rows (m_start md g) (m_count md g) tbl). split; [|reflexivity].
        erewrite mapM_ext; [apply mapM_nth_error_seq; lia|].
        intros x _. cbn. apply obind_eta.
      + eexists. split; [|reflexivity].
        cbn. rewrite mapM_const, seq_length, sim_length_eq. reflexivity.
  Qed.

  (** ---------- GetGeneration ---------- *)
  Lemma get_generation_loaded md gens g gd :
    nth_error gens g = Some (Some gd) -> get_generation md gens g = Some (gd, gens).
  Proof. intros H. unfold get_generation. rewrite H. reflexivity. Qed.

  Lemma get_generation_view md gens g gd :
    view md gens g = Some gd ->
    exists gens', get_generation md gens g = Some (gd, gens') /\
                  nth_error gens' g = Some (Some gd) /\ length gens' = length gens /\
                  (forall g', g' <> g -> nth_error gens' g' = nth_error gens g').
  Proof.
    unfold view, get_generation. intros H.
    destruct (nth_error gens g) as [[gd0|]|] eqn:E; [| |discriminate].
    - inversion H; subst. exists gens. repeat split; auto.
    - rewrite H. cbn.
      destruct (@upd_nth_Some _ gens g (fun _ => Some (Some gd)) None (Some gd) E eq_refl) as (gens' & U).
      rewrite U. cbn. exists gens'. split; [reflexivity|].
      destruct (upd_nth_spec _ _ _ U) as (Ln & (x & y & X & Y & Z) & O).
      inversion Y; subst. repeat split; auto.
  Qed.

  Lemma view_after md gens gens' g gd :
    view md gens g = Some gd ->
    nth_error gens' g = Some (Some gd) ->
    (forall g', g' <> g -> nth_error gens' g' = nth_error gens g') ->
    forall g', view md gens' g' = view md gens g'.
  Proof.
    intros V N O g'. unfold view. destruct (Nat.eq_dec g' g) as [->|Hne].
    - rewrite N. symmetry. exact V.
    - rewrite O by exact Hne. reflexivity.
  Qed.

  Lemma view_set md gens gens' g gd :
    upd_nth gens g (fun _ => Some (Some gd)) = Some gens' ->
    view md gens' g = Some gd /\ (forall g', g' <> g -> view md gens' g' = view md gens g') /\
    nth_error gens' g = Some (Some gd) /\ (forall g', g' <> g -> nth_error gens' g' = nth_error gens g') /\
    length gens' = length gens.
  Proof.
    intros U. destruct (upd_nth_spec _ _ _ U) as (Ln & (x & y & X & Y & Z) & O).
    inversion Y; subst. unfold view. rewrite Z. repeat split; auto.
    intros g' Hne. rewrite O by exact Hne. reflexivity.
  Qed.

  (** ---------- the reference input, link by link ---------- *)
  Local Notation contrib := (@contrib T Ser).
  Local Notation add_at := (add_at s_add).

  Definition link_step (d : done_t) (m row : nat) (acc : list Ser) (l : link) : option (list Ser) :=
    if targets l m row then s <- contrib d l ;; add_at acc (l_dest_var l) s else Some acc.

  Lemma rif_unfold d ls m row init : ref_input_from d ls m row init = foldM (link_step d m row) ls init.
  Proof. reflexivity. Qed.

  Lemma rif_app d a b m row init :
    ref_input_from d (a ++ b) m row init = (x <- ref_input_from d a m row init ;; ref_input_from d b m row x).
  Proof. rewrite !rif_unfold. apply foldM_app. Qed.

  Lemma rif_notarget d ls m row init :
    (forall l, In l ls -> targets l m row = false) -> ref_input_from d ls m row init = Some init.
  Proof.
    intros H. rewrite rif_unfold. apply foldM_id. intros x l Hl. unfold link_step. rewrite H by exact Hl. reflexivity.
  Qed.

  Lemma add_at_length a v s a' : add_at a v s = Some a' -> length a' = length a.
  Proof. unfold add_at, RefSim.add_at. intros H. apply upd_nth_spec in H. tauto. Qed.

  Lemma rif_length d ls m row : forall init x, ref_input_from d ls m row init = Some x -> length x = length init.
  Proof.
    induction ls as [|l r IH]; intros init x H; rewrite rif_unfold in H; cbn in H.
    - inversion H; reflexivity.
    - destruct (link_step d m row init l) as [a|] eqn:E; cbn in H; [|discriminate].
      rewrite <- rif_unfold in H. apply IH in H. rewrite H.
      unfold link_step in E. destruct (targets l m row).
      + destruct (contrib d l); cbn in E; [|discriminate]. eapply add_at_length; eauto.
      + inversion E; reflexivity.
  Qed.

  (** [d'] extends [d] (more rows for every model) *)
  Definition d_ext (d d' : done_t) : Prop :=
    forall m dm, nth_error d m = Some dm -> exists more, nth_error d' m = Some (dm ++ more).

  Lemma contrib_mono d d' l s : d_ext d d' -> contrib d l = Some s -> contrib d' l = Some s.
  Proof.
    intros E H. unfold contrib, RefSim.contrib in *.
    destruct (nth_error d (l_src_model l)) as [rows|] eqn:R; cbn in H; [|discriminate].
    destruct (E _ _ R) as (more & R'). rewrite R'. cbn.
    destruct (nth_error rows (l_src_node l)) as [nr|] eqn:N; cbn in H; [|discriminate].
    rewrite nth_error_app1 by (apply nth_error_Some; congruence). rewrite N. cbn. exact H.
  Qed.

  Lemma rif_mono d d' ls m row : d_ext d d' ->
    forall init x, ref_input_from d ls m row init = Some x -> ref_input_from d' ls m row init = Some x.
  Proof.
    intros E. induction ls as [|l r IH]; intros init x H; rewrite rif_unfold in *; cbn in *; [exact H|].
    destruct (link_step d m row init l) as [a|] eqn:S1; cbn in H; [|discriminate].
    assert (S2 : link_step d' m row init l = Some a).
    { unfold link_step in *. destruct (targets l m row); [|exact S1].
      destruct (contrib d l) as [s|] eqn:C; cbn in S1; [|discriminate].
      rewrite (contrib_mono _ _ _ _ E C). exact S1. }
    rewrite S2. cbn. rewrite <- rif_unfold in *. apply IH. exact H.
  Qed.

  Lemma exp_row_mono d d' applied m md row x : d_ext d d' ->
    exp_row d applied m md row = Some x -> exp_row d' applied m md row = Some x.
  Proof.
    intros E H. unfold exp_row in *. destruct (stored_input md row); cbn in *; [|discriminate].
    eapply rif_mono; eauto.
  Qed.

  Lemma exp_inputs_mono d d' applied m md g ins : d_ext d d' ->
    exp_inputs d applied m md g = Some ins -> exp_inputs d' applied m md g = Some ins.
  Proof.
    intros E H. unfold exp_inputs in *. rewrite <- H. apply mapM_ext. intros row Hr.
    destruct (exp_row d applied m md row) as [x|] eqn:X.
    - eapply exp_row_mono; eauto.
    - exfalso. rewrite (mapM_None_some _ _ _ Hr X) in H. discriminate.
  Qed.

  Lemma exp_row_snoc d applied l m md row :
    exp_row d (applied ++ [l]) m md row = (x <- exp_row d applied m md row ;; link_step d m row x l).
  Proof.
    unfold exp_row. destruct (stored_input md row); cbn; [|reflexivity].
    rewrite rif_app. destruct (ref_input_from d applied m row l0); cbn; [|reflexivity].
    destruct (link_step d m row l1 l); reflexivity.
  Qed.

  Lemma stored_input_length md row init : In md M ->
    stored_input md row = Some init -> length init = cat_nin cat (md_name md).
  Proof.
    intros Hmd H. unfold stored_input, RefSim.stored_input in H.
    destruct (md_inputs md) as [[t tbl]|] eqn:E.
    - destruct (@Vinputs md t tbl Hmd E) as [_ HF]. rewrite Forall_forall in HF. apply HF.
      eapply nth_error_In; eauto.
    - inversion H. apply repeat_length.
  Qed.

  Lemma exp_row_length d applied m md row x : In md M ->
    exp_row d applied m md row = Some x -> length x = cat_nin cat (md_name md).
  Proof.
    intros Hmd H. unfold exp_row in H. destruct (stored_input md row) eqn:S0; cbn in H; [|discriminate].
    rewrite (rif_length _ _ _ _ _ _ H). eapply stored_input_length; eauto.
  Qed.

  (** which rows a link points at *)
  Lemma targets_iff l m md g row : In l L -> nth_error M m = Some md -> g < G ->
    m_start md g <= row < m_stop md g ->
    (targets l m row = true <-> l_dest_model l = m /\ l_dest_gen l = g /\ row = m_start md g + l_dest_gen_node l).
  Proof.
    intros Hl Hm Hg Hrow. unfold targets. rewrite andb_true_iff, !Nat.eqb_eq.
    destruct (Vlink l Hl) as (ms & md' & _ & Hd & Hsd & HdG & _ & _ & _ & Hdn & Hdnode & _).
    assert (Hmd : In md M) by (eapply nth_error_In; eauto).
    split.
    - intros [E1 E2]. subst m. rewrite Hm in Hd. inversion Hd; subst md'.
      assert (l_dest_gen l = g).
      { eapply (@Vuniq md (l_dest_gen l) g row); eauto.
        pose proof (@Vadd md (l_dest_gen l) Hmd HdG). lia. }
      subst g. repeat split; auto. lia.
    - intros (E1 & E2 & E3). subst. rewrite Hm in Hd. inversion Hd; subst md'. split; auto.
  Qed.

  Lemma targets_later l m md g row : In l L -> nth_error M m = Some md -> g < G ->
    m_start md g <= row < m_stop md g -> g <= l_src_gen l -> targets l m row = false.
  Proof.
    intros Hl Hm Hg Hrow Hge. destruct (targets l m row) eqn:E; [|reflexivity].
    apply (targets_iff l m md g row Hl Hm Hg Hrow) in E. destruct E as (_ & E & _).
    destruct (Vlink l Hl) as (ms & md' & _ & _ & Hsd & _). lia.
  Qed.

  (** ---------- the table of reference results ---------- *)
  Definition done_wf (n : nat) (d : done_t) : Prop :=
    length d = length M /\
    forall m md, nth_error M m = Some md ->
      exists dm, nth_error d m = Some dm /\ length dm = m_start md n /\
                 Forall (fun nr => length (nr_out nr) = cat_nout cat (md_name md)) dm.

  Lemma contrib_done n d l : done_wf n d -> n <= G -> In l L -> l_src_gen l < n ->
    exists ms dm nr sdata,
      nth_error M (l_src_model l) = Some ms /\ nth_error d (l_src_model l) = Some dm /\
      nth_error dm (l_src_node l) = Some nr /\ nth_error (nr_out nr) (l_src_var l) = Some sdata /\
      contrib d l = Some sdata.
  Proof.
    intros [_ Hd] HnG Hl Hn.
    destruct (Vlink l Hl) as (ms & md & Hs & _ & Hsd & HdG & Hsn & Hsnode & Hsv & _).
    destruct (Hd _ _ Hs) as (dm & Hdm & Hlen & Hwf).
    assert (Hms : In ms M) by (eapply nth_error_In; eauto).
    assert (HsG : l_src_gen l < G) by lia.
    pose proof (@Vadd ms (l_src_gen l) Hms HsG) as Ha.
    pose proof (@Vmono ms (S (l_src_gen l)) n Hms ltac:(lia) HnG) as Hmo. cbn [m_start] in Hmo.
    fold (m_stop ms (l_src_gen l)) in Hmo.
    destruct (nth_error dm (l_src_node l)) as [nr|] eqn:N.
    2:{ apply nth_error_None in N. lia. }
    assert (Ho : length (nr_out nr) = cat_nout cat (md_name ms)).
    { rewrite Forall_forall in Hwf. apply Hwf. eapply nth_error_In; eauto. }
    destruct (nth_error (nr_out nr) (l_src_var l)) as [sdata|] eqn:V.
    2:{ apply nth_error_None in V. lia. }
    exists ms, dm, nr, sdata. repeat split; auto.
    unfold contrib, RefSim.contrib. rewrite Hdm. cbn. rewrite N. cbn. exact V.
  Qed.

End Proofs.
